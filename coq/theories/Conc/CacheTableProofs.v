(* Conc/CacheTableProofs.v — the node table of Conc/CacheTable.v refines a finite map: invariant of the
   reachable tables, effect of every operation and of every background resize step on the logical
   contents [live], simulation by the map [mstep]; placement, enumeration, frozen buckets, resizes. *)
From GL Require Import Conc.CacheTable Conc.CacheTableLemmas Conc.CacheTableInv.
From Coq Require Import Lia Sorted Permutation.

Section Proofs.
Variable hashf : N -> N -> N.
Variable P : tparams.
Hypothesis Pok : exists e, tp_init P = 2 ^ e.

Notation chain_ok := (chain_ok hashf).
Notation placed := (placed hashf).
Notation nodes_ok := (nodes_ok hashf).

(* ------------------------------------------------------------------ the logical contents *)

Definition lives (hs : list head) : list tnode :=
  match hs with [] => [] | h :: _ => flat_map (content hs) (indices h) end.

Lemma live_lives : forall t, live t = lives (t_heads t).
Proof. reflexivity. Qed.

Lemma in_indices : forall h i, In i (indices h) <-> i < hlen h.
Proof. intros. unfold indices, hlen. apply in_seq_N. Qed.

Lemma in_lives : forall h rest x, chain_ok (h :: rest) ->
  (In x (lives (h :: rest)) <-> In x (content (h :: rest) (N.land (tn_hash x) (h_mask h)))).
Proof.
  intros h rest x Hok. unfold lives. rewrite in_flat_map. split.
  - intros [i [Hi Hx]]. apply in_indices in Hi.
    destruct (content_ok hashf _ Hok h rest eq_refl i Hi) as [_ Hpl].
    destruct (Hpl x Hx) as [<- _]. exact Hx.
  - intro Hx. eexists. split; [|exact Hx]. apply in_indices. apply land_mask_lt.
    eapply chain_ok_shape; eauto.
Qed.

Lemma lives_placed : forall h rest x, chain_ok (h :: rest) -> In x (lives (h :: rest)) ->
  tn_hash x = hashf (tn_ns x) (tn_key x).
Proof.
  intros h rest x Hok Hx. unfold lives in Hx. apply in_flat_map in Hx. destruct Hx as [i [Hi Hx]].
  apply in_indices in Hi. destruct (content_ok hashf _ Hok h rest eq_refl i Hi) as [_ Hpl].
  apply (Hpl x Hx).
Qed.

Lemma lives_keys_nodup : forall h rest, chain_ok (h :: rest) -> NoDup (map tkey (lives (h :: rest))).
Proof.
  intros h rest Hok. unfold lives. rewrite map_flat_map. apply NoDup_flat_map.
  - apply NoDup_seq_N.
  - intros i Hi. apply in_indices in Hi. eapply nodes_ok_nodup_keys. eapply content_ok; eauto.
  - intros i j k Hi Hj Hki Hkj. apply in_indices in Hi. apply in_indices in Hj.
    apply in_map_iff in Hki. apply in_map_iff in Hkj. destruct Hki as [x [Ex Hx]], Hkj as [y [Ey Hy]].
    destruct (content_ok hashf _ Hok h rest eq_refl i Hi) as [_ Hpi].
    destruct (content_ok hashf _ Hok h rest eq_refl j Hj) as [_ Hpj].
    eapply placed_same_key; [apply (Hpi x Hx)|apply (Hpj y Hy)|congruence].
Qed.

Lemma lives_nodup : forall h rest, chain_ok (h :: rest) -> NoDup (lives (h :: rest)).
Proof. intros. apply keys_nodup_nodup, lives_keys_nodup; auto. Qed.

(* a key is found in the table exactly in the bucket its hash selects *)
Lemma lives_key_bucket : forall h rest ns key x, chain_ok (h :: rest) -> In x (lives (h :: rest)) ->
  tn_eq ns key x = true -> In x (content (h :: rest) (N.land (hashf ns key) (h_mask h))).
Proof.
  intros h rest ns key x Hok Hx He. pose proof (lives_placed _ _ _ Hok Hx) as Hh.
  apply tn_eq_spec in He. destruct He as [<- <-]. rewrite <- Hh. apply in_lives; auto.
Qed.

(* same skeleton and same contents bucket by bucket: same logical contents *)
Lemma lives_ext : forall h rest h' rest', hlen h' = hlen h ->
  (forall i, i < hlen h -> content (h' :: rest') i = content (h :: rest) i) ->
  lives (h' :: rest') = lives (h :: rest).
Proof.
  intros h rest h' rest' Hl Hc. unfold lives.
  assert (E : indices h' = indices h) by (unfold indices, hlen in *; f_equal; f_equal; lia).
  rewrite E. apply flat_map_ext_in. intros i Hi. apply Hc. apply in_indices; auto.
Qed.

(* ------------------------------------------------------------------ the invariant of reachable tables *)

Definition top_ok (hs : list head) : Prop :=
  match hs with
  | [] => False
  | h :: rest => (forall i, b_state (bget h i) <> BFrozen) /\ h_resizing h = false /\
                 Forall (fun p => h_resizing p = true) rest
  end.

(* the head at depth d was created by resize number n - d *)
Definition ids_ok (hs : list head) (n : N) : Prop :=
  forall d id, nth_error (map h_id hs) d = Some id -> id + N.of_nat d = n.

Definition twf (t : table) : Prop :=
  t_panic t = false /\ chain_ok (t_heads t) /\ top_ok (t_heads t) /\
  ids_ok (t_heads t) (t_ngrow t + t_nshrink t) /\
  t_nodes t = Z.of_nat (length (live t)) /\
  NoDup (map tn_id (live t)) /\ (forall x, In x (live t) -> tn_id x < t_next t).

Lemma evolves_resizing : forall a b, evolves a b -> Forall (fun p => h_resizing p = true) a ->
  Forall (fun p => h_resizing p = true) b.
Proof.
  intros a b H. induction H; intros Hf; constructor; inversion Hf; subst; auto.
  destruct H as (_ & _ & _ & Hr & _). congruence.
Qed.

Lemma evolves_map_id : forall a b, evolves a b -> map h_id b = map h_id a.
Proof. intros a b H. induction H; simpl; auto. destruct H as (Hid & _). congruence. Qed.

Lemma evolves_ids : forall a b n, evolves a b -> ids_ok a n -> ids_ok b n.
Proof. intros a b n H Hi. unfold ids_ok. rewrite (evolves_map_id _ _ H). exact Hi. Qed.


(* ------------------------------------------------------------------ getBucket: the bucket is made ready *)

Lemma init_top : forall h rest i, chain_ok (h :: rest) -> top_ok (h :: rest) -> i < hlen h ->
  exists h1 rest1, init_bucket (length (h :: rest)) (h :: rest) i = (h1 :: rest1, false) /\
    chain_ok (h1 :: rest1) /\ top_ok (h1 :: rest1) /\ head_le h h1 /\ evolves rest rest1 /\
    (forall i', i' < hlen h -> content (h1 :: rest1) i' = content (h :: rest) i') /\
    lives (h1 :: rest1) = lives (h :: rest) /\
    b_state (bget h1 i) = BInit /\ b_nodes (bget h1 i) = content (h :: rest) i.
Proof.
  intros h rest i Hok Htop Hi.
  destruct (init_ok hashf (length (h :: rest)) h rest i (le_n _) Hok Hi)
    as (h1 & rest1 & E & Hok1 & Hle & Hev & Hc & Hs & Hfr).
  exists h1, rest1. destruct Htop as (Hnf & Hrz & Hall).
  assert (Hst : b_state (bget h1 i) = BInit).
  { destruct (b_state (bget h1 i)) eqn:Es; auto; [congruence|]. exfalso. apply (Hnf i). apply Hfr; auto. }
  split; [exact E|]. split; [exact Hok1|]. split.
  { split; [|split].
    - intros i' Hf. apply (Hnf i'). apply Hfr; auto.
    - destruct Hle as (_ & _ & _ & Hr & _). congruence.
    - eapply evolves_resizing; eauto. }
  split; [exact Hle|]. split; [exact Hev|]. split; [exact Hc|]. split.
  { apply lives_ext; auto. apply head_le_hlen; auto. }
  split; [exact Hst|].
  rewrite <- (Hc i Hi). rewrite content_cons_init by congruence. reflexivity.
Qed.

(* heads that differ only in the counters and flags *)
Definition same_core (h h' : head) : Prop :=
  h_buckets h' = h_buckets h /\ h_mask h' = h_mask h /\ h_pred h' = h_pred h.

Lemma same_core_bget : forall h h' i, same_core h h' -> bget h' i = bget h i.
Proof. intros h h' i (Hb & _). unfold bget. rewrite Hb. reflexivity. Qed.
Lemma same_core_hlen : forall h h', same_core h h' -> hlen h' = hlen h.
Proof. intros h h' (Hb & _). unfold hlen. rewrite Hb. reflexivity. Qed.

Lemma content_core : forall h h' rest i, same_core h h' -> content (h' :: rest) i = content (h :: rest) i.
Proof.
  intros h h' rest i Hc. rewrite !content_unfold1. rewrite (same_core_bget _ _ i Hc), (same_core_hlen _ _ Hc).
  destruct Hc as (_ & -> & _). reflexivity.
Qed.

Lemma lives_core : forall h h' rest, same_core h h' -> lives (h' :: rest) = lives (h :: rest).
Proof.
  intros. apply lives_ext; [apply same_core_hlen; auto|]. intros. apply content_core; auto.
Qed.

Lemma chain_ok_core : forall h h' rest, same_core h h' -> chain_ok (h :: rest) -> chain_ok (h' :: rest).
Proof.
  intros h h' rest Hc Hok. pose proof Hc as (Hb & Hm & Hp).
  apply (chain_ok_replace_head hashf h); auto.
  - intros i Hi Hs. rewrite (same_core_hlen _ _ Hc) in Hi. rewrite (same_core_bget _ _ i Hc) in *.
    destruct (chain_ok_head _ _ _ Hok i Hi Hs) as [Hso Hpl]. split; auto.
    intros x Hx. destruct (Hpl x Hx). split; auto. congruence.
  - apply same_core_hlen; auto.
  - intros i Hs. rewrite (same_core_bget _ _ i Hc). auto.
Qed.

(* ------------------------------------------------------------------ rewriting one bucket of the newest head *)

Lemma content_bset : forall h rest i i' nodes, i < hlen h ->
  content (bset h i (mkB BInit nodes) :: rest) i' = if i' =? i then nodes else content (h :: rest) i'.
Proof.
  intros h rest i i' nodes Hi. destruct (N.eqb_spec i' i).
  - subst. rewrite content_cons_init by (rewrite bget_bset_eq by auto; discriminate).
    rewrite bget_bset_eq by auto. reflexivity.
  - rewrite !content_unfold1. rewrite bget_bset_neq by auto. rewrite hlen_bset. reflexivity.
Qed.

Lemma in_lives_bset : forall h rest i nodes x, chain_ok (h :: rest) -> i < hlen h ->
  (In x (lives (bset h i (mkB BInit nodes) :: rest)) <->
   (In x nodes \/ (In x (lives (h :: rest)) /\ N.land (tn_hash x) (h_mask h) <> i))).
Proof.
  intros h rest i nodes x Hok Hi. unfold lives at 1. rewrite in_flat_map.
  assert (Eidx : forall j, In j (indices (bset h i (mkB BInit nodes))) <-> j < hlen h).
  { intro j. rewrite in_indices, hlen_bset. tauto. }
  split.
  - intros [j [Hj Hx]]. apply Eidx in Hj. rewrite content_bset in Hx by auto.
    destruct (N.eqb_spec j i); [left; auto|]. right.
    destruct (content_ok hashf _ Hok h rest eq_refl j Hj) as [_ Hpl]. destruct (Hpl x Hx) as [Hl _].
    split; [|congruence]. unfold lives. apply in_flat_map. exists j. split; [apply in_indices|]; auto.
  - intros [Hx|[Hx Hne]].
    + exists i. split; [apply Eidx; auto|]. rewrite content_bset by auto. rewrite N.eqb_refl. auto.
    + exists (N.land (tn_hash x) (h_mask h)). split.
      * apply Eidx. apply land_mask_lt. eapply chain_ok_shape; eauto.
      * rewrite content_bset by auto. destruct (N.eqb_spec (N.land (tn_hash x) (h_mask h)) i); [contradiction|].
        apply in_lives; auto.
Qed.

Lemma chain_ok_bset : forall h rest i nodes, chain_ok (h :: rest) -> i < hlen h ->
  b_state (bget h i) <> BUninit -> nodes_ok h i nodes -> chain_ok (bset h i (mkB BInit nodes) :: rest).
Proof.
  intros h rest i nodes Hok Hi Hs Hn. apply (chain_ok_replace_head hashf h); auto; try apply hlen_bset.
  - intros j Hj Hsj. rewrite hlen_bset in Hj. destruct (N.eq_dec i j).
    + subst j. rewrite bget_bset_eq by auto. simpl. destruct Hn as [Hso Hpl]. split; auto.
    + rewrite bget_bset_neq in * by auto. destruct (chain_ok_head _ _ _ Hok j Hj Hsj) as [Hso Hpl]. split; auto.
  - intros j Hsj. destruct (N.eq_dec i j).
    + subst j. rewrite bget_bset_eq by auto. discriminate.
    + rewrite bget_bset_neq by auto. auto.
Qed.


(* ------------------------------------------------------------------ a new head in front of the chain *)

Lemma bget_new_head : forall id n i, bget (new_head P id n) i = ubucket.
Proof.
  intros. unfold bget, new_head. simpl. destruct (Compare_dec.lt_dec (N.to_nat i) n).
  - apply nth_repeat'; auto.
  - apply nth_overflow. rewrite repeat_length. lia.
Qed.

Lemma hlen_new_head : forall id n, hlen (new_head P id n) = N.of_nat n.
Proof. intros. unfold hlen, new_head. simpl. rewrite repeat_length. reflexivity. Qed.

Lemma mask_new_head : forall id n, h_mask (new_head P id n) = N.of_nat n - 1.
Proof. reflexivity. Qed.

Lemma ones_pred : forall e, 2 ^ e - 1 = N.ones e.
Proof. intro. rewrite N.ones_equiv. lia. Qed.

Lemma chain_ok_push : forall nh h rest, chain_ok (h :: rest) -> (forall i, bget nh i = ubucket) ->
  h_pred nh = true -> link nh h -> chain_ok (nh :: h :: rest).
Proof.
  intros nh h rest Hok Hu Hp Hl. split; [|split; [split; auto|exact Hok]].
  intros i Hi Hs. rewrite Hu in Hs. simpl in Hs. congruence.
Qed.

Lemma in_content_in_lives : forall h rest i x, i < hlen h -> In x (content (h :: rest) i) -> In x (lives (h :: rest)).
Proof. intros. unfold lives. apply in_flat_map. exists i. split; [apply in_indices|]; auto. Qed.

Lemma push_grow : forall h rest id e, chain_ok (h :: rest) -> shape h e ->
  let nh := new_head P id (2 * length (h_buckets h)) in
  chain_ok (nh :: h :: rest) /\ Permutation (lives (nh :: h :: rest)) (lives (h :: rest)).
Proof.
  intros h rest id e Hok [Hm Hl] nh.
  assert (Hnl : hlen nh = 2 ^ (e + 1)).
  { unfold nh. rewrite hlen_new_head. rewrite Nat2N.inj_mul. fold (hlen h). rewrite Hl, pow_succ1. reflexivity. }
  assert (Hnm : h_mask nh = N.ones (e + 1)).
  { unfold nh. rewrite mask_new_head. rewrite Nat2N.inj_mul. fold (hlen h). rewrite Hl, <- pow_succ1. apply ones_pred. }
  assert (Hok' : chain_ok (nh :: h :: rest)).
  { apply chain_ok_push; auto. intro; apply bget_new_head. exists e. left. split; split; auto. }
  split; [exact Hok'|].
  apply NoDup_Permutation; [apply lives_nodup; auto|apply lives_nodup; auto|].
  intro x. rewrite (in_lives _ _ _ Hok'), (in_lives _ _ _ Hok).
  rewrite content_unfold. unfold nh at 1. rewrite bget_new_head. simpl b_state. cbv iota.
  rewrite Hnm, Hm, ones_ltb_succ. rewrite filter_In, N.eqb_eq. rewrite <- land_coarsen. tauto.
Qed.

Lemma push_shrink : forall h rest id e, chain_ok (h :: rest) -> shape h (e + 1) ->
  let nh := new_head P id (Nat.div2 (length (h_buckets h))) in
  chain_ok (nh :: h :: rest) /\ Permutation (lives (nh :: h :: rest)) (lives (h :: rest)).
Proof.
  intros h rest id e Hok [Hm Hl] nh.
  assert (Hnl : hlen nh = 2 ^ e).
  { unfold nh. rewrite hlen_new_head. rewrite Nat2N.inj_div2. fold (hlen h). rewrite Hl, pow_succ1.
    rewrite N.div2_div, N.mul_comm. apply N.div_mul. lia. }
  assert (Hnm : h_mask nh = N.ones e).
  { unfold nh in *. rewrite mask_new_head. rewrite hlen_new_head in Hnl. rewrite Hnl. apply ones_pred. }
  assert (Hok' : chain_ok (nh :: h :: rest)).
  { apply chain_ok_push; auto. intro; apply bget_new_head. exists e. right. split; split; auto. }
  split; [exact Hok'|].
  apply NoDup_Permutation; [apply lives_nodup; auto|apply lives_nodup; auto|].
  intro x. rewrite (in_lives _ _ _ Hok'), (in_lives _ _ _ Hok).
  rewrite content_unfold. unfold nh at 1. rewrite bget_new_head. simpl b_state. cbv iota.
  rewrite Hnm, Hm, ones_ltb_succ', Hnl. rewrite sort_nodes_in, in_app_iff.
  assert (Hlt : N.land (tn_hash x) (N.ones e) < 2 ^ e) by apply land_ones_lt.
  split.
  - intros [Hx|Hx].
    + assert (Hin : In x (lives (h :: rest))) by (eapply in_content_in_lives; eauto; rewrite Hl, pow_succ1; lia).
      apply in_lives in Hin; auto. rewrite Hm in Hin. exact Hin.
    + assert (Hin : In x (lives (h :: rest))) by (eapply in_content_in_lives; eauto; rewrite Hl, pow_succ1; lia).
      apply in_lives in Hin; auto. rewrite Hm in Hin. exact Hin.
  - intro Hx. destruct (land_refine (tn_hash x) e) as [E|E]; rewrite E in Hx; auto.
Qed.


(* ------------------------------------------------------------------ the simulation *)

Definition R (t : table) (m : kmap) : Prop :=
  twf t /\ Permutation (live t) (km_nodes m) /\ km_next m = t_next t.

Definition res_match (r r' : tres) : Prop :=
  match r, r' with
  | REnum l, REnum l' => Permutation l l'
  | RBg _, RBg _ => True
  | _, _ => r = r'
  end.

Lemma twf_heads : forall t, twf t -> exists h rest, t_heads t = h :: rest.
Proof.
  intros t (_ & Hok & _). destruct (t_heads t) as [|h rest]; [destruct Hok|eauto].
Qed.

Lemma get_bucket_ok : forall t hash, twf t ->
  exists h rest h1 rest1, t_heads t = h :: rest /\
    get_bucket hash t = (set_heads (h1 :: rest1) t, N.land hash (h_mask h)) /\
    N.land hash (h_mask h) < hlen h /\
    chain_ok (h1 :: rest1) /\ top_ok (h1 :: rest1) /\ head_le h h1 /\ evolves rest rest1 /\
    (forall i', i' < hlen h -> content (h1 :: rest1) i' = content (h :: rest) i') /\
    lives (h1 :: rest1) = lives (h :: rest) /\
    b_state (bget h1 (N.land hash (h_mask h))) = BInit /\
    b_nodes (bget h1 (N.land hash (h_mask h))) = content (h :: rest) (N.land hash (h_mask h)).
Proof.
  intros t hash Hwf. destruct (twf_heads t Hwf) as (h & rest & Eh).
  destruct Hwf as (Hp & Hok & Htop & _). rewrite Eh in *.
  assert (Hi : N.land hash (h_mask h) < hlen h) by (apply land_mask_lt; eapply chain_ok_shape; eauto).
  destruct (init_top h rest _ Hok Htop Hi) as (h1 & rest1 & E & H).
  exists h, rest, h1, rest1. split; [reflexivity|]. split; [|split; [exact Hi|exact H]].
  unfold get_bucket. rewrite Eh, E. reflexivity.
Qed.

(* the map finds a key exactly when the bucket its hash selects holds it *)
Lemma find_agree : forall h rest m ns key, chain_ok (h :: rest) -> Permutation (lives (h :: rest)) m ->
  km_find ns key m = find (tn_eq ns key) (content (h :: rest) (N.land (hashf ns key) (h_mask h))).
Proof.
  intros h rest m ns key Hok Hperm. unfold km_find.
  assert (Hnd : NoDup (map tkey m)).
  { eapply Permutation_NoDup; [apply Permutation_map; exact Hperm|]. apply lives_keys_nodup; auto. }
  destruct (find (tn_eq ns key) (content _ _)) as [n|] eqn:Ef.
  - apply find_key_some in Ef. destruct Ef as [Hin He]. apply find_key_in; auto.
    eapply Permutation_in; [exact Hperm|]. eapply in_content_in_lives; eauto.
    apply land_mask_lt. eapply chain_ok_shape; eauto.
  - apply find_none_all. intros y Hy. destruct (tn_eq ns key y) eqn:He; auto. exfalso.
    apply Permutation_sym in Hperm. pose proof (Permutation_in _ Hperm Hy) as Hl.
    pose proof (lives_key_bucket _ _ _ _ _ Hok Hl He) as Hb.
    pose proof (find_key_none _ _ _ Ef y Hb). congruence.
Qed.

Lemma sort_insert_perm : forall x l, Permutation (sort_insert x l) (x :: l).
Proof.
  induction l; simpl; auto. destruct (tn_lt (tn_ns a) (tn_key a) x); auto.
  eapply perm_trans; [apply perm_skip; exact IHl|apply perm_swap].
Qed.

Lemma ids_ok_cons : forall h hs n, ids_ok hs n -> h_id h = n + 1 -> ids_ok (h :: hs) (n + 1).
Proof.
  intros h hs n Hi Hid d id Hn. destruct d as [|d]; simpl in Hn.
  - inversion Hn; subst. lia.
  - pose proof (Hi d id Hn). lia.
Qed.

Lemma ids_ok_same : forall hs hs' n, map h_id hs' = map h_id hs -> ids_ok hs n -> ids_ok hs' n.
Proof. intros hs hs' n E H. unfold ids_ok. rewrite E. exact H. Qed.


(* what a step does to the heads: at most one new head in front; the heads that were there keep their
   identity, and their frozen buckets are left exactly as they are *)
Definition hd_rel (k : nat) (hs hs' : list head) : Prop :=
  forall d h h', nth_error hs d = Some h -> nth_error hs' (k + d) = Some h' ->
    h_id h' = h_id h /\ forall i, b_state (bget h i) = BFrozen -> bget h' i = bget h i.
Definition step_struct (t t' : table) : Prop :=
  exists k, (k = 0 \/ k = 1)%nat /\ t_ngrow t' + t_nshrink t' = N.of_nat k + (t_ngrow t + t_nshrink t) /\
    hd_rel k (t_heads t) (t_heads t').

Lemma hd_rel_evolves : forall hs hs', evolves hs hs' -> hd_rel 0 hs hs'.
Proof.
  intros hs hs' H. induction H; intros d h h' Hn Hn'; [destruct d; discriminate|].
  destruct d as [|d]; simpl in *.
  - inversion Hn; inversion Hn'; subst. destruct H as (Hid & _ & _ & _ & _ & _ & _ & _ & Hb). split; auto.
    intros i Hf. specialize (Hb i). unfold bucket_le in Hb. rewrite Hf in Hb. exact Hb.
  - eapply IHForall2; eauto.
Qed.

Lemma hd_rel_upd : forall h rest h1 rest1 h2 i, evolves (h :: rest) (h1 :: rest1) -> b_state (bget h1 i) = BInit ->
  (forall j, j <> i -> bget h2 j = bget h1 j) -> h_id h2 = h_id h1 -> hd_rel 0 (h :: rest) (h2 :: rest1).
Proof.
  intros h rest h1 rest1 h2 i Hev Hs Hb Hid d x x' Hn Hn'. pose proof (hd_rel_evolves _ _ Hev) as Hr.
  destruct d as [|d]; simpl in *.
  - inversion Hn; inversion Hn'; subst. destruct (Hr O x h1 eq_refl eq_refl) as [Hid1 Hfr]. split; [congruence|].
    intros j Hf. pose proof (Hfr j Hf) as E. rewrite Hb; auto. intro; subst j. rewrite E in Hs. congruence.
  - apply (Hr (S d) x x'); auto.
Qed.

Lemma hd_rel_push : forall hs hs' x, hd_rel 0 hs hs' -> hd_rel 1 hs (x :: hs').
Proof. intros hs hs' x H d h h' Hn Hn'. simpl in Hn'. apply (H d h h'); auto. Qed.

Lemma struct_same : forall t hs', evolves (t_heads t) hs' -> step_struct t (set_heads hs' t).
Proof.
  intros t hs' Hev. exists O. split; [auto|]. split; [simpl; lia|]. simpl. apply hd_rel_evolves; auto.
Qed.

Lemma struct_refl : forall t, step_struct t t.
Proof. intro t. exists O. split; [auto|]. split; [lia|]. apply hd_rel_evolves, evolves_refl. Qed.

Lemma twf_intro : forall hs nodes g s next, chain_ok hs -> top_ok hs -> ids_ok hs (g + s) ->
  nodes = Z.of_nat (length (lives hs)) -> NoDup (map tn_id (lives hs)) ->
  (forall x, In x (lives hs) -> tn_id x < next) -> twf (mkT hs nodes g s next false).
Proof. intros. unfold twf. simpl. repeat split; auto. Qed.

Lemma twf_set_heads : forall t h rest hs', twf t -> t_heads t = h :: rest -> chain_ok hs' -> top_ok hs' ->
  evolves (h :: rest) hs' -> lives hs' = lives (h :: rest) ->
  twf (set_heads hs' t) /\ live (set_heads hs' t) = live t.
Proof.
  intros t h rest hs' (Hp & Hok & Htop & Hids & Hn & Hnd & Hb) Eh Hok' Htop' Hev Hl.
  assert (El : live (set_heads hs' t) = live t).
  { rewrite !live_lives. simpl. rewrite Eh. exact Hl. }
  split; [|exact El]. unfold twf. rewrite El. simpl. repeat split; auto.
  rewrite Eh in Hids. eapply evolves_ids; eauto.
Qed.

Lemma insert_bucket : forall h rest i n0, chain_ok (h :: rest) -> i < hlen h -> b_state (bget h i) = BInit ->
  find (tn_eq (tn_ns n0) (tn_key n0)) (b_nodes (bget h i)) = None ->
  tn_hash n0 = hashf (tn_ns n0) (tn_key n0) -> N.land (tn_hash n0) (h_mask h) = i ->
  let hB := bset h i (mkB BInit (sort_insert n0 (b_nodes (bget h i)))) in
  chain_ok (hB :: rest) /\ Permutation (lives (hB :: rest)) (n0 :: lives (h :: rest)) /\
  ~ In n0 (lives (h :: rest)) /\
  (forall j, b_state (bget hB j) = BFrozen -> b_state (bget h j) = BFrozen).
Proof.
  intros h rest i n0 Hok Hi Hs Hf Hh Hl hB.
  assert (Hsne : b_state (bget h i) <> BUninit) by congruence.
  destruct (chain_ok_head _ _ _ Hok i Hi Hsne) as [Hso Hpl].
  assert (Hci : content (h :: rest) i = b_nodes (bget h i)) by (apply content_cons_init; auto).
  assert (Hnotin : ~ In n0 (lives (h :: rest))).
  { intro Hin. apply in_lives in Hin; auto. rewrite Hl, Hci in Hin.
    pose proof (find_key_none _ _ _ Hf n0 Hin) as X.
    assert (tn_eq (tn_ns n0) (tn_key n0) n0 = true) by (apply tn_eq_spec; auto). congruence. }
  assert (Hok' : chain_ok (hB :: rest)).
  { apply chain_ok_bset; auto. split.
    - apply sort_insert_sorted; auto. intros y Hy E.
      pose proof (find_key_none _ _ _ Hf y Hy) as X. apply tn_eq_false in X. unfold tkey in E. inversion E. tauto.
    - intros x Hx. apply sort_insert_in in Hx. destruct Hx as [->|Hx]; [split; auto|apply Hpl; auto]. }
  split; [exact Hok'|]. split; [|split; [exact Hnotin|]].
  - apply NoDup_Permutation; [apply lives_nodup; auto|constructor; [auto|apply lives_nodup; auto]|].
    intro x. unfold hB. rewrite in_lives_bset by auto. rewrite sort_insert_in. simpl. split.
    + intros [[->|Hx]|[Hx _]]; auto. right. eapply in_content_in_lives; eauto. rewrite Hci; auto.
    + intros [<-|Hx]; auto.
      destruct (N.eq_dec (N.land (tn_hash x) (h_mask h)) i) as [E|E]; [|auto].
      left. right. apply in_lives in Hx; auto. rewrite E, Hci in Hx. exact Hx.
  - intros j Hj. unfold hB in Hj. destruct (N.eq_dec i j).
    + subst j. rewrite bget_bset_eq in Hj by auto. discriminate.
    + rewrite bget_bset_neq in Hj by auto. exact Hj.
Qed.

Lemma shape_core : forall h h' e, same_core h h' -> shape h e -> shape h' e.
Proof.
  intros h h' e Hc [Hm Hl]. split; [destruct Hc as (_ & -> & _); auto|rewrite (same_core_hlen _ _ Hc); auto].
Qed.

Lemma t_get_sim : forall t m ns key g, R t m ->
  let '(t', r) := t_get hashf P ns key g t in
  let '(m', r') := mstep hashf m (TGet ns key g) in
  R t' m' /\ r = r' /\ step_struct t t'.
Proof.
  intros t m ns key g (Hwf & Hperm & Hnext).
  destruct (get_bucket_ok t (hashf ns key) Hwf)
    as (h & rest & h1 & rest1 & Eh & Egb & Hi & Hok1 & Htop1 & Hle & Hev & Hc & Hlv & Hst & Hbn).
  set (i := N.land (hashf ns key) (h_mask h)) in *.
  assert (Hev' : evolves (h :: rest) (h1 :: rest1)) by (constructor; auto).
  destruct (twf_set_heads t h rest (h1 :: rest1) Hwf Eh Hok1 Htop1 Hev' Hlv) as [Hwf1 Hl1].
  pose proof Hwf as (Hp & Hok & Htop & Hids & Hn & Hnd & Hb).
  rewrite Eh in Hok.
  assert (Hi1 : i < hlen h1) by (rewrite (head_le_hlen _ _ Hle); auto).
  assert (Hm1 : h_mask h1 = h_mask h) by (apply head_le_mask; auto).
  assert (Hsne : b_state (bget h1 i) <> BUninit) by congruence.
  destruct (chain_ok_head _ _ _ Hok1 i Hi1 Hsne) as [Hso Hpl].
  assert (Hfa : km_find ns key (km_nodes m) = find (tn_eq ns key) (b_nodes (bget h1 i))).
  { rewrite Hbn. apply find_agree; auto. rewrite live_lives, Eh in Hperm. exact Hperm. }
  assert (Hstr0 : step_struct t (set_heads (h1 :: rest1) t)) by (apply struct_same; rewrite Eh; exact Hev').
  unfold t_get. rewrite Egb. cbv beta iota. cbn [t_heads set_heads]. rewrite Hst.
  rewrite (search_find ns key _ Hso). cbn [mstep]. rewrite Hfa.
  destruct (find (tn_eq ns key) (b_nodes (bget h1 i))) as [n|] eqn:Ef.
  { split; [|split; [reflexivity|exact Hstr0]]. split; [exact Hwf1|]. split; [rewrite Hl1; exact Hperm|exact Hnext]. }
  destruct g.
  { split; [|split; [reflexivity|exact Hstr0]]. split; [exact Hwf1|]. split; [rewrite Hl1; exact Hperm|exact Hnext]. }
  (* creation *)
  rewrite insert_search by auto.
  set (n0 := mkTN ns key (hashf ns key) (t_next t)).
  assert (Hins := insert_bucket h1 rest1 i n0 Hok1 Hi1 Hst Ef eq_refl).
  simpl tn_hash in Hins. rewrite Hm1 in Hins. specialize (Hins eq_refl).
  cbv zeta in Hins. destruct Hins as (HokB & HpermB & HnotinB & HfrB).
  set (hB := bset h1 i (mkB BInit (sort_insert n0 (b_nodes (bget h1 i))))) in *.
  assert (Hl1' : lives (h1 :: rest1) = live t) by (rewrite live_lives, Eh; exact Hlv).
  destruct Htop1 as (Hnf1 & Hrz1 & Hall1).
  match goal with |- context [if tp_ovf P <? ?l then ?a else ?b] => destruct (if tp_ovf P <? l then a else b) as [grow ovf] end.
  rewrite Hrz1. cbn [negb]. rewrite andb_true_r. cbn [t_heads set_heads t_nodes t_ngrow t_nshrink t_next t_panic].
  set (h2 := set_overflow ovf hB).
  assert (Hcore : same_core hB h2) by (unfold h2, same_core; simpl; auto).
  assert (Hok2 : chain_ok (h2 :: rest1)) by (eapply chain_ok_core; eauto).
  assert (Hlv2 : lives (h2 :: rest1) = lives (hB :: rest1)) by (apply lives_core; auto).
  assert (Hperm2 : Permutation (lives (h2 :: rest1)) (n0 :: live t)) by (rewrite Hlv2, <- Hl1'; exact HpermB).
  assert (Hnf2 : forall j, b_state (bget h2 j) <> BFrozen).
  { intros j Hj. rewrite (same_core_bget _ _ j Hcore) in Hj. apply (Hnf1 j). apply HfrB; auto. }
  assert (Hmapid : map h_id (h2 :: rest1) = map h_id (h :: rest)).
  { rewrite <- (evolves_map_id _ _ Hev'). reflexivity. }
  assert (Hlen : forall l, Permutation l (n0 :: live t) -> (t_nodes t + 1)%Z = Z.of_nat (length l)).
  { intros l Hpl'. rewrite (Permutation_length Hpl'). simpl length. rewrite Hn. lia. }
  assert (Hndid : forall l, Permutation l (n0 :: live t) -> NoDup (map tn_id l)).
  { intros l Hpl'. eapply Permutation_NoDup; [apply Permutation_map; apply Permutation_sym; exact Hpl'|].
    simpl. constructor; auto. intro Hin. apply in_map_iff in Hin. destruct Hin as [y [Ey Hy]].
    apply Hb in Hy. lia. }
  assert (Hbd : forall l, Permutation l (n0 :: live t) -> forall x, In x l -> tn_id x < t_next t + 1).
  { intros l Hpl' x Hx. eapply Permutation_in in Hx; [|exact Hpl']. destruct Hx as [<-|Hx]; [simpl; lia|].
    apply Hb in Hx. lia. }
  assert (HpermM : forall l, Permutation l (n0 :: live t) ->
            Permutation l (km_insert (mkTN ns key (hashf ns key) (km_next m)) (km_nodes m))).
  { intros l Hpl'. rewrite Hnext. fold n0. unfold km_insert.
    eapply perm_trans; [exact Hpl'|]. eapply perm_trans; [apply perm_skip; exact Hperm|].
    apply Permutation_sym, sort_insert_perm. }
  rewrite Eh in Hids. rewrite Hp.
  destruct grow.
  - (* a resize is started *)
    destruct (chain_ok_shape _ _ _ Hok2) as [e Hsh].
    set (h3 := set_resizing true h2).
    assert (Hcore3 : same_core h2 h3) by (unfold h3, same_core; simpl; auto).
    assert (Hok3 : chain_ok (h3 :: rest1)) by (eapply chain_ok_core; eauto).
    pose proof (push_grow h3 rest1 (t_ngrow t + t_nshrink t + 1) e Hok3 (shape_core _ _ _ Hcore3 Hsh)) as Hpg.
    cbv zeta in Hpg. destruct Hpg as [Hok4 Hperm4].
    assert (Elen : length (h_buckets h3) = length (h_buckets h1)).
    { unfold h3, h2, hB. simpl. apply length_upd_nth. }
    rewrite Elen in *.
    set (nh := new_head P (t_ngrow t + t_nshrink t + 1) (2 * length (h_buckets h1))) in *.
    assert (Hperm5 : Permutation (lives (nh :: h3 :: rest1)) (n0 :: live t)).
    { eapply perm_trans; [exact Hperm4|]. rewrite (lives_core _ _ _ Hcore3). exact Hperm2. }
    assert (Hb3 : forall j, j <> i -> bget h3 j = bget h1 j).
    { intros j Hj. rewrite (same_core_bget _ _ j Hcore3), (same_core_bget _ _ j Hcore). unfold hB. apply bget_bset_neq; auto. }
    split; [|split; [rewrite Hnext; reflexivity|]];
      [|exists 1%nat; split; [auto|split; [cbn [t_ngrow t_nshrink]; change (N.of_nat 1) with 1; lia|]]; cbn [t_heads]; rewrite Eh;
        apply hd_rel_push; apply (hd_rel_upd h rest h1 rest1 h3 i); auto].
    split; [|split; [|simpl; lia]].
    + apply twf_intro; [exact Hok4| | |apply Hlen; exact Hperm5|apply Hndid; exact Hperm5|apply Hbd; exact Hperm5].
      * split; [|split].
        -- intros j. unfold nh. rewrite bget_new_head. discriminate.
        -- reflexivity.
        -- constructor; [reflexivity|exact Hall1].
      * replace (t_ngrow t + 1 + t_nshrink t) with (t_ngrow t + t_nshrink t + 1) by lia.
        apply ids_ok_cons; [|reflexivity]. eapply ids_ok_same; [|exact Hids]. exact Hmapid.
    + rewrite live_lives. simpl t_heads. apply HpermM; auto.
  - assert (Hb2 : forall j, j <> i -> bget h2 j = bget h1 j).
    { intros j Hj. rewrite (same_core_bget _ _ j Hcore). unfold hB. apply bget_bset_neq; auto. }
    split; [|split; [rewrite Hnext; reflexivity|]];
      [|exists 0%nat; split; [auto|split; [cbn [t_ngrow t_nshrink]; change (N.of_nat 0) with 0; lia|]]; cbn [t_heads]; rewrite Eh;
        apply (hd_rel_upd h rest h1 rest1 h2 i); auto].
    split; [|split; [|simpl; lia]].
    + apply twf_intro; [exact Hok2| | |apply Hlen; exact Hperm2|apply Hndid; exact Hperm2|apply Hbd; exact Hperm2].
      * split; [exact Hnf2|split; [exact Hrz1|exact Hall1]].
      * eapply ids_ok_same; [|exact Hids]. exact Hmapid.
    + rewrite live_lives. simpl t_heads. apply HpermM; auto.
Qed.


Lemma nodup_keys_inj : forall l x y, NoDup (map tkey l) -> In x l -> In y l -> tkey x = tkey y -> x = y.
Proof.
  induction l; simpl; intros x y Hnd Hx Hy E; [contradiction|]. inversion Hnd; subst.
  destruct Hx as [->|Hx], Hy as [->|Hy]; auto.
  - exfalso. apply H1. rewrite E. apply in_map; auto.
  - exfalso. apply H1. rewrite <- E. apply in_map; auto.
Qed.

Lemma remove_bucket : forall h rest i ns key n, chain_ok (h :: rest) -> i < hlen h -> b_state (bget h i) = BInit ->
  find (tn_eq ns key) (b_nodes (bget h i)) = Some n -> N.land (hashf ns key) (h_mask h) = i ->
  let hB := bset h i (mkB BInit (filter (fun x => negb (tn_eq ns key x)) (b_nodes (bget h i)))) in
  chain_ok (hB :: rest) /\ Permutation (lives (h :: rest)) (n :: lives (hB :: rest)) /\
  (forall x, In x (lives (hB :: rest)) <-> (In x (lives (h :: rest)) /\ tn_eq ns key x = false)) /\
  (forall j, b_state (bget hB j) = BFrozen -> b_state (bget h j) = BFrozen).
Proof.
  intros h rest i ns key n Hok Hi Hs Hf Hl hB.
  assert (Hsne : b_state (bget h i) <> BUninit) by congruence.
  destruct (chain_ok_head _ _ _ Hok i Hi Hsne) as [Hso Hpl].
  assert (Hci : content (h :: rest) i = b_nodes (bget h i)) by (apply content_cons_init; auto).
  apply find_key_some in Hf. destruct Hf as [Hnin Hne].
  assert (Hok' : chain_ok (hB :: rest)).
  { apply chain_ok_bset; auto. split; [apply ssorted_filter; auto|].
    intros x Hx. apply filter_In in Hx. apply Hpl. tauto. }
  assert (Hbk : forall x, In x (lives (h :: rest)) -> tn_eq ns key x = true -> N.land (tn_hash x) (h_mask h) = i).
  { intros x Hx He. rewrite (lives_placed _ _ _ Hok Hx). apply tn_eq_spec in He. destruct He as [-> ->]. exact Hl. }
  assert (Hmem : forall x, In x (lives (hB :: rest)) <-> (In x (lives (h :: rest)) /\ tn_eq ns key x = false)).
  { intro x. unfold hB. rewrite in_lives_bset by auto. rewrite filter_In, negb_true_iff. split.
    - intros [[Hx He]|[Hx Hne']].
      + split; auto. eapply in_content_in_lives; eauto. rewrite Hci; auto.
      + split; auto. destruct (tn_eq ns key x) eqn:He; auto. exfalso. apply Hne'. apply Hbk; auto.
    - intros [Hx He]. destruct (N.eq_dec (N.land (tn_hash x) (h_mask h)) i) as [E|E]; [|auto].
      left. split; auto. apply in_lives in Hx; auto. rewrite E, Hci in Hx. exact Hx. }
  assert (Hnl : In n (lives (h :: rest))) by (eapply in_content_in_lives; eauto; rewrite Hci; auto).
  split; [exact Hok'|]. split; [|split; [exact Hmem|]].
  - apply NoDup_Permutation; [apply lives_nodup; auto| |].
    + constructor; [|apply lives_nodup; auto]. intro Hin. apply Hmem in Hin. destruct Hin. congruence.
    + intro x. cbn [In]. rewrite Hmem. split.
      * intro Hx. destruct (tn_eq ns key x) eqn:He; auto. left.
        eapply nodup_keys_inj; [apply lives_keys_nodup; exact Hok| | |]; auto.
        apply tn_eq_spec in He. apply tn_eq_spec in Hne. unfold tkey. destruct He, Hne. congruence.
      * intros [<-|[Hx _]]; auto.
  - intros j Hj. unfold hB in Hj. destruct (N.eq_dec i j).
    + subst j. rewrite bget_bset_eq in Hj by auto. discriminate.
    + rewrite bget_bset_neq in Hj by auto. exact Hj.
Qed.

Lemma pow_gt_one : forall e, 1 < 2 ^ e -> exists e', e = e' + 1.
Proof.
  intros e H. destruct (N.eq_dec e 0) as [->|Hne]; [simpl in H; lia|]. exists (e - 1). lia.
Qed.

Lemma t_delete_sim : forall t m ns key z, R t m ->
  let '(t', r) := t_delete hashf P ns key z t in
  let '(m', r') := mstep hashf m (TDel ns key z) in
  R t' m' /\ r = r' /\ step_struct t t'.
Proof.
  intros t m ns key z (Hwf & Hperm & Hnext).
  destruct (get_bucket_ok t (hashf ns key) Hwf)
    as (h & rest & h1 & rest1 & Eh & Egb & Hi & Hok1 & Htop1 & Hle & Hev & Hc & Hlv & Hst & Hbn).
  set (i := N.land (hashf ns key) (h_mask h)) in *.
  assert (Hev' : evolves (h :: rest) (h1 :: rest1)) by (constructor; auto).
  destruct (twf_set_heads t h rest (h1 :: rest1) Hwf Eh Hok1 Htop1 Hev' Hlv) as [Hwf1 Hl1].
  pose proof Hwf as (Hp & Hok & Htop & Hids & Hn & Hnd & Hb).
  rewrite Eh in Hok.
  assert (Hi1 : i < hlen h1) by (rewrite (head_le_hlen _ _ Hle); auto).
  assert (Hm1 : h_mask h1 = h_mask h) by (apply head_le_mask; auto).
  assert (Hsne : b_state (bget h1 i) <> BUninit) by congruence.
  destruct (chain_ok_head _ _ _ Hok1 i Hi1 Hsne) as [Hso Hpl].
  assert (Hfa : km_find ns key (km_nodes m) = find (tn_eq ns key) (b_nodes (bget h1 i))).
  { rewrite Hbn. apply find_agree; auto. rewrite live_lives, Eh in Hperm. exact Hperm. }
  assert (Hsame : R (set_heads (h1 :: rest1) t) m).
  { split; [exact Hwf1|]. split; [rewrite Hl1; exact Hperm|exact Hnext]. }
  assert (Hstr0 : step_struct t (set_heads (h1 :: rest1) t)) by (apply struct_same; rewrite Eh; exact Hev').
  unfold t_delete. rewrite Egb. cbv beta iota. cbn [t_heads set_heads]. rewrite Hst.
  pose proof (search_find ns key _ Hso) as Hsf. cbn [mstep]. rewrite Hfa.
  destruct (nth_error (b_nodes (bget h1 i)) (search ns key (b_nodes (bget h1 i)))) as [n|] eqn:En;
    [|rewrite <- Hsf; split; [exact Hsame|split; [reflexivity|exact Hstr0]]].
  destruct (tn_eq ns key n) eqn:He; [|rewrite <- Hsf; cbn [andb]; split; [exact Hsame|split; [reflexivity|exact Hstr0]]].
  rewrite <- Hsf. cbn [andb]. destruct z; [|split; [exact Hsame|split; [reflexivity|exact Hstr0]]].
  (* removal *)
  rewrite (remove_search ns key _ n Hso En He).
  assert (Hrem := remove_bucket h1 rest1 i ns key n Hok1 Hi1 Hst (eq_sym Hsf)).
  rewrite Hm1 in Hrem. specialize (Hrem eq_refl). cbv zeta in Hrem.
  destruct Hrem as (HokB & HpermB & HmemB & HfrB).
  set (hB := bset h1 i (mkB BInit (filter (fun x => negb (tn_eq ns key x)) (b_nodes (bget h1 i))))) in *.
  assert (Hl1' : lives (h1 :: rest1) = live t) by (rewrite live_lives, Eh; exact Hlv).
  destruct Htop1 as (Hnf1 & Hrz1 & Hall1).
  rewrite Hrz1. cbn [negb]. rewrite andb_true_r. cbn [t_heads set_heads t_nodes t_ngrow t_nshrink t_next t_panic].
  match goal with |- context [if tp_ovf P <=? ?l then ?a else ?b] => set (h2 := if tp_ovf P <=? l then a else b) end.
  assert (Hcore : same_core hB h2).
  { unfold h2. match goal with |- context [if ?c then _ else _] => destruct c end; unfold same_core; simpl; auto. }
  assert (Hrz2 : h_resizing h2 = false).
  { unfold h2. match goal with |- context [if ?c then _ else _] => destruct c end; simpl; exact Hrz1. }
  assert (Hid2 : h_id h2 = h_id h1).
  { unfold h2. match goal with |- context [if ?c then _ else _] => destruct c end; reflexivity. }
  assert (Hlen2 : length (h_buckets h2) = length (h_buckets h1)).
  { destruct Hcore as (-> & _). unfold hB. simpl. apply length_upd_nth. }
  assert (Hok2 : chain_ok (h2 :: rest1)) by (eapply chain_ok_core; eauto).
  assert (Hlv2 : lives (h2 :: rest1) = lives (hB :: rest1)) by (apply lives_core; auto).
  assert (Hperm2 : Permutation (live t) (n :: lives (h2 :: rest1))) by (rewrite Hlv2, <- Hl1'; exact HpermB).
  assert (Hnf2 : forall j, b_state (bget h2 j) <> BFrozen).
  { intros j Hj. rewrite (same_core_bget _ _ j Hcore) in Hj. apply (Hnf1 j). apply HfrB; auto. }
  assert (Hmapid : map h_id (h2 :: rest1) = map h_id (h :: rest)).
  { rewrite <- (evolves_map_id _ _ Hev'). simpl. rewrite Hid2. reflexivity. }
  assert (Hlen : forall l, Permutation (live t) (n :: l) -> (t_nodes t - 1)%Z = Z.of_nat (length l)).
  { intros l Hpl'. rewrite Hn, (Permutation_length Hpl'). simpl length. lia. }
  assert (Hndid : forall l, Permutation (live t) (n :: l) -> NoDup (map tn_id l)).
  { intros l Hpl'. assert (X : NoDup (map tn_id (n :: l))).
    { eapply Permutation_NoDup; [apply Permutation_map; exact Hpl'|exact Hnd]. }
    inversion X; auto. }
  assert (Hbd : forall l, Permutation (live t) (n :: l) -> forall x, In x l -> tn_id x < t_next t).
  { intros l Hpl' x Hx. apply Hb. eapply Permutation_in; [apply Permutation_sym; exact Hpl'|]. right; auto. }
  assert (HpermM : forall l, Permutation l (lives (h2 :: rest1)) -> Permutation l (km_remove ns key (km_nodes m))).
  { intros l Hpl'. eapply perm_trans; [exact Hpl'|]. unfold km_remove.
    apply NoDup_Permutation; [apply lives_nodup; auto| |].
    - apply NoDup_filter. eapply Permutation_NoDup; [exact Hperm|]. rewrite <- Hl1'. apply lives_nodup; auto.
    - intro x. rewrite Hlv2, HmemB, filter_In, negb_true_iff. rewrite Hl1'. split; intros [Hx Hex]; split; auto.
      + eapply Permutation_in; eauto.
      + eapply Permutation_in; [apply Permutation_sym; exact Hperm|]; auto. }
  rewrite Eh in Hids. rewrite Hp.
  match goal with |- context [if ?c then _ else _] => destruct c eqn:Ecnd end.
  - (* a shrink is started *)
    apply andb_true_iff in Ecnd. destruct Ecnd as [_ Hgt]. apply N.ltb_lt in Hgt.
    destruct (chain_ok_shape _ _ _ Hok1) as [e1 [Hsm Hsl]].
    assert (Hone : 1 < 2 ^ e1).
    { rewrite <- Hsl. destruct Pok as [e0 Hp0]. rewrite Hp0 in Hgt.
      assert (0 < 2 ^ e0) by (apply N.neq_0_lt_0, N.pow_nonzero; lia). lia. }
    destruct (pow_gt_one _ Hone) as [e ->].
    set (h3 := set_resizing true h2).
    assert (Hcore3 : same_core h2 h3) by (unfold h3, same_core; simpl; auto).
    assert (Hok3 : chain_ok (h3 :: rest1)) by (eapply chain_ok_core; eauto).
    assert (Hsh3 : shape h3 (e + 1)).
    { apply (shape_core h2); auto. apply (shape_core hB); auto. split; [exact Hsm|]. unfold hB. rewrite hlen_bset. exact Hsl. }
    pose proof (push_shrink h3 rest1 (t_ngrow t + t_nshrink t + 1) e Hok3 Hsh3) as Hpg.
    cbv zeta in Hpg. destruct Hpg as [Hok4 Hperm4].
    assert (Elen : length (h_buckets h3) = length (h_buckets h1)) by (unfold h3; simpl; exact Hlen2).
    rewrite Elen in *.
    set (nh := new_head P (t_ngrow t + t_nshrink t + 1) (Nat.div2 (length (h_buckets h1)))) in *.
    assert (Hperm5 : Permutation (live t) (n :: lives (nh :: h3 :: rest1))).
    { eapply perm_trans; [exact Hperm2|]. apply perm_skip. apply Permutation_sym.
      eapply perm_trans; [exact Hperm4|]. rewrite (lives_core _ _ _ Hcore3). apply Permutation_refl. }
    assert (Hb3 : forall j, j <> i -> bget h3 j = bget h1 j).
    { intros j Hj. rewrite (same_core_bget _ _ j Hcore3), (same_core_bget _ _ j Hcore). unfold hB. apply bget_bset_neq; auto. }
    assert (Hid3 : h_id h3 = h_id h1) by (unfold h3; simpl; exact Hid2).
    split; [|split; [reflexivity|]];
      [|exists 1%nat; split; [auto|split; [cbn [t_ngrow t_nshrink]; change (N.of_nat 1) with 1; lia|]]; cbn [t_heads]; rewrite Eh;
        apply hd_rel_push; apply (hd_rel_upd h rest h1 rest1 h3 i); auto].
    split; [|split; [|simpl; exact Hnext]].
    + apply twf_intro; [exact Hok4| | |apply Hlen; exact Hperm5|apply Hndid; exact Hperm5|apply Hbd; exact Hperm5].
      * split; [|split].
        -- intros j. unfold nh. rewrite bget_new_head. discriminate.
        -- reflexivity.
        -- constructor; [reflexivity|exact Hall1].
      * replace (t_ngrow t + (t_nshrink t + 1)) with (t_ngrow t + t_nshrink t + 1) by lia.
        apply ids_ok_cons; [|reflexivity]. eapply ids_ok_same; [|exact Hids].
        simpl. simpl in Hmapid. exact Hmapid.
    + rewrite live_lives. simpl t_heads. apply HpermM.
      eapply perm_trans; [exact Hperm4|]. rewrite (lives_core _ _ _ Hcore3). apply Permutation_refl.
  - assert (Hb2 : forall j, j <> i -> bget h2 j = bget h1 j).
    { intros j Hj. rewrite (same_core_bget _ _ j Hcore). unfold hB. apply bget_bset_neq; auto. }
    split; [|split; [reflexivity|]];
      [|exists 0%nat; split; [auto|split; [cbn [t_ngrow t_nshrink]; change (N.of_nat 0) with 0; lia|]]; cbn [t_heads]; rewrite Eh;
        apply (hd_rel_upd h rest h1 rest1 h2 i); auto].
    split; [|split; [|simpl; exact Hnext]].
    + apply twf_intro; [exact Hok2| | |apply Hlen; exact Hperm2|apply Hndid; exact Hperm2|apply Hbd; exact Hperm2].
      * split; [exact Hnf2|split; [exact Hrz2|exact Hall1]].
      * eapply ids_ok_same; [|exact Hids]. exact Hmapid.
    + rewrite live_lives. simpl t_heads. apply HpermM. apply Permutation_refl.
Qed.


(* ------------------------------------------------------------------ background steps deep in the chain *)

(* same first-head geometry and same logical contents *)
Definition csame (hs hs' : list head) : Prop :=
  match hs, hs' with
  | h :: _, h' :: _ => h_mask h' = h_mask h /\ hlen h' = hlen h /\
                       forall i, i < hlen h -> content hs' i = content hs i
  | _, _ => False
  end.

Lemma cons_csame : forall a tl tl', chain_ok (a :: tl) -> chain_ok tl' -> csame tl tl' ->
  chain_ok (a :: tl') /\ csame (a :: tl) (a :: tl').
Proof.
  intros a tl tl' Hok Hok' Hcs. destruct tl as [|p q]; [destruct Hcs|]. destruct tl' as [|p' q']; [destruct Hcs|].
  destruct Hcs as (Hm & Hl & Hc). destruct (chain_ok_link _ _ _ _ Hok) as [Hlink Hpred].
  assert (Hlink' : link a p').
  { destruct Hlink as [e [[Ha [Hpm Hpl]]|[Ha [Hpm Hpl]]]]; exists e; [left|right]; split; auto; split; congruence. }
  split.
  - split; [eapply chain_ok_head; eauto|]. split; [split; auto|exact Hok'].
  - split; [reflexivity|split; [reflexivity|]]. intros i Hi. apply content_congr; auto.
Qed.

Lemma splice : forall pre suf suf', chain_ok (pre ++ suf) -> chain_ok suf' -> csame suf suf' ->
  chain_ok (pre ++ suf') /\ csame (pre ++ suf) (pre ++ suf').
Proof.
  induction pre as [|a pre IH]; intros suf suf' Hok Hok' Hcs; [simpl; auto|].
  simpl in *. assert (Hokt : chain_ok (pre ++ suf)).
  { destruct (pre ++ suf) as [|p q] eqn:E; [|eapply chain_ok_tail; eauto].
    destruct pre; simpl in E; [subst suf; destruct Hcs|discriminate]. }
  destruct (IH suf suf' Hokt Hok' Hcs) as [Hok1 Hcs1]. apply cons_csame; auto.
Qed.

Lemma chain_ok_skipn : forall d hs, chain_ok hs -> skipn d hs <> [] -> chain_ok (skipn d hs).
Proof.
  induction d; intros hs Hok Hne; [exact Hok|]. destruct hs as [|h rest]; [exact Hok|]. simpl in *.
  destruct rest as [|p q]; [destruct d; simpl in Hne; congruence|].
  apply IHd; auto. eapply chain_ok_tail; eauto.
Qed.

Lemma csame_lives : forall h r h' r', csame (h :: r) (h' :: r') -> lives (h' :: r') = lives (h :: r).
Proof. intros h r h' r' (Hm & Hl & Hc). apply lives_ext; auto. Qed.

Lemma ids_ok_firstn : forall hs n k, ids_ok hs n -> ids_ok (firstn k hs) n.
Proof.
  intros hs n k Hi d id Hn. apply (Hi d id). rewrite <- firstn_map in Hn.
  revert d Hn. generalize (map h_id hs). clear. intros l. revert l.
  induction k; intros l d Hn; [destruct d; discriminate|].
  destruct l; [destruct d; discriminate|]. destruct d; simpl in *; auto.
Qed.

Lemma all_init_spec : forall h i, all_init h = true -> i < hlen h -> b_state (bget h i) <> BUninit.
Proof.
  intros h i Ha Hi. unfold all_init in Ha. rewrite forallb_forall in Ha.
  assert (Hin : In (bget h i) (h_buckets h)) by (unfold bget, hlen in *; apply nth_In; lia).
  apply Ha in Hin. intro E. rewrite E in Hin. discriminate.
Qed.

Definition tops (hs : list head) : Prop :=
  match hs with h :: _ => forall i, b_state (bget h i) <> BFrozen | [] => False end.

Ltac bg_noop Hwf := split; [exact Hwf|split; [apply Permutation_refl|split; [reflexivity|split; [eexists; reflexivity|apply struct_refl]]]].

Lemma t_init_bg_ok : forall t d i, twf t ->
  let '(t', r) := t_init_bg d i t in
  twf t' /\ Permutation (live t') (live t) /\ t_next t' = t_next t /\ (exists e, r = RBg e) /\ step_struct t t'.
Proof.
  intros t d i Hwf. unfold t_init_bg.
  destruct (skipn (N.to_nat d) (t_heads t)) as [|h r] eqn:Es; [bg_noop Hwf|].
  destruct (i <? hlen h) eqn:Hi; [|bg_noop Hwf]. apply N.ltb_lt in Hi.
  pose proof Hwf as (Hp & Hok & Htop & Hids & Hn & Hnd & Hb).
  assert (Hoks : chain_ok (h :: r)) by (rewrite <- Es; apply chain_ok_skipn; auto; congruence).
  assert (Hfuel : (length (h :: r) <= length (t_heads t))%nat).
  { rewrite <- Es. rewrite skipn_length. lia. }
  destruct (init_ok hashf _ h r i Hfuel Hoks Hi) as (h' & r' & E & Hok' & Hle & Hev & Hc & Hs & Hfr).
  rewrite E. cbn [or_tpanic].
  set (pre := firstn (N.to_nat d) (t_heads t)).
  assert (Esplit : t_heads t = pre ++ h :: r) by (rewrite <- Es; symmetry; apply firstn_skipn).
  assert (Hcs : csame (h :: r) (h' :: r')).
  { split; [apply head_le_mask; auto|split; [apply head_le_hlen; auto|exact Hc]]. }
  rewrite Esplit in Hok. destruct (splice pre _ _ Hok Hok' Hcs) as [Hok2 Hcs2].
  assert (Hev2 : evolves (pre ++ h :: r) (pre ++ h' :: r')).
  { apply Forall2_app; [apply evolves_refl|constructor; auto]. }
  assert (Hlv : lives (pre ++ h' :: r') = live t).
  { rewrite live_lives, Esplit. destruct pre as [|a pre'].
    - simpl. apply csame_lives; auto.
    - simpl in *. eapply (csame_lives a (pre' ++ h :: r) a (pre' ++ h' :: r')). exact Hcs2. }
  assert (Htop2 : top_ok (pre ++ h' :: r')).
  { rewrite Esplit in Htop. destruct pre as [|a pre']; simpl in *.
    - destruct Htop as (Hnf & Hrz & Hall). split; [|split].
      + intros j Hj. apply (Hnf j). apply Hfr; auto.
      + destruct Hle as (_ & _ & _ & Hr & _). congruence.
      + eapply evolves_resizing; eauto.
    - destruct Htop as (Hnf & Hrz & Hall). split; [auto|split; [auto|]].
      inversion Hev2; subst. eapply evolves_resizing; eauto. }
  assert (El : live (set_heads (pre ++ h' :: r') t) = live t) by (rewrite live_lives; simpl; exact Hlv).
  split; [|split; [rewrite El; apply Permutation_refl|split; [reflexivity|split; [eauto|apply struct_same; rewrite Esplit; exact Hev2]]]].
  unfold twf. rewrite El. simpl. repeat split; auto.
  rewrite Esplit in Hids. eapply evolves_ids; eauto.
Qed.

Lemma hd_rel_finish : forall pre h r, hd_rel 0 (pre ++ h :: r) (pre ++ [set_pred false h]).
Proof.
  induction pre as [|a pre IH]; intros h r d x x' Hn Hn'; simpl in *.
  - destruct d as [|d]; simpl in *; [|destruct d; discriminate].
    inversion Hn; inversion Hn'; subst. split; auto.
  - destruct d as [|d]; simpl in *.
    + inversion Hn; inversion Hn'; subst. split; auto.
    + eapply IH; eauto.
Qed.

Lemma t_finish_bg_ok : forall t d, twf t ->
  let '(t', r) := t_finish_bg d t in
  twf t' /\ Permutation (live t') (live t) /\ t_next t' = t_next t /\ (exists e, r = RBg e) /\ step_struct t t'.
Proof.
  intros t d Hwf. unfold t_finish_bg.
  destruct (skipn (N.to_nat d) (t_heads t)) as [|h r] eqn:Es; [bg_noop Hwf|].
  destruct (h_pred h && all_init h) eqn:Hc; [|bg_noop Hwf].
  apply andb_true_iff in Hc. destruct Hc as [Hpred Hall].
  pose proof Hwf as (Hp & Hok & Htop & Hids & Hn & Hnd & Hb).
  assert (Hoks : chain_ok (h :: r)) by (rewrite <- Es; apply chain_ok_skipn; auto; congruence).
  set (pre := firstn (N.to_nat d) (t_heads t)).
  assert (Esplit : t_heads t = pre ++ h :: r) by (rewrite <- Es; symmetry; apply firstn_skipn).
  set (h' := set_pred false h).
  assert (Hbg : forall i, bget h' i = bget h i) by reflexivity.
  assert (Hok' : chain_ok [h']).
  { split; [|split; [|exact I]].
    - intros i Hi Hs. destruct (chain_ok_head _ _ _ Hoks i Hi Hs) as [Hso Hpl]. split; auto.
    - split; [reflexivity|split; [|intros i Hi; apply (all_init_spec h i Hall Hi)]].
      destruct (chain_ok_shape _ _ _ Hoks) as [e He]. exists e. exact He. }
  assert (Hcs : csame (h :: r) [h']).
  { split; [reflexivity|split; [reflexivity|]]. intros i Hi.
    rewrite !content_cons_init; auto; apply (all_init_spec h i Hall Hi). }
  rewrite Esplit in Hok. destruct (splice pre _ _ Hok Hok' Hcs) as [Hok2 Hcs2].
  assert (Hlv : lives (pre ++ [h']) = live t).
  { rewrite live_lives, Esplit. destruct pre as [|a pre'].
    - simpl. apply (csame_lives h r h' []); auto.
    - simpl in *. eapply (csame_lives a (pre' ++ h :: r) a (pre' ++ [h'])). exact Hcs2. }
  assert (Htop2 : top_ok (pre ++ [h'])).
  { rewrite Esplit in Htop. destruct pre as [|a pre']; simpl in *.
    - destruct Htop as (Hnf & Hrz & Hall'). split; [exact Hnf|split; [exact Hrz|constructor]].
    - destruct Htop as (Hnf & Hrz & Hall'). split; [auto|split; [auto|]].
      apply Forall_app in Hall'. destruct Hall' as [Ha Hb']. apply Forall_app. split; auto.
      inversion Hb'; subst. constructor; auto. }
  assert (El : live (set_heads (pre ++ [h']) t) = live t) by (rewrite live_lives; simpl; exact Hlv).
  split; [|split; [rewrite El; apply Permutation_refl|split; [reflexivity|split; [eauto|]]]];
    [|exists 0%nat; split; [auto|split; [simpl; lia|]]; simpl t_heads; rewrite Esplit; apply hd_rel_finish].
  unfold twf. rewrite El. simpl. repeat split; auto.
  assert (Em : map h_id (pre ++ [h']) = firstn (S (N.to_nat d)) (map h_id (t_heads t))).
  { assert (Hlen : length pre = N.to_nat d).
    { unfold pre. apply firstn_length_le. assert (length (skipn (N.to_nat d) (t_heads t)) <> 0)%nat by (rewrite Es; simpl; lia).
      rewrite skipn_length in H. lia. }
    rewrite Esplit, !map_app. simpl map.
    replace (S (N.to_nat d)) with (length (map h_id pre) + 1)%nat by (rewrite map_length; lia).
    rewrite firstn_app_2. reflexivity. }
  unfold ids_ok. rewrite Em. rewrite firstn_map. apply ids_ok_firstn. exact Hids.
Qed.


(* ------------------------------------------------------------------ enumeration *)

Lemma flat_map_map_r : forall {A B C} (f : B -> list C) (g : A -> B) l,
  flat_map f (map g l) = flat_map (fun x => f (g x)) l.
Proof. induction l; simpl; auto. rewrite IHl. reflexivity. Qed.

Lemma enum_fold_ok : forall pick idx h rest out0, chain_ok (h :: rest) -> top_ok (h :: rest) ->
  (forall x, In x idx -> N.of_nat x < hlen h) ->
  exists h' rest', fold_left (enum_step pick) idx (h :: rest, false, out0) =
      (h' :: rest', false, out0 ++ flat_map (fun x => pick (content (h :: rest) (N.of_nat x))) idx) /\
    chain_ok (h' :: rest') /\ top_ok (h' :: rest') /\ evolves (h :: rest) (h' :: rest') /\
    hlen h' = hlen h /\ (forall i, i < hlen h -> content (h' :: rest') i = content (h :: rest) i).
Proof.
  induction idx as [|x idx IH]; intros h rest out0 Hok Htop Hr.
  - exists h, rest. simpl. rewrite app_nil_r.
    split; [reflexivity|split; [exact Hok|split; [exact Htop|split; [apply evolves_refl|split; [reflexivity|auto]]]]].
  - assert (Hx : N.of_nat x < hlen h) by (apply Hr; left; auto).
    destruct (init_top h rest _ Hok Htop Hx) as (h1 & rest1 & E & Hok1 & Htop1 & Hle & Hev & Hc & Hlv & Hst & Hbn).
    assert (Hl1 : hlen h1 = hlen h) by (apply head_le_hlen; auto).
    assert (Hr1 : forall y, In y idx -> N.of_nat y < hlen h1) by (intros; rewrite Hl1; apply Hr; right; auto).
    cbn [fold_left]. unfold enum_step at 2. rewrite E. cbn [orb]. rewrite Hbn.
    destruct (IH h1 rest1 (out0 ++ pick (content (h :: rest) (N.of_nat x))) Hok1 Htop1 Hr1)
      as (h' & rest' & E' & Hok' & Htop' & Hev' & Hl' & Hc').
    exists h', rest'. split.
    + rewrite E'. f_equal. simpl. rewrite <- app_assoc. f_equal. f_equal.
      apply flat_map_ext_in. intros y Hy. f_equal. apply Hc. apply Hr. right; auto.
    + split; [exact Hok'|]. split; [exact Htop'|]. split.
      * eapply evolves_trans; [|exact Hev']. constructor; auto.
      * split; [congruence|]. intros i Hi. rewrite Hc' by (rewrite Hl1; auto). apply Hc; auto.
Qed.

Lemma enumerate_ok : forall pick t h rest, twf t -> t_heads t = h :: rest ->
  let '(t', out) := enumerate pick t in
  twf t' /\ live t' = live t /\ t_next t' = t_next t /\
  out = flat_map (fun i => pick (content (h :: rest) i)) (indices h) /\ step_struct t t'.
Proof.
  intros pick t h rest Hwf Eh. pose proof Hwf as (Hp & Hok & Htop & _). rewrite Eh in Hok, Htop.
  unfold enumerate. rewrite Eh.
  assert (Hr : forall x, In x (seq 0 (length (h_buckets h))) -> N.of_nat x < hlen h).
  { intros x Hx. apply in_seq in Hx. unfold hlen. lia. }
  destruct (enum_fold_ok pick _ h rest [] Hok Htop Hr) as (h' & rest' & E & Hok' & Htop' & Hev' & Hl' & Hc').
  rewrite E. cbn [or_tpanic app].
  assert (Hlv : lives (h' :: rest') = lives (h :: rest)) by (apply lives_ext; auto).
  destruct (twf_set_heads t h rest (h' :: rest') Hwf Eh Hok' Htop' Hev' Hlv) as [Hwf' El].
  split; [exact Hwf'|]. split; [exact El|]. split; [reflexivity|].
  split; [unfold indices; rewrite flat_map_map_r; reflexivity|].
  apply struct_same. rewrite Eh. exact Hev'.
Qed.

Lemma Permutation_filter : forall {A} (p : A -> bool) l l', Permutation l l' -> Permutation (filter p l) (filter p l').
Proof.
  intros A p l l' H. induction H; simpl; auto.
  - destruct (p x); auto.
  - destruct (p x), (p y); auto. apply perm_swap.
  - eapply perm_trans; eauto.
Qed.

(* ------------------------------------------------------------------ every step *)

Theorem step_sim : forall t m o, R t m ->
  R (fst (tstep hashf P t o)) (fst (mstep hashf m o)) /\
  res_match (snd (tstep hashf P t o)) (snd (mstep hashf m o)) /\ snd (tstep hashf P t o) <> RTPanic /\
  snd (tstep hashf P t o) <> RSpin /\ step_struct t (fst (tstep hashf P t o)).
Proof.
  intros t m o HR. pose proof HR as (Hwf & Hperm & Hnext).
  destruct (twf_heads t Hwf) as (h & rest & Eh).
  unfold tstep. destruct o as [ns key g|ns key z| |ns|d i|d]; cbn [tstep_raw].
  - pose proof (t_get_sim t m ns key g HR) as H.
    destruct (t_get hashf P ns key g t) as [t' r]. destruct (mstep hashf m (TGet ns key g)) as [m' r'] eqn:Em.
    destruct H as (HR' & -> & Hstr). pose proof HR' as ((Hp' & _) & _). rewrite Hp'. cbn [fst snd].
    split; [exact HR'|]. cbn [mstep] in Em.
    destruct (km_find ns key (km_nodes m)); [|destruct g]; inversion Em; subst; cbn; repeat split; try congruence; exact Hstr.
  - pose proof (t_delete_sim t m ns key z HR) as H.
    destruct (t_delete hashf P ns key z t) as [t' r]. destruct (mstep hashf m (TDel ns key z)) as [m' r'] eqn:Em.
    destruct H as (HR' & -> & Hstr). pose proof HR' as ((Hp' & _) & _). rewrite Hp'. cbn [fst snd].
    split; [exact HR'|]. cbn [mstep] in Em.
    destruct (km_find ns key (km_nodes m)); [destruct z|]; inversion Em; subst; cbn; repeat split; try congruence; exact Hstr.
  - pose proof (enumerate_ok (fun l => l) t h rest Hwf Eh) as H.
    destruct (enumerate (fun l => l) t) as [t' out]. destruct H as (Hwf' & El & En & Eo & Hstr).
    pose proof Hwf' as (Hp' & _). rewrite Hp'. cbn [fst snd mstep].
    split; [split; [exact Hwf'|split; [rewrite El; exact Hperm|rewrite En; exact Hnext]]|].
    split; [|split; [discriminate|split; [discriminate|exact Hstr]]]. cbn. apply Permutation_map. subst out.
    replace (flat_map (fun i => content (h :: rest) i) (indices h)) with (live t); [exact Hperm|].
    rewrite live_lives, Eh. reflexivity.
  - pose proof (enumerate_ok (pick_ns ns) t h rest Hwf Eh) as H.
    destruct (enumerate (pick_ns ns) t) as [t' out]. destruct H as (Hwf' & El & En & Eo & Hstr).
    pose proof Hwf' as (Hp' & _). rewrite Hp'. cbn [fst snd mstep].
    split; [split; [exact Hwf'|split; [rewrite El; exact Hperm|rewrite En; exact Hnext]]|].
    split; [|split; [discriminate|split; [discriminate|exact Hstr]]]. cbn. apply Permutation_map. subst out.
    pose proof Hwf as (_ & Hok & _). rewrite Eh in Hok.
    replace (flat_map (fun i => pick_ns ns (content (h :: rest) i)) (indices h))
      with (filter (fun x => tn_ns x =? ns) (live t)); [apply Permutation_filter; exact Hperm|].
    rewrite live_lives, Eh. unfold lives. rewrite filter_flat_map. apply flat_map_ext_in.
    intros i Hi. apply in_indices in Hi. symmetry. apply pick_ns_filter.
    apply (content_ok hashf _ Hok h rest eq_refl i Hi).
  - pose proof (t_init_bg_ok t d i Hwf) as H. destruct (t_init_bg d i t) as [t' r].
    destruct H as (Hwf' & Hpl & En & [e ->] & Hstr). pose proof Hwf' as (Hp' & _). rewrite Hp'. cbn [fst snd mstep].
    split; [split; [exact Hwf'|split; [eapply perm_trans; eauto|rewrite En; exact Hnext]]|].
    split; [exact I|split; [discriminate|split; [discriminate|exact Hstr]]].
  - pose proof (t_finish_bg_ok t d Hwf) as H. destruct (t_finish_bg d t) as [t' r].
    destruct H as (Hwf' & Hpl & En & [e ->] & Hstr). pose proof Hwf' as (Hp' & _). rewrite Hp'. cbn [fst snd mstep].
    split; [split; [exact Hwf'|split; [eapply perm_trans; eauto|rewrite En; exact Hnext]]|].
    split; [exact I|split; [discriminate|split; [discriminate|exact Hstr]]].
Qed.


(* ------------------------------------------------------------------ reachable tables *)

Lemma flat_map_nil : forall {A B} (f : A -> list B) l, (forall x, In x l -> f x = []) -> flat_map f l = [].
Proof. induction l; simpl; intros; auto. rewrite H by auto. rewrite IHl; auto. Qed.

Lemma bget_head0 : forall i, i < hlen (head0 P) -> bget (head0 P) i = mkB BInit [].
Proof.
  intros i Hi. unfold bget, head0, hlen in *. simpl in *. rewrite repeat_length in Hi.
  apply nth_repeat'. lia.
Qed.

Lemma R_init : R (tinit P) minit.
Proof.
  destruct Pok as [e0 He0].
  assert (Hl : hlen (head0 P) = 2 ^ e0).
  { unfold hlen, head0. simpl. rewrite repeat_length, N2Nat.id. exact He0. }
  assert (Hm : h_mask (head0 P) = N.ones e0) by (unfold head0; simpl; rewrite He0; apply ones_pred).
  assert (Hok : chain_ok [head0 P]).
  { split; [|split; [|exact I]].
    - intros i Hi _. rewrite bget_head0 by auto. split; [constructor|intros x []].
    - split; [reflexivity|split; [exists e0; split; auto|]]. intros i Hi. rewrite bget_head0 by auto. discriminate. }
  assert (Hlv : lives [head0 P] = []).
  { unfold lives. apply flat_map_nil. intros i Hi. apply in_indices in Hi.
    rewrite content_cons_init by (rewrite bget_head0 by auto; discriminate). rewrite bget_head0 by auto. reflexivity. }
  split; [|split; [rewrite live_lives; simpl t_heads; rewrite Hlv; constructor|reflexivity]].
  unfold tinit. apply twf_intro; auto.
  - split; [|split; [reflexivity|constructor]]. intros i Hf.
    destruct (N.lt_ge_cases i (hlen (head0 P))) as [Hi|Hi].
    + rewrite bget_head0 in Hf by auto. discriminate.
    + rewrite bget_out in Hf by auto. discriminate.
  - intros d id Hn. destruct d as [|d]; simpl in Hn; [inversion Hn; reflexivity|destruct d; discriminate].
  - rewrite Hlv. reflexivity.
  - rewrite Hlv. constructor.
  - rewrite Hlv. intros x [].
Qed.

Definition res_ok (r : tres) : Prop := r <> RTPanic /\ r <> RSpin.

Theorem run_sim : forall ops t m, R t m ->
  R (fst (trun hashf P t ops)) (fst (mrun hashf m ops)) /\
  Forall2 res_match (snd (trun hashf P t ops)) (snd (mrun hashf m ops)) /\
  Forall res_ok (snd (trun hashf P t ops)).
Proof.
  induction ops as [|o ops IH]; intros t m HR; simpl.
  - split; [exact HR|split; constructor].
  - destruct (step_sim t m o HR) as (HR1 & Hres & Hnp & Hns & _).
    destruct (tstep hashf P t o) as [t1 r]. destruct (mstep hashf m o) as [m1 r']. cbn [fst snd] in *.
    destruct (IH t1 m1 HR1) as (HR2 & Hrs & Hok).
    destruct (trun hashf P t1 ops) as [t2 rs]. destruct (mrun hashf m1 ops) as [m2 rs']. cbn [fst snd] in *.
    split; [exact HR2|split; constructor; auto]. split; auto.
Qed.

Definition treach (t : table) : Prop := exists ops, t = fst (trun hashf P (tinit P) ops).

Lemma treach_R : forall t, treach t -> exists m, R t m.
Proof.
  intros t [ops ->]. exists (fst (mrun hashf minit ops)). apply (run_sim ops _ _ R_init).
Qed.

(* 1. the table refines the finite map *)
Theorem table_refines_map : forall ops,
  Forall2 res_match (snd (trun hashf P (tinit P) ops)) (snd (mrun hashf minit ops)) /\
  Forall res_ok (snd (trun hashf P (tinit P) ops)) /\
  Permutation (live (fst (trun hashf P (tinit P) ops))) (km_nodes (fst (mrun hashf minit ops))) /\
  t_nodes (fst (trun hashf P (tinit P) ops)) = Z.of_nat (length (km_nodes (fst (mrun hashf minit ops)))) /\
  t_panic (fst (trun hashf P (tinit P) ops)) = false.
Proof.
  intro ops. destruct (run_sim ops _ _ R_init) as (((Hp & _ & _ & _ & Hn & _) & Hperm & _) & Hrs & Hok).
  split; [exact Hrs|split; [exact Hok|split; [exact Hperm|split; [|exact Hp]]]].
  rewrite Hn. rewrite (Permutation_length Hperm). reflexivity.
Qed.

(* 2. no node lost or duplicated; each node in exactly one logical bucket *)
Theorem table_nodes_unique : forall t, treach t ->
  NoDup (map tn_id (live t)) /\ NoDup (map tkey (live t)) /\
  (forall x, In x (live t) -> tn_id x < t_next t) /\
  forall h rest, t_heads t = h :: rest ->
    forall i j x, i < hlen h -> j < hlen h -> In x (content (t_heads t) i) -> In x (content (t_heads t) j) -> i = j.
Proof.
  intros t Hr. destruct (treach_R t Hr) as [m ((Hp & Hok & Htop & Hids & Hn & Hnd & Hb) & _)].
  split; [exact Hnd|]. split.
  - rewrite live_lives. destruct (t_heads t) as [|h rest]; [constructor|]. apply lives_keys_nodup; auto.
  - split; [exact Hb|]. intros h rest Eh i j x Hi Hj Hxi Hxj. rewrite Eh in *.
    destruct (content_ok hashf _ Hok h rest eq_refl i Hi) as [_ Hpi].
    destruct (content_ok hashf _ Hok h rest eq_refl j Hj) as [_ Hpj].
    destruct (Hpi x Hxi) as [<- _]. destruct (Hpj x Hxj) as [<- _]. reflexivity.
Qed.

(* 3. placement under the current mask *)
Theorem table_placement : forall t, treach t -> forall h rest, t_heads t = h :: rest ->
  forall i, i < hlen h -> b_state (bget h i) <> BUninit ->
    ssorted (b_nodes (bget h i)) /\
    (forall x, In x (b_nodes (bget h i)) ->
       N.land (tn_hash x) (h_mask h) = i /\ tn_hash x = hashf (tn_ns x) (tn_key x) /\ In x (live t)) /\
    (forall x, In x (live t) -> N.land (tn_hash x) (h_mask h) = i -> In x (b_nodes (bget h i))).
Proof.
  intros t Hr h rest Eh i Hi Hs. destruct (treach_R t Hr) as [m ((Hp & Hok & _) & _)]. rewrite Eh in Hok.
  destruct (chain_ok_head _ _ _ Hok i Hi Hs) as [Hso Hpl]. split; [exact Hso|]. split.
  - intros x Hx. destruct (Hpl x Hx) as [Hl Hh]. split; [exact Hl|split; [exact Hh|]].
    rewrite live_lives, Eh. eapply in_content_in_lives; eauto. rewrite content_cons_init; auto.
  - intros x Hx Hl. rewrite live_lives, Eh in Hx. apply in_lives in Hx; auto.
    rewrite Hl, content_cons_init in Hx; auto.
Qed.

(* 4. frozen buckets, resizes *)
Theorem table_step_struct : forall t o, treach t -> step_struct t (fst (tstep hashf P t o)).
Proof. intros t o Hr. destruct (treach_R t Hr) as [m HR]. apply (step_sim t m o HR). Qed.

Theorem table_resize_flags : forall t, treach t ->
  top_ok (t_heads t) /\ ids_ok (t_heads t) (t_ngrow t + t_nshrink t) /\
  (forall h rest, t_heads t = h :: rest -> forall p r, rest = p :: r -> h_pred h = true /\ link h p).
Proof.
  intros t Hr. destruct (treach_R t Hr) as [m ((Hp & Hok & Htop & Hids & _) & _)].
  split; [exact Htop|split; [exact Hids|]]. intros h rest Eh p r ->. rewrite Eh in Hok.
  destruct (chain_ok_link _ _ _ _ Hok). auto.
Qed.

(* 5. enumeration *)
Theorem table_enum_exact : forall t, treach t ->
  snd (tstep hashf P t TEnum) = REnum (map tn_id (live t)) /\ NoDup (map tn_id (live t)) /\
  forall ns, snd (tstep hashf P t (TEnumNS ns)) = REnum (map tn_id (filter (fun x => tn_ns x =? ns) (live t))).
Proof.
  intros t Hr. destruct (treach_R t Hr) as [m (Hwf & _)]. destruct (twf_heads t Hwf) as (h & rest & Eh).
  pose proof Hwf as (_ & Hok & _ & _ & _ & Hnd & _). rewrite Eh in Hok.
  split; [|split; [exact Hnd|]].
  - unfold tstep. cbn [tstep_raw]. pose proof (enumerate_ok (fun l => l) t h rest Hwf Eh) as H.
    destruct (enumerate (fun l => l) t) as [t' out]. destruct H as ((Hp' & _) & _ & _ & Eo & _).
    rewrite Hp'. cbn [snd]. subst out. rewrite live_lives, Eh. reflexivity.
  - intro ns. unfold tstep. cbn [tstep_raw]. pose proof (enumerate_ok (pick_ns ns) t h rest Hwf Eh) as H.
    destruct (enumerate (pick_ns ns) t) as [t' out]. destruct H as ((Hp' & _) & _ & _ & Eo & _).
    rewrite Hp'. cbn [snd]. subst out. f_equal. f_equal. rewrite live_lives, Eh. unfold lives.
    rewrite filter_flat_map. apply flat_map_ext_in. intros i Hi. apply in_indices in Hi.
    apply pick_ns_filter. apply (content_ok hashf _ Hok h rest eq_refl i Hi).
Qed.

End Proofs.
