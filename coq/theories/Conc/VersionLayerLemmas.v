(* Conc/VersionLayerLemmas.v — facts about the staging part of the version-layer model
   (Conc/VersionLayer.v): what versionStaging.commit + finish (spawn) and fillRecord compute, as sets
   of table numbers, for every record that respects the API discipline. *)
From Coq Require Import NArith List Bool Lia Permutation PeanoNat.
From GL Require Import Conc.RefLoop Conc.RefLoopLemmas Conc.VersionLayer.
Import ListNotations.
Open Scope N_scope.

(* ---------- lists ---------- *)

Lemma ldiff_nil_r : forall l, ldiff l [] = l.
Proof. induction l as [|a l IH]; cbn; auto. f_equal. exact IH. Qed.

Lemma ldiff_incl_nil : forall a b, incl a b -> ldiff a b = [].
Proof.
  induction a as [|x a IH]; intros b H; cbn; auto.
  assert (Hx : In x b) by (apply H; left; reflexivity). apply smem_In in Hx. rewrite Hx. cbn.
  apply IH. intros y Hy. apply H. right. exact Hy.
Qed.

Lemma NoDup_app_iff : forall (a b : list N),
  NoDup (a ++ b) <-> NoDup a /\ NoDup b /\ (forall x, In x a -> ~ In x b).
Proof.
  induction a as [|x a IH]; intros b; cbn.
  - split; [intros H; repeat split; auto; constructor | intros (_ & H & _); exact H].
  - split.
    + intros H. inversion H as [|? ? Hn Hnd]; subst. apply IH in Hnd. destruct Hnd as (Ha & Hb & Hab).
      split; [constructor; auto; intros Hi; apply Hn; apply in_or_app; left; exact Hi|].
      split; [exact Hb|]. intros y [->|Hy]; [intros Hi; apply Hn; apply in_or_app; right; exact Hi | apply Hab; exact Hy].
    + intros (Ha & Hb & Hab). inversion Ha as [|? ? Hn Hnd]; subst. constructor.
      * intros Hi. apply in_app_or in Hi. destruct Hi as [Hi|Hi]; [apply Hn; exact Hi | apply (Hab x); auto].
      * apply IH. repeat split; auto.
Qed.

Lemma perm_in_iff : forall (x : N) l l', Permutation l l' -> (In x l <-> In x l').
Proof. intros x l l' H. split; [apply Permutation_in; exact H | apply Permutation_in; apply Permutation_sym; exact H]. Qed.

Lemma filter_all : forall {A} (f : A -> bool) l, (forall x, In x l -> f x = true) -> filter f l = l.
Proof.
  induction l as [|x l IH]; intros H; cbn; auto.
  rewrite (H x) by (left; reflexivity). f_equal. apply IH. intros y Hy. apply H. right. exact Hy.
Qed.

Lemma sdel_In : forall s k n, In n (sdel s k) <-> In n s /\ n <> k.
Proof.
  intros s k n. rewrite <- !smem_In. destruct (N.eq_dec k n) as [->|Hne].
  - rewrite smem_sdel_eq. split; [discriminate|intros [_ H]; congruence].
  - rewrite smem_sdel_neq by exact Hne. split; [intros H; split; auto|intros [H _]; exact H].
Qed.

Lemma sadd_In : forall s k n, In n (sadd s k) <-> n = k \/ In n s.
Proof.
  intros s k n. rewrite <- !smem_In. destruct (N.eq_dec k n) as [->|Hne].
  - rewrite smem_sadd_eq. split; auto.
  - rewrite smem_sadd_neq by exact Hne. split; [auto|intros [H|H]; [congruence|exact H]].
Qed.

Lemma tmem_In : forall l n, tmem l n = true <-> In n (map t_num l).
Proof.
  intros l n. unfold tmem. rewrite existsb_exists, in_map_iff. split.
  - intros (x & Hx & He). apply N.eqb_eq in He. exists x. auto.
  - intros (x & He & Hx). exists x. split; auto. apply N.eqb_eq. exact He.
Qed.

Lemma tdel_In : forall l m n, In n (map t_num (tdel l m)) <-> In n (map t_num l) /\ n <> m.
Proof.
  intros l m n. unfold tdel. rewrite !in_map_iff. split.
  - intros (x & He & Hx). apply filter_In in Hx. destruct Hx as [Hx Hf]. apply negb_true_iff, N.eqb_neq in Hf.
    split; [exists x; auto | congruence].
  - intros ((x & He & Hx) & Hne). exists x. split; auto. apply filter_In. split; auto.
    apply negb_true_iff, N.eqb_neq. congruence.
Qed.

Lemma tdel_cons : forall x l m, tdel (x :: l) m = if negb (t_num x =? m) then x :: tdel l m else tdel l m.
Proof. reflexivity. Qed.

Lemma tdel_NoDup : forall l m, NoDup (map t_num l) -> NoDup (map t_num (tdel l m)).
Proof.
  induction l as [|x l IH]; intros m H; [constructor|].
  cbn [map] in H. inversion H as [|? ? Hn Hnd]; subst. rewrite tdel_cons.
  destruct (negb (t_num x =? m)).
  - cbn [map]. constructor; [|apply IH; exact Hnd]. intros Hi. apply tdel_In in Hi. apply Hn. apply Hi.
  - apply IH. exact Hnd.
Qed.

Lemma filter_map_num : forall (g : N -> bool) (l : list tbl),
  map t_num (filter (fun t => g (t_num t)) l) = filter g (map t_num l).
Proof. induction l as [|x l IH]; cbn; auto. destruct (g (t_num x)); cbn; rewrite IH; reflexivity. Qed.

Lemma filter_NoDup : forall (g : N -> bool) (l : list N), NoDup l -> NoDup (filter g l).
Proof.
  induction l as [|x l IH]; intros H; cbn; [constructor|]. inversion H as [|? ? Hn Hnd]; subst.
  destruct (g x); auto. constructor; auto. intros Hi. apply filter_In in Hi. apply Hn. apply Hi.
Qed.

(* ---------- levels ---------- *)

Definition lnums (lv : levels) (i : nat) : list N := map t_num (nth i lv []).

Lemma flat_cons : forall x lv, flat (x :: lv) = map t_num x ++ flat lv.
Proof. reflexivity. Qed.

Lemma In_flat : forall lv n, In n (flat lv) <-> exists i, In n (lnums lv i).
Proof.
  induction lv as [|x lv IH]; intros n.
  - cbn. split; [tauto|]. intros [i H]. unfold lnums in H. destruct i; cbn in H; tauto.
  - rewrite flat_cons, in_app_iff, IH. split.
    + intros [H|[i H]]; [exists O; exact H | exists (S i); exact H].
    + intros [[|i] H]; [left; exact H | right; exists i; exact H].
Qed.

Lemma NoDup_flat : forall lv, NoDup (flat lv) <->
  (forall i, NoDup (lnums lv i)) /\
  (forall i j n, i <> j -> In n (lnums lv i) -> In n (lnums lv j) -> False).
Proof.
  induction lv as [|x lv IH].
  - split; [intros _; split | intros _; constructor].
    + intros i. unfold lnums. destruct i; cbn; constructor.
    + intros i j n _ H. unfold lnums in H. destruct i; cbn in H; tauto.
  - rewrite flat_cons, NoDup_app_iff, IH. split.
    + intros (Hx & (Hl & Hd) & Hxl). split.
      * intros [|i]; [exact Hx | apply Hl].
      * intros [|i] [|j] n Hne Hi Hj.
        -- congruence.
        -- apply (Hxl n Hi). apply In_flat. exists j. exact Hj.
        -- apply (Hxl n Hj). apply In_flat. exists i. exact Hi.
        -- apply (Hd i j n); auto.
    + intros (Hl & Hd). split; [apply (Hl O)|]. split; [split|].
      * intros i. apply (Hl (S i)).
      * intros i j n Hne. apply (Hd (S i) (S j) n). congruence.
      * intros n Hn Hf. apply In_flat in Hf. destruct Hf as [j Hj]. apply (Hd O (S j) n); auto.
Qed.

Lemma nth_nil : forall {A} i (d : A), nth i [] d = d.
Proof. intros A i d. destruct i; reflexivity. Qed.

Lemma nth_trim : forall lv i, nth i (trim lv) [] = nth i lv ([] : list tbl).
Proof.
  induction lv as [|x lv IH]; intros i; [reflexivity|].
  cbn [trim]. destruct x as [|t x].
  - destruct (trim lv) as [|y tl] eqn:E.
    + rewrite nth_nil. destruct i; [reflexivity|]. cbn [nth]. rewrite <- IH. rewrite nth_nil. reflexivity.
    + destruct i; [reflexivity|]. cbn [nth]. apply IH.
  - destruct i; [reflexivity|]. cbn [nth]. apply IH.
Qed.

Lemma flat_trim_In : forall lv n, In n (flat (trim lv)) <-> In n (flat lv).
Proof. intros. rewrite !In_flat. unfold lnums. split; intros [i H]; exists i; [rewrite <- nth_trim | rewrite nth_trim]; exact H. Qed.

Lemma nth_map_seq : forall (f : nat -> list tbl) n i,
  nth i (map f (seq 0 n)) [] = if Nat.ltb i n then f i else [].
Proof.
  intros f n i. destruct (Nat.ltb_spec i n) as [Hlt|Hge].
  - rewrite (nth_indep _ [] (f O)) by (rewrite map_length, seq_length; exact Hlt).
    rewrite map_nth, seq_nth by exact Hlt. reflexivity.
  - apply nth_overflow. rewrite map_length, seq_length. exact Hge.
Qed.

Lemma finish_nth : forall t base p i,
  nth i (finish t base p) [] = finish_level t i (nth i base []) (nth i p sc_empty).
Proof.
  intros t base p i. unfold finish. rewrite nth_trim, nth_map_seq.
  destruct (Nat.ltb_spec i (Nat.max (length p) (length base))) as [Hlt|Hge]; [reflexivity|].
  rewrite (nth_overflow base) by lia. rewrite (nth_overflow p) by lia. reflexivity.
Qed.

(* ---------- the scratch array ---------- *)

Lemma upd_scratch_nth : forall l p f j,
  nth j (upd_scratch p l f) sc_empty = if Nat.eqb j l then f (nth l p sc_empty) else nth j p sc_empty.
Proof.
  induction l as [|l IH]; intros p f j.
  - destruct p as [|s p]; destruct j as [|j]; cbn; auto. destruct j; reflexivity.
  - destruct p as [|s p]; destruct j as [|j]; cbn [upd_scratch nth Nat.eqb]; auto.
    + rewrite IH. rewrite !nth_nil. reflexivity.
Qed.

Definition del_at (ds : list (N * N)) (i : nat) (n : N) : Prop :=
  exists l, In (l, n) ds /\ N.to_nat l = i.
Definition add_at (ads : list (N * tbl)) (i : nat) (n : N) : Prop :=
  exists l t, In (l, t) ads /\ N.to_nat l = i /\ t_num t = n.

Lemma stage_del_fold_deleted : forall base ds p i n,
  In n (sc_deleted (nth i (fold_left (stage_del base) ds p) sc_empty)) <->
  In n (sc_deleted (nth i p sc_empty)) \/ (level_nonempty base i = true /\ del_at ds i n).
Proof.
  intros base. induction ds as [|[l m] ds IH]; intros p i n; cbn [fold_left].
  - split; [auto|]. intros [H|[_ (l & [] & _)]]. exact H.
  - rewrite IH. unfold stage_del. cbn [fst snd]. rewrite upd_scratch_nth.
    destruct (Nat.eqb_spec i (N.to_nat l)) as [->|Hne].
    + cbn [sc_deleted]. destruct (level_nonempty base (N.to_nat l)) eqn:Hl.
      * rewrite sadd_In. split.
        -- intros [[->|H]|[_ (l' & Hin & He)]].
           ++ right. split; auto. exists l. split; [left; reflexivity|reflexivity].
           ++ left. exact H.
           ++ right. split; auto. exists l'. split; [right; exact Hin|exact He].
        -- intros [H|[_ (l' & [Heq|Hin] & He)]].
           ++ left. right. exact H.
           ++ inversion Heq; subst. left. left. reflexivity.
           ++ right. split; auto. exists l'. auto.
      * split.
        -- intros [H|[Hc _]]; [left; exact H|discriminate].
        -- intros [H|[Hc _]]; [left; exact H|discriminate].
    + split.
      * intros [H|[Hl (l' & Hin & He)]]; [left; exact H|]. right. split; auto. exists l'. split; [right; exact Hin|exact He].
      * intros [H|[Hl (l' & [Heq|Hin] & He)]]; [left; exact H | inversion Heq; subst; congruence |].
        right. split; auto. exists l'. auto.
Qed.

Lemma stage_del_fold_added : forall base ds p,
  (forall j, sc_added (nth j p sc_empty) = []) ->
  forall j, sc_added (nth j (fold_left (stage_del base) ds p) sc_empty) = [].
Proof.
  intros base. induction ds as [|[l m] ds IH]; intros p H j; cbn [fold_left]; [apply H|].
  apply IH. intros k. unfold stage_del. cbn [fst snd]. rewrite upd_scratch_nth.
  destruct (Nat.eqb k (N.to_nat l)); [|apply H]. cbn [sc_added]. rewrite H. reflexivity.
Qed.

Lemma stage_add_fold : forall ads p i,
  (forall n, In n (map t_num (sc_added (nth i (fold_left stage_add ads p) sc_empty))) <->
             In n (map t_num (sc_added (nth i p sc_empty))) \/ add_at ads i n) /\
  (forall n, In n (sc_deleted (nth i (fold_left stage_add ads p) sc_empty)) <->
             In n (sc_deleted (nth i p sc_empty)) /\ ~ add_at ads i n) /\
  (NoDup (map t_num (sc_added (nth i p sc_empty))) ->
   NoDup (map t_num (sc_added (nth i (fold_left stage_add ads p) sc_empty)))).
Proof.
  induction ads as [|[l t] ads IH]; intros p i; cbn [fold_left].
  - split; [|split]; auto.
    + intros n. split; [auto|]. intros [H|(l & t & [] & _)]. exact H.
    + intros n. split; [intros H; split; auto; intros (l & t & [] & _)|intros [H _]; exact H].
  - destruct (IH (stage_add p (l, t)) i) as (IA & ID & IN). clear IH.
    assert (Hnth : nth i (stage_add p (l, t)) sc_empty =
                   if Nat.eqb i (N.to_nat l)
                   then {| sc_added := t :: tdel (sc_added (nth (N.to_nat l) p sc_empty)) (t_num t);
                           sc_deleted := sdel (sc_deleted (nth (N.to_nat l) p sc_empty)) (t_num t) |}
                   else nth i p sc_empty).
    { unfold stage_add. cbn [fst snd]. apply upd_scratch_nth. }
    split; [|split].
    + intros n. rewrite IA, Hnth. destruct (Nat.eqb_spec i (N.to_nat l)) as [->|Hne].
      * cbn [sc_added map In]. rewrite tdel_In. split.
        -- intros [[He|[Hi _]]|(l' & t' & Hin & He & Hn)].
           ++ right. exists l, t. split; [left; reflexivity|auto].
           ++ left. exact Hi.
           ++ right. exists l', t'. split; [right; exact Hin|auto].
        -- intros [Hi|(l' & t' & [Heq|Hin] & He & Hn)].
           ++ destruct (N.eq_dec n (t_num t)) as [->|Hne]; [left; left; reflexivity|left; right; auto].
           ++ inversion Heq; subst. left. left. reflexivity.
           ++ right. exists l', t'. auto.
      * split.
        -- intros [Hi|(l' & t' & Hin & He & Hn)]; [left; exact Hi|]. right. exists l', t'. split; [right; exact Hin|auto].
        -- intros [Hi|(l' & t' & [Heq|Hin] & He & Hn)]; [left; exact Hi | inversion Heq; subst; congruence |].
           right. exists l', t'. auto.
    + intros n. rewrite ID, Hnth. destruct (Nat.eqb_spec i (N.to_nat l)) as [->|Hne].
      * cbn [sc_deleted]. rewrite sdel_In. split.
        -- intros [[Hi Hn] Hna]. split; auto. intros (l' & t' & [Heq|Hin] & He & Hn').
           ++ inversion Heq; subst. congruence.
           ++ apply Hna. exists l', t'. auto.
        -- intros [Hi Hna]. split; [split; auto|].
           ++ intros ->. apply Hna. exists l, t. split; [left; reflexivity|auto].
           ++ intros (l' & t' & Hin & He & Hn'). apply Hna. exists l', t'. split; [right; exact Hin|auto].
      * split.
        -- intros [Hi Hna]. split; auto. intros (l' & t' & [Heq|Hin] & He & Hn').
           ++ inversion Heq; subst. congruence.
           ++ apply Hna. exists l', t'. auto.
        -- intros [Hi Hna]. split; auto. intros (l' & t' & Hin & He & Hn'). apply Hna. exists l', t'. split; [right; exact Hin|auto].
    + intros Hnd. apply IN. rewrite Hnth. destruct (Nat.eqb_spec i (N.to_nat l)) as [->|Hne]; [|exact Hnd].
      cbn [sc_added map]. constructor; [|apply tdel_NoDup; exact Hnd].
      intros Hi. apply tdel_In in Hi. destruct Hi as [_ Hi]. congruence.
Qed.

(* ---------- one level of finish ---------- *)

Lemma insert_by_perm : forall le x l, Permutation (insert_by le x l) (x :: l).
Proof.
  induction l as [|y l IH]; cbn; auto. destruct (le x y); auto.
  eapply perm_trans; [apply perm_skip; exact IH|apply perm_swap].
Qed.

Lemma sort_by_perm : forall le l, Permutation (sort_by le l) l.
Proof.
  induction l as [|x l IH]; cbn; auto.
  eapply perm_trans; [apply insert_by_perm|]. apply perm_skip. exact IH.
Qed.

Lemma insert_at_perm : forall nt i b, Permutation (insert_at nt i b) (nt ++ b).
Proof.
  intros nt i b. unfold insert_at. rewrite <- (firstn_skipn i nt) at 3. rewrite <- app_assoc.
  apply Permutation_app_head. apply Permutation_app_comm.
Qed.

Definition keepb (s : scratch) (n : N) : bool := negb (smem (sc_deleted s) n) && negb (tmem (sc_added s) n).

Lemma finish_level_perm : forall t lvl base s,
  Permutation (finish_level t lvl base s) (filter (fun x => keepb s (t_num x)) base ++ sc_added s).
Proof.
  intros t lvl base s. unfold finish_level, keepb.
  destruct (sc_added s) as [|a ads] eqn:Ea; destruct (sc_deleted s) as [|d ds] eqn:Ed.
  - rewrite app_nil_r. rewrite filter_all; [apply Permutation_refl|]. intros x _. reflexivity.
  - rewrite app_nil_r. apply Permutation_refl.
  - destruct t.
    + destruct lvl; (eapply perm_trans; [apply insert_at_perm|]; apply Permutation_app_head; apply sort_by_perm).
    + destruct lvl; apply sort_by_perm.
  - destruct t.
    + destruct lvl; (eapply perm_trans; [apply insert_at_perm|]; apply Permutation_app_head; apply sort_by_perm).
    + destruct lvl; apply sort_by_perm.
Qed.

Lemma finish_level_nums : forall t lvl base s,
  Permutation (map t_num (finish_level t lvl base s))
              (filter (keepb s) (map t_num base) ++ map t_num (sc_added s)).
Proof.
  intros. eapply perm_trans; [apply Permutation_map; apply finish_level_perm|].
  rewrite map_app, filter_map_num. apply Permutation_refl.
Qed.

(* ---------- spawn ---------- *)

Section Spawn.
  Variables (base : levels) (r : srec) (tr : bool).
  Hypothesis Hbase : NoDup (flat base).
  Hypothesis Hadd_nd : NoDup (added_nums r).
  Hypothesis Hdel_in : forall l n, In (l, n) (r_deleted r) -> In n (lnums base (N.to_nat l)).
  Hypothesis Hadd_new : forall n, In n (added_nums r) -> In n (deleted_nums r) \/ ~ In n (flat base).

  Let P := stage_commit base [] r.
  Let S (i : nat) := nth i P sc_empty.
  Let A (i : nat) (n : N) := add_at (r_added r) i n.
  Let D (i : nat) (n : N) := del_at (r_deleted r) i n.

  Lemma sp_added : forall i n, In n (map t_num (sc_added (S i))) <-> A i n.
  Proof.
    intros i n. unfold S, P, stage_commit.
    destruct (stage_add_fold (r_added r) (fold_left (stage_del base) (r_deleted r) []) i) as (IA & _ & _).
    rewrite IA. rewrite stage_del_fold_added by (intros j; rewrite nth_nil; reflexivity).
    cbn. unfold A. tauto.
  Qed.

  Lemma sp_added_nd : forall i, NoDup (map t_num (sc_added (S i))).
  Proof.
    intros i. unfold S, P, stage_commit.
    destruct (stage_add_fold (r_added r) (fold_left (stage_del base) (r_deleted r) []) i) as (_ & _ & IN).
    apply IN. rewrite stage_del_fold_added by (intros j; rewrite nth_nil; reflexivity). constructor.
  Qed.

  Lemma sp_deleted : forall i n, In n (sc_deleted (S i)) <-> level_nonempty base i = true /\ D i n /\ ~ A i n.
  Proof.
    intros i n. unfold S, P, stage_commit.
    destruct (stage_add_fold (r_added r) (fold_left (stage_del base) (r_deleted r) []) i) as (_ & ID & _).
    rewrite ID, stage_del_fold_deleted. rewrite nth_nil. cbn. unfold A, D. tauto.
  Qed.

  Lemma A_added : forall i n, A i n -> In n (added_nums r).
  Proof.
    intros i n (l & t & Hin & _ & Hn). unfold added_nums. apply in_map_iff. exists (l, t). auto.
  Qed.

  Lemma added_A : forall n, In n (added_nums r) -> exists i, A i n.
  Proof.
    intros n H. unfold added_nums in H. apply in_map_iff in H. destruct H as ([l t] & Hn & Hin).
    exists (N.to_nat l), l, t. auto.
  Qed.

  Lemma A_level : forall i j n, A i n -> A j n -> i = j.
  Proof.
    intros i j n (l & t & Hin & Hl & Hn) (l' & t' & Hin' & Hl' & Hn').
    assert (Heq : (l, t) = (l', t')).
    { revert Hadd_nd Hin Hin' Hn Hn'. unfold added_nums. generalize (r_added r) as ads.
      induction ads as [|x ads IH]; cbn; [tauto|]. intros Hnd H1 H2 E1 E2. inversion Hnd as [|? ? Hni Hnd']; subst.
      destruct H1 as [->|H1]; destruct H2 as [->|H2]; auto.
      - exfalso. apply Hni. apply in_map_iff. exists (l', t'). cbn. split; [congruence|exact H2].
      - exfalso. apply Hni. apply in_map_iff. exists (l, t). cbn. split; [congruence|exact H1]. }
    inversion Heq; subst. reflexivity.
  Qed.

  Lemma D_deleted : forall i n, D i n -> In n (deleted_nums r) /\ In n (lnums base i).
  Proof.
    intros i n (l & Hin & Hl). split.
    - unfold deleted_nums. apply in_map_iff. exists (l, n). auto.
    - rewrite <- Hl. apply Hdel_in. exact Hin.
  Qed.

  Lemma deleted_D : forall n, In n (deleted_nums r) -> exists i, D i n.
  Proof.
    intros n H. unfold deleted_nums in H. apply in_map_iff in H. destruct H as ([l m] & Hn & Hin).
    cbn in Hn. subst. exists (N.to_nat l), l. auto.
  Qed.

  Lemma lnums_nonempty : forall i n, In n (lnums base i) -> level_nonempty base i = true.
  Proof. intros i n H. unfold level_nonempty, lnums in *. destruct (nth i base []); [destruct H|reflexivity]. Qed.

  (* the numbers of level i of the spawned version *)
  Lemma spawn_level : forall i n,
    In n (lnums (spawn base r tr) i) <->
    (In n (lnums base i) /\ ~ In n (sc_deleted (S i)) /\ ~ A i n) \/ A i n.
  Proof.
    intros i n. unfold lnums, spawn. fold P. rewrite finish_nth. fold (S i).
    rewrite (perm_in_iff n _ _ (finish_level_nums tr i (nth i base []) (S i))).
    rewrite in_app_iff, filter_In, sp_added. unfold keepb.
    rewrite andb_true_iff, !negb_true_iff, <- !not_true_iff_false, smem_In, tmem_In, sp_added. tauto.
  Qed.

  Lemma base_level_unique : forall i j n, In n (lnums base i) -> In n (lnums base j) -> i = j.
  Proof.
    intros i j n Hi Hj. destruct (Nat.eq_dec i j) as [|Hne]; auto. exfalso.
    apply NoDup_flat in Hbase. destruct Hbase as [_ Hd]. apply (Hd i j n); auto.
  Qed.

  Lemma spawn_In : forall n,
    In n (flat (spawn base r tr)) <-> (In n (flat base) /\ ~ In n (deleted_nums r)) \/ In n (added_nums r).
  Proof.
    intros n. rewrite In_flat. split.
    - intros [i Hi]. apply spawn_level in Hi. destruct Hi as [(Hb & Hnd & Hna)|Ha].
      + left. split; [apply In_flat; exists i; exact Hb|]. intros Hd. apply deleted_D in Hd. destruct Hd as [j Hj].
        assert (j = i) by (apply (base_level_unique j i n); [apply D_deleted; exact Hj|exact Hb]). subst j.
        apply Hnd. apply sp_deleted. split; [apply (lnums_nonempty i n Hb)|]. split; auto.
      + right. apply (A_added i n Ha).
    - intros [[Hb Hnd]|Ha].
      + destruct (in_dec N.eq_dec n (added_nums r)) as [Ha|Hna].
        * apply added_A in Ha. destruct Ha as [i Hi]. exists i. apply spawn_level. right. exact Hi.
        * apply In_flat in Hb. destruct Hb as [i Hi]. exists i. apply spawn_level. left. split; [exact Hi|]. split.
          -- intros Hd. apply sp_deleted in Hd. destruct Hd as (_ & Hd & _). apply Hnd. apply (D_deleted i n Hd).
          -- intros Ha. apply Hna. apply (A_added i n Ha).
      + apply added_A in Ha. destruct Ha as [i Hi]. exists i. apply spawn_level. right. exact Hi.
  Qed.

  Lemma spawn_NoDup : NoDup (flat (spawn base r tr)).
  Proof.
    apply NoDup_flat. split.
    - intros i. unfold lnums, spawn. fold P. rewrite finish_nth. fold (S i).
      eapply Permutation_NoDup; [apply Permutation_sym; apply finish_level_nums|].
      apply NoDup_app_iff. split; [|split].
      + apply filter_NoDup. apply NoDup_flat in Hbase. destruct Hbase as [Hl _]. apply (Hl i).
      + apply sp_added_nd.
      + intros x Hx Ha. apply filter_In in Hx. destruct Hx as [_ Hk]. unfold keepb in Hk.
        apply andb_true_iff in Hk. destruct Hk as [_ Hk]. apply negb_true_iff in Hk.
        apply tmem_In in Ha. congruence.
    - intros i j n Hne Hi Hj. apply spawn_level in Hi. apply spawn_level in Hj.
      assert (Hmix : forall a b, a <> b -> In n (lnums base a) -> ~ In n (sc_deleted (S a)) -> ~ A a n -> A b n -> False).
      { intros a b Hab Hb Hnd Hna Hab'.
        destruct (Hadd_new n (A_added b n Hab')) as [Hd|Hnb]; [|apply Hnb; apply In_flat; exists a; exact Hb].
        apply deleted_D in Hd. destruct Hd as [k Hk].
        assert (k = a) by (apply (base_level_unique k a n); [apply D_deleted; exact Hk|exact Hb]). subst k.
        apply Hnd. apply sp_deleted. split; [apply (lnums_nonempty a n Hb)|]. split; auto. }
      destruct Hi as [(Hbi & Hndi & Hnai)|Hai]; destruct Hj as [(Hbj & Hndj & Hnaj)|Haj].
      + apply Hne. apply (base_level_unique i j n); auto.
      + apply (Hmix i j); auto.
      + apply (Hmix j i); auto.
      + apply Hne. apply (A_level i j n); auto.
  Qed.
End Spawn.

(* ---------- fillRecord ---------- *)

Lemma fill_levels_nums : forall listed lv k,
  map (fun x => t_num (snd x)) (fill_levels listed k lv) = ldiff (flat lv) listed.
Proof.
  intros listed. induction lv as [|tables lv IH]; intros k; [reflexivity|].
  cbn [fill_levels]. rewrite map_app, IH, flat_cons. unfold ldiff. rewrite filter_app. f_equal.
  rewrite map_map. cbn [snd]. apply (filter_map_num (fun n => negb (smem listed n))).
Qed.

Lemma fill_record_added : forall r lv,
  added_nums (fill_record r lv) = added_nums r ++ ldiff (flat lv) (added_nums r).
Proof. intros. unfold added_nums, fill_record. cbn [r_added]. rewrite map_app. f_equal. apply fill_levels_nums. Qed.

Lemma fill_record_deleted : forall r lv, deleted_nums (fill_record r lv) = deleted_nums r.
Proof. reflexivity. Qed.
