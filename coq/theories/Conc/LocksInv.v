(* Conc/LocksInv.v — preservation of the protocol invariant inv2' (= glob + per-client loc, see
   LocksDeadlock.v) by the steps of a client: one lemma per label that changes the shared state, plus inv2_pure
   for the labels that do not.  (Background goroutines: Conc/LocksInvBg.v; assembly: Conc/LocksInvAll.v.) *)
From GL Require Import Conc.Locks Conc.LocksProofs Conc.LocksDeadlock.
From Coq Require Import Lia.

Lemma loc_other : forall s s' j pc,
  mx s' = mx s -> ctk s' = ctk s -> tx s' = tx s -> tq s' = tq s -> pend s' = pend s -> merged s' = merged s ->
  closed s' = closed s -> closeC s' = closeC s -> wl s' = wl s -> tl s' = tl s -> trown s' = trown s ->
  closetgt s' = closetgt s -> loc s j pc -> loc s' j pc.
Proof.
  intros s s' j pc E1 E2 E3 E4 E5 E6 E7 E8 E9 E10 E11 E12 [].
  constructor; unfold trc in *; rewrite ?E1, ?E2, ?E3, ?E4, ?E5, ?E6, ?E7, ?E8, ?E9, ?E10, ?E11, ?E12; auto.
Qed.

(* the actor's own facts after a step that leaves the shared state as it is *)
Lemma loc_pure : forall s i pc pc',
  loc s i pc -> (closetgt s <> None -> closed s = true) ->
  (is_trigw BM pc' = true -> mx s = Some (i, ctk s i)) ->
  (is_trigw BT pc' = true -> tx s = Some (i, ctk s i) \/ In (i, ctk s i) (tq s)) ->
  is_W23 pc' = false -> is_W23 pc = false -> (is_WMs pc' = true -> pend s <> None) ->
  (closer_phase pc' = true -> closer_phase pc = true \/ (closed s = true /\ wl s <> WClosed)) ->
  (closer_after pc' = true -> closer_after pc = true \/ closeC s = true) ->
  (closer_has pc = true -> closer_has pc' = true \/ closer_phase pc' = false) ->
  (cTl pc' = true -> in_close_ctx pc' = in_close_ctx pc) ->
  (cTl pc' = true -> cTl pc = true \/ trc s i pc = false \/ tl s = Some i) ->
  (tropen_pc pc' = true -> tropen_pc pc = true \/ trc s i pc = true) ->
  (owner_ok pc = true -> owner_ok pc' = true \/ trc s i pc = false) ->
  (in_close_ctx pc = true -> owner_ok pc = false) ->
  (ot_phase pc' = true -> ot_phase pc = true \/ closed s = false) ->
  loc s i pc'.
Proof.
  intros s i pc pc' L Gl T1a T1b T2 T3 T4 T5 T6 T7 T8 T9 T10 T11 T12 T13.
  destruct L as [A1 A2 A3a A3b A4b A5a A5b A8 A6a A6 A7 A9]. constructor.
  - exact T1a.
  - exact T1b.
  - split; intro X.
    + subst pc'. discriminate.
    + apply A3a in X. subst pc. discriminate.
  - split; intro X.
    + subst pc'. discriminate.
    + apply A3b in X. subst pc. discriminate.
  - exact T4.
  - intro X. destruct (T5 X) as [Z | [Z _]]; auto.
  - intro X. destruct (T6 X) as [Z | Z]; auto.
  - intros X Y. destruct (T5 X) as [Z | [_ Z]]; auto. apply A8; auto. destruct (closer_has pc) eqn:E; auto.
    destruct (T7 eq_refl); congruence.
  - intros X Y. assert (E : trc s i pc' = trc s i pc) by (unfold trc; rewrite (T8 X); reflexivity).
    rewrite E in Y. destruct (T9 X) as [Z | [Z | Z]]; [auto | congruence | auto].
  - intro X. assert (C : cTl pc' = true) by (destruct pc'; simpl in *; try discriminate; dparams; auto).
    assert (E : trc s i pc' = trc s i pc) by (unfold trc; rewrite (T8 C); reflexivity).
    rewrite E. destruct (T10 X); auto.
  - intro X. pose proof (A7 X) as O.
    destruct (T11 O) as [Z | Z]; auto.
    exfalso. unfold trc in Z. destruct (in_close_ctx pc) eqn:IC; [specialize (T12 eq_refl); congruence|].
    rewrite X in Z. simpl in Z. rewrite Nat.eqb_refl in Z. discriminate.
  - intro X. destruct (ot_phase pc') eqn:O; auto. destruct (T13 eq_refl) as [Z | Z].
    + specialize (A9 X). congruence.
    + exfalso. assert (closetgt s <> None) by congruence. pose proof (Gl H). congruence.
Qed.

Lemma glob_set_pc : forall s i pc',
  glob s ->
  (closer_early (cli s i) = true -> closer_early pc' = true) ->
  (mergephase (cli s i) = true -> mergephase pc' = true) ->
  (closer_phase pc' = true -> closer_phase (cli s i) = true) ->
  glob (set_pc s i pc').
Proof.
  intros s i pc' Gl H1 H2 H3. destruct Gl. constructor; simpl; auto.
  - intros A B. destruct (gg6 A B) as [w Hw]. exists w. unfold upd.
    destruct (Nat.eqb w i) eqn:E; auto. apply Nat.eqb_eq in E; subst. auto.
  - intro A. destruct (ggl4 A) as [h [Hh Mh]]. exists h. split; auto. unfold upd.
    destruct (Nat.eqb h i) eqn:E; auto. apply Nat.eqb_eq in E; subst. auto.
  - intros a b. unfold upd.
    destruct (Nat.eqb a i) eqn:Ea; destruct (Nat.eqb b i) eqn:Eb;
      try (apply Nat.eqb_eq in Ea); try (apply Nat.eqb_eq in Eb); subst; intros; auto.
Qed.

(* all facts after a step of client i that leaves the shared state as it is *)
Lemma inv2_pure : forall s i pc',
  inv2' s ->
  is_trigw_any pc' = false -> is_W23 pc' = false -> is_W23 (cli s i) = false -> is_WMs pc' = false ->
  (closer_phase pc' = true -> closer_phase (cli s i) = true) ->
  (closer_after pc' = true -> closer_after (cli s i) = true) ->
  (closer_has (cli s i) = true -> closer_has pc' = true \/ closer_phase pc' = false) ->
  (cTl pc' = true -> in_close_ctx pc' = in_close_ctx (cli s i)) ->
  (cTl pc' = true -> cTl (cli s i) = true \/ trc s i (cli s i) = false) ->
  (tropen_pc pc' = true -> tropen_pc (cli s i) = true \/ trc s i (cli s i) = true) ->
  (owner_ok (cli s i) = true -> owner_ok pc' = true \/ trc s i (cli s i) = false) ->
  (in_close_ctx (cli s i) = true -> owner_ok (cli s i) = false) ->
  (ot_phase pc' = true -> ot_phase (cli s i) = true \/ closed s = false) ->
  (closer_early (cli s i) = true -> closer_early pc' = true) ->
  (mergephase (cli s i) = true -> mergephase pc' = true) ->
  inv2' (set_pc s i pc').
Proof.
  intros s i pc' [Gl L] T1 T2 T3 T4 T5 T6 T7 T8 T9 T10 T11 T12 T13 T14 T15.
  split.
  - apply glob_set_pc; auto.
  - intro j. simpl. unfold upd. destruct (Nat.eqb j i) eqn:E.
    + apply Nat.eqb_eq in E; subst j.
      apply (loc_other s); try reflexivity.
      eapply loc_pure; eauto.
      * apply (gg12 s Gl).
      * intro X. destruct pc'; simpl in *; try discriminate.
      * intro X. destruct pc'; simpl in *; try discriminate.
      * intro X. congruence.
      * intro X. destruct (T9 X); auto.
    + apply (loc_other s); try reflexivity. apply L.
Qed.

Lemma implb_elim2 : forall a b, implb a b = true -> a = true -> b = true.
Proof. destruct a, b; simpl; auto. Qed.

(* the same, with the hypotheses in the shape of the conjuncts of cedge2_ok *)
Lemma inv2_pure_b : forall s i pc' (bCas bChan bL bO bR bF bC bG bU : bool),
  inv2' s ->
  is_trigw_any pc' = false -> is_W23 pc' = false -> is_W23 (cli s i) = false -> is_WMs pc' = false ->
  implb (closer_phase pc') (closer_phase (cli s i) || bCas) = true -> bCas = false ->
  implb (closer_after pc') (closer_after (cli s i) || bChan) = true -> bChan = false ->
  implb (closer_has (cli s i)) (closer_has pc' || negb (closer_phase pc')) = true ->
  implb (cTl pc') (Bool.eqb (in_close_ctx pc') (in_close_ctx (cli s i))) = true ->
  implb (cTl pc') (cTl (cli s i) || bL) = true -> (bL = true -> trc s i (cli s i) = false) ->
  implb (tropen_pc pc') (tropen_pc (cli s i) || bO) = true -> (bO = true -> trc s i (cli s i) = true) ->
  implb (owner_ok (cli s i)) (owner_ok pc' || bR || bF) = true -> bR = false -> (bF = true -> trc s i (cli s i) = false) ->
  implb (in_close_ctx (cli s i)) (negb (owner_ok (cli s i))) = true ->
  implb (ot_phase pc') (ot_phase (cli s i) || bC) = true -> (bC = true -> closed s = false) ->
  implb (closer_early (cli s i)) (closer_early pc' || bChan) = true ->
  implb (mergephase (cli s i)) (mergephase pc' || bG || bU) = true -> bG = false -> bU = false ->
  inv2' (set_pc s i pc').
Proof.
  intros s i pc' bCas bChan bL bO bR bF bC bG bU I T1 T2 T3 T4 H5 E5 H6 E6 H7 H8 H9 E9 H10 E10 H11 E11a E11b H12 H13 E13 H14 H15 E15a E15b.
  subst bCas bChan bR bG bU.
  apply inv2_pure; auto.
  - intro X. pose proof (implb_elim2 _ _ H5 X) as Y. rewrite orb_false_r in Y. exact Y.
  - intro X. pose proof (implb_elim2 _ _ H6 X) as Y. rewrite orb_false_r in Y. exact Y.
  - intro X. pose proof (implb_elim2 _ _ H7 X) as Y. apply orb_prop in Y. destruct Y as [Y | Y]; auto.
    right. apply negb_true_iff in Y. exact Y.
  - intro X. pose proof (implb_elim2 _ _ H8 X) as Y. apply Bool.eqb_prop in Y. exact Y.
  - intro X. pose proof (implb_elim2 _ _ H9 X) as Y. apply orb_prop in Y. destruct Y as [Y | Y]; auto.
  - intro X. pose proof (implb_elim2 _ _ H10 X) as Y. apply orb_prop in Y. destruct Y as [Y | Y]; auto.
  - intro X. pose proof (implb_elim2 _ _ H11 X) as Y. rewrite orb_false_r in Y. apply orb_prop in Y.
    destruct Y as [Y | Y]; auto.
  - intro X. pose proof (implb_elim2 _ _ H12 X) as Y. apply negb_true_iff in Y. exact Y.
  - intro X. pose proof (implb_elim2 _ _ H13 X) as Y. apply orb_prop in Y. destruct Y as [Y | Y]; auto.
  - intro X. pose proof (implb_elim2 _ _ H14 X) as Y. rewrite orb_false_r in Y. exact Y.
  - intro X. pose proof (implb_elim2 _ _ H15 X) as Y. rewrite !orb_false_r in Y. exact Y.
Qed.

(* stability of one client's facts under a change of the shared state, with one obligation per fact *)
Lemma loc_chg : forall s s' j pc, loc s j pc ->
  (is_trigw BM pc = true -> mx s' = mx s /\ ctk s' j = ctk s j) ->
  (is_trigw BT pc = true -> (tx s = Some (j, ctk s j) \/ In (j, ctk s j) (tq s)) ->
                            tx s' = Some (j, ctk s' j) \/ In (j, ctk s' j) (tq s')) ->
  (pend s' = Some j <-> pend s = Some j) -> (In j (merged s') <-> In j (merged s)) ->
  (is_WMs pc = true -> pend s <> None -> pend s' <> None) ->
  (closed s = true -> closed s' = true) -> (closeC s = true -> closeC s' = true) ->
  (closer_phase pc = true -> closer_has pc = false -> wl s <> WClosed -> wl s' <> WClosed) ->
  (cTl pc = true -> trc s' j pc = true -> trc s j pc = true /\ (tl s = Some j -> tl s' = Some j)) ->
  (tropen_pc pc = true -> trc s j pc = true -> trc s' j pc = true) ->
  (trown s' = Some j -> trown s = Some j \/ owner_ok pc = true) ->
  (closetgt s' = Some j -> closetgt s = Some j \/ ot_phase pc = false) ->
  loc s' j pc.
Proof.
  intros s s' j pc [A1 A2 A3a A3b A4b A5a A5b A8 A6a A6 A7 A9] C1 C2 C3a C3b C4b C5a C5b C8 C6a C6 C7 C9.
  constructor.
  - intro X. destruct (C1 X) as [E1 E2]. rewrite E1, E2. auto.
  - intro X. apply C2; auto.
  - rewrite C3a. exact A3a.
  - rewrite C3b. exact A3b.
  - intro X. apply C4b; auto.
  - intro X. auto.
  - intro X. auto.
  - intros X Y. apply C8; auto.
  - intros X Y. destruct (C6a X Y) as [Z1 Z2]. auto.
  - intro X. apply C6; auto.
  - intro X. destruct (C7 X); auto.
  - intro X. destruct (C9 X); auto.
Qed.

(* the fields layer 3 looks at (everything but cl, memclr, poisoned, nexttk) *)
Definition same2 (s s' : state) : Prop :=
  wl s' = wl s /\ tl s' = tl s /\ closed s' = closed s /\ closeC s' = closeC s /\ trown s' = trown s /\
  closetgt s' = closetgt s /\ locking s' = locking s /\ cli s' = cli s /\ ctk s' = ctk s /\
  merged s' = merged s /\ pend s' = pend s /\ mc s' = mc s /\ mx s' = mx s /\ tc s' = tc s /\ tx s' = tx s /\
  tq s' = tq s /\ ce s' = ce s.

Lemma inv2'_frame : forall s s', same2 s s' -> inv2' s -> inv2' s'.
Proof.
  intros s s' (E1 & E2 & E3 & E4 & E5 & E6 & E7 & E8 & E9 & E10 & E11 & E12 & E13 & E14 & E15 & E16 & E17) [Gl L].
  split.
  - destruct Gl. constructor; rewrite ?E1, ?E2, ?E3, ?E4, ?E5, ?E6, ?E7, ?E8, ?E9, ?E10, ?E11, ?E12, ?E13, ?E14, ?E15, ?E16, ?E17; auto.
  - intro j. rewrite E8. apply (loc_other s); auto.
Qed.

Ltac frame2 S := eapply (inv2'_frame S); [repeat split; reflexivity |].

Ltac small_facts :=
  try (match goal with |- is_trigw_any ?p = false =>
         destruct p; try reflexivity; simpl in *; discriminate end);
  try (match goal with H : negb ?x = true |- ?x = false => apply negb_true_iff; exact H end);
  try (match goal with H : implb ?x false = true |- ?x = false => destruct x; [simpl in H; discriminate | reflexivity] end);
  try (let X := fresh in intro X; apply Bool.eqb_prop in X; exact X).
Ltac pure_case :=
  eapply inv2_pure_b; try eassumption; try reflexivity; try (intros; discriminate); try (intros; assumption); small_facts.



Ltac ty2 EK := unfold cedge2_ok in EK; cbn [lbl_is Bool.eqb] in EK; bsplit.

Lemma orb_false_elim : forall a b, implb a (b || false) = true -> a = true -> b = true.
Proof. intros a b H X. pose proof (implb_elim2 _ _ H X) as Y. rewrite orb_false_r in Y. exact Y. Qed.

(* discharge an implication between program-counter classes from the corresponding conjunct of the edge typing *)
Ltac tyf :=
  match goal with
  | H : implb ?A ?R = true |- ?A = true -> _ =>
      let X := fresh "X" in let Y := fresh "Y" in
      intro X; pose proof (implb_elim2 _ _ H X) as Y; rewrite ?orb_false_r in Y;
      first [ exact Y
            | left; exact Y
            | apply Bool.eqb_prop in Y; exact Y
            | apply negb_true_iff in Y; exact Y
            | apply orb_prop in Y; destruct Y as [Y|Y];
              [left; exact Y | right; apply negb_true_iff in Y; exact Y] ]
  end.
Ltac not_pc pc' := let X := fresh in intro X; destruct pc'; simpl in *; discriminate.

Lemma gg6_upd : forall (f : nat -> cpc) i pc',
  (exists w, closer_early (f w) = true) -> (closer_early (f i) = true -> closer_early pc' = true) ->
  exists w, closer_early (upd f i pc' w) = true.
Proof.
  intros f i pc' [w Hw] H. exists w. unfold upd. destruct (Nat.eqb w i) eqn:E; auto.
  apply Nat.eqb_eq in E; subst; auto.
Qed.
Lemma ggl4_upd : forall (f : nat -> cpc) w i pc',
  (exists h, w = WHeld (PCli h) /\ mergephase (f h) = true) -> (mergephase (f i) = true -> mergephase pc' = true) ->
  exists h, w = WHeld (PCli h) /\ mergephase (upd f i pc' h) = true.
Proof.
  intros f w i pc' [h [Hw Hm]] H. exists h. split; auto. unfold upd. destruct (Nat.eqb h i) eqn:E; auto.
  apply Nat.eqb_eq in E; subst; auto.
Qed.
Lemma ggu1_upd : forall (f : nat -> cpc) i pc',
  (forall a b, closer_phase (f a) = true -> closer_phase (f b) = true -> a = b) ->
  (closer_phase pc' = true -> closer_phase (f i) = true \/ forall j, closer_phase (f j) = false) ->
  forall a b, closer_phase (upd f i pc' a) = true -> closer_phase (upd f i pc' b) = true -> a = b.
Proof.
  intros f i pc' U H a b. unfold upd.
  destruct (Nat.eqb a i) eqn:Ea; destruct (Nat.eqb b i) eqn:Eb;
    try (apply Nat.eqb_eq in Ea); try (apply Nat.eqb_eq in Eb); subst; intros X Y; auto.
  - destruct (H X) as [Z | Z]; [apply U; auto | rewrite Z in Y; discriminate].
  - destruct (H Y) as [Z | Z]; [apply U; auto | rewrite Z in X; discriminate].
Qed.

(* assembling the facts after a step of client i: s1 = the new shared state (same program counters as s) *)
Lemma inv2_gen : forall s s1 i pc',
  cli s1 = cli s ->
  (forall j, loc s1 j (cli s j)) ->
  glob (set_pc s1 i pc') ->
  (is_trigw BM pc' = true -> mx s1 = Some (i, ctk s1 i)) ->
  (is_trigw BT pc' = true -> tx s1 = Some (i, ctk s1 i) \/ In (i, ctk s1 i) (tq s1)) ->
  is_W23 pc' = false -> is_W23 (cli s i) = false -> (is_WMs pc' = true -> pend s1 <> None) ->
  (closer_phase pc' = true -> closer_phase (cli s i) = true \/ (closed s1 = true /\ wl s1 <> WClosed)) ->
  (closer_after pc' = true -> closer_after (cli s i) = true \/ closeC s1 = true) ->
  (closer_has (cli s i) = true -> closer_has pc' = true \/ closer_phase pc' = false) ->
  (cTl pc' = true -> in_close_ctx pc' = in_close_ctx (cli s i)) ->
  (cTl pc' = true -> cTl (cli s i) = true \/ trc s1 i (cli s i) = false \/ tl s1 = Some i) ->
  (tropen_pc pc' = true -> tropen_pc (cli s i) = true \/ trc s1 i (cli s i) = true) ->
  (owner_ok (cli s i) = true -> owner_ok pc' = true \/ trc s1 i (cli s i) = false) ->
  (in_close_ctx (cli s i) = true -> owner_ok (cli s i) = false) ->
  (ot_phase pc' = true -> ot_phase (cli s i) = true \/ closed s1 = false) ->
  inv2' (set_pc s1 i pc').
Proof.
  intros s s1 i pc' EC L Gl T1a T1b T2 T3 T4 T5 T6 T7 T8 T9 T10 T11 T12 T13.
  split; [exact Gl|].
  intro j. simpl. rewrite EC. unfold upd. destruct (Nat.eqb j i) eqn:E.
  - apply Nat.eqb_eq in E; subst j.
    apply (loc_other s1); try reflexivity.
    eapply (loc_pure s1 i (cli s i) pc'); eauto.
    pose proof (gg12 _ Gl) as X. simpl in X. exact X.
  - apply (loc_other s1); try reflexivity. apply L.
Qed.

(* Close: setClosed *)
Lemma step_cas : forall s i pc', inv1 s -> inv2' s -> closed s = false ->
  cedge2_ok (cli s i) (LCasClosed true, pc') = true ->
  inv2' (set_pc (set_closed s true) i pc').
Proof.
  intros s i pc' I1 [Gl L] HD EK. ty2 EK.
  assert (NC : forall j, closer_phase (cli s j) = false).
  { intro j. destruct (closer_phase (cli s j)) eqn:E; auto. pose proof (lc5a _ _ _ (L j) E). congruence. }
  match goal with H : implb true (negb (closer_phase (cli s i)) && closer_early pc') = true |- _ =>
    simpl in H; apply andb_prop in H; destruct H as [_ CE] end.
  assert (CP : closer_phase pc' = true) by (destruct pc'; simpl in *; try discriminate; auto).
  assert (CA : closer_after pc' = false) by (unfold closer_after; rewrite CE, CP; reflexivity).
  assert (HC : closeC s = false).
  { destruct (closeC s) eqn:E; auto. pose proof (gg1 s Gl E). congruence. }
  split.
  - destruct Gl. constructor; simpl; auto.
    + intros _ _. exists i. unfold upd. rewrite Nat.eqb_refl. exact CE.
    + intro A. destruct (ggl4 A) as [h [Hh Mh]]. exists h. split; auto. unfold upd.
      destruct (Nat.eqb h i) eqn:E; auto. apply Nat.eqb_eq in E; subst.
      match goal with H : implb (mergephase (cli s i)) _ = true |- _ =>
        pose proof (implb_elim2 _ _ H Mh) as Y; rewrite !orb_false_r in Y; exact Y end.
    + intros a b. unfold upd.
      destruct (Nat.eqb a i) eqn:Ea; destruct (Nat.eqb b i) eqn:Eb;
        try (apply Nat.eqb_eq in Ea); try (apply Nat.eqb_eq in Eb); subst; intros X Y; auto;
        try (rewrite NC in X; discriminate); try (rewrite NC in Y; discriminate).
  - intro j. simpl. unfold upd. destruct (Nat.eqb j i) eqn:E.
    + apply Nat.eqb_eq in E; subst j.
      assert (LS : loc (set_pc (set_closed s true) i pc') i (cli s i)).
      { apply (loc_chg s); auto; try (intros; split; auto); try tauto; try apply L. }
      eapply loc_pure; [exact LS | ..]; simpl; auto; small_facts.
      all: try tyf.
      * not_pc pc'.
      * not_pc pc'.
      * not_pc pc'.
      * intro X. right. split; auto. intro W. pose proof (gg11 s Gl W). congruence.
    + apply (loc_chg s); auto; try (intros; split; auto); try tauto; try apply L.
Qed.

Ltac stab L := let j := fresh "j" in intro j; apply (loc_chg _ _ j _ (L j)); simpl; auto; try tauto; try (intros; split; auto).

Lemma closer_early_phase : forall pc, closer_early pc = true -> closer_phase pc = true.
Proof. destruct pc; simpl; intros; try discriminate; auto. Qed.
Lemma closer_after_phase : forall pc, closer_after pc = true -> closer_phase pc = true.
Proof. unfold closer_after; intros pc H; apply andb_prop in H; tauto. Qed.
Lemma in_close_ctx_after : forall pc, in_close_ctx pc = true -> closer_after pc = true.
Proof. destruct pc; simpl; intros; try discriminate; dparams; try discriminate; auto. Qed.

Ltac std pc' :=
  try tyf; small_facts;
  try (match goal with |- is_trigw _ pc' = true -> _ => not_pc pc' end);
  try (match goal with H : implb (is_WMs pc') false = true |- is_WMs pc' = true -> _ =>
         let X := fresh in intro X; rewrite X in H; discriminate end).

(* Close: close(closeC) *)
Lemma step_closechan : forall s i pc', inv1 s -> inv2' s ->
  cedge2_ok (cli s i) (LCloseChan, pc') = true ->
  inv2' (set_pc (set_closeC s true) i pc').
Proof.
  intros s i pc' I1 [Gl L] EK. ty2 EK.
  assert (CE : closer_early (cli s i) = true).
  { match goal with H : implb true (closer_early (cli s i)) = true |- _ => exact H end. }
  pose proof (lc5a _ _ _ (L i) (closer_early_phase _ CE)) as HD.
  apply (inv2_gen s); try reflexivity; simpl; std pc'.
  - stab L.
  - destruct Gl. constructor; simpl; auto.
    + intros _ X; discriminate.
    + intro A. apply ggl4_upd; auto. tyf.
    + apply ggu1_upd; auto. intro X. left. revert X. tyf.
  - intro X. right. reflexivity.
Qed.

Lemma owner_not_ot : forall pc, owner_ok pc = true -> ot_phase pc = false.
Proof. destruct pc; simpl; intros; try discriminate; auto; dparams; auto; discriminate. Qed.
Lemma trc_no_ctx : forall s s' j pc, in_close_ctx pc = false -> trown s' = trown s -> trc s' j pc = trc s j pc.
Proof. intros. unfold trc. rewrite H, H0. reflexivity. Qed.

(* nobody but the closing client is in Close's Discard *)
Lemma no_ctx_but_closer : forall s i, glob s -> closer_phase (cli s i) = true -> in_close_ctx (cli s i) = false ->
  forall j, in_close_ctx (cli s j) = false.
Proof.
  intros s i Gl CP NC j. destruct (in_close_ctx (cli s j)) eqn:E; auto.
  assert (j = i).
  { apply (ggu1 s Gl); auto. apply closer_after_phase. apply in_close_ctx_after. exact E. }
  subst. congruence.
Qed.

(* Close: read db.tr *)
Lemma step_readdbtr : forall s i pc' b, inv1 s -> inv2' s ->
  cedge2_ok (cli s i) (LReadDbTr b, pc') = true ->
  forall ct, (ct = trown s) ->
  inv2' (set_pc (set_closetgt s ct) i pc').
Proof.
  intros s i pc' b I1 [Gl L] EK ct ECT. ty2 EK.
  assert (CA : closer_after (cli s i) = true /\ in_close_ctx (cli s i) = false).
  { match goal with H : implb (_ || _) (closer_after (cli s i) && negb (in_close_ctx (cli s i))) = true |- _ =>
      destruct b; simpl in H; apply andb_prop in H; destruct H as [A B]; apply negb_true_iff in B; auto end. }
  destruct CA as [CA NC].
  pose proof (closer_after_phase _ CA) as CP.
  pose proof (lc5a _ _ _ (L i) CP) as HD.
  pose proof (no_ctx_but_closer s i Gl CP NC) as NCX.
  apply (inv2_gen s); try reflexivity; simpl; std pc'.
  - intro j. apply (loc_chg _ _ j _ (L j)); simpl; auto; try tauto; try (intros; split; auto).
    + match goal with H : trc (set_closetgt _ _) _ _ = true |- _ =>
        rewrite (trc_no_ctx s _ j _ (NCX j)) in H by reflexivity; exact H end.
    + intros X Y. rewrite (trc_no_ctx s _ j _ (NCX j)) by reflexivity. auto.
    + intro X. right. apply owner_not_ot. apply (lc7 _ _ _ (L j)). congruence.
  - destruct Gl. constructor; simpl; auto.
    + intros A B. apply gg6_upd; auto. tyf.
    + intro A. apply ggl4_upd; auto. tyf.
    + apply ggu1_upd; auto; try (let X := fresh in intro X; left; revert X; tyf).
Qed.

(* the other order: first the move of the program counter (in the old shared state), then the change *)
Lemma inv2_gen' : forall s s1 i pc',
  cli s1 = cli s ->
  (forall j, loc s j (cli s j)) -> (closetgt s <> None -> closed s = true) ->
  (forall j pc, loc s j pc -> (j = i -> pc = pc') -> (j <> i -> pc = cli s j) -> loc s1 j pc) ->
  glob (set_pc s1 i pc') ->
  (is_trigw BM pc' = true -> mx s = Some (i, ctk s i)) ->
  (is_trigw BT pc' = true -> tx s = Some (i, ctk s i) \/ In (i, ctk s i) (tq s)) ->
  is_W23 pc' = false -> is_W23 (cli s i) = false -> (is_WMs pc' = true -> pend s <> None) ->
  (closer_phase pc' = true -> closer_phase (cli s i) = true \/ (closed s = true /\ wl s <> WClosed)) ->
  (closer_after pc' = true -> closer_after (cli s i) = true \/ closeC s = true) ->
  (closer_has (cli s i) = true -> closer_has pc' = true \/ closer_phase pc' = false) ->
  (cTl pc' = true -> in_close_ctx pc' = in_close_ctx (cli s i)) ->
  (cTl pc' = true -> cTl (cli s i) = true \/ trc s i (cli s i) = false \/ tl s = Some i) ->
  (tropen_pc pc' = true -> tropen_pc (cli s i) = true \/ trc s i (cli s i) = true) ->
  (owner_ok (cli s i) = true -> owner_ok pc' = true \/ trc s i (cli s i) = false) ->
  (in_close_ctx (cli s i) = true -> owner_ok (cli s i) = false) ->
  (ot_phase pc' = true -> ot_phase (cli s i) = true \/ closed s = false) ->
  inv2' (set_pc s1 i pc').
Proof.
  intros s s1 i pc' EC L G12 ST Gl T1a T1b T2 T3 T4 T5 T6 T7 T8 T9 T10 T11 T12 T13.
  split; [exact Gl|].
  intro j. simpl. rewrite EC. unfold upd. destruct (Nat.eqb j i) eqn:E.
  - apply Nat.eqb_eq in E; subst j.
    apply (loc_other s1); try reflexivity.
    apply ST; auto; [| congruence].
    eapply (loc_pure s i (cli s i) pc'); eauto.
  - apply Nat.eqb_neq in E. apply (loc_other s1); try reflexivity. apply ST; auto; congruence.
Qed.

Ltac ty1 EK := unfold cedge1_ok in EK; simpl in EK; bsplit.

Lemma mergephase_cW : forall pc, mergephase pc = true -> cW pc = true.
Proof. destruct pc; simpl; intros; try discriminate; auto; dparams; auto; discriminate. Qed.

(* the write lock is taken from the free state by client i (not by Close) *)
Lemma step_acq : forall s i pc' l, inv1 s -> inv2' s -> wl s = WFree ->
  (l = LAcqW \/ l = LAcqWRO) ->
  cedge2_ok (cli s i) (l, pc') = true ->
  inv2' (set_pc (set_wl s (WHeld (PCli i))) i pc').
Proof.
  intros s i pc' l I1 [Gl L] HW HL EK.
  assert (TN : trown s = None).
  { destruct (trown s) eqn:E; auto. assert (X : trown s <> None) by congruence. apply (gg10 s Gl) in X. congruence. }
  destruct HL; subst l; ty2 EK.
  all: apply (inv2_gen' s); try reflexivity; simpl; auto; std pc'; try (apply (gg12 s Gl)).
  all: try (intros j pc LJ _ _; apply (loc_chg s _ j pc LJ); simpl; auto; try tauto; try (intros; split; auto);
            intros; discriminate).
  all: destruct Gl; constructor; simpl; auto;
       [ intros A B; apply gg6_upd; auto; tyf
       | split; [intro X; discriminate | intro X; congruence]
       | intro X; discriminate
       | intro A; destruct (ggl4 A) as [h [Hh _]]; congruence
       | apply ggu1_upd; auto; try (let X := fresh in intro X; left; revert X; tyf) ].
Qed.

(* Close takes the write lock for ever *)
Lemma step_acqclose : forall s i pc', inv1 s -> inv2' s -> wl s = WFree ->
  cedge2_ok (cli s i) (LAcqWClose, pc') = true ->
  inv2' (set_pc (set_wl s WClosed) i pc').
Proof.
  intros s i pc' I1 [Gl L] HW EK.
  assert (TN : trown s = None).
  { destruct (trown s) eqn:E; auto. assert (X : trown s <> None) by congruence. apply (gg10 s Gl) in X. congruence. }
  ty2 EK.
  assert (CA : closer_after (cli s i) = true /\ closer_has pc' = true).
  { match goal with H : implb true (closer_after (cli s i) && closer_has pc') = true |- _ =>
      simpl in H; apply andb_prop in H; exact H end. }
  destruct CA as [CA CH].
  pose proof (lc5b _ _ _ (L i) CA) as HC.
  apply (inv2_gen' s); try reflexivity; simpl; auto; std pc'; try (apply (gg12 s Gl)).
  - intros j pc LJ E1 E2. apply (loc_chg s _ j pc LJ); simpl; auto; try tauto; try (intros; split; auto).
    intros X Y _. exfalso. destruct (Nat.eq_dec j i) as [E | E].
    + subst j. rewrite (E1 eq_refl) in Y. congruence.
    + rewrite (E2 E) in X. assert (j = i).
      { apply (ggu1 s Gl); auto. apply closer_after_phase; auto. }
      congruence.
  - destruct Gl; constructor; simpl; auto.
    + intros A B. congruence.
    + split; [intro X; discriminate | intro X; congruence].
    + intro A. destruct (ggl4 A) as [h [Hh _]]. congruence.
    + apply ggu1_upd; auto; try (let X := fresh in intro X; left; revert X; tyf).
Qed.

(* the holder gives the write lock back *)
Lemma step_rel : forall s i pc' l, inv1 s -> inv2' s -> wl s = WHeld (PCli i) ->
  (l = LRelW \/ (l = LRelWU /\ merged s = [] /\ pend s = None)) ->
  cedge1_ok (cli s i) (l, pc') = true ->
  cedge2_ok (cli s i) (l, pc') = true ->
  inv2' (set_pc (set_wl s WFree) i pc').
Proof.
  intros s i pc' l I1 [Gl L] HW HL EK1 EK.
  assert (TN : trown s = None).
  { destruct (trown s) eqn:E; auto. assert (X : trown s <> None) by congruence. apply (gg10 s Gl) in X. congruence. }
  assert (NM : pend s <> None \/ merged s <> [] -> mergephase (cli s i) = true).
  { intro A. destruct (ggl4 s Gl A) as [h [Hh Mh]]. inversion Hh; subst; auto. rewrite HW in Hh. inversion Hh; subst; auto. }
  destruct HL as [HL | [HL [HM HP]]]; subst l; ty1 EK1; ty2 EK.
  all: apply (inv2_gen' s); try reflexivity; simpl; auto; std pc'; try (apply (gg12 s Gl)).
  all: try (intros j pc LJ _ _; apply (loc_chg s _ j pc LJ); simpl; auto; try tauto; try (intros; split; auto);
            intros; discriminate).
  - destruct Gl; constructor; simpl; auto.
    + intros A B. apply gg6_upd; auto. tyf.
    + split; [intro X; discriminate | intro X; congruence].
    + intro X; discriminate.
    + intro A. exfalso. pose proof (NM A) as MP.
      assert (MP' : mergephase pc' = true).
      { match goal with H : implb (mergephase (cli s i)) _ = true |- _ =>
          pose proof (implb_elim2 _ _ H MP) as Y; rewrite !orb_false_r in Y; exact Y end. }
      pose proof (mergephase_cW _ MP'). congruence.
    + apply ggu1_upd; auto; try (let X := fresh in intro X; left; revert X; tyf).
  - destruct Gl; constructor; simpl; auto.
    + intros A B. apply gg6_upd; auto. tyf.
    + split; [intro X; discriminate | intro X; congruence].
    + intro X; discriminate.
    + intro A. exfalso. destruct A; congruence.
    + apply ggu1_upd; auto; try (let X := fresh in intro X; left; revert X; tyf).
Qed.

(* OpenTransaction: db.tr = tr, the write lock now belongs to the transaction *)
Lemma step_wtotr : forall s i pc', inv1 s -> inv2' s -> wl s = WHeld (PCli i) ->
  cedge1_ok (cli s i) (LWToTr, pc') = true ->
  cedge2_ok (cli s i) (LWToTr, pc') = true ->
  inv2' (set_pc (set_trown (set_wl s WTr) (Some i)) i pc').
Proof.
  intros s i pc' I1 [Gl L] HW EK1 EK.
  assert (TN : trown s = None).
  { destruct (trown s) eqn:E; auto. assert (X : trown s <> None) by congruence. apply (gg10 s Gl) in X. congruence. }
  ty1 EK1; ty2 EK.
  assert (OT : ot_phase (cli s i) = true) by (match goal with H : implb true (ot_phase (cli s i)) = true |- _ => exact H end).
  assert (OKNT : owner_ok pc' = true /\ cTl pc' = false).
  { match goal with H : implb true (owner_ok pc' && negb (cTl pc')) = true |- _ =>
      simpl in H; apply andb_prop in H; destruct H as [A B]; apply negb_true_iff in B; auto end. }
  destruct OKNT as [OK NT].
  apply (inv2_gen' s); try reflexivity; simpl; auto; std pc'; try (apply (gg12 s Gl)).
  - intros j pc LJ E1 E2. apply (loc_chg s _ j pc LJ); simpl; auto; try tauto; try (intros; split; auto).
    + intros; discriminate.
    + (* trc in the new state *)
      exfalso. unfold trc in *. simpl in *.
      destruct (in_close_ctx pc) eqn:IC.
      * destruct (closetgt s) as [o|] eqn:CT; [| discriminate].
        match goal with H : Nat.eqb i o = true |- _ => apply Nat.eqb_eq in H; subst o end.
        pose proof (lc9 _ _ _ (L i) CT). congruence.
      * match goal with H : Nat.eqb i j = true |- _ => apply Nat.eqb_eq in H; subst j end.
        rewrite (E1 eq_refl) in *. congruence.
    + intros X Y. unfold trc in Y. rewrite TN in Y. destruct (in_close_ctx pc); [destruct (closetgt s)|]; simpl in Y; discriminate.
    + intro X. inversion X; subst j. right. rewrite (E1 eq_refl). exact OK.
  - destruct Gl; constructor; simpl; auto.
    + intros A B. apply gg6_upd; auto. tyf.
    + split; [intro X; discriminate | reflexivity].
    + intro X; discriminate.
    + intro A. exfalso. destruct (ggl4 A) as [h [Hh Mh]]. rewrite HW in Hh. inversion Hh; subst h.
      assert (MP' : mergephase pc' = true).
      { match goal with H : implb (mergephase (cli s i)) _ = true |- _ =>
          pose proof (implb_elim2 _ _ H Mh) as Y; rewrite !orb_false_r in Y; exact Y end. }
      pose proof (mergephase_cW _ MP'). congruence.
    + apply ggu1_upd; auto; try (let X := fresh in intro X; left; revert X; tyf).
Qed.

Lemma inv2_gen0 : forall s s1 i pc',
  cli s1 = cli s -> (forall j, j <> i -> loc s1 j (cli s j)) -> loc s1 i pc' -> glob (set_pc s1 i pc') ->
  inv2' (set_pc s1 i pc').
Proof.
  intros s s1 i pc' EC L LI Gl. split; [exact Gl|].
  intro j. simpl. rewrite EC. unfold upd. destruct (Nat.eqb j i) eqn:E.
  - apply Nat.eqb_eq in E; subst j. apply (loc_other s1); try reflexivity. exact LI.
  - apply Nat.eqb_neq in E. apply (loc_other s1); try reflexivity. auto.
Qed.

Lemma tropen_cTl : forall pc, tropen_pc pc = true -> cTl pc = true.
Proof. destruct pc; simpl; intros; try discriminate; auto; dparams; auto; discriminate. Qed.
Lemma trc_none : forall s j pc, trown s = None -> trc s j pc = false.
Proof. intros. unfold trc. rewrite H. destruct (in_close_ctx pc); [destruct (closetgt s)|]; reflexivity. Qed.

(* setDone: the transaction's write lock is released *)
Lemma step_reltr : forall s i pc', inv1 s -> inv2' s -> wl s = WTr -> tr_current s i = true ->
  cedge2_ok (cli s i) (LRelWTr, pc') = true ->
  inv2' (set_pc (set_trown (set_wl s WFree) None) i pc').
Proof.
  intros s i pc' I1 [Gl L] HW TC EK. ty2 EK.
  assert (TY : tropen_pc pc' = false /\ owner_ok pc' = false /\ tropen_pc (cli s i) = true).
  { match goal with H : implb true (negb (tropen_pc pc') && negb (owner_ok pc') && tropen_pc (cli s i)) = true |- _ =>
      simpl in H; apply andb_prop in H; destruct H as [A C]; apply andb_prop in A; destruct A as [A B];
      apply negb_true_iff in A; apply negb_true_iff in B; auto end. }
  destruct TY as [NTO [NOK TO]].
  pose proof (tropen_cTl _ TO) as CT.
  assert (TLI : tl s = Some i) by (apply (lc6a _ _ _ (L i)); auto).
  set (s1 := set_trown (set_wl s WFree) None).
  assert (TN : trown s1 = None) by reflexivity.
  apply (inv2_gen0 s); try reflexivity.
  - intros j NE. apply (loc_chg s _ j _ (L j)); simpl; auto; try tauto; try (intros; split; auto).
    + intros; discriminate.
    + exfalso. match goal with H : trc s1 _ _ = true |- _ => rewrite (trc_none s1) in H by reflexivity; discriminate end.
    + intros X Y. exfalso. pose proof (lc6a _ _ _ (L j) (tropen_cTl _ X) Y). congruence.
    + intro X; discriminate.
  - pose proof (L i) as LI. destruct LI as [A1 A2 A3a A3b A4b A5a A5b A8 A6a A6 A7 A9].
    constructor; simpl.
    + not_pc pc'.
    + not_pc pc'.
    + split; intro X; [subst pc'; simpl in *; discriminate | apply A3a in X; rewrite X in *; simpl in *; discriminate].
    + split; intro X; [subst pc'; simpl in *; discriminate | apply A3b in X; rewrite X in *; simpl in *; discriminate].
    + intro X. match goal with H : implb (is_WMs pc') false = true |- _ => rewrite X in H; discriminate end.
    + intro X. apply A5a. revert X. tyf.
    + intro X. apply A5b. revert X. tyf.
    + intros; discriminate.
    + intros X Y. rewrite (trc_none s1) in Y by reflexivity. discriminate.
    + intro X. congruence.
    + intro X. discriminate.
    + intro X. specialize (A9 X). destruct (ot_phase pc') eqn:O; auto.
      exfalso. match goal with H : implb true (ot_phase (cli s i) || false) = true |- _ =>
        simpl in H; rewrite A9 in H; discriminate end.
  - destruct Gl; constructor; simpl; auto.
    + intros A B. apply gg6_upd; auto. tyf.
    + split; [intro X; discriminate | intro X; congruence].
    + intro X; discriminate.
    + intro A. exfalso. destruct (ggl4 A) as [h [Hh _]]. congruence.
    + apply ggu1_upd; auto; try (let X := fresh in intro X; left; revert X; tyf).
Qed.

(* SetReadOnly hands the write lock (with ErrReadOnly) to compactionError *)
Lemma step_setro : forall s i pc', inv1 s -> inv2' s -> wl s = WHeld (PCli i) ->
  (ce s = E_no \/ ce s = E_has) ->
  cedge1_ok (cli s i) (LSendErrSetRO, pc') = true ->
  cedge2_ok (cli s i) (LSendErrSetRO, pc') = true ->
  inv2' (set_pc (set_locking (set_wl (set_ce s E_per) (WHeld PCE)) true) i pc').
Proof.
  intros s i pc' I1 [Gl L] HW HE EK1 EK.
  assert (TN : trown s = None).
  { destruct (trown s) eqn:E; auto. assert (X : trown s <> None) by congruence. apply (gg10 s Gl) in X. congruence. }
  ty1 EK1; ty2 EK.
  apply (inv2_gen' s); try reflexivity; simpl; auto; std pc'; try (apply (gg12 s Gl)).
  - intros j pc LJ _ _; apply (loc_chg s _ j pc LJ); simpl; auto; try tauto; try (intros; split; auto).
    intros; discriminate.
  - destruct Gl; constructor; simpl; auto.
    + intro X; discriminate.
    + intros A B. apply gg6_upd; auto. tyf.
    + split; [intro X; discriminate | intro X; congruence].
    + intro X; discriminate.
    + intro A. exfalso. destruct (ggl4 A) as [h [Hh Mh]]. rewrite HW in Hh. inversion Hh; subst h.
      assert (MP' : mergephase pc' = true).
      { match goal with H : implb (mergephase (cli s i)) _ = true |- _ =>
          pose proof (implb_elim2 _ _ H Mh) as Y; rewrite !orb_false_r in Y; exact Y end. }
      pose proof (mergephase_cW _ MP'). congruence.
    + apply ggu1_upd; auto; try (let X := fresh in intro X; left; revert X; tyf).
Qed.

(* tr.lk taken by the client whose transaction is the open one *)
Lemma step_lockt : forall s i pc', inv1 s -> inv2' s -> tl s = None ->
  cedge2_ok (cli s i) (LLockT, pc') = true ->
  inv2' (set_pc (set_tl s (Some i)) i pc').
Proof.
  intros s i pc' I1 [Gl L] HT EK. ty2 EK.
  apply (inv2_gen s); try reflexivity; simpl; std pc'.
  - intro j. apply (loc_chg _ _ j _ (L j)); simpl; auto; try tauto; try (intros; split; auto).
    intro X. congruence.
  - destruct Gl; constructor; simpl; auto.
    + intros A B. apply gg6_upd; auto. tyf.
    + intro A. apply ggl4_upd; auto. tyf.
    + apply ggu1_upd; auto; try (let X := fresh in intro X; left; revert X; tyf).
  - intro X. right. right. reflexivity.
Qed.

(* tr.lk released by its holder *)
Lemma step_unlockt : forall s i pc', inv1 s -> inv2' s -> tl s = Some i ->
  cedge2_ok (cli s i) (LUnlockT, pc') = true ->
  inv2' (set_pc (set_tl s None) i pc').
Proof.
  intros s i pc' I1 [Gl L] HT EK. ty2 EK.
  assert (NT : cTl pc' = false).
  { match goal with H : implb true (negb (cTl pc')) = true |- _ => simpl in H; apply negb_true_iff in H; exact H end. }
  apply (inv2_gen' s); try reflexivity; simpl; auto; std pc'; try (apply (gg12 s Gl)).
  - intros j pc LJ E1 E2. apply (loc_chg s _ j pc LJ); simpl; auto; try tauto; try (intros; split; auto).
    intro X. exfalso. destruct (Nat.eq_dec j i) as [E | E].
    + subst j. rewrite (E1 eq_refl) in *. congruence.
    + congruence.
  - destruct Gl; constructor; simpl; auto.
    + intros A B. apply gg6_upd; auto. tyf.
    + intro A. apply ggl4_upd; auto. tyf.
    + apply ggu1_upd; auto; try (let X := fresh in intro X; left; revert X; tyf).
Qed.

Lemma inv2_gen0' : forall s1 i pc',
  (forall j, j <> i -> loc s1 j (cli s1 j)) -> loc s1 i pc' -> glob (set_pc s1 i pc') ->
  inv2' (set_pc s1 i pc').
Proof.
  intros s1 i pc' L LI Gl. split; [exact Gl|].
  intro j. simpl. unfold upd. destruct (Nat.eqb j i) eqn:E.
  - apply Nat.eqb_eq in E; subst j. apply (loc_other s1); try reflexivity. exact LI.
  - apply Nat.eqb_neq in E. apply (loc_other s1); try reflexivity. auto.
Qed.

(* program counters that belong to no class of layer 3 (partners of the merge protocol move between them) *)
Definition plain (pc : cpc) : bool :=
  negb (is_trigw_any pc || is_WMs pc || closer_phase pc || cTl pc || tropen_pc pc || owner_ok pc || ot_phase pc).

Lemma loc_plain : forall s s1 j q q', plain q = true -> plain q' = true -> loc s j q ->
  (q' = W2 <-> pend s1 = Some j) -> (q' = W3 <-> In j (merged s1)) ->
  trown s1 = trown s -> closetgt s1 = closetgt s ->
  loc s1 j q'.
Proof.
  intros s s1 j q q' P P' [A1 A2 A3a A3b A4b A5a A5b A8 A6a A6 A7 A9] H3a H3b ET EC.
  unfold plain in *. apply negb_true_iff in P. apply negb_true_iff in P'.
  repeat (apply orb_false_iff in P; destruct P as [P ?]).
  repeat (apply orb_false_iff in P'; destruct P' as [P' ?]).
  constructor; auto; try (intro X; congruence).
  - intro X. destruct q'; simpl in *; try discriminate; dparams; discriminate.
  - intro X. destruct q'; simpl in *; try discriminate; dparams; discriminate.
  - intro X. apply closer_after_phase in X. congruence.
  - intro X. rewrite ET in X. specialize (A7 X). congruence.
Qed.

Lemma plain_W : plain (W1 true) = true /\ plain W2 = true /\ plain W3 = true /\ plain Ret = true /\ plain (WF true) = true.
Proof. repeat split; reflexivity. Qed.

Lemma mergephase_not_closer : forall pc, mergephase pc = true -> closer_phase pc = false.
Proof. destruct pc; simpl; intros; try discriminate; auto; dparams; auto; discriminate. Qed.

(* the lock holder receives a merge request from client a *)
Lemma step_mergerecv : forall s i a pc' fits, inv1 s -> inv2' s -> cli s a = W1 true -> pend s = None ->
  cedge2_ok (cli s i) (LMergeRecv fits, pc') = true ->
  inv2' (set_pc (set_pend (set_pc s a W2) (Some a)) i pc').
Proof.
  intros s i a pc' fits I1 [Gl L] HA HP EK.
  destruct plain_W as (P1 & P2 & P3 & P4 & P5).
  assert (MPW : mergephase (cli s i) = true /\ (fits = true -> is_WMs pc' = true) /\ mergephase pc' = true).
  { destruct fits; ty2 EK; repeat match goal with H : implb true (_ && _) = true |- _ =>
      simpl in H; apply andb_prop in H; destruct H end; repeat split; auto; try (intros; discriminate);
      match goal with H : implb (mergephase (cli s i)) _ = true, M : mergephase (cli s i) = true |- _ =>
        pose proof (implb_elim2 _ _ H M) as Y; rewrite !orb_false_r in Y; exact Y end. }
  destruct MPW as (MP & WMS & MP').
  assert (NE : a <> i) by (intro; subst; rewrite HA in MP; discriminate).
  assert (HWL : wl s = WHeld (PCli i)).
  { apply wl_is_true. destruct I1 as [IW _ _ _ _ _ _ _ _ _ _]. rewrite IW. apply mergephase_cW; auto. }
  set (s1 := set_pend (set_pc s a W2) (Some a)).
  assert (LO : forall j, j <> a -> loc s1 j (cli s j)).
  { intros j NJ. apply (loc_chg s _ j _ (L j)); simpl; auto; try tauto; try (intros; split; auto);
      try (intros; discriminate).
    - intro X; inversion X; congruence.
    - intro X; rewrite HP in X; discriminate. }
  apply inv2_gen0'.
  - intros j NJ. simpl. unfold upd. destruct (Nat.eqb j a) eqn:E.
    + apply Nat.eqb_eq in E; subst j.
      apply (loc_plain s s1 a (W1 true) W2); auto; try reflexivity.
      * rewrite <- HA. apply L.
      * unfold s1; simpl; tauto.
      * unfold s1; simpl. split; [discriminate|]. intro X. apply (lc3b _ _ _ (L a)) in X. congruence.
    + apply Nat.eqb_neq in E. apply LO; auto.
  - assert (EQ : cli s i = cli s1 i) by (simpl; unfold upd; destruct (Nat.eqb i a) eqn:E; auto; apply Nat.eqb_eq in E; congruence).
    destruct fits; ty2 EK.
    all: eapply (loc_pure s1 i (cli s i) pc'); [apply LO; auto | simpl; apply (gg12 s Gl) | ..]; simpl; std pc'.
    all: try (intros; discriminate).
  - destruct Gl; constructor; simpl; auto.
    + intros A B. destruct (gg6 A B) as [w Hw]. exists w. unfold upd.
      destruct (Nat.eqb w i) eqn:E1; [apply Nat.eqb_eq in E1; subst|].
      * exfalso. pose proof (mergephase_not_closer _ MP). pose proof (closer_early_phase _ Hw). congruence.
      * destruct (Nat.eqb w a) eqn:E2; auto. apply Nat.eqb_eq in E2; subst. rewrite HA in Hw. discriminate.
    + intros _. exists i. split; auto. unfold upd. rewrite Nat.eqb_refl. exact MP'.
    + intros x y. unfold upd.
      destruct (Nat.eqb x i) eqn:Ex; destruct (Nat.eqb y i) eqn:Ey;
        try (apply Nat.eqb_eq in Ex); try (apply Nat.eqb_eq in Ey); subst; auto;
        intros X Y; try (pose proof (mergephase_not_closer _ MP'); congruence).
      destruct (Nat.eqb x a) eqn:Ex2; [simpl in X; discriminate|].
      destruct (Nat.eqb y a) eqn:Ey2; [simpl in Y; discriminate|]. auto.
Qed.

Lemma remove_nat_in : forall a j l, j <> a -> (In j (remove_nat a l) <-> In j l).
Proof.
  induction l as [| x l IH]; simpl; intros NE; [tauto|].
  destruct (Nat.eqb x a) eqn:E.
  - apply Nat.eqb_eq in E; subst. split; intro H; auto. destruct H; [congruence | auto].
  - simpl. rewrite IH by auto. tauto.
Qed.
Lemma remove_nat_notin : forall a l, NoDup l -> ~ In a (remove_nat a l).
Proof.
  induction l as [| x l IH]; simpl; intros ND; [tauto|].
  inversion ND; subst. destruct (Nat.eqb x a) eqn:E.
  - apply Nat.eqb_eq in E; subst; auto.
  - simpl. apply Nat.eqb_neq in E. intros [H | H]; [congruence | apply IH; auto].
Qed.
Lemma remove_nat_nodup : forall a l, NoDup l -> NoDup (remove_nat a l).
Proof.
  induction l as [| x l IH]; simpl; intros ND; [constructor|].
  inversion ND; subst. destruct (Nat.eqb x a) eqn:E; auto.
  constructor; auto. intro H. destruct (Nat.eq_dec x a) as [->|NE]; [rewrite Nat.eqb_refl in E; discriminate|].
  apply remove_nat_in in H; auto.
Qed.

(* a tactic for the three facts of [glob] that mention program counters, when partner n moves to a plain
   program counter and client i moves along a typed edge *)
Lemma gg6_upd2 : forall (f : nat -> cpc) n q i pc',
  (exists w, closer_early (f w) = true) -> closer_early (f n) = false ->
  (closer_early (f i) = true -> closer_early pc' = true) ->
  exists w, closer_early (upd (upd f n q) i pc' w) = true.
Proof.
  intros f n q i pc' [w Hw] Hn H. exists w. unfold upd.
  destruct (Nat.eqb w i) eqn:E; [apply Nat.eqb_eq in E; subst; auto|].
  destruct (Nat.eqb w n) eqn:E2; auto. apply Nat.eqb_eq in E2; subst. congruence.
Qed.
Lemma ggu1_upd2 : forall (f : nat -> cpc) n q i pc',
  (forall a b, closer_phase (f a) = true -> closer_phase (f b) = true -> a = b) ->
  closer_phase q = false -> closer_phase pc' = false ->
  forall a b, closer_phase (upd (upd f n q) i pc' a) = true -> closer_phase (upd (upd f n q) i pc' b) = true -> a = b.
Proof.
  intros f n q i pc' U Hq Hp a b. unfold upd.
  destruct (Nat.eqb a i); [intros; congruence|]. destruct (Nat.eqb b i); [intros; congruence|].
  destruct (Nat.eqb a n); [intros; congruence|]. destruct (Nat.eqb b n); [intros; congruence|]. apply U.
Qed.


(* the lock holder answers a merge request: the requester is merged *)
Lemma step_mergedtrue : forall s i n pc', inv1 s -> inv2' s -> pend s = Some n -> cli s n = W2 ->
  cedge2_ok (cli s i) (LMergedTrue, pc') = true ->
  inv2' (set_pc (set_pend (set_merged (set_pc s n W3) (n :: merged s)) None) i pc').
Proof.
  intros s i n pc' I1 [Gl L] HP HN EK.
  destruct plain_W as (P1 & P2 & P3 & P4 & P5).
  ty2 EK.
  assert (WMS : is_WMs (cli s i) = true) by (match goal with H : implb true (is_WMs (cli s i)) = true |- _ => exact H end).
  assert (MP : mergephase (cli s i) = true) by (destruct (cli s i); simpl in WMS; try discriminate; reflexivity).
  assert (MP' : mergephase pc' = true).
  { match goal with H : implb (mergephase (cli s i)) _ = true |- _ =>
      pose proof (implb_elim2 _ _ H MP) as Y; rewrite !orb_false_r in Y; exact Y end. }
  assert (NE : n <> i) by (intro; subst; rewrite HN in MP; discriminate).
  assert (HWL : wl s = WHeld (PCli i)).
  { apply wl_is_true. destruct I1 as [IW _ _ _ _ _ _ _ _ _ _]. rewrite IW. apply mergephase_cW; auto. }
  assert (NIN : ~ In n (merged s)) by (intro X; apply (lc3b _ _ _ (L n)) in X; congruence).
  set (s1 := set_pend (set_merged (set_pc s n W3) (n :: merged s)) None).
  assert (CHG : forall j pc, j <> n -> loc s j pc -> is_WMs pc = false -> loc s1 j pc).
  { intros j pc NJ LJ NW. apply (loc_chg s _ j pc LJ); unfold s1; simpl; auto; try tauto; try (intros; split; auto);
      try (intros; discriminate); try congruence.
    intros [X | X]; [congruence | auto]. }
  apply inv2_gen0'.
  - intros j NJ. simpl. unfold upd. destruct (Nat.eqb j n) eqn:E.
    + apply Nat.eqb_eq in E; subst j.
      apply (loc_plain s s1 n W2 W3); auto; try reflexivity.
      * rewrite <- HN. apply L.
      * unfold s1; simpl. split; intro; discriminate.
      * unfold s1; simpl. tauto.
    + apply Nat.eqb_neq in E. apply CHG; auto.
      destruct (is_WMs (cli s j)) eqn:W; auto. exfalso.
      assert (CW : cW (cli s j) = true) by (destruct (cli s j); simpl in W; try discriminate; reflexivity).
      destruct I1 as [IW _ _ _ _ _ _ _ _ _ _]. rewrite <- IW in CW. apply wl_is_true in CW. rewrite HWL in CW.
      inversion CW; congruence.
  - apply CHG; auto.
    + eapply (loc_pure s i (cli s i) pc'); [apply L | apply (gg12 s Gl) | ..]; std pc'; try (intros; discriminate).
    + match goal with H : implb (is_WMs pc') false = true |- _ => destruct (is_WMs pc'); [discriminate | reflexivity] end.
  - destruct Gl; constructor; simpl; auto.
    + intros A B. apply gg6_upd2; auto; [rewrite HN; reflexivity | tyf].
    + constructor; auto.
    + intros _. exists i. split; auto. unfold upd. rewrite Nat.eqb_refl. exact MP'.
    + apply ggu1_upd2; auto. apply mergephase_not_closer; auto.
Qed.

Lemma mem_nat_in : forall a l, mem_nat a l = true -> In a l.
Proof.
  induction l as [| x l IH]; simpl; intro H; [discriminate|].
  apply orb_prop in H. destruct H as [H | H]; [left; apply Nat.eqb_eq in H; auto | right; auto].
Qed.

(* unlockWrite acknowledges one merged writer *)
Lemma step_ackone : forall s i a pc', inv1 s -> inv2' s -> In a (merged s) -> cli s a = W3 ->
  cedge2_ok (cli s i) (LAckOne, pc') = true ->
  inv2' (set_pc (set_merged (set_pc s a Ret) (remove_nat a (merged s))) i pc').
Proof.
  intros s i a pc' I1 [Gl L] HIN HA EK.
  destruct plain_W as (P1 & P2 & P3 & P4 & P5).
  assert (X0 : merged s <> []) by (intro E; rewrite E in HIN; destruct HIN).
  destruct (ggl4 s Gl (or_intror X0)) as [h [HWL MPh]].
  ty2 EK.
  set (s1 := set_merged (set_pc s a Ret) (remove_nat a (merged s))).
  assert (CHG : forall j pc, j <> a -> loc s j pc -> loc s1 j pc).
  { intros j pc NJ LJ. apply (loc_chg s _ j pc LJ); unfold s1; simpl; auto; try tauto; try (intros; split; auto);
      try (intros; discriminate); try congruence; try (apply remove_nat_in; auto). }
  assert (NE : a <> i).
  { intro; subst. match goal with H : negb (is_W23 (cli s i)) = true |- _ => rewrite HA in H; discriminate end. }
  apply inv2_gen0'.
  - intros j NJ. simpl. unfold upd. destruct (Nat.eqb j a) eqn:E.
    + apply Nat.eqb_eq in E; subst j.
      apply (loc_plain s s1 a W3 Ret); auto; try reflexivity.
      * rewrite <- HA. apply L.
      * unfold s1; simpl. split; [discriminate|]. intro X. apply (lc3a _ _ _ (L a)) in X. congruence.
      * unfold s1; simpl. split; [discriminate|]. intro X. exfalso. eapply remove_nat_notin; eauto. apply (gg3n s Gl).
    + apply Nat.eqb_neq in E. apply CHG; auto.
  - apply CHG; auto.
    eapply (loc_pure s i (cli s i) pc'); [apply L | apply (gg12 s Gl) | ..]; std pc'; try (intros; discriminate).
  - destruct Gl; constructor; simpl; auto.
    + intros A B. apply gg6_upd2; auto; [rewrite HA; reflexivity | tyf].
    + apply remove_nat_nodup; auto.
    + intros _. exists h. split; auto. unfold upd.
      destruct (Nat.eqb h i) eqn:E1.
      * apply Nat.eqb_eq in E1; subst.
        match goal with H : implb (mergephase (cli s i)) _ = true |- _ =>
          pose proof (implb_elim2 _ _ H MPh) as Y; rewrite !orb_false_r in Y; exact Y end.
      * destruct (Nat.eqb h a) eqn:E2; auto. apply Nat.eqb_eq in E2; subst. rewrite HA in MPh. discriminate.
    + assert (CP : closer_phase pc' = true -> closer_phase (cli s i) = true) by tyf.
      intros x y. unfold upd.
      destruct (Nat.eqb x i) eqn:Ex; destruct (Nat.eqb y i) eqn:Ey;
        try (apply Nat.eqb_eq in Ex); try (apply Nat.eqb_eq in Ey); subst; auto; intros X Y.
      * destruct (Nat.eqb y a) eqn:E2; [simpl in Y; discriminate|]. apply ggu1; auto.
      * destruct (Nat.eqb x a) eqn:E2; [simpl in X; discriminate|]. apply ggu1; auto.
      * destruct (Nat.eqb x a) eqn:E2; [simpl in X; discriminate|].
        destruct (Nat.eqb y a) eqn:E3; [simpl in Y; discriminate|]. apply ggu1; auto.
Qed.

(* unlockWrite hands the lock to the writer whose merge request overflowed *)
Lemma step_givew : forall s i n pc', inv1 s -> inv2' s -> wl s = WHeld (PCli i) -> merged s = [] ->
  pend s = Some n -> cli s n = W2 ->
  cedge1_ok (cli s i) (LGiveW, pc') = true ->
  cedge2_ok (cli s i) (LGiveW, pc') = true ->
  inv2' (set_pc (set_pend (set_pc (set_wl s (WHeld (PCli n))) n (WF true)) None) i pc').
Proof.
  intros s i n pc' I1 [Gl L] HWL HM HP HN EK1 EK.
  destruct plain_W as (P1 & P2 & P3 & P4 & P5).
  assert (TN : trown s = None).
  { destruct (trown s) eqn:E; auto. assert (X : trown s <> None) by congruence. apply (gg10 s Gl) in X. congruence. }
  ty1 EK1; ty2 EK.
  set (s1 := set_pend (set_pc (set_wl s (WHeld (PCli n))) n (WF true)) None).
  assert (CHG : forall j pc, j <> n -> loc s j pc -> is_WMs pc = false -> loc s1 j pc).
  { intros j pc NJ LJ NW. apply (loc_chg s _ j pc LJ); unfold s1; simpl; auto; try tauto; try (intros; split; auto);
      try (intros; discriminate); try congruence. }
  assert (NE : n <> i).
  { intro; subst. match goal with H : negb (is_W23 (cli s i)) = true |- _ => rewrite HN in H; discriminate end. }
  apply inv2_gen0'.
  - intros j NJ. simpl. unfold upd. destruct (Nat.eqb j n) eqn:E.
    + apply Nat.eqb_eq in E; subst j.
      apply (loc_plain s s1 n W2 (WF true)); auto; try reflexivity.
      * rewrite <- HN. apply L.
      * unfold s1; simpl. split; intro; discriminate.
      * unfold s1; simpl. rewrite HM. simpl. split; [discriminate | tauto].
    + apply Nat.eqb_neq in E. apply CHG; auto.
      destruct (is_WMs (cli s j)) eqn:W; auto. exfalso.
      assert (CW : cW (cli s j) = true) by (destruct (cli s j); simpl in W; try discriminate; reflexivity).
      destruct I1 as [IW _ _ _ _ _ _ _ _ _ _]. rewrite <- IW in CW. apply wl_is_true in CW. rewrite HWL in CW.
      inversion CW; congruence.
  - apply CHG; auto.
    + eapply (loc_pure s i (cli s i) pc'); [apply L | apply (gg12 s Gl) | ..]; std pc'; try (intros; discriminate).
    + match goal with H : implb (is_WMs pc') false = true |- _ => destruct (is_WMs pc'); [discriminate | reflexivity] end.
  - destruct Gl; constructor; simpl; auto.
    + intros A B. apply gg6_upd2; auto; [rewrite HN; reflexivity | tyf].
    + split; [intro X; discriminate | intro X; congruence].
    + intro X; discriminate.
    + rewrite HM. intros [X | X]; congruence.
    + assert (CP : closer_phase pc' = true -> closer_phase (cli s i) = true) by tyf.
      intros x y. unfold upd.
      destruct (Nat.eqb x i) eqn:Ex; destruct (Nat.eqb y i) eqn:Ey;
        try (apply Nat.eqb_eq in Ex); try (apply Nat.eqb_eq in Ey); subst; auto; intros X Y.
      * destruct (Nat.eqb y n) eqn:E2; [simpl in Y; discriminate|]. apply ggu1; auto.
      * destruct (Nat.eqb x n) eqn:E2; [simpl in X; discriminate|]. apply ggu1; auto.
      * destruct (Nat.eqb x n) eqn:E2; [simpl in X; discriminate|].
        destruct (Nat.eqb y n) eqn:E3; [simpl in Y; discriminate|]. apply ggu1; auto.
Qed.

Lemma no_bm_waiter : forall s j, glob s -> loc s j (cli s j) -> mc s = M0 -> is_trigw BM (cli s j) = false.
Proof.
  intros s j Gl LJ HM. destruct (is_trigw BM (cli s j)) eqn:E; auto.
  pose proof (lc1 _ _ _ LJ E) as X. rewrite (gg8 s Gl (or_introl HM)) in X. discriminate.
Qed.

(* a client sends a command with an ack channel to mCompaction *)
Lemma step_sendcmd_bm : forall s i pc' k, inv1 s -> inv2' s -> mc s = M0 ->
  cedge2_ok (cli s i) (LSendCmd BM k, pc') = true ->
  inv2' (set_pc (set_nexttk (set_ctk (set_mx (set_mc s M1) (Some (i, nexttk s))) (upd (ctk s) i (nexttk s))) (S (nexttk s))) i pc').
Proof.
  intros s i pc' k I1 [Gl L] HM EK. ty2 EK.
  assert (TW : is_trigw BM pc' = true) by assumption.
  assert (NBT : is_trigw BT pc' = false) by (destruct pc'; simpl in *; try discriminate; auto; dparams; auto; discriminate).
  set (s1 := set_nexttk (set_ctk (set_mx (set_mc s M1) (Some (i, nexttk s))) (upd (ctk s) i (nexttk s))) (S (nexttk s))).
  apply (inv2_gen s); try reflexivity; std pc'.
  - intro j. pose proof (no_bm_waiter s j Gl (L j) HM) as NW.
    apply (loc_chg _ _ j _ (L j)); simpl; auto; try tauto; try (intros; split; auto); try congruence.
    intros X Y. unfold upd. destruct (Nat.eqb j i) eqn:E; auto. apply Nat.eqb_eq in E; subst j.
    exfalso. match goal with H : negb (is_trigw_any (cli s i)) = true |- _ =>
      destruct (cli s i); simpl in X, H; try discriminate end.
  - destruct Gl; constructor; simpl; auto; try (intros; discriminate).
    + intros A B. apply gg6_upd; auto. tyf.
    + intro A. destruct (gg7a A) as [X | X]; rewrite HM in X; discriminate.
    + intros [X | X]; discriminate.
    + intro A. apply ggl4_upd; auto. tyf.
    + apply ggu1_upd; auto; try (let X := fresh in intro X; left; revert X; tyf).
  - intro X. simpl. unfold upd. rewrite Nat.eqb_refl. reflexivity.
  - intro X. congruence.
Qed.

Lemma recv_cmd_pcs : forall t, t_recv_cmd t = true -> t = T1 \/ t = T2.
Proof. destruct t; simpl; intros; try discriminate; auto. Qed.

(* a client sends a command with an ack channel to tCompaction *)
Lemma step_sendcmd_bt : forall s i pc' k, inv1 s -> inv2' s -> t_recv_cmd (tc s) = true ->
  cedge2_ok (cli s i) (LSendCmd BT k, pc') = true ->
  inv2' (set_pc (set_nexttk (set_ctk (set_tx (set_tc s (T3 k)) (Some (i, nexttk s))) (upd (ctk s) i (nexttk s))) (S (nexttk s))) i pc').
Proof.
  intros s i pc' k I1 [Gl L] HR EK. ty2 EK.
  assert (TW : is_trigw BT pc' = true) by assumption.
  assert (NBM : is_trigw BM pc' = false) by (destruct pc'; simpl in *; try discriminate; auto; dparams; auto; discriminate).
  assert (TXN : tx s = None).
  { apply (gg9a s Gl). destruct (recv_cmd_pcs _ HR) as [E | E]; rewrite E; reflexivity. }
  assert (KN : tx_none_pc (T3 k) = false) by (destruct k; simpl in *; try discriminate; reflexivity).
  apply (inv2_gen s); try reflexivity; std pc'.
  - intro j.
    apply (loc_chg _ _ j _ (L j)); simpl; auto; try tauto; try (intros; split; auto); try congruence.
    + unfold upd. destruct (Nat.eqb j i) eqn:E; auto. apply Nat.eqb_eq in E; subst j.
      exfalso. match goal with H : negb (is_trigw_any (cli s i)) = true, X : is_trigw BM (cli s i) = true |- _ =>
        destruct (cli s i); simpl in X, H; try discriminate end.
    + intros X Y. unfold upd. destruct (Nat.eqb j i) eqn:E.
      * apply Nat.eqb_eq in E; subst j.
        exfalso. match goal with H : negb (is_trigw_any (cli s i)) = true |- _ =>
          destruct (cli s i); simpl in X, H; try discriminate end.
      * right. destruct Y as [Y | Y]; [congruence | exact Y].
  - destruct Gl; constructor; simpl; auto; try (intros; discriminate).
    + intros A B. apply gg6_upd; auto. tyf.
    + intro A. destruct (gg7b A) as [X | X]; auto.
      destruct (recv_cmd_pcs _ HR) as [E | E]; rewrite E in X; discriminate.
    + intro X. destruct k; simpl in *; discriminate.
    + intros [X | X]; discriminate.
    + intro A. apply ggl4_upd; auto. tyf.
    + apply ggu1_upd; auto; try (let X := fresh in intro X; left; revert X; tyf).
  - intro X. congruence.
  - intro X. left. simpl. unfold upd. rewrite Nat.eqb_refl. reflexivity.
Qed.

(* compTrigger: a non-blocking send that is taken *)
Lemma step_trysend_bm : forall s i pc', inv1 s -> inv2' s -> mc s = M0 ->
  cedge2_ok (cli s i) (LTrySendCmd BM, pc') = true ->
  inv2' (set_pc (set_mx (set_mc s M1) None) i pc').
Proof.
  intros s i pc' I1 [Gl L] HM EK. ty2 EK.
  apply (inv2_gen s); try reflexivity; std pc'.
  - intro j. pose proof (no_bm_waiter s j Gl (L j) HM) as NW.
    apply (loc_chg _ _ j _ (L j)); simpl; auto; try tauto; try (intros; split; auto); try congruence.
  - destruct Gl; constructor; simpl; auto; try (intros; discriminate).
    + intros A B. apply gg6_upd; auto. tyf.
    + intro A. destruct (gg7a A) as [X | X]; rewrite HM in X; discriminate.
    + intro A. apply ggl4_upd; auto. tyf.
    + apply ggu1_upd; auto; try (let X := fresh in intro X; left; revert X; tyf).
Qed.

Lemma step_trysend_bt : forall s i pc', inv1 s -> inv2' s -> t_recv_cmd (tc s) = true ->
  cedge2_ok (cli s i) (LTrySendCmd BT, pc') = true ->
  inv2' (set_pc (set_tx (set_tc s (T3 XNo)) None) i pc').
Proof.
  intros s i pc' I1 [Gl L] HR EK. ty2 EK.
  assert (TXN : tx s = None).
  { apply (gg9a s Gl). destruct (recv_cmd_pcs _ HR) as [E | E]; rewrite E; reflexivity. }
  apply (inv2_gen s); try reflexivity; std pc'.
  - intro j.
    apply (loc_chg _ _ j _ (L j)); simpl; auto; try tauto; try (intros; split; auto); try congruence.
  - destruct Gl; constructor; simpl; auto; try (intros; discriminate).
    + intros A B. apply gg6_upd; auto. tyf.
    + intro A. destruct (gg7b A) as [X | X]; auto.
      destruct (recv_cmd_pcs _ HR) as [E | E]; rewrite E in X; discriminate.
    + intros [X | X]; discriminate.
    + intro A. apply ggl4_upd; auto. tyf.
    + apply ggu1_upd; auto; try (let X := fresh in intro X; left; revert X; tyf).
Qed.
