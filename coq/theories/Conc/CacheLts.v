(* Conc/CacheLts.v — the interleaved view of the cache model: a labelled transition system whose
   atomic actions are the critical sections / atomic instructions of cache.go and lru.go.
   Model file: definitions only; proofs in Conc/CacheLtsProofs.v, CacheLtsInv.v, CacheLtsClose.v.

   Shared memory is the [state] of Conc/Cache.v.  Every goroutine carries the list of atomic
   instructions it still has to execute for the operation it is in (empty = idle) and whether it holds
   Cache.mu.RLock (Get/Delete/Evict/EvictNS/EvictAll hold it from entry to exit).  An action is either
   "idle goroutine t starts operation o" — which performs the operation's first critical section — or
   "goroutine t executes its next instruction".  Any number of goroutines; every interleaving.

   Granularity (one action each):
     - mBucket.get under the bucket lock: lookup, or creation with ref = 1, and ref+1     [AStart OGet/ODelete/OEvict]
     - the node-lock section of Get: construct only if the value is absent                   [INode]
     - lru.Promote / Ban / Evict / SetCapacity under the lru lock (the handles they collect are
       released afterwards, one instruction per atomic decrement)                            [IPromote IBan IEvict, AStart OSetCap]
     - atomic.AddInt32(&n.ref,-1)                                                             [IDec]
     - the "== 0" branch: Cache.delete(n) — look the key up again and re-check ref == 0 under the
       bucket lock, then finalise + delFuncs — or, on a closed cache, re-read the count and, if it
       is still 0, n.callFinalizer() (the re-read is the repair "fix: cache: finalise ... only at
       zero references"; [exec_old] below is the behaviour before it)                          [IZero]
     - Handle creation / the CAS of Handle.Release                                            [IHandle, AStart ORelease]
     - Close(false): closed := true under the exclusive lock(s) — enabled only when no goroutine is inside
       Get/Delete/Evict/EvictNS/EvictAll — then one lru.Evict per node                        [AStart OClose, IEvict]
       (Since "fix: cache: Close must not deadlock with an operation whose cacher step releases a handle"
       the operations hold Cache.opMu shared from entry to exit — that is [t_rl] — unRefExternal's zero
       branch runs under Cache.mu shared — the single action IZero — and Close's flag section holds
       opMu and mu exclusively.  The transition relation below is the same for the protocol as found,
       where all three were the one Cache.mu: what differs is who BLOCKS whom; that is modelled in
       Conc/CacheLocks.v, which restricts this LTS by sync.RWMutex's rules for either protocol.)
     - Close(true): ONE action (flag + the whole StoreInt32(ref,0)/Evict/callFinalizer loop): the
       property exempts force-close from the release ordering, and the loop's unsynchronised
       callFinalizer is not faithfully representable at this granularity anyway (see below)   [AStart OClose]
   Outside the model (see props/C17.json): the Go memory model and scheduler; the bucket-array resize
   protocol (the table is a linearizable map here); enumerateNodes* is one atomic snapshot; setFunc,
   value.Release and delFuncs are opaque and run inside the action that calls them; callFinalizer is
   one action (so the unsynchronised overlap of Close(true)'s callFinalizer with a concurrent
   Handle.Release of the same node is NOT represented). *)
From GL Require Export Conc.Cache.

Inductive instr :=
| INode (x : N) (sf : setfunc)          (* Get: n.mu.Lock(); if n.value == nil { ... setFunc ... } *)
| IPromote (x : N)                      (* Get: r.cacher.Promote(n), the locked part; then IHandle *)
| IHandle (x : N)                       (* Get: return &Handle{n} — the reference passes to the handle *)
| IDec (x : N) (ext : bool)             (* atomic.AddInt32(&n.ref, -1); ext: unRefExternal, else unRefInternal *)
| IZero (x ns key : N) (ext : bool)     (* the branch taken when the decrement returned 0 *)
| IDelReg (x : N)                       (* Delete: n.delFuncs = append(n.delFuncs, delFunc) under n.mu
                                           (the delFunc's id is drawn here) *)
| IBan (x : N)                          (* Delete: r.cacher.Ban(n), the locked part *)
| IEvict (x : N).                       (* r.cacher.Evict(n), the locked part *)

(* ---- the locked parts of the lru methods: they return the lru handles to release afterwards *)

Definition promote_locked (nid : N) (s : state) : state * list N :=
  match find_id nid (s_nodes s) with
  | None => (s, [])
  | Some n =>
      match n_lru n with
      | LAbsent =>
          if n_size n <=? s_cap s then
            let s0 := if (n_ref n + 1 <=? 1)%Z then set_panic s else s in
            let s1 := upd_node nid (fun n => nd_lru LResident (nd_ref (n_ref n + 1)%Z n)) s0 in
            let s2 := set_used (s_used s1 + Z.of_N (n_size n))%Z (set_order (s_order s1 ++ [nid]) s1) in
            run_evict_loop s2
          else (s, [])
      | LResident => (set_order (remove_order nid (s_order s) ++ [nid]) (order_remove nid s), [])
      | LBanned => (s, [])
      end
  end.

Definition ban_locked (nid : N) (s : state) : state * list N :=
  match find_id nid (s_nodes s) with
  | None => (s, [])
  | Some n =>
      match n_lru n with
      | LAbsent => (upd_node nid (nd_lru LBanned) s, [])
      | LResident =>
          let s1 := order_remove nid s in
          (set_used (s_used s1 - Z.of_N (n_size n))%Z (upd_node nid (nd_lru LBanned) s1), [nid])
      | LBanned => (s, [])
      end
  end.

Definition evict_locked (nid : N) (s : state) : state * list N :=
  match find_id nid (s_nodes s) with
  | None => (s, [])
  | Some n =>
      match n_lru n with
      | LResident =>
          let s1 := order_remove nid s in
          (set_used (s_used s1 - Z.of_N (n_size n))%Z (upd_node nid (nd_lru LAbsent) s1), [nid])
      | _ => (s, [])
      end
  end.

Definition decs (ext : bool) (ev : list N) : list instr := map (fun x => IDec x ext) ev.

(* unRefExternal's closed branch: finalise only if the count is (still) zero *)
Definition zero_check_closed (x : N) (s : state) : state :=
  match find_id x (s_nodes s) with
  | Some n => if (n_ref n =? 0)%Z then call_finalizer false x s else s
  | None => s
  end.

(* ---- one instruction: the new shared state and the instructions it puts in front of the rest *)
Definition exec (i : instr) (s : state) : state * list instr :=
  match i with
  | INode x sf =>
      let fin := if s_cacher s then [IPromote x] else [IHandle x] in
      match find_id x (s_nodes s) with
      | None => (set_panic s, [])
      | Some n =>
          match n_val n with
          | Some _ => (s, fin)
          | None =>
              match sf with
              | SfNil => (s, [IDec x false])
              | SfRet sz false => (emit (EvSetNil x) (upd_node x (nd_val None 0) s), [IDec x false])
              | SfRet sz true =>
                  let v := s_next_vid s in
                  (set_stats (s_stat_nodes s) (s_stat_size s + Z.of_N sz)%Z
                     (emit (EvConstruct x v sz) (set_next_vid (v + 1) (upd_node x (nd_val (Some v) sz) s))), fin)
              end
          end
      end
  | IPromote x => let (s', ev) := promote_locked x s in (s', decs true ev ++ [IHandle x])
  | IHandle x =>
      match find_id x (s_nodes s) with
      | Some n =>
          match n_val n with
          | Some v => let h := s_next_hid s in (set_next_hid (h + 1) (set_handles ((h, x) :: s_handles s) s), [])
          | None => (set_panic s, [])
          end
      | None => (set_panic s, [])
      end
  | IDec x ext =>
      match find_id x (s_nodes s) with
      | None => (s, [])
      | Some n =>
          (upd_node x (nd_ref (n_ref n - 1)%Z) s,
           if (n_ref n - 1 =? 0)%Z then [IZero x (n_ns n) (n_key n) ext] else [])
      end
  | IZero x ns key ext =>
      (if ext && s_closed s then zero_check_closed x s else cache_delete ns key s, [])
  | IDelReg x =>
      let d := s_next_did s in
      match find_id x (s_nodes s) with
      | Some n => (emit (EvDelReg d x) (upd_node x (nd_dels (n_dels n ++ [d])) (set_next_did (d + 1) s)), [])
      | None => (set_panic s, [])
      end
  | IBan x => let (s', ev) := ban_locked x s in (s', decs true ev)
  | IEvict x => let (s', ev) := evict_locked x s in (s', decs true ev)
  end.

(* ---- starting an operation: its first critical section; returns the shared state, the code left to
   run, whether the goroutine now holds Cache.mu.RLock; None = the operation cannot start now *)
Definition start (o : op) (rlocked_elsewhere : bool) (s : state) : option (state * list instr * bool) :=
  match o with
  | OGet ns key sf =>
      if s_closed s then Some (s, [], false) else
      match bucket_get ns key (match sf with SfNil => true | _ => false end) s with
      | (s1, None) => Some (s1, [], false)
      | (s1, Some x) => Some (s1, [INode x sf], true)
      end
  | ORelease h =>
      match find (fun p => fst p =? h) (s_handles s) with
      | None => Some (s, [], false)
      | Some p => Some (set_handles (filter (fun q => negb (fst q =? h)) (s_handles s)) s, [IDec (snd p) true], false)
      end
  | ODelete ns key wd =>
      if s_closed s then Some (s, [], false) else
      match bucket_get ns key true s with
      | (s1, Some x) =>
          Some (s1, (if wd then [IDelReg x] else []) ++ (if s_cacher s1 then [IBan x] else []) ++ [IDec x false], true)
      | (s1, None) =>
          let d := s_next_did s1 in
          Some (if wd then emit (EvDelRun d) (set_next_did (d + 1) s1) else s1, [], false)
      end
  | OEvict ns key =>
      if s_closed s then Some (s, [], false) else
      match bucket_get ns key true s with
      | (s1, Some x) => Some (s1, (if s_cacher s1 then [IEvict x] else []) ++ [IDec x false], true)
      | (s1, None) => Some (s1, [], false)
      end
  | OEvictNS ns =>
      if s_closed s then Some (s, [], false) else
      if s_cacher s then Some (s, map IEvict (ids_of_ns ns (s_nodes s)), true) else Some (s, [], false)
  | OEvictAll =>
      if s_closed s then Some (s, [], false) else
      if s_cacher s then Some (s, map IEvict (map n_id (s_nodes s)), true) else Some (s, [], false)
  | OSetCap c =>
      if s_cacher s then
        let (s1, ev) := run_evict_loop (set_cap c s) in Some (s1, decs true ev, false)
      else Some (s, [], false)
  | OClose force =>
      if s_closed s then Some (s, [], false) else
      if rlocked_elsewhere then None else
      if force then Some (cache_close true s, [], false) else
      Some (set_closed true false s, if s_cacher s then map IEvict (map n_id (s_nodes s)) else [], false)
  end.

(* ---- goroutines *)
Record thread := mkThread { t_code : list instr; t_rl : bool }.
Definition idle : thread := mkThread [] false.

Record lstate := mkL { l_g : state; l_thr : list (N * thread) }.

Definition get_thr (t : N) (l : list (N * thread)) : thread :=
  match find (fun p => fst p =? t) l with Some p => snd p | None => idle end.
Definition set_thr (t : N) (th : thread) (l : list (N * thread)) : list (N * thread) :=
  (t, th) :: filter (fun p => negb (fst p =? t)) l.

Definition holds_rlock (th : thread) : bool :=
  t_rl th && match t_code th with [] => false | _ => true end.
Definition rlocked_other (t : N) (l : list (N * thread)) : bool :=
  existsb (fun p => negb (fst p =? t) && holds_rlock (snd p)) l.

Inductive action :=
| AStart (t : N) (o : op)      (* idle goroutine t enters operation o *)
| AStep (t : N).               (* goroutine t executes its next atomic instruction *)

Definition lstep (L : lstate) (a : action) : option lstate :=
  match a with
  | AStart t o =>
      match t_code (get_thr t (l_thr L)) with
      | [] =>
          match start o (rlocked_other t (l_thr L)) (l_g L) with
          | Some (s', code, rl) => Some (mkL s' (set_thr t (mkThread code rl) (l_thr L)))
          | None => None
          end
      | _ => None
      end
  | AStep t =>
      let th := get_thr t (l_thr L) in
      match t_code th with
      | [] => None
      | i :: k =>
          let (s', new) := exec i (l_g L) in
          Some (mkL s' (set_thr t (mkThread (new ++ k) (t_rl th)) (l_thr L)))
      end
  end.

Definition linit (cacher : bool) (cap : N) : lstate := mkL (init cacher cap) [].

(* the behaviour BEFORE the repair: on a closed cache unRefExternal called callFinalizer without
   looking at the count again.  Kept only to state the refutation witness. *)
Definition exec_old (i : instr) (s : state) : state * list instr :=
  match i with
  | IZero x ns key true => if s_closed s then (call_finalizer false x s, []) else exec i s
  | _ => exec i s
  end.
Definition lstep_old (L : lstate) (a : action) : option lstate :=
  match a with
  | AStep t =>
      let th := get_thr t (l_thr L) in
      match t_code th with
      | [] => None
      | i :: k =>
          let (s', new) := exec_old i (l_g L) in
          Some (mkL s' (set_thr t (mkThread (new ++ k) (t_rl th)) (l_thr L)))
      end
  | _ => lstep L a
  end.
Fixpoint lrun_old (L : lstate) (tr : list action) : option lstate :=
  match tr with
  | [] => Some L
  | a :: tr' => match lstep_old L a with Some L' => lrun_old L' tr' | None => None end
  end.

(* Close is called while no other goroutine is inside a cache call *)
Definition others_idle (t : N) (l : list (N * thread)) : bool :=
  forallb (fun p => (fst p =? t) || match t_code (snd p) with [] => true | _ => false end) l.
Definition is_close (a : action) : bool := match a with AStart _ (OClose _) => true | _ => false end.
Definition act_thread (a : action) : N := match a with AStart t _ | AStep t => t end.
Definition lstep_q (L : lstate) (a : action) : option lstate :=
  if is_close a && negb (others_idle (act_thread a) (l_thr L)) then None else lstep L a.

(* all interleavings: the states reachable by any finite sequence of enabled actions *)
Inductive lreach : lstate -> Prop :=
| lr_init cacher cap : lreach (linit cacher cap)
| lr_step L a L' : lreach L -> lstep L a = Some L' -> lreach L'.

(* the open cache: Close is not an action *)
Definition lstep_o (L : lstate) (a : action) : option lstate := if is_close a then None else lstep L a.
Inductive lreach_o : lstate -> Prop :=
| lo_init cacher cap : lreach_o (linit cacher cap)
| lo_step L a L' : lreach_o L -> lstep_o L a = Some L' -> lreach_o L'.

(* everything except force-close: Close(false) is an action like any other (it needs Cache.mu.Lock, i.e.
   no goroutine inside an RLock section, but may overlap Release / SetCapacity and pending zero-checks) *)
Definition is_force_close (a : action) : bool := match a with AStart _ (OClose true) => true | _ => false end.
Definition lstep_c (L : lstate) (a : action) : option lstate := if is_force_close a then None else lstep L a.
Inductive lreach_c : lstate -> Prop :=
| lc_init cacher cap : lreach_c (linit cacher cap)
| lc_step L a L' : lreach_c L -> lstep_c L a = Some L' -> lreach_c L'.

(* the instructions a goroutine outside any RLock section can have pending *)
Definition ext_only (i : instr) : bool :=
  match i with IDec _ true | IZero _ _ _ true | IEvict _ => true | _ => false end.

Inductive lreach_q : lstate -> Prop :=
| lq_init cacher cap : lreach_q (linit cacher cap)
| lq_step L a L' : lreach_q L -> lstep_q L a = Some L' -> lreach_q L'.

(* executable trace acceptor (for replaying recorded schedules) *)
Fixpoint lrun (L : lstate) (tr : list action) : option lstate :=
  match tr with
  | [] => Some L
  | a :: tr' => match lstep L a with Some L' => lrun L' tr' | None => None end
  end.

Fixpoint lrun_o (L : lstate) (tr : list action) : option lstate :=
  match tr with
  | [] => Some L
  | a :: tr' => match lstep_o L a with Some L' => lrun_o L' tr' | None => None end
  end.

Fixpoint lrun_c (L : lstate) (tr : list action) : option lstate :=
  match tr with
  | [] => Some L
  | a :: tr' => match lstep_c L a with Some L' => lrun_c L' tr' | None => None end
  end.

(* one goroutine running alone until its code is exhausted *)
Inductive drains : state -> list instr -> state -> Prop :=
| dr_nil s : drains s [] s
| dr_cons s i k s1 new s2 : exec i s = (s1, new) -> drains s1 (new ++ k) s2 -> drains s (i :: k) s2.

(* in-flight references held by pending instructions (the reference taken by mBucket.get travels with
   INode / IPromote / IHandle / the final IDec; every collected lru handle is an IDec) *)
Definition instr_ref (x : N) (i : instr) : Z :=
  match i with
  | INode y _ | IPromote y | IHandle y | IDec y _ => if y =? x then 1%Z else 0%Z
  | _ => 0%Z
  end.
Definition code_ref (x : N) (k : list instr) : Z := fold_right (fun i a => (instr_ref x i + a)%Z) 0%Z k.
Definition pend_ref (x : N) (l : list (N * thread)) : Z :=
  fold_right (fun p a => (code_ref x (t_code (snd p)) + a)%Z) 0%Z l.

(* nodes whose dropped-to-zero reference count still awaits its check *)
Definition is_zero (x : N) (i : instr) : bool := match i with IZero y _ _ _ => y =? x | _ => false end.
Definition zero_pending (l : list (N * thread)) (x : N) : bool :=
  existsb (fun p => existsb (is_zero x) (t_code (snd p))) l.
