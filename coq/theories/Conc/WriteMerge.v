(* Conc/WriteMerge.v — labelled transition system of goleveldb's writer serialisation and
   merge protocol (leveldb/db_write.go: Write, putRec, writeLocked, unlockWrite) together with
   everybody else who takes the write lock (db.go Close; db_transaction.go OpenTransaction ..
   Commit/Discard/setDone; db_write.go CompactRange, SetReadOnly; db_compaction.go
   compactionError, the persistent-error handler).

   Model file: definitions only (proofs in Conc/WriteMergeProofs.v).

   One action = one channel operation or one critical section of one process; a rendezvous on
   an unbuffered channel (writeMergeC, writeMergedC, writeAckC, compPerErrC, compErrSetC) is
   ONE action of its two processes.  writeLockC has capacity 1: [lock s = true] means the
   channel is full, i.e. somebody owns the write lock.  closeC is closed iff [closed s].

   Writers are a list (any length); writer i is the i-th element.  The other lock takers are
   anonymous and unbounded in number: they are counters of processes currently inside their
   critical section (so the model does not assume that there is at most one of them — that is
   a theorem).

   History variables (jlog, plog, rlog, glog, wgroup, lreplied) record what happened; they never
   influence which action is enabled. *)
From Coq Require Import List NArith Bool Arith.
Import ListNotations.

(* ---- merge-limit constants of writeLocked (instantiated from the Go source in Gen/InstC10.v) *)
Record mparams := {
  mergeThreshold : N;   (* batch.internalLen > 128<<10 ...            *)
  mergeBigLimit : N;    (* ... mergeLimit = (1<<20) - internalLen       *)
  mergeSmallLimit : N   (* else mergeLimit = 128<<10                    *)
}.

(* result classes of a Write call *)
Inductive res := ROk | RClosed | RPerr | ROther.

Definition res_eqb (a b : res) : bool :=
  match a, b with
  | ROk, ROk | RClosed, RClosed | RPerr, RPerr | ROther, ROther => true
  | _, _ => false
  end.

(* local variables of writeLocked *)
Record lctx := {
  lfree : N;               (* mdbFree returned by flush *)
  lown : N;                (* batch.internalLen of the leader's own batch: putRec passes its batch also as
                              ourBatch, so merged Put/Delete records are appended to it and it grows *)
  llim : N;                (* mergeLimit *)
  lmerged : nat;           (* merged *)
  lbatches : list nat;     (* batches, as writer ids, in merge order *)
  lover : option nat;      (* overflow (the code keeps a bool; the id is what was received) *)
  lreplied : list nat      (* history: who actually received [true] from this leader *)
}.

Definition ctx0 : lctx :=
  {| lfree := 0; lown := 0; llim := 0; lmerged := 0; lbatches := []; lover := None; lreplied := [] |}.

(* writer program counters *)
Inductive wpc :=
| WIdle                                  (* Write/Put not called yet *)
| WSelect                                (* at the select of Write/putRec *)
| WWaitMerged                            (* sent a merge request; blocked in <-db.writeMergedC *)
| WWaitAck                               (* was told true; blocked in <-db.writeAckC *)
| WLFlush                                (* owns the lock; writeLocked: db.flush *)
| WLMerge (c : lctx)                     (* merge loop, at the select *)
| WLReply (c : lctx) (x : nat)           (* merge loop, x's batch appended, at writeMergedC <- true *)
| WLJournal (c : lctx)                   (* at db.writeJournal *)
| WLApply (c : lctx)                     (* at the putMem loop *)
| WLPublish (c : lctx)                   (* at db.addSeq *)
| WLRotate (c : lctx)                    (* at the rotate test *)
| WLUnlock (c : lctx) (i : nat) (e : res) (* unlockWrite(overflow, merged, e), loop counter i *)
| WRet (e : res)                         (* returning e *)
| WDone (e : res).                       (* returned e *)

Record writer := {
  pc : wpc;
  wmerge : bool;            (* merge := !wo.NoWriteMerge && !o.NoWriteMerge *)
  wput : bool;              (* called through putRec (Put/Delete) rather than Write *)
  wsize : N;                (* batch.internalLen *)
  wgroup : option nat       (* history: the leader that told this writer true *)
}.

Definition idle_writer : writer := {| pc := WIdle; wmerge := false; wput := false; wsize := 0; wgroup := None |}.

Definition set_pc (w : writer) (p : wpc) : writer :=
  {| pc := p; wmerge := wmerge w; wput := wput w; wsize := wsize w; wgroup := wgroup w |}.

(* Close: setClosed .. close(closeC) .. writeLockC <- {} *)
Inductive closepc := CIdle | CCalled | CSignalled | CLocked.
(* compactionError goroutine: noerr/haserr loops | hasperr loop | returned *)
Inductive handlerpc := HNoErr | HPerr | HExit.

(* finished group, recorded when the leader leaves unlockWrite *)
Record grec := {
  g_leader : nat; g_merged : nat; g_acks : nat; g_handed : option nat; g_res : res; g_replied : list nat
}.

(* one call of db.writeJournal *)
Record jrecd := { j_ok : bool; j_leader : nat; j_batches : list nat; j_replied : list nat }.

Record state := {
  ws : list writer;
  lock : bool;             (* writeLockC full *)
  cpc : closepc;
  hpc : handlerpc;
  cwl : bool;              (* db.compWriteLocking, as "the lock is held on the handler's behalf" *)
  ropend : nat;            (* SetReadOnly calls between their two selects *)
  cr : nat;                (* CompactRange calls inside their critical section *)
  tflush : nat;            (* OpenTransaction calls past the select, before db.tr = tr *)
  topen : nat;             (* open transactions *)
  tleak : nat;             (* OpenTransaction calls that returned an error with the lock held *)
  jlog : list jrecd;        (* calls of db.writeJournal, in order *)
  plog : list nat;         (* addSeq calls: leader *)
  rlog : list (nat * res); (* returned calls *)
  glog : list grec;        (* finished groups *)
  alog : list (nat * nat)  (* acknowledgements: leader, receiver *)
}.

Definition closed (s : state) : bool :=
  match cpc s with CSignalled | CLocked => true | _ => false end.

Fixpoint upd {A} (l : list A) (i : nat) (x : A) : list A :=
  match l, i with
  | [], _ => []
  | _ :: t, O => x :: t
  | h :: t, S i' => h :: upd t i' x
  end.

Definition getw (s : state) (i : nat) : option writer := nth_error (ws s) i.

Definition with_ws (s : state) (l : list writer) : state :=
  {| ws := l; lock := lock s; cpc := cpc s; hpc := hpc s; cwl := cwl s; ropend := ropend s; cr := cr s;
     tflush := tflush s; topen := topen s; tleak := tleak s; jlog := jlog s; plog := plog s;
     rlog := rlog s; glog := glog s; alog := alog s |}.

Definition setw (s : state) (i : nat) (w : writer) : state := with_ws s (upd (ws s) i w).

Definition with_lock (s : state) (b : bool) : state :=
  {| ws := ws s; lock := b; cpc := cpc s; hpc := hpc s; cwl := cwl s; ropend := ropend s; cr := cr s;
     tflush := tflush s; topen := topen s; tleak := tleak s; jlog := jlog s; plog := plog s;
     rlog := rlog s; glog := glog s; alog := alog s |}.

Definition with_env (s : state) (lk : bool) (c : closepc) (h : handlerpc) (w : bool) (ro k tf to tl : nat) : state :=
  {| ws := ws s; lock := lk; cpc := c; hpc := h; cwl := w; ropend := ro; cr := k;
     tflush := tf; topen := to; tleak := tl; jlog := jlog s; plog := plog s;
     rlog := rlog s; glog := glog s; alog := alog s |}.

Definition with_logs (s : state) (j : list jrecd) (p : list nat)
  (r : list (nat * res)) (g : list grec) (a : list (nat * nat)) : state :=
  {| ws := ws s; lock := lock s; cpc := cpc s; hpc := hpc s; cwl := cwl s; ropend := ropend s; cr := cr s;
     tflush := tflush s; topen := topen s; tleak := tleak s; jlog := j; plog := p;
     rlog := r; glog := g; alog := a |}.

Definition init (n : nat) : state :=
  {| ws := repeat idle_writer n; lock := false; cpc := CIdle; hpc := HNoErr; cwl := false; ropend := 0;
     cr := 0; tflush := 0; topen := 0; tleak := 0; jlog := []; plog := []; rlog := []; glog := []; alog := [] |}.

(* writeLocked, "Merge limit" block *)
Definition merge_limit (mp : mparams) (sz free : N) : N :=
  let lim := if (mergeThreshold mp <? sz)%N then (mergeBigLimit mp - sz)%N else mergeSmallLimit mp in
  let cap := (free - sz)%N in
  if (cap <? lim)%N then cap else lim.

Inductive action :=
(* writers *)
| ACall (i : nat) (m put : bool) (sz : N)   (* Write (put = false) or Put/Delete (put = true) called; db.ok() passed *)
| ASelMerge (i l : nat)                     (* select: db.writeMergeC <- req, received by leader l's merge loop,
                                               which then runs the size test *)
| ASelLock (i : nat)                        (* select: db.writeLockC <- {} *)
| ASelPerr (i : nat)                        (* select: err := <-db.compPerErrC *)
| ASelClosed (i : nat)                      (* select: <-db.closeC (or db.ok() = ErrClosed) *)
| AFlushOk (l : nat) (free : N)             (* db.flush succeeded with mdbFree = free *)
| AFlushFail (l : nat) (e : res)            (* db.flush failed: unlockWrite(false, 0, err) *)
| AReplyTrue (l i : nat)                    (* db.writeMergedC <- true, received by i *)
| AMergeDone (l : nat)                      (* merge loop left: default branch or mergeLimit = 0 *)
| AJournalOk (l : nat)
| AJournalFail (l : nat) (e : res)
| AApply (l : nat)                          (* putMem loop *)
| APublish (l : nat)                        (* db.addSeq *)
| ARotateSkip (l : nat)                     (* batch.internalLen < mdbFree (the leader's batch as it is now) *)
| ARotateOk (l : nat)
| ARotateFail (l : nat) (e : res)
| AAck (l i : nat)                          (* db.writeAckC <- err, received by i *)
| AHandover (l o : nat)                     (* db.writeMergedC <- false, received by o *)
| ARelease (l : nat)                        (* <-db.writeLockC *)
| AReturn (i : nat)
(* Close *)
| ACloseCall                                (* setClosed() succeeded *)
| ACloseSignal                              (* close(db.closeC) *)
| ACloseLock                                (* db.writeLockC <- {} *)
(* transactions: OpenTransaction .. setDone (Commit, Discard, Close's Discard, Write of a large batch) *)
| ATxnAcquire
| ATxnFlushOk
| ATxnFlushFail                             (* rotateMem/waitCompaction error: returns with the lock held *)
| ATxnDone                                  (* setDone: <-db.writeLockC *)
(* CompactRange *)
| ACRAcquire
| ACRRelease
(* SetReadOnly *)
| AROAcquire                                (* first select: lock taken, compWriteLocking = true *)
| AROSend                                   (* second select: db.compErrSetC <- ErrReadOnly *)
| AROAbort                                  (* second select: compPerErrC / closeC branch *)
(* compactionError *)
| AHPerr                                    (* a compaction reports a persistent error *)
| AHLock                                    (* hasperr: db.writeLockC <- {}; compWriteLocking = true *)
| AHExit.                                   (* <-db.closeC: release the lock if compWriteLocking (hasperr only) *)

Definition eqb_onat (a : option nat) (b : nat) : bool :=
  match a with Some x => Nat.eqb x b | None => false end.

Section Step.
Variable mp : mparams.

(* what the leader does with a received request of size sz from x: reply true, or overflow *)
Definition merge_decide (c : lctx) (x : nat) (sz : N) (bothput : bool) : wpc :=
  if (llim c <? sz)%N
  then WLJournal {| lfree := lfree c; lown := lown c; llim := llim c; lmerged := lmerged c; lbatches := lbatches c;
                    lover := Some x; lreplied := lreplied c |}
  else WLReply {| lfree := lfree c; lown := (if bothput then lown c + sz else lown c)%N;
                  llim := (llim c - sz)%N; lmerged := lmerged c;
                  lbatches := lbatches c ++ [x]; lover := None; lreplied := lreplied c |} x.

Definition after_reply (c : lctx) (i : nat) : lctx :=
  {| lfree := lfree c; lown := lown c; llim := llim c; lmerged := S (lmerged c); lbatches := lbatches c;
     lover := lover c; lreplied := lreplied c ++ [i] |}.

Definition mk_grec (l : nat) (c : lctx) (i : nat) (h : option nat) (e : res) : grec :=
  {| g_leader := l; g_merged := lmerged c; g_acks := i; g_handed := h; g_res := e; g_replied := lreplied c |}.

Definition step (s : state) (a : action) : option state :=
  match a with
  | ACall i m put sz =>
      match getw s i with
      | Some w => match pc w with
                  | WIdle => Some (setw s i {| pc := WSelect; wmerge := m; wput := put; wsize := sz; wgroup := None |})
                  | _ => None end
      | None => None
      end
  | ASelMerge i l =>
      match getw s i, getw s l with
      | Some w, Some wl =>
          match pc w, pc wl with
          | WSelect, WLMerge c =>
              if wmerge w && (0 <? llim c)%N
              then Some (with_ws s (upd (upd (ws s) i (set_pc w WWaitMerged)) l (set_pc wl (merge_decide c i (wsize w) (wput wl && wput w)))))
              else None
          | _, _ => None
          end
      | _, _ => None
      end
  | ASelLock i =>
      match getw s i with
      | Some w => match pc w with
                  | WSelect => if lock s then None else Some (with_lock (setw s i (set_pc w WLFlush)) true)
                  | _ => None end
      | None => None
      end
  | ASelPerr i =>
      match getw s i with
      | Some w => match pc w, hpc s with
                  | WSelect, HPerr => Some (setw s i (set_pc w (WRet RPerr)))
                  | _, _ => None end
      | None => None
      end
  | ASelClosed i =>
      match getw s i with
      | Some w => match pc w with
                  | WSelect => if closed s then Some (setw s i (set_pc w (WRet RClosed))) else None
                  | _ => None end
      | None => None
      end
  | AFlushOk l free =>
      match getw s l with
      | Some w =>
          match pc w with
          | WLFlush =>
              let c := {| lfree := free; lown := wsize w; llim := merge_limit mp (wsize w) free; lmerged := 0;
                          lbatches := [l]; lover := None; lreplied := [] |} in
              Some (setw s l (set_pc w (if wmerge w then WLMerge c else WLJournal c)))
          | _ => None end
      | None => None
      end
  | AFlushFail l e =>
      match getw s l with
      | Some w =>
          match pc w, e with
          | WLFlush, ROk => None
          | WLFlush, _ => Some (setw s l (set_pc w (WLUnlock ctx0 0 e)))
          | _, _ => None end
      | None => None
      end
  | AReplyTrue l i =>
      match getw s l, getw s i with
      | Some wl, Some w =>
          match pc wl, pc w with
          | WLReply c x, WWaitMerged =>
              Some (with_ws s (upd (upd (ws s) i {| pc := WWaitAck; wmerge := wmerge w; wput := wput w; wsize := wsize w; wgroup := Some l |})
                                   l (set_pc wl (WLMerge (after_reply c i)))))
          | _, _ => None
          end
      | _, _ => None
      end
  | AMergeDone l =>
      match getw s l with
      | Some w => match pc w with
                  | WLMerge c => Some (setw s l (set_pc w (WLJournal c)))
                  | _ => None end
      | None => None
      end
  | AJournalOk l =>
      match getw s l with
      | Some w => match pc w with
                  | WLJournal c =>
                      Some (with_logs (setw s l (set_pc w (WLApply c)))
                              (jlog s ++ [{| j_ok := true; j_leader := l; j_batches := lbatches c; j_replied := lreplied c |}]) (plog s) (rlog s) (glog s) (alog s))
                  | _ => None end
      | None => None
      end
  | AJournalFail l e =>
      match getw s l with
      | Some w => match pc w, e with
                  | WLJournal c, ROk => None
                  | WLJournal c, _ =>
                      Some (with_logs (setw s l (set_pc w (WLUnlock c 0 e)))
                              (jlog s ++ [{| j_ok := false; j_leader := l; j_batches := lbatches c; j_replied := lreplied c |}])
                              (plog s) (rlog s) (glog s) (alog s))
                  | _, _ => None end
      | None => None
      end
  | AApply l =>
      match getw s l with
      | Some w => match pc w with
                  | WLApply c => Some (setw s l (set_pc w (WLPublish c)))
                  | _ => None end
      | None => None
      end
  | APublish l =>
      match getw s l with
      | Some w => match pc w with
                  | WLPublish c =>
                      Some (with_logs (setw s l (set_pc w (WLRotate c)))
                              (jlog s) (plog s ++ [l]) (rlog s) (glog s) (alog s))
                  | _ => None end
      | None => None
      end
  | ARotateSkip l =>
      match getw s l with
      | Some w => match pc w with
                  | WLRotate c => if (lown c <? lfree c)%N then Some (setw s l (set_pc w (WLUnlock c 0 ROk))) else None
                  | _ => None end
      | None => None
      end
  | ARotateOk l =>
      match getw s l with
      | Some w => match pc w with
                  | WLRotate c => if (lown c <? lfree c)%N then None else Some (setw s l (set_pc w (WLUnlock c 0 ROk)))
                  | _ => None end
      | None => None
      end
  | ARotateFail l e =>
      match getw s l with
      | Some w => match pc w, e with
                  | WLRotate c, ROk => None
                  | WLRotate c, _ => if (lown c <? lfree c)%N then None else Some (setw s l (set_pc w (WLUnlock c 0 e)))
                  | _, _ => None end
      | None => None
      end
  | AAck l i =>
      match getw s l, getw s i with
      | Some wl, Some w =>
          match pc wl, pc w with
          | WLUnlock c k e, WWaitAck =>
              if k <? lmerged c
              then Some (with_logs (with_ws s (upd (upd (ws s) i (set_pc w (WRet e))) l (set_pc wl (WLUnlock c (S k) e))))
                           (jlog s) (plog s) (rlog s) (glog s) (alog s ++ [(l, i)]))
              else None
          | _, _ => None
          end
      | _, _ => None
      end
  | AHandover l o =>
      match getw s l, getw s o with
      | Some wl, Some w =>
          match pc wl, pc w with
          | WLUnlock c k e, WWaitMerged =>
              match k <? lmerged c, lover c with
              | false, Some _ =>
                  Some (with_logs (with_ws s (upd (upd (ws s) o (set_pc w WLFlush)) l (set_pc wl (WRet e))))
                          (jlog s) (plog s) (rlog s) (glog s ++ [mk_grec l c k (Some o) e]) (alog s))
              | _, _ => None
              end
          | _, _ => None
          end
      | _, _ => None
      end
  | ARelease l =>
      match getw s l with
      | Some wl =>
          match pc wl with
          | WLUnlock c k e =>
              match k <? lmerged c, lover c, lock s with
              | false, None, true =>
                  Some (with_logs (with_lock (setw s l (set_pc wl (WRet e))) false)
                          (jlog s) (plog s) (rlog s) (glog s ++ [mk_grec l c k None e]) (alog s))
              | _, _, _ => None
              end
          | _ => None
          end
      | None => None
      end
  | AReturn i =>
      match getw s i with
      | Some w => match pc w with
                  | WRet e => Some (with_logs (setw s i (set_pc w (WDone e)))
                                      (jlog s) (plog s) (rlog s ++ [(i, e)]) (glog s) (alog s))
                  | _ => None end
      | None => None
      end
  | ACloseCall =>
      match cpc s with
      | CIdle => Some (with_env s (lock s) CCalled (hpc s) (cwl s) (ropend s) (cr s) (tflush s) (topen s) (tleak s))
      | _ => None end
  | ACloseSignal =>
      match cpc s with
      | CCalled => Some (with_env s (lock s) CSignalled (hpc s) (cwl s) (ropend s) (cr s) (tflush s) (topen s) (tleak s))
      | _ => None end
  | ACloseLock =>
      match cpc s, lock s with
      | CSignalled, false => Some (with_env s true CLocked (hpc s) (cwl s) (ropend s) (cr s) (tflush s) (topen s) (tleak s))
      | _, _ => None end
  | ATxnAcquire =>
      if lock s then None
      else Some (with_env s true (cpc s) (hpc s) (cwl s) (ropend s) (cr s) (S (tflush s)) (topen s) (tleak s))
  | ATxnFlushOk =>
      match tflush s with
      | S n => Some (with_env s (lock s) (cpc s) (hpc s) (cwl s) (ropend s) (cr s) n (S (topen s)) (tleak s))
      | O => None end
  | ATxnFlushFail =>
      match tflush s with
      | S n => Some (with_env s (lock s) (cpc s) (hpc s) (cwl s) (ropend s) (cr s) n (topen s) (S (tleak s)))
      | O => None end
  | ATxnDone =>
      match topen s, lock s with
      | S n, true => Some (with_env s false (cpc s) (hpc s) (cwl s) (ropend s) (cr s) (tflush s) n (tleak s))
      | _, _ => None end
  | ACRAcquire =>
      if lock s then None
      else Some (with_env s true (cpc s) (hpc s) (cwl s) (ropend s) (S (cr s)) (tflush s) (topen s) (tleak s))
  | ACRRelease =>
      match cr s, lock s with
      | S n, true => Some (with_env s false (cpc s) (hpc s) (cwl s) (ropend s) n (tflush s) (topen s) (tleak s))
      | _, _ => None end
  | AROAcquire =>
      if lock s then None
      else Some (with_env s true (cpc s) (hpc s) true (S (ropend s)) (cr s) (tflush s) (topen s) (tleak s))
  | AROSend =>
      match ropend s, hpc s with
      | S n, HNoErr => Some (with_env s (lock s) (cpc s) HPerr (cwl s) n (cr s) (tflush s) (topen s) (tleak s))
      | _, _ => None end
  | AROAbort =>
      match ropend s with
      | S n =>
          if (match hpc s with HPerr => true | _ => false end) || closed s
          then Some (with_env s (lock s) (cpc s) (hpc s) (cwl s) n (cr s) (tflush s) (topen s) (tleak s))
          else None
      | O => None end
  | AHPerr =>
      match hpc s with
      | HNoErr => Some (with_env s (lock s) (cpc s) HPerr (cwl s) (ropend s) (cr s) (tflush s) (topen s) (tleak s))
      | _ => None end
  | AHLock =>
      match hpc s, lock s with
      | HPerr, false => Some (with_env s true (cpc s) HPerr true (ropend s) (cr s) (tflush s) (topen s) (tleak s))
      | _, _ => None end
  | AHExit =>
      if closed s then
        match hpc s with
        | HNoErr => Some (with_env s (lock s) (cpc s) HExit (cwl s) (ropend s) (cr s) (tflush s) (topen s) (tleak s))
        | HPerr =>
            if cwl s
            then (if lock s
                  then Some (with_env s false (cpc s) HExit false (ropend s) (cr s) (tflush s) (topen s) (tleak s))
                  else None)
            else Some (with_env s (lock s) (cpc s) HExit false (ropend s) (cr s) (tflush s) (topen s) (tleak s))
        | HExit => None
        end
      else None
  end.

Fixpoint run (s : state) (l : list action) : option state :=
  match l with
  | [] => Some s
  | a :: l' => match step s a with Some s' => run s' l' | None => None end
  end.

(* trace acceptor: the action sequence is a run of the system with n writers *)
Definition accepts_n (n : nat) (l : list action) : bool :=
  match run (init n) l with Some _ => true | None => false end.

(* the number of writers a trace needs is bounded by its length: accept with that many *)
Definition accepts (l : list action) : bool := accepts_n (length l) l.

End Step.

(* arrivals: a new call enters the system (everything else is a move of a call already inside) *)
Definition arrival (a : action) : bool :=
  match a with
  | ACall _ _ _ _ | ACloseCall | ATxnAcquire | ACRAcquire | AROAcquire | AHPerr | AHLock => true
  | _ => false
  end.
