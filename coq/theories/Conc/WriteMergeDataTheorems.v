(* Conc/WriteMergeDataTheorems.v — the statements about the data layer of the writer serialisation
   and merge protocol (Conc/WriteMergeData.v), derived from the invariants of
   Conc/WriteMergeDataProofs.v.  Everything is for the code as it is ([v_real]), any number n of
   writers, any request table rq, any merge-limit constants mp, any initial db.seq, and every
   reachable state of the data-carrying system (all interleavings). *)
From Coq Require Import List NArith Bool Arith Lia Permutation.
From GL Require Import Conc.WriteMerge Conc.WriteMergeProofs Conc.WriteMergeData Conc.WriteMergeDataProofs.
Import ListNotations.

Lemma NoDup_app_l {A} (l1 l2 : list A) : NoDup (l1 ++ l2) -> NoDup l1.
Proof.
  induction l1 as [|a l1 IH]; simpl; intros H; [constructor|]. inversion H; subst. constructor.
  - intros Hin. apply H2. apply in_or_app. auto.
  - apply IH; auto.
Qed.

Lemma NoDup_app_r {A} (l1 l2 : list A) : NoDup (l1 ++ l2) -> NoDup l2.
Proof. induction l1 as [|a l1 IH]; simpl; intros H; auto. inversion H; subst. auto. Qed.

Lemma NoDup_concat_in {A} (ls : list (list A)) l : NoDup (concat ls) -> In l ls -> NoDup l.
Proof.
  induction ls as [|a ls IH]; simpl; intros Hn Hin; [contradiction|].
  destruct Hin as [->|Hin].
  - apply NoDup_app_l in Hn. exact Hn.
  - apply IH; auto. apply NoDup_app_r in Hn. exact Hn.
Qed.

Lemma NoDup_app_disjoint {A} (l1 l2 : list A) x : NoDup (l1 ++ l2) -> In x l1 -> In x l2 -> False.
Proof.
  induction l1 as [|a l1 IH]; simpl; intros Hn H1 H2; [contradiction|].
  inversion Hn; subst. destruct H1 as [->|H1].
  - apply H3. apply in_or_app. auto.
  - eapply IH; eauto.
Qed.

(* an element of a duplicate-free concatenation lies in one list only *)
Lemma NoDup_concat_unique {A} (ls : list (list A)) x : NoDup (concat ls) ->
  forall k1 k2 l1 l2, nth_error ls k1 = Some l1 -> nth_error ls k2 = Some l2 -> In x l1 -> In x l2 -> k1 = k2.
Proof.
  induction ls as [|a ls IH]; intros Hn k1 k2 l1 l2 H1 H2 I1 I2; [destruct k1; discriminate|].
  simpl in Hn. destruct k1, k2; simpl in H1, H2; auto.
  - inversion H1; subst. exfalso. eapply NoDup_app_disjoint; eauto. apply in_concat. exists l2. split; auto.
    eapply nth_error_In; eauto.
  - inversion H2; subst. exfalso. eapply NoDup_app_disjoint; eauto. apply in_concat. exists l1. split; auto.
    eapply nth_error_In; eauto.
  - f_equal. eapply IH; eauto. apply NoDup_app_r in Hn. exact Hn.
Qed.

Lemma Forall2_in_l {A B} (R : A -> B -> Prop) l1 l2 a : Forall2 R l1 l2 -> In a l1 -> exists b, In b l2 /\ R a b.
Proof.
  induction 1; simpl; intros Hin; [contradiction|]. destruct Hin as [->|Hin].
  - eauto.
  - destruct (IHForall2 Hin) as (b & Hb & HR). eauto.
Qed.

Lemma Forall2_impl_in {A B} (R R' : A -> B -> Prop) l1 l2 :
  (forall a b, In a l1 -> In b l2 -> R a b -> R' a b) -> Forall2 R l1 l2 -> Forall2 R' l1 l2.
Proof.
  intros H F. induction F; constructor.
  - apply H; simpl; auto.
  - apply IHF. intros a b Ha Hb. apply H; simpl; auto.
Qed.

(* the merge limit of the code, in words *)
Lemma merge_limit_bounds mp sz free :
  (merge_limit mp sz free <= free - sz)%N /\
  ((mergeThreshold mp <? sz)%N = false -> (merge_limit mp sz free <= mergeSmallLimit mp)%N) /\
  ((mergeThreshold mp <? sz)%N = true -> (merge_limit mp sz free <= mergeBigLimit mp - sz)%N).
Proof.
  unfold merge_limit. destruct (mergeThreshold mp <? sz)%N; cbv zeta;
  match goal with |- context [(?a <? ?b)%N] => destruct (a <? b)%N eqn:E end;
  try apply N.ltb_lt in E; try apply N.ltb_ge in E; repeat split; intros; try discriminate; lia.
Qed.

Section Theorems.
Variable mp : mparams.
Variable rq : reqtab.

Notation reach := (xreachable mp v_real rq).

(* every run of the data-carrying system is a run of the base system: all theorems of
   Conc/WriteMergeProofs.v (mutex, hand-over, acknowledgement counts, results, ...) apply *)
Theorem data_run_is_base_run n q0 x : reach n q0 x -> reachable mp n (xb x).
Proof. apply xreachable_base. Qed.

(* ---- 1. the journal record is the group ---- *)

(* [j_batches j] is the group in MERGE order (leader, then the requests in the order they were
   merged; = leader :: the writers that received `true`).  The record holds exactly these
   requests, each once, the leader's records first; the Write(batch) requests keep their merge
   order and so do the Put/Delete requests (these are collected in ourBatch, which sits where the
   leader's own batch — putRec — or the first merged Put/Delete put it: the record order is merge
   order up to that regrouping, and is exactly merge order when no Put/Delete is merged after a
   batch); every request contributes the number of records it has. *)
Definition record_of_group (r : drec) (j : jrecd) : Prop :=
  dr_leader r = j_leader j /\ dr_ok r = j_ok j /\
  j_batches j = j_leader j :: j_replied j /\
  Permutation (rec_ids r) (j_batches j) /\ NoDup (rec_ids r) /\
  hd_error (rec_ids r) = Some (j_leader j) /\
  filter (putid rq) (rec_ids r) = filter (putid rq) (j_batches j) /\
  filter (nputid rq) (rec_ids r) = filter (nputid rq) (j_batches j) /\
  Forall (fun sg : seg => snd sg = req_nrec (rq (fst sg))) (dr_segs r).

Theorem group_record_is_group n q0 x : reach n q0 x ->
  Forall2 record_of_group (djl (xd x)) (jlog (xb x)).
Proof.
  intros R. pose proof (xreachable_XI mp rq n q0 x R) as [H1 H2 H3 H4 H5 H6 H7 H8 H9 H10 H11 H12].
  unfold Jinv in H12. eapply Forall2_impl_in; [|exact H12].
  intros r j Hr Hj [G1 G2 G3 G4 G5 G6 G7].
  rewrite Forall_forall in H3. pose proof (H3 j Hj) as Hjok. unfold jok in Hjok.
  repeat split; auto.
  - apply (filters_perm (putid rq)); auto.
  - apply (NoDup_concat_in (map rec_ids (djl (xd x)))); [apply (n_nodup _ _ H7)|]. apply in_map. exact Hr.
  - rewrite G5, Hjok. reflexivity.
Qed.

(* no request is in two records, or twice in one *)
Theorem no_request_journalled_twice n q0 x : reach n q0 x -> NoDup (concat (map rec_ids (djl (xd x)))).
Proof. intros R. apply (n_nodup _ _ (xi_N _ _ _ (xreachable_XI mp rq n q0 x R))). Qed.

Theorem request_in_one_record n q0 x i k1 k2 r1 r2 : reach n q0 x ->
  nth_error (djl (xd x)) k1 = Some r1 -> nth_error (djl (xd x)) k2 = Some r2 ->
  In i (rec_ids r1) -> In i (rec_ids r2) -> k1 = k2.
Proof.
  intros R H1 H2 I1 I2. pose proof (no_request_journalled_twice n q0 x R) as Hn.
  eapply (NoDup_concat_unique _ i Hn k1 k2 (rec_ids r1) (rec_ids r2)); auto; rewrite nth_error_map.
  - rewrite H1. reflexivity.
  - rewrite H2. reflexivity.
Qed.

(* none lost: a writer that holds (or has returned) a nil result is in a record whose write succeeded
   — the statement is about every reachable state, in particular the state in which the result
   has just been received, so the record was written before the result was sent *)
Theorem acked_request_is_journalled n q0 x i w : reach n q0 x -> nth_error (ws (xb x)) i = Some w ->
  (pc w = WRet ROk \/ pc w = WDone ROk) ->
  exists r, In r (djl (xd x)) /\ dr_ok r = true /\ In i (rec_ids r).
Proof.
  intros R Hi Hp. apply (xi_R _ _ _ (xreachable_XI mp rq n q0 x R) i w Hi).
  destruct Hp as [Hp|Hp]; rewrite Hp; reflexivity.
Qed.

(* ---- 2. the record is synced iff some member asked for it ---- *)

Theorem group_sync_is_or n q0 x r : reach n q0 x -> In r (djl (xd x)) ->
  dr_sync r = existsb (fun i => rq_sync (rq i)) (rec_ids r).
Proof.
  intros R Hr. pose proof (xreachable_XI mp rq n q0 x R) as HX.
  destruct (Forall2_in_l _ _ _ r (xi_J _ _ _ HX) Hr) as (j & Hj & [G1 G2 G3 G4 G5 G6 G7]).
  rewrite G6. unfold syncof. apply existsb_perm. apply Permutation_sym. apply (filters_perm (putid rq)); auto.
Qed.

Theorem sync_ack_implies_synced n q0 x i w : reach n q0 x -> nth_error (ws (xb x)) i = Some w ->
  (pc w = WRet ROk \/ pc w = WDone ROk) -> rq_sync (rq i) = true ->
  exists r, In r (djl (xd x)) /\ dr_ok r = true /\ In i (rec_ids r) /\ dr_sync r = true.
Proof.
  intros R Hi Hp Hs. destruct (acked_request_is_journalled n q0 x i w R Hi Hp) as (r & Hr & Hok & Hin).
  exists r. repeat split; auto. rewrite (group_sync_is_or n q0 x r R Hr). apply existsb_exists. exists i. auto.
Qed.

(* ---- 3. sequence numbers ---- *)

(* what a reader of the journal assigns (header seq, then consecutively in file order) is consecutive,
   covers the record's requests in record order, and is what the putMem loop inserts *)
Theorem record_numbering_consecutive r :
  consecutive (dr_seq r) (rec_numbering r) /\ map (fun t => fst (fst t)) (rec_numbering r) = rec_ids r.
Proof. split; [apply put_batch_consecutive|apply put_batch_ids]. Qed.

Theorem putmem_loop_is_record_numbering q bs : put_all q bs = put_batch q (concat bs).
Proof. apply put_all_concat. Qed.

Lemma holder_dec (H : wpc -> bool) L :
  (exists l wl, nth_error L l = Some wl /\ H (pc wl) = true) \/ (forall l wl, nth_error L l = Some wl -> H (pc wl) = false).
Proof.
  induction L as [|w L IH].
  - right. intros l wl Hl. destruct l; discriminate.
  - destruct (H (pc w)) eqn:E.
    + left. exists 0, w. auto.
    + destruct IH as [(l & wl & Hl & Hp)|IH].
      * left. exists (S l), wl. auto.
      * right. intros l wl Hl. destruct l; simpl in Hl; [inversion Hl; subst; auto|eauto].
Qed.

(* the memdb is filled in journal order with the journal's numbering: what has been inserted is the
   numbering of the successfully written records, in order — all of them, except that the group
   whose leader is just between writeJournal and its putMem loop is still to come *)
Theorem memdb_order_is_journal_order n q0 x : reach n q0 x ->
  (exists rest, dmem (xd x) ++ rest = numbering_all (djl (xd x))) /\
  ((forall l wl, nth_error (ws (xb x)) l = Some wl -> isapply (pc wl) = false) ->
   dmem (xd x) = numbering_all (djl (xd x))).
Proof.
  intros R. destruct (xi_A _ _ _ (xreachable_XI mp rq n q0 x R)) as [A1 A2]. split; auto.
  destruct (holder_dec isapply (ws (xb x))) as [(l & wl & Hl & Hp)|Hno].
  - eexists. apply (A1 l wl Hl Hp).
  - exists []. rewrite app_nil_r. auto.
Qed.

Theorem seq_order_is_merge_order n q0 x : reach n q0 x ->
  (forall r, In r (djl (xd x)) ->
     consecutive (dr_seq r) (rec_numbering r) /\ map (fun t => fst (fst t)) (rec_numbering r) = rec_ids r) /\
  (forall q bs, put_all q bs = put_batch q (concat bs)) /\
  (exists rest, dmem (xd x) ++ rest = numbering_all (djl (xd x))) /\
  ((forall l wl, nth_error (ws (xb x)) l = Some wl -> isapply (pc wl) = false) ->
   dmem (xd x) = numbering_all (djl (xd x))).
Proof.
  intros R. destruct (memdb_order_is_journal_order n q0 x R) as [M1 M2]. repeat split; auto.
  - apply put_batch_consecutive.
  - apply put_batch_ids.
  - intros q bs. apply put_all_concat.
Qed.

(* the sequence ranges of the records — of failed writes too — increase along the log: a record never
   reuses a number of an earlier one *)
Theorem seq_ranges_increase n q0 x : reach n q0 x -> jsorted 1 (djl (xd x)).
Proof. intros R. apply (xi_S _ _ _ (xreachable_XI mp rq n q0 x R)). Qed.

Lemma jsorted_pairs JL : forall lo, jsorted lo JL ->
  forall k1 k2 r1 r2, k1 < k2 -> nth_error JL k1 = Some r1 -> nth_error JL k2 = Some r2 ->
  (dr_seq r1 + rec_count r1 <= dr_seq r2)%N.
Proof.
  assert (Hlo : forall JL lo k r, jsorted lo JL -> nth_error JL k = Some r -> (lo <= dr_seq r)%N).
  { induction JL0 as [|a JL0 IH]; intros lo k r Hs Hk; [destruct k; discriminate|].
    simpl in Hs. destruct Hs as [H1 H2]. destruct k; simpl in Hk.
    - inversion Hk; subst; auto.
    - specialize (IH _ _ _ H2 Hk). lia. }
  induction JL as [|a JL IH]; intros lo Hs k1 k2 r1 r2 Hlt H1 H2; [destruct k1; discriminate|].
  simpl in Hs. destruct Hs as [Ha Hs]. destruct k2; [lia|]. simpl in H2. destruct k1; simpl in H1.
  - inversion H1; subst. apply (Hlo JL _ k2 r2 Hs H2).
  - apply (IH _ Hs k1 k2 r1 r2); auto. lia.
Qed.

Theorem seq_ranges_disjoint n q0 x k1 k2 r1 r2 : reach n q0 x -> k1 < k2 ->
  nth_error (djl (xd x)) k1 = Some r1 -> nth_error (djl (xd x)) k2 = Some r2 ->
  (dr_seq r1 + rec_count r1 <= dr_seq r2)%N.
Proof. intros R. eapply jsorted_pairs. apply (seq_ranges_increase n q0 x R). Qed.

(* ---- 4. the merge limit ---- *)

(* while a leader carries a group: the sizes of the merged requests (in merge order: these are the
   members after the leader) plus the remaining limit are the initial limit of the code, so the group
   never exceeds it *)
Theorem merge_respects_limit n q0 x l wl c : reach n q0 x -> nth_error (ws (xb x)) l = Some wl ->
  gpc_of (pc wl) = Some c ->
  let g := getg (xd x) l in
  lbatches c = l :: map fst (gx_merged g) /\
  (sum_sizes (gx_merged g) + llim c = merge_limit mp (wsize wl) (lfree c))%N /\
  (sum_sizes (gx_merged g) <= lfree c - wsize wl)%N /\
  ((mergeThreshold mp <? wsize wl)%N = false -> (sum_sizes (gx_merged g) <= mergeSmallLimit mp)%N) /\
  ((mergeThreshold mp <? wsize wl)%N = true -> (wsize wl + sum_sizes (gx_merged g) <= N.max (wsize wl) (mergeBigLimit mp))%N).
Proof.
  intros R Hl Hc g. pose proof (xreachable_XI mp rq n q0 x R) as HX.
  pose proof (Ginv_old mp rq _ _ l wl c (xi_G _ _ _ HX) Hl Hc) as [G1 G2 G3 G4 G5 G6 G7 G8 G9].
  fold (getg (xd x) l) in *. fold g in G5, G6, G7.
  destruct (merge_limit_bounds mp (wsize wl) (lfree c)) as (B1 & B2 & B3).
  assert (Hl0 : exists t, lbatches c = l :: t).
  { pose proof (xi_P2 _ _ _ HX l wl Hl) as Hok. destruct (pc wl); simpl in Hc; try discriminate; inversion Hc; subst;
    simpl in Hok; try (match type of Hok with _ /\ _ => destruct Hok as [Hok _] end); eexists; exact Hok. }
  assert (Hhead : lbatches c = l :: map fst (gx_merged g)).
  { destruct G5 as [h G5]. destruct Hl0 as [t Hl0]. rewrite Hl0 in G5. inversion G5; subst. rewrite Hl0. reflexivity. }
  repeat split; auto; try lia.
  - intros Ht. specialize (B2 Ht). lia.
  - intros Ht. specialize (B3 Ht). lia.
Qed.

(* the request that did not fit is not dropped: it is the one — the only one — the lock is handed to *)
Theorem overflow_writer_gets_the_lock n q0 x l wl c k e o o' s' : reach n q0 x ->
  nth_error (ws (xb x)) l = Some wl -> pc wl = WLUnlock c k e -> lover c = Some o' ->
  step mp (xb x) (AHandover l o) = Some s' -> o = o'.
Proof.
  intros R Hl Hp Ho Hs. pose proof (xreachable_XI mp rq n q0 x R) as HX. pose proof (xi_inv _ _ _ HX) as Hv.
  assert (Hc : ctx_of (pc wl) = Some c) by (rewrite Hp; reflexivity).
  destruct (xi_O _ _ _ HX l wl c o' Hl Hc Ho) as (wo' & Hwo' & Hpo').
  unfold step, getw in Hs. rewrite Hl, Hp in Hs. destruct (nth_error (ws (xb x)) o) as [wo|] eqn:Eo; [|discriminate].
  destruct (pc wo) eqn:Epo; try discriminate.
  assert (Hh : holds wl = 1) by (unfold holds; rewrite Hp; reflexivity).
  assert (Hr : replydue wl = 1) by (unfold replydue; rewrite Hp; simpl; unfold ctx_over; rewrite Ho; reflexivity).
  exact (two_waiting_same (xb x) l wl o o' wo wo' Hv Hl Hh Hr Eo Epo Hwo' Hpo').
Qed.

(* the decision itself: a request is merged iff it fits the remaining limit; otherwise the leader
   stops merging with overflow = that request (and its data is left alone) *)
Theorem merge_decision c x sz b :
  ((llim c <? sz)%N = true -> exists c', merge_decide c x sz b = WLJournal c' /\ lover c' = Some x /\ lbatches c' = lbatches c) /\
  ((llim c <? sz)%N = false -> exists c', merge_decide c x sz b = WLReply c' x /\ lbatches c' = lbatches c ++ [x] /\
                                           llim c' = (llim c - sz)%N).
Proof.
  unfold merge_decide. destruct (llim c <? sz)%N; split; intros H; try discriminate; eexists; repeat split.
Qed.

(* ---- 5. a failing journal write ---- *)

(* the step itself: nothing is inserted, the record is logged as failed, and the sequence numbers of
   the whole group are consumed (the repaired code) *)
Theorem journal_failure_step x l e x' : xstep mp v_real rq x (XA (AJournalFail l e)) = Some x' ->
  let g := getg (xd x) l in
  dmem (xd x') = dmem (xd x) /\
  dseq (xd x') = (dseq (xd x) + batches_len (gx_batches g))%N /\
  exists r, djl (xd x') = djl (xd x) ++ [r] /\ dr_ok r = false /\ dr_leader r = l /\
            dr_seq r = (dseq (xd x) + 1)%N /\ rec_count r = batches_len (gx_batches g) /\
            exists c, (exists wl, nth_error (ws (xb x)) l = Some wl /\ pc wl = WLJournal c) /\
                      (exists wl', nth_error (ws (xb x')) l = Some wl' /\ pc wl' = WLUnlock c 0 e) /\ e <> ROk.
Proof.
  intros H g. apply xstep_base in H. destruct H as (Hs & Hd & _). rewrite Hd. cbn [dstep dmem dseq djl v_real v_consume].
  repeat split. eexists. repeat split; cbn [dr_ok dr_leader dr_seq].
  - unfold rec_count. cbn [dr_segs]. symmetry. apply batches_len_concat.
  - unfold step, getw in Hs. destruct (nth_error (ws (xb x)) l) as [w|] eqn:E; [|discriminate].
    destruct (pc w) eqn:Ep; try discriminate.
    exists c. split; [eauto|]. destruct e; try discriminate; inversion Hs; subst; cbn [ws with_logs setw with_ws];
    (split; [eexists; split; [eapply nth_upd_same; eauto|reflexivity]|discriminate]).
Qed.

(* and afterwards: no member of a failed record ever holds a nil result, and none of its records is
   ever inserted into the memdb (members get the leader's error: C10_merged_result_is_groups of the base) *)
Theorem failed_group_not_acked n q0 x r i w : reach n q0 x -> In r (djl (xd x)) -> dr_ok r = false ->
  In i (rec_ids r) -> nth_error (ws (xb x)) i = Some w -> pc w <> WRet ROk /\ pc w <> WDone ROk.
Proof.
  intros R Hr Hok Hin Hi.
  assert (Hno : ~ (pc w = WRet ROk \/ pc w = WDone ROk)).
  { intros Hp. destruct (acked_request_is_journalled n q0 x i w R Hi Hp) as (r' & Hr' & Hok' & Hin').
    apply In_nth_error in Hr. destruct Hr as [k1 Hk1]. apply In_nth_error in Hr'. destruct Hr' as [k2 Hk2].
    pose proof (request_in_one_record n q0 x i k1 k2 r r' R Hk1 Hk2 Hin Hin'). subst k2.
    rewrite Hk1 in Hk2. inversion Hk2; subst. congruence. }
  split; intros Hp; apply Hno; auto.
Qed.

Lemma numbering_all_ids JL i : In i (map (fun t => fst (fst t)) (numbering_all JL)) ->
  exists r, In r JL /\ dr_ok r = true /\ In i (rec_ids r).
Proof.
  unfold numbering_all. rewrite concat_map, map_map. intros H. apply in_concat in H. destruct H as (l & Hl & Hi).
  apply in_map_iff in Hl. destruct Hl as (r & <- & Hr). apply filter_In in Hr. destruct Hr as [Hr Hok].
  exists r. repeat split; auto. unfold rec_numbering in Hi. rewrite put_batch_ids in Hi. exact Hi.
Qed.

Theorem failed_group_not_inserted n q0 x r i : reach n q0 x -> In r (djl (xd x)) -> dr_ok r = false ->
  In i (rec_ids r) -> ~ In i (map (fun t => fst (fst t)) (dmem (xd x))).
Proof.
  intros R Hr Hok Hin Hm. destruct (memdb_order_is_journal_order n q0 x R) as [(rest & Hrest) _].
  assert (Hm' : In i (map (fun t => fst (fst t)) (numbering_all (djl (xd x))))).
  { rewrite <- Hrest, map_app. apply in_or_app. auto. }
  destruct (numbering_all_ids _ _ Hm') as (r' & Hr' & Hok' & Hin').
  apply In_nth_error in Hr. destruct Hr as [k1 Hk1]. apply In_nth_error in Hr'. destruct Hr' as [k2 Hk2].
  pose proof (request_in_one_record n q0 x i k1 k2 r r' R Hk1 Hk2 Hin Hin'). subst k2.
  rewrite Hk1 in Hk2. inversion Hk2; subst. congruence.
Qed.

End Theorems.
