(* Conc/CacheLtsClose.v — the invariant of the interleaved semantics extended to Close(false):
   every state reachable by any interleaving of ALL operations except force-close ([lreach_c]) satisfies
   the invariants of Conc/CacheInv.v.  Close(false) needs Cache.mu.Lock — no goroutine inside an RLock
   section — but may overlap Release, SetCapacity and zero-checks that were pending when it started; the
   re-read of the count on unRefExternal's closed path ([zero_check_closed], the repair) is what makes
   that overlap safe.  Proof file. *)
From GL Require Import Conc.Cache Conc.CacheLemmas Conc.CacheInv Conc.CacheProofs Conc.CacheTheorems Conc.CacheLts
  Conc.CacheLtsInv.
From Coq Require Import Lia.

(* ---------------------------------------------------------------- code shapes *)

Definition all_ext (k : list instr) : bool := forallb ext_only k.
Definition Wok (l : list (N * thread)) : Prop :=
  forall p, In p l -> t_rl (snd p) = false -> all_ext (t_code (snd p)) = true.
Definition Qok (l : list (N * thread)) : Prop :=
  forall p, In p l -> all_ext (t_code (snd p)) = true.

Lemma all_ext_app a b : all_ext (a ++ b) = all_ext a && all_ext b.
Proof. unfold all_ext. apply forallb_app. Qed.
Lemma all_ext_decs ev : all_ext (decs true ev) = true.
Proof. unfold all_ext, decs. induction ev; cbn; auto. Qed.
Lemma all_ext_evicts l : all_ext (map IEvict l) = true.
Proof. unfold all_ext. induction l; cbn; auto. Qed.

Lemma exec_ext i g g' new : ext_only i = true -> exec i g = (g', new) -> all_ext new = true.
Proof.
  destruct i; cbn [ext_only]; try discriminate; intros He E; cbn [exec] in E.
  - destruct ext; [|discriminate]. destruct (find_id x (s_nodes g)); [|injection E as <- <-; reflexivity].
    injection E as <- <-. destruct (n_ref n - 1 =? 0)%Z; reflexivity.
  - injection E as <- <-. reflexivity.
  - destruct (evict_locked x g) as [s' ev]. injection E as <- <-. apply all_ext_decs.
Qed.

Lemma start_shape o b g g' code rl : start o b g = Some (g', code, rl) -> rl = false -> all_ext code = true.
Proof.
  destruct o; cbn [start]; intros E Hr.
  - destruct (s_closed g); [injection E as <- <- <-; reflexivity|].
    destruct (bucket_get ns key match sf with SfNil => true | SfRet _ _ => false end g) as [s1 [x|]];
      injection E as <- <- <-; [discriminate|reflexivity].
  - destruct (find (fun p => fst p =? h) (s_handles g)); injection E as <- <- <-; reflexivity.
  - destruct (s_closed g); [injection E as <- <- <-; reflexivity|].
    destruct (bucket_get ns key true g) as [s1 [x|]]; injection E as <- <- <-; [discriminate|reflexivity].
  - destruct (s_closed g); [injection E as <- <- <-; reflexivity|].
    destruct (bucket_get ns key true g) as [s1 [x|]]; injection E as <- <- <-; [discriminate|reflexivity].
  - destruct (s_closed g); [injection E as <- <- <-; reflexivity|].
    destruct (s_cacher g); injection E as <- <- <-; [discriminate|reflexivity].
  - destruct (s_closed g); [injection E as <- <- <-; reflexivity|].
    destruct (s_cacher g); injection E as <- <- <-; [discriminate|reflexivity].
  - destruct (s_cacher g); [|injection E as <- <- <-; reflexivity].
    destruct (run_evict_loop (set_cap c g)) as [s1 ev]. injection E as <- <- <-. apply all_ext_decs.
  - destruct (s_closed g); [injection E as <- <- <-; reflexivity|]. destruct b; [discriminate|].
    destruct force; injection E as <- <- <-; [reflexivity|]. destruct (s_cacher g); [apply all_ext_evicts|reflexivity].
Qed.

Lemma start_closed_shape o b g g' code rl : s_closed g = true -> start o b g = Some (g', code, rl) -> all_ext code = true.
Proof.
  intros Hc E. destruct o; cbn [start] in E; rewrite ?Hc in E; try (injection E as <- <- <-; reflexivity).
  - destruct (find (fun p => fst p =? h) (s_handles g)); injection E as <- <- <-; reflexivity.
  - destruct (s_cacher g); [|injection E as <- <- <-; reflexivity].
    destruct (run_evict_loop (set_cap c g)) as [s1 ev]. injection E as <- <- <-. apply all_ext_decs.
Qed.

Lemma Wok_lstep L a L' : Wok (l_thr L) -> lstep L a = Some L' -> Wok (l_thr L').
Proof.
  intros W E. destruct L as [g thr]. destruct a as [t o|t]; cbn [lstep l_g l_thr] in E.
  - destruct (t_code (get_thr t thr)); [|discriminate].
    destruct (start o (rlocked_other t thr) g) as [[[g' code] rl]|] eqn:St; [|discriminate]. injection E as <-.
    cbn [l_thr]. intros p Hp Hr. apply in_set_thr in Hp. destruct Hp as [->|Hp].
    + cbn in *. eapply start_shape; eauto.
    + apply W; auto. eapply others_sub; eauto.
  - destruct (t_code (get_thr t thr)) as [|i k] eqn:Code; [discriminate|].
    destruct (exec i g) as [g' new] eqn:Ex. injection E as <-.
    cbn [l_thr]. intros p Hp Hr. apply in_set_thr in Hp. destruct Hp as [->|Hp].
    + cbn in *. assert (In (t, get_thr t thr) thr) as Hin.
      { unfold get_thr in *. destruct (find (fun p => fst p =? t) thr) as [p|] eqn:F; [|cbn in Code; discriminate].
        apply find_some in F. destruct F as [Hin e]. apply N.eqb_eq in e. destruct p; cbn in *. subst. exact Hin. }
      pose proof (W _ Hin Hr) as A. cbn [snd] in A. rewrite Code in A. cbn [all_ext forallb] in A.
      apply andb_true_iff in A. destruct A as [A1 A2]. rewrite all_ext_app. apply andb_true_iff. split; auto.
      eapply exec_ext; eauto.
    + apply W; auto. eapply others_sub; eauto.
Qed.

(* transfer of other goroutines' pending instructions across a step when they are all of the
   RLock-free kind (no value or ban facts to carry) *)
Lemma code_ok_step_ext s s' k : Ext s s' -> all_ext k = true -> code_ok s k -> code_ok s' k.
Proof.
  intros (E1 & E2 & E3). induction k as [|i k IH]; cbn [code_ok all_ext forallb]; auto.
  intros A [Hi Hk]. apply andb_true_iff in A. destruct A as [A1 A2]. split; [|apply IH; auto].
  destruct i; cbn [ext_only] in A1; try discriminate; cbn [instr_ok] in *; auto.
  destruct Hi as [Hlt Hkey]. split; [lia|]. intros n' Hn' Hx'.
  destruct (E3 n' Hn') as (m & Hm & i' & kk & _); [lia|]. unfold keyof in kk. inversion kk.
  destruct (Hkey m Hm) as [a b]; [congruence|]. split; congruence.
Qed.

(* ---------------------------------------------------------------- one instruction on the closed (not force-closed) cache *)

Section StepClosed.
  Variable zr : N -> bool.
  Variable q : N -> Z.
  Hypothesis Hq : forall y, (0 <= q y)%Z.

  Definition postc (g' : state) (new : list instr) : Prop :=
    Inv (fun y => code_zero y new || zr y) (fun y => (q y + code_ref y new)%Z) g' /\ CapOk g' /\
    s_closed g' = true /\ s_forced g' = false.

  Lemma postc_intro g' new p' :
    (forall y, code_zero y new = false) -> Inv zr p' g' -> (forall y, p' y = (q y + code_ref y new)%Z) ->
    CapOk g' -> s_closed g' = true -> s_forced g' = false -> postc g' new.
  Proof.
    intros Z H E C O F. split; [|split; [|split]]; auto. eapply Inv_zq_ext; [|eapply Inv_pext; [exact E|exact H]].
    intro y. now rewrite Z.
  Qed.

  (* ---- IDec (external) *)
  Lemma step_dec_c g x g' new k :
    Inv zr (fun y => (q y + instr_ref y (IDec x true))%Z) g -> CapOk g -> s_closed g = true -> s_forced g = false ->
    exec (IDec x true) g = (g', new) ->
    postc g' new /\ Ext g g' /\ prefix_ok g' new k.
  Proof.
    intros H Hcap Hc Hfo E.
    destruct (node_of_pend _ _ _ x H) as (n & Hn & Hx). { cbn [instr_ref]. rewrite N.eqb_refl. specialize (Hq x). lia. }
    pose proof H as [HS HR HL HP]. unfold InvS, InvR, InvL in *.
    cbn [exec] in E. rewrite <- Hx, (find_id_in _ n (si_ids _ _ _ _ HS) Hn), Hx in E.
    assert (Inv zr (padd x 1 q) g) as H1.
    { eapply Inv_pext; [|exact H]. intro y. unfold padd. cbn [instr_ref]. rewrite (N.eqb_sym y x). destruct (x =? y); lia. }
    destruct (Z.eqb_spec (n_ref n - 1) 0) as [e|ne]; injection E as <- <-.
    - split; [|split; [apply ref_upd_ext|]].
      + split; [|split; [|split]]; [|exact Hcap|exact Hc|exact Hfo].
        pose proof (ri_ref _ _ _ _ _ _ _ _ _ HR Hfo n Hn) as Er. rewrite Hx in Er. cbn [instr_ref] in Er. rewrite N.eqb_refl in Er.
        split; unfold InvS, InvR, InvL; unfold upd_node; sred; auto.
        * eapply (SInv_upd _ _ _ _ x _ n); eauto with cache; try reflexivity.
          intro Hr. cbn. apply (si_resval _ _ _ _ HS n Hn Hr).
        * eapply (RInv_upd _ (fun y => (q y + instr_ref y (IDec x true))%Z) _ _ _ _ _ _ _ _ _ x _ n);
            [eapply RInv_zq_weaken; [|exact HR]|apply (si_ids _ _ _ _ HS)|exact Hn|exact Hx|auto with cache| | | | | | | ].
          -- intros y Hy. cbn in Hy. rewrite Hy. apply orb_true_r.
          -- intro y. cbn. specialize (Hq y). lia.
          -- intros y ney. cbn [instr_ref code_ref fold_right]. apply N.eqb_neq in ney. rewrite N.eqb_sym, ney. lia.
          -- intros _. change (n_ref n - 1 = hcount x (s_handles g) + rcount n + (q x + code_ref x [IZero x (n_ns n) (n_key n) true]))%Z.
             cbn. lia.
          -- intros _ _ Hz. exfalso. cbn in Hz. rewrite Hx, N.eqb_refl in Hz. discriminate.
          -- intros _ Hh. cbn. apply (ri_hval _ _ _ _ _ _ _ _ _ HR Hfo n Hn). now rewrite Hx.
          -- intros Hc'. congruence.
          -- intros Hc'. congruence.
        * apply LInv_upd_same; auto with cache.
      + cbn. split; auto. split.
        * unfold upd_node. sred. rewrite <- Hx. apply (si_fresh _ _ _ _ HS n Hn).
        * unfold upd_node. sred. intros m Hm Hmx. apply in_upd in Hm. destruct Hm as (m0 & Hm0 & ->).
          assert (m0 = n) as ->.
          { destruct (N.eqb_spec (n_id m0) x) as [e0|ne0]; eapply same_id_eq; eauto; try apply (si_ids _ _ _ _ HS); cbn in Hmx; congruence. }
          rewrite Hx, N.eqb_refl. cbn. auto.
    - split; [|split; [apply ref_upd_ext|cbn; auto]].
      eapply postc_intro; [reflexivity|apply dec_ok; eauto| |exact Hcap|exact Hc|exact Hfo].
      intro y. cbn. lia.
  Qed.

  (* ---- IZero (external) on the closed cache: re-read the count; finalise in place only if it is 0 *)
  Lemma step_zero_c g x ns key g' new :
    Inv (fun y => (y =? x) || zr y) q g -> CapOk g -> s_closed g = true -> s_forced g = false ->
    exec (IZero x ns key true) g = (g', new) ->
    (Inv zr q g' /\ CapOk g' /\ s_closed g' = true /\ s_forced g' = false) /\ Ext g g' /\ new = [].
  Proof.
    intros H Hcap Hc Hfo E. pose proof H as [HS HR HL HP]. unfold InvS, InvR, InvL in *.
    cbn [exec andb] in E. rewrite Hc in E. injection E as <- <-. unfold zero_check_closed.
    assert (forall s', Inv (fun y => (y =? x) || zr y) q s' ->
              (forall n, In n (s_nodes s') -> n_id n = x ->
                 (s_closed s' = false \/ n_val n <> None \/ n_dels n <> []) -> (0 < n_ref n)%Z) -> Inv zr q s') as Drop.
    { intros s' [A B C D] Hx. split; auto. unfold InvR in *. destruct B as [P PD R PO FC HN HF HO HV ST S0]. split; auto.
      intros Hf n Hn Hq' Hz. destruct (N.eq_dec (n_id n) x) as [e|ne].
      - apply Hx; auto.
      - apply PO; auto. cbv beta. rewrite Hz. apply N.eqb_neq in ne. now rewrite ne. }
    destruct (find_id x (s_nodes g)) as [n|] eqn:F.
    2: { split; [|split; [apply ExtN_refl|reflexivity]]. split; [|auto].
         apply Drop; auto. intros n Hn Hx. exfalso. apply find_id_none in F. apply F. rewrite <- Hx. now apply in_ids. }
    destruct (find_id_some _ _ _ F) as [Hn Hx].
    pose proof (ri_ref _ _ _ _ _ _ _ _ _ HR Hfo n Hn) as Er. rewrite Hx in Er.
    pose proof (hcount_nonneg x (s_handles g)). pose proof (rcount_nonneg n). pose proof (Hq x).
    destruct (Z.eqb_spec (n_ref n) 0) as [e|ne].
    - (* still zero: finalise in place *)
      assert (hcount x (s_handles g) = 0%Z /\ rcount n = 0%Z /\ q x = 0%Z) as (Hh0 & Hrc & Hq0) by lia.
      assert (resident n = false) as Hres by (unfold rcount in Hrc; destruct (resident n); [lia|auto]).
      unfold call_finalizer. rewrite F.
      change (dels_ev (n_dels n) (final_ev (n_val n) false (s_log g))) with (fin_log n false (s_log g)).
      unfold upd_node.
      set (gf := fun m : node => nd_dels [] (nd_val None (n_size m) m)).
      assert (Inv (fun y => (y =? x) || zr y) q (set_log (fin_log n false (s_log g)) (set_nodes (upd_id x gf (s_nodes g)) g))) as A.
      { apply (finalize_inplace _ q q g x n gf false); auto.
        - intro m; repeat split.
        - intros _. subst gf. cbn. split; lia. }
      split; [|split; [|reflexivity]].
      + split; [|split; [|split]]; [|unfold CapOk in *; exact Hcap|exact Hc|exact Hfo].
        apply Drop; auto. sred. intros m Hm Hmx Hpre. exfalso. apply in_upd in Hm. destruct Hm as (m0 & Hm0 & ->).
        assert (m0 = n) as ->.
        { destruct (N.eqb_spec (n_id m0) x) as [e0|ne0]; eapply same_id_eq; eauto; try apply (si_ids _ _ _ _ HS).
          - congruence.
          - cbn in Hmx. congruence. }
        rewrite Hx, N.eqb_refl in Hpre. subst gf. cbn in Hpre. destruct Hpre as [e0|[e0|e0]]; congruence.
      + unfold Ext. sred. apply ExtN_upd; [intro m; repeat split|]. intros m _ _. split; auto.
    - (* revived in the meantime: leave it to the holder that will see zero *)
      split; [|split; [apply ExtN_refl|reflexivity]]. split; [|auto].
      apply Drop; auto. intros m Hm Hmx _.
      assert (m = n) as -> by (eapply same_id_eq; eauto; [apply (si_ids _ _ _ _ HS)|congruence]). lia.
  Qed.

  (* the locked part of Evict on a cache that is not force-closed *)
  Lemma unlink_ok_c g x n l :
    Inv zr q g -> s_forced g = false -> In n (s_nodes g) -> n_id n = x -> n_lru n = LResident -> l <> LResident ->
    Inv zr (padd x 1 q)
      (set_used (s_used (order_remove x g) - Z.of_N (n_size n))%Z (upd_node x (nd_lru l) (order_remove x g))).
  Proof.
    intros H Hfo Hn Hx L Hl.
    pose proof H as [HS HR HL HP]. unfold InvS, InvR, InvL in *.
    assert (resident n = true) as Hres by (unfold resident; now rewrite L).
    assert (In x (s_order g)) as Hin by (apply (si_ord _ _ _ _ HS); exists n; auto).
    unfold order_remove. rewrite (proj2 (in_order_true x (s_order g)) Hin).
    split; unfold InvS, InvR, InvL; unfold upd_node; sred; auto.
    - apply SInv_unlink; auto.
    - eapply (RInv_upd zr q (padd x 1 q) _ _ _ _ _ _ _ _ x _ n); [exact HR|apply (si_ids _ _ _ _ HS)|exact Hn|exact Hx|auto with cache| | | | | | | ].
      + intro y. unfold padd. pose proof (Hq y). destruct (y =? x); lia.
      + intros y ne. now rewrite padd_other.
      + intros _. pose proof (ri_ref _ _ _ _ _ _ _ _ _ HR Hfo n Hn) as E. rewrite Hx in E. rewrite padd_same.
        unfold rcount in *. rewrite Hres in E. destruct l; try congruence; cbn; lia.
      + intros _ Hq' Hz. cbn in *. apply (ri_pos _ _ _ _ _ _ _ _ _ HR Hfo n Hn Hq' Hz).
      + intros _ Hh. cbn. apply (ri_hval _ _ _ _ _ _ _ _ _ HR Hfo n Hn). now rewrite Hx.
      + intros _. unfold scontrib. cbn. lia.
      + intros Hc'. cbn. apply (ri_size0 _ _ _ _ _ _ _ _ _ HR Hc' n Hn).
    - apply LInv_upd_same; auto with cache.
  Qed.

  Lemma step_evict_c g x g' new k :
    Inv zr (fun y => (q y + instr_ref y (IEvict x))%Z) g -> CapOk g -> s_closed g = true -> s_forced g = false ->
    exec (IEvict x) g = (g', new) ->
    postc g' new /\ Ext g g' /\ prefix_ok g' new k.
  Proof.
    intros H0 Hcap Hc Hfo E.
    assert (Inv zr q g) as H by (eapply Inv_pext; [|exact H0]; intro y; cbn; lia).
    cbn [exec] in E. unfold evict_locked in E.
    assert (postc g [] /\ Ext g g /\ prefix_ok g [] k) as Same.
    { split; [|split; [apply ExtN_refl|cbn; auto]].
      eapply postc_intro; [reflexivity|exact H| |exact Hcap|exact Hc|exact Hfo]. intro y. cbn. lia. }
    destruct (find_id x (s_nodes g)) as [n|] eqn:F; [|injection E as <- <-; exact Same].
    destruct (find_id_some _ _ _ F) as [Hn Hx].
    destruct (n_lru n) eqn:L; injection E as <- <-; try exact Same.
    pose proof (unlink_ok_c g x n LAbsent H Hfo Hn Hx L ltac:(discriminate)) as A.
    split; [|split; [eapply unlink_ext; eauto|cbn; auto]].
    eapply postc_intro; [reflexivity|exact A| |apply capok_unlink; exact Hcap| |].
    + intro y. unfold padd. cbn [decs map code_ref fold_right instr_ref]. rewrite (N.eqb_sym y x). destruct (x =? y); lia.
    + unfold order_remove. destruct (in_order x (s_order g)); unfold upd_node; sred; exact Hc.
    + unfold order_remove. destruct (in_order x (s_order g)); unfold upd_node; sred; exact Hfo.
  Qed.
End StepClosed.

(* ---------------------------------------------------------------- starting an operation on the closed cache *)

Lemma start_closed_ok zr q g o b g' code rl :
  (forall y, 0 <= q y)%Z -> Inv zr q g -> CapOk g -> s_closed g = true -> s_forced g = false ->
  start o b g = Some (g', code, rl) ->
  Inv zr (fun y => (q y + code_ref y code)%Z) g' /\ CapOk g' /\ s_closed g' = true /\ s_forced g' = false /\ Ext g g' /\
  code_ok g' code /\ (forall y, code_zero y code = false).
Proof.
  intros Hq H Hcap Hc Hfo E.
  assert (Inv zr (fun y => (q y + code_ref y [])%Z) g /\ CapOk g /\ s_closed g = true /\ s_forced g = false /\ Ext g g /\
          code_ok g [] /\ (forall y, code_zero y [] = false)) as Nop.
  { split; [|split; [|split; [|split; [|split; [|split]]]]]; auto; [|apply ExtN_refl|cbn; auto].
    eapply Inv_pext; [|exact H]. intro y. cbv beta. change (code_ref y []) with 0%Z. lia. }
  pose proof H as [HS HR HL HP]. unfold InvS, InvR, InvL in *.
  destruct o; cbn [start] in E; rewrite ?Hc in E; try (injection E as <- <- <-; exact Nop).
  - (* Release *)
    destruct (find (fun p => fst p =? h) (s_handles g)) as [[h' x]|] eqn:F; injection E as <- <- <-; [|exact Nop].
    destruct (find_handle_some _ _ _ F) as [Hin Hh]. cbn in Hh. subst h'. cbn [snd].
    split; [|split; [|split; [|split; [|split; [|split]]]]]; auto.
    + eapply Inv_pext with (p := padd x 1 q).
      * intro y. unfold padd. cbn. rewrite (N.eqb_sym y x). destruct (x =? y); lia.
      * split; unfold InvS, InvR, InvL; sred; auto. apply (RInv_hdel _ _ _ _ _ _ _ _ _ h x HR Hin).
    + unfold Ext. sred. apply ExtN_refl.
    + cbn. auto.
  - (* SetCapacity *)
    destruct (s_cacher g); [|injection E as <- <- <-; exact Nop].
    unfold run_evict_loop in E.
    destruct (evict_loop (s_order (set_cap c g)) (set_cap c g)) as [s1 ev] eqn:EL. injection E as <- <- <-.
    assert (Inv zr q (set_cap c g)) as H' by (split; auto).
    destruct (evict_loop_ok _ _ _ _ _ _ H' eq_refl EL) as (A & B & D).
    destruct D as (d1 & d2 & d3 & _).
    split; [|split; [|split; [|split; [|split; [|split]]]]]; auto.
    + eapply Inv_pext; [|exact A]. intro y. unfold padds. now rewrite code_ref_decs.
    + sred. congruence.
    + sred. congruence.
    + eapply Ext_trans; [|apply (evict_loop_ext _ _ _ _ _ _ H' eq_refl EL)]. unfold Ext. sred. apply ExtN_refl.
    + apply code_ok_decs.
    + intro y. apply code_zero_decs.
Qed.

(* Close(false): the flag *)
Lemma set_closed_inv zq p g :
  Inv zq p g -> s_closed g = false -> Inv zq p (set_closed true false g).
Proof.
  intros H Hc. pose proof (forced_false_of_open _ _ _ H Hc) as Hf.
  destruct H as [HS HR HL HP]. unfold InvS, InvR, InvL in *.
  split; unfold InvS, InvR, InvL; sred; auto.
  - rewrite Hc, Hf in HR. now apply RInv_close.
  - rewrite Hc in HL. now apply LInv_close.
Qed.

(* ---------------------------------------------------------------- the invariant of the LTS without force-close *)

Record LOkA (L : lstate) : Prop := {
  la_nd : NoDup (map fst (l_thr L));
  la_inv : Inv (zero_pending (l_thr L)) (pendf (l_thr L)) (l_g L);
  la_cap : CapOk (l_g L);
  la_forced : s_forced (l_g L) = false;
  la_code : forall p, In p (l_thr L) -> code_ok (l_g L) (t_code (snd p));
  la_w : Wok (l_thr L);
  la_q : s_closed (l_g L) = true -> Qok (l_thr L) }.

Lemma LOkA_open L : LOkA L -> s_closed (l_g L) = false -> LOk L.
Proof. intros [A B C D E F G] Hc. split; auto. Qed.

Lemma LOk_A L : LOk L -> Wok (l_thr L) -> LOkA L.
Proof.
  intros [A B C D E] W. split; auto.
  - apply (forced_false_of_open _ _ _ B D).
  - intro Hc. congruence.
Qed.

(* installing new code for goroutine t on a closed cache *)
Lemma lok_update_c L t newc rl g' :
  LOkA L -> Qok (others t (l_thr L)) ->
  Inv (fun y => code_zero y newc || zero_pending (others t (l_thr L)) y)
      (fun y => (pend_ref y (others t (l_thr L)) + code_ref y newc)%Z) g' ->
  CapOk g' -> s_closed g' = true -> s_forced g' = false -> Ext (l_g L) g' -> code_ok g' newc ->
  all_ext newc = true ->
  LOkA (mkL g' (set_thr t (mkThread newc rl) (l_thr L))).
Proof.
  intros [ND HI HC HF HK HW HQ] QO H' C' O' F' E' K' X'. destruct L as [g thr]. cbn [l_g l_thr] in *.
  assert (Inv (zero_pending (set_thr t (mkThread newc rl) thr)) (pendf (set_thr t (mkThread newc rl) thr)) g') as HI'.
  { eapply Inv_zq_ext; [|eapply Inv_pext; [|exact H']].
    - intro y. rewrite zero_pending_set. reflexivity.
    - intro y. unfold pendf. rewrite pend_ref_set. cbn [t_code]. lia. }
  split; cbn [l_g l_thr]; auto.
  - now apply nodup_set.
  - intros p Hp. apply in_set_thr in Hp. destruct Hp as [->|Hp]; [exact K'|].
    eapply code_ok_step_ext; [exact E'|apply QO; exact Hp|apply HK; eapply others_sub; eauto].
  - intros p Hp Hr. apply in_set_thr in Hp. destruct Hp as [->|Hp]; [exact X'|]. apply QO; auto.
  - intros _ p Hp. apply in_set_thr in Hp. destruct Hp as [->|Hp]; [exact X'|]. apply QO; auto.
Qed.

Lemma Qok_others t l : Qok l -> Qok (others t l).
Proof. intros Q p Hp. apply Q. eapply others_sub; eauto. Qed.

Lemma lstep_c_o L a : is_close a = false -> lstep_c L a = lstep_o L a.
Proof. intro H. unfold lstep_c, lstep_o. rewrite H. destruct a as [t o|t]; [destruct o; cbn in *; try reflexivity; discriminate|reflexivity]. Qed.

Theorem loka_step L a L' : LOkA L -> lstep_c L a = Some L' -> LOkA L'.
Proof.
  intros OK E. pose proof OK as [ND HI HC HF HK HW HQ].
  assert (Wok (l_thr L')) as W'.
  { unfold lstep_c in E. destruct (is_force_close a); [discriminate|]. eapply Wok_lstep; eauto. }
  destruct (s_closed (l_g L)) eqn:Hc.
  2: { (* open cache *)
       destruct (is_close a) eqn:IC.
       - (* Close(false) starts *)
         destruct a as [t o|t]; [|discriminate]. destruct o; try discriminate.
         unfold lstep_c in E. destruct force; [discriminate|]. cbn [is_force_close] in E.
         destruct L as [g thr]. cbn [lstep l_g l_thr] in *.
         destruct (t_code (get_thr t thr)) eqn:Code; [|discriminate].
         cbn [start] in E. rewrite Hc in E. destruct (rlocked_other t thr) eqn:RO; [discriminate|].
         injection E as <-.
         assert (Qok (others t thr)) as QO.
         { intros p Hp. destruct (get_thr_in _ _ _ Hp) as [Hin Hne].
           unfold rlocked_other in RO. assert (negb (fst p =? t) && holds_rlock (snd p) = false) as RP.
           { destruct (negb (fst p =? t) && holds_rlock (snd p)) eqn:X; auto.
             assert (existsb (fun p => negb (fst p =? t) && holds_rlock (snd p)) thr = true) as Y by (apply existsb_exists; eauto). congruence. }
           apply N.eqb_neq in Hne. rewrite Hne in RP. cbn in RP. unfold holds_rlock in RP.
           destruct (t_rl (snd p)) eqn:RL; [|apply HW; auto].
           cbn in RP. destruct (t_code (snd p)); [reflexivity|discriminate]. }
         assert (Inv (zero_pending (others t thr)) (fun y => pend_ref y (others t thr)) g) as H0.
         { eapply Inv_zq_ext; [|eapply Inv_pext; [|exact HI]].
           - intro y. rewrite (zero_pending_others y t thr ND), Code. reflexivity.
           - intro y. unfold pendf. rewrite (pend_ref_others y t thr ND), Code. cbn. lia. }
         apply (lok_update_c (mkL g thr) t _ false (set_closed true false g) OK QO); auto.
         + eapply Inv_zq_ext; [|eapply Inv_pext; [|apply set_closed_inv; [exact H0|exact Hc]]].
           * intro y. cbn [l_thr]. destruct (s_cacher g); [rewrite code_zero_evicts|]; reflexivity.
           * intro y. cbn [l_thr]. destruct (s_cacher g); [rewrite code_ref_evicts|cbn]; lia.
         + unfold Ext. sred. cbn [l_g]. split; [lia|]. split; [auto|]. intros m' Hm' _. exists m'. repeat split; auto.
         + destruct (s_cacher g); [apply code_ok_evicts|cbn; auto].
         + destruct (s_cacher g); [apply all_ext_evicts|reflexivity].
       - rewrite (lstep_c_o L a IC) in E. apply LOk_A; auto. eapply lok_step; [apply LOkA_open; eauto|exact E]. }
  (* closed cache *)
  specialize (HQ eq_refl). unfold lstep_c in E. destruct (is_force_close a); [discriminate|].
  destruct L as [g thr]. cbn [l_g l_thr] in *.
  destruct a as [t o|t]; cbn [lstep l_g l_thr] in E.
  - destruct (t_code (get_thr t thr)) eqn:Code; [|discriminate].
    destruct (start o (rlocked_other t thr) g) as [[[g' code] rl]|] eqn:St; [|discriminate]. injection E as <-.
    assert (Inv (zero_pending (others t thr)) (fun y => pend_ref y (others t thr)) g) as H0.
    { eapply Inv_zq_ext; [|eapply Inv_pext; [|exact HI]].
      - intro y. rewrite (zero_pending_others y t thr ND), Code. reflexivity.
      - intro y. unfold pendf. rewrite (pend_ref_others y t thr ND), Code. cbn. lia. }
    destruct (start_closed_ok _ _ g o _ g' code rl (fun y => pend_ref_nonneg y _) H0 HC Hc HF St) as (A & B & C & D & X & K & Z).
    apply (lok_update_c (mkL g thr) t code rl g' OK (Qok_others t thr HQ)); auto.
    + eapply Inv_zq_ext; [|exact A]. intro y. cbn [l_thr]. now rewrite Z.
    + apply (start_closed_shape o _ g g' code rl Hc St).
  - destruct (t_code (get_thr t thr)) as [|i k] eqn:Code; [discriminate|].
    destruct (exec i g) as [g' new] eqn:Ex. injection E as <-.
    assert (In (t, get_thr t thr) thr) as Hin by (apply get_thr_code_in; auto; rewrite Code; discriminate).
    pose proof (HK _ Hin) as CK. cbn [snd] in CK. rewrite Code in CK. destruct CK as [Ci Ck].
    pose proof (HQ _ Hin) as XK. cbn [snd] in XK. rewrite Code in XK. cbn [all_ext forallb] in XK.
    apply andb_true_iff in XK. destruct XK as [Xi Xk].
    set (q := fun y => (code_ref y k + pend_ref y (others t thr))%Z).
    set (zr := fun y => code_zero y k || zero_pending (others t thr) y).
    assert (forall y, 0 <= q y)%Z as Hq.
    { intro y. subst q. cbv beta. pose proof (code_ref_nonneg y k). pose proof (pend_ref_nonneg y (others t thr)). lia. }
    assert (forall y, pendf thr y = (q y + instr_ref y i)%Z) as Pq.
    { intro y. unfold pendf. rewrite (pend_ref_others y t thr ND), Code, code_ref_cons. subst q. cbv beta. lia. }
    assert (forall y, zero_pending thr y = is_zero y i || zr y) as Zq.
    { intro y. rewrite (zero_pending_others y t thr ND), Code. subst zr. cbn [code_zero existsb]. now rewrite orb_assoc. }
    assert (forall (P : postc zr q g' new) (X : Ext g g') (F : prefix_ok g' new k),
              LOkA (mkL g' (set_thr t (mkThread (new ++ k) (t_rl (get_thr t thr))) thr))) as Finish.
    { intros (A & B & C & D) X F. apply (lok_update_c (mkL g thr) t (new ++ k) _ g' OK (Qok_others t thr HQ)); auto.
      - eapply Inv_zq_ext; [|eapply Inv_pext; [|exact A]].
        + intro y. cbn [l_thr]. subst zr. cbv beta. rewrite code_zero_app, orb_assoc. reflexivity.
        + intro y. cbn [l_thr]. subst q. cbv beta. rewrite code_ref_app. lia.
      - apply code_ok_app; auto. eapply code_ok_step_ext; eauto.
      - rewrite all_ext_app. apply andb_true_iff. split; auto. eapply exec_ext; eauto. }
    assert (~ (exists x a b c, i = IZero x a b c) -> Inv zr (fun y => (q y + instr_ref y i)%Z) g) as NZ.
    { intro Hn. eapply Inv_zq_ext; [|eapply Inv_pext; [exact Pq|exact HI]].
      intro y. rewrite Zq. destruct i; cbn; auto. exfalso. apply Hn. eauto 6. }
    destruct i; cbn [ext_only] in Xi; try discriminate.
    + destruct ext; [|discriminate].
      destruct (step_dec_c zr q Hq g x g' new k) as (P & X & F); auto. apply NZ. intros (? & ? & ? & ? & e); discriminate.
    + destruct ext; [|discriminate].
      assert (Inv (fun y => (y =? x) || zr y) q g) as HZ.
      { eapply Inv_zq_ext; [|eapply Inv_pext; [|exact HI]].
        - intro y. rewrite Zq. cbn [is_zero]. rewrite (N.eqb_sym x y). reflexivity.
        - intro y. rewrite Pq. cbn [instr_ref]. lia. }
      destruct (step_zero_c zr q Hq g x ns key g' new HZ HC Hc HF Ex) as ((A & B & C & D) & X & ->).
      apply Finish; [|exact X|cbn; auto]. split; [|split; [|split]]; auto.
      eapply Inv_zq_ext; [|eapply Inv_pext; [|exact A]]; intro y; cbn; auto. lia.
    + destruct (step_evict_c zr q Hq g x g' new k) as (P & X & F); auto. apply NZ. intros (? & ? & ? & ? & e); discriminate.
Qed.

Lemma linit_oka cacher cap : LOkA (linit cacher cap).
Proof. apply LOk_A; [apply linit_ok|]. intros p []. Qed.

Theorem lreach_c_ok L : lreach_c L -> LOkA L.
Proof. induction 1; [apply linit_oka|eapply loka_step; eauto]. Qed.

Lemma lreach_o_c L : lreach_o L -> lreach_c L.
Proof.
  induction 1; [constructor|]. eapply lc_step; [eassumption|].
  unfold lstep_o in H0. unfold lstep_c. destruct (is_close a) eqn:IC; [discriminate|].
  assert (is_force_close a = false) as -> by (destruct a as [t o|t]; [destruct o; cbn in *; auto; discriminate|reflexivity]).
  exact H0.
Qed.

(* ---------------------------------------------------------------- the C17 statements over all interleavings
   of all operations except force-close *)
Section LtsC.
  Variable L : lstate.
  Hypothesis R : lreach_c L.
  Let OK : LOkA L := lreach_c_ok L R.
  Let HI := la_inv L OK.
  Let HF := la_forced L OK.
  Let g := l_g L.

  Theorem one_live_value_ltc :
    forall h1 h2 n1 n2, handle_node g h1 = Some n1 -> handle_node g h2 = Some n2 -> keyof n1 = keyof n2 ->
      n1 = n2 /\
      exists v, handle_value g h1 = Some v /\ handle_value g h2 = Some v /\
                ccn (n_id n1) (s_log g) = 1%nat /\ ccv v (s_log g) = 1%nat /\ cf v (s_log g) = 0%nat.
  Proof. apply (one_live_value_gen _ _ _ HI). exact HF. Qed.

  Theorem construct_once_ltc : forall x v, (ccn x (s_log g) <= 1)%nat /\ (ccv v (s_log g) <= 1)%nat.
  Proof. apply (construct_once_gen _ _ _ HI). Qed.

  Theorem finalise_at_most_once_ltc : forall v, (cf v (s_log g) <= 1)%nat.
  Proof. apply (finalise_at_most_once_gen _ _ _ HI). Qed.

  Theorem finalise_not_early_ltc :
    forall x v sz, In (EvConstruct x v sz) (s_log g) -> (1 <= cf v (s_log g))%nat -> handles_on x (s_handles g) = 0%nat.
  Proof. apply (finalise_not_early_gen _ _ _ HI). exact HF. Qed.

  Theorem finalise_or_live_ltc :
    forall x v sz, In (EvConstruct x v sz) (s_log g) ->
      cf v (s_log g) = 1%nat \/ (cf v (s_log g) = 0%nat /\ exists n, In n (s_nodes g) /\ n_id n = x /\ n_val n = Some v).
  Proof. apply (finalise_or_live_gen _ _ _ HI). Qed.

  Theorem delfunc_at_most_once_ltc : forall d, (cdr d (s_log g) <= 1)%nat.
  Proof. apply (delfunc_at_most_once_gen _ _ _ HI). Qed.

  Theorem delfunc_not_early_ltc :
    forall d x, In (EvDelReg d x) (s_log g) -> (1 <= cdr d (s_log g))%nat -> handles_on x (s_handles g) = 0%nat.
  Proof. apply (delfunc_not_early_gen _ _ _ HI). exact HF. Qed.

  Theorem delfunc_ran_or_pending_ltc :
    forall d, d < s_next_did g ->
      cdr d (s_log g) = 1%nat \/ (cdr d (s_log g) = 0%nat /\ exists n, In n (s_nodes g) /\ In d (n_dels n)).
  Proof. apply (delfunc_ran_or_pending_gen _ _ _ HI). Qed.

  Theorem capacity_respected_ltc : s_used g = used_sum (s_nodes g) /\ (s_used g <= Z.of_N (s_cap g))%Z.
  Proof. split; [apply (used_exact_gen _ _ _ HI)|apply (la_cap L OK)]. Qed.

  Theorem lru_list_exact_ltc :
    NoDup (s_order g) /\ forall x, In x (s_order g) <-> exists n, In n (s_nodes g) /\ n_id n = x /\ resident n = true.
  Proof. apply (lru_list_exact_gen _ _ _ HI). Qed.

  Theorem unique_keys_ltc : NoDup (map keyof (s_nodes g)).
  Proof. apply (unique_keys_gen _ _ _ HI). Qed.

  Theorem ref_census_ltc :
    forall n, In n (s_nodes g) ->
      n_ref n = (Z.of_nat (handles_on (n_id n) (s_handles g)) + (if resident n then 1 else 0) + pend_ref (n_id n) (l_thr L))%Z
      /\ (0 <= n_ref n)%Z.
  Proof. apply (ref_census_gen _ _ _ HI). exact HF. Qed.

  (* on the open cache a node with count 0, and on the closed cache a node with count 0 that still has a
     value or a delFunc, is waiting for its zero-check *)
  Theorem zero_ref_is_pending_ltc :
    forall n, In n (s_nodes g) -> n_ref n = 0%Z -> (s_closed g = false \/ n_val n <> None \/ n_dels n <> []) ->
      zero_pending (l_thr L) (n_id n) = true.
  Proof.
    intros n Hn Hr Hq. destruct (zero_pending (l_thr L) (n_id n)) eqn:Z; auto. exfalso.
    pose proof (inv_r _ _ _ HI) as HR. unfold InvR in HR.
    pose proof (ri_pos _ _ _ _ _ _ _ _ _ HR HF n Hn Hq Z). fold g in H. lia.
  Qed.

  Theorem no_panic_ltc : s_panic g = false.
  Proof. apply (no_panic_flag_gen _ _ _ HI). Qed.

  Theorem never_forced_ltc : s_forced g = false.
  Proof. exact HF. Qed.
End LtsC.
