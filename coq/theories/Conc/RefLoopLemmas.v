(* Conc/RefLoopLemmas.v — basic facts about the list maps/sets of Conc/RefLoop.v, the boolean checks
   of the environment protocol, and the counter arithmetic of addFileRef / applyDelta. *)
From Coq Require Import NArith List Bool Lia.
From GL Require Import Conc.RefLoop.
Import ListNotations.
Open Scope N_scope.

(* ---------- maps ---------- *)

Section MapFacts.
  Context {V : Type}.
  Implicit Types (m : list (N * V)) (k : N).

  Lemma mget_mdel_eq : forall m k, mget (mdel m k) k = None.
  Proof.
    induction m as [|[k' v] m IH]; intros k; cbn; auto.
    destruct (k' =? k) eqn:E; auto. cbn. rewrite E. auto.
  Qed.

  Lemma mget_mdel_neq : forall m k k', k <> k' -> mget (mdel m k) k' = mget m k'.
  Proof.
    induction m as [|[k0 v] m IH]; intros k k' Hne; cbn; auto.
    destruct (k0 =? k) eqn:E.
    - apply N.eqb_eq in E; subst. destruct (k =? k') eqn:E2; [apply N.eqb_eq in E2; congruence|]. auto.
    - cbn. destruct (k0 =? k'); auto.
  Qed.

  Lemma mget_mset_eq : forall m k v, mget (mset m k v) k = Some v.
  Proof. intros. unfold mset. cbn. rewrite N.eqb_refl. reflexivity. Qed.

  Lemma mget_mset_neq : forall m k k' v, k <> k' -> mget (mset m k v) k' = mget m k'.
  Proof.
    intros. unfold mset. cbn. destruct (k =? k') eqn:E; [apply N.eqb_eq in E; congruence|].
    apply mget_mdel_neq; auto.
  Qed.

  Lemma mdel_length_le : forall m k, (length (mdel m k) <= length m)%nat.
  Proof. induction m as [|[k' v] m IH]; intros; cbn; auto. destruct (k' =? k); cbn; specialize (IH k); lia. Qed.

  Lemma mdel_length_lt : forall m k v, mget m k = Some v -> (length (mdel m k) < length m)%nat.
  Proof.
    induction m as [|[k' v'] m IH]; intros k v H; cbn in *; [discriminate|].
    destruct (k' =? k) eqn:E.
    - pose proof (mdel_length_le m k). lia.
    - cbn. specialize (IH k v H). lia.
  Qed.

  Lemma mhas_true : forall m k, mhas m k = true <-> exists v, mget m k = Some v.
  Proof. intros. unfold mhas. destruct (mget m k); split; intros; eauto; try discriminate. destruct H; discriminate. Qed.

  Lemma mhas_false : forall m k, mhas m k = false <-> mget m k = None.
  Proof. intros. unfold mhas. destruct (mget m k); split; intros; auto; discriminate. Qed.
End MapFacts.

(* ---------- sets ---------- *)

Lemma smem_In : forall s k, smem s k = true <-> In k s.
Proof.
  induction s as [|x s IH]; intros k; cbn; [split; [discriminate|tauto]|].
  rewrite orb_true_iff, IH, N.eqb_eq. tauto.
Qed.

Lemma smem_nIn : forall s k, smem s k = false <-> ~ In k s.
Proof. intros. rewrite <- smem_In. destruct (smem s k); split; intros; congruence. Qed.

Lemma smem_sdel_eq : forall s k, smem (sdel s k) k = false.
Proof. induction s as [|x s IH]; intros; cbn; auto. destruct (x =? k) eqn:E; auto. cbn. rewrite E. cbn. auto. Qed.

Lemma smem_sdel_neq : forall s k k', k <> k' -> smem (sdel s k) k' = smem s k'.
Proof.
  induction s as [|x s IH]; intros k k' Hne; cbn; auto.
  destruct (x =? k) eqn:E.
  - apply N.eqb_eq in E; subst. destruct (k =? k') eqn:E2; [apply N.eqb_eq in E2; congruence|]. cbn. auto.
  - cbn. rewrite IH; auto.
Qed.

Lemma smem_sadd_eq : forall s k, smem (sadd s k) k = true.
Proof. intros. unfold sadd. destruct (smem s k) eqn:E; auto. cbn. rewrite N.eqb_refl. auto. Qed.

Lemma smem_sadd_neq : forall s k k', k <> k' -> smem (sadd s k) k' = smem s k'.
Proof.
  intros. unfold sadd. destruct (smem s k); auto. cbn.
  destruct (k =? k') eqn:E; [apply N.eqb_eq in E; congruence|]. auto.
Qed.

Lemma sdel_length_le : forall s k, (length (sdel s k) <= length s)%nat.
Proof. induction s as [|x s IH]; intros; cbn; auto. destruct (x =? k); cbn; specialize (IH k); lia. Qed.

Lemma sdel_length_lt : forall s k, smem s k = true -> (length (sdel s k) < length s)%nat.
Proof.
  induction s as [|x s IH]; intros k H; cbn in *; [discriminate|].
  destruct (x =? k) eqn:E.
  - pose proof (sdel_length_le s k). lia.
  - cbn in *. specialize (IH k H). lia.
Qed.

(* ---------- boolean checks ---------- *)

Lemma nodupb_NoDup : forall l, nodupb l = true <-> NoDup l.
Proof.
  induction l as [|x l IH]; cbn; [split; auto; constructor|].
  rewrite andb_true_iff, negb_true_iff, smem_nIn, IH. split.
  - intros [? ?]; constructor; auto.
  - intros H; inversion H; auto.
Qed.

Lemma inclb_incl : forall a b, inclb a b = true <-> incl a b.
Proof.
  intros. unfold inclb. rewrite forallb_forall. unfold incl.
  split; intros H x Hx; specialize (H x Hx); apply smem_In; auto.
Qed.

Lemma disjb_spec : forall a b, disjb a b = true <-> (forall x, In x a -> ~ In x b).
Proof.
  intros. unfold disjb. rewrite forallb_forall.
  split; intros H x Hx; specialize (H x Hx).
  - apply negb_true_iff in H. apply smem_nIn; auto.
  - apply negb_true_iff. apply smem_nIn; auto.
Qed.

Lemma ldiff_In : forall a b x, In x (ldiff a b) <-> In x a /\ ~ In x b.
Proof. intros. unfold ldiff. rewrite filter_In, negb_true_iff, smem_nIn. tauto. Qed.

Lemma ldiff_NoDup : forall a b, NoDup a -> NoDup (ldiff a b).
Proof. intros. unfold ldiff. apply NoDup_filter; auto. Qed.

Lemma leqb_eq : forall a b, leqb a b = true <-> a = b.
Proof.
  induction a as [|x a IH]; destruct b as [|y b]; cbn; try (split; [discriminate|congruence]); [tauto|].
  rewrite andb_true_iff, N.eqb_eq, IH. split; [intros [? ?]; subst; auto|intros H; inversion H; auto].
Qed.

(* ---------- counters ---------- *)

Definition ind (l : list N) (f : N) : N := if smem l f then 1 else 0.

Lemma ind_In : forall l f, In f l -> ind l f = 1.
Proof. intros. unfold ind. apply smem_In in H. rewrite H. reflexivity. Qed.

Lemma ind_nIn : forall l f, ~ In f l -> ind l f = 0.
Proof. intros. unfold ind. apply smem_nIn in H. rewrite H. reflexivity. Qed.

Lemma ind_le1 : forall l f, ind l f <= 1.
Proof. intros. unfold ind. destruct (smem l f); lia. Qed.

Lemma ind_cases : forall l f, (In f l /\ ind l f = 1) \/ (~ In f l /\ ind l f = 0).
Proof.
  intros. destruct (smem l f) eqn:E.
  - left. apply smem_In in E. split; auto. apply ind_In; auto.
  - right. apply smem_nIn in E. split; auto. apply ind_nIn; auto.
Qed.

Lemma cnt_mset_eq : forall fr f c, cnt (mset fr f c) f = c.
Proof. intros. unfold cnt. rewrite mget_mset_eq. reflexivity. Qed.

Lemma cnt_mset_neq : forall fr f g c, f <> g -> cnt (mset fr f c) g = cnt fr g.
Proof. intros. unfold cnt. rewrite mget_mset_neq; auto. Qed.

Lemma cnt_mdel_eq : forall fr f, cnt (mdel fr f) f = 0.
Proof. intros. unfold cnt. rewrite mget_mdel_eq. reflexivity. Qed.

Lemma cnt_mdel_neq : forall fr f g, f <> g -> cnt (mdel fr f) g = cnt fr g.
Proof. intros. unfold cnt. rewrite mget_mdel_neq; auto. Qed.

Lemma add_all_cnt : forall l fr f, NoDup l -> cnt (add_all fr l) f = cnt fr f + ind l f.
Proof.
  induction l as [|t l IH]; intros fr f ND; cbn.
  - unfold ind; cbn. lia.
  - inversion ND as [|? ? Hn ND']; subst. rewrite IH by auto.
    destruct (N.eq_dec t f) as [->|Hne].
    + rewrite cnt_mset_eq. rewrite (ind_nIn l f Hn). rewrite (ind_In (f :: l) f) by (left; auto). lia.
    + rewrite cnt_mset_neq by auto. unfold ind. cbn.
      destruct (t =? f) eqn:E; [apply N.eqb_eq in E; congruence|]. cbn. reflexivity.
Qed.

(* release of one reference each for the tables of a duplicate-free list that all have one *)
Lemma del_all_spec : forall l fr,
  NoDup l -> (forall f, In f l -> 1 <= cnt fr f) ->
  exists fr' rm, del_all fr l = Ok (fr', rm)
    /\ (forall f, cnt fr' f + ind l f = cnt fr f)
    /\ (forall f, In f rm <-> In f l /\ cnt fr' f = 0)
    /\ NoDup rm.
Proof.
  induction l as [|t l IH]; intros fr ND Hpos; cbn.
  - exists fr, []. split; [reflexivity|]. split; [intros; unfold ind; cbn; lia|].
    split; [intros f; cbn; tauto|constructor].
  - inversion ND as [|? ? Hn ND']; subst.
    assert (Ht : 1 <= cnt fr t) by (apply Hpos; left; auto).
    unfold addFileRef.
    destruct (cnt fr t =? 0) eqn:E0; [apply N.eqb_eq in E0; lia|].
    destruct (cnt fr t =? 1) eqn:E1.
    + apply N.eqb_eq in E1.
      destruct (IH (mdel fr t) ND') as (fr' & rm & Hd & Hc & Hr & Hnd).
      { intros f Hf. rewrite cnt_mdel_neq; [apply Hpos; right; auto|]. intros ->; contradiction. }
      rewrite Hd. exists fr', (t :: rm).
      assert (Hct : cnt fr' t = 0).
      { specialize (Hc t). rewrite cnt_mdel_eq in Hc. rewrite (ind_nIn l t Hn) in Hc. lia. }
      split; [reflexivity|]. split; [|split].
      * intros f. specialize (Hc f). destruct (N.eq_dec t f) as [->|Hne].
        -- rewrite (ind_In (f :: l) f) by (left; auto). lia.
        -- rewrite cnt_mdel_neq in Hc by auto. unfold ind in *. cbn.
           destruct (t =? f) eqn:E; [apply N.eqb_eq in E; congruence|]. cbn. auto.
      * intros f; split.
        -- intros [<-|Hin]; [split; [left; auto|auto]|]. apply Hr in Hin. destruct Hin as [Hi Hz]; split; [right; exact Hi|exact Hz].
        -- intros [[<-|Hin] Hz]; [left; auto|]. right. apply Hr. auto.
      * constructor; auto. intros Hin. apply Hr in Hin. destruct Hin; contradiction.
    + apply N.eqb_neq in E1.
      destruct (IH (mset fr t (cnt fr t - 1)) ND') as (fr' & rm & Hd & Hc & Hr & Hnd).
      { intros f Hf. rewrite cnt_mset_neq; [apply Hpos; right; auto|]. intros ->; contradiction. }
      rewrite Hd. exists fr', rm.
      assert (Hct : cnt fr' t = cnt fr t - 1).
      { specialize (Hc t). rewrite cnt_mset_eq in Hc. rewrite (ind_nIn l t Hn) in Hc. lia. }
      destruct (cnt fr t - 1 =? 0) eqn:E2; [apply N.eqb_eq in E2; lia|].
      split; [reflexivity|]. split; [|split]; auto.
      * intros f. specialize (Hc f). destruct (N.eq_dec t f) as [->|Hne].
        -- rewrite (ind_In (f :: l) f) by (left; auto). lia.
        -- rewrite cnt_mset_neq in Hc by auto. unfold ind in *. cbn.
           destruct (t =? f) eqn:E; [apply N.eqb_eq in E; congruence|]. cbn. auto.
      * intros f; split.
        -- intros Hin. apply Hr in Hin. destruct Hin as [Hi Hz]; split; [right; exact Hi|exact Hz].
        -- intros [[<-|Hin] Hz]; [lia|]. apply Hr. auto.
Qed.

Lemma applyDelta_spec : forall fr a d,
  NoDup a -> NoDup d -> (forall f, In f d -> 1 <= cnt fr f + ind a f) ->
  exists fr' rm, applyDelta fr {| d_added := a; d_deleted := d |} = Ok (fr', rm)
    /\ (forall f, cnt fr' f + ind d f = cnt fr f + ind a f)
    /\ (forall f, In f rm <-> In f d /\ cnt fr' f = 0)
    /\ NoDup rm.
Proof.
  intros fr a d NDa NDd Hpos. unfold applyDelta. cbn.
  destruct (del_all_spec d (add_all fr a) NDd) as (fr' & rm & Hd & Hc & Hr & Hnd).
  { intros f Hf. rewrite add_all_cnt by auto. auto. }
  exists fr', rm. split; [exact Hd|]. split; [|split]; auto.
  intros f. rewrite Hc. apply add_all_cnt; auto.
Qed.
