(* Conc/CacheInv.v — the invariants of the cache model, stated on the components they depend on,
   and their preservation by the primitive updates.  Proof file. *)
From GL Require Import Conc.Cache Conc.CacheLemmas.
From Coq Require Import Lia Permutation.

Definition rcount (n : node) : Z := if resident n then 1%Z else 0%Z.

(* in-flight references: references held by an operation in progress (the local variable n of
   Get/Delete/Evict, the lru handles collected in 'evicted' and not yet released) *)
Definition padd (x : N) (k : Z) (p : N -> Z) : N -> Z := fun y => if y =? x then (p y + k)%Z else p y.
Definition p0 : N -> Z := fun _ => 0%Z.

Lemma padd_same x k p : padd x k p x = (p x + k)%Z.
Proof. unfold padd. now rewrite N.eqb_refl. Qed.
Lemma padd_other x k p y : y <> x -> padd x k p y = p y.
Proof. unfold padd. intro H. apply N.eqb_neq in H. now rewrite H. Qed.

(* ---------------------------------------------------------------- structure: map + lru list *)

Record SInv (nodes : list node) (order : list N) (used : Z) (nn : N) : Prop := {
  si_keys : NoDup (map keyof nodes);
  si_ids : NoDup (ids nodes);
  si_fresh : forall n, In n nodes -> n_id n < nn;
  si_ord_nd : NoDup order;
  si_ord : forall x, In x order <-> exists n, In n nodes /\ n_id n = x /\ resident n = true;
  si_used : used = nsum ucontrib nodes;
  si_resval : forall n, In n nodes -> resident n = true -> n_val n <> None }.

Definition InvS (s : state) : Prop := SInv (s_nodes s) (s_order s) (s_used s) (s_next_nid s).

Lemma SInv_find_id nodes order used nn x n :
  SInv nodes order used nn -> (find_id x nodes = Some n <-> In n nodes /\ n_id n = x).
Proof. intro H. apply find_id_some_iff, H. Qed.

Lemma SInv_same_id nodes order used nn n m :
  SInv nodes order used nn -> In n nodes -> In m nodes -> n_id n = n_id m -> n = m.
Proof.
  intros H Hn Hm E. pose proof (find_id_in nodes n (si_ids _ _ _ _ H) Hn) as A.
  pose proof (find_id_in nodes m (si_ids _ _ _ _ H) Hm) as B. rewrite E in A. congruence.
Qed.

Lemma SInv_find_key nodes order used nn n :
  SInv nodes order used nn -> In n nodes -> find_key (n_ns n) (n_key n) nodes = Some n.
Proof. intros H Hn. apply find_key_in; auto. apply H. Qed.

(* updating one node without touching its lru state, its contribution to used, nor making a
   resident node valueless *)
Lemma SInv_upd nodes order used nn x f n :
  SInv nodes order used nn -> In n nodes -> n_id n = x -> pres f ->
  resident (f n) = resident n -> ucontrib (f n) = ucontrib n ->
  (resident n = true -> n_val (f n) <> None) ->
  SInv (upd_id x f nodes) order used nn.
Proof.
  intros H Hn Hx Hf Hr Hu Hv. destruct H as [K I F ON O U RV]. split; auto.
  - now rewrite keys_upd.
  - now rewrite ids_upd.
  - intros m Hm. apply in_upd in Hm. destruct Hm as (m0 & Hm0 & ->).
    destruct (n_id m0 =? x); [rewrite (proj1 (Hf m0))|]; auto.
  - intro y. rewrite O. split; intros (m & Hm & Hy & Hres).
    + destruct (N.eq_dec (n_id m) x) as [e|ne].
      * assert (m = n) as -> by (eapply SInv_same_id; eauto; [split; eauto|congruence]).
        exists (f n). split; [now apply in_upd_same|]. rewrite (proj1 (Hf n)). split; congruence.
      * exists m. split; auto. now apply in_upd_other.
    + apply in_upd in Hm. destruct Hm as (m0 & Hm0 & ->).
      destruct (N.eqb_spec (n_id m0) x) as [e|ne].
      * assert (m0 = n) as -> by (eapply SInv_same_id; eauto; [split; eauto|congruence]).
        exists n. rewrite (proj1 (Hf n)) in Hy. split; auto. split; congruence.
      * exists m0. auto.
  - rewrite (nsum_upd ucontrib x f nodes n); auto. lia.
  - intros m Hm Hres. apply in_upd in Hm. destruct Hm as (m0 & Hm0 & ->).
    destruct (N.eqb_spec (n_id m0) x) as [e|ne]; auto.
    assert (m0 = n) as -> by (eapply SInv_same_id; eauto; [split; eauto|congruence]).
    apply Hv. congruence.
Qed.

Lemma remove_order_head x l : NoDup (x :: l) -> remove_order x (x :: l) = l.
Proof.
  intro H. inversion H; subst. unfold remove_order. cbn. rewrite N.eqb_refl. cbn.
  apply filter_all_id. intros y Hy. apply negb_true_iff, N.eqb_neq. intro; subst; tauto.
Qed.

(* a resident node leaves the lru list (eviction, ban) *)
Lemma SInv_unlink nodes order used nn x l n :
  SInv nodes order used nn -> In n nodes -> n_id n = x -> resident n = true -> l <> LResident ->
  SInv (upd_id x (nd_lru l) nodes) (remove_order x order) (used - Z.of_N (n_size n))%Z nn.
Proof.
  intros H Hn Hx Hres Hl. pose proof H as [K I F ON O U RV].
  assert (resident (nd_lru l n) = false) as Hres'.
  { unfold resident. cbn. destruct l; auto. congruence. }
  split; auto.
  - rewrite keys_upd; auto with cache.
  - rewrite ids_upd; auto with cache.
  - intros m Hm. apply in_upd in Hm. destruct Hm as (m0 & Hm0 & ->).
    destruct (n_id m0 =? x); cbn; auto.
  - now apply nodup_remove_order.
  - intro y. rewrite in_remove_order, O. split.
    + intros ((m & Hm & Hy & Hr) & Hne). exists m. split; auto. apply in_upd_other; auto. congruence.
    + intros (m & Hm & Hy & Hr). apply in_upd in Hm. destruct Hm as (m0 & Hm0 & ->).
      destruct (N.eqb_spec (n_id m0) x) as [e|ne].
      * assert (m0 = n) as -> by (eapply SInv_same_id; eauto; congruence). congruence.
      * split; [exists m0; auto|congruence].
  - rewrite (nsum_upd ucontrib x _ nodes n); auto.
    unfold ucontrib at 3. rewrite Hres'. unfold ucontrib at 2. rewrite Hres. lia.
  - intros m Hm Hr. apply in_upd in Hm. destruct Hm as (m0 & Hm0 & ->).
    destruct (N.eqb_spec (n_id m0) x) as [e|ne]; auto.
    assert (m0 = n) as -> by (eapply SInv_same_id; eauto; congruence). congruence.
Qed.

(* a non-resident node with a value is linked at the most-recent end *)
Lemma SInv_link nodes order used nn x f n :
  SInv nodes order used nn -> In n nodes -> n_id n = x -> resident n = false -> n_val n <> None ->
  pres f -> n_lru (f n) = LResident -> n_size (f n) = n_size n -> n_val (f n) = n_val n ->
  SInv (upd_id x f nodes) (order ++ [x]) (used + Z.of_N (n_size n))%Z nn.
Proof.
  intros H Hn Hx Hres Hv Hf Hl Hsz Hvv. pose proof H as [K I F ON O U RV].
  assert (resident (f n) = true) as Hres' by (unfold resident; now rewrite Hl).
  assert (~ In x order) as Hnot.
  { rewrite O. intros (m & Hm & Hy & Hr). assert (m = n) as -> by (eapply SInv_same_id; eauto; congruence). congruence. }
  split; auto.
  - rewrite keys_upd; auto.
  - rewrite ids_upd; auto.
  - intros m Hm. apply in_upd in Hm. destruct Hm as (m0 & Hm0 & ->).
    destruct (n_id m0 =? x); [rewrite (proj1 (Hf m0))|]; auto.
  - apply nodup_app_intro; auto.
    + constructor; [intros []|constructor].
    + intros y Hy [<-|[]]. tauto.
  - intro y. rewrite in_app_iff, O. cbn. split.
    + intros [(m & Hm & Hy & Hr)|[<-|[]]].
      * exists m. split; auto. apply in_upd_other; auto. intro e. apply Hnot. apply O. exists m. auto.
      * exists (f n). split; [now apply in_upd_same|]. split; auto. rewrite (proj1 (Hf n)). auto.
    + intros (m & Hm & Hy & Hr). apply in_upd in Hm. destruct Hm as (m0 & Hm0 & ->).
      destruct (N.eqb_spec (n_id m0) x) as [e|ne].
      * right. left. rewrite <- Hy. symmetry. assert (m0 = n) as -> by (eapply SInv_same_id; eauto; congruence). rewrite (proj1 (Hf n)). auto.
      * left. exists m0. auto.
  - rewrite (nsum_upd ucontrib x _ nodes n); auto.
    unfold ucontrib at 3. rewrite Hres'. unfold ucontrib at 2. rewrite Hres, Hsz. lia.
  - intros m Hm Hr. apply in_upd in Hm. destruct Hm as (m0 & Hm0 & ->).
    destruct (N.eqb_spec (n_id m0) x) as [e|ne]; auto.
    assert (m0 = n) as -> by (eapply SInv_same_id; eauto; congruence). congruence.
Qed.

(* move to the most-recent end *)
Lemma SInv_touch nodes order used nn x :
  SInv nodes order used nn -> In x order -> SInv nodes (remove_order x order ++ [x]) used nn.
Proof.
  intros [K I F ON O U RV] Hx. split; auto.
  - apply nodup_app_intro.
    + now apply nodup_remove_order.
    + constructor; [intros []|constructor].
    + intros y Hy [<-|[]]. apply in_remove_order in Hy. tauto.
  - intro y. rewrite <- O, in_app_iff, in_remove_order. cbn.
    destruct (N.eq_dec y x) as [->|ne]; [tauto|]. split; [intros [[? ?]|[e|[]]]; congruence|tauto].
Qed.

(* a non-resident node is unlinked from the map *)
Lemma SInv_remove nodes order used nn n :
  SInv nodes order used nn -> In n nodes -> resident n = false ->
  SInv (remove_id (n_id n) nodes) order used nn.
Proof.
  intros H Hn Hres. pose proof H as [K I F ON O U RV]. split; auto.
  - now apply keys_remove_nodup.
  - now apply ids_remove_nodup.
  - intros m Hm. apply in_remove in Hm. apply F, Hm.
  - intro y. rewrite O. split; intros (m & Hm & Hy & Hr).
    + exists m. split; auto. apply in_remove. split; auto. intro e.
      assert (m = n) as -> by (eapply SInv_same_id; eauto). congruence.
    + apply in_remove in Hm. exists m. tauto.
  - rewrite nsum_remove; auto. unfold ucontrib at 2. rewrite Hres. lia.
  - intros m Hm. apply in_remove in Hm. apply RV, Hm.
Qed.

(* a fresh node is linked into the map *)
Lemma SInv_insert nodes order used nn ns key :
  SInv nodes order used nn -> find_key ns key nodes = None ->
  SInv (insert_node (mkNode ns key nn 1%Z None 0 [] LAbsent) nodes) order used (nn + 1).
Proof.
  intros H Hk. pose proof H as [K I F ON O U RV]. set (x := mkNode ns key nn 1%Z None 0 [] LAbsent).
  assert (Permutation (insert_node x nodes) (x :: nodes)) as P by apply insert_perm.
  split; auto.
  - apply (Permutation_NoDup (Permutation_map keyof (Permutation_sym P))). cbn. constructor; auto.
    intro Hin. apply in_map_iff in Hin. destruct Hin as (m & e & Hm).
    eapply find_key_none in Hk; eauto.
  - apply (Permutation_NoDup (Permutation_map n_id (Permutation_sym P))). cbn. constructor; auto.
    intro Hin. apply in_map_iff in Hin. destruct Hin as (m & e & Hm). apply F in Hm. lia.
  - intros m Hm. apply in_insert in Hm. destruct Hm as [->|Hm]; [cbn; lia|]. apply F in Hm. lia.
  - intro y. rewrite O. split; intros (m & Hm & Hy & Hr).
    + exists m. split; auto. apply in_insert. auto.
    + apply in_insert in Hm. destruct Hm as [->|Hm]; [discriminate|]. exists m. auto.
  - rewrite nsum_insert. unfold ucontrib at 1. cbn. lia.
  - intros m Hm Hr. apply in_insert in Hm. destruct Hm as [->|Hm]; [discriminate|]. auto.
Qed.

(* ---------------------------------------------------------------- references, handles, counters *)

Section WithZq.
(* zq: the nodes for which some goroutine still has the zero-check of a dropped last reference
   pending (always empty in the sequential semantics) — they are exempt from ri_pos *)
Variable zq : N -> bool.

Record RInv (p : N -> Z) (nodes : list node) (hs : list (N * N)) (closed forced : bool)
            (nh : N) (stn sts : Z) : Prop := {
  ri_p : forall x, (0 <= p x)%Z;
  ri_pdom : forall x, ~ In x (ids nodes) -> p x = 0%Z;
  ri_ref : forced = false -> forall n, In n nodes ->
             n_ref n = (hcount (n_id n) hs + rcount n + p (n_id n))%Z;
  ri_pos : forced = false -> forall n, In n nodes ->
             (closed = false \/ n_val n <> None \/ n_dels n <> []) -> zq (n_id n) = false -> (0 < n_ref n)%Z;
  ri_fc : forced = true -> closed = true;
  ri_hnd : NoDup (map fst hs);
  ri_hfresh : forall h x, In (h, x) hs -> h < nh;
  ri_hnode : forall h x, In (h, x) hs -> In x (ids nodes);
  ri_hval : forced = false -> forall n, In n nodes -> (0 < hcount (n_id n) hs)%Z -> n_val n <> None;
  ri_stat : closed = false -> stn = Z.of_nat (length nodes) /\ sts = nsum scontrib nodes;
  ri_size0 : closed = false -> forall n, In n nodes -> n_val n = None -> n_size n = 0 }.

Definition InvR (p : N -> Z) (s : state) : Prop :=
  RInv p (s_nodes s) (s_handles s) (s_closed s) (s_forced s) (s_next_hid s) (s_stat_nodes s) (s_stat_size s).

Lemma rcount_nonneg n : (0 <= rcount n)%Z.
Proof. unfold rcount. destruct (resident n); lia. Qed.

Lemma in_ids n l : In n l -> In (n_id n) (ids l).
Proof. unfold ids. apply in_map. Qed.

Lemma same_id_eq l n m : NoDup (ids l) -> In n l -> In m l -> n_id n = n_id m -> n = m.
Proof.
  intros H Hn Hm E. pose proof (find_id_in l n H Hn) as A.
  pose proof (find_id_in l m H Hm) as B. rewrite E in A. congruence.
Qed.

Lemma RInv_pext p q nodes hs c f nh a b :
  (forall y, p y = q y) -> RInv p nodes hs c f nh a b -> RInv q nodes hs c f nh a b.
Proof.
  intros E [P PD R PO FC HN HF HO HV ST S0]. split; auto.
  - intro x. rewrite <- E. auto.
  - intros x Hx. rewrite <- E. auto.
  - intros Hf n Hn. rewrite <- E. auto.
Qed.

Lemma RInv_upd p p' nodes hs closed forced nh stn sts sts' x f n :
  RInv p nodes hs closed forced nh stn sts -> NoDup (ids nodes) -> In n nodes -> n_id n = x -> pres f ->
  (forall y, 0 <= p' y)%Z -> (forall y, y <> x -> p' y = p y) ->
  (forced = false -> n_ref (f n) = (hcount x hs + rcount (f n) + p' x)%Z) ->
  (forced = false -> (closed = false \/ n_val (f n) <> None \/ n_dels (f n) <> []) -> zq (n_id n) = false -> (0 < n_ref (f n))%Z) ->
  (forced = false -> (0 < hcount x hs)%Z -> n_val (f n) <> None) ->
  (closed = false -> sts' = (sts - scontrib n + scontrib (f n))%Z) ->
  (closed = false -> n_val (f n) = None -> n_size (f n) = 0) ->
  RInv p' (upd_id x f nodes) hs closed forced nh stn sts'.
Proof.
  intros [P PD R PO FC HN HF HO HV ST S0] Hnd Hn Hx Hf Hp' Hpo Href Hpos Hval Hst Hsz.
  assert (forall m0, In m0 nodes -> n_id m0 = x -> m0 = n) as Uq.
  { intros m0 Hm0 e. eapply same_id_eq; eauto. congruence. }
  split; auto.
  - intros y Hy. rewrite ids_upd in Hy by auto. rewrite Hpo; auto. intro; subst. apply Hy. now apply in_ids.
  - intros Hfo m Hm. apply in_upd in Hm. destruct Hm as (m0 & Hm0 & ->).
    destruct (N.eqb_spec (n_id m0) x) as [e|ne].
    + rewrite (Uq m0 Hm0 e). rewrite (proj1 (Hf n)), Hx. auto.
    + rewrite Hpo; auto.
  - intros Hc m Hm. apply in_upd in Hm. destruct Hm as (m0 & Hm0 & ->).
    destruct (N.eqb_spec (n_id m0) x) as [e|ne]; auto. rewrite (Uq m0 Hm0 e).
    intros Hq Hz. rewrite (proj1 (Hf n)) in Hz. auto.
  - intros h y Hy. rewrite ids_upd; eauto.
  - intros Hfo m Hm. apply in_upd in Hm. destruct Hm as (m0 & Hm0 & ->).
    destruct (N.eqb_spec (n_id m0) x) as [e|ne]; auto. rewrite (Uq m0 Hm0 e).
    rewrite (proj1 (Hf n)), Hx. auto.
  - intro Hc. destruct (ST Hc) as [A B]. split.
    + now rewrite length_upd.
    + rewrite (nsum_upd scontrib x f nodes n); auto. rewrite Hst; auto. lia.
  - intros Hc m Hm. apply in_upd in Hm. destruct Hm as (m0 & Hm0 & ->).
    destruct (N.eqb_spec (n_id m0) x) as [e|ne]; auto. rewrite (Uq m0 Hm0 e). auto.
Qed.

Lemma RInv_ref0 p nodes hs closed forced nh stn sts n :
  RInv p nodes hs closed forced nh stn sts -> In n nodes -> forced = false -> n_ref n = 0%Z ->
  hcount (n_id n) hs = 0%Z /\ resident n = false /\ p (n_id n) = 0%Z.
Proof.
  intros H Hn Hf Hr. pose proof (ri_ref _ _ _ _ _ _ _ _ H Hf n Hn) as E.
  pose proof (hcount_nonneg (n_id n) hs). pose proof (ri_p _ _ _ _ _ _ _ _ H (n_id n)).
  unfold rcount in E. destruct (resident n); split; try split; auto; lia.
Qed.

Lemma RInv_remove p p' nodes hs closed forced nh stn sts n :
  RInv p nodes hs closed forced nh stn sts -> NoDup (ids nodes) -> In n nodes ->
  hcount (n_id n) hs = 0%Z -> (forall y, y <> n_id n -> p' y = p y) -> p' (n_id n) = 0%Z ->
  RInv p' (remove_id (n_id n) nodes) hs closed forced nh (stn - 1)%Z (sts - Z.of_N (n_size n))%Z.
Proof.
  intros H Hnd Hn H0 Hpo Hpx.
  destruct H as [P PD R PO FC HN HF HO HV ST S0]. split; auto.
  - intro y. destruct (N.eq_dec y (n_id n)) as [->|ne]; [lia|]. rewrite Hpo; auto.
  - intros y Hy. destruct (N.eq_dec y (n_id n)) as [->|ne]; auto. rewrite Hpo; auto. apply PD. intro Hin. apply Hy.
    unfold ids in *. apply in_map_iff in Hin. destruct Hin as (m & <- & Hm). apply in_map.
    apply in_remove. auto.
  - intros Hf m Hm. apply in_remove in Hm. rewrite Hpo by tauto. apply R; tauto.
  - intros Hc m Hm. apply in_remove in Hm. apply PO; tauto.
  - intros h y Hy. pose proof (HO h y Hy) as Hin. unfold ids in *. apply in_map_iff in Hin.
    destruct Hin as (m & <- & Hm). apply in_map. apply in_remove. split; auto. intro e.
    rewrite e in Hy. apply (proj1 (hcount_zero_notin _ _) H0 h). exact Hy.
  - intros Hf m Hm. apply in_remove in Hm. apply HV; tauto.
  - intro Hc. destruct (ST Hc) as [A B]. split.
    + pose proof (length_remove nodes n Hnd Hn). lia.
    + rewrite nsum_remove; auto. unfold scontrib at 2. lia.
  - intros Hc m Hm. apply in_remove in Hm. apply S0; tauto.
Qed.

Lemma RInv_insert p nodes hs forced nh stn sts ns key nn :
  RInv p nodes hs false forced nh stn sts -> (forall n, In n nodes -> n_id n < nn) ->
  RInv (padd nn 1 p) (insert_node (mkNode ns key nn 1%Z None 0 [] LAbsent) nodes) hs false forced nh (stn + 1)%Z sts.
Proof.
  intros [P PD R PO FC HN HF HO HV ST S0] F.
  assert (~ In nn (ids nodes)) as Hnot.
  { intro Hin. unfold ids in Hin. apply in_map_iff in Hin. destruct Hin as (m & e & Hm). apply F in Hm. lia. }
  assert (hcount nn hs = 0%Z) as H0.
  { apply hcount_zero_notin. intros h Hh. apply HO in Hh. tauto. }
  split; auto.
  - intro x. unfold padd. destruct (x =? nn); specialize (P x); lia.
  - intros x Hx. assert (x <> nn) as ne.
    { intro; subst. apply Hx. unfold ids. apply in_map_iff. eexists. split; [|apply in_insert; left; reflexivity]. reflexivity. }
    rewrite padd_other; auto. apply PD. intro Hin. apply Hx. unfold ids in *. apply in_map_iff in Hin.
    destruct Hin as (m & <- & Hm). apply in_map. apply in_insert. auto.
  - intros Hf m Hm. apply in_insert in Hm. destruct Hm as [->|Hm].
    + cbn. rewrite H0, padd_same, (PD nn Hnot). reflexivity.
    + rewrite padd_other; auto. apply F in Hm. lia.
  - intros Hf m Hm _. apply in_insert in Hm. destruct Hm as [->|Hm]; [cbn; lia|auto].
  - intros h y Hy. apply HO in Hy. unfold ids in *. apply in_map_iff in Hy. destruct Hy as (m & <- & Hm).
    apply in_map. apply in_insert. auto.
  - intros Hf m Hm. apply in_insert in Hm. destruct Hm as [->|Hm]; [cbn; lia|auto].
  - intros _. destruct (ST eq_refl) as [A B]. split.
    + rewrite length_insert. lia.
    + rewrite nsum_insert. unfold scontrib at 1. cbn. lia.
  - intros _ m Hm. apply in_insert in Hm. destruct Hm as [->|Hm]; [reflexivity|auto].
Qed.

Lemma RInv_hadd p nodes hs closed forced nh stn sts x n :
  RInv p nodes hs closed forced nh stn sts -> In n nodes -> n_id n = x -> (1 <= p x)%Z ->
  (forced = false -> n_val n <> None) -> NoDup (ids nodes) ->
  RInv (padd x (-1) p) nodes ((nh, x) :: hs) closed forced (nh + 1) stn sts.
Proof.
  intros [P PD R PO FC HN HF HO HV ST S0] Hn Hx Hp Hv Hnd. split; auto.
  - intro y. unfold padd. destruct (N.eqb_spec y x) as [e|ne]; [subst y|]; [specialize (P x)|specialize (P y)]; lia.
  - intros y Hy. rewrite padd_other; auto. intro; subst. apply Hy. now apply in_ids.
  - intros Hf m Hm. rewrite hcount_cons, (R Hf m Hm). unfold padd.
    rewrite (N.eqb_sym (n_id m) x). destruct (x =? n_id m); lia.
  - cbn. constructor; auto. intro Hin. apply in_map_iff in Hin. destruct Hin as ([h y] & e & Hh).
    cbn in e. subst. apply HF in Hh. lia.
  - intros h y [e|Hy]; [inversion e; lia|]. apply HF in Hy. lia.
  - intros h y [e|Hy]; [inversion e; subst; now apply in_ids|eauto].
  - intros Hf m Hm. rewrite hcount_cons. destruct (N.eqb_spec x (n_id m)) as [e|ne].
    + intros _. assert (m = n) as -> by (eapply same_id_eq; eauto; congruence). auto.
    + rewrite Z.add_0_l. auto.
Qed.

Lemma RInv_hdel p nodes hs closed forced nh stn sts h x :
  RInv p nodes hs closed forced nh stn sts -> In (h, x) hs ->
  RInv (padd x 1 p) nodes (hremove h hs) closed forced nh stn sts.
Proof.
  intros [P PD R PO FC HN HF HO HV ST S0] Hh. split; auto.
  - intro y. unfold padd. destruct (y =? x); specialize (P y); lia.
  - intros y Hy. rewrite padd_other; auto. intro; subst. apply Hy. eauto.
  - intros Hf m Hm. rewrite (hcount_hremove h x hs _ HN Hh), (R Hf m Hm). unfold padd.
    rewrite (N.eqb_sym (n_id m) x). destruct (x =? n_id m); lia.
  - unfold hremove. now apply nodup_map_filter.
  - intros h' y Hy. apply in_hremove in Hy. apply (HF h' y), Hy.
  - intros h' y Hy. apply in_hremove in Hy. apply (HO h' y), Hy.
  - intros Hf m Hm Hc. apply HV; auto. rewrite (hcount_hremove h x hs _ HN Hh) in Hc.
    destruct (x =? n_id m); lia.
Qed.

Lemma RInv_close p nodes hs nh stn sts force :
  RInv p nodes hs false false nh stn sts -> RInv p nodes hs true force nh stn sts.
Proof.
  intros [P PD R PO FC HN HF HO HV ST S0]. split; auto; try (intros; discriminate).
  all: intros ->; auto.
Qed.

End WithZq.

Lemma RInv_zq_weaken zq zq' p nodes hs c f nh a b :
  (forall y, zq y = true -> zq' y = true) -> RInv zq p nodes hs c f nh a b -> RInv zq' p nodes hs c f nh a b.
Proof.
  intros W [P PD R PO FC HN HF HO HV ST S0]. split; auto.
  intros Hf n Hn Hq Hz. apply PO; auto. destruct (zq (n_id n)) eqn:E; auto. apply W in E. congruence.
Qed.

(* ---------------------------------------------------------------- the log: values and delFuncs *)

Definition cf (v : N) (lg : list event) : nat := count_ev (is_final v) lg.
Definition ccv (v : N) (lg : list event) : nat := count_ev (is_construct_v v) lg.
Definition ccn (x : N) (lg : list event) : nat := count_ev (is_construct_n x) lg.
Definition cdr (d : N) (lg : list event) : nat := count_ev (is_delrun d) lg.

Record LInv (nodes : list node) (lg : list event) (nv nn nd : N) (closed : bool) : Prop := {
  li_vlive : forall n v, In n nodes -> n_val n = Some v ->
      cf v lg = 0%nat /\ In (EvConstruct (n_id n) v (n_size n)) lg;
  li_vinj : forall n m v, In n nodes -> In m nodes -> n_val n = Some v -> n_val m = Some v -> n_id n = n_id m;
  li_final_le : forall v, (cf v lg <= 1)%nat;
  li_final_fresh : forall v f, In (EvFinal v f) lg -> v < nv;
  li_cons_fresh : forall x v sz, In (EvConstruct x v sz) lg -> v < nv /\ x < nn;
  li_cons_v1 : forall v, (ccv v lg <= 1)%nat;
  li_cons_n1 : forall x, (ccn x lg <= 1)%nat;
  li_cons_none : closed = false -> forall n, In n nodes -> n_val n = None -> ccn (n_id n) lg = 0%nat;
  li_vdead : forall x v sz, In (EvConstruct x v sz) lg ->
      cf v lg = 1%nat \/ exists n, In n nodes /\ n_id n = x /\ n_val n = Some v;
  li_dfresh : forall n d, In n nodes -> In d (n_dels n) -> d < nd;
  li_dnodup : forall n, In n nodes -> NoDup (n_dels n);
  li_dinj : forall n m d, In n nodes -> In m nodes -> In d (n_dels n) -> In d (n_dels m) -> n_id n = n_id m;
  li_dnotrun : forall n d, In n nodes -> In d (n_dels n) -> cdr d lg = 0%nat;
  li_drun_le : forall d, (cdr d lg <= 1)%nat;
  li_drun_fresh : forall d, In (EvDelRun d) lg -> d < nd;
  li_dall : forall d, d < nd -> cdr d lg = 1%nat \/ exists n, In n nodes /\ In d (n_dels n);
  li_dreg : forall d x, In (EvDelReg d x) lg ->
      x < nn /\ d < nd /\
      forall n, In n nodes -> n_id n = x -> In d (n_dels n) \/ (n_val n = None /\ n_dels n = [] /\ closed = true) }.

Definition InvL (s : state) : Prop :=
  LInv (s_nodes s) (s_log s) (s_next_vid s) (s_next_nid s) (s_next_did s) (s_closed s).

(* counting facts *)
Lemma count_map_delrun_other p ds : (forall d, p (EvDelRun d) = false) -> count_ev p (map EvDelRun ds) = 0%nat.
Proof.
  intro H. apply count_ev_zero. intros e He. apply in_map_iff in He. destruct He as (d & <- & _). auto.
Qed.

Lemma count_map_delrun_notin d ds : ~ In d ds -> count_ev (is_delrun d) (map EvDelRun ds) = 0%nat.
Proof.
  intro H. apply count_ev_zero. intros e He. apply in_map_iff in He. destruct He as (d' & <- & Hd).
  cbn. apply N.eqb_neq. intro; subst; tauto.
Qed.

Lemma count_map_delrun_in d ds : NoDup ds -> In d ds -> count_ev (is_delrun d) (map EvDelRun ds) = 1%nat.
Proof.
  induction ds as [|a ds IH]; intros Hnd Hin; [destruct Hin|]. inversion Hnd; subst.
  cbn [map]. rewrite count_ev_cons. cbn [is_delrun]. destruct Hin as [->|Hin].
  - rewrite N.eqb_refl, count_map_delrun_notin; auto.
  - destruct (N.eqb_spec a d) as [->|ne]; [tauto|]. rewrite IH; auto.
Qed.

Definition opt_is (v : N) (o : option N) : bool := match o with Some x => x =? v | None => false end.

Lemma opt_is_true v o : opt_is v o = true <-> o = Some v.
Proof.
  destruct o as [x|]; cbn; [|split; discriminate]. rewrite N.eqb_eq. split; [intros ->; auto|congruence].
Qed.

Lemma count_final_ev p o f lg :
  count_ev p (final_ev o f lg) = ((match o with Some x => if p (EvFinal x f) then 1 else 0 | None => 0 end) + count_ev p lg)%nat.
Proof. destruct o; cbn [final_ev]; auto. apply count_ev_cons. Qed.

(* the log after a finalisation: value released (if any), then the delFuncs in order *)
Definition fin_log (n : node) (f : bool) (lg : list event) : list event :=
  dels_ev (n_dels n) (final_ev (n_val n) f lg).

Lemma fin_cf n f lg v : cf v (fin_log n f lg) = ((if opt_is v (n_val n) then 1 else 0) + cf v lg)%nat.
Proof.
  unfold cf, fin_log. rewrite count_dels_ev, count_map_delrun_other by reflexivity.
  rewrite count_final_ev. destruct (n_val n); reflexivity.
Qed.

Lemma fin_ccv n f lg v : ccv v (fin_log n f lg) = ccv v lg.
Proof.
  unfold ccv, fin_log. rewrite count_dels_ev, count_map_delrun_other by reflexivity.
  rewrite count_final_ev. destruct (n_val n); reflexivity.
Qed.

Lemma fin_ccn n f lg x : ccn x (fin_log n f lg) = ccn x lg.
Proof.
  unfold ccn, fin_log. rewrite count_dels_ev, count_map_delrun_other by reflexivity.
  rewrite count_final_ev. destruct (n_val n); reflexivity.
Qed.

Lemma fin_cdr_in n f lg d : NoDup (n_dels n) -> In d (n_dels n) -> cdr d (fin_log n f lg) = S (cdr d lg).
Proof.
  intros Hnd Hin. unfold cdr, fin_log. rewrite count_dels_ev, count_map_delrun_in by auto.
  rewrite count_final_ev. destruct (n_val n); reflexivity.
Qed.

Lemma fin_cdr_notin n f lg d : ~ In d (n_dels n) -> cdr d (fin_log n f lg) = cdr d lg.
Proof.
  intros Hin. unfold cdr, fin_log. rewrite count_dels_ev, count_map_delrun_notin by auto.
  rewrite count_final_ev. destruct (n_val n); reflexivity.
Qed.

Lemma fin_in n f lg e : In e (fin_log n f lg) <->
  (exists d, In d (n_dels n) /\ e = EvDelRun d) \/ (exists v, n_val n = Some v /\ e = EvFinal v f) \/ In e lg.
Proof. unfold fin_log. rewrite in_dels_ev, in_final_ev. tauto. Qed.

Lemma fin_in_construct n f lg x v sz : In (EvConstruct x v sz) (fin_log n f lg) <-> In (EvConstruct x v sz) lg.
Proof.
  rewrite fin_in. split; auto. intros [(d & _ & e)|[(w & _ & e)|H]]; auto; discriminate.
Qed.

Lemma fin_in_delreg n f lg d x : In (EvDelReg d x) (fin_log n f lg) <-> In (EvDelReg d x) lg.
Proof.
  rewrite fin_in. split; auto. intros [(d' & _ & e)|[(w & _ & e)|H]]; auto; discriminate.
Qed.

(* updates that leave value, size and delFuncs of every node alone *)
Lemma LInv_upd_same nodes lg nv nn nd closed x f :
  LInv nodes lg nv nn nd closed -> pres f ->
  (forall n, In n nodes -> n_id n = x ->
     n_val (f n) = n_val n /\ n_dels (f n) = n_dels n /\ (n_val n <> None -> n_size (f n) = n_size n)) ->
  LInv (upd_id x f nodes) lg nv nn nd closed.
Proof.
  intros [VL VI FL FF CF C1 N1 CN VD DF DN DI DR DL DRF DA DG] Hf Hs.
  assert (forall m, In m (upd_id x f nodes) -> exists m0, In m0 nodes /\ n_id m = n_id m0 /\
            n_val m = n_val m0 /\ (n_val m0 <> None -> n_size m = n_size m0) /\ n_dels m = n_dels m0) as Back.
  { intros m Hm. apply in_upd in Hm. destruct Hm as (m0 & Hm0 & ->). exists m0. split; auto.
    destruct (N.eqb_spec (n_id m0) x) as [e|ne]; auto. destruct (Hs m0 Hm0 e) as (a & b & c). destruct (Hf m0) as (i & _). auto. }
  assert (forall m0, In m0 nodes -> exists m, In m (upd_id x f nodes) /\ n_id m = n_id m0 /\
            n_val m = n_val m0 /\ n_dels m = n_dels m0) as Forth.
  { intros m0 Hm0. exists (if n_id m0 =? x then f m0 else m0). split; [apply in_upd; eauto|].
    destruct (N.eqb_spec (n_id m0) x) as [e|ne]; auto. destruct (Hs m0 Hm0 e) as (a & b & c). destruct (Hf m0) as (i & _). auto. }
  split; auto.
  - intros m v Hm Hv. destruct (Back m Hm) as (m0 & H0 & i & a & b & c). rewrite i, b by congruence. apply VL; congruence.
  - intros m m' v Hm Hm' Hv Hv'. destruct (Back m Hm) as (m0 & H0 & i & a & b & c).
    destruct (Back m' Hm') as (m1 & H1 & i' & a' & b' & c'). rewrite i, i'. apply (VI m0 m1 v); auto; congruence.
  - intros Hc m Hm Hv. destruct (Back m Hm) as (m0 & H0 & i & a & b & c). rewrite i. apply CN; congruence.
  - intros y v sz Hin. destruct (VD y v sz Hin) as [|(m0 & H0 & i & a)]; auto. right.
    destruct (Forth m0 H0) as (m & Hm & i' & a' & _). exists m. split; auto. split; congruence.
  - intros m d Hm Hd. destruct (Back m Hm) as (m0 & H0 & i & a & b & c). rewrite c in Hd. eauto.
  - intros m Hm. destruct (Back m Hm) as (m0 & H0 & i & a & b & c). rewrite c. eauto.
  - intros m m' d Hm Hm' Hd Hd'. destruct (Back m Hm) as (m0 & H0 & i & a & b & c).
    destruct (Back m' Hm') as (m1 & H1 & i' & a' & b' & c'). rewrite i, i'. rewrite c in Hd. rewrite c' in Hd'. apply (DI m0 m1 d); auto.
  - intros m d Hm Hd. destruct (Back m Hm) as (m0 & H0 & i & a & b & c). rewrite c in Hd. eauto.
  - intros d Hd. destruct (DA d Hd) as [|(m0 & H0 & Hin)]; auto. right.
    destruct (Forth m0 H0) as (m & Hm & i' & a' & c'). exists m. split; auto. congruence.
  - intros d y Hin. destruct (DG d y Hin) as (A & B & C). split; auto. split; auto. intros m Hm Hy.
    destruct (Back m Hm) as (m0 & H0 & i & a & b & c). rewrite a, c. apply C; congruence.
Qed.

(* events that no counter and no membership clause looks at *)
Definition neutral (e : event) : Prop :=
  match e with EvCreate _ _ _ | EvSetNil _ => True | _ => False end.

Lemma LInv_neutral nodes lg nv nn nd closed e :
  LInv nodes lg nv nn nd closed -> neutral e -> LInv nodes (e :: lg) nv nn nd closed.
Proof.
  intros [VL VI FL FF CF C1 N1 CN VD DF DN DI DR DL DRF DA DG] He.
  assert (forall k, cf k (e :: lg) = cf k lg) as E1.
  { intro k. unfold cf. rewrite count_ev_cons. destruct e; try contradiction; reflexivity. }
  assert (forall k, ccv k (e :: lg) = ccv k lg) as E2.
  { intro k. unfold ccv. rewrite count_ev_cons. destruct e; try contradiction; reflexivity. }
  assert (forall k, ccn k (e :: lg) = ccn k lg) as E3.
  { intro k. unfold ccn. rewrite count_ev_cons. destruct e; try contradiction; reflexivity. }
  assert (forall k, cdr k (e :: lg) = cdr k lg) as E4.
  { intro k. unfold cdr. rewrite count_ev_cons. destruct e; try contradiction; reflexivity. }
  assert (forall e', (match e' with EvCreate _ _ _ | EvSetNil _ => False | _ => True end) -> In e' (e :: lg) -> In e' lg) as Mem.
  { intros e' He' [<-|]; auto. destruct e; contradiction. }
  split.
  - intros n v Hn Hv. rewrite E1. destruct (VL n v) as [A B]; auto. split; auto. now right.
  - exact VI.
  - intro v. rewrite E1. auto.
  - intros v f H. apply (FF v f). apply Mem; cbn; auto.
  - intros x v sz H. apply (CF x v sz). apply Mem; cbn; auto.
  - intro v. rewrite E2. auto.
  - intro x. rewrite E3. auto.
  - intros Hc n Hn Hv. rewrite E3. auto.
  - intros x v sz H. rewrite E1. apply (VD x v sz). apply Mem; cbn; auto.
  - exact DF.
  - exact DN.
  - exact DI.
  - intros n d Hn Hd. rewrite E4. eauto.
  - intro d. rewrite E4. auto.
  - intros d H. apply DRF. apply Mem; cbn; auto.
  - intros d Hd. rewrite E4. auto.
  - intros d x H. apply DG. apply Mem; cbn; auto.
Qed.

Lemma cf_zero_fresh lg nv v : (forall w f, In (EvFinal w f) lg -> w < nv) -> nv <= v -> cf v lg = 0%nat.
Proof.
  intros H Hv. apply count_ev_zero. intros e He. destruct e; auto. cbn. apply N.eqb_neq.
  apply H in He. lia.
Qed.
Lemma ccv_zero_fresh lg nv nn v : (forall x w sz, In (EvConstruct x w sz) lg -> w < nv /\ x < nn) -> nv <= v -> ccv v lg = 0%nat.
Proof.
  intros H Hv. apply count_ev_zero. intros e He. destruct e; auto. cbn. apply N.eqb_neq.
  apply H in He. lia.
Qed.
Lemma ccn_zero_fresh lg nv nn y : (forall x w sz, In (EvConstruct x w sz) lg -> w < nv /\ x < nn) -> nn <= y -> ccn y lg = 0%nat.
Proof.
  intros H Hv. apply count_ev_zero. intros e He. destruct e; auto. cbn. apply N.eqb_neq.
  apply H in He. lia.
Qed.
Lemma cdr_zero_fresh lg nd d : (forall w, In (EvDelRun w) lg -> w < nd) -> nd <= d -> cdr d lg = 0%nat.
Proof.
  intros H Hv. apply count_ev_zero. intros e He. destruct e; auto. cbn. apply N.eqb_neq.
  apply H in He. lia.
Qed.

Lemma LInv_insert nodes lg nv nn nd closed ns key :
  LInv nodes lg nv nn nd closed -> (forall n, In n nodes -> n_id n < nn) ->
  LInv (insert_node (mkNode ns key nn 1%Z None 0 [] LAbsent) nodes) lg nv (nn + 1) nd closed.
Proof.
  intros [VL VI FL FF CF C1 N1 CN VD DF DN DI DR DL DRF DA DG] F.
  set (x := mkNode ns key nn 1%Z None 0 [] LAbsent).
  assert (forall m, In m (insert_node x nodes) -> m = x \/ In m nodes) as B by (intro m; apply in_insert).
  split.
  - intros m v Hm Hv. destruct (B m Hm) as [->|H]; [discriminate|auto].
  - intros m m' v Hm Hm' Hv Hv'. destruct (B m Hm) as [->|H]; [discriminate|].
    destruct (B m' Hm') as [->|H']; [discriminate|eauto].
  - exact FL.
  - exact FF.
  - intros y v sz H. destruct (CF y v sz H). split; auto. lia.
  - exact C1.
  - exact N1.
  - intros Hc m Hm Hv. destruct (B m Hm) as [->|H]; auto. cbn. eapply ccn_zero_fresh; eauto. lia.
  - intros y v sz H. destruct (VD y v sz H) as [|(m & Hm & a & b)]; auto. right. exists m. split; auto.
    apply in_insert. auto.
  - intros m d Hm Hd. destruct (B m Hm) as [->|H]; [destruct Hd|eauto].
  - intros m Hm. destruct (B m Hm) as [->|H]; [constructor|eauto].
  - intros m m' d Hm Hm' Hd Hd'. destruct (B m Hm) as [->|H]; [destruct Hd|].
    destruct (B m' Hm') as [->|H']; [destruct Hd'|eauto].
  - intros m d Hm Hd. destruct (B m Hm) as [->|H]; [destruct Hd|eauto].
  - exact DL.
  - exact DRF.
  - intros d Hd. destruct (DA d Hd) as [|(m & Hm & a)]; auto. right. exists m. split; auto. apply in_insert. auto.
  - intros d y H. destruct (DG d y H) as (a & b & c). split; [lia|]. split; auto. intros m Hm Hy.
    destruct (B m Hm) as [->|H']; [cbn in Hy; lia|auto].
Qed.

Lemma LInv_construct nodes lg nv nn nd x sz n :
  LInv nodes lg nv nn nd false -> NoDup (ids nodes) -> In n nodes -> n_id n = x -> n_val n = None -> x < nn ->
  LInv (upd_id x (nd_val (Some nv) sz) nodes) (EvConstruct x nv sz :: lg) (nv + 1) nn nd false.
Proof.
  intros [VL VI FL FF CF C1 N1 CN VD DF DN DI DR DL DRF DA DG] Hnd Hn Hx Hv Hxn.
  set (f := nd_val (Some nv) sz).
  assert (forall m, In m (upd_id x f nodes) -> (m = f n) \/ (In m nodes /\ n_id m <> x)) as B.
  { intros m Hm. apply in_upd in Hm. destruct Hm as (m0 & H0 & ->).
    destruct (N.eqb_spec (n_id m0) x) as [e|ne]; auto. left. f_equal. eapply same_id_eq; eauto. congruence. }
  assert (forall m0, In m0 nodes -> n_id m0 <> x -> In m0 (upd_id x f nodes)) as Fo.
  { intros m0 H0 ne. now apply in_upd_other. }
  assert (In (f n) (upd_id x f nodes)) as Hfn by (now apply in_upd_same).
  assert (forall k, cf k (EvConstruct x nv sz :: lg) = cf k lg) as E1 by (intro k; unfold cf; now rewrite count_ev_cons).
  assert (forall k, cdr k (EvConstruct x nv sz :: lg) = cdr k lg) as E4 by (intro k; unfold cdr; now rewrite count_ev_cons).
  assert (forall k, ccv k (EvConstruct x nv sz :: lg) = ((if (nv =? k)%N then 1 else 0) + ccv k lg)%nat) as E2
    by (intro k; unfold ccv; now rewrite count_ev_cons).
  assert (forall k, ccn k (EvConstruct x nv sz :: lg) = ((if (x =? k)%N then 1 else 0) + ccn k lg)%nat) as E3
    by (intro k; unfold ccn; now rewrite count_ev_cons).
  assert (forall m v, In m nodes -> n_val m = Some v -> v < nv) as Vold.
  { intros m v Hm Hmv. destruct (VL m v Hm Hmv) as [_ Hin]. apply CF in Hin. tauto. }
  split.
  - intros m v Hm Hmv. rewrite E1. destruct (B m Hm) as [->|[H ne]].
    + cbn in Hmv. inversion Hmv; subst v. split; [eapply cf_zero_fresh; eauto; lia|]. left. cbn. now rewrite Hx.
    + destruct (VL m v H Hmv). split; auto. now right.
  - intros m m' v Hm Hm' Hmv Hmv'. destruct (B m Hm) as [->|[H ne]]; destruct (B m' Hm') as [->|[H' ne']]; auto.
    + cbn in Hmv. inversion Hmv; subst v. apply Vold in Hmv'; auto. lia.
    + cbn in Hmv'. inversion Hmv'; subst v. apply Vold in Hmv; auto. lia.
    + eauto.
  - intro v. rewrite E1. auto.
  - intros v f' [e|H]; [discriminate|]. apply FF in H. lia.
  - intros y v sz' [e|H].
    + inversion e; subst. split; auto. lia.
    + apply CF in H. split; [lia|tauto].
  - intro v. rewrite E2. destruct (N.eqb_spec nv v) as [<-|ne]; [|apply C1].
    assert (ccv nv lg = 0%nat) as -> by (eapply ccv_zero_fresh; eauto; lia). cbn. lia.
  - intro y. rewrite E3. destruct (N.eqb_spec x y) as [<-|ne]; [|apply N1].
    rewrite <- Hx, (CN eq_refl n Hn Hv). cbn. lia.
  - intros _ m Hm Hmv. rewrite E3. destruct (B m Hm) as [->|[H ne]]; [discriminate|].
    apply N.eqb_neq in ne. rewrite N.eqb_sym, ne. cbn. apply (CN eq_refl); auto.
  - intros y v sz' [e|H].
    + inversion e; subst. right. exists (f n). split; auto.
    + rewrite E1. destruct (VD y v sz' H) as [|(m & Hm & a & b)]; auto. right. exists m. split; auto.
      apply Fo; auto. intro e. assert (m = n) by (eapply same_id_eq; eauto; congruence). congruence.
  - intros m d Hm Hd. destruct (B m Hm) as [->|[H ne]]; eauto.
  - intros m Hm. destruct (B m Hm) as [->|[H ne]]; [apply (DN n Hn)|eauto].
  - intros m m' d Hm Hm' Hd Hd'. destruct (B m Hm) as [->|[H ne]]; destruct (B m' Hm') as [->|[H' ne']]; auto.
    + apply (DI n m' d); auto.
    + apply (DI m n d); auto.
    + eauto.
  - intros m d Hm Hd. rewrite E4. destruct (B m Hm) as [->|[H ne]]; eauto.
  - intro d. rewrite E4. auto.
  - intros d [e|H]; [discriminate|auto].
  - intros d Hd. rewrite E4. destruct (DA d Hd) as [|(m & Hm & a)]; auto. right.
    destruct (N.eq_dec (n_id m) x) as [e|ne].
    + exists (f n). split; auto. assert (m = n) as <- by (eapply same_id_eq; eauto; congruence). exact a.
    + exists m. split; auto.
  - intros d y [e|H]; [discriminate|]. destruct (DG d y H) as (a & b & c). split; auto. split; auto.
    intros m Hm Hy. destruct (B m Hm) as [->|[H' ne]]; auto.
    destruct (c n Hn) as [Hd|(_ & _ & ?)]; [exact Hy|left; exact Hd|discriminate].
Qed.

(* finalisation of node n: its value (if any) is released, its delFuncs run; afterwards the node is
   either gone from the list or stays (closed cache) without value and delFuncs *)
Lemma LInv_fin nodes nodes' lg nv nn nd closed n f :
  LInv nodes lg nv nn nd closed -> NoDup (ids nodes) -> In n nodes ->
  (forall m, In m nodes' -> (In m nodes /\ n_id m <> n_id n) \/
                            (n_id m = n_id n /\ n_val m = None /\ n_dels m = [] /\ closed = true)) ->
  (forall m0, In m0 nodes -> n_id m0 <> n_id n -> In m0 nodes') ->
  LInv nodes' (fin_log n f lg) nv nn nd closed.
Proof.
  intros [VL VI FL FF CF C1 N1 CN VD DF DN DI DR DL DRF DA DG] Hnd Hn B Fo.
  assert (forall v, n_val n = Some v -> cf v lg = 0%nat) as Vn by (intros v Hv; apply (VL n v Hn Hv)).
  split.
  - intros m v Hm Hv. destruct (B m Hm) as [[H ne]|(_ & e & _)]; [|congruence].
    rewrite fin_cf, fin_in_construct. destruct (opt_is v (n_val n)) eqn:E.
    + apply opt_is_true in E. exfalso. apply ne. apply (VI m n v); auto.
    + apply (VL m v H Hv).
  - intros m m' v Hm Hm' Hv Hv'. destruct (B m Hm) as [[H ne]|(_ & e & _)]; [|congruence].
    destruct (B m' Hm') as [[H' ne']|(_ & e' & _)]; [|congruence]. apply (VI m m' v); auto.
  - intro v. rewrite fin_cf. destruct (opt_is v (n_val n)) eqn:E.
    + apply opt_is_true in E. rewrite (Vn v E). cbn. lia.
    + cbn. apply FL.
  - intros v f' H. apply fin_in in H. destruct H as [(d & _ & e)|[(w & Hw & e)|H]]; [discriminate| |eauto].
    inversion e; subst. destruct (VL n w Hn Hw) as [_ Hin]. apply CF in Hin. tauto.
  - intros x v sz H. apply fin_in_construct in H. eauto.
  - intro v. rewrite fin_ccv. apply C1.
  - intro x. rewrite fin_ccn. apply N1.
  - intros Hc m Hm Hv. rewrite fin_ccn. destruct (B m Hm) as [[H ne]|(_ & _ & _ & e)]; [|congruence]. auto.
  - intros x v sz H. apply fin_in_construct in H. rewrite fin_cf. destruct (VD x v sz H) as [E1|(m & Hm & a & b)].
    + left. destruct (opt_is v (n_val n)) eqn:E; [|exact E1]. apply opt_is_true in E. rewrite (Vn v E) in E1. discriminate.
    + destruct (N.eq_dec (n_id m) (n_id n)) as [e|ne].
      * left. assert (m = n) as -> by (eapply same_id_eq; eauto).
        rewrite (proj2 (opt_is_true v (n_val n)) b), (Vn v b). reflexivity.
      * right. exists m. split; auto.
  - intros m d Hm Hd. destruct (B m Hm) as [[H ne]|(_ & _ & e & _)]; [eauto|]. rewrite e in Hd. destruct Hd.
  - intros m Hm. destruct (B m Hm) as [[H ne]|(_ & _ & e & _)]; [eauto|]. rewrite e. constructor.
  - intros m m' d Hm Hm' Hd Hd'. destruct (B m Hm) as [[H ne]|(_ & _ & e & _)]; [|rewrite e in Hd; destruct Hd].
    destruct (B m' Hm') as [[H' ne']|(_ & _ & e' & _)]; [|rewrite e' in Hd'; destruct Hd']. apply (DI m m' d); auto.
  - intros m d Hm Hd. destruct (B m Hm) as [[H ne]|(_ & _ & e & _)]; [|rewrite e in Hd; destruct Hd].
    rewrite fin_cdr_notin; [eauto|]. intro Hin. apply ne. apply (DI m n d); auto.
  - intro d. destruct (in_dec N.eq_dec d (n_dels n)) as [Hin|Hnin].
    + rewrite fin_cdr_in; auto. rewrite (DR n d Hn Hin). lia.
    + rewrite fin_cdr_notin; auto.
  - intros d H. apply fin_in in H. destruct H as [(d' & Hd' & e)|[(w & _ & e)|H]]; [|discriminate|eauto].
    inversion e; subst. eauto.
  - intros d Hd. destruct (in_dec N.eq_dec d (n_dels n)) as [Hin|Hnin].
    + left. rewrite fin_cdr_in; auto. rewrite (DR n d Hn Hin). reflexivity.
    + rewrite fin_cdr_notin; auto. destruct (DA d Hd) as [|(m & Hm & a)]; auto. right. exists m. split; auto.
      apply Fo; auto. intro e. assert (m = n) as -> by (eapply same_id_eq; eauto). tauto.
  - intros d x H. apply fin_in_delreg in H. destruct (DG d x H) as (a & b & c). split; auto. split; auto.
    intros m Hm Hx. destruct (B m Hm) as [[H' ne]|(_ & e1 & e2 & e3)]; auto.
Qed.

Lemma LInv_delreg nodes lg nv nn nd x n :
  LInv nodes lg nv nn nd false -> NoDup (ids nodes) -> In n nodes -> n_id n = x -> x < nn ->
  LInv (upd_id x (nd_dels (n_dels n ++ [nd])) nodes) (EvDelReg nd x :: lg) nv nn (nd + 1) false.
Proof.
  intros [VL VI FL FF CF C1 N1 CN VD DF DN DI DR DL DRF DA DG] Hnd Hn Hx Hxn.
  set (f := nd_dels (n_dels n ++ [nd])).
  assert (forall m, In m (upd_id x f nodes) -> (m = f n) \/ (In m nodes /\ n_id m <> x)) as B.
  { intros m Hm. apply in_upd in Hm. destruct Hm as (m0 & H0 & ->).
    destruct (N.eqb_spec (n_id m0) x) as [e|ne]; auto. left. f_equal. eapply same_id_eq; eauto. congruence. }
  assert (forall m0, In m0 nodes -> n_id m0 <> x -> In m0 (upd_id x f nodes)) as Fo.
  { intros m0 H0 ne. now apply in_upd_other. }
  assert (In (f n) (upd_id x f nodes)) as Hfn by (now apply in_upd_same).
  assert (forall k, cf k (EvDelReg nd x :: lg) = cf k lg) as E1 by (intro k; unfold cf; now rewrite count_ev_cons).
  assert (forall k, ccv k (EvDelReg nd x :: lg) = ccv k lg) as E2 by (intro k; unfold ccv; now rewrite count_ev_cons).
  assert (forall k, ccn k (EvDelReg nd x :: lg) = ccn k lg) as E3 by (intro k; unfold ccn; now rewrite count_ev_cons).
  assert (forall k, cdr k (EvDelReg nd x :: lg) = cdr k lg) as E4 by (intro k; unfold cdr; now rewrite count_ev_cons).
  assert (~ In nd (n_dels n)) as Hfresh by (intro H; apply (DF n nd Hn) in H; lia).
  split.
  - intros m v Hm Hv. rewrite E1. destruct (B m Hm) as [->|[H ne]].
    + destruct (VL n v Hn Hv). split; auto. right. assumption.
    + destruct (VL m v H Hv). split; auto. now right.
  - intros m m' v Hm Hm' Hv Hv'. destruct (B m Hm) as [->|[H ne]]; destruct (B m' Hm') as [->|[H' ne']]; auto.
    + apply (VI n m' v); auto.
    + apply (VI m n v); auto.
    + apply (VI m m' v); auto.
  - intro v. rewrite E1. apply FL.
  - intros v f' [e|H]; [discriminate|eauto].
  - intros y v sz [e|H]; [discriminate|eauto].
  - intro v. rewrite E2. apply C1.
  - intro y. rewrite E3. apply N1.
  - intros _ m Hm Hv. rewrite E3. destruct (B m Hm) as [->|[H ne]]; [apply (CN eq_refl n Hn Hv)|apply (CN eq_refl m H Hv)].
  - intros y v sz [e|H]; [discriminate|]. rewrite E1. destruct (VD y v sz H) as [|(m & Hm & a & b)]; auto. right.
    destruct (N.eq_dec (n_id m) x) as [e|ne].
    + exists (f n). split; auto. assert (m = n) as <- by (eapply same_id_eq; eauto; congruence). auto.
    + exists m. split; auto.
  - intros m d Hm Hd. destruct (B m Hm) as [->|[H ne]].
    + cbn in Hd. apply in_app_iff in Hd. destruct Hd as [Hd|[<-|[]]]; [apply (DF n d Hn) in Hd|]; lia.
    + apply (DF m d H) in Hd. lia.
  - intros m Hm. destruct (B m Hm) as [->|[H ne]]; [|eauto]. cbn. apply nodup_app_intro; auto.
    + constructor; [intros []|constructor].
    + intros y Hy [<-|[]]. tauto.
  - intros m m' d Hm Hm' Hd Hd'.
    assert (forall k, In k nodes -> n_id k <> x -> In d (n_dels k) -> In d (n_dels (f n)) -> False) as Excl.
    { intros k Hk nek Hdk Hdn. cbn in Hdn. apply in_app_iff in Hdn. destruct Hdn as [Hdn|[<-|[]]].
      - apply nek. rewrite <- Hx. apply (DI k n d); auto.
      - apply (DF k nd Hk) in Hdk. lia. }
    destruct (B m Hm) as [->|[H ne]]; destruct (B m' Hm') as [->|[H' ne']]; auto.
    + exfalso. eapply Excl; eauto.
    + exfalso. eapply Excl; eauto.
    + apply (DI m m' d); auto.
  - intros m d Hm Hd. rewrite E4. destruct (B m Hm) as [->|[H ne]]; [|eauto].
    cbn in Hd. apply in_app_iff in Hd. destruct Hd as [Hd|[<-|[]]]; [eauto|].
    eapply cdr_zero_fresh; eauto. lia.
  - intro d. rewrite E4. apply DL.
  - intros d [e|H]; [discriminate|]. apply DRF in H. lia.
  - intros d Hd. rewrite E4. destruct (N.eq_dec d nd) as [->|ne].
    + right. exists (f n). split; auto. cbn. apply in_app_iff. right. now left.
    + destruct (DA d) as [|(m & Hm & a)]; [lia|auto|]. right.
      destruct (N.eq_dec (n_id m) x) as [e|ne'].
      * exists (f n). split; auto. assert (m = n) as <- by (eapply same_id_eq; eauto; congruence).
        cbn. apply in_app_iff. now left.
      * exists m. split; auto.
  - intros d y [e|H].
    + inversion e; subst. split; auto. split; [lia|]. intros m Hm Hy. left.
      destruct (B m Hm) as [->|[H' ne]]; [|tauto]. cbn. apply in_app_iff. right. now left.
    + destruct (DG d y H) as (a & b & c). split; auto. split; [lia|]. intros m Hm Hy.
      destruct (B m Hm) as [->|[H' ne]]; auto.
      destruct (c n Hn) as [Hd|(_ & _ & ?)]; [exact Hy| |discriminate]. left. cbn. apply in_app_iff. now left.
Qed.

Lemma LInv_delrun_now nodes lg nv nn nd closed :
  LInv nodes lg nv nn nd closed -> LInv nodes (EvDelRun nd :: lg) nv nn (nd + 1) closed.
Proof.
  intros [VL VI FL FF CF C1 N1 CN VD DF DN DI DR DL DRF DA DG].
  assert (forall k, cf k (EvDelRun nd :: lg) = cf k lg) as E1 by (intro k; unfold cf; now rewrite count_ev_cons).
  assert (forall k, ccv k (EvDelRun nd :: lg) = ccv k lg) as E2 by (intro k; unfold ccv; now rewrite count_ev_cons).
  assert (forall k, ccn k (EvDelRun nd :: lg) = ccn k lg) as E3 by (intro k; unfold ccn; now rewrite count_ev_cons).
  assert (forall k, cdr k (EvDelRun nd :: lg) = ((if (nd =? k)%N then 1 else 0) + cdr k lg)%nat) as E4
    by (intro k; unfold cdr; now rewrite count_ev_cons).
  assert (cdr nd lg = 0%nat) as Z0 by (eapply cdr_zero_fresh; eauto; lia).
  split.
  - intros m v Hm Hv. rewrite E1. destruct (VL m v Hm Hv). split; auto. now right.
  - exact VI.
  - intro v. rewrite E1. apply FL.
  - intros v f' [e|H]; [discriminate|eauto].
  - intros y v sz [e|H]; [discriminate|eauto].
  - intro v. rewrite E2. apply C1.
  - intro y. rewrite E3. apply N1.
  - intros Hc m Hm Hv. rewrite E3. auto.
  - intros y v sz [e|H]; [discriminate|]. rewrite E1. apply (VD y v sz H).
  - intros m d Hm Hd. apply (DF m d Hm) in Hd. lia.
  - exact DN.
  - exact DI.
  - intros m d Hm Hd. rewrite E4. destruct (N.eqb_spec nd d) as [<-|ne].
    + apply (DF m nd Hm) in Hd. lia.
    + cbn. eauto.
  - intro d. rewrite E4. destruct (N.eqb_spec nd d) as [<-|ne]; [rewrite Z0; cbn; lia|cbn; apply DL].
  - intros d [e|H]; [inversion e; lia|]. apply DRF in H. lia.
  - intros d Hd. rewrite E4. destruct (N.eqb_spec nd d) as [<-|ne].
    + left. rewrite Z0. reflexivity.
    + cbn. apply DA. lia.
  - intros d y [e|H]; [discriminate|]. destruct (DG d y H) as (a & b & c). split; auto. split; [lia|auto].
Qed.

Lemma LInv_close nodes lg nv nn nd :
  LInv nodes lg nv nn nd false -> LInv nodes lg nv nn nd true.
Proof.
  intros [VL VI FL FF CF C1 N1 CN VD DF DN DI DR DL DRF DA DG]. split; auto; try (intros; discriminate).
  intros d x H. destruct (DG d x H) as (a & b & c). split; auto. split; auto. intros m Hm Hx.
  destruct (c m Hm Hx) as [|(_ & _ & ?)]; [auto|discriminate].
Qed.
