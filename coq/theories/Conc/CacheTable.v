(* Conc/CacheTable.v — SEQUENTIAL executable model of the node table of leveldb/cache/cache.go:
   the dynamically resized hash table (mHead / mBucket / mNodes, "Dynamic-Sized Nonblocking Hash
   Tables", Liu-Zhang-Spear) that Conc/Cache.v abstracts to a finite map.
   Model file: definitions only; proofs in Conc/CacheTableLemmas.v, CacheTableInv.v, CacheTableProofs.v.

   What is modelled, and how it follows the code
   ---------------------------------------------
   * mNodes: a bucket's slice, kept sorted by (ns,key) (mNodes.Less).  [search] is mNodes.search: the
     first index whose node is >= (ns,key).  The code finds it by bisection (sort.Search); on a sorted
     slice that is the length of the prefix of smaller nodes, which is what [search] computes — the
     bisection itself is NOT modelled.  [sort_nodes] is mNodes.sort (sort.Sort is not stable; keys in a
     table are pairwise different, so the sorted slice is unique): insertion sort here.
   * mBucket: state (bucketUninitialized / Initialized / Frozen) and nodes.  The bucket mutex is not
     modelled (one operation at a time).
   * mHead: buckets, mask, predecessor, resizeInProgress, overflow, growThreshold, shrinkThreshold.
     The predecessor POINTER is modelled by position: the table is the list of heads reachable from
     Cache.mHead, newest first; [h_pred h] says whether h.predecessor != nil, and then the predecessor
     is the next head of the list.  Heads that have become unreachable (their successor finished
     initBuckets and stored nil) are dropped from the list.
   * mHead.initBucket ([init_bucket]): lazy initialisation of one bucket from the predecessor — on grow
     the nodes of the (recursively initialised, then FROZEN) predecessor bucket i & p.mask whose
     hash & h.mask = i; on shrink the sorted concatenation of predecessor buckets i and i+len(h.buckets),
     both frozen.  The recursion through a chain of predecessors is bounded by explicit fuel
     (= number of heads); running out of it sets the sticky flag [t_panic], as do the Go panics
     "BUG: freeze uninitialized bucket", "BUG: accessing uninitialized bucket", "BUG: uninitialized
     bucket doesn't have predecessor" and an index out of range.  The theorems show none is reachable.
   * Cache.getBucket + mBucket.get ([t_get]) with the grow trigger (statNodes+1 >= growThreshold, or —
     evaluated only when that is false, Go's || short-circuits — the overflow counter reaching
     mOverflowGrowThreshold when the bucket holds more than mOverflowThreshold nodes) guarded by the
     CAS on h.resizeInProgress; mBucket.delete ([t_delete]) with the shrink trigger.  Whether the
     node found has ref = 0 is an input of the operation (the reference counts live in Conc/Cache.v).
     A frozen bucket makes get/delete return done = false and the caller's loop retry; in a
     sequential run nothing could change in between, so the model returns [RSpin] — proved unreachable.
   * enumerateNodesWithCB / enumerateNodesByNS on the NEWEST head, forcing the initialisation of every
     bucket; the result is the final accumulated slice (bucket order, (ns,key) inside a bucket).
   * The background goroutine `go nh.initBuckets()` is modelled by the steps [TInit d i] (initBucket(i) of
     the head at depth d of the chain, any order, any time between two operations) and [TFinish d] (the
     final atomic.StorePointer(&h.predecessor, nil), possible once every bucket of that head is
     initialised).
   * uint32 truncation of the mask (uint32(nhLen) - 1) is not modelled: it is the identity below 2^32
     buckets.  Hashes are arbitrary N; everything is parametric in the hash function [hashf].
   * murmur32 is modelled separately ([murmur32]); its constants come from Gen/Consts.v. *)
From Coq Require Export List NArith ZArith Bool.
Export ListNotations.
Open Scope N_scope.

(* ------------------------------------------------------------------ murmur32 *)

Record hconsts := mkHC { hc_m : N; hc_r : N; hc_hi1 : N; hc_hi2 : N; hc_s1 : N; hc_s2 : N }.

Definition u32 (x : N) : N := x mod 4294967296.
Definition u64 (x : N) : N := x mod 18446744073709551616.

(* k *= m; k ^= k >> r; k *= m   (uint32 arithmetic) *)
Definition mm_k (c : hconsts) (k : N) : N :=
  let k := u32 (k * hc_m c) in
  let k := N.lxor k (N.shiftr k (hc_r c)) in
  u32 (k * hc_m c).
(* h *= m; h ^= k *)
Definition mm_h (c : hconsts) (h k : N) : N := N.lxor (u32 (h * hc_m c)) k.

Definition murmur32 (c : hconsts) (ns key seed : N) : N :=
  let k1 := mm_k c (u32 (N.shiftr (u64 ns) (hc_hi1 c))) in
  let k2 := mm_k c (u32 (u64 ns)) in
  let k3 := mm_k c (u32 (N.shiftr (u64 key) (hc_hi2 c))) in
  let k4 := mm_k c (u32 (u64 key)) in
  let h := u32 seed in
  let h := mm_h c h k1 in
  let h := mm_h c h k2 in
  let h := mm_h c h k3 in
  let h := mm_h c h k4 in
  let h := N.lxor h (N.shiftr h (hc_s1 c)) in
  let h := u32 (h * hc_m c) in
  N.lxor h (N.shiftr h (hc_s2 c)).

(* ------------------------------------------------------------------ data *)

(* mInitialSize, mOverflowThreshold, mOverflowGrowThreshold *)
Record tparams := mkTP { tp_init : N; tp_ovf : N; tp_ovfgrow : N }.

Record tnode := mkTN { tn_ns : N; tn_key : N; tn_hash : N; tn_id : N }.

Inductive bstate := BUninit | BInit | BFrozen.

Record bucket := mkB { b_state : bstate; b_nodes : list tnode }.

Record head := mkH {
  h_id : N;                  (* creation number of the head (0 = NewCache's) — identity of the Go object *)
  h_buckets : list bucket;
  h_mask : N;
  h_pred : bool;             (* predecessor != nil; the predecessor is then the next head of the chain *)
  h_resizing : bool;         (* resizeInProgress *)
  h_overflow : Z;
  h_grow : Z;                (* growThreshold *)
  h_shrink : Z }.            (* shrinkThreshold *)

Record table := mkT {
  t_heads : list head;       (* Cache.mHead and its chain of predecessors, newest first *)
  t_nodes : Z;               (* statNodes *)
  t_ngrow : N;               (* statGrow *)
  t_nshrink : N;             (* statShrink *)
  t_next : N;                (* id of the next node object *)
  t_panic : bool }.

Definition ubucket : bucket := mkB BUninit [].

Definition bget (h : head) (i : N) : bucket := nth (N.to_nat i) (h_buckets h) ubucket.

Fixpoint upd_nth {A} (n : nat) (x : A) (l : list A) {struct l} : list A :=
  match l with
  | [] => []
  | y :: l' => match n with O => x :: l' | S n' => y :: upd_nth n' x l' end
  end.

Definition set_buckets (bs : list bucket) (h : head) : head :=
  mkH (h_id h) bs (h_mask h) (h_pred h) (h_resizing h) (h_overflow h) (h_grow h) (h_shrink h).
Definition bset (h : head) (i : N) (b : bucket) : head :=
  set_buckets (upd_nth (N.to_nat i) b (h_buckets h)) h.
Definition set_pred (p : bool) (h : head) : head :=
  mkH (h_id h) (h_buckets h) (h_mask h) p (h_resizing h) (h_overflow h) (h_grow h) (h_shrink h).
Definition set_resizing (r : bool) (h : head) : head :=
  mkH (h_id h) (h_buckets h) (h_mask h) (h_pred h) r (h_overflow h) (h_grow h) (h_shrink h).
Definition set_overflow (o : Z) (h : head) : head :=
  mkH (h_id h) (h_buckets h) (h_mask h) (h_pred h) (h_resizing h) o (h_grow h) (h_shrink h).

Definition hlen (h : head) : N := N.of_nat (length (h_buckets h)).

Definition set_heads (hs : list head) (t : table) : table :=
  mkT hs (t_nodes t) (t_ngrow t) (t_nshrink t) (t_next t) (t_panic t).
Definition set_tpanic (t : table) : table :=
  mkT (t_heads t) (t_nodes t) (t_ngrow t) (t_nshrink t) (t_next t) true.
Definition or_tpanic (p : bool) (t : table) : table := if p then set_tpanic t else t.

(* ------------------------------------------------------------------ mNodes *)

(* x < (ns,key) in the order of mNodes.Less *)
Definition tn_lt (ns key : N) (x : tnode) : bool :=
  if tn_ns x =? ns then tn_key x <? key else tn_ns x <? ns.
Definition tn_eq (ns key : N) (x : tnode) : bool := (tn_ns x =? ns) && (tn_key x =? key).

(* mNodes.search *)
Fixpoint search (ns key : N) (l : list tnode) : nat :=
  match l with
  | [] => O
  | x :: l' => if tn_lt ns key x then S (search ns key l') else O
  end.

(* b.nodes = append(b.nodes[:i+1], b.nodes[i:]...); b.nodes[i] = n   (or plain append when i = len) *)
Definition insert_at (i : nat) (n : tnode) (l : list tnode) : list tnode := firstn i l ++ n :: skipn i l.
(* b.nodes = append(b.nodes[:i], b.nodes[i+1:]...) *)
Definition remove_at (i : nat) (l : list tnode) : list tnode := firstn i l ++ skipn (S i) l.

(* mNodes.sort *)
Fixpoint sort_insert (x : tnode) (l : list tnode) : list tnode :=
  match l with
  | [] => [x]
  | y :: l' => if tn_lt (tn_ns y) (tn_key y) x then x :: l else y :: sort_insert x l'
  end.
Definition sort_nodes (l : list tnode) : list tnode := fold_right sort_insert [] l.

(* ------------------------------------------------------------------ mBucket.freeze, mHead.initBucket *)

(* freeze bucket j of the first head of the chain; returns the chain, the bucket's nodes, panic *)
Definition freeze_at (hs : list head) (j : N) : list head * list tnode * bool :=
  match hs with
  | [] => ([], [], true)
  | h :: rest =>
      let b := bget h j in
      match b_state b with
      | BInit => (bset h j (mkB BFrozen (b_nodes b)) :: rest, b_nodes b, false)
      | BFrozen => (hs, b_nodes b, false)
      | BUninit => (hs, b_nodes b, true)          (* "BUG: freeze uninitialized bucket" *)
      end
  end.

(* h.initBucket(i) for h the first head of the chain [hs] *)
Fixpoint init_bucket (fuel : nat) (hs : list head) (i : N) : list head * bool :=
  match fuel with
  | O => (hs, true)
  | S f =>
      match hs with
      | [] => ([], true)
      | h :: rest =>
          if negb (i <? hlen h) then (hs, true) else            (* index out of range *)
          match b_state (bget h i) with
          | BInit | BFrozen => (hs, false)
          | BUninit =>
              if negb (h_pred h) then (hs, true) else           (* "BUG: uninitialized bucket doesn't have predecessor" *)
              match rest with
              | [] => (hs, true)
              | p :: _ =>
                  if h_mask p <? h_mask h then
                    (* Grow: split the predecessor's bucket i & p.mask *)
                    let j := N.land i (h_mask p) in
                    let '(rest1, pn1) := init_bucket f rest j in
                    let '(rest2, m, pn2) := freeze_at rest1 j in
                    let nodes := filter (fun x => N.land (tn_hash x) (h_mask h) =? i) m in
                    (bset h i (mkB BInit nodes) :: rest2, pn1 || pn2)
                  else
                    (* Shrink: merge the predecessor's buckets i and i + len(h.buckets) *)
                    let '(rest1, pn1) := init_bucket f rest i in
                    let '(rest2, m0, pn2) := freeze_at rest1 i in
                    let j := i + hlen h in
                    let '(rest3, pn3) := init_bucket f rest2 j in
                    let '(rest4, m1, pn4) := freeze_at rest3 j in
                    (bset h i (mkB BInit (sort_nodes (m0 ++ m1))) :: rest4, pn1 || pn2 || pn3 || pn4)
              end
          end
      end
  end.

(* ------------------------------------------------------------------ the operations *)

Inductive top :=
| TGet (ns key : N) (get_only : bool)     (* the loop { getBucket; b.get } of Cache.Get / Delete / Evict *)
| TDel (ns key : N) (refzero : bool)      (* Cache.delete(n): the loop { getBucket; b.delete }; refzero: n.ref == 0 there *)
| TEnum                                   (* Cache.enumerateNodesWithCB: the final accumulated slice *)
| TEnumNS (ns : N)                        (* Cache.enumerateNodesByNS *)
| TInit (d : N) (i : N)                   (* background: initBucket(i) of the head at depth d *)
| TFinish (d : N).                        (* background: the end of initBuckets of the head at depth d *)

Inductive tres :=
| RNode (id : N) (created : bool)         (* done, n != nil *)
| RNone                                   (* done, n == nil *)
| RDel (deleted : bool)
| REnum (ids : list N)
| RBg (enabled : bool)                    (* a background step; false: not possible in this state (no-op) *)
| RSpin                                   (* done == false: the caller's loop would retry *)
| RTPanic.

Section Table.
Variable hashf : N -> N -> N.      (* murmur32(ns, key, 0xf00) in the code *)
Variable P : tparams.

Definition new_head (id : N) (len : nat) : head :=
  let nlen := N.of_nat len in
  mkH id (repeat ubucket len) (nlen - 1) true false 0%Z (Z.of_N (nlen * tp_ovf P)) (Z.of_N (N.shiftr nlen 1)).

(* NewCache *)
Definition head0 : head :=
  mkH 0 (repeat (mkB BInit []) (N.to_nat (tp_init P))) (tp_init P - 1) false false 0%Z
      (Z.of_N (tp_init P * tp_ovf P)) 0%Z.
Definition tinit : table := mkT [head0] 0%Z 0 0 0 false.

(* Cache.getBucket: the newest head, bucket hash & mask initialised *)
Definition get_bucket (hash : N) (t : table) : table * N :=
  match t_heads t with
  | [] => (set_tpanic t, 0)
  | h :: _ =>
      let i := N.land hash (h_mask h) in
      let '(hs, pn) := init_bucket (length (t_heads t)) (t_heads t) i in
      (or_tpanic pn (set_heads hs t), i)
  end.

Definition t_get (ns key : N) (get_only : bool) (t : table) : table * tres :=
  let hash := hashf ns key in
  let '(t1, i) := get_bucket hash t in
  match t_heads t1 with
  | [] => (set_tpanic t1, RTPanic)
  | h :: rest =>
      let b := bget h i in
      match b_state b with
      | BFrozen => (t1, RSpin)
      | BUninit => (set_tpanic t1, RTPanic)                  (* "BUG: accessing uninitialized bucket" *)
      | BInit =>
          let k := search ns key (b_nodes b) in
          match (match nth_error (b_nodes b) k with
                 | Some n => if tn_eq ns key n then Some n else None
                 | None => None
                 end) with
          | Some n => (t1, RNode (tn_id n) false)
          | None =>
              if get_only then (t1, RNone) else
              let n := mkTN ns key hash (t_next t1) in
              let nodes := insert_at k n (b_nodes b) in
              let blen := N.of_nat (length nodes) in
              let h1 := bset h i (mkB BInit nodes) in
              let stat := (t_nodes t1 + 1)%Z in
              let grow0 := (h_grow h <=? stat)%Z in
              let '(grow, ovf) :=
                if tp_ovf P <? blen then
                  (if grow0 then (true, h_overflow h)
                   else ((Z.of_N (tp_ovfgrow P) <=? h_overflow h + 1)%Z, (h_overflow h + 1)%Z))
                else (grow0, h_overflow h) in
              let h2 := set_overflow ovf h1 in
              if grow && negb (h_resizing h) then
                let nh := new_head (t_ngrow t1 + t_nshrink t1 + 1) (2 * length (h_buckets h)) in
                (mkT (nh :: set_resizing true h2 :: rest) stat (t_ngrow t1 + 1) (t_nshrink t1) (t_next t1 + 1) (t_panic t1),
                 RNode (tn_id n) true)
              else
                (mkT (h2 :: rest) stat (t_ngrow t1) (t_nshrink t1) (t_next t1 + 1) (t_panic t1), RNode (tn_id n) true)
          end
      end
  end.

Definition t_delete (ns key : N) (refzero : bool) (t : table) : table * tres :=
  let hash := hashf ns key in
  let '(t1, i) := get_bucket hash t in
  match t_heads t1 with
  | [] => (set_tpanic t1, RTPanic)
  | h :: rest =>
      let b := bget h i in
      match b_state b with
      | BFrozen => (t1, RSpin)
      | BUninit => (set_tpanic t1, RTPanic)
      | BInit =>
          let k := search ns key (b_nodes b) in
          match nth_error (b_nodes b) k with
          | None => (t1, RDel false)
          | Some n =>
              if tn_eq ns key n && refzero then
                let nodes := remove_at k (b_nodes b) in
                let blen := N.of_nat (length nodes) in
                let h1 := bset h i (mkB BInit nodes) in
                let stat := (t_nodes t1 - 1)%Z in
                let shrink := (stat <? h_shrink h)%Z in
                let h2 := if tp_ovf P <=? blen then set_overflow (h_overflow h - 1)%Z h1 else h1 in
                if shrink && (tp_init P <? hlen h) && negb (h_resizing h) then
                  let nh := new_head (t_ngrow t1 + t_nshrink t1 + 1) (Nat.div2 (length (h_buckets h))) in
                  (mkT (nh :: set_resizing true h2 :: rest) stat (t_ngrow t1) (t_nshrink t1 + 1) (t_next t1) (t_panic t1),
                   RDel true)
                else
                  (mkT (h2 :: rest) stat (t_ngrow t1) (t_nshrink t1) (t_next t1) (t_panic t1), RDel true)
              else (t1, RDel false)
          end
      end
  end.

(* for x := range h.buckets { b := h.initBucket(x); nodes = append(nodes, pick(b.nodes)...) } on the newest head *)
Definition enum_step (pick : list tnode -> list tnode) (acc : list head * bool * list tnode) (x : nat)
  : list head * bool * list tnode :=
  let '(hs, pn, out) := acc in
  let '(hs1, pn1) := init_bucket (length hs) hs (N.of_nat x) in
  match hs1 with
  | [] => (hs1, true, out)
  | h :: _ => (hs1, pn || pn1, out ++ pick (b_nodes (bget h (N.of_nat x))))
  end.

Definition enumerate (pick : list tnode -> list tnode) (t : table) : table * list tnode :=
  match t_heads t with
  | [] => (set_tpanic t, [])
  | h :: _ =>
      let '(hs, pn, out) := fold_left (enum_step pick) (seq 0 (length (h_buckets h))) (t_heads t, false, []) in
      (or_tpanic pn (set_heads hs t), out)
  end.

(* enumerateNodesByNS: from search(ns, 0) while n.ns == ns *)
Fixpoint take_ns (ns : N) (l : list tnode) : list tnode :=
  match l with
  | [] => []
  | x :: l' => if tn_ns x =? ns then x :: take_ns ns l' else []
  end.
Definition pick_ns (ns : N) (l : list tnode) : list tnode := take_ns ns (skipn (search ns 0 l) l).

Definition all_init (h : head) : bool :=
  forallb (fun b => match b_state b with BUninit => false | _ => true end) (h_buckets h).

Definition t_init_bg (d i : N) (t : table) : table * tres :=
  let dn := N.to_nat d in
  match skipn dn (t_heads t) with
  | [] => (t, RBg false)
  | h :: _ =>
      if i <? hlen h then
        let '(hs, pn) := init_bucket (length (t_heads t)) (skipn dn (t_heads t)) i in
        (or_tpanic pn (set_heads (firstn dn (t_heads t) ++ hs) t), RBg true)
      else (t, RBg false)
  end.

Definition t_finish_bg (d : N) (t : table) : table * tres :=
  let dn := N.to_nat d in
  match skipn dn (t_heads t) with
  | [] => (t, RBg false)
  | h :: _ =>
      if h_pred h && all_init h then
        (set_heads (firstn dn (t_heads t) ++ [set_pred false h]) t, RBg true)
      else (t, RBg false)
  end.

Definition tstep_raw (t : table) (o : top) : table * tres :=
  match o with
  | TGet ns key g => t_get ns key g t
  | TDel ns key z => t_delete ns key z t
  | TEnum => let (t', l) := enumerate (fun l => l) t in (t', REnum (map tn_id l))
  | TEnumNS ns => let (t', l) := enumerate (pick_ns ns) t in (t', REnum (map tn_id l))
  | TInit d i => t_init_bg d i t
  | TFinish d => t_finish_bg d t
  end.

Definition tstep (t : table) (o : top) : table * tres :=
  let (t', r) := tstep_raw t o in (t', if t_panic t' then RTPanic else r).

Fixpoint trun (t : table) (ops : list top) : table * list tres :=
  match ops with
  | [] => (t, [])
  | o :: ops' => let (t1, r) := tstep t o in let (t2, rs) := trun t1 ops' in (t2, r :: rs)
  end.

(* ------------------------------------------------------------------ the specification: a finite map *)

(* the map of Conc/Cache.v restricted to what the table knows: a list of nodes sorted by (ns,key)
   ([km_insert] is Cache.insert_node, [km_find] is Cache.find_key on the key projection) *)
Record kmap := mkKM { km_nodes : list tnode; km_next : N }.

Definition km_find (ns key : N) (l : list tnode) : option tnode := find (tn_eq ns key) l.
Definition km_insert (x : tnode) (l : list tnode) : list tnode := sort_insert x l.
Definition km_remove (ns key : N) (l : list tnode) : list tnode := filter (fun x => negb (tn_eq ns key x)) l.

Definition mstep (m : kmap) (o : top) : kmap * tres :=
  match o with
  | TGet ns key g =>
      match km_find ns key (km_nodes m) with
      | Some n => (m, RNode (tn_id n) false)
      | None =>
          if g then (m, RNone)
          else (mkKM (km_insert (mkTN ns key (hashf ns key) (km_next m)) (km_nodes m)) (km_next m + 1),
                RNode (km_next m) true)
      end
  | TDel ns key z =>
      match km_find ns key (km_nodes m) with
      | Some n => if z then (mkKM (km_remove ns key (km_nodes m)) (km_next m), RDel true) else (m, RDel false)
      | None => (m, RDel false)
      end
  | TEnum => (m, REnum (map tn_id (km_nodes m)))
  | TEnumNS ns => (m, REnum (map tn_id (filter (fun x => tn_ns x =? ns) (km_nodes m))))
  | TInit _ _ | TFinish _ => (m, RBg true)
  end.

Definition minit : kmap := mkKM [] 0.

Fixpoint mrun (m : kmap) (ops : list top) : kmap * list tres :=
  match ops with
  | [] => (m, [])
  | o :: ops' => let (m1, r) := mstep m o in let (m2, rs) := mrun m1 ops' in (m2, r :: rs)
  end.

(* ------------------------------------------------------------------ what the table means *)

(* the LOGICAL contents of bucket i of the first head of a chain: its own nodes once it is initialised,
   otherwise what initBucket would put there *)
Fixpoint content (hs : list head) (i : N) : list tnode :=
  match hs with
  | [] => []
  | h :: rest =>
      match b_state (bget h i) with
      | BInit | BFrozen => b_nodes (bget h i)
      | BUninit =>
          match rest with
          | [] => []
          | p :: _ =>
              if h_mask p <? h_mask h then
                filter (fun x => N.land (tn_hash x) (h_mask h) =? i) (content rest (N.land i (h_mask p)))
              else sort_nodes (content rest i ++ content rest (i + hlen h))
          end
      end
  end.

Definition indices (h : head) : list N := map N.of_nat (seq 0 (length (h_buckets h))).

(* all nodes of the table, bucket by bucket of the newest head *)
Definition live (t : table) : list tnode :=
  match t_heads t with
  | [] => []
  | h :: _ => flat_map (content (t_heads t)) (indices h)
  end.

(* the physical layout, for the correspondence check: per head (newest first)
   (mask, predecessor != nil, resizeInProgress, overflow, [per bucket (state code, node ids)]) *)
Definition bcode (s : bstate) : N := match s with BUninit => 0 | BInit => 1 | BFrozen => 2 end.
Definition layout (t : table) : list (N * bool * bool * Z * list (N * list N)) :=
  map (fun h => (h_mask h, h_pred h, h_resizing h, h_overflow h,
                 map (fun b => (bcode (b_state b), map tn_id (b_nodes b))) (h_buckets h))) (t_heads t).

End Table.
