(* Conc/WriteMergeTrace.v — the event acceptor of Corr/C10Run.v only ever moves by [step]:
   an accepted event trace is the visible part of a run of the transition system. *)
From Coq Require Import List NArith Bool Arith Lia.
From GL Require Import Conc.WriteMerge Conc.WriteMergeProofs Gen.InstC10 Corr.C10Run.
Import ListNotations.

Lemma run_app mp l1 : forall s l2,
  run mp s (l1 ++ l2) = match run mp s l1 with Some s1 => run mp s1 l2 | None => None end.
Proof. induction l1; simpl; intros; auto. destruct (step mp s a); auto. Qed.

Lemma run_trans mp s l1 s1 l2 s2 : run mp s l1 = Some s1 -> run mp s1 l2 = Some s2 -> run mp s (l1 ++ l2) = Some s2.
Proof. intros H1 H2. rewrite run_app, H1. auto. Qed.

Lemma runa_sound x l y : runa x l = Some y -> run wmp (st x) l = Some (st y).
Proof. unfold runa. destruct (run wmp (st x) l); intros H; inversion H; subst; auto. Qed.

Lemma force_acks_sound f : forall l s s', force_acks f l s = Some s' -> exists acts, run wmp s acts = Some s'.
Proof.
  induction f; cbn [force_acks]; intros l s s' H.
  - inversion H; subst. exists []. auto.
  - destruct (getw s l); try discriminate. destruct (pc w); try discriminate.
    destruct (i <? lmerged c).
    + destruct (find_w is_waitack s); try discriminate.
      destruct (step wmp s (AAck l n)) eqn:E; try discriminate.
      destruct (IHf _ _ _ H) as [acts Ha]. exists (AAck l n :: acts). cbn [run]. rewrite E. auto.
    + inversion H; subst. exists []. auto.
Qed.

Ltac dmt :=
  repeat match goal with
  | H : match ?x with _ => _ end = Some _ |- _ =>
      let E := fresh "E" in destruct x eqn:E; try discriminate
  | H : (if ?x then _ else _) = Some _ |- _ =>
      let E := fresh "E" in destruct x eqn:E; try discriminate
  end.

Lemma feed_sound x e y : feed x e = Some y -> exists acts, run wmp (st x) acts = Some (st y).
Proof.
  intros H. destruct e; unfold feed in H; dmt;
  repeat match goal with
  | H : Some _ = Some _ |- _ => inversion H; subst; clear H
  end;
  repeat match goal with
  | H : runa _ _ = Some _ |- _ => apply runa_sound in H; cbn [st mk] in H
  | H : force_acks _ _ _ = Some _ |- _ => apply force_acks_sound in H; destruct H as [? H]
  end; cbn [st mk] in *;
  try (eexists; eassumption);
  try (exists []; reflexivity);
  try (eexists; eapply run_trans; eassumption).
Qed.

Theorem feed_all_sound l : forall x y, feed_all x l = Some y -> exists acts, run wmp (st x) acts = Some (st y).
Proof.
  induction l; simpl; intros x y H.
  - inversion H; subst. exists []. auto.
  - destruct (feed x a) eqn:E; try discriminate.
    destruct (feed_sound _ _ _ E) as [a1 H1]. destruct (IHl _ _ H) as [a2 H2].
    exists (a1 ++ a2). eapply run_trans; eauto.
Qed.

(* an accepted case is a reachable, quiescent state of the system with n writers *)
Theorem run_case_sound n evs files complete : run_case (CTrace n evs files complete) = true ->
  exists s, reachable wmp n s /\ quiescent s = true.
Proof.
  unfold run_case. destruct (feed_all (mk (init n) 0 0 []) evs) eqn:E; try discriminate.
  intros H. apply andb_true_iff in H. destruct H as [Hq _].
  destruct (feed_all_sound _ _ _ E) as [acts Ha]. exists (st a). split; auto. exists acts. exact Ha.
Qed.
