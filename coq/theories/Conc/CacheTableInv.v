(* Conc/CacheTableInv.v — the structural invariant of the chain of table heads ([chain_ok]), what the
   logical contents of a bucket look like under it ([content_ok]), and the effect of mBucket.freeze and
   mHead.initBucket: they change the REPRESENTATION only (a bucket goes uninitialised -> initialised ->
   frozen, its nodes are fixed once it is initialised), never the logical contents. *)
From GL Require Import Conc.CacheTable Conc.CacheTableLemmas.
From Coq Require Import Lia Sorted.

Section Inv.
Variable hashf : N -> N -> N.

(* a node in bucket i of head h: its hash selects that bucket under h's mask, and is the hash of its key *)
Definition placed (h : head) (i : N) (x : tnode) : Prop :=
  N.land (tn_hash x) (h_mask h) = i /\ tn_hash x = hashf (tn_ns x) (tn_key x).
Definition nodes_ok (h : head) (i : N) (l : list tnode) : Prop :=
  ssorted l /\ (forall x, In x l -> placed h i x).
(* 2^e buckets, mask 2^e - 1 *)
Definition shape (h : head) (e : N) : Prop := h_mask h = N.ones e /\ hlen h = 2 ^ e.
Definition head_ok (h : head) : Prop :=
  forall i, i < hlen h -> b_state (bget h i) <> BUninit -> nodes_ok h i (b_nodes (bget h i)).
(* a head and its predecessor: one has twice the buckets of the other *)
Definition link (h p : head) : Prop :=
  exists e, (shape h (e + 1) /\ shape p e) \/ (shape h e /\ shape p (e + 1)).

Definition tail_ok (h : head) (rest : list head) : Prop :=
  match rest with
  | [] => h_pred h = false /\ (exists e, shape h e) /\ (forall i, i < hlen h -> b_state (bget h i) <> BUninit)
  | p :: _ => h_pred h = true /\ link h p
  end.

Fixpoint chain_ok (hs : list head) : Prop :=
  match hs with
  | [] => False
  | h :: rest => head_ok h /\ tail_ok h rest /\ match rest with [] => True | _ => chain_ok rest end
  end.

(* ---- evolution of the representation *)
Definition bucket_le (b b' : bucket) : Prop :=
  match b_state b with
  | BUninit => True
  | BInit => b_nodes b' = b_nodes b /\ b_state b' <> BUninit
  | BFrozen => b' = b
  end.
Definition head_le (h h' : head) : Prop :=
  h_id h' = h_id h /\ h_mask h' = h_mask h /\ h_pred h' = h_pred h /\ h_resizing h' = h_resizing h /\
  h_overflow h' = h_overflow h /\ h_grow h' = h_grow h /\ h_shrink h' = h_shrink h /\
  length (h_buckets h') = length (h_buckets h) /\ forall i, bucket_le (bget h i) (bget h' i).
Definition evolves : list head -> list head -> Prop := Forall2 head_le.

Lemma bucket_le_refl : forall b, bucket_le b b.
Proof. intro b. unfold bucket_le. destruct (b_state b) eqn:E; auto. split; auto. congruence. Qed.

Lemma bucket_le_trans : forall a b c, bucket_le a b -> bucket_le b c -> bucket_le a c.
Proof.
  intros a b c. unfold bucket_le. destruct (b_state a) eqn:Ea; auto.
  - intros [Hn Hs]. destruct (b_state b) eqn:Eb.
    + exfalso. apply Hs. reflexivity.
    + intros [Hn' Hs']. split; congruence.
    + intros ->. split; congruence.
  - intros ->. rewrite Ea. auto.
Qed.

Lemma head_le_refl : forall h, head_le h h.
Proof. intro h. unfold head_le. repeat split; auto. intro; apply bucket_le_refl. Qed.

Lemma head_le_trans : forall a b c, head_le a b -> head_le b c -> head_le a c.
Proof.
  unfold head_le. intros a b c (A1 & A2 & A3 & A4 & A5 & A6 & A7 & A8 & A9) (B1 & B2 & B3 & B4 & B5 & B6 & B7 & B8 & B9).
  repeat split; try congruence. intro i. eapply bucket_le_trans; eauto.
Qed.

Lemma evolves_refl : forall l, evolves l l.
Proof. induction l; constructor; auto. apply head_le_refl. Qed.

Lemma evolves_trans : forall a b c, evolves a b -> evolves b c -> evolves a c.
Proof.
  intros a b c H. revert c. induction H; intros c Hc; inversion Hc; subst; constructor.
  - eapply head_le_trans; eauto.
  - apply IHForall2; auto.
Qed.

Lemma evolves_length : forall a b, evolves a b -> length a = length b.
Proof. intros a b H. induction H; simpl; auto. Qed.

Lemma head_le_hlen : forall h h', head_le h h' -> hlen h' = hlen h.
Proof. unfold head_le, hlen. intros h h' H. decompose [and] H. congruence. Qed.

Lemma head_le_mask : forall h h', head_le h h' -> h_mask h' = h_mask h.
Proof. unfold head_le. intros h h' H. decompose [and] H. congruence. Qed.

Lemma head_le_shape : forall h h' e, head_le h h' -> shape h e -> shape h' e.
Proof.
  unfold shape. intros h h' e H [Hm Hl]. rewrite (head_le_mask _ _ H), (head_le_hlen _ _ H). auto.
Qed.

(* ---- bget / bset *)
Lemma hlen_bset : forall h i b, hlen (bset h i b) = hlen h.
Proof. intros. unfold hlen, bset. simpl. rewrite length_upd_nth. reflexivity. Qed.

Lemma bget_bset_eq : forall h i b, i < hlen h -> bget (bset h i b) i = b.
Proof. intros. unfold bget, bset, hlen in *. simpl. apply nth_upd_nth_eq. lia. Qed.

Lemma bget_bset_neq : forall h i j b, i <> j -> bget (bset h i b) j = bget h j.
Proof. intros. unfold bget, bset. simpl. apply nth_upd_nth_neq. lia. Qed.

Lemma bget_out : forall h i, hlen h <= i -> bget h i = ubucket.
Proof. intros. unfold bget, hlen in *. apply nth_overflow. lia. Qed.

Lemma head_le_bset : forall h i b, b_state (bget h i) = BUninit -> head_le h (bset h i b).
Proof.
  intros. unfold head_le. simpl. rewrite length_upd_nth. repeat split; auto.
  intro j. destruct (N.eq_dec i j).
  - subst. unfold bucket_le. rewrite H. exact I.
  - rewrite bget_bset_neq by auto. apply bucket_le_refl.
Qed.

(* ---- links *)
Lemma ones_ltb_succ : forall e, N.ones e <? N.ones (e + 1) = true.
Proof. intro. apply N.ltb_lt. rewrite ones_succ. lia. Qed.
Lemma ones_ltb_succ' : forall e, N.ones (e + 1) <? N.ones e = false.
Proof. intro. apply N.ltb_ge. rewrite ones_succ. lia. Qed.

Lemma link_cases : forall h p, link h p ->
  (h_mask p <? h_mask h = true /\ exists e, shape h (e + 1) /\ shape p e) \/
  (h_mask p <? h_mask h = false /\ exists e, shape h e /\ shape p (e + 1)).
Proof.
  intros h p [e [[Hh Hp]|[Hh Hp]]].
  - left. split; [|eauto]. destruct Hh as [-> _], Hp as [-> _]. apply ones_ltb_succ.
  - right. split; [|eauto]. destruct Hh as [-> _], Hp as [-> _]. apply ones_ltb_succ'.
Qed.

Lemma link_le : forall h h' p p', link h p -> head_le h h' -> head_le p p' -> link h' p'.
Proof.
  intros h h' p p' [e [[Hh Hp]|[Hh Hp]]] H1 H2; exists e; [left|right]; split; eapply head_le_shape; eauto.
Qed.

Lemma chain_ok_tail : forall h p r, chain_ok (h :: p :: r) -> chain_ok (p :: r).
Proof. intros h p r (_ & _ & H). exact H. Qed.

Lemma chain_ok_head : forall h rest, chain_ok (h :: rest) -> head_ok h.
Proof. intros h rest (H & _). exact H. Qed.

Lemma chain_ok_link : forall h p r, chain_ok (h :: p :: r) -> link h p /\ h_pred h = true.
Proof. intros h p r (_ & (Hp & Hl) & _). auto. Qed.

Lemma chain_ok_shape : forall h rest, chain_ok (h :: rest) -> exists e, shape h e.
Proof.
  intros h rest (_ & Ht & _). destruct rest as [|p r]; simpl in Ht.
  - destruct Ht as (_ & He & _). exact He.
  - destruct Ht as (_ & [e [[Hh _]|[Hh _]]]); eauto.
Qed.

Lemma land_mask_lt : forall h x, (exists e, shape h e) -> N.land x (h_mask h) < hlen h.
Proof. intros h x [e [Hm Hl]]. rewrite Hm, Hl. apply land_ones_lt. Qed.

(* ------------------------------------------------------------------ contents *)

Lemma content_cons_init : forall h rest i, b_state (bget h i) <> BUninit ->
  content (h :: rest) i = b_nodes (bget h i).
Proof. intros. simpl. destruct (b_state (bget h i)); congruence. Qed.

Lemma content_unfold1 : forall h rest i, content (h :: rest) i =
  match b_state (bget h i) with
  | BInit | BFrozen => b_nodes (bget h i)
  | BUninit =>
      match rest with
      | [] => []
      | p :: _ =>
          if h_mask p <? h_mask h then
            filter (fun x => N.land (tn_hash x) (h_mask h) =? i) (content rest (N.land i (h_mask p)))
          else sort_nodes (content rest i ++ content rest (i + hlen h))
      end
  end.
Proof. reflexivity. Qed.

Lemma content_unfold : forall h p r i, content (h :: p :: r) i =
  match b_state (bget h i) with
  | BInit | BFrozen => b_nodes (bget h i)
  | BUninit =>
      if h_mask p <? h_mask h then
        filter (fun x => N.land (tn_hash x) (h_mask h) =? i) (content (p :: r) (N.land i (h_mask p)))
      else sort_nodes (content (p :: r) i ++ content (p :: r) (i + hlen h))
  end.
Proof. reflexivity. Qed.

Lemma content_congr : forall h h' p p' r r' i,
  h_mask h' = h_mask h -> hlen h' = hlen h -> bget h' i = bget h i -> h_mask p' = h_mask p ->
  link h p -> i < hlen h ->
  (forall j, j < hlen p -> content (p' :: r') j = content (p :: r) j) ->
  content (h' :: p' :: r') i = content (h :: p :: r) i.
Proof.
  intros h h' p p' r r' i Hm Hl Hb Hmp Hlink Hi Hc.
  rewrite (content_unfold h' p' r'), (content_unfold h p r). rewrite Hb. destruct (b_state (bget h i)); auto.
  rewrite Hm, Hmp, Hl.
  destruct (link_cases _ _ Hlink) as [[Hlt [e [Hh Hp]]]|[Hlt [e [Hh Hp]]]]; rewrite Hlt.
  - f_equal. apply Hc. destruct Hp as [-> ->]. apply land_ones_lt.
  - destruct Hh as [_ Hhl], Hp as [_ Hpl]. rewrite Hhl in *. f_equal. f_equal.
    + apply Hc. rewrite Hpl, pow_succ1. lia.
    + apply Hc. rewrite Hpl, pow_succ1. lia.
Qed.

Lemma nodes_ok_nodup_keys : forall h i l, nodes_ok h i l -> NoDup (map tkey l).
Proof. intros h i l [Hs _]. apply ssorted_keys_nodup; auto. Qed.

(* nodes with the same key have the same hash, hence live in the same bucket *)
Lemma placed_same_key : forall h i j x y, placed h i x -> placed h j y -> tkey x = tkey y -> i = j.
Proof.
  intros h i j x y [Hx Hhx] [Hy Hhy] E. unfold tkey in E. inversion E.
  rewrite <- Hx, <- Hy, Hhx, Hhy. congruence.
Qed.

Lemma content_ok : forall hs, chain_ok hs -> forall h rest, hs = h :: rest ->
  forall i, i < hlen h -> nodes_ok h i (content hs i).
Proof.
  induction hs as [|h0 rest0 IH]; intros Hok h rest E i Hi; [discriminate|].
  inversion E; subst h0 rest0. clear E.
  destruct (b_state (bget h i)) eqn:Es.
  2,3: rewrite content_cons_init by congruence; apply (chain_ok_head _ _ Hok); auto; congruence.
  destruct rest as [|p r].
  { destruct Hok as (_ & (_ & _ & Hall) & _). exfalso. apply (Hall i); auto. }
  pose proof (chain_ok_tail _ _ _ Hok) as Hokp.
  destruct (chain_ok_link _ _ _ Hok) as [Hlink _].
  rewrite content_unfold, Es.
  destruct (link_cases _ _ Hlink) as [[Hlt [e [Hh Hp]]]|[Hlt [e [Hh Hp]]]]; rewrite Hlt.
  - (* grow *)
    assert (Hj : N.land i (h_mask p) < hlen p) by (destruct Hp as [-> ->]; apply land_ones_lt).
    destruct (IH Hokp p r eq_refl _ Hj) as [Hs Hpl]. split.
    + apply ssorted_filter; auto.
    + intros x Hx. apply filter_In in Hx. destruct Hx as [Hx Hf]. apply N.eqb_eq in Hf.
      split; auto. apply (Hpl x Hx).
  - (* shrink *)
    destruct Hh as [Hhm Hhl], Hp as [Hpm Hpl]. rewrite Hhl in *.
    assert (Hi1 : i < hlen p) by (rewrite Hpl, pow_succ1; lia).
    assert (Hi2 : i + 2 ^ e < hlen p) by (rewrite Hpl, pow_succ1; lia).
    pose proof (IH Hokp p r eq_refl _ Hi1) as H1.
    pose proof (IH Hokp p r eq_refl _ Hi2) as H2.
    split.
    + apply sort_nodes_sorted. rewrite map_app. apply NoDup_app_intro.
      * eapply nodes_ok_nodup_keys; eauto.
      * eapply nodes_ok_nodup_keys; eauto.
      * intros k Hk1 Hk2. apply in_map_iff in Hk1. apply in_map_iff in Hk2.
        destruct Hk1 as [x [Ex Hx]], Hk2 as [y [Ey Hy]].
        assert (i = i + 2 ^ e).
        { eapply placed_same_key; [apply (proj2 H1 x Hx)|apply (proj2 H2 y Hy)|congruence]. }
        pose proof (N.pow_nonzero 2 e). lia.
    + intros x Hx. rewrite sort_nodes_in in Hx. apply in_app_or in Hx.
      destruct Hx as [Hx|Hx].
      * destruct (proj2 H1 x Hx) as [Hl Hh]. split; auto. rewrite Hhm. rewrite Hpm in Hl.
        rewrite land_coarsen, Hl. apply land_ones_small; auto.
      * destruct (proj2 H2 x Hx) as [Hl Hh]. split; auto. rewrite Hhm. rewrite Hpm in Hl.
        rewrite land_coarsen, Hl. apply land_ones_add_pow; auto.
Qed.

(* ------------------------------------------------------------------ replacing the first head *)

Lemma chain_ok_replace_head : forall h h' rest, chain_ok (h :: rest) -> head_ok h' ->
  h_pred h' = h_pred h -> h_mask h' = h_mask h -> hlen h' = hlen h ->
  (forall i, b_state (bget h i) <> BUninit -> b_state (bget h' i) <> BUninit) ->
  chain_ok (h' :: rest).
Proof.
  intros h h' rest (Hh & Ht & Hr) Hh' Hp Hm Hl Hst. split; [auto|]. split; [|auto].
  destruct rest as [|p r]; simpl in *.
  - destruct Ht as (Hpf & [e [Hem Hel]] & Hall). split; [congruence|]. split.
    + exists e. split; congruence.
    + intros i Hi. apply Hst, Hall. congruence.
  - destruct Ht as (Hpt & [e Hlk]). split; [congruence|]. exists e. unfold shape in *.
    rewrite Hm, Hl. exact Hlk.
Qed.

Lemma chain_ok_replace_tail : forall h p p' r r', chain_ok (h :: p :: r) -> chain_ok (p' :: r') ->
  head_le p p' -> chain_ok (h :: p' :: r').
Proof.
  intros h p p' r r' (Hh & (Hp & Hl) & Hr) Hok Hle. split; [auto|]. split; [|exact Hok].
  split; auto. eapply link_le; eauto. apply head_le_refl.
Qed.

(* ------------------------------------------------------------------ mBucket.freeze *)

Lemma freeze_ok : forall h rest j, chain_ok (h :: rest) -> j < hlen h -> b_state (bget h j) <> BUninit ->
  exists h', freeze_at (h :: rest) j = (h' :: rest, b_nodes (bget h j), false) /\
    chain_ok (h' :: rest) /\ head_le h h' /\
    (forall i, content (h' :: rest) i = content (h :: rest) i) /\
    b_state (bget h' j) = BFrozen /\ b_nodes (bget h' j) = b_nodes (bget h j) /\
    (forall i, i <> j -> bget h' i = bget h i).
Proof.
  intros h rest j Hok Hj Hs. unfold freeze_at.
  destruct (b_state (bget h j)) eqn:Es; [congruence| |].
  - (* initialised -> frozen *)
    set (b' := mkB BFrozen (b_nodes (bget h j))).
    exists (bset h j b'). split; [reflexivity|].
    assert (Hbj : bget (bset h j b') j = b') by (apply bget_bset_eq; auto).
    assert (Hle : head_le h (bset h j b')).
    { unfold head_le. simpl. rewrite length_upd_nth. repeat split; auto. intro i.
      destruct (N.eq_dec j i).
      - subst i. rewrite Hbj. unfold bucket_le. rewrite Es. simpl. split; [auto|discriminate].
      - rewrite bget_bset_neq by auto. apply bucket_le_refl. }
    split; [|split; [exact Hle|]].
    + apply (chain_ok_replace_head h); auto; try (rewrite hlen_bset; auto).
      * intros i Hi Hsi. rewrite hlen_bset in Hi. destruct (N.eq_dec j i).
        -- subst i. rewrite Hbj. simpl. pose proof (chain_ok_head _ _ Hok j Hj) as H. rewrite Es in H.
           destruct H as [Hso Hpl]; [discriminate|]. split; auto.
        -- rewrite bget_bset_neq in * by auto. destruct (chain_ok_head _ _ Hok i Hi Hsi) as [Hso Hpl].
           split; auto.
      * intros i Hsi. destruct (N.eq_dec j i); [subst; rewrite Hbj; discriminate|].
        rewrite bget_bset_neq by auto. auto.
    + split; [|split; [rewrite Hbj; reflexivity|split; [rewrite Hbj; reflexivity|]]].
      * intro i. destruct (N.eq_dec j i).
        -- subst i. rewrite !content_cons_init by (rewrite ?Hbj, ?Es; discriminate). rewrite Hbj. reflexivity.
        -- rewrite !content_unfold1. rewrite bget_bset_neq by auto. simpl h_mask. rewrite hlen_bset. reflexivity.
      * intros i Hi. apply bget_bset_neq. auto.
  - (* already frozen *)
    exists h. split; [reflexivity|]. split; [auto|]. split; [apply head_le_refl|].
    repeat split; auto.
Qed.

(* ------------------------------------------------------------------ mHead.initBucket *)

Definition init_spec (fuel : nat) : Prop :=
  forall h rest i, (length (h :: rest) <= fuel)%nat -> chain_ok (h :: rest) -> i < hlen h ->
  exists h' rest', init_bucket fuel (h :: rest) i = (h' :: rest', false) /\
    chain_ok (h' :: rest') /\ head_le h h' /\ evolves rest rest' /\
    (forall i', i' < hlen h -> content (h' :: rest') i' = content (h :: rest) i') /\
    b_state (bget h' i) <> BUninit /\
    (forall i', b_state (bget h' i') = BFrozen -> b_state (bget h i') = BFrozen).

(* initialise, then freeze, bucket j of the first head of the chain p :: r *)
Lemma init_freeze : forall f, init_spec f -> forall p r j, (length (p :: r) <= f)%nat -> chain_ok (p :: r) -> j < hlen p ->
  exists p1 r1 p2, init_bucket f (p :: r) j = (p1 :: r1, false) /\
    freeze_at (p1 :: r1) j = (p2 :: r1, content (p :: r) j, false) /\
    chain_ok (p2 :: r1) /\ head_le p p2 /\ evolves r r1 /\
    (forall i', i' < hlen p -> content (p2 :: r1) i' = content (p :: r) i').
Proof.
  intros f IH p r j Hlen Hok Hj.
  destruct (IH p r j Hlen Hok Hj) as (p1 & r1 & E1 & Hok1 & Hle1 & Hev1 & Hc1 & Hs1 & _).
  assert (Hj1 : j < hlen p1) by (rewrite (head_le_hlen _ _ Hle1); auto).
  destruct (freeze_ok p1 r1 j Hok1 Hj1 Hs1) as (p2 & E2 & Hok2 & Hle2 & Hc2 & _).
  exists p1, r1, p2. split; [exact E1|]. split.
  - rewrite E2. f_equal. f_equal. rewrite <- (Hc1 j Hj). rewrite content_cons_init by auto. reflexivity.
  - split; [exact Hok2|]. split; [eapply head_le_trans; eauto|]. split; [exact Hev1|].
    intros i' Hi'. rewrite Hc2. apply Hc1; auto.
Qed.

Lemma init_bucket_S : forall f h rest i,
  init_bucket (S f) (h :: rest) i =
    if negb (i <? hlen h) then (h :: rest, true) else
    match b_state (bget h i) with
    | BInit | BFrozen => (h :: rest, false)
    | BUninit =>
        if negb (h_pred h) then (h :: rest, true) else
        match rest with
        | [] => (h :: rest, true)
        | p :: _ =>
            if h_mask p <? h_mask h then
              let j := N.land i (h_mask p) in
              let '(rest1, pn1) := init_bucket f rest j in
              let '(rest2, m, pn2) := freeze_at rest1 j in
              let nodes := filter (fun x => N.land (tn_hash x) (h_mask h) =? i) m in
              (bset h i (mkB BInit nodes) :: rest2, pn1 || pn2)
            else
              let '(rest1, pn1) := init_bucket f rest i in
              let '(rest2, m0, pn2) := freeze_at rest1 i in
              let j := i + hlen h in
              let '(rest3, pn3) := init_bucket f rest2 j in
              let '(rest4, m1, pn4) := freeze_at rest3 j in
              (bset h i (mkB BInit (sort_nodes (m0 ++ m1))) :: rest4, pn1 || pn2 || pn3 || pn4)
        end
    end.
Proof. reflexivity. Qed.

(* what putting the computed contents into the uninitialised bucket i of h does *)
Lemma init_fill : forall h p r p' r' i nodes,
  chain_ok (h :: p :: r) -> i < hlen h -> b_state (bget h i) = BUninit ->
  chain_ok (p' :: r') -> head_le p p' -> evolves r r' ->
  (forall j, j < hlen p -> content (p' :: r') j = content (p :: r) j) ->
  nodes = content (h :: p :: r) i ->
  let h' := bset h i (mkB BInit nodes) in
  chain_ok (h' :: p' :: r') /\ head_le h h' /\ evolves (p :: r) (p' :: r') /\
  (forall i', i' < hlen h -> content (h' :: p' :: r') i' = content (h :: p :: r) i') /\
  b_state (bget h' i) <> BUninit /\
  (forall i', b_state (bget h' i') = BFrozen -> b_state (bget h i') = BFrozen).
Proof.
  intros h p r p' r' i nodes Hok Hi Es Hok' Hle Hev Hc Hn h'.
  assert (Hbi : bget h' i = mkB BInit nodes) by (apply bget_bset_eq; auto).
  assert (Hlen : hlen h' = hlen h) by apply hlen_bset.
  destruct (chain_ok_link _ _ _ Hok) as [Hlink Hpred].
  split; [|split; [apply head_le_bset; auto|split; [constructor; auto|split; [|split]]]].
  - apply (chain_ok_replace_tail h' p p' r r'); auto.
    apply (chain_ok_replace_head h); auto.
    + intros i' Hi' Hs'. rewrite Hlen in Hi'. destruct (N.eq_dec i i').
      * subst i'. rewrite Hbi. simpl. subst nodes.
        destruct (content_ok _ Hok h (p :: r) eq_refl i Hi) as [Hso Hpl]. split; auto.
      * unfold h' in *. rewrite bget_bset_neq in * by auto.
        destruct (chain_ok_head _ _ Hok i' Hi' Hs') as [Hso Hpl]. split; auto.
    + intros i' Hs'. destruct (N.eq_dec i i'); [subst; rewrite Hbi; discriminate|].
      unfold h'. rewrite bget_bset_neq by auto. auto.
  - intros i' Hi'. destruct (N.eq_dec i i').
    + subst i'. rewrite content_cons_init by (rewrite Hbi; discriminate). rewrite Hbi. simpl. auto.
    + apply content_congr; auto.
      * unfold h'. apply bget_bset_neq; auto.
      * apply head_le_mask; auto.
  - rewrite Hbi. discriminate.
  - intros i' Hf. destruct (N.eq_dec i i'); [subst; rewrite Hbi in Hf; discriminate|].
    unfold h' in Hf. rewrite bget_bset_neq in Hf by auto. auto.
Qed.

Lemma init_ok : forall fuel, init_spec fuel.
Proof.
  induction fuel as [|f IH]; intros h rest i Hlen Hok Hi; [simpl in Hlen; lia|].
  rewrite init_bucket_S.
  assert (Hlt : i <? hlen h = true) by (apply N.ltb_lt; auto). rewrite Hlt. cbn [negb].
  destruct (b_state (bget h i)) eqn:Es.
  2,3: exists h, rest; split; [reflexivity|]; split; [auto|]; split; [apply head_le_refl|];
       split; [apply evolves_refl|]; split; [auto|]; split; [congruence|auto].
  destruct rest as [|p r].
  { destruct Hok as (_ & (_ & _ & Hall) & _). exfalso. apply (Hall i); auto. }
  destruct (chain_ok_link _ _ _ Hok) as [Hlink Hpred]. rewrite Hpred. cbn [negb].
  pose proof (chain_ok_tail _ _ _ Hok) as Hokp.
  assert (Hlenp : (length (p :: r) <= f)%nat) by (simpl in *; lia).
  destruct (link_cases _ _ Hlink) as [[Hltb [e [Hh Hp]]]|[Hltb [e [Hh Hp]]]]; rewrite Hltb.
  - (* grow *)
    assert (Hj : N.land i (h_mask p) < hlen p) by (destruct Hp as [-> ->]; apply land_ones_lt).
    destruct (init_freeze f IH p r _ Hlenp Hokp Hj) as (p1 & r1 & p2 & E1 & E2 & Hok2 & Hle2 & Hev & Hc).
    cbv zeta. rewrite E1, E2. cbn [orb].
    eexists; eexists; split; [reflexivity|].
    apply init_fill; auto.
    rewrite content_unfold, Es, Hltb. reflexivity.
  - (* shrink *)
    destruct Hh as [Hhm Hhl], Hp as [Hpm Hpl].
    assert (Hi1 : i < hlen p) by (rewrite Hpl, pow_succ1; lia).
    assert (Hi2 : i + hlen h < hlen p) by (rewrite Hpl, Hhl, pow_succ1; lia).
    destruct (init_freeze f IH p r _ Hlenp Hokp Hi1) as (p1 & r1 & p2 & E1 & E2 & Hok2 & Hle2 & Hev2 & Hc2).
    assert (Hlen2 : (length (p2 :: r1) <= f)%nat).
    { simpl in *. rewrite <- (evolves_length _ _ Hev2). lia. }
    assert (Hi2' : i + hlen h < hlen p2) by (rewrite (head_le_hlen _ _ Hle2); auto).
    destruct (init_freeze f IH p2 r1 _ Hlen2 Hok2 Hi2') as (p3 & r3 & p4 & E3 & E4 & Hok4 & Hle4 & Hev4 & Hc4).
    cbv zeta. rewrite E1, E2, E3, E4. cbn [orb].
    eexists; eexists; split; [reflexivity|].
    apply init_fill; auto.
    + eapply head_le_trans; eauto.
    + eapply evolves_trans; eauto.
    + intros j Hj. rewrite Hc4 by (rewrite (head_le_hlen _ _ Hle2); auto). apply Hc2; auto.
    + rewrite content_unfold, Es, Hltb. rewrite (Hc2 _ Hi2). reflexivity.
Qed.

End Inv.
