(* Conc/WriteMergeProofs.v — proofs about the transition system Conc/WriteMerge.v.
   Counting invariant (calibrated in DESIGN.md §6): lock owners + free token = 1, writers
   waiting for a reply = replies due, writers waiting for an acknowledgement =
   acknowledgements due; proved by induction over arbitrary action sequences, for any number of
   writers, with a counting lemma over the list of program counters and lia per action. *)
From Coq Require Import List NArith Bool Arith Lia.
From GL Require Import Conc.WriteMerge.
Import ListNotations.

(* ------------------------------------------------------------------ lists *)

Fixpoint sumf {A} (f : A -> nat) (l : list A) : nat :=
  match l with [] => 0 | x :: t => f x + sumf f t end.

Lemma upd_length {A} (l : list A) i x : length (upd l i x) = length l.
Proof. revert i; induction l; destruct i; simpl; auto. Qed.

Lemma nth_upd_same {A} (l : list A) i x w : nth_error l i = Some w -> nth_error (upd l i x) i = Some x.
Proof. revert i; induction l; destruct i; simpl; intros; try discriminate; auto. Qed.

Lemma nth_upd_other {A} (l : list A) i j x : i <> j -> nth_error (upd l i x) j = nth_error l j.
Proof.
  revert i j; induction l; intros i j H; destruct i; destruct j; simpl; auto; try congruence.
Qed.

Lemma sumf_upd {A} (f : A -> nat) l i x w :
  nth_error l i = Some w -> sumf f (upd l i x) + f w = sumf f l + f x.
Proof.
  revert i; induction l; destruct i; simpl; intros H; try discriminate.
  - inversion H; subst. lia.
  - specialize (IHl _ H). lia.
Qed.

Lemma sumf_upd2 {A} (f : A -> nat) l i j xi xj wi wj :
  nth_error l i = Some wi -> nth_error l j = Some wj -> i <> j ->
  sumf f (upd (upd l i xi) j xj) + f wi + f wj = sumf f l + f xi + f xj.
Proof.
  intros Hi Hj Hn.
  assert (H1 : nth_error (upd l i xi) j = Some wj) by (rewrite nth_upd_other; auto).
  pose proof (sumf_upd f _ _ xj _ H1). pose proof (sumf_upd f _ _ xi _ Hi). lia.
Qed.

Lemma sumf_pos {A} (f : A -> nat) l : 0 < sumf f l -> exists i w, nth_error l i = Some w /\ 0 < f w.
Proof.
  induction l; simpl; intros H; [lia|].
  destruct (f a) eqn:E.
  - destruct IHl as (i & w & Hi & Hw); [lia|]. exists (S i), w; auto.
  - exists 0, a; simpl; split; auto; lia.
Qed.

Lemma sumf_ge {A} (f : A -> nat) l i w : nth_error l i = Some w -> f w <= sumf f l.
Proof. revert i; induction l; destruct i; simpl; intros H; try discriminate.
  - inversion H; subst; lia.
  - specialize (IHl _ H); lia.
Qed.

Lemma sumf_two {A} (f : A -> nat) l i j wi wj :
  nth_error l i = Some wi -> nth_error l j = Some wj -> i <> j -> f wi + f wj <= sumf f l.
Proof.
  revert i j; induction l; intros i j Hi Hj Hn; destruct i; destruct j; simpl in *; try discriminate; try congruence.
  - inversion Hi; subst. pose proof (sumf_ge f _ _ _ Hj). lia.
  - inversion Hj; subst. pose proof (sumf_ge f _ _ _ Hi). lia.
  - assert (i <> j) by congruence. specialize (IHl _ _ Hi Hj H). lia.
Qed.

Lemma sumf_repeat {A} (f : A -> nat) x n : f x = 0 -> sumf f (repeat x n) = 0.
Proof. intros H; induction n; simpl; auto. lia. Qed.

Lemma Forall_upd {A} (P : A -> Prop) l i x : Forall P l -> P x -> Forall P (upd l i x).
Proof.
  revert i; induction l; destruct i; simpl; intros H Hx; auto; inversion H; subst; constructor; auto.
Qed.

Lemma Forall_nth {A} (P : A -> Prop) l i w : Forall P l -> nth_error l i = Some w -> P w.
Proof. intros H Hn. rewrite Forall_forall in H. apply H. eapply nth_error_In; eauto. Qed.

(* ------------------------------------------------------------------ measures *)

Definition holdsp (p : wpc) : nat :=
  match p with
  | WLFlush | WLMerge _ | WLReply _ _ | WLJournal _ | WLApply _ | WLPublish _ | WLRotate _ | WLUnlock _ _ _ => 1
  | _ => 0
  end.
Definition mwaitp (p : wpc) : nat := match p with WWaitMerged => 1 | _ => 0 end.
Definition waitackp (p : wpc) : nat := match p with WWaitAck => 1 | _ => 0 end.
Definition ctx_over (c : lctx) : nat := match lover c with Some _ => 1 | None => 0 end.
Definition replyduep (p : wpc) : nat :=
  match p with
  | WLReply c _ => 1 + ctx_over c
  | WLMerge c | WLJournal c | WLApply c | WLPublish c | WLRotate c | WLUnlock c _ _ => ctx_over c
  | _ => 0
  end.
Definition ackduep (p : wpc) : nat :=
  match p with
  | WLMerge c | WLReply c _ | WLJournal c | WLApply c | WLPublish c | WLRotate c => lmerged c
  | WLUnlock c k _ => lmerged c - k
  | _ => 0
  end.

Definition holds (w : writer) := holdsp (pc w).
Definition mwait (w : writer) := mwaitp (pc w).
Definition waitack (w : writer) := waitackp (pc w).
Definition replydue (w : writer) := replyduep (pc w).
Definition ackdue (w : writer) := ackduep (pc w).

(* local facts: in the merge loop no overflow has happened yet; merged counts the replies sent;
   the loop counter of unlockWrite never exceeds merged *)
Definition wf_ctx (c : lctx) : Prop := length (lreplied c) = lmerged c.
Definition wf_pc (p : wpc) : Prop :=
  match p with
  | WLMerge c | WLReply c _ => lover c = None /\ wf_ctx c
  | WLJournal c | WLApply c | WLPublish c | WLRotate c => wf_ctx c
  | WLUnlock c k _ => wf_ctx c /\ k <= lmerged c
  | _ => True
  end.
Definition wf_writer (w : writer) : Prop := wf_pc (pc w).

Definition b2n (b : bool) : nat := if b then 1 else 0.
Definition close_holds (s : state) : nat := match cpc s with CLocked => 1 | _ => 0 end.

(* everybody who owns the write lock *)
Definition owners (s : state) : nat :=
  sumf holds (ws s) + cr s + tflush s + topen s + tleak s + close_holds s + b2n (cwl s).

Record inv (s : state) : Prop := {
  inv_lock : owners s = b2n (lock s);
  inv_reply : sumf mwait (ws s) = sumf replydue (ws s);
  inv_ack : sumf waitack (ws s) = sumf ackdue (ws s);
  inv_wf : Forall wf_writer (ws s);
  (* the lock is held on the handler's behalf only while SetReadOnly is between its selects, or the
     handler is in its persistent-error loop, or the DB is closing *)
  inv_cwl : cwl s = true -> ropend s = 0 -> hpc s = HPerr \/ closed s = true;
  inv_hexit : hpc s = HExit -> closed s = true
}.

Lemma inv_init n : inv (init n).
Proof.
  constructor; unfold owners, close_holds; simpl; try discriminate;
    rewrite ?sumf_repeat by reflexivity; auto.
  induction n; simpl; constructor; auto. exact I.
Qed.

(* ------------------------------------------------------------------ tactics *)

Ltac dm :=
  repeat match goal with
  | H : match ?x with _ => _ end = Some _ |- _ =>
      let E := fresh "E" in destruct x eqn:E; try discriminate
  | H : (if ?x then _ else _) = Some _ |- _ =>
      let E := fresh "E" in destruct x eqn:E; try discriminate
  end.

Lemma pcs_differ (l : list writer) i j wi wj :
  nth_error l i = Some wi -> nth_error l j = Some wj -> pc wi <> pc wj -> i <> j.
Proof. intros Hi Hj Hp E; subst. rewrite Hi in Hj. inversion Hj; subst. auto. Qed.

(* facts about one measure after a single / double update *)
Ltac upd1 f Hi := pose proof (sumf_upd f _ _ _ _ Hi).
Ltac upd2 f Hi Hj Hn := pose proof (sumf_upd2 f _ _ _ _ _ _ _ Hi Hj Hn).

Ltac unfold_meas :=
  unfold holds, mwait, waitack, replydue, ackdue in *;
  repeat match goal with
  | E : pc ?w = _ |- _ => rewrite E in *
  end;
  cbn [pc set_pc holdsp mwaitp waitackp replyduep ackduep ctx_over lover lmerged ctx0 after_reply] in *.

Ltac upd_facts :=
  repeat match goal with
  | Hi : nth_error ?l ?i = Some ?wi, Hj : nth_error ?l ?j = Some ?wj |- context [sumf ?f (upd (upd ?l ?i ?xi) ?j ?xj)] =>
      lazymatch goal with
      | _ : sumf f (upd (upd l i xi) j xj) + f wi + f wj = _ |- _ => fail
      | _ => let Hn := fresh "Hn" in
             assert (Hn : i <> j) by (apply (pcs_differ l i j wi wj Hi Hj); congruence);
             pose proof (sumf_upd2 f l i j xi xj wi wj Hi Hj Hn); clear Hn
      end
  | Hi : nth_error ?l ?i = Some ?w |- context [sumf ?f (upd ?l ?i ?x)] =>
      lazymatch goal with
      | _ : sumf f (upd l i x) + f w = _ |- _ => fail
      | _ => pose proof (sumf_upd f l i x w Hi)
      end
  end.

Ltac open_state :=
  unfold owners, close_holds, closed in *;
  cbn [ws lock cpc hpc cwl ropend cr tflush topen tleak setw with_ws with_lock with_env with_logs] in *.


Ltac subst_env :=
  repeat match goal with
  | E : lock _ = _ |- _ => rewrite E in *; clear E
  | E : cwl _ = _ |- _ => rewrite E in *; clear E
  | E : cpc _ = _ |- _ => progress (rewrite E in *)
  | E : hpc _ = _ |- _ => progress (rewrite E in *)
  | E : tflush _ = _ |- _ => rewrite E in *; clear E
  | E : topen _ = _ |- _ => rewrite E in *; clear E
  | E : cr _ = _ |- _ => rewrite E in *; clear E
  | E : ropend _ = _ |- _ => rewrite E in *; clear E
  end; cbn [b2n] in *.

Ltac split_ifs :=
  unfold merge_decide in *;
  repeat match goal with
  | |- context [if ?b then _ else _] => let E := fresh "Eb" in destruct b eqn:E
  end.

Ltac wf_facts Hw :=
  repeat match goal with
  | Hi : nth_error _ ?i = Some ?w, Ep : pc ?w = ?p |- _ =>
      lazymatch goal with
      | _ : wf_pc p |- _ => fail
      | _ => let Hx := fresh "Hwf" in
             pose proof (Forall_nth _ _ _ _ Hw Hi) as Hx; unfold wf_writer in Hx; rewrite Ep in Hx
      end
  end;
  repeat match goal with
  | Hx : wf_pc _ |- _ => cbn [wf_pc] in Hx; unfold wf_ctx in Hx
  end;
  repeat match goal with
  | Hx : _ /\ _ |- _ => destruct Hx
  end.

Ltac use_over :=
  unfold ctx_over in *; cbn [lover lmerged after_reply ctx0] in *;
  repeat match goal with
  | Hx : lover ?c = _ |- _ => rewrite Hx in *
  end; cbn [lover] in *.

Ltac kill_cpc :=
  repeat match goal with
  | |- context [match cpc ?s with _ => _ end] => destruct (cpc s) eqn:?
  | H : context [match cpc ?s with _ => _ end] |- _ => destruct (cpc s) eqn:?
  end.
Ltac ltbs :=
  repeat match goal with
  | H : Nat.ltb _ _ = true |- _ => apply Nat.ltb_lt in H
  | H : Nat.ltb _ _ = false |- _ => apply Nat.ltb_ge in H
  end.
Ltac counts := try assumption; subst_env; ltbs; split_ifs; upd_facts; unfold_meas; cbv beta in *; use_over; cbn [b2n] in *; kill_cpc;
  try assumption; try lia; try discriminate; try (intros; congruence); try (intros; exfalso; lia).


Section Proofs.
Variable mp : mparams.

Lemma step_inv s a s' : inv s -> step mp s a = Some s' -> inv s'.
Proof.
  intros [Hl Hr Ha Hw Hc Hh] H. destruct a; unfold step, getw in H; dm; inversion H; subst; clear H; wf_facts Hw;
  (constructor; open_state; auto; [ counts .. ]).
  all: try (split_ifs; apply Forall_upd; auto; try apply Forall_upd; auto; unfold wf_writer; ltbs;
            cbn [pc set_pc wf_pc]; unfold wf_ctx;
            cbn [lover lmerged lreplied after_reply ctx0 length]; rewrite ?app_length;
            cbn [length]; repeat split; auto; try lia; exact I).
  all: intros _ _; destruct (hpc s); cbn in *; auto; discriminate.
Qed.

Lemma run_inv l : forall s s', inv s -> run mp s l = Some s' -> inv s'.
Proof.
  induction l; simpl; intros s s' Hi H.
  - inversion H; subst; auto.
  - destruct (step mp s a) eqn:E; try discriminate. eapply IHl; [|eauto]. eapply step_inv; eauto.
Qed.

(* reachable states of the system with n writers *)
Definition reachable (n : nat) (s : state) : Prop := exists l, run mp (init n) l = Some s.

Lemma reachable_inv n s : reachable n s -> inv s.
Proof. intros [l H]. eapply run_inv; [apply inv_init|eauto]. Qed.

End Proofs.

(* ------------------------------------------------------------------ consequences of the counting invariant *)

Lemma sumf_zero {A} (f : A -> nat) l : (forall j v, nth_error l j = Some v -> f v = 0) -> sumf f l = 0.
Proof.
  induction l; simpl; intros H; auto.
  rewrite (H 0 a eq_refl). rewrite IHl; auto. intros j v Hj. apply (H (S j) v Hj).
Qed.

Lemma sumf_single {A} (f : A -> nat) l i w :
  nth_error l i = Some w -> (forall j v, j <> i -> nth_error l j = Some v -> f v = 0) -> sumf f l = f w.
Proof.
  revert i; induction l; destruct i; simpl; intros H Hz; try discriminate.
  - inversion H; subst. rewrite (sumf_zero f l); [lia|].
    intros j v Hj. apply (Hz (S j) v); [discriminate|exact Hj].
  - rewrite (Hz 0 a); [|discriminate|reflexivity]. simpl. apply (IHl i); auto.
    intros j v Hn Hj. apply (Hz (S j) v); [congruence|exact Hj].
Qed.

Lemma holdsp_le1 p : holdsp p <= 1.
Proof. destruct p; simpl; lia. Qed.

Lemma replydue_holds p : holdsp p = 0 -> replyduep p = 0.
Proof. destruct p; simpl; auto; discriminate. Qed.

Lemma ackdue_holds p : holdsp p = 0 -> ackduep p = 0.
Proof. destruct p; simpl; auto; discriminate. Qed.

Lemma owners_le1 s : inv s -> owners s <= 1.
Proof. intros H. rewrite (inv_lock s H). destruct (lock s); simpl; lia. Qed.

(* a writer that owns the lock is the only owner *)
Lemma only_leader s l wl : inv s -> nth_error (ws s) l = Some wl -> holds wl = 1 ->
  (forall j w, j <> l -> nth_error (ws s) j = Some w -> holds w = 0) /\
  cr s = 0 /\ tflush s = 0 /\ topen s = 0 /\ tleak s = 0 /\ close_holds s = 0 /\ cwl s = false /\ lock s = true.
Proof.
  intros Hi Hl H1. pose proof (owners_le1 s Hi) as Ho. pose proof (inv_lock s Hi) as Hk. unfold owners in *.
  pose proof (sumf_ge holds _ _ _ Hl).
  split.
  - intros j w Hn Hj. pose proof (sumf_two holds _ _ _ _ _ Hj Hl Hn). lia.
  - destruct (cwl s); destruct (lock s); simpl in *; repeat split; try lia.
Qed.

Lemma leader_sums s l wl : inv s -> nth_error (ws s) l = Some wl -> holds wl = 1 ->
  sumf mwait (ws s) = replydue wl /\ sumf waitack (ws s) = ackdue wl.
Proof.
  intros Hi Hl H1. destruct (only_leader s l wl Hi Hl H1) as [Ho _].
  rewrite (inv_reply s Hi), (inv_ack s Hi). split; apply (sumf_single _ _ l); auto; intros j v Hn Hj.
  - apply replydue_holds. apply (Ho j v); auto.
  - apply ackdue_holds. apply (Ho j v); auto.
Qed.

Lemma no_leader_sums s : inv s -> sumf holds (ws s) = 0 ->
  sumf mwait (ws s) = 0 /\ sumf waitack (ws s) = 0.
Proof.
  intros Hi H0. rewrite (inv_reply s Hi), (inv_ack s Hi).
  assert (Hz : forall j v, nth_error (ws s) j = Some v -> holds v = 0).
  { intros j v Hj. pose proof (sumf_ge holds _ _ _ Hj). lia. }
  split; apply sumf_zero; intros j v Hj; [apply replydue_holds | apply ackdue_holds]; apply (Hz j v Hj).
Qed.

Lemma find_measure (f : writer -> nat) (p : wpc -> nat) l :
  (forall w, f w = p (pc w)) -> 0 < sumf f l -> exists i w, nth_error l i = Some w /\ 0 < p (pc w).
Proof. intros Hf H. destruct (sumf_pos f l H) as (i & w & Hi & Hw). exists i, w. rewrite <- Hf. auto. Qed.

Lemma mwaitp_pos p : 0 < mwaitp p -> p = WWaitMerged.
Proof. destruct p; simpl; auto; lia. Qed.
Lemma waitackp_pos p : 0 < waitackp p -> p = WWaitAck.
Proof. destruct p; simpl; auto; lia. Qed.

Section Theorems.
Variable mp : mparams.

(* --- mutex *)
Theorem mutex_owners n s : reachable mp n s ->
  owners s <= 1 /\ (lock s = true -> owners s = 1) /\ (lock s = false -> owners s = 0).
Proof.
  intros R. pose proof (reachable_inv mp n s R) as Hi. pose proof (inv_lock s Hi) as Hk.
  repeat split; [apply owners_le1; auto | |]; intros E; rewrite E in Hk; auto.
Qed.

Theorem mutex_writers n s i j wi wj : reachable mp n s ->
  nth_error (ws s) i = Some wi -> nth_error (ws s) j = Some wj -> holds wi = 1 -> holds wj = 1 -> i = j.
Proof.
  intros R Hi Hj H1 H2. pose proof (reachable_inv mp n s R) as Hv.
  destruct (Nat.eq_dec i j); auto. exfalso.
  destruct (only_leader s i wi Hv Hi H1) as [Ho _]. rewrite (Ho j wj) in H2; auto. discriminate.
Qed.

(* --- every blocking send of the leader has a receiver waiting *)
Theorem reply_has_receiver n s l wl c x : reachable mp n s ->
  nth_error (ws s) l = Some wl -> pc wl = WLReply c x ->
  exists i, step mp s (AReplyTrue l i) <> None.
Proof.
  intros R Hl Hp. pose proof (reachable_inv mp n s R) as Hv.
  assert (H1 : holds wl = 1) by (unfold holds; rewrite Hp; auto).
  destruct (leader_sums s l wl Hv Hl H1) as [Hm _]. unfold replydue in Hm. rewrite Hp in Hm. simpl in Hm.
  destruct (find_measure mwait mwaitp (ws s)) as (i & w & Hi & Hw); [reflexivity | lia |].
  apply mwaitp_pos in Hw. exists i. unfold step, getw. rewrite Hl, Hi, Hp, Hw. discriminate.
Qed.

Theorem ack_receivers n s l wl c k e : reachable mp n s ->
  nth_error (ws s) l = Some wl -> pc wl = WLUnlock c k e ->
  sumf waitack (ws s) = lmerged c - k /\ k <= lmerged c.
Proof.
  intros R Hl Hp. pose proof (reachable_inv mp n s R) as Hv.
  assert (H1 : holds wl = 1) by (unfold holds; rewrite Hp; auto).
  destruct (leader_sums s l wl Hv Hl H1) as [_ Ha]. unfold ackdue in Ha. rewrite Hp in Ha. simpl in Ha.
  split; auto. pose proof (Forall_nth _ _ _ _ (inv_wf s Hv) Hl) as Hw. unfold wf_writer in Hw. rewrite Hp in Hw. apply Hw.
Qed.

Theorem ack_has_receiver n s l wl c k e : reachable mp n s ->
  nth_error (ws s) l = Some wl -> pc wl = WLUnlock c k e -> k < lmerged c ->
  exists i, step mp s (AAck l i) <> None.
Proof.
  intros R Hl Hp Hk. destruct (ack_receivers n s l wl c k e R Hl Hp) as [Ha _].
  destruct (find_measure waitack waitackp (ws s)) as (i & w & Hi & Hw); [reflexivity | lia |].
  apply waitackp_pos in Hw. exists i. unfold step, getw. rewrite Hl, Hi, Hp, Hw.
  apply Nat.ltb_lt in Hk. rewrite Hk. discriminate.
Qed.

(* --- end of a group: hand-over to exactly one waiting writer, or release; never both, never neither *)
Theorem unlock_end n s l wl c k e : reachable mp n s ->
  nth_error (ws s) l = Some wl -> pc wl = WLUnlock c k e -> lmerged c <= k ->
  sumf waitack (ws s) = 0 /\
  match lover c with
  | Some _ => step mp s (ARelease l) = None /\ sumf mwait (ws s) = 1 /\ exists o, step mp s (AHandover l o) <> None
  | None => step mp s (ARelease l) <> None /\ sumf mwait (ws s) = 0 /\ forall o, step mp s (AHandover l o) = None
  end.
Proof.
  intros R Hl Hp Hk. pose proof (reachable_inv mp n s R) as Hv.
  assert (H1 : holds wl = 1) by (unfold holds; rewrite Hp; auto).
  destruct (leader_sums s l wl Hv Hl H1) as [Hm Ha]. unfold replydue, ackdue in *. rewrite Hp in *. simpl in *.
  destruct (only_leader s l wl Hv Hl H1) as (_ & _ & _ & _ & _ & _ & _ & Hlk).
  assert (Hkb : (k <? lmerged c) = false) by (apply Nat.ltb_ge; auto).
  split; [lia|]. unfold ctx_over in Hm. destruct (lover c) eqn:Eo.
  - split; [unfold step, getw; rewrite Hl, Hp, Hkb, Eo; auto|]. split; auto.
    destruct (find_measure mwait mwaitp (ws s)) as (o & w & Ho & Hw); [reflexivity | lia |].
    apply mwaitp_pos in Hw. exists o. unfold step, getw. rewrite Hl, Ho, Hp, Hw, Hkb, Eo. discriminate.
  - split; [unfold step, getw; rewrite Hl, Hp, Hkb, Eo, Hlk; discriminate|]. split; auto.
    intros o. unfold step, getw. rewrite Hl, Hp. destruct (nth_error (ws s) o); auto. destruct (pc w); auto.
    rewrite Hkb, Eo; auto.
Qed.

Theorem handover_step n s l o s' : reachable mp n s -> step mp s (AHandover l o) = Some s' ->
  lock s' = true /\ owners s' = 1 /\
  (exists wo, nth_error (ws s') o = Some wo /\ pc wo = WLFlush) /\
  (forall j w, j <> o -> nth_error (ws s') j = Some w -> holds w = 0) /\
  sumf mwait (ws s) = 1.
Proof.
  intros R H. pose proof (reachable_inv mp n s R) as Hv. pose proof (step_inv mp _ _ _ Hv H) as Hv'.
  unfold step, getw in H. dm. inversion H; subst; clear H.
  assert (Hn : o <> l) by (apply (pcs_differ (ws s) o l w0 w E0 E); congruence).
  assert (H1 : holds w = 1) by (unfold holds; rewrite E1; auto).
  destruct (only_leader s l w Hv E H1) as (_ & _ & _ & _ & _ & _ & _ & Hlk).
  destruct (leader_sums s l w Hv E H1) as [Hm _]. unfold replydue in Hm. rewrite E1 in Hm. simpl in Hm.
  unfold ctx_over in Hm. rewrite E4 in Hm.
  set (s' := with_logs _ _ _ _ _ _) in *.
  assert (Ho : nth_error (ws s') o = Some (set_pc w0 WLFlush)).
  { simpl. rewrite nth_upd_other by auto. eapply nth_upd_same; eauto. }
  assert (H2 : holds (set_pc w0 WLFlush) = 1) by reflexivity.
  destruct (only_leader s' o _ Hv' Ho H2) as (Hoth & _ & _ & _ & _ & _ & _ & Hlk').
  pose proof (inv_lock s' Hv') as Hk. rewrite Hlk' in Hk.
  repeat split; auto. eexists; split; eauto.
Qed.

Theorem release_step n s l s' : reachable mp n s -> step mp s (ARelease l) = Some s' ->
  lock s' = false /\ owners s' = 0 /\ sumf mwait (ws s) = 0.
Proof.
  intros R H. pose proof (reachable_inv mp n s R) as Hv. pose proof (step_inv mp _ _ _ Hv H) as Hv'.
  pose proof (inv_lock s' Hv') as Hk.
  unfold step, getw in H. dm. inversion H; subst; clear H.
  assert (H1 : holds w = 1) by (unfold holds; rewrite E0; auto).
  destruct (leader_sums s l w Hv E H1) as [Hm _]. unfold replydue in Hm. rewrite E0 in Hm. simpl in Hm.
  unfold ctx_over in Hm. rewrite E2 in Hm.
  simpl in *. repeat split; auto.
Qed.

End Theorems.

(* ------------------------------------------------------------------ deadlock freedom *)

Definition pending (w : writer) : bool := match pc w with WIdle | WDone _ => false | _ => true end.

Lemma holdsp_cases p : holdsp p = 0 \/ holdsp p = 1.
Proof. destruct p; simpl; auto. Qed.

Section Progress.
Variable mp : mparams.

(* a writer that owns the lock can always move *)
Lemma leader_enabled s l wl : inv s -> nth_error (ws s) l = Some wl -> holds wl = 1 ->
  exists a, arrival a = false /\ step mp s a <> None.
Proof.
  intros Hv Hl H1.
  destruct (leader_sums s l wl Hv Hl H1) as [Hm Ha].
  destruct (only_leader s l wl Hv Hl H1) as (_ & _ & _ & _ & _ & _ & _ & Hlk).
  unfold holds, replydue, ackdue in *. destruct (pc wl) eqn:Hp; simpl in *; try discriminate.
  - exists (AFlushOk l 0%N). split; auto. unfold step, getw. rewrite Hl, Hp. discriminate.
  - exists (AMergeDone l). split; auto. unfold step, getw. rewrite Hl, Hp. discriminate.
  - destruct (find_measure mwait mwaitp (ws s)) as (i & w & Hi & Hw); [reflexivity | lia |].
    apply mwaitp_pos in Hw. exists (AReplyTrue l i). split; auto. unfold step, getw. rewrite Hl, Hi, Hp, Hw. discriminate.
  - exists (AJournalOk l). split; auto. unfold step, getw. rewrite Hl, Hp. discriminate.
  - exists (AApply l). split; auto. unfold step, getw. rewrite Hl, Hp. discriminate.
  - exists (APublish l). split; auto. unfold step, getw. rewrite Hl, Hp. discriminate.
  - destruct (lown c <? lfree c)%N eqn:Er.
    + exists (ARotateSkip l). split; auto. unfold step, getw. rewrite Hl, Hp, Er. discriminate.
    + exists (ARotateOk l). split; auto. unfold step, getw. rewrite Hl, Hp, Er. discriminate.
  - destruct (i <? lmerged c) eqn:Ek.
    + apply Nat.ltb_lt in Ek.
      destruct (find_measure waitack waitackp (ws s)) as (j & w & Hj & Hw); [reflexivity | lia |].
      apply waitackp_pos in Hw. exists (AAck l j). split; auto. unfold step, getw. rewrite Hl, Hj, Hp, Hw.
      apply Nat.ltb_lt in Ek. rewrite Ek. discriminate.
    + unfold ctx_over in Hm. destruct (lover c) eqn:Eo.
      * destruct (find_measure mwait mwaitp (ws s)) as (o & w & Ho & Hw); [reflexivity | lia |].
        apply mwaitp_pos in Hw. exists (AHandover l o). split; auto. unfold step, getw.
        rewrite Hl, Ho, Hp, Hw, Ek, Eo. discriminate.
      * exists (ARelease l). split; auto. unfold step, getw. rewrite Hl, Hp, Ek, Eo, Hlk. discriminate.
Qed.

(* No pending writer is ever stuck: in every reachable state in which some call is in progress, an
   action other than the arrival of a new call is enabled — provided no OpenTransaction has
   returned an error with the lock held (tleak = 0; see txn_leak_deadlock for what happens
   otherwise: goleveldb's OpenTransaction error paths do leak the lock). *)
Theorem no_lost_writer n s : reachable mp n s -> tleak s = 0 ->
  (exists i w, nth_error (ws s) i = Some w /\ pending w = true) ->
  exists a, arrival a = false /\ step mp s a <> None.
Proof.
  intros R Hleak (i & w & Hi & Hp). pose proof (reachable_inv mp n s R) as Hv.
  destruct (Nat.eq_dec (sumf holds (ws s)) 0) as [H0|H0].
  - destruct (no_leader_sums s Hv H0) as [Hm Ha].
    assert (Hh : holds w = 0) by (pose proof (sumf_ge holds _ _ _ Hi); lia).
    assert (Hmw : mwait w = 0) by (pose proof (sumf_ge mwait _ _ _ Hi); lia).
    assert (Haw : waitack w = 0) by (pose proof (sumf_ge waitack _ _ _ Hi); lia).
    unfold pending, holds, mwait, waitack in Hp, Hh, Hmw, Haw. destruct (pc w) eqn:Epc; simpl in Hp, Hh, Hmw, Haw; try discriminate.
    + (* WSelect *)
      destruct (lock s) eqn:Elk.
      * pose proof (inv_lock s Hv) as Hk. rewrite Elk in Hk. unfold owners in Hk. simpl in Hk.
        destruct (cr s) eqn:Ecr.
        2:{ exists ACRRelease. split; auto. unfold step. rewrite Ecr, Elk. discriminate. }
        destruct (tflush s) eqn:Etf.
        2:{ exists ATxnFlushOk. split; auto. unfold step. rewrite Etf. discriminate. }
        destruct (topen s) eqn:Eto.
        2:{ exists ATxnDone. split; auto. unfold step. rewrite Eto, Elk. discriminate. }
        unfold close_holds in Hk. destruct (cpc s) eqn:Ec.
        4:{ exists (ASelClosed i). split; auto. unfold step, getw, closed. rewrite Hi, Epc, Ec. discriminate. }
        all: destruct (cwl s) eqn:Ew; simpl in Hk; try lia.
        all: destruct (hpc s) eqn:Eh.
        all: try (exists (ASelPerr i); split; auto; unfold step, getw; rewrite Hi, Epc, Eh; discriminate).
        all: try (pose proof (inv_hexit s Hv Eh) as Hx; unfold closed in Hx; rewrite Ec in Hx; discriminate).
        all: try (exists (ASelClosed i); split; auto; unfold step, getw, closed; rewrite Hi, Epc, Ec; discriminate).
        all: destruct (ropend s) eqn:Er;
          try (exists AROSend; split; auto; unfold step; rewrite Er, Eh; discriminate).
        all: pose proof (inv_cwl s Hv Ew Er) as Hx; unfold closed in Hx; rewrite Ec, Eh in Hx;
          destruct Hx; discriminate.
      * exists (ASelLock i). split; auto. unfold step, getw. rewrite Hi, Epc, Elk. discriminate.
    + exists (AReturn i). split; auto. unfold step, getw. rewrite Hi, Epc. discriminate.
  - assert (Hpos : 0 < sumf holds (ws s)) by lia.
    destruct (sumf_pos holds _ Hpos) as (l & wl & Hl & H1).
    assert (holds wl = 1) by (unfold holds in *; destruct (holdsp_cases (pc wl)); lia).
    eapply leader_enabled; eauto.
Qed.

End Progress.

(* ------------------------------------------------------------------ the leak of OpenTransaction's error paths *)

Section Leak.
Variable mp : mparams.

(* goleveldb's OpenTransaction returns on a rotateMem / waitCompaction error without releasing
   the write lock.  In the model this is ATxnFlushFail, and it does strand writers: *)
Theorem txn_leak_deadlock :
  exists l s, run mp (init 1) l = Some s /\ tleak s = 1 /\
    (exists w, nth_error (ws s) 0 = Some w /\ pending w = true) /\
    forall a, arrival a = false -> step mp s a = None.
Proof.
  exists [ATxnAcquire; ATxnFlushFail; ACall 0 true false 10%N]. eexists. split; [vm_compute; reflexivity|].
  split; [reflexivity|]. split; [eexists; split; reflexivity|].
  intros a Ha. destruct a; try discriminate; unfold step, getw; cbn [ws lock cpc hpc cwl ropend cr tflush topen tleak closed];
    repeat match goal with
    | |- context [nth_error _ ?i] => is_var i; destruct i as [|[|?]]; cbn [nth_error pc]
    end; auto.
Qed.

End Leak.

(* ------------------------------------------------------------------ finished groups: exactly merged acknowledgements *)

Definition gok (g : grec) : Prop := g_acks g = g_merged g /\ length (g_replied g) = g_merged g.

Section Groups.
Variable mp : mparams.

Lemma step_glog s a s' : inv s -> Forall gok (glog s) -> step mp s a = Some s' -> Forall gok (glog s').
Proof.
  intros Hv Hg H. pose proof (inv_wf s Hv) as Hw.
  destruct a; unfold step, getw in H; dm; inversion H; subst; clear H; simpl; auto.
  - wf_facts Hw. ltbs. apply Forall_app; split; auto. constructor; auto. split; simpl; auto. lia.
  - wf_facts Hw. ltbs. apply Forall_app; split; auto. constructor; auto. split; simpl; auto. lia.
Qed.

Lemma run_glog l : forall s s', inv s -> Forall gok (glog s) -> run mp s l = Some s' -> Forall gok (glog s').
Proof.
  induction l; simpl; intros s s' Hi Hg H.
  - inversion H; subst; auto.
  - destruct (step mp s a) eqn:E; try discriminate. eapply IHl; [| |eauto].
    + eapply step_inv; eauto.
    + eapply step_glog; eauto.
Qed.

(* every finished unlockWrite has sent exactly `merged` acknowledgements, one per `true` reply *)
Theorem ack_count_finished n s g : reachable mp n s -> In g (glog s) ->
  g_acks g = g_merged g /\ length (g_replied g) = g_merged g.
Proof.
  intros [l H] Hin. assert (Hg : Forall gok (glog s)).
  { eapply run_glog; [apply inv_init| |eauto]. constructor. }
  rewrite Forall_forall in Hg. apply Hg; auto.
Qed.

End Groups.
