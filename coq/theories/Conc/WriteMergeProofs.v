(* Conc/WriteMergeProofs.v — proofs about the transition system Conc/WriteMerge.v.
   Counting invariant (calibrated in DESIGN.md §6): lock owners + free token = 1, writers
   waiting for a reply = replies due, writers waiting for an acknowledgement =
   acknowledgements due; proved by induction over arbitrary action sequences, for any number of
   writers, with a counting lemma over the list of program counters and lia per action. *)
From Coq Require Import List NArith Bool Arith Lia.
From GL Require Import Conc.WriteMerge.
Import ListNotations.

(* ------------------------------------------------------------------ lists *)

Fixpoint sumf {A} (f : A -> nat) (l : list A) : nat :=
  match l with [] => 0 | x :: t => f x + sumf f t end.

Lemma upd_length {A} (l : list A) i x : length (upd l i x) = length l.
Proof. revert i; induction l; destruct i; simpl; auto. Qed.

Lemma nth_upd_same {A} (l : list A) i x w : nth_error l i = Some w -> nth_error (upd l i x) i = Some x.
Proof. revert i; induction l; destruct i; simpl; intros; try discriminate; auto. Qed.

Lemma nth_upd_other {A} (l : list A) i j x : i <> j -> nth_error (upd l i x) j = nth_error l j.
Proof.
  revert i j; induction l; intros i j H; destruct i; destruct j; simpl; auto; try congruence.
Qed.

Lemma sumf_upd {A} (f : A -> nat) l i x w :
  nth_error l i = Some w -> sumf f (upd l i x) + f w = sumf f l + f x.
Proof.
  revert i; induction l; destruct i; simpl; intros H; try discriminate.
  - inversion H; subst. lia.
  - specialize (IHl _ H). lia.
Qed.

Lemma sumf_upd2 {A} (f : A -> nat) l i j xi xj wi wj :
  nth_error l i = Some wi -> nth_error l j = Some wj -> i <> j ->
  sumf f (upd (upd l i xi) j xj) + f wi + f wj = sumf f l + f xi + f xj.
Proof.
  intros Hi Hj Hn.
  assert (H1 : nth_error (upd l i xi) j = Some wj) by (rewrite nth_upd_other; auto).
  pose proof (sumf_upd f _ _ xj _ H1). pose proof (sumf_upd f _ _ xi _ Hi). lia.
Qed.

Lemma sumf_pos {A} (f : A -> nat) l : 0 < sumf f l -> exists i w, nth_error l i = Some w /\ 0 < f w.
Proof.
  induction l; simpl; intros H; [lia|].
  destruct (f a) eqn:E.
  - destruct IHl as (i & w & Hi & Hw); [lia|]. exists (S i), w; auto.
  - exists 0, a; simpl; split; auto; lia.
Qed.

Lemma sumf_ge {A} (f : A -> nat) l i w : nth_error l i = Some w -> f w <= sumf f l.
Proof. revert i; induction l; destruct i; simpl; intros H; try discriminate.
  - inversion H; subst; lia.
  - specialize (IHl _ H); lia.
Qed.

Lemma sumf_two {A} (f : A -> nat) l i j wi wj :
  nth_error l i = Some wi -> nth_error l j = Some wj -> i <> j -> f wi + f wj <= sumf f l.
Proof.
  revert i j; induction l; intros i j Hi Hj Hn; destruct i; destruct j; simpl in *; try discriminate; try congruence.
  - inversion Hi; subst. pose proof (sumf_ge f _ _ _ Hj). lia.
  - inversion Hj; subst. pose proof (sumf_ge f _ _ _ Hi). lia.
  - assert (i <> j) by congruence. specialize (IHl _ _ Hi Hj H). lia.
Qed.

Lemma sumf_repeat {A} (f : A -> nat) x n : f x = 0 -> sumf f (repeat x n) = 0.
Proof. intros H; induction n; simpl; auto. lia. Qed.

Lemma Forall_upd {A} (P : A -> Prop) l i x : Forall P l -> P x -> Forall P (upd l i x).
Proof.
  revert i; induction l; destruct i; simpl; intros H Hx; auto; inversion H; subst; constructor; auto.
Qed.

Lemma Forall_nth {A} (P : A -> Prop) l i w : Forall P l -> nth_error l i = Some w -> P w.
Proof. intros H Hn. rewrite Forall_forall in H. apply H. eapply nth_error_In; eauto. Qed.

(* ------------------------------------------------------------------ measures *)

Definition holdsp (p : wpc) : nat :=
  match p with
  | WLFlush | WLMerge _ | WLReply _ _ | WLJournal _ | WLApply _ | WLPublish _ | WLRotate _ | WLUnlock _ _ _ => 1
  | _ => 0
  end.
Definition mwaitp (p : wpc) : nat := match p with WWaitMerged => 1 | _ => 0 end.
Definition waitackp (p : wpc) : nat := match p with WWaitAck => 1 | _ => 0 end.
Definition ctx_over (c : lctx) : nat := match lover c with Some _ => 1 | None => 0 end.
Definition replyduep (p : wpc) : nat :=
  match p with
  | WLReply c _ => 1 + ctx_over c
  | WLMerge c | WLJournal c | WLApply c | WLPublish c | WLRotate c | WLUnlock c _ _ => ctx_over c
  | _ => 0
  end.
Definition ackduep (p : wpc) : nat :=
  match p with
  | WLMerge c | WLReply c _ | WLJournal c | WLApply c | WLPublish c | WLRotate c => lmerged c
  | WLUnlock c k _ => lmerged c - k
  | _ => 0
  end.

Definition holds (w : writer) := holdsp (pc w).
Definition mwait (w : writer) := mwaitp (pc w).
Definition waitack (w : writer) := waitackp (pc w).
Definition replydue (w : writer) := replyduep (pc w).
Definition ackdue (w : writer) := ackduep (pc w).

(* in the merge loop no overflow has happened yet *)
Definition wf_pc (p : wpc) : Prop :=
  match p with WLMerge c | WLReply c _ => lover c = None | _ => True end.
Definition wf_writer (w : writer) : Prop := wf_pc (pc w).

Definition b2n (b : bool) : nat := if b then 1 else 0.
Definition close_holds (s : state) : nat := match cpc s with CLocked => 1 | _ => 0 end.

(* everybody who owns the write lock *)
Definition owners (s : state) : nat :=
  sumf holds (ws s) + cr s + tflush s + topen s + tleak s + close_holds s + b2n (cwl s).

Record inv (s : state) : Prop := {
  inv_lock : owners s = b2n (lock s);
  inv_reply : sumf mwait (ws s) = sumf replydue (ws s);
  inv_ack : sumf waitack (ws s) = sumf ackdue (ws s);
  inv_wf : Forall wf_writer (ws s);
  (* the lock is held on the handler's behalf only while SetReadOnly is between its selects, or the
     handler is in its persistent-error loop, or the DB is closing *)
  inv_cwl : cwl s = true -> ropend s = 0 -> hpc s = HPerr \/ closed s = true;
  inv_hexit : hpc s = HExit -> closed s = true
}.

Lemma inv_init n : inv (init n).
Proof.
  constructor; unfold owners, close_holds; simpl; try discriminate;
    rewrite ?sumf_repeat by reflexivity; auto.
  induction n; simpl; constructor; auto. exact I.
Qed.

(* ------------------------------------------------------------------ tactics *)

Ltac dm :=
  repeat match goal with
  | H : match ?x with _ => _ end = Some _ |- _ =>
      let E := fresh "E" in destruct x eqn:E; try discriminate
  | H : (if ?x then _ else _) = Some _ |- _ =>
      let E := fresh "E" in destruct x eqn:E; try discriminate
  end.

Lemma pcs_differ (l : list writer) i j wi wj :
  nth_error l i = Some wi -> nth_error l j = Some wj -> pc wi <> pc wj -> i <> j.
Proof. intros Hi Hj Hp E; subst. rewrite Hi in Hj. inversion Hj; subst. auto. Qed.

(* facts about one measure after a single / double update *)
Ltac upd1 f Hi := pose proof (sumf_upd f _ _ _ _ Hi).
Ltac upd2 f Hi Hj Hn := pose proof (sumf_upd2 f _ _ _ _ _ _ _ Hi Hj Hn).

Ltac unfold_meas :=
  unfold holds, mwait, waitack, replydue, ackdue in *;
  repeat match goal with
  | E : pc ?w = _ |- _ => rewrite E in *
  end;
  cbn [pc set_pc holdsp mwaitp waitackp replyduep ackduep ctx_over lover lmerged ctx0 after_reply] in *.

Ltac upd_facts :=
  repeat match goal with
  | Hi : nth_error ?l ?i = Some ?wi, Hj : nth_error ?l ?j = Some ?wj |- context [sumf ?f (upd (upd ?l ?i ?xi) ?j ?xj)] =>
      lazymatch goal with
      | _ : sumf f (upd (upd l i xi) j xj) + f wi + f wj = _ |- _ => fail
      | _ => let Hn := fresh "Hn" in
             assert (Hn : i <> j) by (apply (pcs_differ l i j wi wj Hi Hj); congruence);
             pose proof (sumf_upd2 f l i j xi xj wi wj Hi Hj Hn); clear Hn
      end
  | Hi : nth_error ?l ?i = Some ?w |- context [sumf ?f (upd ?l ?i ?x)] =>
      lazymatch goal with
      | _ : sumf f (upd l i x) + f w = _ |- _ => fail
      | _ => pose proof (sumf_upd f l i x w Hi)
      end
  end.

Ltac open_state :=
  unfold owners, close_holds, closed in *;
  cbn [ws lock cpc hpc cwl ropend cr tflush topen tleak setw with_ws with_lock with_env with_logs] in *.


Ltac subst_env :=
  repeat match goal with
  | E : lock _ = _ |- _ => rewrite E in *; clear E
  | E : cwl _ = _ |- _ => rewrite E in *; clear E
  | E : cpc _ = _ |- _ => progress (rewrite E in *)
  | E : hpc _ = _ |- _ => progress (rewrite E in *)
  | E : tflush _ = _ |- _ => rewrite E in *; clear E
  | E : topen _ = _ |- _ => rewrite E in *; clear E
  | E : cr _ = _ |- _ => rewrite E in *; clear E
  | E : ropend _ = _ |- _ => rewrite E in *; clear E
  end; cbn [b2n] in *.

Ltac split_ifs :=
  unfold merge_decide in *;
  repeat match goal with
  | |- context [if ?b then _ else _] => let E := fresh "Eb" in destruct b eqn:E
  end.

Ltac wf_facts Hw :=
  repeat match goal with
  | Hi : nth_error _ ?i = Some ?w, Ep : pc ?w = WLMerge ?c |- _ =>
      lazymatch goal with
      | _ : lover c = None |- _ => fail
      | _ => let Hx := fresh "Hov" in
             pose proof (Forall_nth _ _ _ _ Hw Hi) as Hx; unfold wf_writer in Hx; rewrite Ep in Hx; cbn [wf_pc] in Hx
      end
  | Hi : nth_error _ ?i = Some ?w, Ep : pc ?w = WLReply ?c _ |- _ =>
      lazymatch goal with
      | _ : lover c = None |- _ => fail
      | _ => let Hx := fresh "Hov" in
             pose proof (Forall_nth _ _ _ _ Hw Hi) as Hx; unfold wf_writer in Hx; rewrite Ep in Hx; cbn [wf_pc] in Hx
      end
  end.

Ltac use_over :=
  unfold ctx_over in *; cbn [lover lmerged after_reply ctx0] in *;
  repeat match goal with
  | Hx : lover ?c = _ |- _ => rewrite Hx in *
  end; cbn [lover] in *.

Ltac kill_cpc :=
  repeat match goal with
  | |- context [match cpc ?s with _ => _ end] => destruct (cpc s) eqn:?
  | H : context [match cpc ?s with _ => _ end] |- _ => destruct (cpc s) eqn:?
  end.
Ltac ltbs :=
  repeat match goal with
  | H : Nat.ltb _ _ = true |- _ => apply Nat.ltb_lt in H
  | H : Nat.ltb _ _ = false |- _ => apply Nat.ltb_ge in H
  end.
Ltac counts := try assumption; subst_env; ltbs; split_ifs; upd_facts; unfold_meas; cbv beta in *; use_over; cbn [b2n] in *; kill_cpc;
  try assumption; try lia; try discriminate; try (intros; congruence); try (intros; exfalso; lia).


Section Proofs.
Variable mp : mparams.

Lemma step_inv s a s' : inv s -> step mp s a = Some s' -> inv s'.
Proof.
  intros [Hl Hr Ha Hw Hc Hh] H. destruct a; unfold step, getw in H; dm; inversion H; subst; clear H; wf_facts Hw;
  (constructor; open_state; auto; [ counts .. ]).
  all: try (split_ifs; apply Forall_upd; auto; try apply Forall_upd; auto; unfold wf_writer; cbn; auto; exact I).
  all: intros _ _; destruct (hpc s); cbn in *; auto; discriminate.
Qed.

Lemma run_inv l : forall s s', inv s -> run mp s l = Some s' -> inv s'.
Proof.
  induction l; simpl; intros s s' Hi H.
  - inversion H; subst; auto.
  - destruct (step mp s a) eqn:E; try discriminate. eapply IHl; [|eauto]. eapply step_inv; eauto.
Qed.

(* reachable states of the system with n writers *)
Definition reachable (n : nat) (s : state) : Prop := exists l, run mp (init n) l = Some s.

Lemma reachable_inv n s : reachable n s -> inv s.
Proof. intros [l H]. eapply run_inv; [apply inv_init|eauto]. Qed.

End Proofs.
