(* Conc/WriteMergeProofs.v — proofs about the transition system Conc/WriteMerge.v.
   Counting invariant (calibrated in DESIGN.md §6): lock owners + free token = 1, writers
   waiting for a reply = replies due, writers waiting for an acknowledgement =
   acknowledgements due; proved by induction over arbitrary action sequences, for any number of
   writers, with a counting lemma over the list of program counters and lia per action. *)
From Coq Require Import List NArith Bool Arith Lia.
From GL Require Import Conc.WriteMerge.
Import ListNotations.

(* ------------------------------------------------------------------ lists *)

Fixpoint sumf {A} (f : A -> nat) (l : list A) : nat :=
  match l with [] => 0 | x :: t => f x + sumf f t end.

Lemma upd_length {A} (l : list A) i x : length (upd l i x) = length l.
Proof. revert i; induction l; destruct i; simpl; auto. Qed.

Lemma nth_upd_same {A} (l : list A) i x w : nth_error l i = Some w -> nth_error (upd l i x) i = Some x.
Proof. revert i; induction l; destruct i; simpl; intros; try discriminate; auto. Qed.

Lemma nth_upd_other {A} (l : list A) i j x : i <> j -> nth_error (upd l i x) j = nth_error l j.
Proof.
  revert i j; induction l; intros i j H; destruct i; destruct j; simpl; auto; try congruence.
Qed.

Lemma sumf_upd {A} (f : A -> nat) l i x w :
  nth_error l i = Some w -> sumf f (upd l i x) + f w = sumf f l + f x.
Proof.
  revert i; induction l; destruct i; simpl; intros H; try discriminate.
  - inversion H; subst. lia.
  - specialize (IHl _ H). lia.
Qed.

Lemma sumf_upd2 {A} (f : A -> nat) l i j xi xj wi wj :
  nth_error l i = Some wi -> nth_error l j = Some wj -> i <> j ->
  sumf f (upd (upd l i xi) j xj) + f wi + f wj = sumf f l + f xi + f xj.
Proof.
  intros Hi Hj Hn.
  assert (H1 : nth_error (upd l i xi) j = Some wj) by (rewrite nth_upd_other; auto).
  pose proof (sumf_upd f _ _ xj _ H1). pose proof (sumf_upd f _ _ xi _ Hi). lia.
Qed.

Lemma sumf_pos {A} (f : A -> nat) l : 0 < sumf f l -> exists i w, nth_error l i = Some w /\ 0 < f w.
Proof.
  induction l; simpl; intros H; [lia|].
  destruct (f a) eqn:E.
  - destruct IHl as (i & w & Hi & Hw); [lia|]. exists (S i), w; auto.
  - exists 0, a; simpl; split; auto; lia.
Qed.

Lemma sumf_ge {A} (f : A -> nat) l i w : nth_error l i = Some w -> f w <= sumf f l.
Proof. revert i; induction l; destruct i; simpl; intros H; try discriminate.
  - inversion H; subst; lia.
  - specialize (IHl _ H); lia.
Qed.

Lemma sumf_two {A} (f : A -> nat) l i j wi wj :
  nth_error l i = Some wi -> nth_error l j = Some wj -> i <> j -> f wi + f wj <= sumf f l.
Proof.
  revert i j; induction l; intros i j Hi Hj Hn; destruct i; destruct j; simpl in *; try discriminate; try congruence.
  - inversion Hi; subst. pose proof (sumf_ge f _ _ _ Hj). lia.
  - inversion Hj; subst. pose proof (sumf_ge f _ _ _ Hi). lia.
  - assert (i <> j) by congruence. specialize (IHl _ _ Hi Hj H). lia.
Qed.

Lemma sumf_repeat {A} (f : A -> nat) x n : f x = 0 -> sumf f (repeat x n) = 0.
Proof. intros H; induction n; simpl; auto. lia. Qed.

Lemma Forall_upd {A} (P : A -> Prop) l i x : Forall P l -> P x -> Forall P (upd l i x).
Proof.
  revert i; induction l; destruct i; simpl; intros H Hx; auto; inversion H; subst; constructor; auto.
Qed.

Lemma Forall_nth {A} (P : A -> Prop) l i w : Forall P l -> nth_error l i = Some w -> P w.
Proof. intros H Hn. rewrite Forall_forall in H. apply H. eapply nth_error_In; eauto. Qed.

(* ------------------------------------------------------------------ measures *)

Definition holdsp (p : wpc) : nat :=
  match p with
  | WLFlush | WLMerge _ | WLReply _ _ | WLJournal _ | WLApply _ | WLPublish _ | WLRotate _ | WLUnlock _ _ _ => 1
  | _ => 0
  end.
Definition mwaitp (p : wpc) : nat := match p with WWaitMerged => 1 | _ => 0 end.
Definition waitackp (p : wpc) : nat := match p with WWaitAck => 1 | _ => 0 end.
Definition ctx_over (c : lctx) : nat := match lover c with Some _ => 1 | None => 0 end.
Definition replyduep (p : wpc) : nat :=
  match p with
  | WLReply c _ => 1 + ctx_over c
  | WLMerge c | WLJournal c | WLApply c | WLPublish c | WLRotate c | WLUnlock c _ _ => ctx_over c
  | _ => 0
  end.
Definition ackduep (p : wpc) : nat :=
  match p with
  | WLMerge c | WLReply c _ | WLJournal c | WLApply c | WLPublish c | WLRotate c => lmerged c
  | WLUnlock c k _ => lmerged c - k
  | _ => 0
  end.

Definition holds (w : writer) := holdsp (pc w).
Definition mwait (w : writer) := mwaitp (pc w).
Definition waitack (w : writer) := waitackp (pc w).
Definition replydue (w : writer) := replyduep (pc w).
Definition ackdue (w : writer) := ackduep (pc w).

(* local facts: in the merge loop no overflow has happened yet; merged counts the replies sent;
   the loop counter of unlockWrite never exceeds merged *)
Definition wf_ctx (c : lctx) : Prop := length (lreplied c) = lmerged c.
Definition wf_pc (p : wpc) : Prop :=
  match p with
  | WLMerge c | WLReply c _ => lover c = None /\ wf_ctx c
  | WLJournal c | WLApply c | WLPublish c | WLRotate c => wf_ctx c
  | WLUnlock c k _ => wf_ctx c /\ k <= lmerged c
  | _ => True
  end.
Definition wf_writer (w : writer) : Prop := wf_pc (pc w).

Definition b2n (b : bool) : nat := if b then 1 else 0.
Definition close_holds (s : state) : nat := match cpc s with CLocked => 1 | _ => 0 end.

(* everybody who owns the write lock *)
Definition owners (s : state) : nat :=
  sumf holds (ws s) + cr s + tflush s + topen s + tleak s + close_holds s + b2n (cwl s).

Record inv (s : state) : Prop := {
  inv_lock : owners s = b2n (lock s);
  inv_reply : sumf mwait (ws s) = sumf replydue (ws s);
  inv_ack : sumf waitack (ws s) = sumf ackdue (ws s);
  inv_wf : Forall wf_writer (ws s);
  (* the lock is held on the handler's behalf only while SetReadOnly is between its selects, or the
     handler is in its persistent-error loop, or the DB is closing *)
  inv_cwl : cwl s = true -> ropend s = 0 -> hpc s = HPerr \/ closed s = true;
  inv_hexit : hpc s = HExit -> closed s = true
}.

Lemma inv_init n : inv (init n).
Proof.
  constructor; unfold owners, close_holds; simpl; try discriminate;
    rewrite ?sumf_repeat by reflexivity; auto.
  induction n; simpl; constructor; auto. exact I.
Qed.

(* ------------------------------------------------------------------ tactics *)

Ltac dm :=
  repeat match goal with
  | H : match ?x with _ => _ end = Some _ |- _ =>
      let E := fresh "E" in destruct x eqn:E; try discriminate
  | H : (if ?x then _ else _) = Some _ |- _ =>
      let E := fresh "E" in destruct x eqn:E; try discriminate
  end.

Lemma pcs_differ (l : list writer) i j wi wj :
  nth_error l i = Some wi -> nth_error l j = Some wj -> pc wi <> pc wj -> i <> j.
Proof. intros Hi Hj Hp E; subst. rewrite Hi in Hj. inversion Hj; subst. auto. Qed.

(* facts about one measure after a single / double update *)
Ltac upd1 f Hi := pose proof (sumf_upd f _ _ _ _ Hi).
Ltac upd2 f Hi Hj Hn := pose proof (sumf_upd2 f _ _ _ _ _ _ _ Hi Hj Hn).

Ltac unfold_meas :=
  unfold holds, mwait, waitack, replydue, ackdue in *;
  repeat match goal with
  | E : pc ?w = _ |- _ => rewrite E in *
  end;
  cbn [pc set_pc holdsp mwaitp waitackp replyduep ackduep ctx_over lover lmerged ctx0 after_reply] in *.

Ltac upd_facts :=
  repeat match goal with
  | Hi : nth_error ?l ?i = Some ?wi, Hj : nth_error ?l ?j = Some ?wj |- context [sumf ?f (upd (upd ?l ?i ?xi) ?j ?xj)] =>
      lazymatch goal with
      | _ : sumf f (upd (upd l i xi) j xj) + f wi + f wj = _ |- _ => fail
      | _ => let Hn := fresh "Hn" in
             assert (Hn : i <> j) by (apply (pcs_differ l i j wi wj Hi Hj); congruence);
             pose proof (sumf_upd2 f l i j xi xj wi wj Hi Hj Hn); clear Hn
      end
  | Hi : nth_error ?l ?i = Some ?w |- context [sumf ?f (upd ?l ?i ?x)] =>
      lazymatch goal with
      | _ : sumf f (upd l i x) + f w = _ |- _ => fail
      | _ => pose proof (sumf_upd f l i x w Hi)
      end
  end.

Ltac open_state :=
  unfold owners, close_holds, closed in *;
  cbn [ws lock cpc hpc cwl ropend cr tflush topen tleak setw with_ws with_lock with_env with_logs] in *.


Ltac subst_env :=
  repeat match goal with
  | E : lock _ = _ |- _ => rewrite E in *; clear E
  | E : cwl _ = _ |- _ => rewrite E in *; clear E
  | E : cpc _ = _ |- _ => progress (rewrite E in *)
  | E : hpc _ = _ |- _ => progress (rewrite E in *)
  | E : tflush _ = _ |- _ => rewrite E in *; clear E
  | E : topen _ = _ |- _ => rewrite E in *; clear E
  | E : cr _ = _ |- _ => rewrite E in *; clear E
  | E : ropend _ = _ |- _ => rewrite E in *; clear E
  end; cbn [b2n] in *.

Ltac split_ifs :=
  unfold merge_decide in *;
  repeat match goal with
  | |- context [if ?b then _ else _] => let E := fresh "Eb" in destruct b eqn:E
  end.

Ltac wf_facts Hw :=
  repeat match goal with
  | Hi : nth_error _ ?i = Some ?w, Ep : pc ?w = ?p |- _ =>
      lazymatch goal with
      | _ : wf_pc p |- _ => fail
      | _ => let Hx := fresh "Hwf" in
             pose proof (Forall_nth _ _ _ _ Hw Hi) as Hx; unfold wf_writer in Hx; rewrite Ep in Hx
      end
  end;
  repeat match goal with
  | Hx : wf_pc _ |- _ => cbn [wf_pc] in Hx; unfold wf_ctx in Hx
  end;
  repeat match goal with
  | Hx : _ /\ _ |- _ => destruct Hx
  end.

Ltac use_over :=
  unfold ctx_over in *; cbn [lover lmerged after_reply ctx0] in *;
  repeat match goal with
  | Hx : lover ?c = _ |- _ => rewrite Hx in *
  end; cbn [lover] in *.

Ltac kill_cpc :=
  repeat match goal with
  | |- context [match cpc ?s with _ => _ end] => destruct (cpc s) eqn:?
  | H : context [match cpc ?s with _ => _ end] |- _ => destruct (cpc s) eqn:?
  end.
Ltac ltbs :=
  repeat match goal with
  | H : Nat.ltb _ _ = true |- _ => apply Nat.ltb_lt in H
  | H : Nat.ltb _ _ = false |- _ => apply Nat.ltb_ge in H
  end.
Ltac counts := try assumption; subst_env; ltbs; split_ifs; upd_facts; unfold_meas; cbv beta in *; use_over; cbn [b2n] in *; kill_cpc;
  try assumption; try lia; try discriminate; try (intros; congruence); try (intros; exfalso; lia).


Section Proofs.
Variable mp : mparams.

Lemma step_inv s a s' : inv s -> step mp s a = Some s' -> inv s'.
Proof.
  intros [Hl Hr Ha Hw Hc Hh] H. destruct a; unfold step, getw in H; dm; inversion H; subst; clear H; wf_facts Hw;
  (constructor; open_state; auto; [ counts .. ]).
  all: try (split_ifs; apply Forall_upd; auto; try apply Forall_upd; auto; unfold wf_writer; ltbs;
            cbn [pc set_pc wf_pc]; unfold wf_ctx;
            cbn [lover lmerged lreplied after_reply ctx0 length]; rewrite ?app_length;
            cbn [length]; repeat split; auto; try lia; exact I).
  all: intros _ _; destruct (hpc s); cbn in *; auto; discriminate.
Qed.

Lemma run_inv l : forall s s', inv s -> run mp s l = Some s' -> inv s'.
Proof.
  induction l; simpl; intros s s' Hi H.
  - inversion H; subst; auto.
  - destruct (step mp s a) eqn:E; try discriminate. eapply IHl; [|eauto]. eapply step_inv; eauto.
Qed.

(* reachable states of the system with n writers *)
Definition reachable (n : nat) (s : state) : Prop := exists l, run mp (init n) l = Some s.

Lemma reachable_inv n s : reachable n s -> inv s.
Proof. intros [l H]. eapply run_inv; [apply inv_init|eauto]. Qed.

End Proofs.

(* ------------------------------------------------------------------ consequences of the counting invariant *)

Lemma sumf_zero {A} (f : A -> nat) l : (forall j v, nth_error l j = Some v -> f v = 0) -> sumf f l = 0.
Proof.
  induction l; simpl; intros H; auto.
  rewrite (H 0 a eq_refl). rewrite IHl; auto. intros j v Hj. apply (H (S j) v Hj).
Qed.

Lemma sumf_single {A} (f : A -> nat) l i w :
  nth_error l i = Some w -> (forall j v, j <> i -> nth_error l j = Some v -> f v = 0) -> sumf f l = f w.
Proof.
  revert i; induction l; destruct i; simpl; intros H Hz; try discriminate.
  - inversion H; subst. rewrite (sumf_zero f l); [lia|].
    intros j v Hj. apply (Hz (S j) v); [discriminate|exact Hj].
  - rewrite (Hz 0 a); [|discriminate|reflexivity]. simpl. apply (IHl i); auto.
    intros j v Hn Hj. apply (Hz (S j) v); [congruence|exact Hj].
Qed.

Lemma holdsp_le1 p : holdsp p <= 1.
Proof. destruct p; simpl; lia. Qed.

Lemma replydue_holds p : holdsp p = 0 -> replyduep p = 0.
Proof. destruct p; simpl; auto; discriminate. Qed.

Lemma ackdue_holds p : holdsp p = 0 -> ackduep p = 0.
Proof. destruct p; simpl; auto; discriminate. Qed.

Lemma owners_le1 s : inv s -> owners s <= 1.
Proof. intros H. rewrite (inv_lock s H). destruct (lock s); simpl; lia. Qed.

(* a writer that owns the lock is the only owner *)
Lemma only_leader s l wl : inv s -> nth_error (ws s) l = Some wl -> holds wl = 1 ->
  (forall j w, j <> l -> nth_error (ws s) j = Some w -> holds w = 0) /\
  cr s = 0 /\ tflush s = 0 /\ topen s = 0 /\ tleak s = 0 /\ close_holds s = 0 /\ cwl s = false /\ lock s = true.
Proof.
  intros Hi Hl H1. pose proof (owners_le1 s Hi) as Ho. pose proof (inv_lock s Hi) as Hk. unfold owners in *.
  pose proof (sumf_ge holds _ _ _ Hl).
  split.
  - intros j w Hn Hj. pose proof (sumf_two holds _ _ _ _ _ Hj Hl Hn). lia.
  - destruct (cwl s); destruct (lock s); simpl in *; repeat split; try lia.
Qed.

Lemma leader_sums s l wl : inv s -> nth_error (ws s) l = Some wl -> holds wl = 1 ->
  sumf mwait (ws s) = replydue wl /\ sumf waitack (ws s) = ackdue wl.
Proof.
  intros Hi Hl H1. destruct (only_leader s l wl Hi Hl H1) as [Ho _].
  rewrite (inv_reply s Hi), (inv_ack s Hi). split; apply (sumf_single _ _ l); auto; intros j v Hn Hj.
  - apply replydue_holds. apply (Ho j v); auto.
  - apply ackdue_holds. apply (Ho j v); auto.
Qed.

Lemma no_leader_sums s : inv s -> sumf holds (ws s) = 0 ->
  sumf mwait (ws s) = 0 /\ sumf waitack (ws s) = 0.
Proof.
  intros Hi H0. rewrite (inv_reply s Hi), (inv_ack s Hi).
  assert (Hz : forall j v, nth_error (ws s) j = Some v -> holds v = 0).
  { intros j v Hj. pose proof (sumf_ge holds _ _ _ Hj). lia. }
  split; apply sumf_zero; intros j v Hj; [apply replydue_holds | apply ackdue_holds]; apply (Hz j v Hj).
Qed.

Lemma find_measure (f : writer -> nat) (p : wpc -> nat) l :
  (forall w, f w = p (pc w)) -> 0 < sumf f l -> exists i w, nth_error l i = Some w /\ 0 < p (pc w).
Proof. intros Hf H. destruct (sumf_pos f l H) as (i & w & Hi & Hw). exists i, w. rewrite <- Hf. auto. Qed.

Lemma mwaitp_pos p : 0 < mwaitp p -> p = WWaitMerged.
Proof. destruct p; simpl; auto; lia. Qed.
Lemma waitackp_pos p : 0 < waitackp p -> p = WWaitAck.
Proof. destruct p; simpl; auto; lia. Qed.

Section Theorems.
Variable mp : mparams.

(* --- mutex *)
Theorem mutex_owners n s : reachable mp n s ->
  owners s <= 1 /\ (lock s = true -> owners s = 1) /\ (lock s = false -> owners s = 0).
Proof.
  intros R. pose proof (reachable_inv mp n s R) as Hi. pose proof (inv_lock s Hi) as Hk.
  repeat split; [apply owners_le1; auto | |]; intros E; rewrite E in Hk; auto.
Qed.

Theorem mutex_writers n s i j wi wj : reachable mp n s ->
  nth_error (ws s) i = Some wi -> nth_error (ws s) j = Some wj -> holds wi = 1 -> holds wj = 1 -> i = j.
Proof.
  intros R Hi Hj H1 H2. pose proof (reachable_inv mp n s R) as Hv.
  destruct (Nat.eq_dec i j); auto. exfalso.
  destruct (only_leader s i wi Hv Hi H1) as [Ho _]. rewrite (Ho j wj) in H2; auto. discriminate.
Qed.

(* --- every blocking send of the leader has a receiver waiting *)
Theorem reply_has_receiver n s l wl c x : reachable mp n s ->
  nth_error (ws s) l = Some wl -> pc wl = WLReply c x ->
  exists i, step mp s (AReplyTrue l i) <> None.
Proof.
  intros R Hl Hp. pose proof (reachable_inv mp n s R) as Hv.
  assert (H1 : holds wl = 1) by (unfold holds; rewrite Hp; auto).
  destruct (leader_sums s l wl Hv Hl H1) as [Hm _]. unfold replydue in Hm. rewrite Hp in Hm. simpl in Hm.
  destruct (find_measure mwait mwaitp (ws s)) as (i & w & Hi & Hw); [reflexivity | lia |].
  apply mwaitp_pos in Hw. exists i. unfold step, getw. rewrite Hl, Hi, Hp, Hw. discriminate.
Qed.

Theorem ack_receivers n s l wl c k e : reachable mp n s ->
  nth_error (ws s) l = Some wl -> pc wl = WLUnlock c k e ->
  sumf waitack (ws s) = lmerged c - k /\ k <= lmerged c.
Proof.
  intros R Hl Hp. pose proof (reachable_inv mp n s R) as Hv.
  assert (H1 : holds wl = 1) by (unfold holds; rewrite Hp; auto).
  destruct (leader_sums s l wl Hv Hl H1) as [_ Ha]. unfold ackdue in Ha. rewrite Hp in Ha. simpl in Ha.
  split; auto. pose proof (Forall_nth _ _ _ _ (inv_wf s Hv) Hl) as Hw. unfold wf_writer in Hw. rewrite Hp in Hw. apply Hw.
Qed.

Theorem ack_has_receiver n s l wl c k e : reachable mp n s ->
  nth_error (ws s) l = Some wl -> pc wl = WLUnlock c k e -> k < lmerged c ->
  exists i, step mp s (AAck l i) <> None.
Proof.
  intros R Hl Hp Hk. destruct (ack_receivers n s l wl c k e R Hl Hp) as [Ha _].
  destruct (find_measure waitack waitackp (ws s)) as (i & w & Hi & Hw); [reflexivity | lia |].
  apply waitackp_pos in Hw. exists i. unfold step, getw. rewrite Hl, Hi, Hp, Hw.
  apply Nat.ltb_lt in Hk. rewrite Hk. discriminate.
Qed.

(* --- end of a group: hand-over to exactly one waiting writer, or release; never both, never neither *)
Theorem unlock_end n s l wl c k e : reachable mp n s ->
  nth_error (ws s) l = Some wl -> pc wl = WLUnlock c k e -> lmerged c <= k ->
  sumf waitack (ws s) = 0 /\
  match lover c with
  | Some _ => step mp s (ARelease l) = None /\ sumf mwait (ws s) = 1 /\ exists o, step mp s (AHandover l o) <> None
  | None => step mp s (ARelease l) <> None /\ sumf mwait (ws s) = 0 /\ forall o, step mp s (AHandover l o) = None
  end.
Proof.
  intros R Hl Hp Hk. pose proof (reachable_inv mp n s R) as Hv.
  assert (H1 : holds wl = 1) by (unfold holds; rewrite Hp; auto).
  destruct (leader_sums s l wl Hv Hl H1) as [Hm Ha]. unfold replydue, ackdue in *. rewrite Hp in *. simpl in *.
  destruct (only_leader s l wl Hv Hl H1) as (_ & _ & _ & _ & _ & _ & _ & Hlk).
  assert (Hkb : (k <? lmerged c) = false) by (apply Nat.ltb_ge; auto).
  split; [lia|]. unfold ctx_over in Hm. destruct (lover c) eqn:Eo.
  - split; [unfold step, getw; rewrite Hl, Hp, Hkb, Eo; auto|]. split; auto.
    destruct (find_measure mwait mwaitp (ws s)) as (o & w & Ho & Hw); [reflexivity | lia |].
    apply mwaitp_pos in Hw. exists o. unfold step, getw. rewrite Hl, Ho, Hp, Hw, Hkb, Eo. discriminate.
  - split; [unfold step, getw; rewrite Hl, Hp, Hkb, Eo, Hlk; discriminate|]. split; auto.
    intros o. unfold step, getw. rewrite Hl, Hp. destruct (nth_error (ws s) o); auto. destruct (pc w); auto.
    rewrite Hkb, Eo; auto.
Qed.

Theorem handover_step n s l o s' : reachable mp n s -> step mp s (AHandover l o) = Some s' ->
  lock s' = true /\ owners s' = 1 /\
  (exists wo, nth_error (ws s') o = Some wo /\ pc wo = WLFlush) /\
  (forall j w, j <> o -> nth_error (ws s') j = Some w -> holds w = 0) /\
  sumf mwait (ws s) = 1.
Proof.
  intros R H. pose proof (reachable_inv mp n s R) as Hv. pose proof (step_inv mp _ _ _ Hv H) as Hv'.
  unfold step, getw in H. dm. inversion H; subst; clear H.
  assert (Hn : o <> l) by (apply (pcs_differ (ws s) o l w0 w E0 E); congruence).
  assert (H1 : holds w = 1) by (unfold holds; rewrite E1; auto).
  destruct (only_leader s l w Hv E H1) as (_ & _ & _ & _ & _ & _ & _ & Hlk).
  destruct (leader_sums s l w Hv E H1) as [Hm _]. unfold replydue in Hm. rewrite E1 in Hm. simpl in Hm.
  unfold ctx_over in Hm. rewrite E4 in Hm.
  set (s' := with_logs _ _ _ _ _ _) in *.
  assert (Ho : nth_error (ws s') o = Some (set_pc w0 WLFlush)).
  { simpl. rewrite nth_upd_other by auto. eapply nth_upd_same; eauto. }
  assert (H2 : holds (set_pc w0 WLFlush) = 1) by reflexivity.
  destruct (only_leader s' o _ Hv' Ho H2) as (Hoth & _ & _ & _ & _ & _ & _ & Hlk').
  pose proof (inv_lock s' Hv') as Hk. rewrite Hlk' in Hk.
  repeat split; auto. eexists; split; eauto.
Qed.

Theorem release_step n s l s' : reachable mp n s -> step mp s (ARelease l) = Some s' ->
  lock s' = false /\ owners s' = 0 /\ sumf mwait (ws s) = 0.
Proof.
  intros R H. pose proof (reachable_inv mp n s R) as Hv. pose proof (step_inv mp _ _ _ Hv H) as Hv'.
  pose proof (inv_lock s' Hv') as Hk.
  unfold step, getw in H. dm. inversion H; subst; clear H.
  assert (H1 : holds w = 1) by (unfold holds; rewrite E0; auto).
  destruct (leader_sums s l w Hv E H1) as [Hm _]. unfold replydue in Hm. rewrite E0 in Hm. simpl in Hm.
  unfold ctx_over in Hm. rewrite E2 in Hm.
  simpl in *. repeat split; auto.
Qed.

End Theorems.

(* ------------------------------------------------------------------ deadlock freedom *)

Definition pending (w : writer) : bool := match pc w with WIdle | WDone _ => false | _ => true end.

Lemma holdsp_cases p : holdsp p = 0 \/ holdsp p = 1.
Proof. destruct p; simpl; auto. Qed.

Section Progress.
Variable mp : mparams.

(* a writer that owns the lock can always move *)
Lemma leader_enabled s l wl : inv s -> nth_error (ws s) l = Some wl -> holds wl = 1 ->
  exists a, arrival a = false /\ step mp s a <> None.
Proof.
  intros Hv Hl H1.
  destruct (leader_sums s l wl Hv Hl H1) as [Hm Ha].
  destruct (only_leader s l wl Hv Hl H1) as (_ & _ & _ & _ & _ & _ & _ & Hlk).
  unfold holds, replydue, ackdue in *. destruct (pc wl) eqn:Hp; simpl in *; try discriminate.
  - exists (AFlushOk l 0%N). split; auto. unfold step, getw. rewrite Hl, Hp. discriminate.
  - exists (AMergeDone l). split; auto. unfold step, getw. rewrite Hl, Hp. discriminate.
  - destruct (find_measure mwait mwaitp (ws s)) as (i & w & Hi & Hw); [reflexivity | lia |].
    apply mwaitp_pos in Hw. exists (AReplyTrue l i). split; auto. unfold step, getw. rewrite Hl, Hi, Hp, Hw. discriminate.
  - exists (AJournalOk l). split; auto. unfold step, getw. rewrite Hl, Hp. discriminate.
  - exists (AApply l). split; auto. unfold step, getw. rewrite Hl, Hp. discriminate.
  - exists (APublish l). split; auto. unfold step, getw. rewrite Hl, Hp. discriminate.
  - destruct (lown c <? lfree c)%N eqn:Er.
    + exists (ARotateSkip l). split; auto. unfold step, getw. rewrite Hl, Hp, Er. discriminate.
    + exists (ARotateOk l). split; auto. unfold step, getw. rewrite Hl, Hp, Er. discriminate.
  - destruct (i <? lmerged c) eqn:Ek.
    + apply Nat.ltb_lt in Ek.
      destruct (find_measure waitack waitackp (ws s)) as (j & w & Hj & Hw); [reflexivity | lia |].
      apply waitackp_pos in Hw. exists (AAck l j). split; auto. unfold step, getw. rewrite Hl, Hj, Hp, Hw.
      apply Nat.ltb_lt in Ek. rewrite Ek. discriminate.
    + unfold ctx_over in Hm. destruct (lover c) eqn:Eo.
      * destruct (find_measure mwait mwaitp (ws s)) as (o & w & Ho & Hw); [reflexivity | lia |].
        apply mwaitp_pos in Hw. exists (AHandover l o). split; auto. unfold step, getw.
        rewrite Hl, Ho, Hp, Hw, Ek, Eo. discriminate.
      * exists (ARelease l). split; auto. unfold step, getw. rewrite Hl, Hp, Ek, Eo, Hlk. discriminate.
Qed.

(* No pending writer is ever stuck: in every reachable state in which some call is in progress, an
   action other than the arrival of a new call is enabled — provided no OpenTransaction has
   returned an error with the lock held (tleak = 0; see txn_leak_deadlock for what happens
   otherwise: goleveldb's OpenTransaction error paths do leak the lock). *)
Theorem no_lost_writer n s : reachable mp n s -> tleak s = 0 ->
  (exists i w, nth_error (ws s) i = Some w /\ pending w = true) ->
  exists a, arrival a = false /\ step mp s a <> None.
Proof.
  intros R Hleak (i & w & Hi & Hp). pose proof (reachable_inv mp n s R) as Hv.
  destruct (Nat.eq_dec (sumf holds (ws s)) 0) as [H0|H0].
  - destruct (no_leader_sums s Hv H0) as [Hm Ha].
    assert (Hh : holds w = 0) by (pose proof (sumf_ge holds _ _ _ Hi); lia).
    assert (Hmw : mwait w = 0) by (pose proof (sumf_ge mwait _ _ _ Hi); lia).
    assert (Haw : waitack w = 0) by (pose proof (sumf_ge waitack _ _ _ Hi); lia).
    unfold pending, holds, mwait, waitack in Hp, Hh, Hmw, Haw. destruct (pc w) eqn:Epc; simpl in Hp, Hh, Hmw, Haw; try discriminate.
    + (* WSelect *)
      destruct (lock s) eqn:Elk.
      * pose proof (inv_lock s Hv) as Hk. rewrite Elk in Hk. unfold owners in Hk. simpl in Hk.
        destruct (cr s) eqn:Ecr.
        2:{ exists ACRRelease. split; auto. unfold step. rewrite Ecr, Elk. discriminate. }
        destruct (tflush s) eqn:Etf.
        2:{ exists ATxnFlushOk. split; auto. unfold step. rewrite Etf. discriminate. }
        destruct (topen s) eqn:Eto.
        2:{ exists ATxnDone. split; auto. unfold step. rewrite Eto, Elk. discriminate. }
        unfold close_holds in Hk. destruct (cpc s) eqn:Ec.
        4:{ exists (ASelClosed i). split; auto. unfold step, getw, closed. rewrite Hi, Epc, Ec. discriminate. }
        all: destruct (cwl s) eqn:Ew; simpl in Hk; try lia.
        all: destruct (hpc s) eqn:Eh.
        all: try (exists (ASelPerr i); split; auto; unfold step, getw; rewrite Hi, Epc, Eh; discriminate).
        all: try (pose proof (inv_hexit s Hv Eh) as Hx; unfold closed in Hx; rewrite Ec in Hx; discriminate).
        all: try (exists (ASelClosed i); split; auto; unfold step, getw, closed; rewrite Hi, Epc, Ec; discriminate).
        all: destruct (ropend s) eqn:Er;
          try (exists AROSend; split; auto; unfold step; rewrite Er, Eh; discriminate).
        all: pose proof (inv_cwl s Hv Ew Er) as Hx; unfold closed in Hx; rewrite Ec, Eh in Hx;
          destruct Hx; discriminate.
      * exists (ASelLock i). split; auto. unfold step, getw. rewrite Hi, Epc, Elk. discriminate.
    + exists (AReturn i). split; auto. unfold step, getw. rewrite Hi, Epc. discriminate.
  - assert (Hpos : 0 < sumf holds (ws s)) by lia.
    destruct (sumf_pos holds _ Hpos) as (l & wl & Hl & H1).
    assert (holds wl = 1) by (unfold holds in *; destruct (holdsp_cases (pc wl)); lia).
    eapply leader_enabled; eauto.
Qed.

End Progress.

(* ------------------------------------------------------------------ the leak of OpenTransaction's error paths *)

Section Leak.
Variable mp : mparams.

(* goleveldb's OpenTransaction returns on a rotateMem / waitCompaction error without releasing
   the write lock.  In the model this is ATxnFlushFail, and it does strand writers: *)
Theorem txn_leak_deadlock :
  exists l s, run mp (init 1) l = Some s /\ tleak s = 1 /\
    (exists w, nth_error (ws s) 0 = Some w /\ pending w = true) /\
    forall a, arrival a = false -> step mp s a = None.
Proof.
  exists [ATxnAcquire; ATxnFlushFail; ACall 0 true false 10%N]. eexists. split; [vm_compute; reflexivity|].
  split; [reflexivity|]. split; [eexists; split; reflexivity|].
  intros a Ha. destruct a; try discriminate; unfold step, getw; cbn [ws lock cpc hpc cwl ropend cr tflush topen tleak closed];
    repeat match goal with
    | |- context [nth_error _ ?i] => is_var i; destruct i as [|[|?]]; cbn [nth_error pc]
    end; auto.
Qed.

End Leak.

(* ------------------------------------------------------------------ finished groups: exactly merged acknowledgements *)

Definition gok (g : grec) : Prop := g_acks g = g_merged g /\ length (g_replied g) = g_merged g.

Section Groups.
Variable mp : mparams.

Lemma step_glog s a s' : inv s -> Forall gok (glog s) -> step mp s a = Some s' -> Forall gok (glog s').
Proof.
  intros Hv Hg H. pose proof (inv_wf s Hv) as Hw.
  destruct a; unfold step, getw in H; dm; inversion H; subst; clear H; simpl; auto.
  - wf_facts Hw. ltbs. apply Forall_app; split; auto. constructor; auto. split; simpl; auto. lia.
  - wf_facts Hw. ltbs. apply Forall_app; split; auto. constructor; auto. split; simpl; auto. lia.
Qed.

Lemma run_glog l : forall s s', inv s -> Forall gok (glog s) -> run mp s l = Some s' -> Forall gok (glog s').
Proof.
  induction l; simpl; intros s s' Hi Hg H.
  - inversion H; subst; auto.
  - destruct (step mp s a) eqn:E; try discriminate. eapply IHl; [| |eauto].
    + eapply step_inv; eauto.
    + eapply step_glog; eauto.
Qed.

(* every finished unlockWrite has sent exactly `merged` acknowledgements, one per `true` reply *)
Theorem ack_count_finished n s g : reachable mp n s -> In g (glog s) ->
  g_acks g = g_merged g /\ length (g_replied g) = g_merged g.
Proof.
  intros [l H] Hin. assert (Hg : Forall gok (glog s)).
  { eapply run_glog; [apply inv_init| |eauto]. constructor. }
  rewrite Forall_forall in Hg. apply Hg; auto.
Qed.

End Groups.

(* ------------------------------------------------------------------ group composition (identity invariant) *)

Lemma nth_upd_inv {A} (l : list A) i x j w :
  nth_error (upd l i x) j = Some w -> (j = i /\ w = x) \/ (j <> i /\ nth_error l j = Some w).
Proof.
  revert i j; induction l; intros i j H.
  - destruct i; simpl in H; destruct j; discriminate.
  - destruct i; destruct j; simpl in *.
    + inversion H; auto.
    + right; split; auto.
    + right; split; auto.
    + destruct (IHl _ _ H) as [[-> ->]|[Hn Hj]]; auto.
Qed.

(* what a leader's local variables say about its group: batches = itself + the writers told true
   (+ the one whose reply is being sent), and that one is really waiting for the reply *)
Definition lead_ok (L : list writer) (l : nat) (p : wpc) : Prop :=
  match p with
  | WLReply c x => lbatches c = l :: lreplied c ++ [x] /\ exists wx, nth_error L x = Some wx /\ pc wx = WWaitMerged
  | WLMerge c | WLJournal c | WLApply c | WLPublish c | WLRotate c => lbatches c = l :: lreplied c
  | _ => True
  end.

Definition P2 (L : list writer) : Prop := forall l wl, nth_error L l = Some wl -> lead_ok L l (pc wl).

Definition jok (r : jrecd) : Prop := j_batches r = j_leader r :: j_replied r.

Lemma lead_ok_nonholder L l p : holdsp p = 0 -> lead_ok L l p.
Proof. destruct p; simpl; auto; discriminate. Qed.

Definition wm_stable (L L' : list writer) : Prop :=
  forall x wx, nth_error L x = Some wx -> pc wx = WWaitMerged -> exists wx', nth_error L' x = Some wx' /\ pc wx' = WWaitMerged.

Lemma lead_ok_frame L L' l p : lead_ok L l p -> wm_stable L L' -> lead_ok L' l p.
Proof.
  destruct p; simpl; auto. intros [Hb (wx & Hx & Hp)] Hs. split; auto. apply (Hs _ _ Hx Hp).
Qed.

Lemma wm_stable_upd L i w w' : nth_error L i = Some w -> pc w <> WWaitMerged -> wm_stable L (upd L i w').
Proof.
  intros Hi Hp x wx Hx Hpx. assert (x <> i) by (intros ->; rewrite Hi in Hx; inversion Hx; subst; auto).
  exists wx. rewrite nth_upd_other; auto.
Qed.

Lemma P2_upd1 L i w w' : P2 L -> nth_error L i = Some w -> pc w <> WWaitMerged ->
  lead_ok (upd L i w') i (pc w') -> P2 (upd L i w').
Proof.
  intros HP Hi Hp Hn l wl Hl. apply nth_upd_inv in Hl. destruct Hl as [[-> ->]|[Hne Hl]]; auto.
  eapply lead_ok_frame; [apply HP; eauto|]. eapply wm_stable_upd; eauto.
Qed.

Lemma two_waiting_same s l wl i x wi wx : inv s ->
  nth_error (ws s) l = Some wl -> holds wl = 1 -> replydue wl = 1 ->
  nth_error (ws s) i = Some wi -> pc wi = WWaitMerged ->
  nth_error (ws s) x = Some wx -> pc wx = WWaitMerged -> i = x.
Proof.
  intros Hv Hl H1 Hr Hi Hpi Hx Hpx. destruct (leader_sums s l wl Hv Hl H1) as [Hm _].
  destruct (Nat.eq_dec i x); auto. exfalso.
  pose proof (sumf_two mwait _ _ _ _ _ Hi Hx n). unfold mwait in H at 1 2. rewrite Hpi, Hpx in H. simpl in H. lia.
Qed.

Section Composition.
Variable mp : mparams.

Ltac other_nonholder Hv El Hh :=
  match goal with
  | Hne : ?j <> ?l0, Hj : nth_error (ws ?s) ?j = Some ?w |- lead_ok _ ?j (pc ?w) =>
      apply lead_ok_nonholder;
      destruct (only_leader s l0 _ Hv El Hh) as [Ho _]; apply (Ho j w Hne Hj)
  end.

Lemma step_P2 s a s' : inv s -> P2 (ws s) -> Forall jok (jlog s) -> step mp s a = Some s' ->
  P2 (ws s') /\ Forall jok (jlog s').
Proof.
  intros Hv HP HJ H.
  destruct a; unfold step, getw in H; dm; inversion H; subst; clear H;
    cbn [ws jlog setw with_ws with_lock with_env with_logs]; (split; [|auto]).
  all: try exact HP.
  (* single-writer moves of a non-leader: every WWaitMerged writer stays *)
  all: try (eapply P2_upd1; eauto; [congruence | exact I]).
  (* single-writer moves of the leader: everybody else owns nothing *)
  all: try (match goal with
            | E : nth_error (ws ?s0) ?l = Some ?w, Ep : pc ?w = _ |- P2 (upd (ws ?s0) ?l _) =>
                assert (Hh : holds w = 1) by (unfold holds; rewrite Ep; reflexivity);
                pose proof (HP l w E) as Hlo; rewrite Ep in Hlo; cbn [lead_ok] in Hlo;
                intros j wj Hj; apply nth_upd_inv in Hj; destruct Hj as [[-> ->]|[Hne Hj]];
                [ cbn [pc set_pc lead_ok]; try destruct (wmerge w); cbn [lead_ok lbatches lreplied]; auto
                | other_nonholder Hv E Hh ]
            end).
  (* journal log *)
  all: try (apply Forall_app; split; auto; constructor; auto;
            match goal with
            | E : nth_error (ws ?s0) ?l = Some ?w, Ep : pc ?w = _ |- _ =>
                pose proof (HP l w E) as Hlo; rewrite Ep in Hlo; cbn [lead_ok] in Hlo; exact Hlo
            end).
  - (* ASelMerge i l *)
    assert (Hn : i <> l) by (apply (pcs_differ (ws s) i l w w0 E E0); congruence).
    assert (Hh : holds w0 = 1) by (unfold holds; rewrite E2; reflexivity).
    pose proof (HP l w0 E0) as Hlo; rewrite E2 in Hlo; cbn [lead_ok] in Hlo.
    intros j wj Hj. apply nth_upd_inv in Hj. destruct Hj as [[-> ->]|[Hne Hj]].
    + cbn [pc set_pc]. unfold merge_decide. destruct (llim c <? wsize w)%N; cbn [lead_ok lbatches lreplied]; auto.
      split; [rewrite Hlo; reflexivity|]. exists (set_pc w WWaitMerged). split; auto.
      rewrite nth_upd_other by auto. eapply nth_upd_same; eauto.
    + apply nth_upd_inv in Hj. destruct Hj as [[-> ->]|[Hne2 Hj]]; [exact I|].
      other_nonholder Hv E0 Hh.
  - (* AReplyTrue l i *)
    assert (Hn : i <> l) by (apply (pcs_differ (ws s) i l w0 w E0 E); congruence).
    assert (Hh : holds w = 1) by (unfold holds; rewrite E1; reflexivity).
    pose proof (HP l w E) as Hlo; rewrite E1 in Hlo; cbn [lead_ok] in Hlo. destruct Hlo as [Hb (wx & Hx & Hpx)].
    assert (Hr : replydue w = 1).
    { unfold replydue. rewrite E1. simpl. pose proof (Forall_nth _ _ _ _ (inv_wf s Hv) E) as Hw.
      unfold wf_writer in Hw. rewrite E1 in Hw. destruct Hw as [Ho _]. unfold ctx_over. rewrite Ho. reflexivity. }
    assert (i = x) by (eapply (two_waiting_same s l w i x); eauto). subst x.
    intros j wj Hj. apply nth_upd_inv in Hj. destruct Hj as [[-> ->]|[Hne Hj]].
    + cbn [pc set_pc lead_ok after_reply lbatches lreplied]. exact Hb.
    + apply nth_upd_inv in Hj. destruct Hj as [[-> ->]|[Hne2 Hj]]; [exact I|].
      other_nonholder Hv E Hh.
  - (* AAck l i *)
    assert (Hn : i <> l) by (apply (pcs_differ (ws s) i l w0 w E0 E); congruence).
    assert (Hh : holds w = 1) by (unfold holds; rewrite E1; reflexivity).
    intros j wj Hj. apply nth_upd_inv in Hj. destruct Hj as [[-> ->]|[Hne Hj]]; [exact I|].
    apply nth_upd_inv in Hj. destruct Hj as [[-> ->]|[Hne2 Hj]]; [exact I|].
    other_nonholder Hv E Hh.
  - (* AHandover l o *)
    assert (Hn : o <> l) by (apply (pcs_differ (ws s) o l w0 w E0 E); congruence).
    assert (Hh : holds w = 1) by (unfold holds; rewrite E1; reflexivity).
    intros j wj Hj. apply nth_upd_inv in Hj. destruct Hj as [[-> ->]|[Hne Hj]]; [exact I|].
    apply nth_upd_inv in Hj. destruct Hj as [[-> ->]|[Hne2 Hj]]; [exact I|].
    other_nonholder Hv E Hh.
Qed.

End Composition.

Section Composition2.
Variable mp : mparams.

Lemma P2_init n : P2 (ws (init n)).
Proof.
  intros l wl H. simpl in H. apply nth_error_In in H. apply repeat_spec in H. subst. exact I.
Qed.

Lemma run_P2 l : forall s s', inv s -> P2 (ws s) -> Forall jok (jlog s) -> run mp s l = Some s' ->
  P2 (ws s') /\ Forall jok (jlog s').
Proof.
  induction l; simpl; intros s s' Hi HP HJ H.
  - inversion H; subst; auto.
  - destruct (step mp s a) eqn:E; try discriminate.
    destruct (step_P2 mp _ _ _ Hi HP HJ E) as [HP' HJ'].
    eapply IHl; [| | |eauto]; auto. eapply step_inv; eauto.
Qed.

(* group_atomic, part 1: every journal record written (or attempted) by a leader holds the
   leader's batch followed by exactly the batches of the writers that received `true` from it,
   in that order *)
Theorem journal_composition n s r : reachable mp n s -> In r (jlog s) ->
  j_batches r = j_leader r :: j_replied r.
Proof.
  intros [l H] Hin.
  destruct (run_P2 l _ _ (inv_init n) (P2_init n) (Forall_nil _) H) as [_ HJ].
  rewrite Forall_forall in HJ. apply (HJ r Hin).
Qed.

(* the writer the leader is about to answer `true` is the one whose batch it has just appended *)
Theorem reply_goes_to_requester n s l wl c x i s' : reachable mp n s ->
  nth_error (ws s) l = Some wl -> pc wl = WLReply c x -> step mp s (AReplyTrue l i) = Some s' -> i = x.
Proof.
  intros R Hl Hp Hs. pose proof (reachable_inv mp n s R) as Hv. destruct R as [acts H].
  destruct (run_P2 acts _ _ (inv_init n) (P2_init n) (Forall_nil _) H) as [HP _].
  pose proof (HP l wl Hl) as Hlo. rewrite Hp in Hlo. destruct Hlo as [_ (wx & Hx & Hpx)].
  unfold step, getw in Hs. rewrite Hl, Hp in Hs. destruct (nth_error (ws s) i) eqn:Ei; try discriminate.
  destruct (pc w) eqn:Ep; try discriminate.
  assert (Hh : holds wl = 1) by (unfold holds; rewrite Hp; reflexivity).
  assert (Hr : replydue wl = 1).
  { unfold replydue. rewrite Hp. simpl. pose proof (Forall_nth _ _ _ _ (inv_wf s Hv) Hl) as Hw.
    unfold wf_writer in Hw. rewrite Hp in Hw. destruct Hw as [Ho _]. unfold ctx_over. rewrite Ho. reflexivity. }
  eapply (two_waiting_same s l wl i x); eauto.
Qed.

End Composition2.

(* ------------------------------------------------------------------ results: at most one per call, exactly one at the end *)

Definition cnt (i : nat) (r : list (nat * res)) : nat := count_occ Nat.eq_dec (map fst r) i.
Definition doneb (p : wpc) : nat := match p with WDone _ => 1 | _ => 0 end.

(* the return log holds exactly the calls that are in WDone, once, with their result *)
Definition R1 (s : state) : Prop :=
  forall i w, nth_error (ws s) i = Some w ->
    cnt i (rlog s) = doneb (pc w) /\ (forall e, In (i, e) (rlog s) -> pc w = WDone e).

Lemma cnt_app i r1 r2 : cnt i (r1 ++ r2) = cnt i r1 + cnt i r2.
Proof. unfold cnt. rewrite map_app, count_occ_app. reflexivity. Qed.

Section Results.
Variable mp : mparams.

Lemma R1_upd1 s i w w' r : R1 s -> nth_error (ws s) i = Some w ->
  doneb (pc w) = 0 -> doneb (pc w') = 0 ->
  (forall j v, nth_error (upd (ws s) i w') j = Some v ->
      cnt j r = cnt j (rlog s) /\ (forall e, In (j, e) r -> In (j, e) (rlog s))) ->
  forall j v, nth_error (upd (ws s) i w') j = Some v -> cnt j r = doneb (pc v) /\ (forall e, In (j, e) r -> pc v = WDone e).
Proof.
  intros HR Hi H0 H0' Hsame j v Hj. destruct (Hsame j v Hj) as [Hc Hin]. rewrite Hc.
  apply nth_upd_inv in Hj. destruct Hj as [[-> ->]|[Hne Hj]].
  - destruct (HR i w Hi) as [Hc' Hin']. split; [congruence|].
    intros e He. apply Hin in He. apply Hin' in He. rewrite He in H0. discriminate.
  - destruct (HR j v Hj) as [Hc' Hin']. split; auto.
Qed.

Lemma step_R1 s a s' : R1 s -> step mp s a = Some s' -> R1 s'.
Proof.
  intros HR H.
  destruct a; unfold step, getw in H; dm; inversion H; subst; clear H; unfold R1;
    cbn [ws rlog setw with_ws with_lock with_env with_logs]; try exact HR.
  (* single updates that keep the log *)
  all: try (eapply R1_upd1; eauto; try (rewrite ?E0, ?E1, ?E2; reflexivity);
            try (cbn [pc set_pc]; repeat match goal with |- context [if ?b then _ else _] => destruct b end; reflexivity);
            intros; split; auto).
  - (* ASelMerge *)
    intros j v Hj. apply nth_upd_inv in Hj. destruct Hj as [[-> ->]|[Hne Hj]].
    + destruct (HR l w0 E0) as [Hc Hin]. rewrite E2 in *. cbn [pc set_pc]. unfold merge_decide.
      destruct (llim c <? wsize w)%N; split; auto; intros e He; apply Hin in He; discriminate.
    + apply nth_upd_inv in Hj. destruct Hj as [[-> ->]|[Hne2 Hj]]; [|apply HR; auto].
      destruct (HR i w E) as [Hc Hin]. rewrite E1 in *. split; auto. intros e He; apply Hin in He; discriminate.
  - (* AReplyTrue *)
    intros j v Hj. apply nth_upd_inv in Hj. destruct Hj as [[-> ->]|[Hne Hj]].
    + destruct (HR l w E) as [Hc Hin]. rewrite E1 in *. split; auto. intros e He; apply Hin in He; discriminate.
    + apply nth_upd_inv in Hj. destruct Hj as [[-> ->]|[Hne2 Hj]]; [|apply HR; auto].
      destruct (HR i w0 E0) as [Hc Hin]. rewrite E2 in *. split; auto. intros e He; apply Hin in He; discriminate.
  - (* AAck *)
    intros j v Hj. apply nth_upd_inv in Hj. destruct Hj as [[-> ->]|[Hne Hj]].
    + destruct (HR l w E) as [Hc Hin]. rewrite E1 in *. split; auto. intros e' He; apply Hin in He; discriminate.
    + apply nth_upd_inv in Hj. destruct Hj as [[-> ->]|[Hne2 Hj]]; [|apply HR; auto].
      destruct (HR i w0 E0) as [Hc Hin]. rewrite E2 in *. split; auto. intros e' He; apply Hin in He; discriminate.
  - (* AHandover *)
    intros j v Hj. apply nth_upd_inv in Hj. destruct Hj as [[-> ->]|[Hne Hj]].
    + destruct (HR l w E) as [Hc Hin]. rewrite E1 in *. split; auto. intros e' He; apply Hin in He; discriminate.
    + apply nth_upd_inv in Hj. destruct Hj as [[-> ->]|[Hne2 Hj]]; [|apply HR; auto].
      destruct (HR o w0 E0) as [Hc Hin]. rewrite E2 in *. split; auto. intros e' He; apply Hin in He; discriminate.
  - (* AReturn i *)
    intros j v Hj. rewrite cnt_app. unfold cnt at 2. cbn [map fst count_occ].
    apply nth_upd_inv in Hj. destruct Hj as [[-> ->]|[Hne Hj]].
    + destruct (HR i w E) as [Hc Hin]. rewrite E0 in *. cbn [doneb] in Hc. rewrite Hc.
      destruct (Nat.eq_dec i i); [|congruence]. split; auto.
      intros e' He. apply in_app_or in He. destruct He as [He|[He|[]]].
      * apply Hin in He. discriminate.
      * inversion He; subst. reflexivity.
    + destruct (HR j v Hj) as [Hc Hin]. destruct (Nat.eq_dec i j); [congruence|]. split; [lia|].
      intros e' He. apply in_app_or in He. destruct He as [He|[He|[]]]; auto. inversion He; congruence.
Qed.

Lemma R1_init n : R1 (init n).
Proof.
  intros i w H. simpl in H. apply nth_error_In in H. apply repeat_spec in H. subst. split; auto. intros e [].
Qed.

Lemma run_R1 l : forall s s', R1 s -> run mp s l = Some s' -> R1 s'.
Proof.
  induction l; simpl; intros s s' HR H.
  - inversion H; subst; auto.
  - destruct (step mp s a) eqn:E; try discriminate. eapply IHl; [|eauto]. eapply step_R1; eauto.
Qed.

(* exactly_one_result, part 1: no call is answered twice; a call is answered iff it is in WDone, and
   its logged result is the one it returned; so when the run is over every started call has exactly one *)
Theorem one_result n s i w : reachable mp n s -> nth_error (ws s) i = Some w ->
  cnt i (rlog s) <= 1 /\
  (cnt i (rlog s) = 1 <-> exists e, pc w = WDone e) /\
  (forall e, In (i, e) (rlog s) -> pc w = WDone e).
Proof.
  intros [l H] Hi. pose proof (run_R1 l _ _ (R1_init n) H) as HR. destruct (HR i w Hi) as [Hc Hin].
  rewrite Hc. split; [destruct (pc w); simpl; lia|]. split; auto.
  split; [destruct (pc w); simpl; intros; try discriminate; eauto | intros [e ->]; reflexivity].
Qed.

End Results.

(* ------------------------------------------------------------------ a merged writer's result is its group's *)

Lemma NoDup_app_single {A} (l : list A) x : NoDup l -> ~ In x l -> NoDup (l ++ [x]).
Proof.
  induction l; simpl; intros Hn Hx.
  - constructor; auto.
  - inversion Hn; subst. constructor.
    + intros Hin. apply in_app_or in Hin. destruct Hin as [Hin|[<-|[]]]; auto.
    + apply IHl; auto.
Qed.

(* the result of the group led by l is e: l is in unlockWrite(.., e), or its finished group says e *)
Definition group_res (L : list writer) (G : list grec) (l : nat) (e : res) : Prop :=
  (exists wl c k, nth_error L l = Some wl /\ pc wl = WLUnlock c k e) \/
  (exists g, In g G /\ g_leader g = l /\ g_res g = e).

Definition member_ok (L : list writer) (G : list grec) (w : writer) : Prop :=
  match wgroup w with
  | None => pc w <> WWaitAck
  | Some l =>
      match pc w with
      | WWaitAck => exists wl, nth_error L l = Some wl /\ holds wl = 1
      | WRet e | WDone e => group_res L G l e
      | _ => False
      end
  end.

Record rinv (L : list writer) (G : list grec) : Prop := {
  r_members : forall i w, nth_error L i = Some w -> member_ok L G w;
  r_leaders : forall g, In g G -> exists wl, nth_error L (g_leader g) = Some wl /\
                                   (pc wl = WRet (g_res g) \/ pc wl = WDone (g_res g));
  r_nodup : NoDup (map g_leader G)
}.

Lemma rinv_single L G i w w' : rinv L G -> nth_error L i = Some w ->
  (holdsp (pc w) = 1 -> holdsp (pc w') = 1) ->
  (forall c k e, pc w = WLUnlock c k e -> exists c' k', pc w' = WLUnlock c' k' e) ->
  (forall e, pc w = WRet e \/ pc w = WDone e -> pc w' = WRet e \/ pc w' = WDone e) ->
  member_ok (upd L i w') G w' ->
  rinv (upd L i w') G.
Proof.
  intros [HM HL HN] Hi Hh Hu Hr Hnew. constructor; auto.
  - intros j v Hj. apply nth_upd_inv in Hj. destruct Hj as [[-> ->]|[Hne Hj]]; auto.
    pose proof (HM j v Hj) as Hv. unfold member_ok in *. destruct (wgroup v) as [l|]; auto.
    assert (Hg : forall e, group_res L G l e -> group_res (upd L i w') G l e).
    { intros e [(wl & c & k & Hl & Hp)|Hg]; [|right; auto]. left.
      destruct (Nat.eq_dec l i) as [->|Hn].
      - rewrite Hi in Hl. inversion Hl; subst. destruct (Hu _ _ _ Hp) as (c' & k' & Hp').
        exists w', c', k'. split; auto. eapply nth_upd_same; eauto.
      - exists wl, c, k. rewrite nth_upd_other; auto. }
    destruct (pc v); auto.
    destruct Hv as (wl & Hl & H1). destruct (Nat.eq_dec l i) as [->|Hn].
    + rewrite Hi in Hl. inversion Hl; subst. exists w'. split; [eapply nth_upd_same; eauto|].
      unfold holds in *. auto.
    + exists wl. rewrite nth_upd_other; auto.
  - intros g Hg. destruct (HL g Hg) as (wl & Hl & Hp). destruct (Nat.eq_dec (g_leader g) i) as [Heq|Hn].
    + rewrite Heq in *. rewrite Hi in Hl. inversion Hl; subst. exists w'. split; [eapply nth_upd_same; eauto|auto].
    + exists wl. rewrite nth_upd_other; auto.
Qed.

(* the leader leaves unlockWrite: its group is finished *)
Lemma rinv_finish L G l wl c k e g : rinv L G -> nth_error L l = Some wl -> pc wl = WLUnlock c k e ->
  g_leader g = l -> g_res g = e ->
  (forall j v, nth_error L j = Some v -> pc v <> WWaitAck) ->
  rinv (upd L l (set_pc wl (WRet e))) (G ++ [g]).
Proof.
  intros [HM HL HN] Hl Hp Hgl Hge Hnw.
  assert (Hnot : ~ In l (map g_leader G)).
  { intros Hin. apply in_map_iff in Hin. destruct Hin as (g' & Hg' & Hin). destruct (HL g' Hin) as (w' & Hw' & Hpw).
    rewrite Hg' in Hw'. rewrite Hl in Hw'. inversion Hw'; subst. rewrite Hp in Hpw. destruct Hpw; discriminate. }
  constructor.
  - intros j v Hj. apply nth_upd_inv in Hj. destruct Hj as [[-> ->]|[Hne Hj]].
    + pose proof (HM l wl Hl) as Hv. unfold member_ok in *. cbn [wgroup set_pc pc]. rewrite Hp in Hv.
      destruct (wgroup wl); [contradiction|discriminate].
    + pose proof (HM j v Hj) as Hv. pose proof (Hnw j v Hj) as Hna. unfold member_ok in *.
      destruct (wgroup v) as [l'|]; auto.
      assert (Hg : forall e', group_res L G l' e' -> group_res (upd L l (set_pc wl (WRet e))) (G ++ [g]) l' e').
      { intros e' [(wl' & c' & k' & Hl' & Hp')|(g' & Hin & Hgl' & Hge')].
        - destruct (Nat.eq_dec l' l) as [->|Hn].
          + rewrite Hl in Hl'. inversion Hl'; subst. rewrite Hp in Hp'. inversion Hp'; subst.
            right. exists g. split; [apply in_or_app; right; left; reflexivity|auto].
          + left. exists wl', c', k'. rewrite nth_upd_other; auto.
        - right. exists g'. split; [apply in_or_app; auto|auto]. }
      destruct (pc v); auto. congruence.
  - intros g' Hin. apply in_app_or in Hin. destruct Hin as [Hin|[<-|[]]].
    + destruct (HL g' Hin) as (w' & Hw' & Hpw). assert (g_leader g' <> l).
      { intros Heq. apply Hnot. apply in_map_iff. exists g'. auto. }
      exists w'. rewrite nth_upd_other; auto.
    + rewrite Hgl, Hge. exists (set_pc wl (WRet e)). split; [eapply nth_upd_same; eauto|left; reflexivity].
  - rewrite map_app. cbn [map]. rewrite Hgl. apply NoDup_app_single; auto.
Qed.

Lemma group_res_upd L G l e i w w' : group_res L G l e -> nth_error L i = Some w ->
  (forall c k e', pc w <> WLUnlock c k e') -> group_res (upd L i w') G l e.
Proof.
  intros [(wl & c & k & Hl & Hp)|Hg] Hi Hn; [|right; auto]. left.
  assert (l <> i) by (intros ->; rewrite Hi in Hl; inversion Hl; subst; eapply Hn; eauto).
  exists wl, c, k. rewrite nth_upd_other; auto.
Qed.

Lemma no_waitack s : sumf waitack (ws s) = 0 -> forall j v, nth_error (ws s) j = Some v -> pc v <> WWaitAck.
Proof.
  intros H0 j v Hj Hp. pose proof (sumf_ge waitack _ _ _ Hj) as Hge. unfold waitack in Hge at 1.
  rewrite Hp in Hge. simpl in Hge. lia.
Qed.

Section MemberResults.
Variable mp : mparams.

Ltac old_member HM E :=
  let Hm := fresh "Hm" in
  pose proof (HM _ _ E) as Hm; unfold member_ok in Hm |- *; cbn [wgroup set_pc pc] in *.

Lemma step_rinv s a s' : inv s -> rinv (ws s) (glog s) -> step mp s a = Some s' -> rinv (ws s') (glog s').
Proof.
  intros Hv HR H. pose proof (r_members _ _ HR) as HM.
  destruct a; unfold step, getw in H; dm; inversion H; subst; clear H;
    cbn [ws glog setw with_ws with_lock with_env with_logs]; try exact HR.
  (* single updates with an unchanged group log, starting outside WLUnlock / WRet *)
  all: try (match goal with
            | E : nth_error (ws ?s0) ?i = Some ?w |- rinv (upd (ws ?s0) ?i ?w') _ =>
              apply (rinv_single _ _ i w w' HR E);
              [ rewrite ?E0, ?E1; cbn [pc set_pc holdsp];
                repeat match goal with |- context [if ?b then _ else _] => destruct b end; cbn [holdsp]; auto; discriminate
              | intros ? ? ? Hx; rewrite ?E0, ?E1 in Hx; discriminate
              | intros ? [Hx|Hx]; rewrite ?E0, ?E1 in Hx; discriminate
              | old_member HM E; rewrite ?E0, ?E1 in *;
                repeat match goal with |- context [if ?b then _ else _] => destruct b end;
                try discriminate;
                destruct (wgroup w); try contradiction; try discriminate ]
            end).
  - (* ASelMerge i l *)
    assert (Hn : i <> l) by (apply (pcs_differ (ws s) i l w w0 E E0); congruence).
    assert (HR1 : rinv (upd (ws s) i (set_pc w WWaitMerged)) (glog s)).
    { apply (rinv_single _ _ i w _ HR E).
      - rewrite E1; discriminate.
      - intros ? ? ? Hx; rewrite E1 in Hx; discriminate.
      - intros ? [Hx|Hx]; rewrite E1 in Hx; discriminate.
      - old_member HM E. rewrite E1 in *. destruct (wgroup w); [contradiction|discriminate]. }
    eapply (rinv_single _ _ l w0 _ HR1).
    + rewrite nth_upd_other; eauto.
    + intros _. unfold merge_decide. destruct (llim c <? wsize w)%N; reflexivity.
    + intros ? ? ? Hx; rewrite E2 in Hx; discriminate.
    + intros ? [Hx|Hx]; rewrite E2 in Hx; discriminate.
    + old_member HM E0. rewrite E2 in *. unfold merge_decide.
      destruct (wgroup w0); [contradiction|]. destruct (llim c <? wsize w)%N; discriminate.
  - (* AReplyTrue l i *)
    assert (Hn : i <> l) by (apply (pcs_differ (ws s) i l w0 w E0 E); congruence).
    assert (Hh : holds w = 1) by (unfold holds; rewrite E1; reflexivity).
    match goal with |- rinv (upd (upd _ _ ?wi) _ _) _ => set (wi' := wi) end.
    assert (HR1 : rinv (upd (ws s) i wi') (glog s)).
    { apply (rinv_single _ _ i w0 _ HR E0).
      - rewrite E2; discriminate.
      - intros ? ? ? Hx; rewrite E2 in Hx; discriminate.
      - intros ? [Hx|Hx]; rewrite E2 in Hx; discriminate.
      - unfold member_ok, wi'. cbn [wgroup pc]. exists w. rewrite nth_upd_other; auto. }
    eapply (rinv_single _ _ l w _ HR1).
    + rewrite nth_upd_other; eauto.
    + intros _; reflexivity.
    + intros ? ? ? Hx; rewrite E1 in Hx; discriminate.
    + intros ? [Hx|Hx]; rewrite E1 in Hx; discriminate.
    + old_member HM E. rewrite E1 in *. destruct (wgroup w); [contradiction|discriminate].
  - (* AAck l i *)
    assert (Hn : i <> l) by (apply (pcs_differ (ws s) i l w0 w E0 E); congruence).
    assert (Hh : holds w = 1) by (unfold holds; rewrite E1; reflexivity).
    assert (HR1 : rinv (upd (ws s) i (set_pc w0 (WRet e))) (glog s)).
    { apply (rinv_single _ _ i w0 _ HR E0).
      - rewrite E2; discriminate.
      - intros ? ? ? Hx; rewrite E2 in Hx; discriminate.
      - intros ? [Hx|Hx]; rewrite E2 in Hx; discriminate.
      - old_member HM E0. rewrite E2 in *. destruct (wgroup w0) as [l'|]; [|congruence].
        destruct Hm as (wl' & Hl' & H1').
        assert (l' = l).
        { destruct (Nat.eq_dec l' l); auto. exfalso.
          destruct (only_leader s l w Hv E Hh) as [Ho _]. rewrite (Ho l' wl') in H1'; auto. discriminate. }
        subst l'. left. exists w, c, i0. rewrite nth_upd_other; auto. }
    eapply (rinv_single _ _ l w _ HR1).
    + rewrite nth_upd_other; eauto.
    + intros _; reflexivity.
    + intros ? ? ? Hx; rewrite E1 in Hx; inversion Hx; subst. eexists; eexists; reflexivity.
    + intros ? [Hx|Hx]; rewrite E1 in Hx; discriminate.
    + old_member HM E. rewrite E1 in *. destruct (wgroup w); [contradiction|discriminate].
  - (* AHandover l o *)
    assert (Hn : o <> l) by (apply (pcs_differ (ws s) o l w0 w E0 E); congruence).
    assert (Hh : holds w = 1) by (unfold holds; rewrite E1; reflexivity).
    destruct (leader_sums s l w Hv E Hh) as [_ Ha]. unfold ackdue in Ha. rewrite E1 in Ha. cbn [ackduep] in Ha.
    apply Nat.ltb_ge in E3.
    assert (HR1 : rinv (upd (ws s) o (set_pc w0 WLFlush)) (glog s)).
    { apply (rinv_single _ _ o w0 _ HR E0).
      - intros _; reflexivity.
      - intros ? ? ? Hx; rewrite E2 in Hx; discriminate.
      - intros ? [Hx|Hx]; rewrite E2 in Hx; discriminate.
      - old_member HM E0. rewrite E2 in *. destruct (wgroup w0); [contradiction|discriminate]. }
    eapply rinv_finish; eauto.
    + rewrite nth_upd_other; eauto.
    + intros j v Hj. apply nth_upd_inv in Hj. destruct Hj as [[-> ->]|[Hne Hj]]; [discriminate|].
      eapply no_waitack; eauto. lia.
  - (* ARelease l *)
    assert (Hh : holds w = 1) by (unfold holds; rewrite E0; reflexivity).
    destruct (leader_sums s l w Hv E Hh) as [_ Ha]. unfold ackdue in Ha. rewrite E0 in Ha. cbn [ackduep] in Ha.
    apply Nat.ltb_ge in E1.
    eapply rinv_finish; eauto. eapply no_waitack; eauto. lia.
  - (* AReturn i *)
    apply (rinv_single _ _ i w _ HR E).
    + rewrite E0; discriminate.
    + intros ? ? ? Hx; rewrite E0 in Hx; discriminate.
    + intros e' [Hx|Hx]; rewrite E0 in Hx; inversion Hx; subst. right; reflexivity.
    + old_member HM E. rewrite E0 in *. destruct (wgroup w); [|discriminate].
      eapply group_res_upd; eauto. intros ? ? ? Hx; rewrite E0 in Hx; discriminate.
Qed.

Lemma rinv_init n : rinv (ws (init n)) (glog (init n)).
Proof.
  constructor; simpl.
  - intros i w H. apply nth_error_In in H. apply repeat_spec in H. subst. unfold member_ok; simpl. discriminate.
  - intros g [].
  - constructor.
Qed.

Lemma run_rinv l : forall s s', inv s -> rinv (ws s) (glog s) -> run mp s l = Some s' -> rinv (ws s') (glog s').
Proof.
  induction l; simpl; intros s s' Hi HR H.
  - inversion H; subst; auto.
  - destruct (step mp s a) eqn:E; try discriminate. eapply IHl; [| |eauto].
    + eapply step_inv; eauto.
    + eapply step_rinv; eauto.
Qed.

Lemma reachable_rinv n s : reachable mp n s -> rinv (ws s) (glog s).
Proof. intros [l H]. eapply run_rinv; [apply inv_init|apply rinv_init|eauto]. Qed.

(* exactly_one_result, part 2: a writer that was told `true` by leader l and has got its result got
   the result of l's group *)
Theorem merged_result_is_groups n s i w l e : reachable mp n s ->
  nth_error (ws s) i = Some w -> wgroup w = Some l -> (pc w = WRet e \/ pc w = WDone e) ->
  group_res (ws s) (glog s) l e.
Proof.
  intros R Hi Hg Hp. pose proof (r_members _ _ (reachable_rinv n s R) i w Hi) as Hm.
  unfold member_ok in Hm. rewrite Hg in Hm. destruct Hp as [Hp|Hp]; rewrite Hp in Hm; exact Hm.
Qed.

(* the leader of a finished group returns that group's result *)
Theorem leader_result_is_groups n s g : reachable mp n s -> In g (glog s) ->
  exists wl, nth_error (ws s) (g_leader g) = Some wl /\ (pc wl = WRet (g_res g) \/ pc wl = WDone (g_res g)).
Proof. intros R Hin. apply (r_leaders _ _ (reachable_rinv n s R) g Hin). Qed.

(* and "the group's result" is well defined: one finished group per leader, and none while it is
   still in unlockWrite *)
Theorem group_res_unique n s l e e' : reachable mp n s ->
  group_res (ws s) (glog s) l e -> group_res (ws s) (glog s) l e' -> e = e'.
Proof.
  intros R H1 H2. pose proof (reachable_rinv n s R) as [HM HL HN].
  assert (Hex : forall wl c k e0 g, nth_error (ws s) l = Some wl -> pc wl = WLUnlock c k e0 ->
                  In g (glog s) -> g_leader g = l -> False).
  { intros wl c k e0 g Hl Hp Hin Hgl. destruct (HL g Hin) as (w' & Hw' & Hpw). rewrite Hgl, Hl in Hw'.
    inversion Hw'; subst. rewrite Hp in Hpw. destruct Hpw; discriminate. }
  destruct H1 as [(wl & c & k & Hl & Hp)|(g & Hin & Hgl & Hge)];
  destruct H2 as [(wl' & c' & k' & Hl' & Hp')|(g' & Hin' & Hgl' & Hge')].
  - rewrite Hl in Hl'. inversion Hl'; subst. rewrite Hp in Hp'. inversion Hp'; auto.
  - exfalso. eapply Hex; eauto.
  - exfalso. eapply Hex; eauto.
  - assert (g = g'); [|subst; congruence].
    clear -HN Hin Hin' Hgl Hgl'. induction (glog s); simpl in *; [contradiction|].
    inversion HN; subst. destruct Hin as [->|Hin]; destruct Hin' as [->|Hin']; auto.
    all: exfalso; match goal with Hx : ~ In _ _ |- _ => apply Hx end; apply in_map_iff;
      eexists; split; [|eassumption]; congruence.
Qed.

End MemberResults.

(* ------------------------------------------------------------------ one publication per journalled group *)

Definition pendp (p : wpc) : bool := match p with WLApply _ | WLPublish _ => true | _ => false end.

(* leaders that have journalled their group and not yet published the sequence number *)
Fixpoint pend_from (k : nat) (L : list writer) : list nat :=
  match L with
  | [] => []
  | w :: t => (if pendp (pc w) then [k] else []) ++ pend_from (S k) t
  end.

Definition ok_leaders (j : list jrecd) : list nat := map j_leader (filter j_ok j).

Lemma pend_upd_same L : forall k i w w', nth_error L i = Some w -> pendp (pc w) = pendp (pc w') ->
  pend_from k (upd L i w') = pend_from k L.
Proof.
  induction L; intros k i w w' Hi Hp; destruct i; simpl in *; try discriminate.
  - inversion Hi; subst. rewrite Hp. reflexivity.
  - rewrite (IHL _ _ _ _ Hi Hp). reflexivity.
Qed.

Lemma pend_none L : forall k, (forall j v, nth_error L j = Some v -> pendp (pc v) = false) -> pend_from k L = [].
Proof.
  induction L; intros k H; simpl; auto. rewrite (H 0 a eq_refl). simpl. apply IHL.
  intros j v Hj. apply (H (S j) v Hj).
Qed.

Lemma pend_single L : forall k l w, nth_error L l = Some w -> pendp (pc w) = true ->
  (forall j v, j <> l -> nth_error L j = Some v -> pendp (pc v) = false) -> pend_from k L = [k + l].
Proof.
  induction L; intros k l w Hl Hp Ho; destruct l; simpl in *; try discriminate.
  - inversion Hl; subst. rewrite Hp. rewrite pend_none; [rewrite Nat.add_0_r; reflexivity|].
    intros j v Hj. apply (Ho (S j) v); [discriminate|exact Hj].
  - rewrite (Ho 0 a); [|discriminate|reflexivity]. simpl.
    rewrite (IHL (S k) l w Hl Hp); [f_equal; lia|]. intros j v Hn Hj. apply (Ho (S j) v); [congruence|exact Hj].
Qed.

Lemma pendp_holds p : pendp p = true -> holdsp p = 1.
Proof. destruct p; simpl; auto; discriminate. Qed.

Lemma nonholder_not_pend p : holdsp p = 0 -> pendp p = false.
Proof. destruct p; simpl; auto; discriminate. Qed.

Section Publish.
Variable mp : mparams.

Definition pub_inv (s : state) : Prop := ok_leaders (jlog s) = plog s ++ pend_from 0 (ws s).

Lemma ok_leaders_app j r : ok_leaders (j ++ [r]) = ok_leaders j ++ (if j_ok r then [j_leader r] else []).
Proof. unfold ok_leaders. rewrite filter_app, map_app. simpl. destruct (j_ok r); reflexivity. Qed.

Lemma step_pub s a s' : inv s -> pub_inv s -> step mp s a = Some s' -> pub_inv s'.
Proof.
  intros Hv HP H. unfold pub_inv in *.
  destruct a; unfold step, getw in H; dm; inversion H; subst; clear H;
    cbn [ws jlog plog setw with_ws with_lock with_env with_logs]; try exact HP.
  (* updates that do not change who is between journal and publish *)
  all: try (rewrite (pend_upd_same _ _ _ _ _ E) by
              (rewrite ?E0, ?E1; cbn [pc set_pc pendp];
               repeat match goal with |- context [if ?b then _ else _] => destruct b end; reflexivity);
            exact HP).
  (* AJournalFail *)
  all: try (rewrite ok_leaders_app; cbn [j_ok]; rewrite app_nil_r;
            rewrite (pend_upd_same _ _ _ _ _ E); [exact HP | rewrite E0; reflexivity]).
  - (* ASelMerge *)
    assert (Hn : i <> l) by (apply (pcs_differ (ws s) i l w w0 E E0); congruence).
    rewrite (pend_upd_same _ _ l w0); [| rewrite nth_upd_other; eauto |].
    + rewrite (pend_upd_same _ _ _ _ _ E); [exact HP | rewrite E1; reflexivity].
    + rewrite E2. cbn [pc set_pc]. unfold merge_decide. destruct (llim c <? wsize w)%N; reflexivity.
  - (* AReplyTrue *)
    assert (Hn : i <> l) by (apply (pcs_differ (ws s) i l w0 w E0 E); congruence).
    rewrite (pend_upd_same _ _ l w); [| rewrite nth_upd_other; eauto | rewrite E1; reflexivity].
    rewrite (pend_upd_same _ _ _ _ _ E0); [exact HP | rewrite E2; reflexivity].
  - (* AJournalOk l *)
    assert (Hh : holds w = 1) by (unfold holds; rewrite E0; reflexivity).
    destruct (only_leader s l w Hv E Hh) as [Ho _].
    rewrite ok_leaders_app. cbn [j_ok j_leader]. rewrite HP.
    rewrite (pend_none (ws s)).
    2:{ intros j v Hj. destruct (Nat.eq_dec j l) as [->|Hne].
        - rewrite E in Hj. inversion Hj; subst. rewrite E0. reflexivity.
        - apply nonholder_not_pend. apply (Ho j v Hne Hj). }
    rewrite (pend_single _ 0 l (set_pc w (WLApply c))); [rewrite app_nil_r; reflexivity | eapply nth_upd_same; eauto | reflexivity |].
    intros j v Hne Hj. rewrite nth_upd_other in Hj by auto. apply nonholder_not_pend. apply (Ho j v Hne Hj).
  - (* APublish l *)
    assert (Hh : holds w = 1) by (unfold holds; rewrite E0; reflexivity).
    destruct (only_leader s l w Hv E Hh) as [Ho _].
    rewrite HP. rewrite (pend_single (ws s) 0 l w E); [| rewrite E0; reflexivity |].
    2:{ intros j v Hne Hj. apply nonholder_not_pend. apply (Ho j v Hne Hj). }
    rewrite (pend_none (upd (ws s) l _)); [rewrite app_nil_r; reflexivity|].
    intros j v Hj. apply nth_upd_inv in Hj. destruct Hj as [[-> ->]|[Hne Hj]]; [reflexivity|].
    apply nonholder_not_pend. apply (Ho j v Hne Hj).
  - (* AAck *)
    assert (Hn : i <> l) by (apply (pcs_differ (ws s) i l w0 w E0 E); congruence).
    rewrite (pend_upd_same _ _ l w); [| rewrite nth_upd_other; eauto | rewrite E1; reflexivity].
    rewrite (pend_upd_same _ _ _ _ _ E0); [exact HP | rewrite E2; reflexivity].
  - (* AHandover *)
    assert (Hn : o <> l) by (apply (pcs_differ (ws s) o l w0 w E0 E); congruence).
    rewrite (pend_upd_same _ _ l w); [| rewrite nth_upd_other; eauto | rewrite E1; reflexivity].
    rewrite (pend_upd_same _ _ _ _ _ E0); [exact HP | rewrite E2; reflexivity].
Qed.

Lemma run_pub l : forall s s', inv s -> pub_inv s -> run mp s l = Some s' -> pub_inv s'.
Proof.
  induction l; simpl; intros s s' Hi HP H.
  - inversion H; subst; auto.
  - destruct (step mp s a) eqn:E; try discriminate. eapply IHl; [| |eauto].
    + eapply step_inv; eauto.
    + eapply step_pub; eauto.
Qed.

(* group_atomic, part 2: the sequence number is published once per successfully journalled group, in
   journal order; at most one group is journalled and not yet published, and it is the last one *)
Theorem publish_once n s : reachable mp n s ->
  ok_leaders (jlog s) = plog s ++ pend_from 0 (ws s) /\ length (pend_from 0 (ws s)) <= 1.
Proof.
  intros R. pose proof (reachable_inv mp n s R) as Hv. destruct R as [l H]. split.
  - eapply run_pub; [apply inv_init| |eauto]. unfold pub_inv. simpl. rewrite pend_none; auto.
    intros j v Hj. apply nth_error_In in Hj. apply repeat_spec in Hj. subst. reflexivity.
  - destruct (Nat.eq_dec (sumf holds (ws s)) 0) as [H0|H0].
    + rewrite pend_none; simpl; auto. intros j v Hj. apply nonholder_not_pend.
      pose proof (sumf_ge holds _ _ _ Hj). unfold holds in *. lia.
    + assert (Hpos : 0 < sumf holds (ws s)) by lia. destruct (sumf_pos holds _ Hpos) as (l0 & wl & Hl & H1).
      assert (Hh : holds wl = 1) by (unfold holds in *; destruct (holdsp_cases (pc wl)); lia).
      destruct (only_leader s l0 wl Hv Hl Hh) as [Ho _].
      destruct (pendp (pc wl)) eqn:Ep.
      * rewrite (pend_single _ 0 l0 wl Hl Ep); simpl; auto.
        intros j v Hne Hj. apply nonholder_not_pend. apply (Ho j v Hne Hj).
      * rewrite pend_none; simpl; auto. intros j v Hj. destruct (Nat.eq_dec j l0) as [->|Hne].
        -- rewrite Hl in Hj. inversion Hj; subst. exact Ep.
        -- apply nonholder_not_pend. apply (Ho j v Hne Hj).
Qed.

End Publish.

(* ------------------------------------------------------------------ progress measure *)

Definition rankp (p : wpc) : nat :=
  match p with
  | WIdle => 30 | WSelect => 28 | WWaitMerged => 20 | WLFlush => 19 | WLMerge _ => 18 | WLReply _ _ => 17
  | WLJournal _ => 16 | WLApply _ => 15 | WLPublish _ => 14 | WLRotate _ => 13 | WLUnlock _ _ _ => 12
  | WWaitAck => 3 | WRet _ => 1 | WDone _ => 0
  end.
Definition rank (w : writer) : nat := rankp (pc w).
Definition mu (s : state) : nat := sumf rank (ws s).

Definition writer_action (a : action) : bool :=
  match a with
  | ACloseCall | ACloseSignal | ACloseLock | ATxnAcquire | ATxnFlushOk | ATxnFlushFail | ATxnDone
  | ACRAcquire | ACRRelease | AROAcquire | AROSend | AROAbort | AHPerr | AHLock | AHExit => false
  | _ => true
  end.

Section Measure.
Variable mp : mparams.

(* every move of a writer strictly decreases mu; the other processes leave it unchanged: a run
   contains at most 30 * (number of writers) writer moves *)
Theorem progress_measure s a s' : step mp s a = Some s' ->
  (writer_action a = true -> mu s' < mu s) /\ (writer_action a = false -> mu s' = mu s).
Proof.
  intros H. unfold mu.
  destruct a; unfold step, getw in H; dm; inversion H; subst; clear H;
    cbn [ws setw with_ws with_lock with_env with_logs writer_action];
    (split; intros Hwa; try discriminate; try reflexivity).
  all: unfold merge_decide in *;
       repeat match goal with |- context [if ?b then _ else _] => destruct b end.
  all: upd_facts; unfold rank in *;
       repeat match goal with E : pc ?w = _ |- _ => rewrite E in * end;
       cbn [pc set_pc rankp] in *; lia.
Qed.

Lemma mu_init n : mu (init n) = 30 * n.
Proof.
  unfold mu. cbn [ws init]. induction n; [reflexivity|].
  cbn [repeat sumf]. rewrite IHn. unfold rank. cbn [pc idle_writer rankp]. lia.
Qed.

End Measure.
