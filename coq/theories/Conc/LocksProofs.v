(* Conc/LocksProofs.v — proofs about the blocking skeleton Conc/Locks.v (fixed variant).
   Layer 1: lock ownership is determined by the program counters (=> locks_balanced).
   Layer 2: every wait has an exit (static check of the control-flow graphs).
   Layer 3: invariants of the rendezvous protocols and deadlock freedom. *)
From GL Require Import Conc.Locks.
From Coq Require Import Lia.

Ltac dparams :=
  repeat match goal with
  | x : bool |- _ => destruct x
  | x : bg |- _ => destruct x
  | x : ctx |- _ => destruct x
  | x : r3 |- _ => destruct x
  | x : errk |- _ => destruct x
  | x : rsite |- _ => destruct x
  | x : tsite |- _ => destruct x
  | x : tk |- _ => destruct x
  | x : xkind |- _ => destruct x
  end.

(* ------------------------------------------------------------------ edge typing, layer 1 *)

(* what a label requires of / does to the write-lock ownership of the process that performs it *)
Definition dW (l : lbl) : option (bool * bool) :=
  match l with
  | LAcqW | LAcqWRO => Some (false, true)
  | LRelW | LRelWU | LGiveW | LWToTr | LSendErrSetRO => Some (true, false)
  | LAcqWClose => Some (false, false)
  | _ => None
  end.
Definition dC (l : lbl) : option (bool * bool) :=
  match l with LLockC => Some (false, true) | LUnlockC => Some (true, false) | _ => None end.

Definition chk {A} (f : A -> bool) (d : option (bool * bool)) (pc pc' : A) : bool :=
  match d with
  | Some (a, b) => Bool.eqb (f pc) a && Bool.eqb (f pc') b
  | None => Bool.eqb (f pc) (f pc')
  end.

(* labels that occur in the clients' graphs *)
Definition client_lbl (l : lbl) : bool :=
  match l with
  | LSendErrSet _ | LSendPause | LRecvResume | LAck _ | LEnqueue | LAckQ _ | LQEmpty => false
  | _ => true
  end.

(* Close has taken the write lock *)
Definition closer_has (pc : cpc) : bool := match pc with CL5 | CL6 => true | _ => false end.

Definition cedge1_ok (pc : cpc) (e : lbl * cpc) : bool :=
  let (l, pc') := e in
  client_lbl l &&
  (match l with LIfMemNil => negb (cW pc') || Bool.eqb (cW pc) (cW pc') | _ => chk cW (dW l) pc pc' end) &&
  chk cC (dC l) pc pc' &&
  match l with LLockT => cTl pc' | LUnlockT => true | _ => implb (cTl pc) (cTl pc') end &&
  implb (closer_has pc') (closer_has pc || match l with LAcqWClose => true | _ => false end) &&
  match l with LClearMems => closer_has pc | _ => true end &&
  match l with LAckOne | LGiveW | LMergeRecv _ | LMergedTrue => cW pc | _ => true end.

(* labels that occur in the graphs of the background goroutines *)
Definition bg_lbl (l : lbl) : bool :=
  match l with
  | LTau | LIfClosed _ | LSeeClosed | LRecvPerr | LSendErrSet _ | LLockC | LUnlockC | LCommitOk | LCommitFailW
  | LSendPause | LRecvResume | LTrySendCmd BT | LAck _ | LEnqueue | LAckQ _ | LQEmpty => true
  | _ => false
  end.
Definition medge1_ok (pc : mpc) (e : lbl * mpc) : bool :=
  let (l, pc') := e in chk mC (dC l) pc pc' && bg_lbl l.
Definition tedge1_ok (pc : tpc) (e : lbl * tpc) : bool :=
  let (l, pc') := e in chk tC (dC l) pc pc' && bg_lbl l.

Lemma cedges1_ok : forall pc, forallb (cedge1_ok pc) (cedges fixed pc) = true.
Proof. intro pc; destruct pc; dparams; reflexivity. Qed.
Lemma medges1_ok : forall pc, forallb (medge1_ok pc) (medges pc) = true.
Proof. intro pc; destruct pc; dparams; reflexivity. Qed.
Lemma tedges1_ok : forall pc, forallb (tedge1_ok pc) (tedges pc) = true.
Proof. intro pc; destruct pc; dparams; reflexivity. Qed.

Lemma nth_forallb : forall {A} (f : A -> bool) l k x, forallb f l = true -> nth_error l k = Some x -> f x = true.
Proof.
  intros A f l k x H N. apply nth_error_In in N. rewrite forallb_forall in H. auto.
Qed.

(* the acknowledged waiter keeps what it held *)
Lemma after_ack_cW : forall ok pc, cW (after_ack ok pc) = cW pc.
Proof. intros ok pc; destruct pc; try reflexivity; dparams; reflexivity. Qed.
Lemma after_ack_cC : forall ok pc, cC (after_ack ok pc) = cC pc.
Proof. intros ok pc; destruct pc; try reflexivity; dparams; reflexivity. Qed.
Lemma after_ack_closer : forall ok pc, closer_has (after_ack ok pc) = true -> closer_has pc = true.
Proof. intros ok pc; destruct pc; try (intro; assumption); dparams; simpl; auto. Qed.
Lemma after_ack_cTl : forall ok pc, cTl pc = true -> cTl (after_ack ok pc) = true.
Proof. intros ok pc; destruct pc; try (intro; assumption); dparams; simpl; auto. Qed.

(* ------------------------------------------------------------------ invariant, layer 1 *)

Record inv1 (s : state) : Prop := {
  i1_W : forall i, wl_is s (PCli i) = cW (cli s i);
  i1_WM : wl_is s PM = false;
  i1_WT : wl_is s PT = false;
  i1_WCE : wl_is s PCE = locking s;
  i1_C : forall i, cl_is s (PCli i) = cC (cli s i);
  i1_CM : cl_is s PM = mC (mc s);
  i1_CT : cl_is s PT = tC (tc s);
  i1_CCE : cl_is s PCE = false;
  i1_T : forall i, tl s = Some i -> cTl (cli s i) = true;
  i1_CL : forall i, closer_has (cli s i) = true -> wl s = WClosed;
  i1_mem : memclr s = true -> wl s = WClosed
}.

Lemma inv1_init : inv1 init.
Proof. constructor; intros; try reflexivity; discriminate. Qed.

Lemma upd_same : forall {A} (f : nat -> A) i a, upd f i a i = a.
Proof. intros; unfold upd; rewrite Nat.eqb_refl; reflexivity. Qed.
Lemma upd_other : forall {A} (f : nat -> A) i j a, j <> i -> upd f i a j = f j.
Proof. intros; unfold upd; destruct (Nat.eqb j i) eqn:E; [apply Nat.eqb_eq in E; congruence | reflexivity]. Qed.

(* deliver changes nothing that layer 1 looks at, except moving a waiter along after_ack *)
Lemma deliver_fields : forall b ok w s,
  wl (deliver b ok w s) = wl s /\ cl (deliver b ok w s) = cl s /\ tl (deliver b ok w s) = tl s /\
  locking (deliver b ok w s) = locking s /\ mc (deliver b ok w s) = mc s /\ tc (deliver b ok w s) = tc s /\
  memclr (deliver b ok w s) = memclr s /\
  (forall j, cli (deliver b ok w s) j = cli s j \/ cli (deliver b ok w s) j = after_ack ok (cli s j)).
Proof.
  intros b ok [i n] s; unfold deliver.
  destruct (is_trigw b (cli s i) && Nat.eqb (ctk s i) n); simpl; repeat split; auto.
  intro j; unfold upd; destruct (Nat.eqb j i) eqn:E; auto. apply Nat.eqb_eq in E; subst; auto.
Qed.

Lemma inv1_deliver : forall b ok w s, inv1 s -> inv1 (deliver b ok w s).
Proof.
  intros b ok w s I. destruct (deliver_fields b ok w s) as (Hw & Hc & Ht & Hl & Hm & Htc & Hmem & Hcli).
  destruct I; constructor; unfold wl_is, cl_is in *; rewrite ?Hw, ?Hc, ?Ht, ?Hl, ?Hm, ?Htc, ?Hmem; auto.
  - intro i; destruct (Hcli i) as [E | E]; rewrite E, ?after_ack_cW; auto.
  - intro i; destruct (Hcli i) as [E | E]; rewrite E, ?after_ack_cC; auto.
  - intros i Hi; destruct (Hcli i) as [E | E]; rewrite E; auto using after_ack_cTl.
  - intros i Hi; destruct (Hcli i) as [E | E]; rewrite E in Hi; eauto using after_ack_closer.
Qed.


Definition wis (w : wlock) (p : who) : bool := match w with WHeld q => who_eqb q p | _ => false end.
Lemma wl_is_wis : forall s p, wl_is s p = wis (wl s) p. Proof. reflexivity. Qed.

Lemma who_eqb_refl : forall p, who_eqb p p = true.
Proof. destruct p; simpl; auto using Nat.eqb_refl. Qed.
Lemma who_eqb_eq : forall p q, who_eqb p q = true -> p = q.
Proof. destruct p, q; simpl; intros; try discriminate; auto. apply Nat.eqb_eq in H; subst; auto. Qed.

(* only the program counter of client i changes *)
Lemma inv1_set_pc : forall s i pc',
  inv1 s -> cW pc' = cW (cli s i) -> cC pc' = cC (cli s i) ->
  (cTl (cli s i) = true -> cTl pc' = true) ->
  (closer_has pc' = true -> closer_has (cli s i) = true) ->
  inv1 (set_pc s i pc').
Proof.
  intros s i pc' [IW IWM IWT IWCE IC ICM ICT ICCE IT ICL IMEM] HW HC HT HCL.
  constructor; simpl; auto.
  - intro j. unfold upd. destruct (Nat.eqb j i) eqn:E; [apply Nat.eqb_eq in E; subst; rewrite HW|]; apply IW.
  - intro j. unfold upd. destruct (Nat.eqb j i) eqn:E; [apply Nat.eqb_eq in E; subst; rewrite HC|]; apply IC.
  - intros j Hj. unfold upd. destruct (Nat.eqb j i) eqn:E; [apply Nat.eqb_eq in E; subst; auto|]; auto.
  - intros j. unfold upd. destruct (Nat.eqb j i) eqn:E; [apply Nat.eqb_eq in E; subst; eauto|]; eauto.
Qed.

(* the fields layer 1 looks at *)
Definition same1 (s s' : state) : Prop :=
  wl s' = wl s /\ cl s' = cl s /\ tl s' = tl s /\ locking s' = locking s /\ memclr s' = memclr s /\
  mc s' = mc s /\ tc s' = tc s /\ cli s' = cli s.
Lemma inv1_frame : forall s s', same1 s s' -> inv1 s -> inv1 s'.
Proof.
  intros s s' (A & B & C & D & E & F & G & H) [IW IWM IWT IWCE IC ICM ICT ICCE IT ICL IMEM].
  constructor; unfold wl_is, cl_is in *; rewrite ?A, ?B, ?C, ?D, ?E, ?F, ?G, ?H; auto.
Qed.

(* the write lock changes hands together with the program counter of client i *)
Lemma inv1_W_change : forall s i pc' w' lk',
  inv1 s ->
  (forall j, j <> i -> wis w' (PCli j) = wl_is s (PCli j)) ->
  wis w' (PCli i) = cW pc' -> wis w' PM = false -> wis w' PT = false -> wis w' PCE = lk' ->
  cC pc' = cC (cli s i) -> (cTl (cli s i) = true -> cTl pc' = true) ->
  (wl s = WClosed -> w' = WClosed) -> (closer_has pc' = true -> w' = WClosed) ->
  inv1 (set_locking (set_pc (set_wl s w') i pc') lk').
Proof.
  intros s i pc' w' lk' [IW IWM IWT IWCE IC ICM ICT ICCE IT ICL IMEM] H1 H2 H3 H4 H5 HC HT HCL1 HCL2.
  constructor; simpl; unfold wl_is, cl_is in *; simpl; auto.
  - intro j. unfold upd. destruct (Nat.eqb j i) eqn:E.
    + apply Nat.eqb_eq in E; subst; auto.
    + apply Nat.eqb_neq in E. rewrite <- IW. apply H1; auto.
  - intro j. unfold upd. destruct (Nat.eqb j i) eqn:E; [apply Nat.eqb_eq in E; subst; rewrite HC|]; apply IC.
  - intros j Hj. unfold upd. destruct (Nat.eqb j i) eqn:E; [apply Nat.eqb_eq in E; subst; auto|]; auto.
  - intros j. unfold upd. destruct (Nat.eqb j i) eqn:E; [apply Nat.eqb_eq in E; subst; eauto|]; eauto.
Qed.

Lemma inv1_W_change' : forall s i pc' w',
  inv1 s ->
  (forall j, j <> i -> wis w' (PCli j) = wl_is s (PCli j)) ->
  wis w' (PCli i) = cW pc' -> wis w' PM = false -> wis w' PT = false -> wis w' PCE = locking s ->
  cC pc' = cC (cli s i) -> (cTl (cli s i) = true -> cTl pc' = true) ->
  (wl s = WClosed -> w' = WClosed) -> (closer_has pc' = true -> w' = WClosed) ->
  inv1 (set_pc (set_wl s w') i pc').
Proof.
  intros. eapply inv1_frame; [| eapply (inv1_W_change s i pc' w' (locking s)); eauto].
  repeat split; reflexivity.
Qed.

Definition cis (c : option who) (p : who) : bool := match c with Some q => who_eqb q p | None => false end.

Lemma inv1_C_change : forall s i pc' c',
  inv1 s ->
  (forall j, j <> i -> cis c' (PCli j) = cl_is s (PCli j)) ->
  cis c' (PCli i) = cC pc' -> cis c' PM = mC (mc s) -> cis c' PT = tC (tc s) -> cis c' PCE = false ->
  cW pc' = cW (cli s i) -> (cTl (cli s i) = true -> cTl pc' = true) ->
  (closer_has pc' = true -> closer_has (cli s i) = true) ->
  inv1 (set_pc (set_cl s c') i pc').
Proof.
  intros s i pc' c' [IW IWM IWT IWCE IC ICM ICT ICCE IT ICL IMEM] H1 H2 H3 H4 H5 HW HT HCL.
  constructor; simpl; unfold wl_is, cl_is in *; simpl; auto.
  - intro j. unfold upd. destruct (Nat.eqb j i) eqn:E; [apply Nat.eqb_eq in E; subst; rewrite HW|]; apply IW.
  - intro j. unfold upd. destruct (Nat.eqb j i) eqn:E.
    + apply Nat.eqb_eq in E; subst; auto.
    + apply Nat.eqb_neq in E. rewrite <- IC. apply H1; auto.
  - intros j Hj. unfold upd. destruct (Nat.eqb j i) eqn:E; [apply Nat.eqb_eq in E; subst; auto|]; auto.
  - intros j. unfold upd. destruct (Nat.eqb j i) eqn:E; [apply Nat.eqb_eq in E; subst; eauto|]; eauto.
Qed.

Lemma inv1_T_change : forall s i pc' t',
  inv1 s ->
  (t' = Some i -> cTl pc' = true) -> (forall j, j <> i -> t' = Some j -> tl s = Some j) ->
  cW pc' = cW (cli s i) -> cC pc' = cC (cli s i) ->
  (closer_has pc' = true -> closer_has (cli s i) = true) ->
  inv1 (set_pc (set_tl s t') i pc').
Proof.
  intros s i pc' t' [IW IWM IWT IWCE IC ICM ICT ICCE IT ICL IMEM] H1 H2 HW HC HCL.
  constructor; simpl; unfold wl_is, cl_is in *; simpl; auto.
  - intro j. unfold upd. destruct (Nat.eqb j i) eqn:E; [apply Nat.eqb_eq in E; subst; rewrite HW|]; apply IW.
  - intro j. unfold upd. destruct (Nat.eqb j i) eqn:E; [apply Nat.eqb_eq in E; subst; rewrite HC|]; apply IC.
  - intros j Hj. unfold upd. destruct (Nat.eqb j i) eqn:E; [apply Nat.eqb_eq in E; subst; auto|].
    apply Nat.eqb_neq in E. auto.
  - intros j. unfold upd. destruct (Nat.eqb j i) eqn:E; [apply Nat.eqb_eq in E; subst; eauto|]; eauto.
Qed.

Lemma inv1_set_mc : forall s pc', inv1 s -> mC pc' = mC (mc s) -> inv1 (set_mc s pc').
Proof.
  intros s pc' [IW IWM IWT IWCE IC ICM ICT ICCE IT ICL IMEM] H.
  constructor; simpl; unfold wl_is, cl_is in *; simpl; auto. rewrite H; auto.
Qed.
Lemma inv1_set_tc : forall s pc', inv1 s -> tC pc' = tC (tc s) -> inv1 (set_tc s pc').
Proof.
  intros s pc' [IW IWM IWT IWCE IC ICM ICT ICCE IT ICL IMEM] H.
  constructor; simpl; unfold wl_is, cl_is in *; simpl; auto. rewrite H; auto.
Qed.

Lemma implb_elim : forall a b, implb a b = true -> a = true -> b = true.
Proof. destruct a, b; simpl; auto. Qed.

Ltac bsplit := repeat match goal with
  | H : _ && _ = true |- _ => apply andb_prop in H; destruct H
  | H : Bool.eqb _ _ = true |- _ => apply Bool.eqb_prop in H
  | H : guard ?b _ = Some _ |- _ => unfold guard in H; destruct b eqn:?; [|discriminate]
  | H : Some _ = Some _ |- _ => inversion H; subst; clear H
  | H : None = Some _ |- _ => discriminate
  | H : false = true |- _ => discriminate
  | H : match ?x with _ => _ end = Some _ |- _ => destruct x eqn:?
  end.

Ltac frame := match goal with
  | I : inv1 ?s |- inv1 ?s' => apply (inv1_frame s s'); [repeat split; reflexivity | exact I]
  end.

(* side conditions of the helper lemmas *)
Ltac side :=
  try assumption; try (symmetry; assumption);
  try (match goal with H : implb ?a ?b = true |- ?a = true -> ?b = true => exact (implb_elim _ _ H) end);
  try (match goal with H : implb ?a (?b || false) = true |- ?a = true -> ?b = true =>
         let X := fresh in let Y := fresh in
         intro X; pose proof (implb_elim _ _ H X) as Y; rewrite orb_false_r in Y; exact Y end);
  auto.


(* the program counters of a partner j and of client i change *)
Lemma inv1_set_pc2 : forall s i j pj' pc', j <> i ->
  inv1 s ->
  cW pj' = cW (cli s j) -> cC pj' = cC (cli s j) -> (cTl (cli s j) = true -> cTl pj' = true) ->
  (closer_has pj' = true -> closer_has (cli s j) = true) ->
  cW pc' = cW (cli s i) -> cC pc' = cC (cli s i) -> (cTl (cli s i) = true -> cTl pc' = true) ->
  (closer_has pc' = true -> closer_has (cli s i) = true) ->
  inv1 (set_pc (set_pc s j pj') i pc').
Proof.
  intros. apply inv1_set_pc; [apply inv1_set_pc; auto | ..]; simpl; rewrite upd_other by auto; auto.
Qed.

Lemma wl_is_true : forall s p, wl_is s p = true -> wl s = WHeld p.
Proof. unfold wl_is; intros s p H; destruct (wl s); try discriminate. apply who_eqb_eq in H; subst; auto. Qed.
Lemma wl_free_true : forall s, wl_free s = true -> wl s = WFree.
Proof. unfold wl_free; intros s H; destruct (wl s); try discriminate; auto. Qed.
Lemma cl_is_true : forall s p, cl_is s p = true -> cl s = Some p.
Proof. unfold cl_is; intros s p H; destruct (cl s); try discriminate. apply who_eqb_eq in H; subst; auto. Qed.
Lemma is_none_true : forall {A} (o : option A), is_none o = true -> o = None.
Proof. destruct o; simpl; intros; try discriminate; auto. Qed.

(* hand-over of the write lock from client i to the overflow writer n *)
Lemma inv1_give : forall s i n pc',
  inv1 s -> wl s = WHeld (PCli i) -> cli s n = W2 ->
  cW pc' = false -> cC pc' = cC (cli s i) -> (cTl (cli s i) = true -> cTl pc' = true) ->
  (closer_has pc' = true -> closer_has (cli s i) = true) ->
  inv1 (set_pc (set_pc (set_wl s (WHeld (PCli n))) n (WF true)) i pc').
Proof.
  intros s i n pc' I HWL HN HW HC HT HCL.
  assert (NI : n <> i).
  { intro; subst. destruct I as [IW _ _ _ _ _ _ _ _ _ _]. specialize (IW i). unfold wl_is in IW. rewrite HWL, HN in IW.
    simpl in IW. rewrite Nat.eqb_refl in IW. discriminate. }
  destruct I as [IW IWM IWT IWCE IC ICM ICT ICCE IT ICL IMEM].
  unfold wl_is, cl_is in *. rewrite HWL in *.
  constructor; simpl; unfold wl_is, cl_is; simpl; auto.
  - intro j. unfold upd. destruct (Nat.eqb j i) eqn:E.
    + apply Nat.eqb_eq in E; subst. rewrite HW. apply Nat.eqb_neq; auto.
    + destruct (Nat.eqb j n) eqn:E2.
      * apply Nat.eqb_eq in E2; subst. rewrite Nat.eqb_refl; auto.
      * rewrite <- IW. simpl. apply Nat.eqb_neq in E. apply Nat.eqb_neq in E2.
        transitivity false; [apply Nat.eqb_neq; auto | symmetry; apply Nat.eqb_neq; auto].
  - intro j. unfold upd. destruct (Nat.eqb j i) eqn:E.
    + apply Nat.eqb_eq in E; subst. rewrite HC; auto.
    + destruct (Nat.eqb j n) eqn:E2; auto. apply Nat.eqb_eq in E2; subst. rewrite IC, HN; auto.
  - intros j Hj. unfold upd. destruct (Nat.eqb j i) eqn:E.
    + apply Nat.eqb_eq in E; subst; auto.
    + destruct (Nat.eqb j n) eqn:E2; auto. apply Nat.eqb_eq in E2; subst. specialize (IT _ Hj). rewrite HN in IT; discriminate.
  - intros j. unfold upd. destruct (Nat.eqb j i) eqn:E.
    + apply Nat.eqb_eq in E; subst. intro X. specialize (ICL i (HCL X)). discriminate.
    + destruct (Nat.eqb j n) eqn:E2; [simpl; discriminate|]. intro X. specialize (ICL j X). discriminate.
  - intro X. specialize (IMEM X). discriminate.
Qed.

Lemma closer_false : forall s i pc', inv1 s -> wl s <> WClosed ->
  implb (closer_has pc') (closer_has (cli s i) || false) = true -> closer_has pc' = false.
Proof.
  intros s i pc' I NW H. destruct (closer_has pc') eqn:E; auto. simpl in H. rewrite orb_false_r in H.
  destruct I. exfalso; eauto.
Qed.

Ltac acq_case :=
  match goal with HF : wl_free ?s = true, I : inv1 ?s |- inv1 (set_pc _ _ ?pc') =>
    let W := fresh "W" in pose proof (wl_free_true _ HF) as W;
    let CF := fresh "CF" in
    assert (CF : closer_has pc' = false) by (eapply closer_false; eauto; rewrite W; discriminate);
    apply inv1_W_change'; side;
    [ intros j NJ; unfold wl_is; rewrite W; simpl; apply Nat.eqb_neq; congruence
    | simpl; rewrite Nat.eqb_refl; auto
    | destruct I as [_ _ _ IWCE _ _ _ _ _ _ _]; rewrite <- IWCE; unfold wl_is; rewrite W; reflexivity
    | rewrite W; discriminate
    | rewrite CF; discriminate ]
  end.

Ltac rel_case :=
  match goal with HF : wl_is ?s (PCli ?i) = true, I : inv1 ?s |- inv1 (set_pc _ _ ?pc') =>
    let W := fresh "W" in pose proof (wl_is_true _ _ HF) as W;
    let CF := fresh "CF" in
    assert (CF : closer_has pc' = false) by (eapply closer_false; eauto; rewrite W; discriminate);
    apply inv1_W_change'; side;
    [ intros j NJ; unfold wl_is; rewrite W; simpl; symmetry; apply Nat.eqb_neq; congruence
    | destruct I as [_ _ _ IWCE _ _ _ _ _ _ _]; rewrite <- IWCE; unfold wl_is; rewrite W; reflexivity
    | rewrite W; discriminate
    | rewrite CF; discriminate ]
  end.

Lemma cpc_is_W2_true : forall pc, cpc_is_W2 pc = true -> pc = W2.
Proof. destruct pc; simpl; intros; try discriminate; auto. Qed.
Lemma cpc_is_W3_true : forall pc, cpc_is_W3 pc = true -> pc = W3.
Proof. destruct pc; simpl; intros; try discriminate; auto. Qed.
Lemma cpc_is_W1m_true : forall pc, cpc_is_W1m pc = true -> pc = W1 true.
Proof. destruct pc; simpl; intros; try discriminate; auto. destruct m; auto; discriminate. Qed.

Ltac getW := match goal with H : wl_is ?s (PCli ?i) = true |- _ => let W := fresh "W" in pose proof (wl_is_true _ _ H) as W end.
Ltac getF := match goal with H : wl_free ?s = true |- _ => let W := fresh "W" in pose proof (wl_free_true _ H) as W end.
Ltac partner_pc j :=
  match goal with
  | H : cpc_is_W2 (cli ?s j) = true |- _ => let HN := fresh "HN" in pose proof (cpc_is_W2_true _ H) as HN
  | H : cpc_is_W3 (cli ?s j) = true |- _ => let HN := fresh "HN" in pose proof (cpc_is_W3_true _ H) as HN
  | H : cpc_is_W1m (cli ?s j) = true |- _ => let HN := fresh "HN" in pose proof (cpc_is_W1m_true _ H) as HN
  end.
Ltac partner_ne j i :=
  let NE := fresh "NE" in assert (NE : j <> i) by (intro; subst; match goal with HN : cli _ _ = _ |- _ => rewrite HN in * end; simpl in *; congruence).
Ltac two_pc s i j pj pc' :=
  eapply inv1_frame; [| apply (inv1_set_pc2 s i j pj pc'); try assumption; try (match goal with HN : cli _ j = _ |- _ => rewrite HN end); side; simpl; try discriminate];
  [repeat split; reflexivity].

Lemma inv1_step_cli : forall s i k arg s', inv1 s -> step fixed s (ACli i k arg) = Some s' -> inv1 s'.
Proof.
  intros s i k arg s' I H. simpl in H.
  destruct (nth_error (cedges fixed (cli s i)) k) as [[l pc']|] eqn:N; [|discriminate].
  pose proof (nth_forallb _ _ _ _ (cedges1_ok (cli s i)) N) as EK.
  destruct (lsem fixed (PCli i) l arg s) as [s1|] eqn:L; [|discriminate]. inversion H; subst s'; clear H N.
  unfold cedge1_ok in EK.
  destruct l; simpl in L, EK; bsplit.
  all: try (solve [apply inv1_set_pc; side]).
  all: try (solve [apply inv1_set_pc; [frame | side ..]]).
  - (* LIfMemNil *)
    apply inv1_set_pc; side.
    match goal with H : negb _ || _ = true |- _ => apply orb_prop in H; destruct H as [X | X] end.
    + apply negb_true_iff in X. rewrite X. destruct I as [IW _ _ _ _ _ _ _ _ _ IMEM].
      rewrite <- IW. unfold wl_is. rewrite IMEM; auto.
    + apply Bool.eqb_prop in X; auto.
  - (* LClearMems *)
    assert (wl s = WClosed) by (destruct I; eauto).
    apply inv1_set_pc; side.
    destruct I as [IW IWM IWT IWCE IC ICM ICT ICCE IT ICL IMEM]; constructor; simpl; auto.
  - (* LAcqW *) acq_case.
  - (* LAcqWRO *) acq_case.
  - (* LAcqWClose *)
    getF. apply inv1_W_change'; side.
    + intros j NJ; unfold wl_is; rewrite W; reflexivity.
    + destruct I as [_ _ _ IWCE _ _ _ _ _ _ _]; rewrite <- IWCE; unfold wl_is; rewrite W; reflexivity.
  - (* LRelW *) rel_case.
  - (* LRelWU *) rel_case.
  - (* LGiveW *)
    getW. partner_pc n.
    eapply inv1_frame; [| apply (inv1_give s i n pc'); side].
    repeat split; reflexivity.
  - (* LAckOne *)
    partner_pc arg. partner_ne arg i. two_pc s i arg Ret pc'.
  - (* LMergeRecv *)
    partner_pc arg. partner_ne arg i. two_pc s i arg W2 pc'.
  - (* LMergedTrue *)
    partner_pc n. partner_ne n i. two_pc s i n W3 pc'.
  - (* LWToTr *)
    eapply (inv1_frame (set_pc (set_wl s WTr) i pc')); [repeat split; reflexivity | rel_case].
  - (* LRelWTr *)
    match goal with H : wl s = WTr |- _ => rename H into W end.
    assert (CF : closer_has pc' = false) by (eapply closer_false; eauto; rewrite W; discriminate).
    assert (CWF : cW (cli s i) = false) by (destruct I as [IW _ _ _ _ _ _ _ _ _ _]; rewrite <- IW; unfold wl_is; rewrite W; auto).
    eapply (inv1_frame (set_pc (set_wl s WFree) i pc')); [repeat split; reflexivity |].
    apply inv1_W_change'; side.
    + intros j NJ; unfold wl_is; rewrite W; reflexivity.
    + simpl. congruence.
    + destruct I as [_ _ _ IWCE _ _ _ _ _ _ _]; rewrite <- IWCE; unfold wl_is; rewrite W; reflexivity.
    + rewrite W; discriminate.
    + rewrite CF; discriminate.
  - (* LSendErrSetRO *)
    getW.
    assert (CF : closer_has pc' = false) by (eapply closer_false; eauto; rewrite W; discriminate).
    eapply (inv1_frame (set_locking (set_pc (set_wl s (WHeld PCE)) i pc') true)); [repeat split; reflexivity |].
    apply inv1_W_change; side.
    + intros j NJ; unfold wl_is; rewrite W; simpl; symmetry; apply Nat.eqb_neq; congruence.
    + rewrite W; discriminate.
    + rewrite CF; discriminate.
  - (* LLockC *)
    match goal with H : is_none (cl s) = true |- _ => pose proof (is_none_true _ H) as CN end.
    destruct I as [IW IWM IWT IWCE IC ICM ICT ICCE IT ICL IMEM].
    apply inv1_C_change; side; try (constructor; assumption).
    + intros j NJ; unfold cl_is; rewrite CN; simpl; apply Nat.eqb_neq; congruence.
    + simpl; rewrite Nat.eqb_refl; auto.
    + simpl. rewrite <- ICM. unfold cl_is; rewrite CN; reflexivity.
    + simpl. rewrite <- ICT. unfold cl_is; rewrite CN; reflexivity.
  - (* LUnlockC *)
    match goal with H : cl_is s (PCli i) = true |- _ => pose proof (cl_is_true _ _ H) as CN end.
    destruct I as [IW IWM IWT IWCE IC ICM ICT ICCE IT ICL IMEM].
    apply inv1_C_change; side; try (constructor; assumption).
    + intros j NJ; unfold cl_is; rewrite CN; simpl; symmetry; apply Nat.eqb_neq; congruence.
    + simpl. rewrite <- ICM. unfold cl_is; rewrite CN; reflexivity.
    + simpl. rewrite <- ICT. unfold cl_is; rewrite CN; reflexivity.
  - (* LLockT, current *)
    apply inv1_T_change; side. intros j NJ X; inversion X; congruence.
  - (* LUnlockT, holder *)
    apply inv1_T_change; side; try discriminate.
  - (* LUnlockT, stale *)
    match goal with |- inv1 (set_pc ?S _ _) =>
      eapply (inv1_frame (set_pc (set_tl S (tl S)) i pc')); [repeat split; reflexivity |] end.
    apply inv1_T_change; side.
    intro X. rewrite X in *. simpl in *. rewrite Nat.eqb_refl in *. discriminate.
  - (* LSendCmd BM *)
    assert (IM : inv1 (set_mc s M1)) by (apply inv1_set_mc; auto; rewrite Heqm; reflexivity).
    destruct k0; (apply inv1_set_pc; [eapply inv1_frame; [| exact IM]; repeat split; reflexivity | side ..]).
  - (* LSendCmd BT *)
    assert (IM : inv1 (set_tc s (T3 k0))).
    { apply inv1_set_tc; auto. destruct (tc s); simpl in *; try discriminate; reflexivity. }
    destruct k0; (apply inv1_set_pc; [eapply inv1_frame; [| exact IM]; repeat split; reflexivity | side ..]).
  - (* LTrySendCmd BM *)
    destruct (mc s) eqn:Heqm; try (apply inv1_set_pc; side).
    assert (IM : inv1 (set_mc s M1)) by (apply inv1_set_mc; auto; rewrite Heqm; reflexivity).
    eapply inv1_frame; [| exact IM]; repeat split; reflexivity.
  - (* LTrySendCmd BT *)
    destruct (t_recv_cmd (tc s)) eqn:Heqt; try (apply inv1_set_pc; side).
    assert (IM : inv1 (set_tc s (T3 XNo))).
    { apply inv1_set_tc; auto. destruct (tc s); simpl in *; try discriminate; reflexivity. }
    eapply inv1_frame; [| exact IM]; repeat split; reflexivity.
Qed.

(* compCommitLk taken / given back by mCompaction *)
Lemma inv1_CM_change : forall s c' pc',
  inv1 s -> (forall j, cis c' (PCli j) = cl_is s (PCli j)) ->
  cis c' PM = mC pc' -> cis c' PT = tC (tc s) -> cis c' PCE = false ->
  inv1 (set_mc (set_cl s c') pc').
Proof.
  intros s c' pc' [IW IWM IWT IWCE IC ICM ICT ICCE IT ICL IMEM] H1 H2 H3 H4.
  constructor; simpl; unfold wl_is, cl_is in *; simpl; auto.
  intro j. rewrite <- IC. apply H1.
Qed.
Lemma inv1_CT_change : forall s c' pc',
  inv1 s -> (forall j, cis c' (PCli j) = cl_is s (PCli j)) ->
  cis c' PM = mC (mc s) -> cis c' PT = tC pc' -> cis c' PCE = false ->
  inv1 (set_tc (set_cl s c') pc').
Proof.
  intros s c' pc' [IW IWM IWT IWCE IC ICM ICT ICCE IT ICL IMEM] H1 H2 H3 H4.
  constructor; simpl; unfold wl_is, cl_is in *; simpl; auto.
  intro j. rewrite <- IC. apply H1.
Qed.

Ltac frame_to S := eapply (inv1_frame S); [repeat split; reflexivity |].

Lemma inv1_step_m : forall s k s', inv1 s -> step fixed s (AM k) = Some s' -> inv1 s'.
Proof.
  intros s k s' I H. simpl in H.
  destruct (nth_error (medges (mc s)) k) as [[l pc']|] eqn:N; [|discriminate].
  pose proof (nth_forallb _ _ _ _ (medges1_ok (mc s)) N) as EK.
  destruct (lsem fixed PM l 0 s) as [s1|] eqn:L; [|discriminate]. inversion H; subst s'; clear H N.
  unfold medge1_ok in EK.
  destruct l; simpl in L, EK; bsplit.
  all: try (solve [apply inv1_set_mc; side]).
  all: try (solve [apply inv1_set_mc; [frame | side ..]]).
  - (* LLockC *)
    match goal with H : is_none (cl s) = true |- _ => pose proof (is_none_true _ H) as CN end.
    destruct I as [IW IWM IWT IWCE IC ICM ICT ICCE IT ICL IMEM].
    apply inv1_CM_change; try (constructor; assumption); simpl; auto.
    + intro j. unfold cl_is. rewrite CN. reflexivity.
    + rewrite <- ICT. unfold cl_is; rewrite CN; reflexivity.
  - (* LUnlockC *)
    match goal with H : cl_is s PM = true |- _ => pose proof (cl_is_true _ _ H) as CN end.
    destruct I as [IW IWM IWT IWCE IC ICM ICT ICCE IT ICL IMEM].
    apply inv1_CM_change; try (constructor; assumption); simpl; auto.
    + intro j. unfold cl_is. rewrite CN. reflexivity.
    + rewrite <- ICT. unfold cl_is; rewrite CN; reflexivity.
  - (* LTrySendCmd BT *)
    destruct (t_recv_cmd (tc s)) eqn:Heqt; [| apply inv1_set_mc; side].
    assert (IM : inv1 (set_tc s (T3 XNo))).
    { apply inv1_set_tc; auto. destruct (tc s); simpl in *; try discriminate; reflexivity. }
    apply inv1_set_mc; side. eapply inv1_frame; [| exact IM]; repeat split; reflexivity.
  - (* LSendPause *)
    apply inv1_set_mc; side. apply inv1_set_tc; auto.
    destruct (tc s); simpl in *; try discriminate; reflexivity.
  - (* LRecvResume *)
    apply inv1_set_mc; side. apply inv1_set_tc; auto.
    match goal with H : tc s = TP _ |- _ => rewrite H end. destruct k0; try destruct r; reflexivity.
  - (* LAck *)
    destruct (mx s) as [w|]; [| apply inv1_set_mc; side].
    pose proof (inv1_deliver BM ok w s I) as ID.
    destruct (deliver_fields BM ok w s) as (_ & _ & _ & _ & Hm & _).
    apply inv1_set_mc; [eapply inv1_frame; [| exact ID]; repeat split; reflexivity |].
    simpl. rewrite Hm. side.
  - (* LAckQ *)
    pose proof (inv1_deliver BT ok p s I) as ID.
    destruct (deliver_fields BT ok p s) as (_ & _ & _ & _ & Hm & _).
    apply inv1_set_mc; [eapply inv1_frame; [| exact ID]; repeat split; reflexivity |].
    simpl. rewrite Hm. side.
Qed.

Lemma inv1_step_t : forall s k s', inv1 s -> step fixed s (AT k) = Some s' -> inv1 s'.
Proof.
  intros s k s' I H. simpl in H.
  destruct (nth_error (tedges (tc s)) k) as [[l pc']|] eqn:N; [|discriminate].
  pose proof (nth_forallb _ _ _ _ (tedges1_ok (tc s)) N) as EK.
  destruct (lsem fixed PT l 0 s) as [s1|] eqn:L; [|discriminate]. inversion H; subst s'; clear H N.
  unfold tedge1_ok in EK.
  destruct l; simpl in L, EK; bsplit.
  all: try (solve [apply inv1_set_tc; side]).
  all: try (solve [apply inv1_set_tc; [frame | side ..]]).
  - (* LLockC *)
    match goal with H : is_none (cl s) = true |- _ => pose proof (is_none_true _ H) as CN end.
    destruct I as [IW IWM IWT IWCE IC ICM ICT ICCE IT ICL IMEM].
    apply inv1_CT_change; try (constructor; assumption); simpl; auto.
    + intro j. unfold cl_is. rewrite CN. reflexivity.
    + rewrite <- ICM. unfold cl_is; rewrite CN; reflexivity.
  - (* LUnlockC *)
    match goal with H : cl_is s PT = true |- _ => pose proof (cl_is_true _ _ H) as CN end.
    destruct I as [IW IWM IWT IWCE IC ICM ICT ICCE IT ICL IMEM].
    apply inv1_CT_change; try (constructor; assumption); simpl; auto.
    + intro j. unfold cl_is. rewrite CN. reflexivity.
    + rewrite <- ICM. unfold cl_is; rewrite CN; reflexivity.
  - (* LTrySendCmd BT *)
    destruct (t_recv_cmd (tc s)) eqn:Heqt; [| apply inv1_set_tc; side].
    eapply (inv1_frame (set_tc s pc')); [repeat split; reflexivity | apply inv1_set_tc; side].
  - (* LSendPause *)
    eapply (inv1_frame (set_tc s pc')); [repeat split; reflexivity | apply inv1_set_tc; side].
  - (* LRecvResume *)
    eapply (inv1_frame (set_tc s pc')); [repeat split; reflexivity | apply inv1_set_tc; side].
    rewrite Heqt; auto.
  - (* LAck *)
    destruct (tx s) as [w|]; [| apply inv1_set_tc; side].
    pose proof (inv1_deliver BT ok w s I) as ID.
    destruct (deliver_fields BT ok w s) as (_ & _ & _ & _ & _ & Hm & _).
    apply inv1_set_tc; [eapply inv1_frame; [| exact ID]; repeat split; reflexivity |].
    simpl. rewrite Hm. side.
  - (* LAckQ *)
    pose proof (inv1_deliver BT ok p s I) as ID.
    destruct (deliver_fields BT ok p s) as (_ & _ & _ & _ & _ & Hm & _).
    apply inv1_set_tc; [eapply inv1_frame; [| exact ID]; repeat split; reflexivity |].
    simpl. rewrite Hm. side.
Qed.

Lemma inv1_step_ce : forall s k s', inv1 s -> step fixed s (ACE k) = Some s' -> inv1 s'.
Proof.
  intros s k s' I H. simpl in H. unfold step_ce in H.
  destruct k as [|[|k]]; [| |destruct (ce s); discriminate].
  - destruct (ce s); try discriminate. bsplit.
    match goal with H : wl_free s = true |- _ => pose proof (wl_free_true _ H) as W end.
    destruct I as [IW IWM IWT IWCE IC ICM ICT ICCE IT ICL IMEM].
    constructor; simpl; unfold wl_is, cl_is in *; simpl; auto.
    + intro j. rewrite <- IW, W. reflexivity.
    + intros j X. specialize (ICL j X). congruence.
    + intro X. specialize (IMEM X). congruence.
  - assert (G : closeC s = true /\ s' = set_ce (if (match ce s with E_per => true | _ => false end) && locking s
                       then set_locking (set_wl s WFree) false else s) E_done).
    { destruct (ce s); try discriminate; bsplit; auto. }
    destruct G as [_ ->].
    destruct ((match ce s with E_per => true | _ => false end) && locking s) eqn:E.
    + apply andb_prop in E. destruct E as [_ LK].
      destruct I as [IW IWM IWT IWCE IC ICM ICT ICCE IT ICL IMEM].
      rewrite LK in IWCE. pose proof (wl_is_true _ _ IWCE) as W.
      constructor; simpl; unfold wl_is, cl_is in *; simpl; auto.
      * intro j. rewrite <- IW, W. reflexivity.
      * intros j X. specialize (ICL j X). congruence.
      * intro X. specialize (IMEM X). congruence.
    + eapply inv1_frame; [| exact I]. repeat split; reflexivity.
Qed.

Theorem inv1_reachable : forall s, reachable fixed s -> inv1 s.
Proof.
  induction 1 as [| s a s' R IH ST].
  - apply inv1_init.
  - destruct a.
    + eapply inv1_step_cli; eauto.
    + eapply inv1_step_m; eauto.
    + eapply inv1_step_t; eauto.
    + eapply inv1_step_ce; eauto.
Qed.

(* locks_balanced: what a client holds is a function of its program counter; a client that is not inside a
   call holds neither the write lock, nor compCommitLk, nor tr.lk -- on every path, for every outcome of the
   storage operations.  (The write lock of an open transaction belongs to the Transaction, WTr; the one taken
   by Close is kept for ever on behalf of the closed DB, WClosed.) *)
Theorem held_is_pc : forall s, reachable fixed s ->
  forall i, holdsW s i = cW (cli s i) /\ holdsC s i = cC (cli s i) /\ (holdsT s i = true -> cTl (cli s i) = true).
Proof.
  intros s R i. destruct (inv1_reachable s R) as [IW _ _ _ IC _ _ _ IT _ _].
  unfold holdsW, holdsC, holdsT. repeat split; auto.
  intro H. apply IT. destruct (tl s); simpl in H; try discriminate. apply Nat.eqb_eq in H; subst; auto.
Qed.

Theorem locks_balanced_lts : forall s, reachable fixed s ->
  forall i, (cli s i = Idle \/ cli s i = IdleTr) -> holdsW s i = false /\ holdsC s i = false /\ holdsT s i = false.
Proof.
  intros s R i H. destruct (held_is_pc s R i) as (A & B & C).
  rewrite A, B. destruct H as [H | H]; rewrite H in *; simpl; repeat split; auto;
  destruct (holdsT s i); auto; specialize (C eq_refl); discriminate.
Qed.

(* ------------------------------------------------------------------ layer 2: every wait has an exit *)

Definition lbl_eqb_simple (a b : lbl) : bool :=
  match a, b with
  | LSeeClosed, LSeeClosed | LRecvErr, LRecvErr | LRecvPerr, LRecvPerr | LOpenC, LOpenC => true
  | LIfClosed x, LIfClosed y | LCasClosed x, LCasClosed y | LReadDbTr x, LReadDbTr y | LIfTrOpen x, LIfTrOpen y => Bool.eqb x y
  | _, _ => false
  end.
Definition has_lbl {P} (l : lbl) (es : list (lbl * P)) : bool := existsb (fun e => lbl_eqb_simple (fst e) l) es.

(* a step that can never block: internal steps, releases by the holder, non-blocking sends *)
Definition never_blocks (l : lbl) : bool :=
  match l with
  | LTau | LBegin _ | LEnd | LCloseChan | LClearMems | LTrySendCmd _ | LCommitOk | LCommitFailW
  | LRelW | LRelWTr | LWToTr | LUnlockC | LUnlockT | LEnqueue => true
  | _ => false
  end.
(* both outcomes of a test are present *)
Definition has_test_pair {P} (es : list (lbl * P)) : bool :=
  (has_lbl (LIfClosed true) es && has_lbl (LIfClosed false) es) ||
  (has_lbl (LCasClosed true) es && has_lbl (LCasClosed false) es) ||
  (has_lbl (LReadDbTr true) es && has_lbl (LReadDbTr false) es) ||
  (has_lbl (LIfTrOpen true) es && has_lbl (LIfTrOpen false) es) ||
  (has_lbl LSeeClosed es && has_lbl LOpenC es).   (* select { case <-closeC: ; default: } *)

Inductive wait_class := WNone    (* not a wait: some edge never blocks *)
                      | WClose   (* a select that lists closeC *)
                      | WPartner (* an unconditional operation: the partner is guaranteed by an invariant *)
                      | WFinal.  (* no edge: the process has ended *)
Definition classify {P} (es : list (lbl * P)) : wait_class :=
  match es with
  | [] => WFinal
  | _ => if existsb (fun e => never_blocks (fst e)) es || has_test_pair es then WNone
         else if has_lbl LSeeClosed es then WClose else WPartner
  end.

(* the unconditional blocking operations of the clients, each with the reason why it cannot block for ever:
   W2        <-writeMergedC      the lock holder answers every merge request it received (LMergedTrue / LGiveW)
   W3        <-writeAckC         the lock holder acknowledges every merged writer in unlockWrite (LAckOne)
   WMs       writeMergedC<-true  the requester is waiting in W2
   WU        unlockWrite         writeAckC<- / writeMergedC<-false: the partners wait in W3 / W2; else a release
   LB1 CM1 DC0 TP1 OT6   tr.lk.Lock()       a mutex: its holders never wait for the write lock or tr.lk
   CM4       compCommitLk.Lock() a mutex: its holders only wait with closeC / error exits
   CL4       Close: writeLockC<- every holder of the write lock releases it once closeC is closed
   CL5       closeW.Wait()       both compaction goroutines leave at closeC *)
Definition client_unconditional (pc : cpc) : bool :=
  match pc with
  | W2 | W3 | WMs _ | WU _ | LB1 | CM1 _ | DC0 _ | TP1 | OT6 _ | CM4 _ | CL4 | CL5 => true
  | _ => false
  end.
Definition m_unconditional (pc : mpc) : bool := match pc with MC _ | MAck | MX => true | _ => false end.
Definition t_unconditional (pc : tpc) : bool := match pc with TC _ | TQ _ | TAx _ | TX => true | _ => false end.

Lemma client_waits : forall pc,
  match classify (cedges fixed pc) with
  | WPartner | WFinal => client_unconditional pc = true
  | _ => client_unconditional pc = false
  end.
Proof. intro pc; destruct pc; dparams; reflexivity. Qed.
Lemma m_waits : forall pc,
  match classify (medges pc) with
  | WPartner => m_unconditional pc = true | WFinal => pc = MDone | _ => m_unconditional pc = false end.
Proof. intro pc; destruct pc; dparams; reflexivity. Qed.
Lemma t_waits : forall pc,
  match classify (tedges pc) with
  | WPartner => t_unconditional pc = true | WFinal => pc = TDone | _ => t_unconditional pc = false end.
Proof. intro pc; destruct pc; dparams; reflexivity. Qed.

(* waits for background work list compErrC; waits for the write lock list compPerErrC (Close excepted) *)
Definition has_send_cmd {P} (es : list (lbl * P)) : bool :=
  existsb (fun e => match fst e with LSendCmd _ _ => true | _ => false end) es.
Definition has_acq {P} (es : list (lbl * P)) : bool :=
  existsb (fun e => match fst e with LAcqW | LAcqWRO => true | _ => false end) es.
Definition is_trigw_pc (pc : cpc) : bool := match pc with TrigW _ _ => true | _ => false end.

Lemma error_exits : forall pc,
  let es := cedges fixed pc in
  (has_send_cmd es || is_trigw_pc pc = true -> has_lbl LRecvErr es && has_lbl LSeeClosed es = true) /\
  (has_acq es = true -> has_lbl LRecvPerr es && has_lbl LSeeClosed es = true).
Proof. intro pc; destruct pc; dparams; simpl; split; intro; try discriminate; reflexivity. Qed.

(* ------------------------------------------------------------------ the code before the repairs: leaks *)

Definition unfixed_D4a := {| fixD4a := false; fixD4b := true; fixD4c := true; fixD7 := true; fixD8 := true; fixD9 := true |}.
Definition unfixed_D4b := {| fixD4a := true; fixD4b := false; fixD4c := true; fixD7 := true; fixD8 := true; fixD9 := true |}.
Definition unfixed_D4c := {| fixD4a := true; fixD4b := true; fixD4c := false; fixD7 := true; fixD8 := true; fixD9 := true |}.
Definition unfixed_D7 := {| fixD4a := true; fixD4b := true; fixD4c := true; fixD7 := false; fixD8 := true; fixD9 := true |}.
Definition unfixed_D9 := {| fixD4a := true; fixD4b := true; fixD4c := true; fixD7 := true; fixD8 := true; fixD9 := false |}.
Definition unfixed_D8 := {| fixD4a := true; fixD4b := true; fixD4c := true; fixD7 := true; fixD8 := false; fixD9 := true |}.

(* a user transaction: OpenTransaction succeeds, Commit's three attempts fail, Commit returns *)
Definition trace_D4a : list action :=
  [ACli 0 4 0; ACli 0 1 0; ACli 0 0 0; ACli 0 2 0; ACli 0 1 0; ACli 0 0 0; ACli 0 1 0; ACli 0 0 0;
   ACli 0 0 0; ACli 0 1 0; ACli 0 0 0; ACli 0 1 0; ACli 0 1 0; ACli 0 0 0;
   ACli 0 1 0; ACli 0 0 0; ACli 0 1 0; ACli 0 0 0; ACli 0 1 0; ACli 0 0 0; ACli 0 0 0; ACli 0 0 0; ACli 0 0 0].
(* DB.Write of a batch larger than the write buffer: internal transaction, Commit fails, Write returns *)
Definition trace_D4b : list action :=
  [ACli 0 2 0; ACli 0 2 0; ACli 0 0 0; ACli 0 1 0; ACli 0 0 0; ACli 0 2 0; ACli 0 1 0; ACli 0 0 0; ACli 0 1 0; ACli 0 0 0;
   ACli 0 0 0; ACli 0 0 0; ACli 0 0 0; ACli 0 0 0;
   ACli 0 1 0; ACli 0 0 0; ACli 0 1 0; ACli 0 1 0; ACli 0 0 0;
   ACli 0 1 0; ACli 0 0 0; ACli 0 1 0; ACli 0 0 0; ACli 0 1 0; ACli 0 0 0; ACli 0 0 0; ACli 0 0 0; ACli 0 0 0; ACli 0 0 0].
(* OpenTransaction takes the write lock, starts the memdb flush; Close (client 1) closes closeC; the wait fails *)
Definition trace_D4c : list action :=
  [ACli 0 4 0; ACli 0 1 0; ACli 0 0 0; ACli 0 0 0; ACli 1 7 0; ACli 1 0 0; ACli 1 0 0; ACli 1 0 0;
   ACli 0 2 0; ACli 0 0 0; ACli 0 0 0].
(* a Put rotates the memdb; mCompaction flushes it; the commit's manifest write fails once *)
Definition trace_D7 : list action :=
  [ACli 0 0 0; ACli 0 1 0; ACli 0 0 0; ACli 0 2 0; AT 1; AT 0; AT 1; ACli 0 0 0;
   AM 1; AM 0; AM 1; AM 0; AM 0; AM 0; AM 1; AM 2; AM 0; AM 1].
(* SetReadOnly (client 0) takes the write lock; Close (client 1) closes closeC; compactionError leaves;
   SetReadOnly returns ErrClosed *)
Definition trace_D8 : list action :=
  [ACli 0 6 0; ACli 0 1 0; ACli 0 0 0; ACli 1 7 0; ACli 1 0 0; ACli 1 0 0; ACli 1 0 0; ACli 1 1 0; ACE 1;
   ACli 0 2 0; ACli 0 0 0].

Definition summary (o : option state) :=
  match o with Some s => Some (wl s, cl s, trown s, cli s 0, cli s 1) | None => None end.

(* D4a: Commit has returned (the client is back at IdleTr) and compCommitLk is still locked by it *)
Example commit_leaks_refuted :
  summary (run unfixed_D4a init trace_D4a) = Some (WTr, Some (PCli 0), Some 0, IdleTr, Idle) /\
  summary (run fixed init trace_D4a) = Some (WTr, None, Some 0, IdleTr, Idle).
Proof. split; vm_compute; reflexivity. Qed.

(* D4b: Write has returned (client Idle, nobody has the handle) and the transaction still owns the write lock;
   the repaired code is discarding the transaction at this point *)
Example write_large_leaks_refuted :
  summary (run unfixed_D4b init trace_D4b) = Some (WTr, None, Some 0, Idle, Idle) /\
  summary (run fixed init trace_D4b) = Some (WTr, None, Some 0, DC0 XLB, Idle).
Proof. split; vm_compute; reflexivity. Qed.

(* D4c: OpenTransaction has returned an error and the client still holds the write lock;
   on the same schedule the repaired code has released it *)
Example open_transaction_leaks_refuted :
  summary (run unfixed_D4c init trace_D4c) = Some (WHeld (PCli 0), None, None, Idle, CL3) /\
  summary (run fixed init trace_D4c) = Some (WFree, None, None, Idle, CL3).
Proof. split; vm_compute; reflexivity. Qed.

(* D7: after one failed manifest write the commit can never succeed again (the writer is poisoned), while
   mCompaction keeps compCommitLk; the repaired code's next attempt succeeds *)
Example commit_retry_leaks_refuted :
  (match run unfixed_D7 init trace_D7 with
   | Some s => (cl s, mc s, poisoned s, summary (step unfixed_D7 s (AM 0)))
   | None => (None, M0, false, None) end) = (Some PM, MD1 true, true, None) /\
  (match run fixed init trace_D7 with
   | Some s => match step fixed s (AM 0) with Some s' => Some (mc s') | None => None end
   | None => None end) = Some (MDs true EOk).
Proof. split; vm_compute; reflexivity. Qed.

Lemma poisoned_sticks_unfixed : forall s a s',
  poisoned s = true -> step unfixed_D7 s a = Some s' -> poisoned s' = true.
Proof.
  assert (D : forall b ok w s, poisoned (deliver b ok w s) = poisoned s).
  { intros b ok [i n] s; unfold deliver. destruct (is_trigw b (cli s i) && Nat.eqb (ctk s i) n); reflexivity. }
  assert (L : forall p l arg s s', poisoned s = true -> lsem unfixed_D7 p l arg s = Some s' -> poisoned s' = true).
  { intros p l arg s s' P H. destruct l; simpl in H; unfold guard in H;
      repeat match type of H with
      | context[match ?x with _ => _ end] => destruct x eqn:?
      end; try discriminate; inversion H; subst; simpl; rewrite ?D; auto. }
  intros s a s' P H. destruct a; simpl in H.
  - destruct (nth_error (cedges unfixed_D7 (cli s i)) k) as [[l pc']|]; try discriminate.
    destruct (lsem unfixed_D7 (PCli i) l arg s) eqn:E; try discriminate. inversion H; subst. simpl. eauto.
  - destruct (nth_error (medges (mc s)) k) as [[l pc']|]; try discriminate.
    destruct (lsem unfixed_D7 PM l 0 s) eqn:E; try discriminate. inversion H; subst. simpl. eauto.
  - destruct (nth_error (tedges (tc s)) k) as [[l pc']|]; try discriminate.
    destruct (lsem unfixed_D7 PT l 0 s) eqn:E; try discriminate. inversion H; subst. simpl. eauto.
  - unfold step_ce, guard in H.
    repeat match type of H with context[match ?x with _ => _ end] => destruct x eqn:? end;
      try discriminate; inversion H; subst; simpl; auto.
Qed.

(* D8: SetReadOnly has returned ErrClosed with the write lock, compactionError is gone, Close waits for ever *)
Example set_read_only_leaks_refuted :
  (match run unfixed_D8 init trace_D8 with
   | Some s => (wl s, cli s 0, cli s 1, ce s, summary (step unfixed_D8 s (ACli 1 0 0)))
   | None => (WFree, Idle, Idle, E_no, None) end) = (WHeld (PCli 0), Idle, CL4, E_done, None) /\
  summary (run fixed init trace_D8) = Some (WFree, None, None, Ret, CL4).
Proof. split; vm_compute; reflexivity. Qed.

(* ------------------------------------------------------------------ the read-only branch of the compaction goroutines

   CompactRange (client 1) has passed the write-lock stage and is about to send its range command; SetReadOnly
   (client 0) switches the DB (compactionError enters its persistent-error state and owns the write lock);
   the command is received by tCompaction, which takes the NEW edge T3 XRange -> TX (persistent error: start
   nothing), acknowledges with the error and returns; CompactRange returns; Close then finds tCompaction gone,
   mCompaction leaves on closeC, closeW.Wait returns and Close returns. *)
Definition trace_ro_parks : list action :=
  [ACli 1 5 0; ACli 1 1 0; ACli 1 0 0; ACli 1 2 0; ACli 1 0 0;
   AT 1; AT 0; AT 1;
   ACli 0 6 0; ACli 0 1 0; ACli 0 0 0; ACli 0 0 0; ACli 0 0 0;
   ACli 1 0 0; AT 1; AT 1; ACli 1 0 0;
   ACli 0 7 0; ACli 0 0 0; ACli 0 0 0; ACli 0 0 0; ACli 0 1 0; ACE 1; ACli 0 0 0; AM 0; AM 0;
   ACli 0 0 0; ACli 0 0 0; ACli 0 0 0].
Definition summary_bg (o : option state) :=
  match o with Some s => Some (wl s, ce s, mc s, tc s, cli s 0, cli s 1) | None => None end.

Example read_only_parks_compaction :
  summary_bg (run fixed init (firstn 14 trace_ro_parks)) = Some (WHeld PCE, E_per, M0, T3 XRange, Idle, TrigW BT SCrT) /\
  summary_bg (run fixed init (firstn 15 trace_ro_parks)) = Some (WHeld PCE, E_per, M0, TX, Idle, TrigW BT SCrT) /\
  summary_bg (run fixed init (firstn 17 trace_ro_parks)) = Some (WHeld PCE, E_per, M0, TDone, Idle, Idle) /\
  summary_bg (run fixed init trace_ro_parks) = Some (WClosed, E_done, MDone, TDone, Idle, Idle).
Proof. repeat split; vm_compute; reflexivity. Qed.
