(* Conc/LocksLate.v — after repair fb021ae (OpenTransaction re-checks closeC after publishing db.tr) Close never
   waits for the owner of a Transaction handle that is between calls:

     invK   once Close has read db.tr (it stands behind CL3), the open transaction -- if there is one -- is
            either the one Close read and is about to discard itself, or one whose OpenTransaction has just
            published it and is on its way to give it up (program counters OT4b, OT6, OT7, OT7d).

   With invK the strict progress theorem of LocksDeadlock.v applies in the closing phase, so the GOOD steps of
   LocksClose.v need no step of a client standing at IdleTr: the closing phase ends, without any help from the
   owners of Transaction handles, with every client at Idle or IdleTr. *)
From GL Require Import Conc.Locks Conc.LocksProofs Conc.LocksDeadlock Conc.LocksInv Conc.LocksInvBg Conc.LocksInvAll
  Conc.LocksClose.
From Coq Require Import Lia.
Local Set Warnings "-unused-intro-pattern".

Definition late_pc (pc : cpc) : bool := match pc with OT4b _ | OT6 _ | OT7 _ | OT7d _ => true | _ => false end.
(* Close has read db.tr *)
Definition crd (pc : cpc) : bool :=
  match pc with
  | CL3b | DC0 XClose | DC1 XClose | DC2 XClose | DC3 XClose | DC4 XClose | CL4 | CL5 | CL6 => true
  | _ => false
  end.
(* ... and has not yet discarded the transaction it read *)
Definition cpre (pc : cpc) : bool :=
  match pc with CL3b | DC0 XClose | DC1 XClose | DC2 XClose => true | _ => false end.

Definition invK (s : state) : Prop :=
  forall i o, crd (cli s i) = true -> trown s = Some o ->
    late_pc (cli s o) = true \/ (cpre (cli s i) = true /\ closetgt s = Some o).

Lemma invK_init : invK init.
Proof. intros i o H. discriminate. Qed.

(* ------------------------------------------------------------------ what a label does to db.tr *)

Definition tr_effect (j : nat) (l : lbl) (s s1 : state) : Prop :=
  match l with
  | LWToTr => trown s1 = Some j /\ closetgt s1 = closetgt s
  | LRelWTr => trown s1 = None
  | LReadDbTr b => trown s1 = trown s /\ closetgt s1 = trown s /\ (b = false -> trown s = None)
  | LIfTrOpen b => trown s1 = trown s /\ closetgt s1 = closetgt s /\ tr_current s j = b
  | LOpenC => trown s1 = trown s /\ closetgt s1 = closetgt s /\ closeC s = false
  | _ => trown s1 = trown s /\ closetgt s1 = closetgt s
  end.

Lemma deliver_tr : forall b ok w s, trown (deliver b ok w s) = trown s /\ closetgt (deliver b ok w s) = closetgt s.
Proof. intros. destruct (deliver_same b ok w s) as (_ & _ & _ & _ & A & B & _). auto. Qed.

Lemma lsem_tr : forall j l arg s s1, lsem fixed (PCli j) l arg s = Some s1 -> tr_effect j l s s1.
Proof.
  intros j l arg s s1 H. destruct l; simpl in H; unfold tr_effect.
  all: try (solve [ unfold guard in H;
                    repeat match type of H with context[match ?x with _ => _ end] => destruct x eqn:? end;
                    try discriminate; inversion H; subst; simpl;
                    repeat match goal with |- context[deliver ?b ?ok ?w ?s] => destruct (deliver_tr b ok w s) as [-> ->] end;
                    auto ]).
  - (* LReadDbTr *) destruct b.
    + destruct (trown s) eqn:E; [|discriminate]. inversion H; subst. simpl. repeat split; auto. intro; discriminate.
    + apply guard_some in H. destruct H as [G ->]. apply is_none_true in G. simpl. auto.
  - (* LIfTrOpen *) apply guard_some in H. destruct H as [G ->]. apply Bool.eqb_prop in G. auto.
  - (* LOpenC *) apply guard_some in H. destruct H as [G ->]. apply negb_true_iff in G. auto.
Qed.

Lemma lsem_tr_bg : forall p l arg s s1, (forall j, p <> PCli j) -> bg_lbl l = true ->
  lsem fixed p l arg s = Some s1 -> trown s1 = trown s /\ closetgt s1 = closetgt s.
Proof.
  intros p l arg s s1 NP HB H.
  destruct p as [j | | |]; [exfalso; eapply NP; eauto | | |];
    (destruct l; try discriminate HB; simpl in H; try discriminate; unfold guard in H;
     repeat match type of H with context[match ?x with _ => _ end] => destruct x eqn:? end;
     try discriminate; inversion H; subst; simpl;
     repeat match goal with |- context[deliver ?b ?ok ?w ?s] => destruct (deliver_tr b ok w s) as [-> ->] end; auto).
Qed.

(* ------------------------------------------------------------------ who else moves *)

Definition wpart (pc : cpc) : bool := match pc with W1 _ | W2 | W3 | Ret | WF _ => true | _ => false end.
Lemma wpart_plain : forall pc, wpart pc = true -> crd pc = false /\ late_pc pc = false.
Proof. destruct pc; simpl; intro; try discriminate; auto. Qed.

Lemma upd_cases : forall (f : nat -> cpc) j0 x k, (k <> j0 /\ upd f j0 x k = f k) \/ (k = j0 /\ upd f j0 x k = x).
Proof.
  intros f j0 x k. destruct (Nat.eq_dec k j0) as [-> | NE]; [right | left]; split; auto.
  - apply upd_same.
  - apply upd_other; auto.
Qed.

(* a client label moves, besides the actor, at most a partner of the merge protocol *)
Lemma effect_cli_client : forall l arg s s1, client_lbl l = true -> lbl_effect l arg s s1 ->
  forall k, cli s1 k = cli s k \/ (wpart (cli s k) = true /\ wpart (cli s1 k) = true).
Proof.
  intros l arg s s1 CL EF k.
  assert (U : forall j0 x, wpart (cli s j0) = true -> wpart x = true -> cli s1 = upd (cli s) j0 x ->
              cli s1 k = cli s k \/ (wpart (cli s k) = true /\ wpart (cli s1 k) = true)).
  { intros j0 x W1 W2 E. rewrite E. destruct (upd_cases (cli s) j0 x k) as [[_ X] | [-> X]]; rewrite X; auto. }
  destruct l; try discriminate CL; unfold lbl_effect in EF;
    try (solve [destruct EF as [E _]; rewrite E; left; reflexivity]);
    try (solve [rewrite EF; left; reflexivity]).
  - destruct EF as (j0 & HJ & E & _). apply (U j0 (WF true)); auto. rewrite HJ; reflexivity.
  - destruct EF as (HJ & E & _). apply (U arg Ret); auto. rewrite HJ; reflexivity.
  - destruct EF as (HJ & E & _). apply (U arg W2); auto. rewrite HJ; reflexivity.
  - destruct EF as (j0 & HJ & E & _). apply (U j0 W3); auto. rewrite HJ; reflexivity.
  - destruct b; destruct EF as [E _]; rewrite E; left; reflexivity.
Qed.

(* ------------------------------------------------------------------ typing of the client edges for invK *)

Definition is_rd (l : lbl) : bool := match l with LReadDbTr _ => true | _ => false end.
Definition is_rdT (l : lbl) : bool := match l with LReadDbTr true => true | _ => false end.
Definition is_wtotr (l : lbl) : bool := match l with LWToTr => true | _ => false end.
Definition is_relwtr (l : lbl) : bool := match l with LRelWTr => true | _ => false end.
Definition is_ifF (l : lbl) : bool := match l with LIfTrOpen false => true | _ => false end.
Definition is_iftr (l : lbl) : bool := match l with LIfTrOpen _ => true | _ => false end.
Definition is_openc (l : lbl) : bool := match l with LOpenC => true | _ => false end.

Definition kedge_ok (pc : cpc) (e : lbl * cpc) : bool :=
  let (l, pc') := e in
  implb (crd pc') (crd pc || is_rd l) &&
  implb (cpre pc') (cpre pc || is_rdT l) &&
  implb (cpre pc && crd pc' && negb (cpre pc')) (is_relwtr l || is_ifF l) &&
  implb (cpre pc && is_iftr l) (in_close_ctx pc) &&
  implb (late_pc pc) (late_pc pc' || is_relwtr l || is_ifF l || is_openc l) &&
  implb (is_wtotr l) (late_pc pc') &&
  implb (is_rd l) (closer_phase pc && negb (crd pc)) &&
  implb (is_rdT l) (cpre pc') &&
  implb (crd pc) (negb (is_wtotr l)).
Lemma kedges_ok : forall pc, forallb (kedge_ok pc) (cedges fixed pc) = true.
Proof. intro pc; destruct pc; dparams; reflexivity. Qed.

Lemma crd_after : forall pc, crd pc = true -> closer_after pc = true.
Proof. destruct pc; simpl; intro; try discriminate; dparams; try discriminate; reflexivity. Qed.
Lemma late_not_ctx : forall pc, late_pc pc = true -> in_close_ctx pc = false /\ crd pc = false.
Proof. destruct pc; simpl; intro; try discriminate; auto. Qed.

Lemma tr_current_self : forall s j, in_close_ctx (cli s j) = false -> trown s = Some j -> tr_current s j = true.
Proof. intros s j H E. unfold tr_current, my_tr. rewrite H, E. simpl. apply Nat.eqb_refl. Qed.
Lemma tr_current_ctx : forall s j o, in_close_ctx (cli s j) = true -> closetgt s = Some o -> trown s = Some o ->
  tr_current s j = true.
Proof. intros s j o H C E. unfold tr_current, my_tr. rewrite H, C, E. simpl. apply Nat.eqb_refl. Qed.

(* a step of client j that leaves db.tr and Close's copy of it as they are *)
Lemma invK_same : forall s s1 j pc' (bIF bOC : bool),
  inv2 s -> invK s -> trown s1 = trown s -> closetgt s1 = closetgt s ->
  (forall k, cli s1 k = cli s k \/ (wpart (cli s k) = true /\ wpart (cli s1 k) = true)) ->
  (crd pc' = true -> crd (cli s j) = true) ->
  (cpre (cli s j) = true -> crd pc' = true -> cpre pc' = true \/ (bIF = true /\ in_close_ctx (cli s j) = true)) ->
  (late_pc (cli s j) = true -> late_pc pc' = true \/ bIF = true \/ bOC = true) ->
  (bIF = true -> tr_current s j = false) -> (bOC = true -> closeC s = false) ->
  invK (set_pc s1 j pc').
Proof.
  intros s s1 j pc' bIF bOC I2 K ET EC EF T1 T2 T3 HIF HOC i o CR TO.
  simpl in CR, TO. simpl. rewrite ET in TO. rewrite EC.
  assert (LO : late_pc (cli s o) = true -> late_pc (upd (cli s1) j pc' o) = true).
  { intro LT. destruct (upd_cases (cli s1) j pc' o) as [[NE X] | [-> X]]; rewrite X.
    - destruct (EF o) as [E | [W _]]; [rewrite E; auto |]. apply wpart_plain in W. destruct W; congruence.
    - destruct (T3 LT) as [Y | [Y | Y]]; auto; exfalso.
      + destruct (late_not_ctx _ LT) as [NC _]. pose proof (tr_current_self s j NC TO). specialize (HIF Y). congruence.
      + specialize (HOC Y).
        destruct (upd_cases (cli s1) j pc' i) as [[NEi Xi] | [-> Xi]]; rewrite Xi in CR.
        * assert (Ei : cli s1 i = cli s i).
          { destruct (EF i) as [E | [_ W]]; auto. apply wpart_plain in W. destruct W; congruence. }
          rewrite Ei in CR. pose proof (l5b s I2 i (crd_after _ CR)). congruence.
        * specialize (T1 CR). destruct (late_not_ctx _ LT). congruence. }
  destruct (upd_cases (cli s1) j pc' i) as [[NEi Xi] | [-> Xi]]; rewrite Xi in *.
  - assert (Ei : cli s1 i = cli s i).
    { destruct (EF i) as [E | [_ W]]; auto. apply wpart_plain in W. destruct W; congruence. }
    rewrite Ei in *. destruct (K i o CR TO) as [LT | [CP CT]]; auto.
  - pose proof (T1 CR) as CRj. destruct (K j o CRj TO) as [LT | [CP CT]]; auto.
    destruct (T2 CP CR) as [Y | [Y IC]]; auto. exfalso.
    pose proof (tr_current_ctx s j o IC CT TO). specialize (HIF Y). congruence.
Qed.

Lemma bsplit_kedge : forall pc l pc', kedge_ok pc (l, pc') = true ->
  (crd pc' = true -> crd pc = true \/ is_rd l = true) /\
  (cpre pc' = true -> cpre pc = true \/ is_rdT l = true) /\
  (cpre pc = true -> crd pc' = true -> cpre pc' = true \/ is_relwtr l = true \/ is_ifF l = true) /\
  (cpre pc = true -> is_iftr l = true -> in_close_ctx pc = true) /\
  (late_pc pc = true -> late_pc pc' = true \/ is_relwtr l = true \/ is_ifF l = true \/ is_openc l = true) /\
  (is_wtotr l = true -> late_pc pc' = true) /\
  (is_rd l = true -> closer_phase pc = true /\ crd pc = false) /\
  (is_rdT l = true -> cpre pc' = true) /\
  (crd pc = true -> is_wtotr l = false).
Proof.
  intros pc l pc' H. unfold kedge_ok in H.
  repeat (apply andb_prop in H; let H' := fresh "C" in destruct H as [H H']).
  split; [| split; [| split; [| split; [| split; [| split; [| split; [| split]]]]]]].
  - intro X. rewrite X in H. simpl in H. apply orb_prop in H. auto.
  - intro X. rewrite X in C6. simpl in C6. apply orb_prop in C6. auto.
  - intros X Y. destruct (cpre pc') eqn:Z; auto. right.
    rewrite X, Y in C5. simpl in C5. apply orb_prop in C5. auto.
  - intros X Y. rewrite X, Y in C4. exact C4.
  - intro X. rewrite X in C3. simpl in C3.
    apply orb_prop in C3. destruct C3 as [C3 | C3]; auto.
    apply orb_prop in C3. destruct C3 as [C3 | C3]; auto.
    apply orb_prop in C3. destruct C3 as [C3 | C3]; auto.
  - intro X. rewrite X in C2. exact C2.
  - intro X. rewrite X in C1. simpl in C1. apply andb_prop in C1. destruct C1 as [A B]. apply negb_true_iff in B. auto.
  - intro X. rewrite X in C0. exact C0.
  - intro X. rewrite X in C. simpl in C. apply negb_true_iff in C. exact C.
Qed.

Lemma invK_step_cli : forall s j k arg s', inv2 s -> invK s -> step fixed s (ACli j k arg) = Some s' -> invK s'.
Proof.
  intros s j k arg s' I2 K H. simpl in H.
  destruct (nth_error (cedges fixed (cli s j)) k) as [[l pc']|] eqn:N; [|discriminate].
  pose proof (nth_forallb _ _ _ _ (kedges_ok (cli s j)) N) as EK.
  pose proof (nth_forallb _ _ _ _ (cedges1_ok (cli s j)) N) as EK1.
  destruct (lsem fixed (PCli j) l arg s) as [s1|] eqn:L; [|discriminate]. inversion H; subst s'; clear H.
  pose proof (cedge1_client _ _ _ EK1) as CL.
  pose proof (effect_cli_client l arg s s1 CL (lsem_effect _ _ _ _ _ L)) as EF.
  pose proof (lsem_tr _ _ _ _ _ L) as TR.
  destruct (bsplit_kedge _ _ _ EK) as (A1 & A2 & A3 & A4 & A5 & A6 & A7 & A8 & A9).
  assert (GEN : forall bIF bOC : bool, trown s1 = trown s -> closetgt s1 = closetgt s ->
            is_rd l = false -> is_relwtr l = false -> is_ifF l = bIF -> is_openc l = bOC ->
            (is_iftr l = false -> bIF = false) ->
            (bIF = true -> tr_current s j = false) -> (bOC = true -> closeC s = false) ->
            invK (set_pc s1 j pc')).
  { intros bIF bOC ET EC N1 N2 N3 N4 N5 HIF HOC.
    apply (invK_same s s1 j pc' bIF bOC); auto.
    - intro X. destruct (A1 X); [auto | congruence].
    - intros X Y. destruct (A3 X Y) as [Z | [Z | Z]]; auto; [congruence|].
      right. split; [congruence|]. apply A4; auto. destruct (is_iftr l) eqn:E; auto. specialize (N5 eq_refl). congruence.
    - intro X. destruct (A5 X) as [Z | [Z | [Z | Z]]]; auto; [congruence | right; left; congruence | right; right; congruence]. }
  destruct l; try discriminate CL; unfold tr_effect in TR;
    try (solve [destruct TR as [ET EC]; apply (GEN false false); auto; intros; discriminate]).
  - (* LReadDbTr *)
    destruct TR as (ET & EC & EN). destruct (A7 eq_refl) as [CP NCR].
    intros i o CR TO. simpl in CR, TO. simpl. rewrite ET in TO. rewrite EC.
    destruct b; [| rewrite (EN eq_refl) in TO; discriminate].
    destruct (upd_cases (cli s1) j pc' i) as [[NEi Xi] | [-> Xi]]; rewrite Xi in *.
    + exfalso. assert (Ei : cli s1 i = cli s i).
      { destruct (EF i) as [E | [_ W]]; auto. apply wpart_plain in W. destruct W; congruence. }
      rewrite Ei in CR. apply NEi. apply (u1 s I2); auto. apply closer_after_phase. apply crd_after. auto.
    + right. split; [apply A8; reflexivity | exact TO].
  - (* LIfTrOpen *)
    destruct TR as (ET & EC & TC). apply (GEN (negb b) false); auto; try (intros; discriminate); destruct b; simpl; auto; intros; discriminate.
  - (* LWToTr *)
    destruct TR as (ET & EC). intros i o CR TO. simpl in CR, TO. simpl. rewrite ET in TO. inversion TO; subst o.
    left. rewrite upd_same. apply A6. reflexivity.
  - (* LRelWTr *)
    intros i o CR TO. simpl in TO. rewrite TR in TO. discriminate.
  - (* LOpenC *)
    destruct TR as (ET & EC & HC). apply (GEN false true); auto; intros; discriminate.
Qed.

(* ------------------------------------------------------------------ background steps *)

Lemma ack_plain : forall ok pc, is_trigw_any pc = true ->
  crd (after_ack ok pc) = false /\ late_pc (after_ack ok pc) = false /\ crd pc = false /\ late_pc pc = false.
Proof. intros ok pc; destruct pc; intro H; try discriminate; dparams; repeat split; reflexivity. Qed.

Lemma invK_acked : forall ok s s1, invK s -> acked ok s s1 -> trown s1 = trown s -> closetgt s1 = closetgt s -> invK s1.
Proof.
  intros ok s s1 K A ET EC i o CR TO. rewrite ET in TO. rewrite EC.
  destruct A as [E | (j0 & T & E)]; rewrite E in *; [apply K; auto|].
  destruct (ack_plain ok _ T) as (P1 & P2 & P3 & P4).
  destruct (upd_cases (cli s) j0 (after_ack ok (cli s j0)) i) as [[NEi Xi] | [-> Xi]]; rewrite Xi in *; [| congruence].
  destruct (K i o CR TO) as [LT | X]; auto. left.
  destruct (upd_cases (cli s) j0 (after_ack ok (cli s j0)) o) as [[NEo Xo] | [-> Xo]]; rewrite Xo; [auto | congruence].
Qed.

Lemma effect_acked_bg : forall l arg s s1, bg_lbl l = true -> lbl_effect l arg s s1 -> exists ok, acked ok s s1.
Proof.
  intros l arg s s1 HB EF. destruct l; try discriminate HB; unfold lbl_effect in EF;
    try (solve [exists true; left; destruct EF as [E _]; exact E]);
    try (solve [exists true; left; exact EF]);
    try (solve [destruct EF as [A _]; eauto]).
  destruct b; [discriminate HB|]. exists true. left. destruct EF as [E _]; exact E.
Qed.

Lemma invK_frame : forall s s', invK s -> cli s' = cli s -> trown s' = trown s -> closetgt s' = closetgt s -> invK s'.
Proof. intros s s' K E1 E2 E3 i o. rewrite E1, E2, E3. apply K. Qed.

Lemma medge1_bg : forall pc l pc', medge1_ok pc (l, pc') = true -> bg_lbl l = true.
Proof. intros pc l pc' H. unfold medge1_ok in H. bsplit. assumption. Qed.
Lemma tedge1_bg : forall pc l pc', tedge1_ok pc (l, pc') = true -> bg_lbl l = true.
Proof. intros pc l pc' H. unfold tedge1_ok in H. bsplit. assumption. Qed.

Lemma invK_step : forall s a s', inv2 s -> invK s -> step fixed s a = Some s' -> invK s'.
Proof.
  intros s a s' I2 K H. destruct a as [j k arg | k | k | k].
  - eapply invK_step_cli; eauto.
  - simpl in H. destruct (nth_error (medges (mc s)) k) as [[l pc']|] eqn:N; [|discriminate].
    pose proof (medge1_bg _ _ _ (nth_forallb _ _ _ _ (medges1_ok (mc s)) N)) as HB.
    destruct (lsem fixed PM l 0 s) as [s1|] eqn:L; [|discriminate]. inversion H; subst s'; clear H.
    destruct (lsem_tr_bg PM l 0 s s1 ltac:(intros j X; discriminate) HB L) as [ET EC].
    destruct (effect_acked_bg _ _ _ _ HB (lsem_effect _ _ _ _ _ L)) as [ok A].
    apply (invK_frame s1); auto. eapply invK_acked; eauto.
  - simpl in H. destruct (nth_error (tedges (tc s)) k) as [[l pc']|] eqn:N; [|discriminate].
    pose proof (tedge1_bg _ _ _ (nth_forallb _ _ _ _ (tedges1_ok (tc s)) N)) as HB.
    destruct (lsem fixed PT l 0 s) as [s1|] eqn:L; [|discriminate]. inversion H; subst s'; clear H.
    destruct (lsem_tr_bg PT l 0 s s1 ltac:(intros j X; discriminate) HB L) as [ET EC].
    destruct (effect_acked_bg _ _ _ _ HB (lsem_effect _ _ _ _ _ L)) as [ok A].
    apply (invK_frame s1); auto. eapply invK_acked; eauto.
  - simpl in H. unfold step_ce, guard in H.
    repeat match type of H with context[match ?x with _ => _ end] => destruct x eqn:? end;
      try discriminate; inversion H; subst; (eapply invK_frame; [exact K | reflexivity ..]).
Qed.

Theorem invK_reachable : forall s, reachable fixed s -> invK s.
Proof.
  induction 1 as [| s a s' R IH ST]; [apply invK_init|].
  eapply invK_step; eauto using inv2_reachable.
Qed.

(* ------------------------------------------------------------------ a good step is enabled while a call is in progress *)

Lemma good_of_enabled : forall s a s', closeC s = true -> is_arrival fixed s a = false -> at_idletr s a = false ->
  step fixed s a = Some s' -> exists a' s'', good s a' = true /\ step fixed s a' = Some s''.
Proof.
  intros s a s' HC NA NI H. destruct a as [i k arg | k | k | k].
  - simpl in H, NA, NI.
    assert (GC : forall k0, good_cli (cli s i) k0 = true).
    { intro k0. destruct (cli s i); try reflexivity; discriminate. }
    destruct (has_close (cedges fixed (cli s i))) eqn:CL.
    + destruct (has_close_idx _ CL) as (k' & pc'' & N').
      exists (ACli i k' 0), (set_pc s i pc''). split.
      * simpl. rewrite (takes_close_at _ _ _ N'), GC. reflexivity.
      * simpl. rewrite N'. simpl. unfold guard. rewrite HC. reflexivity.
    + exists (ACli i k arg), s'. split; [| exact H]. simpl. rewrite (takes_close_none _ _ CL), GC. reflexivity.
  - simpl in H. destruct (has_close (medges (mc s))) eqn:CL.
    + destruct (has_close_idx _ CL) as (k' & pc'' & N').
      exists (AM k'), (set_mc s pc''). split; [simpl; eapply takes_close_at; eauto|].
      simpl. rewrite N'. simpl. unfold guard. rewrite HC. reflexivity.
    + exists (AM k), s'. split; [simpl; apply takes_close_none; auto | exact H].
  - simpl in H. destruct (has_close (tedges (tc s))) eqn:CL.
    + destruct (has_close_idx _ CL) as (k' & pc'' & N').
      exists (AT k'), (set_tc s pc''). split; [simpl; eapply takes_close_at; eauto|].
      simpl. rewrite N'. simpl. unfold guard. rewrite HC. reflexivity.
    + exists (AT k), s'. split; [simpl; apply takes_close_none; auto | exact H].
  - assert (NE : ce s <> E_done).
    { simpl in H. unfold step_ce in H. destruct k as [|[|k]]; destruct (ce s); try discriminate; intro; discriminate. }
    exists (ACE 1). simpl. unfold step_ce. destruct (ce s); try congruence; unfold guard; rewrite HC; eauto.
Qed.

(* inside a call: neither Idle nor IdleTr *)
Definition in_call (s : state) : Prop := exists i, cli s i <> Idle /\ cli s i <> IdleTr.

Theorem good_enabled : forall s, reachable fixed s -> closeC s = true -> in_call s ->
  exists a s', good s a = true /\ step fixed s a = Some s'.
Proof.
  intros s R HC P.
  destruct (progress_strict s (inv1_reachable s R) (inv2_reachable s R) HC) as (a & NA & NI & s' & ST); auto.
  - intros i o HI HO E. pose proof (invK_reachable s R i o) as K. rewrite HI in K.
    destruct (K eq_refl HO) as [LT | [CP _]]; [rewrite E in LT | ]; discriminate.
  - eapply good_of_enabled; eauto.
Qed.

(* where no good step is enabled every client is between calls: every call has returned, Close too *)
Theorem close_complete : forall s, reachable fixed s -> closeC s = true ->
  (forall a, grun s [a] = None) -> forall i, cli s i = Idle \/ cli s i = IdleTr.
Proof.
  intros s R HC ST i.
  destruct (cpc_eq_dec (cli s i) Idle) as [E | NE]; auto.
  destruct (cpc_eq_dec (cli s i) IdleTr) as [E2 | NE2]; auto. exfalso.
  destruct (good_enabled s R HC (ex_intro _ i (conj NE NE2))) as (a & s' & GD & H).
  specialize (ST a). simpl in ST. rewrite GD, H in ST. discriminate.
Qed.

(* the two together: from every reachable state in which closeC is closed, every run of good steps is finite
   (bounded by the measure) and a run that cannot be extended has returned from every call -- without any step
   of the owners of Transaction handles *)
Theorem close_terminates_core : forall s, reachable fixed s -> closeC s = true ->
  exists B, forall l s', grun s l = Some s' ->
    length l <= B /\ ((forall a, grun s' [a] = None) -> forall i, cli s' i = Idle \/ cli s' i = IdleTr).
Proof.
  intros s R HC. destruct (support_exists s R) as [N S]. exists (measure N s). intros l s' G.
  destruct (grun_keeps l N s s' R HC S G) as (A & B & C & D). split; [lia|].
  intro ST. apply close_complete; auto.
Qed.

(* Close itself: a client that is inside Close when the run stops has returned (it is Idle: Close does not
   leave a Transaction handle) *)
Lemma closer_not_idletr : forall pc, closer_phase pc = true -> pc <> IdleTr.
Proof. intros pc H E; subst; discriminate. Qed.
