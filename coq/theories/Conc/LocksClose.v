(* Conc/LocksClose.v — Close terminates: a progress measure for the closing phase of Conc/Locks.v.

   Once closeC is closed every select of the code that lists closeC can take that case.  Go chooses among the
   ready cases of a select at random, so a run in which some select keeps taking another ready case for ever
   (e.g. flush: the write-delay loop keeps sending its command to tCompaction, which keeps accepting it)
   exists in the model and in the code, with probability 0.  What is proved here is the measure-based core:

     GOOD steps  = steps that are not new calls (no edge out of Idle or IdleTr: in particular no help from the
                   owner of a Transaction handle) and in which a goroutine standing at a select that lists
                   closeC takes the closeC case (compactionError: its closeC case);
     measure     = weighted sum of the distances of all goroutines to their exits + length of tCompaction's queue.

     close_bounded   every good step of a reachable state with closeC closed decreases the measure: a run of
                     good steps from s has at most [measure N s] steps;
     (Conc/LocksLate.v, with the invariant invK that rests on repair fb021ae:)
     good_enabled    as long as some client is inside a call a good step is enabled;
     close_complete  in a reachable state with closeC closed in which no good step is enabled every client is
                     Idle or IdleTr: Close has returned, and so has every other call.

   Outside: fairness of the Go scheduler (that enabled steps are eventually taken), the random choice of select
   (that the closeC case is eventually taken), wall-clock time. *)
From GL Require Import Conc.Locks Conc.LocksProofs Conc.LocksDeadlock Conc.LocksInv Conc.LocksInvBg Conc.LocksInvAll.
From Coq Require Import Lia.

(* ------------------------------------------------------------------ distances to the exits *)

Definition rk_rot_ok (r : rsite) : nat := match r with RFlush _ => 10 | RPost _ => 3 | RCr => 3 | ROt _ => 19 end.
Definition rk_rot_err (r : rsite) : nat := match r with RFlush _ | RPost _ => 3 | RCr => 2 | ROt _ => 3 end.
Definition rk_rot2 (r : rsite) : nat := if rot_waits r then S (S (rk_rot_err r)) else S (rk_rot_ok r).
Definition rk_rot1 (r : rsite) : nat := S (Nat.max (rk_rot2 r) (S (rk_rot_err r))).
Definition rk_ok (s : tsite) : nat :=
  match s with
  | SRot0 r => rk_rot1 r | SRot2 r => rk_rot_ok r | SFlushPause _ => 11 | SOtFrozen _ => 19 | SOtWc _ => 18
  | SCmWc _ => 4 | SCrM => 2 | SCrT => 1
  end.
Definition rk_err (s : tsite) : nat :=
  match s with
  | SRot0 r | SRot2 r => rk_rot_err r | SFlushPause _ => 3 | SOtFrozen _ | SOtWc _ => 3 | SCmWc _ => 4
  | SCrM | SCrT => 1
  end.

Definition crank (pc : cpc) : nat :=
  match pc with
  | Idle => 0 | Ret => 1 | IdleTr => 0 | RetTr => 1 | G0 => 2
  | W0 _ | WB _ => 2 | LBa => 4 | W1 _ => 14 | W2 => 11 | W3 => 2
  | WF _ => 11 | WM _ => 10 | WMs _ => 12 | WJ _ => 6 | WR _ => 5 | WU _ => 3
  | TrigS _ s => S (rk_err s) | TrigW _ s => S (Nat.max (rk_ok s) (rk_err s))
  | Rot1 r => rk_rot1 r | Rot2 r => rk_rot2 r
  | OT0 _ => 3 | OT1 _ => 3 | OT2 _ => 20 | OT3 _ => 19 | OT4 _ => 18 | OT5 _ => 17 | OTE _ => 3 | OTfail _ => 2
  | OT4b _ => 7 | OT6 _ => 6 | OT7 _ => 5 | OT7d _ => 4 | OT8 _ => 3
  | LB1 => 16 | LB2 => 15 | LB3 _ => 14 | LB4 => 13 | LB5 => 10
  | CM0 _ => 12 | CM1 _ => 19 | CM2 _ => 18 | CM3 _ => 17 | CM4 _ => 16 | CM5 _ _ => 15 | CM6 _ _ => 14
  | CM6c _ => 13 | CM5f _ => 13 | CM7 _ => 8 | CM8 _ => 7 | CM8b _ => 6 | CM9 _ => 4 | CM10 _ => 3
  | CMok _ => 2 | CMFu _ => 12 | CMF _ => 11
  | DC0 _ => 9 | DC1 _ => 8 | DC2 _ => 7 | DC3 _ => 6 | DC4 _ => 5
  | TP1 => 3 | TP2 => 2 | TP3 => 1
  | CR0 => 2 | CR1 => 2 | CR2 => 4 | CR3 => 3 | CR3e => 2 | CR6 => 3
  | RO0 => 2 | RO1 => 2 | RO2 => 3 | RO3 => 2
  | CL0 => 2 | CL1 => 13 | CL2 => 12 | CL3 => 11 | CL3b => 10 | CL4 => 4 | CL5 => 3 | CL6 => 2
  end.

Definition mrank (pc : mpc) : nat :=
  match pc with
  | MDone => 0 | MX => 1 | MXu => 2 | M0 => 2 | MAck => 3 | MG => 4 | MF _ => 5 | ME _ => 6 | MDs _ _ => 7
  | MD1 _ => 8 | MD _ => 9 | MC _ => 10 | MBs _ _ => 11 | MB1 _ => 12 | MB _ => 13 | MP => 14 | M1 => 15
  end.

Definition trank (pc : tpc) : nat :=
  match pc with
  | TDone => 0 | TX => 1 | TXu => 2 | T1 | T2 | TP _ => 2 | TQ KT2 => 3 | T2a => 4 | T0 => 5
  | TBs _ _ | TB1 _ | TB _ => 2 | TDs _ _ => 3 | TD1 _ => 4 | TD _ => 3 | TC _ => 4
  | T4 => 6 | TAx KT4 => 7 | T3r => 8 | TE _ => 9 | T3 XNo => 7 | T3 XAck => 8 | T3 XRange => 9
  | TQ KT4 => 8 | T1b => 9 | TQ KT0 => 6 | TQ (KTB1 _) => 3 | TAx KT0 => 6 | TAx KT2 => 3 | TAx (KTB1 _) => 3
  end.

Definition cerank (c : epc) : nat := match c with E_done => 0 | _ => 1 end.

(* ------------------------------------------------------------------ good steps *)

Definition is_sc (l : lbl) : bool := match l with LSeeClosed => true | _ => false end.
Definition has_close {P} (es : list (lbl * P)) : bool := existsb (fun e => is_sc (fst e)) es.
(* the k-th edge may be taken by a goroutine that prefers its closeC case *)
Definition takes_close {P} (es : list (lbl * P)) (k : nat) : bool :=
  if has_close es then match nth_error es k with Some (l, _) => is_sc l | None => false end else true.

Definition good_cli (pc : cpc) (k : nat) : bool :=
  match pc with Idle | IdleTr => false | _ => true end.

Definition good (s : state) (a : action) : bool :=
  match a with
  | ACli i k _ => good_cli (cli s i) k && takes_close (cedges fixed (cli s i)) k
  | AM k => takes_close (medges (mc s)) k
  | AT k => takes_close (tedges (tc s)) k
  | ACE k => Nat.eqb k 1
  end.

(* ------------------------------------------------------------------ the edges decrease the distances *)

(* what the edge (l, pc') out of pc must satisfy when it is taken with db.closed set *)
Definition c_cond (pc : cpc) (l : lbl) (pc' : cpc) : bool :=
  match l with
  | LIfClosed false | LCasClosed true => true                  (* not enabled *)
  | LSendCmd _ _ => false                                      (* only at a select that lists closeC *)
  | LMergeRecv _ => crank pc' + crank W2 <? crank pc + crank (W1 true)
  | LMergedTrue => crank pc' + crank W3 <? crank pc + crank W2
  | LAckOne => crank pc' + crank Ret <? crank pc + crank W3
  | LGiveW => crank pc' + crank (WF true) <? crank pc + crank W2
  | _ => crank pc' <? crank pc
  end.
Definition c_ok (pc : cpc) (k : nat) (e : lbl * cpc) : bool :=
  let (l, pc') := e in
  if negb (good_cli pc k) || (has_close (cedges fixed pc) && negb (is_sc l)) then true else c_cond pc l pc'.

Fixpoint forall_idx {A} (f : nat -> A -> bool) (k : nat) (l : list A) : bool :=
  match l with [] => true | x :: l' => f k x && forall_idx f (S k) l' end.
Lemma forall_idx_nth : forall {A} (f : nat -> A -> bool) l k0 k x,
  forall_idx f k0 l = true -> nth_error l k = Some x -> f (k0 + k) x = true.
Proof.
  induction l as [| y l IH]; intros k0 k x H N; [destruct k; discriminate|].
  simpl in H. apply andb_prop in H. destruct H as [H1 H2].
  destruct k; simpl in N.
  - inversion N; subst. rewrite Nat.add_0_r. exact H1.
  - replace (k0 + S k) with (S k0 + k) by lia. eapply IH; eauto.
Qed.

Lemma cedges_close_ok : forall pc, forall_idx (c_ok pc) 0 (cedges fixed pc) = true.
Proof. intro pc; destruct pc; dparams; vm_compute; reflexivity. Qed.

Lemma after_ack_rank : forall ok pc, is_trigw_any pc = true -> crank (after_ack ok pc) < crank pc.
Proof. intros ok pc; destruct pc; intro H; try discriminate; dparams; vm_compute; lia. Qed.

Definition m_cond (pc : mpc) (l : lbl) (pc' : mpc) : bool :=
  match l with
  | LIfClosed false => true
  | LSendPause | LRecvResume => false
  | _ => mrank pc' <? mrank pc
  end.
Definition m_ok (pc : mpc) (e : lbl * mpc) : bool :=
  let (l, pc') := e in if has_close (medges pc) && negb (is_sc l) then true else m_cond pc l pc'.
Lemma medges_close_ok : forall pc, forallb (m_ok pc) (medges pc) = true.
Proof. intro pc; destruct pc; dparams; vm_compute; reflexivity. Qed.

Definition t_cond (pc : tpc) (l : lbl) (pc' : tpc) : bool :=
  match l with
  | LIfClosed false => true
  | LEnqueue => S (trank pc') <? trank pc
  | LAckQ _ => trank pc' <=? trank pc
  | _ => trank pc' <? trank pc
  end.
Definition t_ok (pc : tpc) (e : lbl * tpc) : bool :=
  let (l, pc') := e in if has_close (tedges pc) && negb (is_sc l) then true else t_cond pc l pc'.
Lemma tedges_close_ok : forall pc, forallb (t_ok pc) (tedges pc) = true.
Proof. intro pc; destruct pc; dparams; vm_compute; reflexivity. Qed.

(* ------------------------------------------------------------------ what a label does to the measured parts *)

Definition bgsame (s s1 : state) : Prop :=
  mc s1 = mc s /\ tc s1 = tc s /\ tq s1 = tq s /\ cerank (ce s1) = cerank (ce s).
Definition acked (ok : bool) (s s1 : state) : Prop :=
  cli s1 = cli s \/ exists j, is_trigw_any (cli s j) = true /\ cli s1 = upd (cli s) j (after_ack ok (cli s j)).

Lemma deliver_acked : forall b ok w s, acked ok s (deliver b ok w s).
Proof.
  intros b ok [i n] s. unfold deliver, acked.
  destruct (is_trigw b (cli s i) && Nat.eqb (ctk s i) n) eqn:E; [| left; reflexivity].
  right. exists i. apply andb_prop in E. destruct E as [E _]. split; [eapply is_trigw_any_of; eauto | reflexivity].
Qed.

Definition lbl_effect (l : lbl) (arg : nat) (s s1 : state) : Prop :=
  match l with
  | LGiveW => exists j, cli s j = W2 /\ cli s1 = upd (cli s) j (WF true) /\ bgsame s s1
  | LMergedTrue => exists j, cli s j = W2 /\ cli s1 = upd (cli s) j W3 /\ bgsame s s1
  | LAckOne => cli s arg = W3 /\ cli s1 = upd (cli s) arg Ret /\ bgsame s s1
  | LMergeRecv _ => cli s arg = W1 true /\ cli s1 = upd (cli s) arg W2 /\ bgsame s s1
  | LSendCmd _ _ | LSendPause | LRecvResume => cli s1 = cli s
  | LTrySendCmd BM => cli s1 = cli s /\ tc s1 = tc s /\ tq s1 = tq s /\ cerank (ce s1) = cerank (ce s) /\
                      (mc s1 = mc s \/ (mc s = M0 /\ mc s1 = M1))
  | LTrySendCmd BT => cli s1 = cli s /\ mc s1 = mc s /\ tq s1 = tq s /\ cerank (ce s1) = cerank (ce s) /\
                      (tc s1 = tc s \/ (t_recv_cmd (tc s) = true /\ tc s1 = T3 XNo))
  | LAck ok => acked ok s s1 /\ bgsame s s1
  | LAckQ ok => acked ok s s1 /\ mc s1 = mc s /\ tc s1 = tc s /\ cerank (ce s1) = cerank (ce s) /\
                exists w, tq s = w :: tq s1
  | LEnqueue => cli s1 = cli s /\ mc s1 = mc s /\ tc s1 = tc s /\ cerank (ce s1) = cerank (ce s) /\
                exists w, tq s1 = tq s ++ [w]
  | _ => cli s1 = cli s /\ bgsame s s1
  end.

Lemma bgsame_refl : forall s, bgsame s s.
Proof. intro s; repeat split; reflexivity. Qed.

Lemma ce_after_rank : forall e c c', ce_after e c = Some c' -> cerank c' = cerank c.
Proof. intros e c c' H; destruct c; simpl in H; try discriminate; inversion H; destruct e; reflexivity. Qed.

Lemma lsem_effect : forall p l arg s s1, lsem fixed p l arg s = Some s1 -> lbl_effect l arg s s1.
Proof.
  intros p l arg s s1 H.
  destruct l; simpl in H; unfold lbl_effect.
  all: try (solve [ destruct p; try discriminate; unfold guard in H;
                    repeat match type of H with context[match ?x with _ => _ end] => destruct x eqn:? end;
                    try discriminate; inversion H; subst;
                    (split; [reflexivity | repeat split; try reflexivity; simpl; dparams; reflexivity]) ]).
  - (* LGiveW *) destruct (pend s) as [j|]; [|discriminate]. apply guard_some in H; destruct H as [G ->].
    apply andb_prop in G. destruct G as [_ G]. apply cpc_is_W2_true in G.
    exists j. repeat split; auto.
  - (* LAckOne *) apply guard_some in H; destruct H as [G ->]. apply andb_prop in G. destruct G as [_ G].
    apply cpc_is_W3_true in G. repeat split; auto.
  - (* LMergeRecv *) apply guard_some in H; destruct H as [G ->]. apply andb_prop in G. destruct G as [G _].
    apply cpc_is_W1m_true in G. repeat split; auto.
  - (* LMergedTrue *) destruct (pend s) as [j|]; [|discriminate]. apply guard_some in H; destruct H as [G ->].
    apply cpc_is_W2_true in G. exists j. repeat split; auto.
  - (* LSendErrSet *) destruct (ce_after e (ce s)) eqn:CA; [|discriminate]. inversion H; subst.
    split; [reflexivity | repeat split; try reflexivity]. simpl. eapply ce_after_rank; eauto.
  - (* LSendErrSetRO *) destruct (ce_after ERO (ce s)) eqn:CA; [|discriminate].
    apply guard_some in H; destruct H as [G ->].
    split; [reflexivity | repeat split; try reflexivity]. simpl. eapply ce_after_rank; eauto.
  - (* LSendCmd *) destruct b; simpl in H; destruct p; try discriminate.
    + destruct (mc s); try discriminate. inversion H; subst. destruct k; reflexivity.
    + destruct (t_recv_cmd (tc s)); [|discriminate]. inversion H; subst. destruct k; reflexivity.
  - (* LTrySendCmd *) destruct b; inversion H; subst.
    + destruct (mc s) eqn:HM; repeat split; auto.
    + destruct (t_recv_cmd (tc s)) eqn:HR; repeat split; auto.
  - (* LSendPause *) destruct (t_recv_pause (tc s)); [|discriminate]. inversion H; subst. reflexivity.
  - (* LRecvResume *) destruct (tc s); try discriminate. inversion H; subst. reflexivity.
  - (* LAck *) destruct p; try discriminate.
    + inversion H; subst. destruct (mx s) as [w|]; [| split; [left; reflexivity | apply bgsame_refl]].
      destruct (deliver_same BM ok w s) as (_ & _ & _ & _ & _ & _ & _ & _ & _ & _ & D11 & _ & D13 & _ & D15 & D16).
      split; [apply (deliver_acked BM ok w s) | repeat split; simpl; congruence].
    + apply guard_some in H; destruct H as [G ->].
      destruct (tx s) as [w|]; [| split; [left; reflexivity | apply bgsame_refl]].
      destruct (deliver_same BT ok w s) as (_ & _ & _ & _ & _ & _ & _ & _ & _ & _ & D11 & _ & D13 & _ & D15 & D16).
      split; [apply (deliver_acked BT ok w s) | repeat split; simpl; congruence].
  - (* LEnqueue *) destruct (tx s) as [w|]; [|discriminate]. inversion H; subst. repeat split; auto. exists w; reflexivity.
  - (* LAckQ *) destruct (tq s) as [|w rest] eqn:HQ; [discriminate|]. inversion H; subst.
    destruct (deliver_same BT ok w s) as (_ & _ & _ & _ & _ & _ & _ & _ & _ & _ & D11 & _ & D13 & _ & D15 & D16).
    split; [apply (deliver_acked BT ok w s) | repeat split; simpl; try congruence]. exists w; reflexivity.
Qed.

(* ------------------------------------------------------------------ the measure *)

Fixpoint csum (n : nat) (f : nat -> cpc) : nat :=
  match n with 0 => 0 | S m => csum m f + crank (f m) end.

Lemma csum_upd_ge : forall n f i x, n <= i -> csum n (upd f i x) = csum n f.
Proof.
  induction n as [| n IH]; intros f i x H; simpl; [reflexivity|].
  rewrite IH by lia. rewrite upd_other by lia. reflexivity.
Qed.
Lemma csum_upd : forall n f i x, i < n -> csum n (upd f i x) + crank (f i) = csum n f + crank x.
Proof.
  induction n as [| n IH]; intros f i x H; [lia|]. simpl.
  destruct (Nat.eq_dec i n) as [-> | NE].
  - rewrite csum_upd_ge by lia. rewrite upd_same. lia.
  - rewrite upd_other by lia. pose proof (IH f i x ltac:(lia)). lia.
Qed.

(* all clients from N on are Idle *)
Definition support (N : nat) (s : state) : Prop := forall j, N <= j -> cli s j = Idle.

Lemma support_lt : forall N s j, support N s -> cli s j <> Idle -> j < N.
Proof. intros N s j S H. destruct (Nat.lt_ge_cases j N) as [X | X]; auto. elim H. apply S; auto. Qed.

Definition measure (N : nat) (s : state) : nat :=
  200 * csum N (cli s) + 10 * mrank (mc s) + trank (tc s) + length (tq s) + cerank (ce s).

Lemma measure_set_pc : forall N s1 i pc', measure N (set_pc s1 i pc') =
  200 * csum N (upd (cli s1) i pc') + 10 * mrank (mc s1) + trank (tc s1) + length (tq s1) + cerank (ce s1).
Proof. reflexivity. Qed.
Lemma measure_set_mc : forall N s1 pc', measure N (set_mc s1 pc') =
  200 * csum N (cli s1) + 10 * mrank pc' + trank (tc s1) + length (tq s1) + cerank (ce s1).
Proof. reflexivity. Qed.
Lemma measure_set_tc : forall N s1 pc', measure N (set_tc s1 pc') =
  200 * csum N (cli s1) + 10 * mrank (mc s1) + trank pc' + length (tq s1) + cerank (ce s1).
Proof. reflexivity. Qed.
Lemma measure_unfold : forall N s, measure N s =
  200 * csum N (cli s) + 10 * mrank (mc s) + trank (tc s) + length (tq s) + cerank (ce s).
Proof. reflexivity. Qed.

Lemma takes_close_cond : forall {P} (es : list (lbl * P)) k l pc',
  takes_close es k = true -> nth_error es k = Some (l, pc') -> has_close es && negb (is_sc l) = false.
Proof.
  intros P es k l pc' T N. unfold takes_close in T. rewrite N in T.
  destruct (has_close es); [rewrite T; reflexivity | reflexivity].
Qed.

Lemma acked_csum : forall N ok s s1, support N s -> acked ok s s1 -> csum N (cli s1) <= csum N (cli s).
Proof.
  intros N ok s s1 S [E | [j [T E]]]; rewrite E; [lia|].
  assert (J : j < N) by (apply (support_lt N s); auto; intro X; rewrite X in T; discriminate).
  pose proof (csum_upd N (cli s) j (after_ack ok (cli s j)) J). pose proof (after_ack_rank ok _ T). lia.
Qed.

Lemma recv_cmd_rank : forall t, t_recv_cmd t = true -> trank t = 2.
Proof. destruct t; simpl; intro; try discriminate; reflexivity. Qed.

(* ------------------------------------------------------------------ every good step decreases the measure *)

Lemma m_decreases : forall N s k s', closed s = true -> support N s ->
  good s (AM k) = true -> step fixed s (AM k) = Some s' -> measure N s' < measure N s.
Proof.
  intros N s k s' HD S GD H. simpl in H, GD.
  destruct (nth_error (medges (mc s)) k) as [[l pc']|] eqn:NE; [|discriminate].
  pose proof (nth_forallb _ _ _ _ (medges_close_ok (mc s)) NE) as CK.
  pose proof (nth_forallb _ _ _ _ (medges2_ok (mc s)) NE) as EK.
  destruct (lsem fixed PM l 0 s) as [s1|] eqn:L; [|discriminate]. inversion H; subst s'; clear H.
  unfold m_ok in CK. rewrite (takes_close_cond _ _ _ _ GD NE) in CK.
  assert (ML : m_lbl l = true) by (unfold medge2_ok in EK; bsplit; assumption).
  pose proof (lsem_effect _ _ _ _ _ L) as EF.
  destruct l; try discriminate ML; try discriminate CK; unfold lbl_effect in EF; unfold m_cond in CK.
  all: try (apply Nat.ltb_lt in CK; destruct EF as (E1 & E2 & E3 & E4 & E5); rewrite measure_set_mc, (measure_unfold N s);
            rewrite E1, E3, E4, E5; lia).
  - (* LIfClosed *) destruct b.
    + apply Nat.ltb_lt in CK; destruct EF as (E1 & E2 & E3 & E4 & E5); rewrite measure_set_mc, (measure_unfold N s);
        rewrite E1, E3, E4, E5; lia.
    + simpl in L. apply guard_some in L. destruct L as [G _]. rewrite HD in G. discriminate.
  - (* LTrySendCmd *) destruct b; [discriminate ML|].
    apply Nat.ltb_lt in CK. destruct EF as (E1 & E2 & E3 & E4 & [E5 | [E5 E6]]); rewrite measure_set_mc, (measure_unfold N s);
      rewrite E1, E3, E4, ?E5, ?E6; [lia|]. rewrite (recv_cmd_rank _ E5). simpl. lia.
  - (* LAck *)
    apply Nat.ltb_lt in CK. destruct EF as (A & E2 & E3 & E4 & E5). pose proof (acked_csum N ok s s1 S A).
    rewrite measure_set_mc, (measure_unfold N s); rewrite E3, E4, E5; lia.
Qed.

Lemma t_decreases : forall N s k s', closed s = true -> support N s ->
  good s (AT k) = true -> step fixed s (AT k) = Some s' -> measure N s' < measure N s.
Proof.
  intros N s k s' HD S GD H. simpl in H, GD.
  destruct (nth_error (tedges (tc s)) k) as [[l pc']|] eqn:NE; [|discriminate].
  pose proof (nth_forallb _ _ _ _ (tedges_close_ok (tc s)) NE) as CK.
  pose proof (nth_forallb _ _ _ _ (tedges2_ok (tc s)) NE) as EK.
  destruct (lsem fixed PT l 0 s) as [s1|] eqn:L; [|discriminate]. inversion H; subst s'; clear H.
  unfold t_ok in CK. rewrite (takes_close_cond _ _ _ _ GD NE) in CK.
  assert (TL : t_lbl l = true) by (unfold tedge2_ok in EK; bsplit; assumption).
  pose proof (lsem_effect _ _ _ _ _ L) as EF.
  destruct l; try discriminate TL; unfold lbl_effect in EF; unfold t_cond in CK.
  all: try (apply Nat.ltb_lt in CK; destruct EF as (E1 & E2 & E3 & E4 & E5); rewrite measure_set_tc, (measure_unfold N s);
            rewrite E1, E2, E4, E5; lia).
  - (* LIfClosed *) destruct b.
    + apply Nat.ltb_lt in CK; destruct EF as (E1 & E2 & E3 & E4 & E5); rewrite measure_set_tc, (measure_unfold N s);
        rewrite E1, E2, E4, E5; lia.
    + simpl in L. apply guard_some in L. destruct L as [G _]. rewrite HD in G. discriminate.
  - (* LAck *)
    apply Nat.ltb_lt in CK. destruct EF as (A & E2 & E3 & E4 & E5). pose proof (acked_csum N ok s s1 S A).
    rewrite measure_set_tc, (measure_unfold N s); rewrite E2, E4, E5; lia.
  - (* LEnqueue *)
    apply Nat.ltb_lt in CK. destruct EF as (E1 & E2 & E3 & E4 & [w E5]). rewrite measure_set_tc, (measure_unfold N s).
    rewrite E1, E2, E4, E5, app_length. simpl. lia.
  - (* LAckQ *)
    apply Nat.leb_le in CK. destruct EF as (A & E2 & E3 & E4 & [w E5]). pose proof (acked_csum N ok s s1 S A).
    rewrite measure_set_tc, (measure_unfold N s). rewrite E2, E4, E5. simpl. lia.
Qed.

Lemma ce_decreases : forall N s k s', closeC s = true ->
  good s (ACE k) = true -> step fixed s (ACE k) = Some s' -> measure N s' < measure N s.
Proof.
  intros N s k s' HC GD H. simpl in H, GD. apply Nat.eqb_eq in GD. subst k. unfold step_ce in H.
  assert (G : ce s <> E_done /\ s' = set_ce (if (match ce s with E_per => true | _ => false end) && locking s
                       then set_locking (set_wl s WFree) false else s) E_done).
  { destruct (ce s); try discriminate; apply guard_some in H; destruct H; split; auto; discriminate. }
  destruct G as [NE ->].
  assert (R : cerank (ce s) = 1) by (destruct (ce s); try reflexivity; congruence).
  unfold measure. destruct ((match ce s with E_per => true | _ => false end) && locking s); simpl; rewrite R; lia.
Qed.

Lemma csum_upd2 : forall N f i j x y, i < N -> j < N -> i <> j ->
  csum N (upd (upd f j y) i x) + crank (f i) + crank (f j) = csum N f + crank x + crank y.
Proof.
  intros N f i j x y Hi Hj NE.
  pose proof (csum_upd N (upd f j y) i x Hi) as A. rewrite upd_other in A by auto.
  pose proof (csum_upd N f j y Hj) as B. lia.
Qed.

(* the partner of a rendezvous is another client: the actor's own program counter has an outgoing edge with
   that label, the partner's (W1 / W2 / W3) has not *)
Lemma partner_ne : forall s i j k l pc', nth_error (cedges fixed (cli s i)) k = Some (l, pc') ->
  (cli s j = W1 true \/ cli s j = W2 \/ cli s j = W3) ->
  match l with LMergeRecv _ | LMergedTrue | LAckOne | LGiveW => True | _ => False end -> i <> j.
Proof.
  intros s i j k l pc' NE HJ HL E. subst j.
  destruct HJ as [X | [X | X]]; rewrite X in NE;
    repeat (destruct k as [|k]; simpl in NE; try discriminate); inversion NE; subst; contradiction.
Qed.

Lemma c_decreases : forall N s i k arg s', closed s = true -> support N s ->
  good s (ACli i k arg) = true -> step fixed s (ACli i k arg) = Some s' -> measure N s' < measure N s.
Proof.
  intros N s i k arg s' HD S GD H. simpl in H, GD. apply andb_prop in GD. destruct GD as [GC GD].
  destruct (nth_error (cedges fixed (cli s i)) k) as [[l pc']|] eqn:NE; [|discriminate].
  pose proof (forall_idx_nth _ _ 0 k _ (cedges_close_ok (cli s i)) NE) as CK. simpl in CK.
  pose proof (nth_forallb _ _ _ _ (cedges1_ok (cli s i)) NE) as EK.
  destruct (lsem fixed (PCli i) l arg s) as [s1|] eqn:L; [|discriminate]. inversion H; subst s'; clear H.
  unfold c_ok in CK. rewrite GC, (takes_close_cond _ _ _ _ GD NE) in CK. simpl in CK.
  assert (CL : client_lbl l = true) by (eapply cedge1_client; eauto).
  assert (IN : i < N).
  { apply (support_lt N s); auto. intro X. rewrite X in GC. discriminate. }
  pose proof (lsem_effect _ _ _ _ _ L) as EF.
  pose proof (partner_ne s i) as PN.
  destruct l; try discriminate CL; try discriminate CK; unfold lbl_effect in EF; unfold c_cond in CK.
  all: try (apply Nat.ltb_lt in CK; destruct EF as (E1 & E2 & E3 & E4 & E5); rewrite measure_set_pc, (measure_unfold N s);
            rewrite E1, E2, E3, E4, E5; pose proof (csum_upd N (cli s) i pc' IN); lia).
  - (* LIfClosed *) destruct b.
    + apply Nat.ltb_lt in CK; destruct EF as (E1 & E2 & E3 & E4 & E5); rewrite measure_set_pc, (measure_unfold N s);
        rewrite E1, E2, E3, E4, E5; pose proof (csum_upd N (cli s) i pc' IN); lia.
    + simpl in L. apply guard_some in L. destruct L as [G _]. rewrite HD in G. discriminate.
  - (* LCasClosed *) destruct b.
    + simpl in L. apply guard_some in L. destruct L as [G _]. rewrite HD in G. discriminate.
    + apply Nat.ltb_lt in CK; destruct EF as (E1 & E2 & E3 & E4 & E5); rewrite measure_set_pc, (measure_unfold N s);
        rewrite E1, E2, E3, E4, E5; pose proof (csum_upd N (cli s) i pc' IN); lia.
  - (* LGiveW *)
    apply Nat.ltb_lt in CK. destruct EF as (j & HJ & E1 & E2 & E3 & E4 & E5).
    assert (NJ : i <> j) by (eapply PN; eauto; exact Logic.I).
    assert (JN : j < N) by (apply (support_lt N s); auto; rewrite HJ; discriminate).
    rewrite measure_set_pc, (measure_unfold N s). rewrite E1, E2, E3, E4, E5.
    pose proof (csum_upd2 N (cli s) i j pc' (WF true) IN JN NJ) as A. rewrite HJ in A. simpl in A, CK. lia.
  - (* LAckOne *)
    apply Nat.ltb_lt in CK. destruct EF as (HJ & E1 & E2 & E3 & E4 & E5).
    assert (NJ : i <> arg) by (eapply PN; eauto; exact Logic.I).
    assert (JN : arg < N) by (apply (support_lt N s); auto; rewrite HJ; discriminate).
    rewrite measure_set_pc, (measure_unfold N s). rewrite E1, E2, E3, E4, E5.
    pose proof (csum_upd2 N (cli s) i arg pc' Ret IN JN NJ) as A. rewrite HJ in A. simpl in A, CK. lia.
  - (* LMergeRecv *)
    apply Nat.ltb_lt in CK. destruct EF as (HJ & E1 & E2 & E3 & E4 & E5).
    assert (NJ : i <> arg) by (eapply PN; eauto; exact Logic.I).
    assert (JN : arg < N) by (apply (support_lt N s); auto; rewrite HJ; discriminate).
    rewrite measure_set_pc, (measure_unfold N s). rewrite E1, E2, E3, E4, E5.
    pose proof (csum_upd2 N (cli s) i arg pc' W2 IN JN NJ) as A. rewrite HJ in A. simpl in A, CK. lia.
  - (* LMergedTrue *)
    apply Nat.ltb_lt in CK. destruct EF as (j & HJ & E1 & E2 & E3 & E4 & E5).
    assert (NJ : i <> j) by (eapply PN; eauto; exact Logic.I).
    assert (JN : j < N) by (apply (support_lt N s); auto; rewrite HJ; discriminate).
    rewrite measure_set_pc, (measure_unfold N s). rewrite E1, E2, E3, E4, E5.
    pose proof (csum_upd2 N (cli s) i j pc' W3 IN JN NJ) as A. rewrite HJ in A. simpl in A, CK. lia.
  - (* LTrySendCmd *)
    apply Nat.ltb_lt in CK. pose proof (csum_upd N (cli s) i pc' IN) as A. destruct b.
    + destruct EF as (E1 & E2 & E3 & E4 & [E5 | [E5 E6]]); rewrite measure_set_pc, (measure_unfold N s);
        rewrite E1, E2, E3, E4, ?E5, ?E6; simpl; lia.
    + destruct EF as (E1 & E2 & E3 & E4 & [E5 | [E5 E6]]); rewrite measure_set_pc, (measure_unfold N s);
        rewrite E1, E2, E3, E4, ?E5, ?E6; [lia|]. rewrite (recv_cmd_rank _ E5). simpl. lia.
Qed.

Theorem good_step_decreases : forall N s a s', inv2 s -> closeC s = true -> support N s ->
  good s a = true -> step fixed s a = Some s' -> measure N s' < measure N s.
Proof.
  intros N s a s' I2 HC S GD H. pose proof (g1 s I2 HC) as HD. destruct a.
  - eapply c_decreases; eauto.
  - eapply m_decreases; eauto.
  - eapply t_decreases; eauto.
  - eapply ce_decreases; eauto.
Qed.

(* ------------------------------------------------------------------ support, closeC, runs *)

Local Set Warnings "-unused-intro-pattern".
Lemma effect_idle : forall l arg s s1, lbl_effect l arg s s1 -> forall j, cli s j = Idle -> cli s1 j = Idle.
Proof.
  intros l arg s s1 EF j HJ.
  assert (U : forall j0 x, cli s j0 <> Idle -> upd (cli s) j0 x j = Idle).
  { intros j0 x NI. unfold upd. destruct (Nat.eqb j j0) eqn:E; auto. apply Nat.eqb_eq in E; subst. congruence. }
  assert (A : forall ok, acked ok s s1 -> cli s1 j = Idle).
  { intros ok [E | [j0 [T E]]]; rewrite E; auto. apply U. intro X. rewrite X in T. discriminate. }
  destruct l; unfold lbl_effect in EF;
    try (solve [destruct EF as [E _]; rewrite E; exact HJ]);
    try (rewrite EF; exact HJ);
    try (solve [destruct EF as [X _]; eapply A; eauto]).
  - destruct EF as (j0 & HJ0 & E & _). rewrite E. apply U. rewrite HJ0. discriminate.
  - destruct EF as (HJ0 & E & _). rewrite E. apply U. rewrite HJ0. discriminate.
  - destruct EF as (HJ0 & E & _). rewrite E. apply U. rewrite HJ0. discriminate.
  - destruct EF as (j0 & HJ0 & E & _). rewrite E. apply U. rewrite HJ0. discriminate.
  - destruct b; destruct EF as [E _]; rewrite E; exact HJ.
Qed.

Lemma step_idle : forall s a s' j, step fixed s a = Some s' -> cli s j = Idle ->
  cli s' j = Idle \/ (exists k arg, a = ACli j k arg).
Proof.
  intros s a s' j H HJ. destruct a; simpl in H.
  - destruct (nth_error (cedges fixed (cli s i)) k) as [[l pc']|]; try discriminate.
    destruct (lsem fixed (PCli i) l arg s) eqn:E; try discriminate. inversion H; subst. simpl.
    destruct (Nat.eq_dec j i) as [-> | NE]; [right; eauto | left].
    rewrite upd_other by auto. eapply effect_idle; eauto using lsem_effect.
  - destruct (nth_error (medges (mc s)) k) as [[l pc']|]; try discriminate.
    destruct (lsem fixed PM l 0 s) eqn:E; try discriminate. inversion H; subst. simpl. left.
    eapply effect_idle; eauto using lsem_effect.
  - destruct (nth_error (tedges (tc s)) k) as [[l pc']|]; try discriminate.
    destruct (lsem fixed PT l 0 s) eqn:E; try discriminate. inversion H; subst. simpl. left.
    eapply effect_idle; eauto using lsem_effect.
  - left. unfold step_ce, guard in H.
    repeat match type of H with context[match ?x with _ => _ end] => destruct x eqn:? end;
      try discriminate; inversion H; subst; simpl; auto.
Qed.

(* a good step is not a new call: the clients that are Idle stay Idle *)
Lemma good_support : forall N s a s', support N s -> good s a = true -> step fixed s a = Some s' -> support N s'.
Proof.
  intros N s a s' S GD H j HJ. destruct (step_idle s a s' j H (S j HJ)) as [X | (k & arg & ->)]; auto.
  simpl in GD. rewrite (S j HJ) in GD. discriminate.
Qed.

Lemma support_mono : forall N M s, support N s -> N <= M -> support M s.
Proof. intros N M s S LE j HJ. apply S. lia. Qed.

Theorem support_exists : forall s, reachable fixed s -> exists N, support N s.
Proof.
  induction 1 as [| s a s' R [N S] ST].
  - exists 0. intros j _. reflexivity.
  - destruct a as [i k arg | k | k | k].
    + exists (Nat.max N (Datatypes.S i)). intros j HJ.
      destruct (step_idle s _ s' j ST (S j ltac:(lia))) as [X | (k0 & arg0 & E)]; auto. inversion E; lia.
    + exists N. intros j HJ. destruct (step_idle s _ s' j ST (S j HJ)) as [X | (k0 & arg0 & E)]; auto; discriminate.
    + exists N. intros j HJ. destruct (step_idle s _ s' j ST (S j HJ)) as [X | (k0 & arg0 & E)]; auto; discriminate.
    + exists N. intros j HJ. destruct (step_idle s _ s' j ST (S j HJ)) as [X | (k0 & arg0 & E)]; auto; discriminate.
Qed.

Lemma deliver_closeC : forall b ok w s, closeC (deliver b ok w s) = closeC s.
Proof. intros. apply (deliver_same b ok w s). Qed.

Lemma lsem_closeC : forall p l arg s s1, lsem fixed p l arg s = Some s1 -> closeC s = true -> closeC s1 = true.
Proof.
  intros p l arg s s1 H W. destruct l; simpl in H; unfold guard in H;
    repeat match type of H with context[match ?x with _ => _ end] => destruct x eqn:? end;
    try discriminate; inversion H; subst; simpl; rewrite ?deliver_closeC; auto.
Qed.

Lemma step_closeC : forall s a s', step fixed s a = Some s' -> closeC s = true -> closeC s' = true.
Proof.
  intros s a s' H W. destruct a; simpl in H.
  - destruct (nth_error (cedges fixed (cli s i)) k) as [[l pc']|]; try discriminate.
    destruct (lsem fixed (PCli i) l arg s) eqn:E; try discriminate. inversion H; subst. simpl. eapply lsem_closeC; eauto.
  - destruct (nth_error (medges (mc s)) k) as [[l pc']|]; try discriminate.
    destruct (lsem fixed PM l 0 s) eqn:E; try discriminate. inversion H; subst. simpl. eapply lsem_closeC; eauto.
  - destruct (nth_error (tedges (tc s)) k) as [[l pc']|]; try discriminate.
    destruct (lsem fixed PT l 0 s) eqn:E; try discriminate. inversion H; subst. simpl. eapply lsem_closeC; eauto.
  - unfold step_ce, guard in H.
    repeat match type of H with context[match ?x with _ => _ end] => destruct x eqn:? end;
      try discriminate; inversion H; subst; simpl; auto.
Qed.

Lemma run_reachable : forall l s s', reachable fixed s -> run fixed s l = Some s' -> reachable fixed s'.
Proof.
  induction l as [| a l IH]; intros s s' R H; simpl in H; [inversion H; subst; auto|].
  destruct (step fixed s a) as [s1|] eqn:E; [|discriminate]. apply (IH s1 s'); auto. eapply reach_step; eauto.
Qed.

(* a run all of whose steps are good *)
Fixpoint grun (s : state) (l : list action) : option state :=
  match l with
  | [] => Some s
  | a :: l' => if good s a then match step fixed s a with Some s' => grun s' l' | None => None end else None
  end.

Lemma grun_keeps : forall l N s s', reachable fixed s -> closeC s = true -> support N s -> grun s l = Some s' ->
  reachable fixed s' /\ closeC s' = true /\ support N s' /\ length l + measure N s' <= measure N s.
Proof.
  induction l as [| a l IH]; intros N s s' R HC S H; simpl in H.
  - inversion H; subst. repeat split; auto.
  - destruct (good s a) eqn:GD; [|discriminate]. destruct (step fixed s a) as [s1|] eqn:ST; [|discriminate].
    pose proof (good_step_decreases N s a s1 (inv2_reachable s R) HC S GD ST) as D.
    destruct (IH N s1 s' (reach_step fixed s a s1 R ST) (step_closeC _ _ _ ST HC) (good_support _ _ _ _ S GD ST) H)
      as (A & B & C & E).
    repeat split; auto. simpl. lia.
Qed.

(* every run of good steps from a reachable state with closeC closed is bounded by the measure *)
Theorem close_bounded : forall l N s s', reachable fixed s -> closeC s = true -> support N s ->
  grun s l = Some s' -> length l + measure N s' <= measure N s.
Proof. intros. eapply grun_keeps; eauto. Qed.

(* ------------------------------------------------------------------ a good step is enabled while a call is pending *)

Lemma is_sc_true : forall l, is_sc l = true -> l = LSeeClosed.
Proof. destruct l; simpl; intro; try discriminate; reflexivity. Qed.

Lemma has_close_idx : forall {P} (es : list (lbl * P)), has_close es = true ->
  exists k pc', nth_error es k = Some (LSeeClosed, pc').
Proof.
  induction es as [| [l pc] es IH]; simpl; intro H; [discriminate|].
  apply orb_prop in H. destruct H as [H | H].
  - apply is_sc_true in H. subst. exists 0, pc. reflexivity.
  - destruct (IH H) as (k & pc' & N). exists (S k), pc'. exact N.
Qed.

Lemma takes_close_at : forall {P} (es : list (lbl * P)) k pc', nth_error es k = Some (LSeeClosed, pc') ->
  takes_close es k = true.
Proof. intros P es k pc' N. unfold takes_close. rewrite N. destruct (has_close es); reflexivity. Qed.
Lemma takes_close_none : forall {P} (es : list (lbl * P)) k, has_close es = false -> takes_close es k = true.
Proof. intros P es k H. unfold takes_close. rewrite H. reflexivity. Qed.

(* ------------------------------------------------------------------ the code before repair fb021ae

   OpenTransaction (client 0) passes the closed test and takes the write lock; Close (client 1) sets closed, closes
   closeC and reads db.tr == nil; OpenTransaction publishes db.tr and -- old code -- returns the transaction: Close
   waits for the write lock, which belongs to a transaction on a closed DB, until its owner discards it.  On the
   same schedule the repaired code stands in front of tr.lk.Lock() of its own clean-up (closeC was closed), and
   nine good steps later both calls have returned. *)
Definition trace_D9 : list action :=
  [ACli 0 4 0; ACli 0 1 0; ACli 0 0 0; ACli 1 7 0; ACli 1 0 0; ACli 1 0 0; ACli 1 0 0; ACli 1 1 0;
   ACli 0 2 0; ACli 0 1 0; ACli 0 0 0; ACli 0 0 0; AM 0; AM 0; AT 0; AT 0; AT 1; ACE 1].
Definition trace_D9_rest : list action :=
  [ACli 0 0 0; ACli 0 0 0; ACli 0 0 0; ACli 0 0 0; ACli 0 0 0; ACli 1 0 0; ACli 1 0 0; ACli 1 0 0; ACli 1 0 0].
Definition summary9 (v : variant) (o : option state) :=
  match o with
  | Some s => Some (cli s 0, cli s 1, wl s, trown s, mc s, tc s, ce s,
                    match step v s (ACli 1 0 0) with Some _ => true | None => false end)
  | None => None
  end.
Example late_transaction_refuted :
  summary9 unfixed_D9 (run unfixed_D9 init trace_D9) = Some (IdleTr, CL4, WTr, Some 0, MDone, TDone, E_done, false) /\
  summary9 fixed (run fixed init trace_D9) = Some (OT6 XUser, CL4, WTr, Some 0, MDone, TDone, E_done, false) /\
  match run fixed init trace_D9 with
  | Some s => match grun s trace_D9_rest with Some s' => Some (cli s' 0, cli s' 1, wl s', trown s') | None => None end
  | None => None
  end = Some (Idle, Idle, WClosed, None).
Proof. repeat split; vm_compute; reflexivity. Qed.
