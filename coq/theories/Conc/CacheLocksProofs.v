(* Conc/CacheLocksProofs.v — the lock layer of Conc/CacheLocks.v: it refines the interleaved semantics (so the
   safety invariants of Conc/CacheLtsClose.v hold for both protocols); the one-lock protocol deadlocks
   (known finding cache-close-rlock-reentry: the witness schedule, and the two goroutines stay blocked whatever
   the others do); in the two-lock protocol no goroutine inside an operation is ever blocked, and a Close
   that holds opMu can always finish: every wait is for a goroutine that can move. *)
From GL Require Import Conc.Cache Conc.CacheLemmas Conc.CacheInv Conc.CacheProofs Conc.CacheTheorems.
From GL Require Import Conc.CacheLts Conc.CacheLtsProofs Conc.CacheLtsInv Conc.CacheLtsClose Conc.CacheLocks.
From Coq Require Import Lia.

(* ------------------------------------------------------------------ refinement of the LTS *)

Lemma lift_some w r K' : lift w r = Some K' -> exists L', r = Some L' /\ K' = mkK L' w.
Proof. destruct r; simpl; intro E; [injection E as <-; eauto|discriminate]. Qed.

Lemma kstep_proj two K a K' : kstep two K a = Some K' ->
  match a with
  | KAct a' => lstep (k_L K) a' = Some (k_L K')
  | _ => k_L K' = k_L K
  end.
Proof.
  destruct a as [t|t|[t o|t]]; cbn [kstep]; intro E.
  - destruct (t_code (get_thr t (l_thr (k_L K)))); [|discriminate]. destruct (k_w K); [discriminate|].
    injection E as <-. reflexivity.
  - destruct (k_w K) as [[x [|]]|]; try discriminate.
    destruct (two && (x =? t) && negb (rlocked_other t (l_thr (k_L K)))); [|discriminate]. injection E as <-. reflexivity.
  - destruct o;
      try (destruct (is_writer t (k_w K)); [discriminate|];
           match type of E with (if ?c then _ else _) = _ => destruct c; [discriminate|] end;
           apply lift_some in E; destruct E as (L' & El & ->); exact El).
    destruct (k_w K) as [[x acq]|]; [|discriminate].
    match type of E with (if ?c then _ else _) = _ => destruct c; [|discriminate] end.
    apply lift_some in E. destruct E as (L' & El & ->). exact El.
  - destruct (t_code (get_thr t (l_thr (k_L K)))) as [|i k] eqn:Ec; [discriminate|].
    match type of E with (if ?c then _ else _) = _ => destruct c; [discriminate|] end.
    apply lift_some in E. destruct E as (L' & El & ->). exact El.
Qed.

Lemma kreach_lreach two K : kreach two K -> lreach (k_L K).
Proof.
  induction 1; [apply lr_init|]. pose proof (kstep_proj _ _ _ _ H0) as P. destruct a; try (rewrite P; assumption).
  eapply lr_step; eauto.
Qed.

Lemma kreach_c_lreach_c two K : kreach_c two K -> lreach_c (k_L K).
Proof.
  induction 1; [apply lc_init|]. pose proof (kstep_proj _ _ _ _ H1) as P. destruct a; try (rewrite P; assumption).
  eapply lc_step; eauto. unfold lstep_c. cbn [k_force] in H0. rewrite H0. exact P.
Qed.

(* the safety statements of the interleaved semantics, for the reachable states of the repaired protocol *)
Lemma one_live_value_k : forall K, kreach_c true K ->
  forall h1 h2 n1 n2, handle_node (l_g (k_L K)) h1 = Some n1 -> handle_node (l_g (k_L K)) h2 = Some n2 -> keyof n1 = keyof n2 ->
    n1 = n2 /\
    exists v, handle_value (l_g (k_L K)) h1 = Some v /\ handle_value (l_g (k_L K)) h2 = Some v /\
              ccn (n_id n1) (s_log (l_g (k_L K))) = 1%nat /\ ccv v (s_log (l_g (k_L K))) = 1%nat /\ cf v (s_log (l_g (k_L K))) = 0%nat.
Proof. intros K H. apply one_live_value_ltc. eapply kreach_c_lreach_c; eauto. Qed.

Lemma finalise_once_not_early_k : forall K, kreach_c true K ->
  (forall v, (cf v (s_log (l_g (k_L K))) <= 1)%nat) /\
  (forall x v sz, In (EvConstruct x v sz) (s_log (l_g (k_L K))) -> (1 <= cf v (s_log (l_g (k_L K))))%nat ->
     handles_on x (s_handles (l_g (k_L K))) = 0%nat) /\
  (forall x v sz, In (EvConstruct x v sz) (s_log (l_g (k_L K))) ->
     cf v (s_log (l_g (k_L K))) = 1%nat \/
     (cf v (s_log (l_g (k_L K))) = 0%nat /\ exists n, In n (s_nodes (l_g (k_L K))) /\ n_id n = x /\ n_val n = Some v)).
Proof.
  intros K H. pose proof (kreach_c_lreach_c _ _ H) as HL. split; [|split].
  - apply finalise_at_most_once_ltc; auto.
  - apply finalise_not_early_ltc; auto.
  - apply finalise_or_live_ltc; auto.
Qed.

Lemma delfunc_once_not_early_k : forall K, kreach_c true K ->
  (forall d, (cdr d (s_log (l_g (k_L K))) <= 1)%nat) /\
  (forall d x, In (EvDelReg d x) (s_log (l_g (k_L K))) -> (1 <= cdr d (s_log (l_g (k_L K))))%nat ->
     handles_on x (s_handles (l_g (k_L K))) = 0%nat) /\
  (forall d, d < s_next_did (l_g (k_L K)) ->
     cdr d (s_log (l_g (k_L K))) = 1%nat \/
     (cdr d (s_log (l_g (k_L K))) = 0%nat /\ exists n, In n (s_nodes (l_g (k_L K))) /\ In d (n_dels n))).
Proof.
  intros K H. pose proof (kreach_c_lreach_c _ _ H) as HL. split; [|split].
  - apply delfunc_at_most_once_ltc; auto.
  - apply delfunc_not_early_ltc; auto.
  - apply delfunc_ran_or_pending_ltc; auto.
Qed.

Lemma capacity_census_k : forall K, kreach_c true K ->
  s_used (l_g (k_L K)) = used_sum (s_nodes (l_g (k_L K))) /\ (s_used (l_g (k_L K)) <= Z.of_N (s_cap (l_g (k_L K))))%Z /\
  s_panic (l_g (k_L K)) = false /\
  forall n, In n (s_nodes (l_g (k_L K))) ->
    n_ref n = (Z.of_nat (handles_on (n_id n) (s_handles (l_g (k_L K)))) + (if resident n then 1 else 0)
               + pend_ref (n_id n) (l_thr (k_L K)))%Z /\ (0 <= n_ref n)%Z.
Proof.
  intros K H. pose proof (kreach_c_lreach_c _ _ H) as HL.
  destruct (capacity_respected_ltc _ HL). repeat split; auto.
  - apply no_panic_ltc; auto.
  - apply (ref_census_ltc _ HL n H2).
  - apply (ref_census_ltc _ HL n H2).
Qed.

(* ------------------------------------------------------------------ threads *)

Lemma get_thr_set_neq t t' th l : t <> t' -> get_thr t' (set_thr t th l) = get_thr t' l.
Proof.
  intro Hne. unfold get_thr, set_thr. cbn [find fst]. destruct (N.eqb_spec t t'); [contradiction|].
  induction l as [|p l IH]; cbn [filter find]; auto.
  destruct (N.eqb_spec (fst p) t); cbn [negb].
  - destruct (N.eqb_spec (fst p) t'); [congruence|]. exact IH.
  - cbn [find]. destruct (fst p =? t'); auto.
Qed.

Lemma get_thr_set_eq t th l : get_thr t (set_thr t th l) = th.
Proof. unfold get_thr, set_thr. cbn [find fst]. rewrite N.eqb_refl. reflexivity. Qed.

Lemma get_thr_found t l : t_code (get_thr t l) <> [] -> exists p, In p l /\ fst p = t /\ snd p = get_thr t l.
Proof.
  unfold get_thr. destruct (find (fun p => fst p =? t) l) as [p|] eqn:E; [|cbn; congruence].
  intros _. apply find_some in E. destruct E as [Hin He]. apply N.eqb_eq in He. eauto.
Qed.

Lemma rlocked_holder w t l : t <> w -> holds_rlock (get_thr t l) = true -> rlocked_other w l = true.
Proof.
  intros Hne Hh. assert (Hc : t_code (get_thr t l) <> []).
  { unfold holds_rlock in Hh. destruct (t_code (get_thr t l)); [rewrite andb_false_r in Hh; discriminate|congruence]. }
  destruct (get_thr_found _ _ Hc) as (p & Hin & Hf & Hs). unfold rlocked_other. apply existsb_exists.
  exists p. split; auto. rewrite Hf, Hs, Hh. destruct (N.eqb_spec t w); [contradiction|reflexivity].
Qed.

Lemma rlocked_set_thr w t th l : rlocked_other w l = false -> (t = w \/ holds_rlock th = false) ->
  rlocked_other w (set_thr t th l) = false.
Proof.
  intros Hl Hth. unfold rlocked_other, set_thr. cbn [existsb fst snd].
  apply orb_false_iff. split.
  - destruct Hth as [ Ht | Ht ]; [subst t; rewrite N.eqb_refl; reflexivity|rewrite Ht; apply andb_false_r].
  - apply not_true_is_false. intro E. apply existsb_exists in E. destruct E as (p & Hin & Hp).
    apply filter_In in Hin. destruct Hin as [Hin _].
    assert (existsb (fun p => negb (fst p =? w) && holds_rlock (snd p)) l = true) by (apply existsb_exists; eauto).
    unfold rlocked_other in Hl. congruence.
Qed.

Lemma start_rl_false o b g g' code rl : start o b g = Some (g', code, rl) -> takes_oplock o = false -> rl = false.
Proof.
  destruct o; cbn [takes_oplock]; try discriminate; cbn [start]; intros E _.
  - destruct (find (fun p => fst p =? h) (s_handles g)); injection E as <- <- <-; reflexivity.
  - destruct (s_cacher g); [|injection E as <- <- <-; reflexivity].
    destruct (run_evict_loop (set_cap c g)). injection E as <- <- <-. reflexivity.
  - destruct (s_closed g); [injection E as <- <- <-; reflexivity|]. destruct b; [discriminate|].
    destruct force; injection E as <- <- <-; reflexivity.
Qed.

(* ------------------------------------------------------------------ the code as found deadlocks *)

Lemma dead12_blocked K : dead12 K ->
  kstep false K (KAct (AStep 1)) = None /\ (forall f, kstep false K (KAct (AStart 2 (OClose f))) = None) /\
  (forall t, kstep false K (KReq t) = None) /\ (forall t, kstep false K (KAcq t) = None) /\
  (forall o, takes_oplock o = true -> forall t, kstep false K (KAct (AStart t o)) = None).
Proof.
  intros (Hw & Hrl & x & ns & key & k & Hc). repeat split.
  - cbn [kstep]. rewrite Hc, Hw. reflexivity.
  - intro f. cbn [kstep]. rewrite Hw. cbn [N.eqb Pos.eqb Bool.eqb andb].
    assert (rlocked_other 2 (l_thr (k_L K)) = true) as ->; [|reflexivity].
    apply (rlocked_holder 2 1); [lia|]. unfold holds_rlock. rewrite Hrl, Hc. reflexivity.
  - intro t. cbn [kstep]. rewrite Hw. destruct (t_code (get_thr t (l_thr (k_L K)))); reflexivity.
  - intro t. cbn [kstep]. rewrite Hw. reflexivity.
  - intros o Ho t. cbn [kstep]. rewrite Hw.
    destruct o; try discriminate; cbn [is_writer takes_oplock andb]; destruct (2 =? t); reflexivity.
Qed.

Lemma dead12_forever K a K' : dead12 K -> kstep false K a = Some K' -> dead12 K'.
Proof.
  intros HD E. pose proof (dead12_blocked K HD) as (B1 & B2 & B3 & B4 & B5).
  destruct HD as (Hw & Hrl & x & ns & key & k & Hc).
  destruct a as [t|t|[t o|t]].
  - rewrite B3 in E. discriminate.
  - rewrite B4 in E. discriminate.
  - destruct (N.eq_dec t 1) as [->|Hne].
    { (* goroutine 1 is not idle *)
      pose proof (kstep_proj _ _ _ _ E) as P. cbn [lstep] in P. rewrite Hc in P. discriminate. }
    destruct o as [ns0 key0 sf|h|ns0 key0 wd|ns0 key0|ns0| |c|f];
      match type of E with kstep false K (KAct (AStart t ?o)) = _ =>
        try (rewrite (B5 o eq_refl t) in E; discriminate) end.
    + (* Release *)
      cbn [kstep] in E. destruct (is_writer t (k_w K)); [discriminate|]. cbn [takes_oplock andb] in E.
      apply lift_some in E. destruct E as (L' & El & ->). cbn [lstep] in El.
      destruct (t_code (get_thr t (l_thr (k_L K)))); [|discriminate].
      destruct (start (ORelease h) _ _) as [[[g' code] rl]|]; [|discriminate]. injection El as <-.
      unfold dead12. cbn [k_w k_L l_thr]. rewrite get_thr_set_neq by auto. eauto 10.
    + (* SetCapacity *)
      cbn [kstep] in E. destruct (is_writer t (k_w K)); [discriminate|]. cbn [takes_oplock andb] in E.
      apply lift_some in E. destruct E as (L' & El & ->). cbn [lstep] in El.
      destruct (t_code (get_thr t (l_thr (k_L K)))); [|discriminate].
      destruct (start (OSetCap c) _ _) as [[[g' code] rl]|]; [|discriminate]. injection El as <-.
      unfold dead12. cbn [k_w k_L l_thr]. rewrite get_thr_set_neq by auto. eauto 10.
    + (* Close: only the announced goroutine 2, and it is blocked *)
      destruct (N.eq_dec t 2) as [->|Hne2]; [rewrite B2 in E; discriminate|].
      cbn [kstep] in E. rewrite Hw in E. destruct (N.eqb_spec 2 t); [congruence|]. cbn [andb] in E. discriminate.
  - destruct (N.eq_dec t 1) as [->|Hne]; [rewrite B1 in E; discriminate|].
    cbn [kstep] in E. destruct (t_code (get_thr t (l_thr (k_L K)))) as [|i k0] eqn:Ec; [discriminate|].
    match type of E with (if ?c then _ else _) = _ => destruct c; [discriminate|] end.
    apply lift_some in E. destruct E as (L' & El & ->). cbn [lstep] in El. rewrite Ec in El.
    destruct (exec i (l_g (k_L K))) as [s' new]. injection El as <-.
    unfold dead12. cbn [k_w k_L l_thr]. rewrite get_thr_set_neq by auto. eauto 10.
Qed.

Lemma dead12_run : forall tr K K', dead12 K -> krun false K tr = Some K' -> dead12 K'.
Proof.
  induction tr as [|a tr IH]; intros K K' HD Er; cbn [krun] in Er.
  - injection Er as <-. exact HD.
  - destruct (kstep false K a) as [K1|] eqn:E1; [|discriminate].
    apply (IH K1); auto. eapply dead12_forever; eauto.
Qed.

Theorem close_deadlock_old :
  exists K, krun false (kinit true 1) deadlock_trace = Some K /\ kreach false K /\ dead12 K /\
    forall tr K', krun false K tr = Some K' ->
      dead12 K' /\ kstep false K' (KAct (AStep 1)) = None /\
      forall f, kstep false K' (KAct (AStart 2 (OClose f))) = None.
Proof.
  destruct (krun false (kinit true 1) deadlock_trace) as [K|] eqn:E; [|vm_compute in E; discriminate].
  exists K. split; [reflexivity|].
  assert (HR : kreach false K).
  { revert E. generalize deadlock_trace. generalize (kr_init false true 1). generalize (kinit true 1).
    intros K0 H0 tr. revert K0 H0. induction tr as [|a tr IH]; intros K0 H0 E; cbn [krun] in E.
    - injection E as <-. exact H0.
    - destruct (kstep false K0 a) as [K1|] eqn:E1; [|discriminate]. eapply IH; [|exact E]. eapply kr_step; eauto. }
  assert (HD : dead12 K).
  { vm_compute in E. injection E as <-. unfold dead12. vm_compute. split; [reflexivity|split; [reflexivity|repeat eexists]]. }
  split; [exact HR|split; [exact HD|]].
  intros tr K' Er. pose proof (dead12_run tr K K' HD Er) as HD'.
  destruct (dead12_blocked K' HD') as (B1 & B2 & _). auto.
Qed.

(* ------------------------------------------------------------------ the repaired protocol: every wait is for a goroutine that can move *)

Definition KInv (K : kstate) : Prop :=
  match k_w K with
  | Some (w, acq) => t_code (get_thr w (l_thr (k_L K))) = [] /\
                     (acq = true -> rlocked_other w (l_thr (k_L K)) = false)
  | None => True
  end.

Lemma kinv_step K a K' : KInv K -> kstep true K a = Some K' -> KInv K'.
Proof.
  unfold KInv. intros HI E. destruct a as [t|t|[t o|t]]; cbn [kstep] in E.
  - destruct (t_code (get_thr t (l_thr (k_L K)))) eqn:Ec; [|discriminate]. destruct (k_w K); [discriminate|].
    injection E as <-. cbn. split; [exact Ec|discriminate].
  - destruct (k_w K) as [[x [|]]|]; try discriminate. destruct HI as [Hc _].
    cbn [andb] in E. destruct (N.eqb_spec x t); [subst x|discriminate]. cbn [andb] in E.
    destruct (rlocked_other t (l_thr (k_L K))) eqn:Er; [discriminate|]. injection E as <-. cbn. auto.
  - destruct o as [ns0 key0 sf|h|ns0 key0 wd|ns0 key0|ns0| |c|f].
    all: try (destruct (is_writer t (k_w K)) eqn:Ew; [discriminate|];
              destruct (k_w K) as [[w acq]|]; cbn [takes_oplock andb] in E; try discriminate;
              apply lift_some in E; destruct E as (L' & El & ->); cbn [k_w]; exact I).
    + (* Release *)
      destruct (is_writer t (k_w K)) eqn:Ew; [discriminate|]. cbn [takes_oplock andb] in E.
      apply lift_some in E. destruct E as (L' & El & ->). cbn [k_w k_L]. destruct (k_w K) as [[w acq]|]; [|exact I].
      cbn [is_writer] in Ew. apply N.eqb_neq in Ew. destruct HI as [Hc Hr]. cbn [lstep] in El.
      destruct (t_code (get_thr t (l_thr (k_L K)))); [|discriminate].
      destruct (start (ORelease h) _ _) as [[[g' code] rl]|] eqn:Es; [|discriminate]. injection El as <-.
      cbn [l_thr]. rewrite get_thr_set_neq by auto. split; [exact Hc|]. intro Ha.
      apply rlocked_set_thr; auto. right. unfold holds_rlock. cbn [t_rl].
      rewrite (start_rl_false _ _ _ _ _ _ Es eq_refl). reflexivity.
    + (* SetCapacity *)
      destruct (is_writer t (k_w K)) eqn:Ew; [discriminate|]. cbn [takes_oplock andb] in E.
      apply lift_some in E. destruct E as (L' & El & ->). cbn [k_w k_L]. destruct (k_w K) as [[w acq]|]; [|exact I].
      cbn [is_writer] in Ew. apply N.eqb_neq in Ew. destruct HI as [Hc Hr]. cbn [lstep] in El.
      destruct (t_code (get_thr t (l_thr (k_L K)))); [|discriminate].
      destruct (start (OSetCap c) _ _) as [[[g' code] rl]|] eqn:Es; [|discriminate]. injection El as <-.
      cbn [l_thr]. rewrite get_thr_set_neq by auto. split; [exact Hc|]. intro Ha.
      apply rlocked_set_thr; auto. right. unfold holds_rlock. cbn [t_rl].
      rewrite (start_rl_false _ _ _ _ _ _ Es eq_refl). reflexivity.
    + (* Close *)
      destruct (k_w K) as [[x acq]|]; [|discriminate].
      match type of E with (if ?c then _ else _) = _ => destruct c; [|discriminate] end.
      apply lift_some in E. destruct E as (L' & El & ->). exact I.
  - destruct (t_code (get_thr t (l_thr (k_L K)))) as [|i k] eqn:Ec; [discriminate|].
    match type of E with (if ?c then _ else _) = _ => destruct c; [discriminate|] end.
    apply lift_some in E. destruct E as (L' & El & ->). cbn [k_w k_L]. destruct (k_w K) as [[w acq]|]; [|exact I].
    destruct HI as [Hc Hr]. cbn [lstep] in El. rewrite Ec in El.
    destruct (exec i (l_g (k_L K))) as [s' new]. injection El as <-. cbn [l_thr].
    assert (Hne : t <> w) by (intro; subst; rewrite Hc in Ec; discriminate).
    rewrite get_thr_set_neq by auto. split; [exact Hc|]. intro Ha. specialize (Hr Ha).
    apply rlocked_set_thr; auto. right.
    destruct (holds_rlock {| t_code := new ++ k; t_rl := t_rl (get_thr t (l_thr (k_L K))) |}) eqn:Eh; auto.
    exfalso. assert (holds_rlock (get_thr t (l_thr (k_L K))) = true).
    { unfold holds_rlock in *. cbn [t_rl t_code] in Eh. rewrite Ec. apply andb_true_iff in Eh. destruct Eh as [-> _]. reflexivity. }
    pose proof (rlocked_holder w t _ Hne H). congruence.
Qed.

Lemma kreach_inv K : kreach true K -> KInv K.
Proof. induction 1; [exact I|eapply kinv_step; eauto]. Qed.

(* In every reachable state of the repaired protocol:
   (1) a Close that holds opMu (announced on mu) can run its flag section at once, and nobody is inside an
       operation;
   (2) otherwise every goroutine that is inside an operation or a release can take its next step — in
       particular the nested Handle.Release of lru.Promote / Ban / Evict;
   (3) an announced Close acquires opMu as soon as no goroutine is inside an operation.
   So a Close waits only for goroutines that can move, and everyone else waits at most for that Close. *)
Theorem repaired_no_wait_cycle : forall K, kreach true K ->
  (forall w, k_w K = Some (w, true) ->
     rlocked_other w (l_thr (k_L K)) = false /\ forall f, kstep true K (KAct (AStart w (OClose f))) <> None) /\
  ((forall w, k_w K <> Some (w, true)) ->
     forall t, t_code (get_thr t (l_thr (k_L K))) <> [] -> kstep true K (KAct (AStep t)) <> None) /\
  (forall w, k_w K = Some (w, false) -> rlocked_other w (l_thr (k_L K)) = false -> kstep true K (KAcq w) <> None).
Proof.
  intros K HR. pose proof (kreach_inv K HR) as HI. unfold KInv in HI. split; [|split].
  - intros w Hw. rewrite Hw in HI. destruct HI as [Hc Hr]. specialize (Hr eq_refl). split; [exact Hr|].
    intro f. cbn [kstep]. rewrite Hw, N.eqb_refl, Hr. cbn [Bool.eqb andb negb lstep]. rewrite Hc.
    cbn [start]. destruct (s_closed (l_g (k_L K))); [discriminate|]. rewrite Hr. destruct f; discriminate.
  - intros Hnw t Hc. cbn [kstep]. destruct (t_code (get_thr t (l_thr (k_L K)))) as [|i k] eqn:Ec; [congruence|].
    assert (mu_announced true (k_w K) = false) as ->.
    { destruct (k_w K) as [[w [|]]|]; auto. exfalso. apply (Hnw w). reflexivity. }
    rewrite andb_false_r. cbn [lstep]. rewrite Ec. destruct (exec i (l_g (k_L K))). discriminate.
  - intros w Hw Hr. cbn [kstep]. rewrite Hw, N.eqb_refl, Hr. discriminate.
Qed.

(* the deadlock schedule under the repaired protocol runs to completion: goroutine 1 finishes its Get, Close
   acquires both locks, closes and evicts; everybody idle, the evicted value finalised once *)
Definition repaired_trace : list kaction :=
  deadlock_trace ++ [KAct (AStep 1); KAct (AStep 1); KAcq 2; KAct (AStart 2 (OClose false)); KAct (AStep 2); KAct (AStep 2);
                     KAct (AStart 1 (ORelease 1)); KAct (AStep 1); KAct (AStep 1)].

Theorem close_deadlock_repaired :
  exists K, krun true (kinit true 1) repaired_trace = Some K /\
    k_w K = None /\ all_idle (l_thr (k_L K)) /\ s_closed (l_g (k_L K)) = true /\ s_handles (l_g (k_L K)) = [] /\
    cf 0 (s_log (l_g (k_L K))) = 1%nat /\ cf 1 (s_log (l_g (k_L K))) = 1%nat.
Proof. eexists. split; [vm_compute; reflexivity|]. vm_compute. repeat split; auto. Qed.
