(* Conc/CacheTableLemmas.v — lemmas about the ingredients of Conc/CacheTable.v that do not mention the
   table: mask arithmetic (hash & mask under doubling / halving), the (ns,key) order, mNodes.search /
   insertion / removal / sort on sorted slices, list helpers. *)
From GL Require Import Conc.CacheTable.
From Coq Require Import Lia Sorted Permutation.

(* ------------------------------------------------------------------ masks *)

Lemma ones_lt_pow : forall e, N.ones e < 2 ^ e.
Proof. intro e. rewrite N.ones_equiv. pose proof (N.pow_nonzero 2 e). lia. Qed.

Lemma ones_succ : forall e, N.ones (e + 1) = 2 * N.ones e + 1.
Proof.
  intro e. rewrite !N.ones_equiv. replace (e + 1) with (N.succ e) by lia. rewrite N.pow_succ_r'.
  pose proof (N.pow_nonzero 2 e). lia.
Qed.

Lemma pow_succ1 : forall e, 2 ^ (e + 1) = 2 * 2 ^ e.
Proof. intro e. replace (e + 1) with (N.succ e) by lia. apply N.pow_succ_r'. Qed.

Lemma land_ones_small : forall x e, x < 2 ^ e -> N.land x (N.ones e) = x.
Proof. intros. rewrite N.land_ones. apply N.mod_small; auto. Qed.

Lemma land_ones_lt : forall x e, N.land x (N.ones e) < 2 ^ e.
Proof. intros. rewrite N.land_ones. apply N.mod_lt. apply N.pow_nonzero. lia. Qed.

Lemma land_ones_ones : forall e, N.land (N.ones (e + 1)) (N.ones e) = N.ones e.
Proof.
  intro e. rewrite N.land_comm. apply land_ones_small.
  pose proof (ones_lt_pow e). rewrite pow_succ1. lia.
Qed.

(* the bucket of a node in the smaller table is determined by its bucket in the larger one *)
Lemma land_coarsen : forall x e, N.land x (N.ones e) = N.land (N.land x (N.ones (e + 1))) (N.ones e).
Proof. intros. rewrite <- N.land_assoc, land_ones_ones. reflexivity. Qed.

Lemma mod_pow_split : forall x e, x mod 2 ^ (e + 1) = x mod 2 ^ e \/ x mod 2 ^ (e + 1) = x mod 2 ^ e + 2 ^ e.
Proof.
  intros. rewrite pow_succ1, (N.mul_comm 2).
  rewrite N.mod_mul_r by (try apply N.pow_nonzero; lia).
  assert (H : (x / 2 ^ e) mod 2 < 2) by (apply N.mod_lt; lia).
  destruct ((x / 2 ^ e) mod 2) as [|p]; [left; lia|].
  destruct p; lia.
Qed.

(* hash & mask of a split bucket is i or i + len/2 *)
Lemma land_refine : forall x e, N.land x (N.ones (e + 1)) = N.land x (N.ones e) \/
                                N.land x (N.ones (e + 1)) = N.land x (N.ones e) + 2 ^ e.
Proof. intros. rewrite !N.land_ones. apply mod_pow_split. Qed.

Lemma land_ones_add_pow : forall i e, i < 2 ^ e -> N.land (i + 2 ^ e) (N.ones e) = i.
Proof.
  intros. rewrite N.land_ones. replace (i + 2 ^ e) with (i + 1 * 2 ^ e) by lia.
  rewrite N.mod_add by (apply N.pow_nonzero; lia). apply N.mod_small; auto.
Qed.

(* ------------------------------------------------------------------ lists *)

Lemma nth_upd_nth_eq : forall {A} (l : list A) n x d, (n < length l)%nat -> nth n (upd_nth n x l) d = x.
Proof. induction l; simpl; intros; [lia|]. destruct n; simpl; auto. apply IHl. lia. Qed.

Lemma nth_upd_nth_neq : forall {A} (l : list A) n m x d, n <> m -> nth m (upd_nth n x l) d = nth m l d.
Proof.
  induction l; intros n m x d Hn; [reflexivity|].
  destruct n as [|n], m as [|m]; simpl; try reflexivity; try (exfalso; apply Hn; reflexivity).
  apply IHl. intro; apply Hn; f_equal; assumption.
Qed.

Lemma length_upd_nth : forall {A} (l : list A) n x, length (upd_nth n x l) = length l.
Proof. induction l; intros; [reflexivity|]. destruct n; simpl; [reflexivity|]. f_equal; apply IHl. Qed.

Lemma nth_repeat' : forall {A} (x : A) n k d, (k < n)%nat -> nth k (repeat x n) d = x.
Proof. induction n; simpl; intros; [lia|]. destruct k; auto. apply IHn. lia. Qed.

Lemma in_flat_map_iff : forall {A B} (f : A -> list B) l y, In y (flat_map f l) <-> exists x, In x l /\ In y (f x).
Proof. intros. apply in_flat_map. Qed.

Lemma NoDup_app_intro : forall {A} (l1 l2 : list A),
  NoDup l1 -> NoDup l2 -> (forall x, In x l1 -> ~ In x l2) -> NoDup (l1 ++ l2).
Proof.
  induction l1; simpl; intros; auto. inversion H; subst. constructor.
  - intro Hin. apply in_app_or in Hin. destruct Hin; [contradiction|]. apply (H1 a); auto.
  - apply IHl1; auto.
Qed.

Lemma NoDup_flat_map : forall {A B} (f : A -> list B) l,
  NoDup l -> (forall x, In x l -> NoDup (f x)) ->
  (forall x y z, In x l -> In y l -> In z (f x) -> In z (f y) -> x = y) ->
  NoDup (flat_map f l).
Proof.
  induction l; simpl; intros Hl Hf Hd; [constructor|].
  inversion Hl; subst. apply NoDup_app_intro.
  - apply Hf; auto.
  - apply IHl; auto. intros; eapply Hd; eauto.
  - intros z Hz Hin. apply in_flat_map in Hin. destruct Hin as [y [Hy Hzy]].
    assert (a = y) by (apply (Hd a y z); auto). subst. contradiction.
Qed.

Lemma filter_flat_map : forall {A B} (p : B -> bool) (f : A -> list B) l,
  filter p (flat_map f l) = flat_map (fun x => filter p (f x)) l.
Proof. induction l; simpl; auto. rewrite filter_app, IHl. reflexivity. Qed.

Lemma flat_map_ext_in : forall {A B} (f g : A -> list B) l,
  (forall x, In x l -> f x = g x) -> flat_map f l = flat_map g l.
Proof. induction l; simpl; intros; auto. rewrite H, IHl; auto. Qed.

Lemma in_seq_N : forall n i, In i (map N.of_nat (seq 0 n)) <-> i < N.of_nat n.
Proof.
  intros. rewrite in_map_iff. split.
  - intros [k [Hk Hin]]. apply in_seq in Hin. lia.
  - intros. exists (N.to_nat i). split; [lia|]. apply in_seq. lia.
Qed.

Lemma NoDup_seq_N : forall n, NoDup (map N.of_nat (seq 0 n)).
Proof.
  intros. apply FinFun.Injective_map_NoDup; [|apply seq_NoDup].
  intros a b Hab. lia.
Qed.

Lemma find_none_all : forall {A} (p : A -> bool) l, (forall y, In y l -> p y = false) -> find p l = None.
Proof. induction l; simpl; intros; auto. rewrite H by auto. apply IHl; auto. Qed.

Lemma filter_all : forall {A} (p : A -> bool) l, (forall y, In y l -> p y = true) -> filter p l = l.
Proof. induction l; simpl; intros; auto. rewrite H by auto. f_equal; apply IHl; auto. Qed.

Lemma filter_none : forall {A} (p : A -> bool) l, (forall y, In y l -> p y = false) -> filter p l = [].
Proof. induction l; simpl; intros; auto. rewrite H by auto. apply IHl; auto. Qed.

(* ------------------------------------------------------------------ the (ns,key) order *)

Definition tkey (x : tnode) : N * N := (tn_ns x, tn_key x).
Definition klt (a b : tnode) : Prop := tn_lt (tn_ns b) (tn_key b) a = true.
Definition ssorted (l : list tnode) : Prop := StronglySorted klt l.

Lemma tn_lt_spec : forall ns key x,
  tn_lt ns key x = true <-> (tn_ns x < ns \/ (tn_ns x = ns /\ tn_key x < key)).
Proof.
  intros. unfold tn_lt. destruct (N.eqb_spec (tn_ns x) ns); rewrite N.ltb_lt; lia.
Qed.

Lemma tn_lt_false : forall ns key x,
  tn_lt ns key x = false <-> (ns < tn_ns x \/ (tn_ns x = ns /\ key <= tn_key x)).
Proof.
  intros. unfold tn_lt. destruct (N.eqb_spec (tn_ns x) ns); rewrite N.ltb_ge; lia.
Qed.

Lemma tn_eq_spec : forall ns key x, tn_eq ns key x = true <-> (tn_ns x = ns /\ tn_key x = key).
Proof. intros. unfold tn_eq. rewrite andb_true_iff, !N.eqb_eq. tauto. Qed.

Lemma tn_eq_false : forall ns key x, tn_eq ns key x = false <-> (tn_ns x <> ns \/ tn_key x <> key).
Proof.
  intros. unfold tn_eq. rewrite andb_false_iff, !N.eqb_neq. tauto.
Qed.

Lemma klt_spec : forall a b, klt a b <-> (tn_ns a < tn_ns b \/ (tn_ns a = tn_ns b /\ tn_key a < tn_key b)).
Proof. intros. unfold klt. apply tn_lt_spec. Qed.

Lemma klt_trans : forall a b c, klt a b -> klt b c -> klt a c.
Proof. intros a b c. rewrite !klt_spec. lia. Qed.

Lemma klt_neq : forall a b, klt a b -> tkey a <> tkey b.
Proof. intros a b. rewrite klt_spec. unfold tkey. intros H E. inversion E. lia. Qed.

Lemma ssorted_inv : forall x l, ssorted (x :: l) -> ssorted l /\ (forall y, In y l -> klt x y).
Proof. intros x l H. inversion H; subst. split; auto. apply Forall_forall; auto. Qed.

Lemma ssorted_cons : forall x l, ssorted l -> (forall y, In y l -> klt x y) -> ssorted (x :: l).
Proof. intros. constructor; auto. apply Forall_forall; auto. Qed.

Lemma ssorted_filter : forall p l, ssorted l -> ssorted (filter p l).
Proof.
  induction l; simpl; intros; auto. apply ssorted_inv in H. destruct H as [Hs Hl].
  destruct (p a); auto. apply ssorted_cons; auto. intros y Hy. apply filter_In in Hy. apply Hl. tauto.
Qed.

Lemma ssorted_keys_nodup : forall l, ssorted l -> NoDup (map tkey l).
Proof.
  induction l; simpl; intros; [constructor|]. apply ssorted_inv in H. destruct H as [Hs Hl].
  constructor; auto. intro Hin. apply in_map_iff in Hin. destruct Hin as [y [Hy Hin]].
  apply Hl in Hin. apply klt_neq in Hin. congruence.
Qed.

Lemma keys_nodup_nodup : forall l, NoDup (map tkey l) -> NoDup l.
Proof. intros. eapply NoDup_map_inv; eauto. Qed.

Lemma ssorted_nodup : forall l, ssorted l -> NoDup l.
Proof. intros. apply keys_nodup_nodup, ssorted_keys_nodup; auto. Qed.

(* with pairwise different keys, [find] is membership *)
Lemma find_key_in : forall ns key l n, NoDup (map tkey l) -> In n l -> tn_eq ns key n = true ->
  find (tn_eq ns key) l = Some n.
Proof.
  induction l; simpl; intros n Hnd Hin He; [contradiction|]. inversion Hnd; subst.
  destruct Hin as [->|Hin]; [rewrite He; auto|].
  destruct (tn_eq ns key a) eqn:Ea; [|apply IHl; auto].
  exfalso. apply H1. apply in_map_iff. exists n. split; auto.
  apply tn_eq_spec in He. apply tn_eq_spec in Ea. unfold tkey. destruct He, Ea. congruence.
Qed.

Lemma find_key_some : forall ns key l n, find (tn_eq ns key) l = Some n -> In n l /\ tn_eq ns key n = true.
Proof. intros. apply find_some in H. auto. Qed.

Lemma find_key_none : forall ns key l, find (tn_eq ns key) l = None -> forall y, In y l -> tn_eq ns key y = false.
Proof. intros. eapply find_none in H; eauto. Qed.

(* ------------------------------------------------------------------ mNodes.search on a sorted slice *)

Lemma search_find : forall ns key l, ssorted l ->
  match nth_error l (search ns key l) with
  | Some n => if tn_eq ns key n then Some n else None
  | None => None
  end = find (tn_eq ns key) l.
Proof.
  induction l; simpl; intros Hs; auto. apply ssorted_inv in Hs. destruct Hs as [Hs Hl].
  destruct (tn_lt ns key a) eqn:Hlt; simpl.
  - rewrite IHl by auto. apply tn_lt_spec in Hlt.
    assert (tn_eq ns key a = false) by (apply tn_eq_false; lia). rewrite H. reflexivity.
  - destruct (tn_eq ns key a) eqn:He; auto. symmetry. apply find_none_all. intros y Hy.
    apply Hl in Hy. apply klt_spec in Hy. apply tn_lt_false in Hlt. apply tn_eq_false in He.
    apply tn_eq_false. lia.
Qed.

Lemma insert_search : forall ns key n l, tn_ns n = ns -> tn_key n = key ->
  find (tn_eq ns key) l = None -> insert_at (search ns key l) n l = sort_insert n l.
Proof.
  intros ns key n l Hns Hkey. induction l; simpl; intros Hf; auto.
  destruct (tn_eq ns key a) eqn:He; [discriminate|].
  apply tn_eq_false in He.
  destruct (tn_lt ns key a) eqn:Hlt.
  - apply tn_lt_spec in Hlt.
    assert (tn_lt (tn_ns a) (tn_key a) n = false) by (apply tn_lt_false; lia). rewrite H.
    unfold insert_at in *. simpl. f_equal. apply IHl; auto.
  - apply tn_lt_false in Hlt.
    assert (tn_lt (tn_ns a) (tn_key a) n = true) by (apply tn_lt_spec; lia). rewrite H.
    reflexivity.
Qed.

Lemma sort_insert_in : forall x l y, In y (sort_insert x l) <-> y = x \/ In y l.
Proof.
  induction l; simpl; intros; [intuition|].
  destruct (tn_lt (tn_ns a) (tn_key a) x); simpl; [intuition|]. rewrite IHl. intuition.
Qed.

Lemma sort_insert_sorted : forall x l, ssorted l -> (forall y, In y l -> tkey y <> tkey x) -> ssorted (sort_insert x l).
Proof.
  induction l; simpl; intros Hs Hd; [constructor; auto|].
  apply ssorted_inv in Hs. destruct Hs as [Hs Hl].
  destruct (tn_lt (tn_ns a) (tn_key a) x) eqn:Hlt.
  - apply ssorted_cons; [apply ssorted_cons; auto|].
    intros y [->|Hy]; [exact Hlt|]. eapply klt_trans; [exact Hlt|]. apply Hl; auto.
  - apply ssorted_cons; [apply IHl; auto|].
    intros y Hy. apply sort_insert_in in Hy. destruct Hy as [->|Hy]; [|apply Hl; auto].
    apply klt_spec. apply tn_lt_false in Hlt.
    assert (tkey a <> tkey x) by (apply Hd; auto). unfold tkey in H.
    destruct (N.eq_dec (tn_ns a) (tn_ns x)); [|lia].
    destruct (N.eq_dec (tn_key a) (tn_key x)); [congruence|lia].
Qed.

Lemma remove_search : forall ns key l n, ssorted l -> nth_error l (search ns key l) = Some n ->
  tn_eq ns key n = true -> remove_at (search ns key l) l = filter (fun x => negb (tn_eq ns key x)) l.
Proof.
  induction l; simpl; intros n Hs Hn He; [destruct (search ns key []); discriminate|].
  apply ssorted_inv in Hs. destruct Hs as [Hs Hl].
  destruct (tn_lt ns key a) eqn:Hlt.
  - simpl in Hn. apply tn_lt_spec in Hlt.
    assert (tn_eq ns key a = false) by (apply tn_eq_false; lia). rewrite H. simpl.
    unfold remove_at in *. simpl. f_equal. eapply IHl; eauto.
  - simpl in Hn. inversion Hn; subst. rewrite He. simpl. unfold remove_at. simpl.
    symmetry. apply filter_all. intros y Hy. apply Hl in Hy. apply klt_spec in Hy.
    apply tn_eq_spec in He. apply negb_true_iff, tn_eq_false. lia.
Qed.

Lemma sort_nodes_in : forall l y, In y (sort_nodes l) <-> In y l.
Proof.
  induction l; simpl; intros; [tauto|]. rewrite sort_insert_in, IHl. intuition.
Qed.

Lemma sort_nodes_sorted : forall l, NoDup (map tkey l) -> ssorted (sort_nodes l).
Proof.
  induction l; simpl; intros Hnd; [constructor|]. inversion Hnd as [|k ks Hnotin Hnd']; subst.
  apply sort_insert_sorted; [apply IHl; exact Hnd'|].
  intros y Hy E. rewrite sort_nodes_in in Hy.
  apply Hnotin. rewrite <- E. apply in_map; auto.
Qed.

(* enumerateNodesByNS's scan of one bucket *)
Lemma take_ns_filter : forall ns l, ssorted l -> (forall y, In y l -> ns <= tn_ns y) ->
  take_ns ns l = filter (fun x => tn_ns x =? ns) l.
Proof.
  induction l; simpl; intros Hs Hge; auto. apply ssorted_inv in Hs. destruct Hs as [Hs Hl].
  destruct (N.eqb_spec (tn_ns a) ns).
  - f_equal. apply IHl; auto.
  - symmetry. apply filter_none. intros y Hy. apply N.eqb_neq.
    assert (ns <= tn_ns a) by (apply Hge; auto). apply Hl in Hy. apply klt_spec in Hy. lia.
Qed.

Lemma pick_ns_filter : forall ns l, ssorted l -> pick_ns ns l = filter (fun x => tn_ns x =? ns) l.
Proof.
  unfold pick_ns. induction l; simpl; intros Hs; auto.
  pose proof Hs as Hs0. apply ssorted_inv in Hs. destruct Hs as [Hs Hl].
  destruct (tn_lt ns 0 a) eqn:Hlt.
  - simpl. rewrite IHl by auto. apply tn_lt_spec in Hlt.
    destruct (N.eqb_spec (tn_ns a) ns); [lia|reflexivity].
  - simpl skipn. apply tn_lt_false in Hlt. apply (take_ns_filter ns (a :: l)); auto.
    intros y [<-|Hy]; [lia|]. apply Hl in Hy. apply klt_spec in Hy. lia.
Qed.

Lemma map_flat_map : forall {A B C} (f : B -> C) (g : A -> list B) l,
  map f (flat_map g l) = flat_map (fun x => map f (g x)) l.
Proof. induction l; simpl; auto. rewrite map_app, IHl. reflexivity. Qed.
