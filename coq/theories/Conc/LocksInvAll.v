(* Conc/LocksInvAll.v — the protocol invariant inv2' holds in every reachable state.
   Client steps: one dispatch lemma per label (each closed on its own; the edge typing cedge2_ok stays folded
   until the per-label lemma of LocksInv.v opens it), background steps from LocksInvBg.v.
   Consequence: deadlock freedom without hypotheses (no_deadlock). *)
From GL Require Import Conc.Locks Conc.LocksProofs Conc.LocksDeadlock Conc.LocksInv Conc.LocksInvBg.
From Coq Require Import Lia.

Lemma cedge1_client : forall pc l pc', cedge1_ok pc (l, pc') = true -> client_lbl l = true.
Proof. intros pc l pc' H. unfold cedge1_ok in H. bsplit. assumption. Qed.

(* a step that leaves the shared state as it is: the label only tests something *)
Lemma step_pure_lbl : forall s i pc' l,
  inv2' s -> cedge2_ok (cli s i) (l, pc') = true ->
  lbl_is l (LCasClosed true) = false -> lbl_is l LCloseChan = false -> lbl_is l LRelWTr = false ->
  lbl_is l LGiveW = false -> lbl_is l LRelWU = false -> lbl_is l (LMergeRecv true) = false ->
  (forall b, lbl_is l (LSendCmd b XAck) = false) ->
  (lbl_is l LLockT = true -> trc s i (cli s i) = false) ->
  (lbl_is l (LIfTrOpen true) = true -> trc s i (cli s i) = true) ->
  (lbl_is l (LIfTrOpen false) = true -> trc s i (cli s i) = false) ->
  (lbl_is l (LIfClosed false) = true -> closed s = false) ->
  inv2' (set_pc s i pc').
Proof.
  intros s i pc' l I EK N1 N2 N3 N4 N5 N6 N7 HL HO HF HC.
  unfold cedge2_ok in EK. bsplit.
  repeat match goal with H : negb _ = true |- _ => apply negb_true_iff in H end.
  eapply (inv2_pure_b s i pc' (lbl_is l (LCasClosed true)) (lbl_is l LCloseChan) (lbl_is l LLockT)
            (lbl_is l (LIfTrOpen true)) (lbl_is l LRelWTr) (lbl_is l (LIfTrOpen false)) (lbl_is l (LIfClosed false))
            (lbl_is l LGiveW) (lbl_is l LRelWU)); try eassumption.
  - match goal with H : implb (is_trigw_any pc') _ = true |- _ =>
      destruct pc'; try reflexivity; simpl in H; rewrite N7 in H; discriminate end.
  - match goal with H : implb (is_WMs pc') _ = true |- _ =>
      rewrite N6 in H; destruct (is_WMs pc'); [discriminate | reflexivity] end.
Qed.

Ltac pure_lbl := eapply step_pure_lbl; eauto; try reflexivity; try (intros; reflexivity); try (intros; discriminate).

Section Dispatch.
Variables (s : state) (i : nat) (pc' : cpc) (arg : nat) (s1 : state).
Hypothesis I1 : inv1 s.
Hypothesis I2 : inv2' s.

Lemma cs_tau : cedge2_ok (cli s i) (LTau, pc') = true -> lsem fixed (PCli i) LTau arg s = Some s1 -> inv2' (set_pc s1 i pc').
Proof. intros EK L. simpl in L. inv_some L. pure_lbl. Qed.
Lemma cs_begin : forall c, cedge2_ok (cli s i) (LBegin c, pc') = true -> lsem fixed (PCli i) (LBegin c) arg s = Some s1 -> inv2' (set_pc s1 i pc').
Proof. intros c EK L. simpl in L. inv_some L. pure_lbl. Qed.
Lemma cs_end : cedge2_ok (cli s i) (LEnd, pc') = true -> lsem fixed (PCli i) LEnd arg s = Some s1 -> inv2' (set_pc s1 i pc').
Proof. intros EK L. simpl in L. inv_some L. pure_lbl. Qed.

Lemma cs_ifclosed : forall b, cedge2_ok (cli s i) (LIfClosed b, pc') = true -> lsem fixed (PCli i) (LIfClosed b) arg s = Some s1 -> inv2' (set_pc s1 i pc').
Proof.
  intros b EK L. simpl in L. inv_guard L G. apply Bool.eqb_prop in G. pure_lbl.
  simpl. intro X. apply Bool.eqb_prop in X. congruence.
Qed.

Lemma cs_cas : forall b, cedge2_ok (cli s i) (LCasClosed b, pc') = true -> lsem fixed (PCli i) (LCasClosed b) arg s = Some s1 -> inv2' (set_pc s1 i pc').
Proof.
  intros b EK L. destruct b; simpl in L; inv_guard L G.
  - apply negb_true_iff in G. apply step_cas; auto.
  - pure_lbl.
Qed.

Lemma cs_closechan : cedge2_ok (cli s i) (LCloseChan, pc') = true -> lsem fixed (PCli i) LCloseChan arg s = Some s1 -> inv2' (set_pc s1 i pc').
Proof. intros EK L. simpl in L. inv_some L. apply step_closechan; auto. Qed.

Lemma cs_readdbtr : forall b, cedge2_ok (cli s i) (LReadDbTr b, pc') = true -> lsem fixed (PCli i) (LReadDbTr b) arg s = Some s1 -> inv2' (set_pc s1 i pc').
Proof.
  intros b EK L. destruct b; simpl in L.
  - destruct (trown s) as [o|] eqn:HO; [|discriminate]. inv_some L. eapply step_readdbtr; eauto.
  - inv_guard L G. apply is_none_true in G. eapply step_readdbtr; eauto.
Qed.

Lemma cs_iftropen : forall b, cedge2_ok (cli s i) (LIfTrOpen b, pc') = true -> lsem fixed (PCli i) (LIfTrOpen b) arg s = Some s1 -> inv2' (set_pc s1 i pc').
Proof.
  intros b EK L. simpl in L. inv_guard L G. apply Bool.eqb_prop in G. rewrite tr_current_trc in G.
  pure_lbl; simpl; intro X; apply Bool.eqb_prop in X; congruence.
Qed.

Lemma cs_ifmemnil : cedge2_ok (cli s i) (LIfMemNil, pc') = true -> lsem fixed (PCli i) LIfMemNil arg s = Some s1 -> inv2' (set_pc s1 i pc').
Proof. intros EK L. simpl in L. inv_guard L G. pure_lbl. Qed.
Lemma cs_waitbg : cedge2_ok (cli s i) (LWaitBg, pc') = true -> lsem fixed (PCli i) LWaitBg arg s = Some s1 -> inv2' (set_pc s1 i pc').
Proof. intros EK L. simpl in L. inv_guard L G. pure_lbl. Qed.
Lemma cs_recverr : cedge2_ok (cli s i) (LRecvErr, pc') = true -> lsem fixed (PCli i) LRecvErr arg s = Some s1 -> inv2' (set_pc s1 i pc').
Proof. intros EK L. simpl in L. inv_guard L G. pure_lbl. Qed.
Lemma cs_recvperr : cedge2_ok (cli s i) (LRecvPerr, pc') = true -> lsem fixed (PCli i) LRecvPerr arg s = Some s1 -> inv2' (set_pc s1 i pc').
Proof. intros EK L. simpl in L. inv_guard L G. pure_lbl. Qed.
Lemma cs_openc : cedge2_ok (cli s i) (LOpenC, pc') = true -> lsem fixed (PCli i) LOpenC arg s = Some s1 -> inv2' (set_pc s1 i pc').
Proof. intros EK L. simpl in L. inv_guard L G. pure_lbl. Qed.
Lemma cs_seeclosed : cedge2_ok (cli s i) (LSeeClosed, pc') = true -> lsem fixed (PCli i) LSeeClosed arg s = Some s1 -> inv2' (set_pc s1 i pc').
Proof. intros EK L. simpl in L. inv_guard L G. pure_lbl. Qed.

(* a change of a field the invariant does not look at *)
Lemma pure_frame : forall l sx, same2 s sx -> cli sx = cli s ->
  cedge2_ok (cli s i) (l, pc') = true ->
  lbl_is l (LCasClosed true) = false -> lbl_is l LCloseChan = false -> lbl_is l LRelWTr = false ->
  lbl_is l LGiveW = false -> lbl_is l LRelWU = false -> lbl_is l (LMergeRecv true) = false ->
  (forall b, lbl_is l (LSendCmd b XAck) = false) -> lbl_is l LLockT = false -> lbl_is l (LIfTrOpen true) = false ->
  lbl_is l (LIfTrOpen false) = false -> lbl_is l (LIfClosed false) = false ->
  inv2' (set_pc sx i pc').
Proof.
  intros l sx S EC EK N1 N2 N3 N4 N5 N6 N7 N8 N9 N10 N11.
  pose proof (inv2'_frame s sx S I2) as IX. rewrite <- EC in EK.
  eapply step_pure_lbl; eauto; intro; congruence.
Qed.

Lemma cs_clearmems : cedge2_ok (cli s i) (LClearMems, pc') = true -> lsem fixed (PCli i) LClearMems arg s = Some s1 -> inv2' (set_pc s1 i pc').
Proof. intros EK L. simpl in L. inv_some L. eapply pure_frame; eauto; try reflexivity. repeat split; reflexivity. Qed.
Lemma cs_lockc : cedge2_ok (cli s i) (LLockC, pc') = true -> lsem fixed (PCli i) LLockC arg s = Some s1 -> inv2' (set_pc s1 i pc').
Proof. intros EK L. simpl in L. inv_guard L G. eapply pure_frame; eauto; try reflexivity. repeat split; reflexivity. Qed.
Lemma cs_unlockc : cedge2_ok (cli s i) (LUnlockC, pc') = true -> lsem fixed (PCli i) LUnlockC arg s = Some s1 -> inv2' (set_pc s1 i pc').
Proof. intros EK L. simpl in L. inv_guard L G. eapply pure_frame; eauto; try reflexivity. repeat split; reflexivity. Qed.
Lemma cs_commitok : cedge2_ok (cli s i) (LCommitOk, pc') = true -> lsem fixed (PCli i) LCommitOk arg s = Some s1 -> inv2' (set_pc s1 i pc').
Proof. intros EK L. simpl in L. inv_some L. eapply pure_frame; eauto; try reflexivity. repeat split; reflexivity. Qed.
Lemma cs_commitfail : cedge2_ok (cli s i) (LCommitFailW, pc') = true -> lsem fixed (PCli i) LCommitFailW arg s = Some s1 -> inv2' (set_pc s1 i pc').
Proof. intros EK L. simpl in L. inv_some L. eapply pure_frame; eauto; try reflexivity. repeat split; reflexivity. Qed.

Lemma cs_acqw : cedge2_ok (cli s i) (LAcqW, pc') = true -> lsem fixed (PCli i) LAcqW arg s = Some s1 -> inv2' (set_pc s1 i pc').
Proof. intros EK L. simpl in L. inv_guard L G. apply wl_free_true in G. eapply step_acq; eauto. Qed.
Lemma cs_acqwro : cedge2_ok (cli s i) (LAcqWRO, pc') = true -> lsem fixed (PCli i) LAcqWRO arg s = Some s1 -> inv2' (set_pc s1 i pc').
Proof. intros EK L. simpl in L. inv_guard L G. apply wl_free_true in G. eapply step_acq; eauto. Qed.
Lemma cs_acqwclose : cedge2_ok (cli s i) (LAcqWClose, pc') = true -> lsem fixed (PCli i) LAcqWClose arg s = Some s1 -> inv2' (set_pc s1 i pc').
Proof. intros EK L. simpl in L. inv_guard L G. apply wl_free_true in G. eapply step_acqclose; eauto. Qed.

Lemma cs_relw : cedge1_ok (cli s i) (LRelW, pc') = true -> cedge2_ok (cli s i) (LRelW, pc') = true -> lsem fixed (PCli i) LRelW arg s = Some s1 -> inv2' (set_pc s1 i pc').
Proof. intros EK1 EK L. simpl in L. inv_guard L G. apply wl_is_true in G. apply (step_rel s i pc' LRelW); auto. Qed.
Lemma cs_relwu : cedge1_ok (cli s i) (LRelWU, pc') = true -> cedge2_ok (cli s i) (LRelWU, pc') = true -> lsem fixed (PCli i) LRelWU arg s = Some s1 -> inv2' (set_pc s1 i pc').
Proof.
  intros EK1 EK L. simpl in L. inv_guard L G. apply andb_prop in G. destruct G as [G G3]. apply andb_prop in G. destruct G as [G G2].
  apply wl_is_true in G. apply is_none_true in G3. apply (step_rel s i pc' LRelWU); auto. right. repeat split; auto.
  destruct (merged s); [reflexivity | discriminate].
Qed.

Lemma cs_givew : cedge1_ok (cli s i) (LGiveW, pc') = true -> cedge2_ok (cli s i) (LGiveW, pc') = true -> lsem fixed (PCli i) LGiveW arg s = Some s1 -> inv2' (set_pc s1 i pc').
Proof.
  intros EK1 EK L. simpl in L. destruct (pend s) as [n|] eqn:HP; [|discriminate]. inv_guard L G.
  apply andb_prop in G. destruct G as [G G3]. apply andb_prop in G. destruct G as [G G2].
  apply wl_is_true in G. apply cpc_is_W2_true in G3. eapply step_givew; eauto.
  destruct (merged s); [reflexivity | discriminate].
Qed.

Lemma cs_ackone : cedge2_ok (cli s i) (LAckOne, pc') = true -> lsem fixed (PCli i) LAckOne arg s = Some s1 -> inv2' (set_pc s1 i pc').
Proof.
  intros EK L. simpl in L. inv_guard L G. apply andb_prop in G. destruct G as [G G2].
  apply mem_nat_in in G. apply cpc_is_W3_true in G2. eapply step_ackone; eauto.
Qed.

Lemma cs_mergerecv : forall f, cedge2_ok (cli s i) (LMergeRecv f, pc') = true -> lsem fixed (PCli i) (LMergeRecv f) arg s = Some s1 -> inv2' (set_pc s1 i pc').
Proof.
  intros f EK L. simpl in L. inv_guard L G. apply andb_prop in G. destruct G as [G G2].
  apply cpc_is_W1m_true in G. apply is_none_true in G2. eapply step_mergerecv; eauto.
Qed.

Lemma cs_mergedtrue : cedge2_ok (cli s i) (LMergedTrue, pc') = true -> lsem fixed (PCli i) LMergedTrue arg s = Some s1 -> inv2' (set_pc s1 i pc').
Proof.
  intros EK L. simpl in L. destruct (pend s) as [n|] eqn:HP; [|discriminate]. inv_guard L G.
  apply cpc_is_W2_true in G. eapply step_mergedtrue; eauto.
Qed.

Lemma cs_wtotr : cedge1_ok (cli s i) (LWToTr, pc') = true -> cedge2_ok (cli s i) (LWToTr, pc') = true -> lsem fixed (PCli i) LWToTr arg s = Some s1 -> inv2' (set_pc s1 i pc').
Proof. intros EK1 EK L. simpl in L. inv_guard L G. apply wl_is_true in G. eapply step_wtotr; eauto. Qed.

Lemma cs_relwtr : cedge2_ok (cli s i) (LRelWTr, pc') = true -> lsem fixed (PCli i) LRelWTr arg s = Some s1 -> inv2' (set_pc s1 i pc').
Proof.
  intros EK L. simpl in L. destruct (wl s) eqn:HW; try discriminate. inv_guard L G. eapply step_reltr; eauto.
Qed.

Lemma cs_setro : cedge1_ok (cli s i) (LSendErrSetRO, pc') = true -> cedge2_ok (cli s i) (LSendErrSetRO, pc') = true -> lsem fixed (PCli i) LSendErrSetRO arg s = Some s1 -> inv2' (set_pc s1 i pc').
Proof.
  intros EK1 EK L. simpl in L. destruct (ce_after ERO (ce s)) as [c|] eqn:CA; [|discriminate]. inv_guard L G.
  apply wl_is_true in G.
  assert (c = E_per /\ (ce s = E_no \/ ce s = E_has)).
  { destruct (ce s); simpl in CA; try discriminate; inversion CA; auto. }
  destruct H as [-> HE]. eapply step_setro; eauto.
Qed.

Lemma cs_lockt : cedge2_ok (cli s i) (LLockT, pc') = true -> lsem fixed (PCli i) LLockT arg s = Some s1 -> inv2' (set_pc s1 i pc').
Proof.
  intros EK L. simpl in L. destruct (tr_current s i) eqn:TC.
  - inv_guard L G. apply is_none_true in G. apply step_lockt; auto.
  - inv_some L. rewrite tr_current_trc in TC. pure_lbl.
Qed.

Lemma cs_unlockt : cedge2_ok (cli s i) (LUnlockT, pc') = true -> lsem fixed (PCli i) LUnlockT arg s = Some s1 -> inv2' (set_pc s1 i pc').
Proof.
  intros EK L. simpl in L. destruct (onat_eqb (tl s) (Some i)) eqn:TC.
  - inv_some L. apply step_unlockt; auto.
    destruct (tl s) as [h|]; simpl in TC; [apply Nat.eqb_eq in TC; congruence | discriminate].
  - inv_some L. pure_lbl.
Qed.

Lemma cs_sendcmd : forall b k, cedge2_ok (cli s i) (LSendCmd b k, pc') = true -> lsem fixed (PCli i) (LSendCmd b k) arg s = Some s1 -> inv2' (set_pc s1 i pc').
Proof.
  intros b k EK L.
  assert (KN : match k with XNo => False | _ => True end).
  { unfold cedge2_ok in EK. bsplit. destruct k; [discriminate | exact Logic.I | exact Logic.I]. }
  destruct b; simpl in L.
  - destruct (mc s) eqn:HM; try discriminate. inv_some L.
    destruct k; [contradiction | |]; eapply step_sendcmd_bm; eauto.
  - destruct (t_recv_cmd (tc s)) eqn:HR; [|discriminate]. inv_some L.
    destruct k; [contradiction | |]; eapply step_sendcmd_bt; eauto.
Qed.

Lemma cs_trysend : forall b, cedge2_ok (cli s i) (LTrySendCmd b, pc') = true -> lsem fixed (PCli i) (LTrySendCmd b) arg s = Some s1 -> inv2' (set_pc s1 i pc').
Proof.
  intros b EK L. destruct b; simpl in L; inv_some L.
  - destruct (mc s) eqn:HM; [apply step_trysend_bm; auto | pure_lbl ..].
  - destruct (t_recv_cmd (tc s)) eqn:HR; [apply step_trysend_bt; auto | pure_lbl].
Qed.

End Dispatch.

Lemma inv2_step_cli : forall s i k arg s', inv1 s -> inv2' s -> step fixed s (ACli i k arg) = Some s' -> inv2' s'.
Proof.
  intros s i k arg s' I1 I2 H. simpl in H.
  destruct (nth_error (cedges fixed (cli s i)) k) as [[l pc']|] eqn:N; [|discriminate].
  pose proof (nth_forallb _ _ _ _ (cedges1_ok (cli s i)) N) as EK1.
  pose proof (nth_forallb _ _ _ _ (cedges2_ok (cli s i)) N) as EK2.
  destruct (lsem fixed (PCli i) l arg s) as [s1|] eqn:L; [|discriminate]. inversion H; subst s'; clear H N.
  pose proof (cedge1_client _ _ _ EK1) as CL.
  destruct l; try discriminate CL.
  - eapply cs_tau; eauto.
  - eapply cs_begin; eauto.
  - eapply cs_end; eauto.
  - eapply cs_ifclosed; eauto.
  - eapply cs_cas; eauto.
  - eapply cs_closechan; eauto.
  - eapply cs_readdbtr; eauto.
  - eapply cs_iftropen; eauto.
  - eapply cs_ifmemnil; eauto.
  - eapply cs_clearmems; eauto.
  - eapply cs_waitbg; eauto.
  - eapply cs_acqw; eauto.
  - eapply cs_acqwro; eauto.
  - eapply cs_acqwclose; eauto.
  - eapply cs_relw; eauto.
  - eapply cs_relwu; eauto.
  - eapply cs_givew; eauto.
  - eapply cs_ackone; eauto.
  - eapply cs_mergerecv; eauto.
  - eapply cs_mergedtrue; eauto.
  - eapply cs_wtotr; eauto.
  - eapply cs_relwtr; eauto.
  - eapply cs_setro; eauto.
  - eapply cs_recverr; eauto.
  - eapply cs_recvperr; eauto.
  - eapply cs_seeclosed; eauto.
  - eapply cs_lockc; eauto.
  - eapply cs_unlockc; eauto.
  - eapply cs_lockt; eauto.
  - eapply cs_unlockt; eauto.
  - eapply cs_sendcmd; eauto.
  - eapply cs_trysend; eauto.
  - eapply cs_commitok; eauto.
  - eapply cs_commitfail; eauto.
  - eapply cs_openc; eauto.
Qed.

Theorem inv2_step : forall s a s', inv1 s -> t_wf (tc s) = true -> inv2' s -> step fixed s a = Some s' -> inv2' s'.
Proof.
  intros s a s' I1 W I2 H. destruct a.
  - eapply inv2_step_cli; eauto.
  - eapply inv2_step_m; eauto.
  - eapply inv2_step_t; eauto.
  - eapply inv2_step_ce; eauto.
Qed.

Theorem inv2'_reachable : forall s, reachable fixed s -> inv2' s.
Proof.
  induction 1 as [| s a s' R IH ST].
  - apply inv2'_init.
  - eapply inv2_step; eauto using inv1_reachable, twf_reachable.
Qed.

Theorem inv2_reachable : forall s, reachable fixed s -> inv2 s.
Proof. intros s R. apply inv2_of_parts. apply inv2'_reachable; auto. Qed.

(* deadlock freedom: in every reachable state with a call in progress (or an open transaction whose owner has
   not yet committed or discarded it) some step other than a new arrival is enabled *)
Theorem no_deadlock : forall s, reachable fixed s -> pending s ->
  exists a, is_arrival fixed s a = false /\ exists s', step fixed s a = Some s'.
Proof. intros s R P. exact (progress s (inv1_reachable s R) (inv2_reachable s R) P). Qed.

(* no lost wake-up: while a client waits in the second select of compTriggerWait, the goroutine it addressed
   still holds its acknowledgement channel (as its current command, or -- tCompaction -- in its wait queue) and
   stands at a point from which every path, the exit paths included, delivers the acknowledgement
   (mCompaction: not at M0 / MDone; tCompaction: a command of its own is only held away from the receptive
   points, and its queue is non-empty only away from T2 / TDone) *)
Theorem ack_registered : forall s i, reachable fixed s ->
  (is_trigw BM (cli s i) = true -> mx s = Some (i, ctk s i) /\ mc s <> M0 /\ mc s <> MDone) /\
  (is_trigw BT (cli s i) = true ->
     (tx s = Some (i, ctk s i) /\ tx_none_pc (tc s) = false) \/
     (In (i, ctk s i) (tq s) /\ tc s <> T2 /\ tc s <> TDone)).
Proof.
  intros s i R. pose proof (inv2_reachable s R) as I2. split; intro H.
  - pose proof (l1 s I2 i H) as X. repeat split; auto; intro E;
      (assert (Y : mx s = None) by (apply (g8 s I2); auto)); congruence.
  - destruct (l2 s I2 i H) as [X | X].
    + left. split; auto. destruct (tx_none_pc (tc s)) eqn:E; auto. pose proof (g9a s I2 E). congruence.
    + right. repeat split; auto; intro E;
        (assert (Y : tq s = []) by (apply (g9b s I2); auto)); rewrite Y in X; destruct X.
Qed.
