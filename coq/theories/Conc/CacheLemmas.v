(* Conc/CacheLemmas.v — list-level lemmas about the primitives of Conc/Cache.v
   (find_id / find_key / upd_id / remove_id / insert_node, sums over nodes, counting in logs).
   Proof file. *)
From GL Require Import Conc.Cache.
From Coq Require Import Lia Permutation.

Definition keyof (n : node) : N * N := (n_ns n, n_key n).
Definition ids (l : list node) : list N := map n_id l.

(* f changes neither the identity nor the key of a node *)
Definition pres (f : node -> node) : Prop :=
  forall n, n_id (f n) = n_id n /\ n_ns (f n) = n_ns n /\ n_key (f n) = n_key n.

Lemma pres_ref r : pres (nd_ref r). Proof. intro n; auto. Qed.
Lemma pres_val v z : pres (nd_val v z). Proof. intro n; auto. Qed.
Lemma pres_dels d : pres (nd_dels d). Proof. intro n; auto. Qed.
Lemma pres_lru l : pres (nd_lru l). Proof. intro n; auto. Qed.
Lemma pres_comp f g : pres f -> pres g -> pres (fun n => f (g n)).
Proof. intros Hf Hg n. destruct (Hf (g n)) as (a & b & c), (Hg n) as (a' & b' & c'). repeat split; congruence. Qed.
#[export] Hint Resolve pres_ref pres_val pres_dels pres_lru pres_comp : cache.

(* ---------------------------------------------------------------- find *)

Lemma find_id_some l x n : find_id x l = Some n -> In n l /\ n_id n = x.
Proof.
  unfold find_id. intro H. apply find_some in H. destruct H as [H1 H2].
  apply N.eqb_eq in H2. auto.
Qed.

Lemma find_id_none l x : find_id x l = None -> ~ In x (ids l).
Proof.
  unfold find_id, ids. intros H Hin. apply in_map_iff in Hin. destruct Hin as (n & <- & Hn).
  eapply find_none in H; eauto. cbn in H. rewrite N.eqb_refl in H. discriminate.
Qed.

Lemma find_id_in l n : NoDup (ids l) -> In n l -> find_id (n_id n) l = Some n.
Proof.
  unfold find_id, ids. induction l as [|m l IH]; cbn; intros Hnd Hin; [tauto|].
  inversion Hnd as [|? ? Hnot Hnd']; subst.
  destruct Hin as [->|Hin].
  - now rewrite N.eqb_refl.
  - destruct (N.eqb_spec (n_id m) (n_id n)) as [e|ne].
    + exfalso. apply Hnot. rewrite e. apply in_map. exact Hin.
    + auto.
Qed.

Lemma find_id_some_iff l x n : NoDup (ids l) -> (find_id x l = Some n <-> In n l /\ n_id n = x).
Proof.
  intro Hnd. split; [apply find_id_some|]. intros [Hin <-]. now apply find_id_in.
Qed.

Lemma find_key_some l ns key n : find_key ns key l = Some n -> In n l /\ n_ns n = ns /\ n_key n = key.
Proof.
  unfold find_key, key_eqb. intro H. apply find_some in H. destruct H as [H1 H2].
  apply andb_true_iff in H2. destruct H2 as [a b]. apply N.eqb_eq in a, b. auto.
Qed.

Lemma find_key_none l ns key : find_key ns key l = None -> forall n, In n l -> keyof n <> (ns, key).
Proof.
  unfold find_key, key_eqb, keyof. intros H n Hin E. eapply find_none in H; eauto. cbn in H.
  inversion E; subst. rewrite !N.eqb_refl in H. discriminate.
Qed.

Lemma find_key_in l n : NoDup (map keyof l) -> In n l -> find_key (n_ns n) (n_key n) l = Some n.
Proof.
  unfold find_key, key_eqb. induction l as [|m l IH]; cbn; intros Hnd Hin; [tauto|].
  inversion Hnd as [|? ? Hnot Hnd']; subst.
  destruct Hin as [->|Hin].
  - now rewrite !N.eqb_refl.
  - destruct (N.eqb_spec (n_ns m) (n_ns n)) as [e|ne]; cbn; auto.
    destruct (N.eqb_spec (n_key m) (n_key n)) as [e'|ne']; cbn; auto.
    exfalso. apply Hnot. replace (keyof m) with (keyof n) by (unfold keyof; congruence).
    apply in_map. exact Hin.
Qed.

(* ---------------------------------------------------------------- upd_id *)

Lemma ids_upd x f l : pres f -> ids (upd_id x f l) = ids l.
Proof.
  intro Hf. unfold ids, upd_id. rewrite map_map. apply map_ext. intro n.
  destruct (n_id n =? x); auto. apply Hf.
Qed.

Lemma keys_upd x f l : pres f -> map keyof (upd_id x f l) = map keyof l.
Proof.
  intro Hf. unfold upd_id. rewrite map_map. apply map_ext. intro n.
  destruct (n_id n =? x); auto. unfold keyof. destruct (Hf n) as (_ & -> & ->). reflexivity.
Qed.

Lemma length_upd x f l : length (upd_id x f l) = length l.
Proof. unfold upd_id. apply map_length. Qed.

Lemma in_upd x f l m : In m (upd_id x f l) <-> exists n, In n l /\ m = (if n_id n =? x then f n else n).
Proof.
  unfold upd_id. rewrite in_map_iff. split; intros (n & a & b); exists n; auto.
Qed.

Lemma in_upd_other x f l m : In m l -> n_id m <> x -> In m (upd_id x f l).
Proof.
  intros Hin Hne. apply in_upd. exists m. split; auto. apply N.eqb_neq in Hne. now rewrite Hne.
Qed.

Lemma in_upd_same x f l n : In n l -> n_id n = x -> In (f n) (upd_id x f l).
Proof.
  intros Hin <-. apply in_upd. exists n. split; auto. now rewrite N.eqb_refl.
Qed.

Lemma find_id_upd x f l y : pres f ->
  find_id y (upd_id x f l) =
  match find_id y l with Some n => Some (if n_id n =? x then f n else n) | None => None end.
Proof.
  intro Hf. unfold find_id, upd_id. induction l as [|m l IH]; cbn; auto.
  destruct (n_id m =? x) eqn:E.
  - destruct (Hf m) as (-> & _). destruct (n_id m =? y); auto. now rewrite E.
  - destruct (n_id m =? y); auto. now rewrite E.
Qed.

Lemma find_key_upd x f l ns key : pres f ->
  find_key ns key (upd_id x f l) =
  match find_key ns key l with Some n => Some (if n_id n =? x then f n else n) | None => None end.
Proof.
  intro Hf. unfold find_key, upd_id, key_eqb. induction l as [|m l IH]; cbn; auto.
  destruct (n_id m =? x) eqn:E.
  - destruct (Hf m) as (_ & -> & ->). destruct ((n_ns m =? ns) && (n_key m =? key)); auto. now rewrite E.
  - destruct ((n_ns m =? ns) && (n_key m =? key)); auto. now rewrite E.
Qed.

(* ---------------------------------------------------------------- remove_id *)

Lemma filter_all_id {A} (p : A -> bool) l : (forall x, In x l -> p x = true) -> filter p l = l.
Proof.
  induction l as [|a l IH]; cbn; intro H; auto.
  rewrite (H a (or_introl eq_refl)). f_equal. apply IH. intros. apply H. now right.
Qed.

Lemma in_remove x l m : In m (remove_id x l) <-> In m l /\ n_id m <> x.
Proof.
  unfold remove_id. rewrite filter_In. rewrite negb_true_iff, N.eqb_neq. tauto.
Qed.

Lemma ids_remove_sub x l y : In y (ids (remove_id x l)) -> In y (ids l) /\ y <> x.
Proof.
  unfold ids. rewrite !in_map_iff. intros (n & <- & H). apply in_remove in H. destruct H. split; eauto.
Qed.

Lemma nodup_map_filter {A B} (g : A -> B) (p : A -> bool) l : NoDup (map g l) -> NoDup (map g (filter p l)).
Proof.
  induction l as [|a l IH]; cbn; intro H; auto. inversion H; subst.
  destruct (p a); cbn; auto. constructor; auto. intro Hin. apply in_map_iff in Hin.
  destruct Hin as (b & e & Hb). apply filter_In in Hb. destruct Hb. apply H2. rewrite <- e. now apply in_map.
Qed.

Lemma ids_remove_nodup x l : NoDup (ids l) -> NoDup (ids (remove_id x l)).
Proof. apply nodup_map_filter. Qed.
Lemma keys_remove_nodup x l : NoDup (map keyof l) -> NoDup (map keyof (remove_id x l)).
Proof. apply nodup_map_filter. Qed.

Lemma length_remove l n : NoDup (ids l) -> In n l -> S (length (remove_id (n_id n) l)) = length l.
Proof.
  unfold remove_id, ids. induction l as [|m l IH]; cbn; intros Hnd Hin; [tauto|].
  inversion Hnd as [|? ? Hnot Hnd']; subst. destruct Hin as [->|Hin].
  - rewrite N.eqb_refl. cbn. f_equal.
    rewrite filter_all_id; auto.
    intros z Hz. apply negb_true_iff, N.eqb_neq. intro e. apply Hnot.
    rewrite <- e. now apply in_map.
  - destruct (N.eqb_spec (n_id m) (n_id n)) as [e|ne]; cbn.
    + exfalso. apply Hnot. rewrite e. now apply in_map.
    + f_equal. auto.
Qed.

(* ---------------------------------------------------------------- insert_node *)

Lemma insert_perm x l : Permutation (insert_node x l) (x :: l).
Proof.
  induction l as [|y l IH]; cbn; auto. destruct (key_ltb (n_ns x) (n_key x) y); auto.
  rewrite IH. apply perm_swap.
Qed.

Lemma in_insert x l m : In m (insert_node x l) <-> m = x \/ In m l.
Proof.
  split; intro H.
  - apply (Permutation_in _ (insert_perm x l)) in H. destruct H; auto.
  - apply (Permutation_in _ (Permutation_sym (insert_perm x l))). destruct H; [left|right]; auto.
Qed.

Lemma length_insert x l : length (insert_node x l) = S (length l).
Proof. apply (Permutation_length (insert_perm x l)). Qed.

(* ---------------------------------------------------------------- sums over nodes *)

Fixpoint nsum (g : node -> Z) (l : list node) : Z :=
  match l with [] => 0%Z | n :: l' => (g n + nsum g l')%Z end.

Definition ucontrib (n : node) : Z := if resident n then Z.of_N (n_size n) else 0%Z.
Definition scontrib (n : node) : Z := Z.of_N (n_size n).

Lemma used_sum_nsum l : used_sum l = nsum ucontrib l.
Proof.
  unfold used_sum, ucontrib. induction l as [|n l IH]; cbn; auto. rewrite <- IH.
  destruct (resident n); lia.
Qed.
Lemma size_sum_nsum l : size_sum l = nsum scontrib l.
Proof. unfold size_sum, scontrib. induction l as [|n l IH]; cbn; auto. now rewrite <- IH. Qed.

Lemma nsum_perm g l l' : Permutation l l' -> nsum g l = nsum g l'.
Proof. induction 1; cbn; lia. Qed.

Lemma nsum_insert g x l : nsum g (insert_node x l) = (g x + nsum g l)%Z.
Proof. rewrite (nsum_perm g _ _ (insert_perm x l)). reflexivity. Qed.

Lemma nsum_upd_notin g x f l : ~ In x (ids l) -> nsum g (upd_id x f l) = nsum g l.
Proof.
  unfold ids, upd_id. induction l as [|m l IH]; cbn; intro H; auto.
  destruct (N.eqb_spec (n_id m) x) as [e|ne]; [tauto|]. rewrite IH; tauto.
Qed.

Lemma nsum_upd g x f l n : NoDup (ids l) -> In n l -> n_id n = x ->
  nsum g (upd_id x f l) = (nsum g l - g n + g (f n))%Z.
Proof.
  unfold ids. induction l as [|m l IH]; cbn; intros Hnd Hin Hx; [tauto|].
  inversion Hnd as [|? ? Hnot Hnd']; subst. destruct Hin as [->|Hin].
  - rewrite N.eqb_refl. fold (upd_id (n_id n) f l). rewrite nsum_upd_notin by exact Hnot. lia.
  - destruct (N.eqb_spec (n_id m) (n_id n)) as [e|ne].
    + exfalso. apply Hnot. rewrite e. now apply in_map.
    + fold (upd_id (n_id n) f l). rewrite IH; auto. lia.
Qed.

Lemma nsum_remove_notin g x l : ~ In x (ids l) -> nsum g (remove_id x l) = nsum g l.
Proof.
  unfold ids, remove_id. induction l as [|m l IH]; cbn; intro H; auto.
  destruct (N.eqb_spec (n_id m) x) as [e|ne]; [tauto|]. cbn. rewrite IH; tauto.
Qed.

Lemma nsum_remove g l n : NoDup (ids l) -> In n l ->
  nsum g (remove_id (n_id n) l) = (nsum g l - g n)%Z.
Proof.
  unfold ids. induction l as [|m l IH]; cbn; intros Hnd Hin; [tauto|].
  inversion Hnd as [|? ? Hnot Hnd']; subst. destruct Hin as [->|Hin].
  - rewrite N.eqb_refl. cbn. fold (remove_id (n_id n) l). rewrite nsum_remove_notin by exact Hnot. lia.
  - destruct (N.eqb_spec (n_id m) (n_id n)) as [e|ne]; cbn.
    + exfalso. apply Hnot. rewrite e. now apply in_map.
    + fold (remove_id (n_id n) l). rewrite IH; auto. lia.
Qed.

Lemma nsum_nonneg g l : (forall n, 0 <= g n)%Z -> (0 <= nsum g l)%Z.
Proof. intro H. induction l as [|n l IH]; cbn; [lia|]. specialize (H n). lia. Qed.

Lemma nsum_ge_in g l n : (forall n, 0 <= g n)%Z -> In n l -> (g n <= nsum g l)%Z.
Proof.
  intros H. induction l as [|m l IH]; cbn; [tauto|]. intros [->|Hin].
  - pose proof (nsum_nonneg g l H). lia.
  - specialize (IH Hin). specialize (H m). lia.
Qed.

(* ---------------------------------------------------------------- handles *)

Definition hcount (nid : N) (hs : list (N * N)) : Z := Z.of_nat (handles_on nid hs).

Lemma hcount_nonneg x hs : (0 <= hcount x hs)%Z.
Proof. unfold hcount. lia. Qed.

Lemma hcount_cons h y x hs : hcount x ((h, y) :: hs) = ((if (y =? x)%N then 1 else 0) + hcount x hs)%Z.
Proof. unfold hcount, handles_on. cbn. destruct (y =? x); cbn [length]; lia. Qed.

Lemma hcount_pos_in x hs : (0 < hcount x hs)%Z <-> exists h, In (h, x) hs.
Proof.
  induction hs as [|[h y] hs IH].
  - cbn. split; [lia|]. intros (h & []).
  - rewrite hcount_cons. destruct (N.eqb_spec y x) as [->|ne].
    + pose proof (hcount_nonneg x hs). split; [|lia]. intros _. exists h. now left.
    + rewrite Z.add_0_l, IH. split; intros (h' & Hh); exists h'.
      * now right.
      * destruct Hh as [e|]; auto. inversion e; subst; tauto.
Qed.

Lemma hcount_zero_notin x hs : hcount x hs = 0%Z <-> forall h, ~ In (h, x) hs.
Proof.
  pose proof (hcount_nonneg x hs). pose proof (hcount_pos_in x hs) as P. split.
  - intros E h Hin. assert (0 < hcount x hs)%Z by (apply P; eauto). lia.
  - intro Hn. destruct (Z.eq_dec (hcount x hs) 0); auto.
    assert (0 < hcount x hs)%Z as Q by lia. apply P in Q. destruct Q as (h & Hh). now apply Hn in Hh.
Qed.

Definition hremove (h : N) (hs : list (N * N)) : list (N * N) := filter (fun q => negb (fst q =? h)) hs.

Lemma in_hremove h hs q : In q (hremove h hs) <-> In q hs /\ fst q <> h.
Proof. unfold hremove. rewrite filter_In, negb_true_iff, N.eqb_neq. tauto. Qed.

Lemma hremove_cons h q hs :
  hremove h (q :: hs) = if negb (fst q =? h) then q :: hremove h hs else hremove h hs.
Proof. reflexivity. Qed.

Lemma hremove_notin h hs : ~ In h (map fst hs) -> hremove h hs = hs.
Proof.
  intro Hnot. unfold hremove. apply filter_all_id. intros q Hq.
  apply negb_true_iff, N.eqb_neq. intro e'. apply Hnot. rewrite <- e'. now apply in_map.
Qed.

Lemma hcount_hremove h x hs y : NoDup (map fst hs) -> In (h, x) hs ->
  hcount y (hremove h hs) = (hcount y hs - (if (x =? y)%N then 1 else 0))%Z.
Proof.
  induction hs as [|[h' x'] hs IH]; intros Hnd Hin; [destruct Hin|].
  cbn [map fst] in Hnd. inversion Hnd as [|? ? Hnot Hnd']; subst. rewrite hremove_cons. cbn [fst].
  destruct Hin as [e|Hin].
  - inversion e; subst. rewrite N.eqb_refl. cbn [negb]. rewrite hcount_cons.
    rewrite hremove_notin by exact Hnot. lia.
  - destruct (N.eqb_spec h' h) as [->|ne]; cbn [negb].
    + exfalso. apply Hnot. change h with (fst (h, x)). now apply in_map.
    + rewrite !hcount_cons, IH; auto. lia.
Qed.

Lemma find_handle_some h (hs : list (N * N)) p : find (fun p => fst p =? h) hs = Some p -> In p hs /\ fst p = h.
Proof. intro H. apply find_some in H. destruct H as [a b]. apply N.eqb_eq in b. auto. Qed.

Lemma find_handle_none h (hs : list (N * N)) : find (fun p => fst p =? h) hs = None -> forall x, ~ In (h, x) hs.
Proof. intros H x Hin. eapply find_none in H; eauto. cbn in H. rewrite N.eqb_refl in H. discriminate. Qed.

(* ---------------------------------------------------------------- order list *)

Lemma nodup_app_intro {A} (a b : list A) :
  NoDup a -> NoDup b -> (forall y, In y a -> In y b -> False) -> NoDup (a ++ b).
Proof.
  induction a as [|x a IH]; cbn; intros Ha Hb Hd; auto. inversion Ha; subst. constructor.
  - rewrite in_app_iff. intros [H|H]; [tauto|]. eapply Hd; eauto.
  - apply IH; auto. intros y Hy. apply Hd. now right.
Qed.

Lemma in_remove_order x l y : In y (remove_order x l) <-> In y l /\ y <> x.
Proof. unfold remove_order. rewrite filter_In, negb_true_iff, N.eqb_neq. tauto. Qed.

Lemma nodup_remove_order x l : NoDup l -> NoDup (remove_order x l).
Proof. unfold remove_order. apply NoDup_filter. Qed.

Lemma in_order_true x l : in_order x l = true <-> In x l.
Proof.
  unfold in_order. rewrite existsb_exists. split.
  - intros (y & Hy & e). apply N.eqb_eq in e. now subst.
  - intro H. exists x. split; auto. apply N.eqb_refl.
Qed.

(* ---------------------------------------------------------------- counting events *)

Lemma count_ev_cons p e lg : count_ev p (e :: lg) = ((if p e then 1 else 0) + count_ev p lg)%nat.
Proof. unfold count_ev. cbn. destruct (p e); reflexivity. Qed.

Lemma count_ev_app p a b : count_ev p (a ++ b) = (count_ev p a + count_ev p b)%nat.
Proof. unfold count_ev. rewrite filter_app, app_length. reflexivity. Qed.

Lemma count_ev_zero p lg : count_ev p lg = 0%nat <-> forall e, In e lg -> p e = false.
Proof.
  unfold count_ev. induction lg as [|e lg IH]; cbn.
  - split; auto. intros _ e [].
  - destruct (p e) eqn:E; cbn.
    + split; [discriminate|]. intro H. specialize (H e (or_introl eq_refl)). congruence.
    + rewrite IH. split; intros H e'; [intros [<-|]; auto|]. intro. apply H. now right.
Qed.

Lemma count_ev_pos p lg : (0 < count_ev p lg)%nat <-> exists e, In e lg /\ p e = true.
Proof.
  unfold count_ev. split.
  - intro H. destruct (filter p lg) as [|e r] eqn:E; cbn in H; [lia|].
    assert (In e (filter p lg)) as Hin by (rewrite E; now left). apply filter_In in Hin. eauto.
  - intros (e & Hin & He). assert (In e (filter p lg)) as H by (apply filter_In; auto).
    destruct (filter p lg); cbn in *; [tauto|lia].
Qed.

Lemma count_dels_ev p ds lg :
  count_ev p (dels_ev ds lg) = (count_ev p (map EvDelRun ds) + count_ev p lg)%nat.
Proof.
  unfold dels_ev. rewrite count_ev_app. f_equal. unfold count_ev.
  rewrite <- (rev_length (filter p (map EvDelRun ds))).
  f_equal. induction (map EvDelRun ds) as [|e r IH]; cbn; auto.
  rewrite filter_app, IH. cbn. destruct (p e); cbn; auto. now rewrite app_nil_r.
Qed.

Lemma in_dels_ev e ds lg : In e (dels_ev ds lg) <-> (exists d, In d ds /\ e = EvDelRun d) \/ In e lg.
Proof.
  unfold dels_ev. rewrite in_app_iff, <- in_rev, in_map_iff.
  split; intros [(d & a & b)|H]; auto; left; exists d; auto.
Qed.

Lemma in_final_ev e v f lg : In e (final_ev v f lg) <-> (exists x, v = Some x /\ e = EvFinal x f) \/ In e lg.
Proof.
  destruct v as [x|]; cbn.
  - split; intros [H|H]; auto.
    + left. exists x. auto.
    + destruct H as (y & a & b). inversion a; subst. auto.
  - split; auto. intros [(x & a & _)|]; [discriminate|auto].
Qed.
