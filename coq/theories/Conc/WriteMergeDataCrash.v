(* Conc/WriteMergeDataCrash.v — the journal log of the writer protocol (Conc/WriteMergeData.v) read as a
   history of the L2 persistence model (Store/Crash.v): a successful writeJournal call is [PWrite count
   sync] (append, then Sync iff asked), a failed one [PSkipSeq count] (nothing durable, its numbers
   consumed), sequence numbers consumed in between (a committing transaction) are [PSkipSeq gap].  With
   [crash_safe] of the L2 model: a writer that asked for Sync and got nil is recovered from EVERY crash
   image of EVERY later history of the store. *)
From Coq Require Import List NArith Bool Arith Lia.
From GL Require Import Conc.WriteMerge Conc.WriteMergeProofs Conc.WriteMergeData Conc.WriteMergeDataProofs
  Conc.WriteMergeDataTheorems Store.Crash Store.CrashProofs.
Import ListNotations.
Local Open Scope N_scope.

Definition batch_of (r : drec) : batch := {| b_seq := dr_seq r; b_n := rec_count r |}.

(* lo = the next free sequence number (db.seq + 1) before the record *)
Fixpoint pops_of (lo : N) (JL : list drec) : list pop :=
  match JL with
  | [] => []
  | r :: t =>
      PSkipSeq (dr_seq r - lo) ::
      (if dr_ok r then PWrite (rec_count r) (dr_sync r) else PSkipSeq (rec_count r)) ::
      pops_of (dr_seq r + rec_count r) t
  end.

Lemma p_acked_mono s o b : In b (p_acked s) -> In b (p_acked (pstep s o)).
Proof.
  intros H. destruct o; cbn [pstep]; auto.
  - destruct (n =? 0); auto. cbn [p_acked]. destruct sync; auto. apply in_or_app; auto.
  - destruct (p_frozen s); auto.
  - destruct (p_frozen s) as [f|]; auto. destruct (last (map Some (j_recs f)) None); auto. destruct (p_fedit s); auto.
  - match goal with |- context [if ?c then _ else _] => destruct c end; auto.
  - destruct (p_frozen s); auto. destruct (j_recs (p_live s)); auto. destruct (n =? 0); auto. cbn [p_acked].
    apply in_or_app; auto.
  - unfold restart_state. destruct (replay_man _ _ _ _) as [[jn sq] tabs]. cbn [p_acked]. exact H.
  - destruct (Nat.eqb _ _); auto. unfold restart_state. destruct (replay_man _ _ _ _) as [[jn sq] tabs]. cbn [p_acked]. exact H.
Qed.

Lemma p_acked_mono_run ops : forall s b, In b (p_acked s) -> In b (p_acked (fold_left pstep ops s)).
Proof. induction ops as [|o ops IH]; intros s b H; cbn [fold_left]; auto. apply IH. apply p_acked_mono. exact H. Qed.

Lemma pops_acked JL : forall lo s r, jsorted lo JL -> (p_seq s + 1 = lo) -> In r JL ->
  dr_ok r = true -> dr_sync r = true -> (1 <= rec_count r) ->
  In (batch_of r) (p_acked (fold_left pstep (pops_of lo JL) s)).
Proof.
  induction JL as [|a JL IH]; intros lo s r Hs Hlo Hin Hok Hsy Hc; [contradiction|].
  cbn [jsorted] in Hs. destruct Hs as [Hle Hs]. cbn [pops_of fold_left].
  set (s1 := pstep s (PSkipSeq (dr_seq a - lo))).
  assert (H1 : p_seq s1 + 1 = dr_seq a) by (unfold s1; cbn [pstep p_seq]; lia).
  set (s2 := pstep s1 (if dr_ok a then PWrite (rec_count a) (dr_sync a) else PSkipSeq (rec_count a))).
  assert (H2 : p_seq s2 + 1 = dr_seq a + rec_count a).
  { unfold s2. destruct (dr_ok a); cbn [pstep]; [|cbn [p_seq]; lia].
    destruct (rec_count a =? 0) eqn:E0; cbn [p_seq]; [apply N.eqb_eq in E0|]; lia. }
  destruct Hin as [->|Hin].
  - apply p_acked_mono_run. unfold s2. rewrite Hok, Hsy. cbn [pstep].
    assert (E0 : (rec_count r =? 0) = false) by (apply N.eqb_neq; lia). rewrite E0. cbn [p_acked].
    apply in_or_app. right. left. unfold batch_of. f_equal. lia.
  - apply (IH _ s2 r Hs H2 Hin Hok Hsy Hc).
Qed.

Lemma seg_len_in (b : list seg) i n : In (i, n) b -> (n <= seg_len b).
Proof.
  induction b as [|x b IH]; simpl; intros H; [contradiction|]. destruct H as [->|H]; simpl; [lia|].
  specialize (IH H). lia.
Qed.

Section Durable.
Variable mp : mparams.
Variable rq : reqtab.

(* every writer that asked for Sync and holds (or has returned) nil: its record is recovered — with the
   sequence numbers it was given — from every crash image of the store, after any later history [more]
   of writes, rotations, flushes, transactions, crashes and reopenings *)
Theorem sync_ack_is_durable n x i w : xreachable mp v_real rq n 0 x -> nth_error (ws (xb x)) i = Some w ->
  (pc w = WRet ROk \/ pc w = WDone ROk) -> rq_sync (rq i) = true -> (1 <= req_nrec (rq i)) ->
  exists r, In r (djl (xd x)) /\ In i (rec_ids r) /\
    forall more img, is_image (prun (pops_of 1 (djl (xd x)) ++ more)) img -> In (batch_of r) (recover img).
Proof.
  intros R Hi Hp Hs Hn. destruct (sync_ack_implies_synced mp rq n 0 x i w R Hi Hp Hs) as (r & Hr & Hok & Hin & Hsy).
  exists r. repeat split; auto. intros more img Himg.
  destruct (crash_safe _ _ Himg) as [Hack _]. apply Hack. unfold prun. rewrite fold_left_app.
  apply p_acked_mono_run. apply pops_acked; auto.
  - apply (seq_ranges_increase mp rq n 0 x R).
  - (* the record is not empty: it holds the records of i *)
    pose proof (xreachable_XI mp rq n 0 x R) as HX.
    destruct (Forall2_in_l _ _ _ r (xi_J _ _ _ HX) Hr) as (j & _ & HG). pose proof (rg_nrec _ _ _ HG) as Hnr.
    unfold rec_ids, seg_ids in Hin. apply in_map_iff in Hin. destruct Hin as ([i' k] & Hfst & Hseg). simpl in Hfst. subst i'.
    rewrite Forall_forall in Hnr. pose proof (Hnr _ Hseg) as Hk. simpl in Hk.
    pose proof (seg_len_in _ _ _ Hseg). unfold rec_count. lia.
Qed.

End Durable.
