(* Conc/VersionLayerProofs.v — the version layer (model Conc/VersionLayer.v) only sends event
   sequences that satisfy the protocol env_ok of Conc/RefLoop.v, for every sequence of operations
   that respects the API discipline: a simulation between the version-layer state (with the ghost
   bookkeeping of the discipline) and the protocol checker's state.  Composed with the theorems about
   the loop (Conc/RefLoopProofs.v) this gives the end-to-end statements of Props/C07.v. *)
From Coq Require Import NArith List Bool Lia Permutation.
From GL Require Import Conc.RefLoop Conc.RefLoopLemmas Conc.RefLoopInv Conc.RefLoopProofs
  Conc.VersionLayer Conc.VersionLayerLemmas.
Import ListNotations.
Open Scope N_scope.

(* ---------- the protocol checker on plain event lists; ticks ---------- *)

Fixpoint env_evs (e : envst) (evs : list event) : option envst :=
  match evs with
  | [] => Some e
  | ev :: evs' => match env_step e ev with Some e' => env_evs e' evs' | None => None end
  end.

Lemma env_run_from_evs : forall ins e, env_run_from e ins = env_evs e (map fst ins).
Proof. induction ins as [|i ins IH]; intros e; cbn; auto. destruct (env_step e (fst i)); auto. Qed.

Lemma env_evs_untick : forall evs e, env_evs e (untick evs) = env_evs e evs.
Proof.
  induction evs as [|ev evs IH]; intros e; [reflexivity|].
  unfold untick. cbn [filter]. fold (untick evs).
  destruct ev; cbn [is_tick negb env_evs]; try (destruct (env_step e _); [apply IH|reflexivity]).
  cbn [env_step]. apply IH.
Qed.

Lemma env_evs_app : forall a b e,
  env_evs e (a ++ b) = match env_evs e a with Some e1 => env_evs e1 b | None => None end.
Proof. induction a as [|ev a IH]; intros b e; cbn; auto. destruct (env_step e ev); auto. Qed.

(* ---------- multiset of held references ---------- *)

Fixpoint cnth (l : list N) (v : N) : N :=
  match l with
  | [] => 0
  | x :: l' => (if x =? v then 1 else 0) + cnth l' v
  end.

Lemma cnth_smem : forall l v, smem l v = true <-> 1 <= cnth l v.
Proof.
  induction l as [|x l IH]; intros v; cbn [smem cnth].
  - split; [discriminate|lia].
  - destruct (x =? v); cbn [orb].
    + split; [intros _; lia|reflexivity].
    + rewrite IH. lia.
Qed.

Lemma cnth_zero : forall l v, ~ In v l -> cnth l v = 0.
Proof.
  intros l v H. destruct (N.eq_dec (cnth l v) 0) as [|Hne]; auto.
  exfalso. apply H. apply smem_In. apply cnth_smem. lia.
Qed.

Lemma cnth_rem1_eq : forall l v, smem l v = true -> cnth (rem1 l v) v = cnth l v - 1.
Proof.
  induction l as [|x l IH]; intros v H; cbn [smem cnth rem1] in *; [discriminate|].
  destruct (x =? v) eqn:E; cbn [orb] in *.
  - lia.
  - cbn [cnth]. rewrite E. rewrite IH by exact H. apply cnth_smem in H. lia.
Qed.

Lemma cnth_rem1_neq : forall l v w, v <> w -> cnth (rem1 l v) w = cnth l w.
Proof.
  induction l as [|x l IH]; intros v w Hne; cbn [cnth rem1]; auto.
  destruct (x =? v) eqn:E.
  - apply N.eqb_eq in E. subst. destruct (v =? w) eqn:E2; [apply N.eqb_eq in E2; contradiction|]. lia.
  - cbn [cnth]. rewrite IH by exact Hne. reflexivity.
Qed.

Lemma rem1_In : forall l v w, In w (rem1 l v) -> In w l.
Proof.
  induction l as [|x l IH]; intros v w H; cbn in *; auto.
  destruct (x =? v); [right; exact H|]. destruct H as [H|H]; [left; exact H|right; apply (IH v w H)].
Qed.

(* ---------- the protocol checker's steps, in the form the simulation uses ---------- *)

Lemma env_ref_ok : forall e c rest files,
  e_chain e = c :: rest -> NoDup files -> settled (c :: rest) = true -> v_delta c = None ->
  (forall x, In x files -> ~ In x (v_files c) -> ~ In x (e_seen e)) ->
  env_step e (ERef (e_nid e) files) =
    Some {| e_nid := e_nid e + 1;
            e_chain := {| v_id := e_nid e; v_files := files; v_late := []; v_delta := None; v_rel := false |}
                       :: c :: rest;
            e_seen := ldiff files (v_files c) ++ e_seen e |}.
Proof.
  intros e c rest files Hch Hnd Hset Hdl Hfresh. cbn [env_step]. rewrite Hch, N.eqb_refl, Hset.
  apply nodupb_NoDup in Hnd. rewrite Hnd. cbn [andb]. unfold has_delta. rewrite Hdl. cbn [negb andb].
  assert (Hd : disjb (ldiff files (v_files c)) (e_seen e) = true).
  { apply disjb_spec. intros x Hx. apply ldiff_In in Hx. apply Hfresh; tauto. }
  rewrite Hd. reflexivity.
Qed.

Lemma env_delta_ok : forall e n c rest a d,
  e_chain e = n :: c :: rest -> v_delta c = None -> NoDup a -> NoDup d ->
  incl d (ldiff (v_files c) (v_late c)) -> incl (v_late c) a ->
  (forall x, In x (ldiff a (v_late c)) -> In x (v_files c) -> In x d) ->
  incl (ldiff (v_files c) d ++ ldiff a (v_late c)) (v_files n) ->
  (forall x, In x (ldiff (v_files n) (ldiff (v_files c) d ++ ldiff a (v_late c))) -> ~ In x (v_files c)) ->
  env_step e (EDelta (v_id c) a d) =
    Some {| e_nid := e_nid e;
            e_chain := set_late n (ldiff (v_files n) (ldiff (v_files c) d ++ ldiff a (v_late c)))
                       :: set_delta c {| d_added := a; d_deleted := d |} :: rest;
            e_seen := e_seen e |}.
Proof.
  intros e n c rest a d Hch Hdl Ha Hd Hdin Hlate Hmove Ht Hln. cbn [env_step]. rewrite Hch, N.eqb_refl.
  unfold has_delta. rewrite Hdl. cbn [negb andb].
  apply nodupb_NoDup in Ha. apply nodupb_NoDup in Hd. rewrite Ha, Hd. cbn [andb].
  apply inclb_incl in Hdin. apply inclb_incl in Hlate. rewrite Hdin, Hlate. cbn [andb].
  assert (H1 : disjb (ldiff a (v_late c)) (ldiff (v_files c) d) = true).
  { apply disjb_spec. intros x Hx Hy. apply ldiff_In in Hy. destruct Hy as [Hy Hnd]. apply Hnd. apply Hmove; auto. }
  rewrite H1. cbn [andb]. apply inclb_incl in Ht. rewrite Ht. cbn [andb].
  assert (H2 : disjb (ldiff (v_files n) (ldiff (v_files c) d ++ ldiff a (v_late c))) (v_files c) = true).
  { apply disjb_spec. exact Hln. }
  rewrite H2. reflexivity.
Qed.

Lemma rel_in_ok : forall ch c, NoDup (map v_id ch) -> In c ch -> v_rel c = false -> has_delta c = true ->
  rel_in ch (v_id c) (v_files c) = Some (map (relmap (v_id c)) ch).
Proof.
  induction ch as [|x ch IH]; intros c Hnd Hin Hr Hd; [destruct Hin|].
  cbn [map] in Hnd. inversion Hnd as [|? ? Hni Hnd']; subst. cbn [rel_in map].
  destruct (v_id x =? v_id c) eqn:E.
  - apply N.eqb_eq in E. assert (x = c).
    { destruct Hin as [|Hin]; auto. exfalso. apply Hni. rewrite E. apply in_map. exact Hin. }
    subst x. rewrite Hr, Hd. cbn [negb andb]. rewrite (proj2 (leqb_eq _ _) eq_refl).
    unfold relmap at 1. rewrite N.eqb_refl. rewrite map_relmap_id; auto.
    intros y Hy He. apply Hni. rewrite <- He. apply in_map. exact Hy.
  - destruct Hin as [ -> |Hin]; [rewrite N.eqb_refl in E; discriminate|].
    rewrite (IH c Hnd' Hin Hr Hd). apply N.eqb_neq in E. rewrite (relmap_neq _ _ E). reflexivity.
Qed.

Lemma env_rel_ok : forall e c, NoDup (map v_id (e_chain e)) -> In c (e_chain e) -> v_rel c = false ->
  has_delta c = true ->
  env_step e (ERel (v_id c) (v_files c)) =
    Some {| e_nid := e_nid e; e_chain := map (relmap (v_id c)) (e_chain e); e_seen := e_seen e |}.
Proof. intros e c Hnd Hin Hr Hd. cbn [env_step]. rewrite (rel_in_ok _ c Hnd Hin Hr Hd). reflexivity. Qed.

Lemma env_abandon_ok : forall e c rest, e_chain e = c :: rest -> settled (c :: rest) = true ->
  env_step e (EAbandon (e_nid e)) = Some {| e_nid := e_nid e + 1; e_chain := e_chain e; e_seen := e_seen e |}.
Proof. intros e c rest Hch Hs. cbn [env_step]. rewrite N.eqb_refl. rewrite Hch at 1 2. rewrite Hs. reflexivity. Qed.

Lemma settled_rest : forall h rest, Forall (fun c => has_delta c = true) rest -> settled (h :: rest) = true.
Proof. intros h rest H. destruct rest as [|c rest]; [reflexivity|]. inversion H; subst. cbn. assumption. Qed.

(* ---------- the simulation invariant ---------- *)

Definition old_of (c : ver) (o : vrec) : Prop := vr_id o = v_id c /\ flat (vr_levels o) = v_files c.

Record VInv (st : vstate) (g : ghost) (e : envst) : Prop := {
  vi_nid : e_nid e = vs_nvid st;
  vi_seen : e_seen e = g_seen g;
  vi_cur_seen : incl (flat (vr_levels (vs_cur st))) (g_seen g);
  vi_cur_nd : NoDup (flat (vr_levels (vs_cur st)));
  vi_cur_ref : vr_ref (vs_cur st) = 1 + cnth (g_held g) (vr_id (vs_cur st));
  vi_cur_rel : vr_released (vs_cur st) = false;
  vi_ids : NoDup (map v_id (e_chain e));
  vi_ids_lt : forall c, In c (e_chain e) -> v_id c < e_nid e;
  vi_chain : exists h rest, e_chain e = h :: rest /\
      v_id h = vr_id (vs_cur st) /\ v_files h = flat (vr_levels (vs_cur st)) /\
      v_rel h = false /\ v_delta h = None /\
      v_late h = (if vs_manifest st then [] else flat (vr_levels (vs_cur st))) /\
      Forall (fun c => has_delta c = true) rest /\
      (forall c, In c rest -> v_rel c = false -> exists o, In o (vs_olds st) /\ old_of c o) /\
      (forall o, In o (vs_olds st) -> exists c, In c rest /\ v_rel c = false /\ old_of c o);
  vi_olds_ref : forall o, In o (vs_olds st) -> vr_ref o = cnth (g_held g) (vr_id o) /\ 1 <= vr_ref o;
  vi_olds_nd : NoDup (map vr_id (vs_olds st));
  vi_held : forall v, In v (g_held g) -> v = vr_id (vs_cur st) \/ exists o, In o (vs_olds st) /\ vr_id o = v }.

Lemma vinv_old_not_cur : forall st g e o, VInv st g e -> In o (vs_olds st) -> vr_id o <> vr_id (vs_cur st).
Proof.
  intros st g e o HI Ho. destruct (vi_chain _ _ _ HI) as (h & rest & Hch & Hid & _ & _ & _ & _ & _ & _ & H2).
  destruct (H2 o Ho) as (c & Hc & _ & (Hoid & _)). pose proof (vi_ids _ _ _ HI) as Hnd. rewrite Hch in Hnd.
  cbn in Hnd. inversion Hnd as [|? ? Hni _]; subst. intros He. apply Hni. rewrite Hid, <- He, Hoid. apply in_map. exact Hc.
Qed.

Lemma vinv_held_lt : forall st g e v, VInv st g e -> In v (g_held g) -> v < vs_nvid st.
Proof.
  intros st g e v HI Hv. rewrite <- (vi_nid _ _ _ HI).
  destruct (vi_chain _ _ _ HI) as (h & rest & Hch & Hid & _ & _ & _ & _ & _ & _ & H2).
  destruct (vi_held _ _ _ HI v Hv) as [ -> |(o & Ho & <-)].
  - rewrite <- Hid. apply (vi_ids_lt _ _ _ HI). rewrite Hch. left. reflexivity.
  - destruct (H2 o Ho) as (c & Hc & _ & (Hoid & _)). rewrite Hoid. apply (vi_ids_lt _ _ _ HI). rewrite Hch. right. exact Hc.
Qed.

(* ---------- session.version() ---------- *)

Definition same_cur (st st' : vstate) : Prop :=
  vr_levels (vs_cur st') = vr_levels (vs_cur st) /\ vr_id (vs_cur st') = vr_id (vs_cur st) /\
  vs_manifest st' = vs_manifest st /\ vs_nvid st' = vs_nvid st.

Lemma acquire_sim : forall st g e, VInv st g e ->
  exists st', acquire st = VOk (st', []) /\
    VInv st' {| g_held := vr_id (vs_cur st) :: g_held g; g_seen := g_seen g |} e /\ same_cur st st'.
Proof.
  intros st g e HI. unfold acquire, incref. rewrite (vi_cur_rel _ _ _ HI).
  assert (Hz : (vr_ref (vs_cur st) =? 0) = false) by (apply N.eqb_neq; rewrite (vi_cur_ref _ _ _ HI); lia).
  rewrite Hz. eexists. split; [reflexivity|]. split; [|repeat split].
  destruct HI as [H1 H2 H3 H4 H5 H6 H7 H8 H9 H10 H11 H12].
  assert (Hne : forall o, In o (vs_olds st) -> vr_id o <> vr_id (vs_cur st)).
  { intros o Ho. apply (vinv_old_not_cur st g e o); [constructor; assumption|exact Ho]. }
  constructor; cbn [set_cur set_ref vs_cur vs_olds vs_nvid vs_manifest vr_id vr_levels vr_ref vr_released g_held g_seen]; auto.
  - cbn [cnth]. rewrite N.eqb_refl. rewrite H5. lia.
  - intros o Ho. destruct (H10 o Ho) as [Hr Hp]. split; auto. cbn [cnth].
    destruct (vr_id (vs_cur st) =? vr_id o) eqn:E; [apply N.eqb_eq in E; exfalso; apply (Hne o Ho); auto|]. rewrite Hr. lia.
  - intros v [ <- |Hv]; [left; reflexivity|apply H12; exact Hv].
Qed.

(* ---------- version.release() ---------- *)

Lemma release_old_spec : forall olds v o,
  NoDup (map vr_id olds) -> In o olds -> vr_id o = v -> 1 <= vr_ref o ->
  exists olds' evs, release_old olds v = VOk (olds', evs) /\
    ((vr_ref o = 1 /\ evs = [ERel v (flat (vr_levels o))] /\
      (forall x, In x olds' <-> In x olds /\ vr_id x <> v))
     \/
     (1 < vr_ref o /\ evs = [] /\
      (forall x, In x olds' <-> (In x olds /\ vr_id x <> v) \/ x = set_ref o (vr_ref o - 1) (vr_released o)))) /\
    NoDup (map vr_id olds').
Proof.
  induction olds as [|o0 olds IH]; intros v o Hnd Hin Hid Hpos; [destruct Hin|].
  cbn [map] in Hnd. inversion Hnd as [|? ? Hni Hnd']; subst. cbn [release_old].
  destruct (vr_id o0 =? vr_id o) eqn:E.
  - apply N.eqb_eq in E. assert (o0 = o).
    { destruct Hin as [|Hin]; auto. exfalso. apply Hni. rewrite E. apply in_map. exact Hin. }
    subst o0. unfold releaseNB.
    assert (Hz : (vr_ref o =? 0) = false) by (apply N.eqb_neq; lia). rewrite Hz.
    destruct (vr_ref o =? 1) eqn:E1.
    + apply N.eqb_eq in E1. cbn [set_ref vr_ref]. cbn [N.eqb]. exists olds, [ERel (vr_id o) (flat (vr_levels o))].
      split; [reflexivity|]. split; [|exact Hnd']. left. split; [exact E1|]. split; [reflexivity|].
      intros x. split.
      * intros Hx. split; [right; exact Hx|]. intros He. apply Hni. rewrite <- He. apply in_map. exact Hx.
      * intros [[ <- |Hx] Hne]; [congruence|exact Hx].
    + apply N.eqb_neq in E1. cbn [set_ref vr_ref].
      assert (Hz2 : (vr_ref o - 1 =? 0) = false) by (apply N.eqb_neq; lia). rewrite Hz2.
      eexists _, []. split; [reflexivity|]. split.
      * right. split; [lia|]. split; [reflexivity|]. intros x. cbn [In]. split.
        -- intros [ <- |Hx]; [right; reflexivity|]. left. split; [right; exact Hx|].
           intros He. apply Hni. rewrite <- He. apply in_map. exact Hx.
        -- intros [[[ <- |Hx] Hne]| -> ]; [congruence|right; exact Hx|left; reflexivity].
      * cbn [map set_ref vr_id]. constructor; assumption.
  - apply N.eqb_neq in E. destruct Hin as [ -> |Hin]; [congruence|].
    destruct (IH (vr_id o) o Hnd' Hin eq_refl Hpos) as (olds2 & evs & Hr & Hcases & Hnd2). rewrite Hr.
    exists (o0 :: olds2), evs. split; [reflexivity|]. split.
    + destruct Hcases as [(H1 & H2 & H3)|(H1 & H2 & H3)]; [left|right]; (split; [exact H1|]; split; [exact H2|]).
      * intros x. cbn [In]. rewrite H3. split.
        -- intros [ <- |[Hx Hne]]; [split; [left; reflexivity|exact E]|split; [right; exact Hx|exact Hne]].
        -- intros [[ <- |Hx] Hne]; [left; reflexivity|right; split; assumption].
      * intros x. cbn [In]. rewrite H3. split.
        -- intros [ <- |[[Hx Hne]| -> ]]; [left; split; [left; reflexivity|exact E] | left; split; [right; exact Hx|exact Hne] | right; reflexivity].
        -- intros [[[ <- |Hx] Hne]| -> ]; [left; reflexivity | right; left; split; assumption | right; right; reflexivity].
    + cbn [map]. constructor; [|exact Hnd2]. intros Hi. apply in_map_iff in Hi. destruct Hi as (x & Hxid & Hx).
      destruct Hcases as [(_ & _ & H3)|(_ & _ & H3)]; apply H3 in Hx.
      * destruct Hx as [Hx _]. apply Hni. rewrite <- Hxid. apply in_map. exact Hx.
      * destruct Hx as [[Hx _]| -> ]; [apply Hni; rewrite <- Hxid; apply in_map; exact Hx|]. cbn in Hxid. congruence.
Qed.

Lemma nodup_map_inj : forall {A} (f : A -> N) l a b,
  NoDup (map f l) -> In a l -> In b l -> f a = f b -> a = b.
Proof.
  induction l as [|x l IH]; intros a b Hnd Ha Hb He; [destruct Ha|].
  cbn [map] in Hnd. inversion Hnd as [|? ? Hni Hnd']; subst.
  destruct Ha as [ <- |Ha]; destruct Hb as [ <- |Hb]; auto.
  - exfalso. apply Hni. rewrite He. apply in_map. exact Hb.
  - exfalso. apply Hni. rewrite <- He. apply in_map. exact Ha.
Qed.

Lemma map_relmap_ids : forall v ch, map v_id (map (relmap v) ch) = map v_id ch.
Proof. intros. rewrite map_map. apply map_ext. intros. apply relmap_id. Qed.

Lemma relmap_has_delta : forall v x, has_delta (relmap v x) = has_delta x.
Proof. intros. unfold has_delta. rewrite relmap_delta. reflexivity. Qed.

Lemma release_sim : forall st g e v, VInv st g e -> smem (g_held g) v = true ->
  exists st' evs e', release st v = VOk (st', evs) /\ env_evs e evs = Some e' /\
    VInv st' {| g_held := rem1 (g_held g) v; g_seen := g_seen g |} e' /\ same_cur st st'.
Proof.
  intros st g e v HI Hv.
  assert (Hne : forall o, In o (vs_olds st) -> vr_id o <> vr_id (vs_cur st)).
  { intros o Ho. apply (vinv_old_not_cur st g e o HI Ho). }
  pose proof (proj1 (cnth_smem _ _) Hv) as Hcv.
  destruct HI as [H1 H2 H3 H4 H5 H6 H7 H8 H9 H10 H11 H12].
  unfold release. destruct (vr_id (vs_cur st) =? v) eqn:E.
  - (* a reader's reference on the current version *)
    apply N.eqb_eq in E. subst v. unfold releaseNB.
    assert (Hz : (vr_ref (vs_cur st) =? 0) = false) by (apply N.eqb_neq; lia).
    assert (Hz1 : (vr_ref (vs_cur st) =? 1) = false) by (apply N.eqb_neq; lia).
    rewrite Hz, Hz1. eexists _, [], e. split; [reflexivity|]. split; [reflexivity|]. split; [|repeat split].
    constructor; cbn [set_cur set_ref vs_cur vs_olds vs_nvid vs_manifest vr_id vr_levels vr_ref vr_released g_held g_seen]; auto.
    + rewrite cnth_rem1_eq by exact Hv. lia.
    + intros o Ho. destruct (H10 o Ho) as [Hr Hp]. split; auto.
      rewrite cnth_rem1_neq; [exact Hr|]. intros He. apply (Hne o Ho). auto.
    + intros w Hw. apply H12. apply (rem1_In _ _ _ Hw).
  - (* a reference on a replaced version *)
    apply N.eqb_neq in E.
    destruct (H12 v (proj1 (smem_In _ _) Hv)) as [->|(o & Ho & Hoid)]; [congruence|].
    destruct (H10 o Ho) as [Hor Hop].
    destruct (release_old_spec (vs_olds st) v o H11 Ho Hoid Hop) as (olds' & evs & Hrel & Hcases & Hnd').
    rewrite Hrel.
    destruct H9 as (h & rest & Hch & Hid & Hfiles & Hhrel & Hhdl & Hlate & Hfa & HO1 & HO2).
    destruct (HO2 o Ho) as (c & Hc & Hcrel & (Hcid & Hcfiles)).
    assert (Hvc : v = v_id c) by congruence.
    destruct Hcases as [(Href1 & -> & Holds')|(Href1 & -> & Holds')].
    + (* the last reference: the release task is sent *)
      assert (Hcd : has_delta c = true) by (rewrite Forall_forall in Hfa; apply Hfa; exact Hc).
      assert (Hcin : In c (e_chain e)) by (rewrite Hch; right; exact Hc).
      eexists _, _, _. split; [reflexivity|]. split.
      { cbn [env_evs]. rewrite Hcfiles, Hvc. rewrite (env_rel_ok e c H7 Hcin Hcrel Hcd). reflexivity. }
      split; [|repeat split].
      assert (Hhne : v_id h <> v_id c) by (rewrite Hid, <- Hvc; exact E).
      constructor; cbn [vs_cur vs_olds vs_nvid vs_manifest g_held g_seen e_nid e_chain e_seen]; auto.
      * rewrite cnth_rem1_neq by (intros He; apply E; auto). exact H5.
      * rewrite map_relmap_ids. exact H7.
      * intros c' Hc'. apply in_map_iff in Hc'. destruct Hc' as (c0 & <- & Hc0). rewrite relmap_id. apply H8. exact Hc0.
      * exists h, (map (relmap (v_id c)) rest). rewrite Hch. cbn [map]. rewrite (relmap_neq _ _ Hhne).
        split; [reflexivity|]. repeat (split; [assumption|]). split; [|split].
        -- apply Forall_forall. intros c' Hc'. apply in_map_iff in Hc'. destruct Hc' as (c0 & <- & Hc0).
           rewrite relmap_has_delta. rewrite Forall_forall in Hfa. apply Hfa. exact Hc0.
        -- intros c' Hc' Hr'. apply in_map_iff in Hc'. destruct Hc' as (c0 & <- & Hc0).
           destruct (N.eq_dec (v_id c0) (v_id c)) as [He|Hn0].
           ++ exfalso. unfold relmap in Hr'. rewrite (proj2 (N.eqb_eq _ _) He) in Hr'. cbn in Hr'. discriminate.
           ++ rewrite (relmap_neq _ _ Hn0) in *. destruct (HO1 c0 Hc0 Hr') as (o0 & Ho0 & Hof). exists o0. split; [|exact Hof].
              apply Holds'. split; [exact Ho0|]. destruct Hof as [Hof _]. congruence.
        -- intros o1 Ho1. apply Holds' in Ho1. destruct Ho1 as [Ho1 Hn1].
           destruct (HO2 o1 Ho1) as (c1 & Hc1 & Hr1 & Hof1). exists c1. split; [|split; assumption].
           apply in_map_iff. exists c1. split; [|exact Hc1]. apply relmap_neq. destruct Hof1 as [Hof1 _]. congruence.
      * intros o1 Ho1. apply Holds' in Ho1. destruct Ho1 as [Ho1 Hn1]. destruct (H10 o1 Ho1) as [Hr1 Hp1]. split; auto.
        rewrite cnth_rem1_neq by (intros He; apply Hn1; auto). exact Hr1.
      * intros w Hw. pose proof (rem1_In _ _ _ Hw) as Hw'. destruct (H12 w Hw') as [->|(ow & How & Howid)]; [left; reflexivity|].
        right. exists ow. split; [|exact Howid]. apply Holds'. split; [exact How|].
        intros He. rewrite Howid in He. subst w.
        assert (Hc0 : cnth (rem1 (g_held g) v) v = 0) by (rewrite cnth_rem1_eq by exact Hv; rewrite <- Hoid, <- Hor; lia).
        apply smem_In in Hw. apply cnth_smem in Hw. rewrite He in Hw. lia.
    + (* other references remain *)
      eexists _, [], e. split; [reflexivity|]. split; [reflexivity|]. split; [|repeat split].
      constructor; cbn [vs_cur vs_olds vs_nvid vs_manifest g_held g_seen]; auto.
      * rewrite cnth_rem1_neq by (intros He; apply E; auto). exact H5.
      * exists h, rest. split; [exact Hch|]. repeat (split; [assumption|]). split.
        -- intros c0 Hc0 Hr0. destruct (HO1 c0 Hc0 Hr0) as (o0 & Ho0 & Hof).
           destruct (N.eq_dec (vr_id o0) v) as [He|Hn0].
           ++ assert (o0 = o) by (apply (nodup_map_inj vr_id (vs_olds st)); auto; congruence). subst o0.
              exists (set_ref o (vr_ref o - 1) (vr_released o)). split; [apply Holds'; right; reflexivity|exact Hof].
           ++ exists o0. split; [apply Holds'; left; split; assumption|exact Hof].
        -- intros o1 Ho1. apply Holds' in Ho1. destruct Ho1 as [[Ho1 Hn1]| ->].
           ++ apply HO2. exact Ho1.
           ++ exists c. split; [exact Hc|]. split; [exact Hcrel|]. split; [exact Hcid|exact Hcfiles].
      * intros o1 Ho1. apply Holds' in Ho1. destruct Ho1 as [[Ho1 Hn1]| ->].
        -- destruct (H10 o1 Ho1) as [Hr1 Hp1]. split; auto.
           rewrite cnth_rem1_neq by (intros He; apply Hn1; auto). exact Hr1.
        -- cbn [set_ref vr_ref vr_id]. rewrite Hoid. rewrite cnth_rem1_eq by exact Hv. rewrite <- Hoid, <- Hor. lia.
      * intros w Hw. pose proof (rem1_In _ _ _ Hw) as Hw'. destruct (H12 w Hw') as [->|(ow & How & Howid)]; [left; reflexivity|].
        right. destruct (N.eq_dec w v) as [->|Hnw].
        -- exists (set_ref o (vr_ref o - 1) (vr_released o)). split; [apply Holds'; right; reflexivity|exact Hoid].
        -- exists ow. split; [|exact Howid]. apply Holds'. left. split; [exact How|congruence].
Qed.

(* ---------- session.setVersion ----------
   The release of the replaced version at the end of setVersion is the release of one more
   reference (the session's own) on a version that is no longer current. *)

Definition mid_state (st : vstate) (nv : vrec) (m : bool) : vstate :=
  {| vs_cur := set_ref nv (vr_ref nv + 1) false; vs_olds := vs_cur st :: vs_olds st;
     vs_nvid := vs_nvid st; vs_manifest := m |}.

Lemma set_version_release : forall st r nv m,
  vr_released nv = false -> vr_ref nv = 0 -> vr_id nv <> vr_id (vs_cur st) ->
  match release (mid_state st nv m) (vr_id (vs_cur st)) with
  | VOk (st3, ev3) =>
      exists st2, set_version st r nv =
        VOk (st2, [ERef (vr_id nv) (flat (vr_levels nv))]
                  ++ [EDelta (vr_id (vs_cur st)) (added_nums r) (deleted_nums r)] ++ ev3) /\
        st3 = {| vs_cur := vs_cur st2; vs_olds := vs_olds st2; vs_nvid := vs_nvid st2; vs_manifest := m |} /\
        vs_manifest st2 = vs_manifest st
  | VPanic _ => True
  end.
Proof.
  intros st r nv m Hrel Href Hne. unfold release, mid_state.
  cbn [vs_cur vs_olds vs_nvid vs_manifest set_ref vr_id].
  rewrite (proj2 (N.eqb_neq _ _) Hne). cbn [release_old]. rewrite N.eqb_refl.
  unfold set_version, incref. rewrite Hrel, Href. cbn [N.eqb].
  destruct (releaseNB (vs_cur st)) as [[c1 ev3]|q]; [|exact I].
  eexists. split; [reflexivity|]. cbn [vs_cur vs_olds vs_nvid vs_manifest]. split; reflexivity.
Qed.

Lemma rec_ok_parts : forall st g r, rec_ok st g r = true ->
  NoDup (added_nums r) /\ NoDup (deleted_nums r) /\
  (forall l n, In (l, n) (r_deleted r) -> In n (lnums (vr_levels (vs_cur st)) (N.to_nat l))) /\
  (forall n, In n (added_nums r) -> In n (deleted_nums r) \/ ~ In n (g_seen g)) /\
  (vs_manifest st = true \/ r_deleted r = []).
Proof.
  intros st g r H. unfold rec_ok in H. repeat (apply andb_true_iff in H; destruct H as [H ?]).
  split; [apply nodupb_NoDup; assumption|]. split; [apply nodupb_NoDup; assumption|]. split; [|split].
  - intros l n Hin. rewrite forallb_forall in H2. specialize (H2 (l, n) Hin). cbn [fst snd] in H2.
    apply tmem_In in H2. exact H2.
  - intros n Hn. rewrite forallb_forall in H1. specialize (H1 n Hn). apply orb_true_iff in H1.
    destruct H1 as [H1|H1]; [left; apply smem_In; exact H1|right]. apply negb_true_iff in H1. apply smem_nIn. exact H1.
  - apply orb_true_iff in H0. destruct H0 as [H0|H0]; [left; exact H0|right]. destruct (r_deleted r); [reflexivity|discriminate].
Qed.

Lemma deleted_in_flat : forall (base : levels) (r : srec),
  (forall l n, In (l, n) (r_deleted r) -> In n (lnums base (N.to_nat l))) ->
  forall n, In n (deleted_nums r) -> In n (flat base).
Proof.
  intros base r H n Hn. unfold deleted_nums in Hn. apply in_map_iff in Hn. destruct Hn as ([l m] & He & Hin).
  cbn in He. subst m. apply In_flat. exists (N.to_nat l). apply H. exact Hin.
Qed.

(* the two sends of setVersion in session.commit: the reference of the new version, then the delta *)
Lemma install_mid : forall st g e r t,
  VInv st g e -> rec_ok st g r = true ->
  let base := vr_levels (vs_cur st) in
  let lv := spawn base r t in
  let r' := if vs_manifest st then r else fill_record r lv in
  let nv := {| vr_id := vs_nvid st; vr_levels := lv; vr_ref := 0; vr_released := false |} in
  let st1 := {| vs_cur := vs_cur st; vs_olds := vs_olds st; vs_nvid := vs_nvid st + 1; vs_manifest := vs_manifest st |} in
  exists e2,
    env_evs e [ERef (vs_nvid st) (flat lv); EDelta (vr_id (vs_cur st)) (added_nums r') (deleted_nums r')] = Some e2 /\
    VInv (mid_state st1 nv true)
         {| g_held := vr_id (vs_cur st) :: g_held g; g_seen := ldiff (flat lv) (flat base) ++ g_seen g |} e2.
Proof.
  intros st g e r t HI Hrec base lv r' nv st1.
  destruct (rec_ok_parts _ _ _ Hrec) as (Hna & Hnd & Hdel & Hadd & Hman).
  assert (Hne : forall o, In o (vs_olds st) -> vr_id o <> vr_id (vs_cur st))
    by (intros o Ho; apply (vinv_old_not_cur st g e o HI Ho)).
  assert (Hheld_lt : forall v, In v (g_held g) -> v < vs_nvid st)
    by (intros v Hv; apply (vinv_held_lt st g e v HI Hv)).
  destruct HI as [H1 H2 H3 H4 H5 H6 H7 H8 H9 H10 H11 H12].
  destruct H9 as (h & rest & Hch & Hid & Hfiles & Hhrel & Hhdl & Hlate & Hfa & HO1 & HO2).
  fold base in H3, H4, Hfiles, Hlate, Hdel.
  assert (Hdflat : forall n, In n (deleted_nums r) -> In n (flat base)) by (apply deleted_in_flat; exact Hdel).
  assert (Hadd' : forall n, In n (added_nums r) -> In n (deleted_nums r) \/ ~ In n (flat base)).
  { intros n Hn. destruct (Hadd n Hn) as [Hd|Hs]; [left; exact Hd|right]. intros Hb. apply Hs. apply H3. exact Hb. }
  pose proof (spawn_In base r t H4 Hdel) as Hsp.
  pose proof (spawn_NoDup base r t H4 Hna Hdel Hadd') as Hspnd.
  fold lv in Hsp, Hspnd.
  (* the reference of the new version *)
  assert (Hfresh : forall x, In x (flat lv) -> ~ In x (v_files h) -> ~ In x (e_seen e)).
  { intros x Hx Hnb. rewrite Hfiles in Hnb. rewrite H2. apply Hsp in Hx. destruct Hx as [[Hb _]|Ha]; [contradiction|].
    destruct (Hadd x Ha) as [Hd|Hs]; [exfalso; apply Hnb; apply Hdflat; exact Hd|exact Hs]. }
  pose proof (env_ref_ok e h rest (flat lv) Hch Hspnd (settled_rest h rest Hfa) Hhdl Hfresh) as Hstep1.
  set (n0 := {| v_id := e_nid e; v_files := flat lv; v_late := []; v_delta := None; v_rel := false |}) in *.
  set (e1 := {| e_nid := e_nid e + 1; e_chain := n0 :: h :: rest;
                e_seen := ldiff (flat lv) (v_files h) ++ e_seen e |}) in *.
  (* the delta *)
  set (a' := added_nums r'). set (d' := deleted_nums r').
  set (T := ldiff (v_files h) d' ++ ldiff a' (v_late h)).
  assert (Hconds : NoDup a' /\ NoDup d' /\ incl d' (ldiff (v_files h) (v_late h)) /\ incl (v_late h) a' /\
                   (forall x, In x (ldiff a' (v_late h)) -> In x (v_files h) -> In x d') /\
                   incl T (flat lv) /\ incl (flat lv) T).
  { unfold T, a', d', r'. destruct (vs_manifest st) eqn:Hm.
    - (* the session has a manifest writer: the record as given *)
      rewrite Hlate, Hfiles, !ldiff_nil_r.
      split; [exact Hna|]. split; [exact Hnd|]. split; [|split; [|split; [|split]]].
      + intros x Hx. apply Hdflat. exact Hx.
      + intros x [].
      + intros x Ha Hb. destruct (Hadd' x Ha); [assumption|contradiction].
      + intros x Hx. apply in_app_or in Hx. apply Hsp. destruct Hx as [Hx|Hx]; [left; apply ldiff_In in Hx; exact Hx|right; exact Hx].
      + intros x Hx. apply in_or_app. apply Hsp in Hx. destruct Hx as [Hx|Hx]; [left; apply ldiff_In; exact Hx|right; exact Hx].
    - (* first commit of a recovered session: fillRecord extends the record *)
      destruct Hman as [Hman|Hman]; [discriminate|].
      assert (Hd0 : deleted_nums r = []) by (unfold deleted_nums; rewrite Hman; reflexivity).
      rewrite fill_record_deleted, fill_record_added, Hd0, Hlate, Hfiles. rewrite Hd0 in Hsp.
      assert (Hb_lv : forall x, In x (flat base) -> In x (flat lv)) by (intros x Hx; apply Hsp; left; split; [exact Hx|intros []]).
      assert (Ha_lv : forall x, In x (added_nums r ++ ldiff (flat lv) (added_nums r)) -> In x (flat lv)).
      { intros x Hx. apply in_app_or in Hx. destruct Hx as [Hx|Hx]; [apply Hsp; right; exact Hx|apply ldiff_In in Hx; apply Hx]. }
      assert (Hlv_a : forall x, In x (flat lv) -> In x (added_nums r ++ ldiff (flat lv) (added_nums r))).
      { intros x Hx. apply in_or_app. destruct (in_dec N.eq_dec x (added_nums r)) as [Hi|Hn]; [left; exact Hi|right; apply ldiff_In; split; assumption]. }
      split; [|split; [|split; [|split; [|split; [|split]]]]].
      + apply NoDup_app_iff. split; [exact Hna|]. split; [apply ldiff_NoDup; exact Hspnd|].
        intros x Hx Hy. apply ldiff_In in Hy. destruct Hy as [_ Hy]. contradiction.
      + constructor.
      + intros x [].
      + intros x Hx. apply Hlv_a. apply Hb_lv. exact Hx.
      + intros x Hx Hb. apply ldiff_In in Hx. destruct Hx as [_ Hx]. contradiction.
      + intros x Hx. apply in_app_or in Hx. destruct Hx as [Hx|Hx].
        * apply ldiff_In in Hx. apply Hb_lv. apply Hx.
        * apply ldiff_In in Hx. apply Ha_lv. apply Hx.
      + intros x Hx. apply in_or_app. destruct (in_dec N.eq_dec x (flat base)) as [Hi|Hn].
        * left. apply ldiff_In. split; [exact Hi|intros []].
        * right. apply ldiff_In. split; [apply Hlv_a; exact Hx|exact Hn]. }
  destruct Hconds as (Hc1 & Hc2 & Hc3 & Hc4 & Hc5 & Hc6 & Hc7).
  assert (Hstep2 : env_step e1 (EDelta (v_id h) a' d') =
                   Some {| e_nid := e_nid e1;
                           e_chain := set_late n0 (ldiff (v_files n0) T)
                                      :: set_delta h {| d_added := a'; d_deleted := d' |} :: rest;
                           e_seen := e_seen e1 |}).
  { apply (env_delta_ok e1 n0 h rest a' d'); auto.
    intros x Hx. apply ldiff_In in Hx. destruct Hx as [Hx Hnt]. exfalso. apply Hnt. apply Hc7. exact Hx. }
  assert (HLN : ldiff (v_files n0) T = []) by (apply ldiff_incl_nil; exact Hc7).
  rewrite HLN in Hstep2.
  eexists. split.
  { cbn [env_evs]. rewrite <- H1, Hstep1. rewrite <- Hid, Hstep2. reflexivity. }
  assert (Hcid_lt : vr_id (vs_cur st) < vs_nvid st).
  { rewrite <- Hid, <- H1. apply H8. rewrite Hch. left. reflexivity. }
  constructor; cbn [mid_state st1 nv set_ref vs_cur vs_olds vs_nvid vs_manifest vr_id vr_levels vr_ref vr_released
                    g_held g_seen e1 e_nid e_chain e_seen].
  - rewrite H1. reflexivity.
  - rewrite Hfiles, H2. reflexivity.
  - intros x Hx. apply in_or_app. destruct (in_dec N.eq_dec x (flat base)) as [Hi|Hn]; [right; apply H3; exact Hi|left; apply ldiff_In; split; assumption].
  - exact Hspnd.
  - cbn [cnth]. destruct (vr_id (vs_cur st) =? vs_nvid st) eqn:E; [apply N.eqb_eq in E; lia|].
    rewrite cnth_zero; [reflexivity|]. intros Hv. apply Hheld_lt in Hv. lia.
  - reflexivity.
  - cbn [map set_late set_delta v_id n0]. rewrite Hch in H7. cbn [map] in H7. constructor; [|exact H7].
    intros Hi. assert (Hlt : e_nid e < e_nid e); [|lia].
    destruct Hi as [Hi|Hi].
    + rewrite <- Hi at 1. apply H8. rewrite Hch. left. reflexivity.
    + apply in_map_iff in Hi. destruct Hi as (c & He & Hc). rewrite <- He at 1. apply H8. rewrite Hch. right. exact Hc.
  - intros c [ <- |[ <- |Hc]]; cbn [set_late set_delta v_id n0]; [lia| |].
    + assert (v_id h < e_nid e) by (apply H8; rewrite Hch; left; reflexivity). lia.
    + assert (v_id c < e_nid e) by (apply H8; rewrite Hch; right; exact Hc). lia.
  - eexists _, _. split; [reflexivity|]. cbn [set_late v_id v_files v_rel v_delta v_late n0].
    split; [exact H1|]. repeat (split; [reflexivity|]). split; [|split].
    + constructor; [reflexivity|exact Hfa].
    + intros c [ <- |Hc] Hr.
      * exists (vs_cur st). split; [left; reflexivity|]. split; [cbn; symmetry; exact Hid|cbn; symmetry; exact Hfiles].
      * destruct (HO1 c Hc Hr) as (o & Ho & Hof). exists o. split; [right; exact Ho|exact Hof].
    + intros o [ <- |Ho].
      * eexists. split; [left; reflexivity|]. split; [exact Hhrel|]. split; [cbn; symmetry; exact Hid|cbn; symmetry; exact Hfiles].
      * destruct (HO2 o Ho) as (c & Hc & Hr & Hof). exists c. split; [right; exact Hc|]. split; assumption.
  - intros o [ <- |Ho].
    + cbn [cnth]. rewrite N.eqb_refl. rewrite H5. split; lia.
    + destruct (H10 o Ho) as [Hr Hp]. split; auto. cbn [cnth].
      destruct (vr_id (vs_cur st) =? vr_id o) eqn:E; [apply N.eqb_eq in E; exfalso; apply (Hne o Ho); auto|]. rewrite Hr. lia.
  - cbn [map]. constructor; [|exact H11]. intros Hi. apply in_map_iff in Hi. destruct Hi as (o & He & Ho). apply (Hne o Ho). exact He.
  - intros v [ <- |Hv].
    + right. exists (vs_cur st). split; [left; reflexivity|reflexivity].
    + destruct (H12 v Hv) as [->|(o & Ho & Hoid)].
      * right. exists (vs_cur st). split; [left; reflexivity|reflexivity].
      * right. exists o. split; [right; exact Ho|exact Hoid].
Qed.

(* ---------- session.commit between its version()/release() pair ---------- *)

Lemma install_sim : forall st g e r t oc,
  VInv st g e -> install_ok st g r oc = true ->
  exists st' evs e', install st r t oc = VOk (st', evs) /\ env_evs e evs = Some e' /\
    VInv st' {| g_held := g_held g; g_seen := seen_after st g r t oc |} e'.
Proof.
  intros st g e r t oc HI Hok. unfold install_ok in Hok. apply andb_true_iff in Hok. destruct Hok as [Hrec Hoc].
  destruct oc.
  - (* the commit succeeds: setVersion *)
    destruct (install_mid st g e r t HI Hrec) as (e2 & Hev2 & HI2).
    set (base := vr_levels (vs_cur st)) in *. set (lv := spawn base r t) in *.
    set (r' := if vs_manifest st then r else fill_record r lv) in *.
    set (nv := {| vr_id := vs_nvid st; vr_levels := lv; vr_ref := 0; vr_released := false |}) in *.
    set (st1 := {| vs_cur := vs_cur st; vs_olds := vs_olds st; vs_nvid := vs_nvid st + 1; vs_manifest := vs_manifest st |}) in *.
    assert (Hcid_lt : vr_id (vs_cur st) < vs_nvid st).
    { destruct (vi_chain _ _ _ HI) as (h & rest & Hch & Hid & _). rewrite <- Hid, <- (vi_nid _ _ _ HI).
      apply (vi_ids_lt _ _ _ HI). rewrite Hch. left. reflexivity. }
    destruct (release_sim (mid_state st1 nv true) _ e2 (vr_id (vs_cur st)) HI2) as (st3 & ev3 & e3 & Hr3 & He3 & HI3 & _).
    { cbn [g_held smem]. rewrite N.eqb_refl. reflexivity. }
    cbn [g_held g_seen rem1] in HI3. rewrite N.eqb_refl in HI3.
    assert (Hne3 : vr_id nv <> vr_id (vs_cur st1)) by (cbn; lia).
    pose proof (set_version_release st1 r' nv true eq_refl eq_refl Hne3) as Hsv.
    change (vs_cur st1) with (vs_cur st) in Hsv. rewrite Hr3 in Hsv.
    destruct Hsv as (st2 & Hset & Hst3 & _).
    exists st3, ([ERef (vs_nvid st) (flat lv)] ++ [EDelta (vr_id (vs_cur st)) (added_nums r') (deleted_nums r')] ++ ev3), e3.
    split; [|split].
    + unfold install. fold base lv st1 r' nv. rewrite Hset. rewrite Hst3. reflexivity.
    + change ([ERef (vs_nvid st) (flat lv)] ++ [EDelta (vr_id (vs_cur st)) (added_nums r') (deleted_nums r')] ++ ev3)
        with ([ERef (vs_nvid st) (flat lv); EDelta (vr_id (vs_cur st)) (added_nums r') (deleted_nums r')] ++ ev3).
      rewrite env_evs_app, Hev2. exact He3.
    + exact HI3.
  - (* the commit fails: the id is abandoned *)
    destruct HI as [H1 H2 H3 H4 H5 H6 H7 H8 H9 H10 H11 H12].
    destruct H9 as (h & rest & Hch & Hid & Hfiles & Hhrel & Hhdl & Hlate & Hfa & HO1 & HO2).
    eexists _, _, _. split; [reflexivity|]. split.
    { cbn [env_evs]. rewrite <- H1. rewrite (env_abandon_ok e h rest Hch (settled_rest h rest Hfa)). reflexivity. }
    constructor; cbn [vs_cur vs_olds vs_nvid vs_manifest g_held g_seen seen_after e_nid e_chain e_seen]; auto.
    + rewrite H1. reflexivity.
    + intros c Hc. specialize (H8 c Hc). lia.
    + exists h, rest. repeat (split; [assumption|]). assumption.
  - (* the commit fails after newManifest switched: only with a manifest writer already there *)
    destruct (vs_manifest st) eqn:Hm; [|discriminate].
    destruct HI as [H1 H2 H3 H4 H5 H6 H7 H8 H9 H10 H11 H12].
    destruct H9 as (h & rest & Hch & Hid & Hfiles & Hhrel & Hhdl & Hlate & Hfa & HO1 & HO2).
    eexists _, _, _. split; [reflexivity|]. split.
    { cbn [env_evs]. rewrite <- H1. rewrite (env_abandon_ok e h rest Hch (settled_rest h rest Hfa)). reflexivity. }
    constructor; cbn [vs_cur vs_olds vs_nvid vs_manifest g_held g_seen seen_after e_nid e_chain e_seen]; auto.
    + rewrite H1. reflexivity.
    + intros c Hc. specialize (H8 c Hc). lia.
    + exists h, rest. rewrite Hm in Hlate. repeat (split; [assumption|]). assumption.
Qed.

(* ---------- session.commit ---------- *)

Lemma commit_sim : forall st g e r t oc,
  VInv st g e -> install_ok st g r oc = true ->
  exists st' evs e', commit st r t oc = VOk (st', evs) /\ env_evs e evs = Some e' /\
    VInv st' {| g_held := g_held g; g_seen := seen_after st g r t oc |} e'.
Proof.
  intros st g e r t oc HI Hok.
  destruct (acquire_sim st g e HI) as (st1 & Ha & HI1 & (Hlv & Hid & Hm & Hn)).
  assert (Hok1 : install_ok st1 {| g_held := vr_id (vs_cur st) :: g_held g; g_seen := g_seen g |} r oc = true).
  { unfold install_ok, rec_ok in *. cbn [g_seen]. rewrite Hlv, Hm. exact Hok. }
  destruct (install_sim st1 _ e r t oc HI1 Hok1) as (st2 & ev2 & e2 & Hi & He2 & HI2).
  cbn [g_held g_seen] in HI2.
  destruct (release_sim st2 _ e2 (vr_id (vs_cur st)) HI2) as (st3 & ev3 & e3 & Hr & He3 & HI3 & _).
  { cbn [g_held smem]. rewrite N.eqb_refl. reflexivity. }
  cbn [g_held g_seen rem1] in HI3. rewrite N.eqb_refl in HI3.
  exists st3, ([] ++ ev2 ++ ev3), e3. split; [|split].
  - unfold commit. rewrite Ha, Hi, Hr. reflexivity.
  - cbn [app]. rewrite env_evs_app, He2. exact He3.
  - assert (Hs : seen_after st1 {| g_held := vr_id (vs_cur st) :: g_held g; g_seen := g_seen g |} r t oc
                 = seen_after st g r t oc).
    { unfold seen_after. cbn [g_seen]. rewrite Hlv. reflexivity. }
    rewrite <- Hs. exact HI3.
Qed.

(* ---------- every operation; sequences ---------- *)

Lemma step_sim : forall st g e op, VInv st g e -> disc_op st g op = true ->
  exists st' evs e', vl_step st op = VOk (st', evs) /\ env_evs e evs = Some e' /\
    VInv st' (ghost_step st g op) e'.
Proof.
  intros st g e op HI Hd. destruct op as [|v|r t oc|r t oc]; cbn [vl_step ghost_step disc_op] in *.
  - destruct (acquire_sim st g e HI) as (st1 & Ha & HI1 & _). exists st1, [], e. auto.
  - destruct (release_sim st g e v HI Hd) as (st1 & evs & e1 & Hr & He & HI1 & _). exists st1, evs, e1. auto.
  - apply install_sim; assumption.
  - apply commit_sim; assumption.
Qed.

Lemma run_sim : forall ops st g e, VInv st g e -> disc_from st g ops = true ->
  exists st' evs e', vl_run_from st ops = VOk (st', evs) /\ env_evs e evs = Some e' /\
    VInv st' (ghost_from st g ops) e'.
Proof.
  induction ops as [|op ops IH]; intros st g e HI Hd; cbn [vl_run_from disc_from ghost_from] in *.
  - exists st, [], e. auto.
  - apply andb_true_iff in Hd. destruct Hd as [Hop Hd].
    destruct (step_sim st g e op HI Hop) as (st1 & ev1 & e1 & Hs & He1 & HI1). rewrite Hs in *.
    destruct (IH st1 _ e1 HI1 Hd) as (st2 & ev2 & e2 & Hr & He2 & HI2). rewrite Hr.
    exists st2, (ev1 ++ ev2), e2. split; [reflexivity|]. split; [|exact HI2].
    rewrite env_evs_app, He1. exact He2.
Qed.

(* ---------- newSession + create / recover ---------- *)

Lemma start_sim : forall o st0 ev0,
  vl_start o = VOk (st0, ev0) -> nodupb (flat (vr_levels (vs_cur st0))) = true ->
  exists e0, env_evs env_init ev0 = Some e0 /\ VInv st0 (ghost_start st0) e0.
Proof.
  intros o st0 ev0 Hs Hnd. destruct o as [|recs].
  - cbn in Hs. inversion Hs; subst; clear Hs. eexists. split; [reflexivity|].
    constructor; cbn [vs_cur vs_olds vs_nvid vs_manifest vr_id vr_levels vr_ref vr_released ghost_start
                      g_held g_seen e_nid e_chain e_seen cnth flat flat_map].
    + reflexivity.
    + reflexivity.
    + intros x [].
    + constructor.
    + reflexivity.
    + reflexivity.
    + cbn. constructor; [intros []|constructor].
    + intros c [ <- |[]]. cbn. lia.
    + eexists _, []. split; [reflexivity|]. cbn. repeat (split; [reflexivity|]). split; [constructor|].
      split; [intros c []|intros o []].
    + intros o [].
    + constructor.
    + intros v [].
  - set (R := recovered_levels recs) in *.
    assert (Hst : st0 = {| vs_cur := {| vr_id := 1; vr_levels := R; vr_ref := 1; vr_released := false |};
                           vs_olds := []; vs_nvid := 2; vs_manifest := false |} /\
                  ev0 = [ERef 0 []; ERef 1 (flat R); EDelta 0 [] []; ERel 0 []]).
    { cbn in Hs. fold R in Hs. inversion Hs; subst. split; reflexivity. }
    destruct Hst as [-> ->]. cbn [vs_cur vr_levels] in Hnd. apply nodupb_NoDup in Hnd.
    set (v0 := {| v_id := 0; v_files := []; v_late := []; v_delta := None; v_rel := false |}).
    set (ea := {| e_nid := 1; e_chain := [v0]; e_seen := [] |}).
    assert (H0 : env_step env_init (ERef 0 []) = Some ea) by reflexivity.
    set (n0 := {| v_id := 1; v_files := flat R; v_late := []; v_delta := None; v_rel := false |}).
    set (eb := {| e_nid := 1 + 1; e_chain := [n0; v0]; e_seen := ldiff (flat R) [] ++ [] |}).
    assert (H1 : env_step ea (ERef 1 (flat R)) = Some eb)
      by exact (env_ref_ok ea v0 [] (flat R) eq_refl Hnd eq_refl eq_refl (fun x _ _ H => H)).
    assert (H2 : env_step eb (EDelta 0 [] []) =
                 Some {| e_nid := 1 + 1;
                         e_chain := [set_late n0 (ldiff (flat R) []); set_delta v0 {| d_added := []; d_deleted := [] |}];
                         e_seen := ldiff (flat R) [] ++ [] |}).
    { apply (env_delta_ok eb n0 v0 [] [] []); try reflexivity; try constructor; try (intros x []).
      intros x _ []. }
    set (v0' := set_delta v0 {| d_added := []; d_deleted := [] |}) in *.
    set (ec := {| e_nid := 1 + 1; e_chain := [set_late n0 (ldiff (flat R) []); v0']; e_seen := ldiff (flat R) [] ++ [] |}) in *.
    assert (H3 : env_step ec (ERel 0 []) =
                 Some {| e_nid := 1 + 1; e_chain := [set_late n0 (ldiff (flat R) []); set_rel v0']; e_seen := ldiff (flat R) [] ++ [] |}).
    { assert (Hndc : NoDup (map v_id (e_chain ec))) by (cbn; constructor; [intros [H|[]]; discriminate|constructor; [intros []|constructor]]).
      apply (env_rel_ok ec v0' Hndc); [right; left; reflexivity|reflexivity|reflexivity]. }
    eexists. split.
    { cbn [env_evs]. rewrite H0, H1, H2. fold v0' ec. rewrite H3. reflexivity. }
    rewrite !ldiff_nil_r, app_nil_r.
    constructor; cbn [vs_cur vs_olds vs_nvid vs_manifest vr_id vr_levels vr_ref vr_released ghost_start
                      g_held g_seen e_nid e_chain e_seen cnth].
    + reflexivity.
    + reflexivity.
    + intros x Hx. exact Hx.
    + exact Hnd.
    + reflexivity.
    + reflexivity.
    + cbn. constructor; [intros [H|[]]; discriminate|constructor; [intros []|constructor]].
    + intros c [ <- |[ <- |[]]]; cbn; lia.
    + eexists _, _. split; [reflexivity|]. cbn [set_late n0 v_id v_files v_rel v_delta v_late].
      repeat (split; [reflexivity|]). split; [constructor; [reflexivity|constructor]|]. split.
      * intros c [ <- |[]] Hr. cbn in Hr. discriminate.
      * intros o [].
    + intros o [].
    + constructor.
    + intros v [].
Qed.

(* ---------- a whole session ---------- *)

Lemma session_sim : forall o ops, vl_disciplined o ops = true ->
  exists st0 ev0 st evs e,
    vl_start o = VOk (st0, ev0) /\ vl_run o ops = VOk (st, evs) /\
    env_evs env_init evs = Some e /\ VInv st (ghost_from st0 (ghost_start st0) ops) e.
Proof.
  intros o ops Hd. unfold vl_disciplined in Hd. unfold vl_run.
  destruct (vl_start o) as [[st0 ev0]|q] eqn:Hs; [|discriminate].
  apply andb_true_iff in Hd. destruct Hd as [Hnd Hd].
  destruct (start_sim o st0 ev0 Hs Hnd) as (e0 & He0 & HI0).
  destruct (run_sim ops st0 _ e0 HI0 Hd) as (st & evs & e & Hr & He & HI). rewrite Hr.
  exists st0, ev0, st, (ev0 ++ evs), e. split; [reflexivity|]. split; [reflexivity|].
  split; [rewrite env_evs_app, He0; exact He|exact HI].
Qed.

Lemma env_run_of_events : forall ins evs e,
  untick (map fst ins) = evs -> env_evs env_init evs = Some e -> env_run ins = Some e.
Proof.
  intros ins evs e Hu He. unfold env_run. rewrite env_run_from_evs, <- env_evs_untick, Hu. exact He.
Qed.

(* THE VERSION LAYER ONLY SENDS PROTOCOL-CONFORMING EVENT SEQUENCES: for every way of opening a
   session and every sequence of operations that respects the API discipline, the operations do not
   panic and the events they send - with timer ticks / counter queries interleaved anywhere and with
   any outcome of the loop's age test - satisfy env_ok *)
Theorem session_emits_env_ok : forall o ops, vl_disciplined o ops = true ->
  exists st evs, vl_run o ops = VOk (st, evs) /\
    forall ins, untick (map fst ins) = evs -> env_ok ins = true.
Proof.
  intros o ops Hd. destruct (session_sim o ops Hd) as (st0 & ev0 & st & evs & e & _ & Hr & He & _).
  exists st, evs. split; [exact Hr|]. intros ins Hu. unfold env_ok.
  rewrite (env_run_of_events ins evs e Hu He). reflexivity.
Qed.

Lemma run_from_app : forall p a b s s2 rm, run_from p s (a ++ b) = Ok (s2, rm) ->
  exists s1 rm1 rm2, run_from p s a = Ok (s1, rm1) /\ run_from p s1 b = Ok (s2, rm2) /\ rm = rm1 ++ rm2.
Proof.
  induction a as [|i a IH]; intros b s s2 rm H; cbn [app run_from] in *.
  - exists s, [], rm. auto.
  - destruct (step p s i) as [[s' rm']| |] eqn:Hs; try discriminate.
    destruct (run_from p s' (a ++ b)) as [[s'' rm'']| |] eqn:Hr; try discriminate.
    inversion H; subst; clear H.
    destruct (IH b s' s2 rm'' Hr) as (s1 & rm1 & rm2 & H1 & H2 & ->). rewrite H1.
    exists s1, (rm' ++ rm1), rm2. split; [reflexivity|]. split; [exact H2|]. rewrite app_assoc. reflexivity.
Qed.

(* the versions a reader can hold after the operations: the current one and the replaced ones that
   are still referenced *)
Definition vl_live (st : vstate) : list vrec := vs_cur st :: vs_olds st.

Lemma vinv_live : forall st g e v, VInv st g e -> In v (vl_live st) ->
  exists c, In c (live e) /\ v_files c = flat (vr_levels v).
Proof.
  intros st g e v HI Hv. destruct (vi_chain _ _ _ HI) as (h & rest & Hch & Hid & Hfiles & Hhrel & _ & _ & _ & _ & HO2).
  unfold live. rewrite Hch. destruct Hv as [ <- |Hv].
  - exists h. split; [|exact Hfiles]. apply filter_In. split; [left; reflexivity|]. rewrite Hhrel. reflexivity.
  - destruct (HO2 v Hv) as (c & Hc & Hr & (_ & Hf)). exists c. split; [|symmetry; exact Hf].
    apply filter_In. split; [right; exact Hc|]. rewrite Hr. reflexivity.
Qed.

(* END TO END, SAFETY: whatever the (disciplined) users of the version layer do, whenever the loop
   has consumed any part of what the layer sent, no table of a version that can still be read has
   been removed, and the loop has not panicked *)
Theorem files_safe_end_to_end : forall p o ops, vl_disciplined o ops = true ->
  exists st evs, vl_run o ops = VOk (st, evs) /\
    forall ins, untick (map fst ins) = evs ->
    forall pre suf, ins = pre ++ suf ->
    exists s rm, run p pre = Ok (s, rm) /\
      forall v f, In v (vl_live st) -> In f (flat (vr_levels v)) -> ~ In f rm.
Proof.
  intros p o ops Hd. destruct (session_sim o ops Hd) as (st0 & ev0 & st & evs & e & _ & Hr & He & HI).
  exists st, evs. split; [exact Hr|]. intros ins Hu pre suf Hsplit.
  pose proof (env_run_of_events ins evs e Hu He) as Hrun.
  assert (Hok : env_ok ins = true) by (unfold env_ok; rewrite Hrun; reflexivity).
  destruct (refloop_safe p ins Hok ins [] (eq_sym (app_nil_r ins))) as (e' & s & rm & Hrun' & Hrn & Hsafe).
  rewrite Hrun in Hrun'. inversion Hrun'; subst e'; clear Hrun'.
  unfold run in Hrn. rewrite Hsplit in Hrn.
  destruct (run_from_app p pre suf init s rm Hrn) as (s1 & rm1 & rm2 & H1 & _ & ->).
  exists s1, rm1. split; [exact H1|]. intros v f Hv Hf Hin.
  destruct (vinv_live st _ e v HI Hv) as (c & Hc & Hcf).
  apply (Hsafe c f Hc); [rewrite Hcf; exact Hf|]. apply in_or_app. left. exact Hin.
Qed.

(* END TO END, COMPLETENESS: once no replaced version is referenced any more, the loop has removed
   exactly the tables that ever belonged to a version of the session and are not in the current one,
   each once; nothing waits in its queues; only current tables are counted *)
Theorem files_complete_end_to_end : forall p o ops, vl_disciplined o ops = true ->
  exists st evs, vl_run o ops = VOk (st, evs) /\
    (vs_olds st = [] ->
     forall ins, untick (map fst ins) = evs ->
     exists s rm, run p ins = Ok (s, rm) /\ NoDup rm /\
       (forall f, In f rm <-> In f (vl_seen o ops) /\ ~ In f (flat (vr_levels (vs_cur st)))) /\
       Permutation rm (ldiff (vl_seen o ops) (flat (vr_levels (vs_cur st)))) /\
       released s = [] /\ deltas s = [] /\
       (forall f, 1 <= cnt (fileRef s) f -> In f (flat (vr_levels (vs_cur st))))).
Proof.
  intros p o ops Hd. destruct (session_sim o ops Hd) as (st0 & ev0 & st & evs & e & Hs & Hr & He & HI).
  exists st, evs. split; [exact Hr|]. intros Holds ins Hu.
  pose proof (env_run_of_events ins evs e Hu He) as Hrun.
  destruct (vi_chain _ _ _ HI) as (h & rest & Hch & Hid & Hfiles & Hhrel & _ & _ & Hfa & HO1 & _).
  assert (Hq : quiescent e = true).
  { unfold quiescent. rewrite Hch. rewrite (settled_rest h rest Hfa). cbn [andb].
    apply forallb_forall. intros c Hc. destruct (v_rel c) eqn:Hrel; [reflexivity|].
    destruct (HO1 c Hc Hrel) as (o1 & Ho1 & _). rewrite Holds in Ho1. destruct Ho1. }
  destruct (refloop_complete p ins e Hrun Hq) as (s & rm & Hrn & Hnd & Hiff & Hperm & Hrel & Hdl & Hcnt).
  assert (Hseen : e_seen e = vl_seen o ops).
  { unfold vl_seen. rewrite Hs. rewrite (vi_seen _ _ _ HI). reflexivity. }
  assert (Hcur : cur_files e = flat (vr_levels (vs_cur st))) by (unfold cur_files; rewrite Hch; exact Hfiles).
  rewrite Hseen, Hcur in *. exists s, rm. repeat split; auto; apply Hiff; assumption.
Qed.
