(* Conc/CacheTheorems.v — the C17 statements for the sequential semantics, derived from the invariant
   established in Conc/CacheProofs.v for every reachable state (any cacher, any capacity, any
   operation sequence, no bound).  Proof file. *)
From GL Require Import Conc.Cache Conc.CacheLemmas Conc.CacheInv Conc.CacheProofs.
From Coq Require Import Lia.

Lemma count_le1_unique p (l : list event) e1 e2 :
  (count_ev p l <= 1)%nat -> In e1 l -> In e2 l -> p e1 = true -> p e2 = true -> e1 = e2.
Proof.
  unfold count_ev. induction l as [|a l IH]; cbn; intros Hc H1 H2 P1 P2; [tauto|].
  destruct (p a) eqn:Pa; cbn in Hc.
  - assert (length (filter p l) = 0%nat) as Z by lia.
    assert (forall e, In e l -> p e = true -> False) as No.
    { intros e He Pe. assert (In e (filter p l)) as Hin by (apply filter_In; auto).
      destruct (filter p l); [destruct Hin|discriminate]. }
    destruct H1 as [<-|H1]; destruct H2 as [<-|H2]; auto; exfalso; eauto.
  - destruct H1 as [<-|H1]; [congruence|]. destruct H2 as [<-|H2]; [congruence|]. auto.
Qed.

Lemma handle_node_in s h n :
  handle_node s h = Some n -> exists x, In (h, x) (s_handles s) /\ In n (s_nodes s) /\ n_id n = x.
Proof.
  unfold handle_node. destruct (find (fun p => fst p =? h) (s_handles s)) as [[h' x]|] eqn:F; [|discriminate].
  destruct (find_handle_some _ _ _ F) as [Hin e]. cbn in *. subst h'. intro Fi.
  destruct (find_id_some _ _ _ Fi). eauto.
Qed.

Definition zq0 : N -> bool := fun _ => false.

(* ================================================================ consequences of the invariant alone:
   they hold in every state satisfying [Inv zq p] — the reachable states of the sequential semantics
   (zq = none, p = 0) and of the interleaved semantics (zq = pending zero-checks, p = references held by
   pending instructions) alike *)
Section Gen.
  Variable zq : N -> bool.
  Variable pf : N -> Z.
  Variable s : state.
  Hypothesis HI : Inv zq pf s.
  Let HS := inv_s _ _ _ HI.
  Let HR := inv_r _ _ _ HI.
  Let HL := inv_l _ _ _ HI.

  (* ---- one_live_value *)
  Theorem one_live_value_gen :
    s_forced s = false ->
    forall h1 h2 n1 n2, handle_node s h1 = Some n1 -> handle_node s h2 = Some n2 -> keyof n1 = keyof n2 ->
      n1 = n2 /\
      exists v, handle_value s h1 = Some v /\ handle_value s h2 = Some v /\
                ccn (n_id n1) (s_log s) = 1%nat /\ ccv v (s_log s) = 1%nat /\ cf v (s_log s) = 0%nat.
  Proof.
    intros Hf h1 h2 n1 n2 E1 E2 K. unfold InvS, InvR, InvL in *.
    destruct (handle_node_in _ _ _ E1) as (x1 & Hh1 & Hn1 & Hx1).
    destruct (handle_node_in _ _ _ E2) as (x2 & Hh2 & Hn2 & Hx2).
    assert (n1 = n2) as <-.
    { pose proof (SInv_find_key _ _ _ _ _ HS Hn1) as A. pose proof (SInv_find_key _ _ _ _ _ HS Hn2) as B.
      unfold keyof in K. inversion K as [[Kn Kk]]. rewrite Kn, Kk in A. congruence. }
    split; auto.
    assert (n_val n1 <> None) as Hv.
    { apply (ri_hval _ _ _ _ _ _ _ _ _ HR Hf n1 Hn1). apply hcount_pos_in. exists h1. now rewrite Hx1. }
    destruct (n_val n1) as [v|] eqn:V; [|congruence]. exists v.
    unfold handle_value. rewrite E1, E2, V. split; auto. split; auto.
    destruct (li_vlive _ _ _ _ _ _ HL n1 v Hn1 V) as [Z Hin].
    assert (forall p e, In e (s_log s) -> p e = true -> (count_ev p (s_log s) <= 1)%nat -> count_ev p (s_log s) = 1%nat) as One.
    { intros p e He Pe Le. assert (0 < count_ev p (s_log s))%nat by (apply count_ev_pos; eauto). lia. }
    split; [|split]; auto.
    - apply (One _ _ Hin); [cbn; apply N.eqb_refl|apply (li_cons_n1 _ _ _ _ _ _ HL)].
    - apply (One _ _ Hin); [cbn; apply N.eqb_refl|apply (li_cons_v1 _ _ _ _ _ _ HL)].
  Qed.

  (* the constructor never ran twice for one residency (node identity), nor twice for one value *)
  Theorem construct_once_gen : forall x v, (ccn x (s_log s) <= 1)%nat /\ (ccv v (s_log s) <= 1)%nat.
  Proof. intros x v. split; [apply (li_cons_n1 _ _ _ _ _ _ HL)|apply (li_cons_v1 _ _ _ _ _ _ HL)]. Qed.

  (* ---- finalise_once_after_release *)
  Theorem finalise_at_most_once_gen : forall v, (cf v (s_log s) <= 1)%nat.
  Proof. apply (li_final_le _ _ _ _ _ _ HL). Qed.

  Lemma live_handle_facts x :
    s_forced s = false -> (0 < hcount x (s_handles s))%Z ->
    exists n v, In n (s_nodes s) /\ n_id n = x /\ n_val n = Some v.
  Proof.
    intros Hf Hh. unfold InvS, InvR, InvL in *. apply hcount_pos_in in Hh. destruct Hh as (h & Hh).
    pose proof (ri_hnode _ _ _ _ _ _ _ _ _ HR h x Hh) as Hin. unfold ids in Hin. apply in_map_iff in Hin.
    destruct Hin as (n & Hx & Hn).
    assert (n_val n <> None) as Hv.
    { apply (ri_hval _ _ _ _ _ _ _ _ _ HR Hf n Hn). apply hcount_pos_in. exists h. now rewrite Hx. }
    destruct (n_val n) as [v|] eqn:V; [|congruence]. eauto.
  Qed.

  (* a finalised value has no outstanding handle (unless force-closed): the value constructed for
     residency x, once finalised, is not reachable through any live handle *)
  Theorem finalise_not_early_gen :
    s_forced s = false ->
    forall x v sz, In (EvConstruct x v sz) (s_log s) -> (1 <= cf v (s_log s))%nat -> handles_on x (s_handles s) = 0%nat.
  Proof.
    intros Hf x v sz Hin Hc. unfold InvS, InvR, InvL in *.
    destruct (Nat.eq_dec (handles_on x (s_handles s)) 0) as [|ne]; auto. exfalso.
    destruct (live_handle_facts x Hf) as (n & v' & Hn & Hx & V). { unfold hcount. lia. }
    destruct (li_vlive _ _ _ _ _ _ HL n v' Hn V) as [Z Hin'].
    assert (EvConstruct x v sz = EvConstruct (n_id n) v' (n_size n)) as E.
    { apply (count_le1_unique (is_construct_n x) (s_log s)); auto.
      - apply (li_cons_n1 _ _ _ _ _ _ HL).
      - cbn. apply N.eqb_refl.
      - cbn. rewrite Hx. apply N.eqb_refl. }
    inversion E as [[e1 e2 e3]]. rewrite e2 in Hc. unfold cf in *. lia.
  Qed.

  (* every constructed value is either still held by its node or has been finalised exactly once *)
  Theorem finalise_or_live_gen :
    forall x v sz, In (EvConstruct x v sz) (s_log s) ->
      cf v (s_log s) = 1%nat \/ (cf v (s_log s) = 0%nat /\ exists n, In n (s_nodes s) /\ n_id n = x /\ n_val n = Some v).
  Proof.
    intros x v sz Hin. unfold InvL in *. destruct (li_vdead _ _ _ _ _ _ HL x v sz Hin) as [|(n & Hn & Hx & V)]; auto.
    right. split; eauto. apply (li_vlive _ _ _ _ _ _ HL n v Hn V).
  Qed.

  (* ---- delfunc_once_not_early *)
  Theorem delfunc_at_most_once_gen : forall d, (cdr d (s_log s) <= 1)%nat.
  Proof. apply (li_drun_le _ _ _ _ _ _ HL). Qed.

  Theorem delfunc_not_early_gen :
    s_forced s = false ->
    forall d x, In (EvDelReg d x) (s_log s) -> (1 <= cdr d (s_log s))%nat -> handles_on x (s_handles s) = 0%nat.
  Proof.
    intros Hf d x Hin Hc. unfold InvS, InvR, InvL in *.
    destruct (Nat.eq_dec (handles_on x (s_handles s)) 0) as [|ne]; auto. exfalso.
    destruct (live_handle_facts x Hf) as (n & v' & Hn & Hx & V). { unfold hcount. lia. }
    destruct (li_dreg _ _ _ _ _ _ HL d x Hin) as (_ & _ & Q). destruct (Q n Hn Hx) as [Hd|(e & _)]; [|congruence].
    pose proof (li_dnotrun _ _ _ _ _ _ HL n d Hn Hd). lia.
  Qed.

  Theorem delfunc_ran_or_pending_gen :
    forall d, d < s_next_did s ->
      cdr d (s_log s) = 1%nat \/ (cdr d (s_log s) = 0%nat /\ exists n, In n (s_nodes s) /\ In d (n_dels n)).
  Proof.
    intros d Hd. unfold InvL in *. destruct (li_dall _ _ _ _ _ _ HL d Hd) as [|(n & Hn & Hin)]; auto.
    right. split; eauto. apply (li_dnotrun _ _ _ _ _ _ HL n d Hn Hin).
  Qed.

  (* the recency list holds exactly the linked nodes, once each *)
  Theorem lru_list_exact_gen :
    NoDup (s_order s) /\ forall x, In x (s_order s) <-> exists n, In n (s_nodes s) /\ n_id n = x /\ resident n = true.
  Proof. unfold InvS in *. split; [apply (si_ord_nd _ _ _ _ HS)|apply (si_ord _ _ _ _ HS)]. Qed.

  Theorem unique_keys_gen : NoDup (map keyof (s_nodes s)).
  Proof. unfold InvS in *. apply (si_keys _ _ _ _ HS). Qed.

  (* ---- reference census: ref = outstanding handles + (1 if linked in the LRU) + references in flight *)
  Theorem ref_census_gen :
    s_forced s = false -> forall n, In n (s_nodes s) ->
      n_ref n = (Z.of_nat (handles_on (n_id n) (s_handles s)) + (if resident n then 1 else 0) + pf (n_id n))%Z /\ (0 <= n_ref n)%Z.
  Proof.
    intros Hf n Hn. unfold InvR in *. pose proof (ri_ref _ _ _ _ _ _ _ _ _ HR Hf n Hn) as E.
    pose proof (ri_p _ _ _ _ _ _ _ _ _ HR (n_id n)).
    unfold rcount, hcount in E. split; [destruct (resident n); lia|]. destruct (resident n); lia.
  Qed.

  Theorem used_exact_gen : s_used s = used_sum (s_nodes s).
  Proof. unfold InvS in *. rewrite used_sum_nsum. apply (si_used _ _ _ _ HS). Qed.

  Theorem no_panic_flag_gen : s_panic s = false.
  Proof. apply (inv_np _ _ _ HI). Qed.
End Gen.

(* ================================================================ the sequential semantics *)
Section Reachable.
  Variable s : state.
  Hypothesis R : reachable s.

  (* between operations no zero-check is pending and no reference is in flight *)
  Let G : Good zq0 s := reachable_good zq0 s R.
  Let HI : Inv zq0 p0 s := proj1 (proj1 G).
  Let HS := inv_s _ _ _ HI.
  Let HR := inv_r _ _ _ HI.
  Let HL := inv_l _ _ _ HI.

  Definition one_live_value_seq := one_live_value_gen zq0 p0 s HI.
  Definition construct_once_seq := construct_once_gen zq0 p0 s HI.
  Definition finalise_at_most_once_seq := finalise_at_most_once_gen zq0 p0 s HI.
  Definition finalise_not_early_seq := finalise_not_early_gen zq0 p0 s HI.
  Definition finalise_or_live_seq := finalise_or_live_gen zq0 p0 s HI.
  Definition delfunc_at_most_once_seq := delfunc_at_most_once_gen zq0 p0 s HI.
  Definition delfunc_not_early_seq := delfunc_not_early_gen zq0 p0 s HI.
  Definition delfunc_ran_or_pending_seq := delfunc_ran_or_pending_gen zq0 p0 s HI.
  Definition lru_list_exact_seq := lru_list_exact_gen zq0 p0 s HI.
  Definition unique_keys_seq := unique_keys_gen zq0 p0 s HI.

  Lemma closed_released_dead :
    s_closed s = true -> s_handles s = [] -> forall n, In n (s_nodes s) -> n_val n = None /\ n_dels n = [].
  Proof.
    intros Hc Hh n Hn. unfold InvS, InvR, InvL in *. pose proof G as [(_ & _ & CR) _].
    destruct (CR Hc) as (Ho & D). destruct (Bool.bool_dec (s_forced s) true) as [Hf|Hf].
    - destruct (D Hf n Hn) as (_ & a & b). auto.
    - apply Bool.not_true_is_false in Hf. assert (resident n = false) as Hres.
      { destruct (resident n) eqn:Rs; auto. exfalso.
        assert (In (n_id n) (s_order s)) as Hin by (apply (si_ord _ _ _ _ HS); eauto). rewrite Ho in Hin. destruct Hin. }
      pose proof (ri_ref _ _ _ _ _ _ _ _ _ HR Hf n Hn) as E. unfold rcount, p0 in E. rewrite Hres, Hh in E. cbn in E.
      destruct (n_val n) eqn:V.
      + assert (n_val n <> None) as Q by congruence.
        pose proof (ri_pos _ _ _ _ _ _ _ _ _ HR Hf n Hn (or_intror (or_introl Q)) eq_refl). lia.
      + destruct (n_dels n) eqn:Dl; auto.
        assert (n_dels n <> []) as Q by congruence.
        pose proof (ri_pos _ _ _ _ _ _ _ _ _ HR Hf n Hn (or_intror (or_intror Q)) eq_refl). lia.
  Qed.

  (* after Close and the release of every handle: finalised exactly once *)
  Theorem finalise_exactly_once_at_end_seq :
    s_closed s = true -> s_handles s = [] ->
    forall x v sz, In (EvConstruct x v sz) (s_log s) -> cf v (s_log s) = 1%nat.
  Proof.
    intros Hc Hh x v sz Hin. destruct (finalise_or_live_seq x v sz Hin) as [|(_ & n & Hn & _ & V)]; auto.
    destruct (closed_released_dead Hc Hh n Hn). congruence.
  Qed.

  (* an open cache keeps no garbage: every node in the table is pinned by a handle or by the LRU;
     so once everything is evicted and released the table is empty and (finalise_or_live) every
     value has been finalised exactly once *)
  Theorem open_nodes_pinned_seq :
    s_closed s = false -> forall n, In n (s_nodes s) -> (0 < handles_on (n_id n) (s_handles s))%nat \/ resident n = true.
  Proof.
    intros Hc n Hn. unfold InvR in *. pose proof (forced_false_of_open _ _ _ HI Hc) as Hf.
    pose proof (ri_ref _ _ _ _ _ _ _ _ _ HR Hf n Hn) as E. pose proof (ri_pos _ _ _ _ _ _ _ _ _ HR Hf n Hn (or_introl Hc) eq_refl) as P.
    unfold rcount, p0, hcount in E. destruct (resident n); auto. left. lia.
  Qed.

  Theorem delfunc_exactly_once_at_end_seq :
    s_closed s = true -> s_handles s = [] -> forall d, d < s_next_did s -> cdr d (s_log s) = 1%nat.
  Proof.
    intros Hc Hh d Hd. destruct (delfunc_ran_or_pending_seq d Hd) as [|(_ & n & Hn & Hin)]; auto.
    destruct (closed_released_dead Hc Hh n Hn) as [_ e]. rewrite e in Hin. destruct Hin.
  Qed.

  (* ---- capacity_respected *)
  Theorem capacity_respected_seq : s_used s = used_sum (s_nodes s) /\ (s_used s <= Z.of_N (s_cap s))%Z.
  Proof.
    unfold InvS in *. split; [|apply (proj1 (proj2 (proj1 G)))].
    rewrite used_sum_nsum. apply (si_used _ _ _ _ HS).
  Qed.

  (* ---- ref_nonneg / reference census *)
  Theorem ref_census_seq :
    s_forced s = false -> forall n, In n (s_nodes s) ->
      n_ref n = (Z.of_nat (handles_on (n_id n) (s_handles s)) + (if resident n then 1 else 0))%Z /\ (0 <= n_ref n)%Z.
  Proof.
    intros Hf n Hn. unfold InvR in *. pose proof (ri_ref _ _ _ _ _ _ _ _ _ HR Hf n Hn) as E.
    unfold rcount, p0, hcount in E. split; [lia|]. destruct (resident n); lia.
  Qed.

  Theorem ref_positive_open_seq : s_closed s = false -> forall n, In n (s_nodes s) -> (0 < n_ref n)%Z.
  Proof.
    intros Hc n Hn. unfold InvR in *. pose proof (forced_false_of_open _ _ _ HI Hc) as Hf.
    apply (ri_pos _ _ _ _ _ _ _ _ _ HR Hf n Hn (or_introl Hc) eq_refl).
  Qed.

  (* ---- no Go panic of the modelled code is reachable; the counters are exact *)
  Theorem no_panic_seq : forall o, snd (step s o) <> RPanic /\ s_panic (fst (step s o)) = false.
  Proof. intro o. apply (step_no_panic zq0). exact G. Qed.

  Theorem stats_exact_seq :
    s_closed s = false -> s_stat_nodes s = Z.of_nat (length (s_nodes s)) /\ s_stat_size s = size_sum (s_nodes s).
  Proof.
    intro Hc. unfold InvR in *. destruct (ri_stat _ _ _ _ _ _ _ _ _ HR Hc) as [A B]. split; auto.
    now rewrite size_sum_nsum.
  Qed.

  (* ---- banned_never_readmitted *)
  Theorem banned_never_readmitted_seq :
    forall ops n, In n (s_nodes s) -> n_lru n = LBanned ->
      forall n', In n' (s_nodes (run s ops)) -> n_id n' = n_id n ->
        n_lru n' = LBanned /\ ~ In (n_id n') (s_order (run s ops)) /\ keyof n' = keyof n.
  Proof.
    intros ops n Hn Hb n' Hn' Hid. unfold InvS in *.
    destruct (run_good zq0 ops s G) as [G' (_ & _ & E)].
    destruct (E n' Hn') as (m & Hm & i & k & b & _).
    { rewrite Hid. apply (si_fresh _ _ _ _ HS n Hn). }
    assert (m = n) as -> by (eapply same_id_eq; eauto; [apply (si_ids _ _ _ _ HS)|congruence]).
    split; [auto|]. split; [|auto].
    pose proof (inv_s _ _ _ (proj1 (proj1 G'))) as HS'. unfold InvS in HS'.
    intro Hin. apply (si_ord _ _ _ _ HS') in Hin. destruct Hin as (m' & Hm' & i' & r').
    assert (m' = n') as -> by (eapply same_id_eq; eauto; apply (si_ids _ _ _ _ HS')).
    unfold resident in r'. rewrite (b Hb) in r'. discriminate.
  Qed.
End Reachable.
