(* Conc/LocksDeadlock.v — layer 3 of the proofs about Conc/Locks.v (fixed variant): the protocol invariant
   [inv2] (ack tickets, merge protocol, pause protocol, Close, transaction ownership) and the PROGRESS theorem:
   in every state that satisfies the lock-ownership invariant inv1 (proved for all reachable states in
   LocksProofs.v) and inv2, if some client is inside a call (or owns an open transaction) then some step that is
   not a client arrival is enabled.  Preservation of inv2 is proved in Conc/LocksInv.v for every step of a
   client (one lemma per label) and in Conc/LocksInvBg.v for the steps of the three background goroutines;
   Conc/LocksInvAll.v assembles them (inv2_reachable) and derives the unconditional no_deadlock. *)
From GL Require Import Conc.Locks Conc.LocksProofs.
From Coq Require Import Lia.

(* ------------------------------------------------------------------ layer 3: protocol invariants *)

Definition closer_phase (pc : cpc) : bool :=
  match pc with
  | CL1 | CL2 | CL3 | CL3b | CL4 | CL5 | CL6 | DC0 XClose | DC1 XClose | DC2 XClose | DC3 XClose | DC4 XClose => true
  | _ => false
  end.
Definition closer_early (pc : cpc) : bool := match pc with CL1 | CL2 => true | _ => false end.
Definition closer_after (pc : cpc) : bool := closer_phase pc && negb (closer_early pc).

(* where the owner of the open transaction can be *)
Definition owner_ok (pc : cpc) : bool :=
  match pc with
  | IdleTr | RetTr | OT5 _ | OT4b _ | OT6 _ | OT7 _ | OT7d _ | LB1 | LB2 | LB3 _ | LB4 | LB5
  | CM0 _ | CM1 _ | CM2 _ | CM3 _ | CM4 _ | CM5 _ _ | CM6 _ _ | CM6c _ | CM5f _ | CM7 _ | CM8 _ | CM8b _ | CM9 _
  | CMFu _ | CMF _
  | DC0 XUser | DC0 XLB | DC1 XUser | DC1 XLB | DC2 XUser | DC2 XLB
  | TP1 | TP2 | TP3
  | TrigS _ (SCmWc _) | TrigW _ (SCmWc _) => true
  | _ => false
  end.
(* the transaction the client works on is known to be open (tested under tr.lk) *)
Definition tropen_pc (pc : cpc) : bool :=
  match pc with
  | CM3 _ | CM4 _ | CM5 _ _ | CM6 _ _ | CM6c _ | CM5f _ | CM7 _ | CM8 _ | CM8b _ | CM9 _
  | TrigS _ (SCmWc _) | TrigW _ (SCmWc _) | DC2 _ | OT7d _ => true
  | _ => false
  end.
(* the lock holder may have merged writers waiting for it *)
Definition mergephase (pc : cpc) : bool :=
  match pc with
  | WM _ | WMs _ | WJ _ | WR _ | WU _
  | TrigS BM (SRot0 (RPost _)) | TrigW BM (SRot0 (RPost _)) | Rot1 (RPost _) | Rot2 (RPost _) => true
  | _ => false
  end.
(* inside OpenTransaction, after the closed test and before db.tr is set *)
Definition ot_phase (pc : cpc) : bool :=
  match pc with
  | OT1 _ | OT2 _ | OT3 _ | OT4 _ | Rot1 (ROt _) | Rot2 (ROt _)
  | TrigS _ (SRot0 (ROt _)) | TrigS _ (SRot2 (ROt _)) | TrigS _ (SOtFrozen _) | TrigS _ (SOtWc _)
  | TrigW _ (SRot0 (ROt _)) | TrigW _ (SRot2 (ROt _)) | TrigW _ (SOtFrozen _) | TrigW _ (SOtWc _) => true
  | _ => false
  end.
Definition is_WMs (pc : cpc) : bool := match pc with WMs _ => true | _ => false end.
Definition is_W23 (pc : cpc) : bool := match pc with W2 | W3 => true | _ => false end.
Definition is_trigw_any (pc : cpc) : bool := match pc with TrigW _ _ => true | _ => false end.

Definition lbl_is (a b : lbl) : bool :=
  match a, b with
  | LCasClosed x, LCasClosed y | LIfTrOpen x, LIfTrOpen y | LMergeRecv x, LMergeRecv y
  | LIfClosed x, LIfClosed y | LReadDbTr x, LReadDbTr y => Bool.eqb x y
  | LCloseChan, LCloseChan | LAcqWClose, LAcqWClose | LRelWTr, LRelWTr | LWToTr, LWToTr | LLockT, LLockT
  | LUnlockT, LUnlockT | LGiveW, LGiveW | LRelWU, LRelWU | LMergedTrue, LMergedTrue => true
  | LSendCmd b1 _, LSendCmd b2 _ => match b1, b2 with BM, BM | BT, BT => true | _, _ => false end
  | _, _ => false
  end.

Definition cedge2_ok (pc : cpc) (e : lbl * cpc) : bool :=
  let (l, pc') := e in
  (* closer *)
  implb (closer_phase pc') (closer_phase pc || lbl_is l (LCasClosed true)) &&
  implb (lbl_is l (LCasClosed true)) (negb (closer_phase pc) && closer_early pc') &&
  implb (closer_after pc') (closer_after pc || lbl_is l LCloseChan) &&
  implb (lbl_is l LCloseChan) (closer_early pc) &&
  implb (closer_early pc') (closer_early pc || lbl_is l (LCasClosed true)) &&
  implb (lbl_is l LAcqWClose) (closer_after pc && closer_has pc') &&
  implb (closer_early pc) (closer_early pc' || lbl_is l LCloseChan) &&
  implb (closer_has pc) (closer_has pc' || negb (closer_phase pc')) &&
  implb (in_close_ctx pc) (negb (owner_ok pc)) &&
  (* owner of the transaction *)
  implb (owner_ok pc) (owner_ok pc' || lbl_is l LRelWTr || lbl_is l (LIfTrOpen false)) &&
  implb (lbl_is l LWToTr) (owner_ok pc' && negb (cTl pc')) &&
  implb (lbl_is l LRelWTr) (negb (tropen_pc pc') && negb (owner_ok pc') && tropen_pc pc) &&
  implb (tropen_pc pc') (tropen_pc pc || lbl_is l (LIfTrOpen true)) &&
  implb (lbl_is l (LIfTrOpen true) || lbl_is l LRelWTr) (cTl pc) &&
  implb (cTl pc') (cTl pc || lbl_is l LLockT) &&
  implb (lbl_is l LUnlockT) (negb (cTl pc')) &&
  implb (cTl pc') (Bool.eqb (in_close_ctx pc') (in_close_ctx pc)) &&
  implb (ot_phase pc') (ot_phase pc || lbl_is l (LIfClosed false)) &&
  implb (lbl_is l LWToTr) (ot_phase pc) &&
  implb (lbl_is l (LReadDbTr true) || lbl_is l (LReadDbTr false)) (closer_after pc && negb (in_close_ctx pc)) &&
  implb (in_close_ctx pc') (closer_phase pc) &&
  (* merge protocol *)
  implb (mergephase pc) (mergephase pc' || lbl_is l LGiveW || lbl_is l LRelWU) &&
  implb (lbl_is l (LMergeRecv true)) (mergephase pc && is_WMs pc') &&
  implb (lbl_is l (LMergeRecv false)) (mergephase pc && negb (is_WMs pc')) &&
  implb (is_WMs pc') (lbl_is l (LMergeRecv true)) &&
  implb (is_WMs pc) (lbl_is l LMergedTrue) &&
  implb (lbl_is l LMergedTrue) (is_WMs pc) &&
  negb (is_W23 pc') && negb (is_W23 pc) &&
  (* acks *)
  implb (is_trigw_any pc')
        (match pc' with TrigW b _ => lbl_is l (LSendCmd b XAck) | _ => false end) &&
  match l with LSendCmd b k => negb (match k with XNo => true | _ => false end) && is_trigw b pc' && negb (is_trigw_any pc) | _ => true end.

Lemma cedges2_ok : forall pc, forallb (cedge2_ok pc) (cedges fixed pc) = true.
Proof. intro pc; destruct pc; dparams; reflexivity. Qed.

Definition m_exited (pc : mpc) : bool := match pc with MXu | MX | MDone => true | _ => false end.
Definition t_exited (pc : tpc) : bool := match pc with TXu | TX | TDone => true | _ => false end.
Definition mpaused (pc : mpc) : bool :=
  match pc with
  | MB true | MB1 true | MBs true _ | MC true | MD true | MD1 true | MDs true _ | ME true | MF true => true
  | _ => false
  end.
Definition is_TP (pc : tpc) : bool := match pc with TP _ => true | _ => false end.
(* tCompaction holds no command of its own here *)
Definition tx_none_pc (pc : tpc) : bool :=
  match pc with
  | T0 | T1 | T1b | T2a | T2 | T3 XNo | T4 | TB false | TB1 false | TBs false _ | TC false | TD false | TD1 false
  | TDs false _ | TE false | TQ _ | TP KT0 | TP (KTB1 false) | TDone => true
  | _ => false
  end.

Record inv2 (s : state) : Prop := {
  g1 : closeC s = true -> closed s = true;
  g2 : ce s = E_done -> closeC s = true;
  g3 : locking s = true -> ce s = E_per;
  g4 : m_exited (mc s) = true -> ce s = E_per \/ closed s = true;
  g5 : t_exited (tc s) = true -> ce s = E_per \/ closed s = true;
  g6 : closed s = true -> closeC s = false -> exists i, closer_early (cli s i) = true;
  g7a : is_TP (tc s) = true -> mpaused (mc s) = true \/ m_exited (mc s) = true;
  g7b : mpaused (mc s) = true -> is_TP (tc s) = true \/ closeC s = true;
  g8 : (mc s = M0 \/ mc s = MDone) -> mx s = None;
  g9a : tx_none_pc (tc s) = true -> tx s = None;
  g9b : (tc s = T2 \/ tc s = TDone) -> tq s = [];
  g10 : wl s = WTr <-> trown s <> None;
  g11 : wl s = WClosed -> closeC s = true;
  g12 : closetgt s <> None -> closed s = true;
  l1 : forall i, is_trigw BM (cli s i) = true -> mx s = Some (i, ctk s i);
  l2 : forall i, is_trigw BT (cli s i) = true -> tx s = Some (i, ctk s i) \/ In (i, ctk s i) (tq s);
  l3a : forall i, cli s i = W2 <-> pend s = Some i;
  l3b : forall i, cli s i = W3 <-> In i (merged s);
  l3n : NoDup (merged s);
  l4 : (pend s <> None \/ merged s <> []) -> exists h, wl s = WHeld (PCli h) /\ mergephase (cli s h) = true;
  l4b : forall h, is_WMs (cli s h) = true -> pend s <> None;
  l5a : forall i, closer_phase (cli s i) = true -> closed s = true;
  l5b : forall i, closer_after (cli s i) = true -> closeC s = true;
  l8 : forall i, closer_phase (cli s i) = true -> closer_has (cli s i) = false -> wl s <> WClosed;
  u1 : forall i j, closer_phase (cli s i) = true -> closer_phase (cli s j) = true -> i = j;
  l6a : forall i, cTl (cli s i) = true -> tr_current s i = true -> tl s = Some i;
  l6 : forall i, tropen_pc (cli s i) = true -> tr_current s i = true;
  l7 : forall o, trown s = Some o -> owner_ok (cli s o) = true;
  l9 : forall o, closetgt s = Some o -> ot_phase (cli s o) = false
}.


(* tr_current as a function of the client's own program counter *)
Definition trc (s : state) (j : nat) (pc : cpc) : bool :=
  match (if in_close_ctx pc then closetgt s else Some j) with
  | Some o => onat_eqb (trown s) (Some o)
  | None => false
  end.
Lemma tr_current_trc : forall s j, tr_current s j = trc s j (cli s j).
Proof. reflexivity. Qed.

(* the facts about one client: they mention the rest of the state but no other client's program counter *)
Record loc (s : state) (j : nat) (pc : cpc) : Prop := {
  lc1 : is_trigw BM pc = true -> mx s = Some (j, ctk s j);
  lc2 : is_trigw BT pc = true -> tx s = Some (j, ctk s j) \/ In (j, ctk s j) (tq s);
  lc3a : pc = W2 <-> pend s = Some j;
  lc3b : pc = W3 <-> In j (merged s);
  lc4b : is_WMs pc = true -> pend s <> None;
  lc5a : closer_phase pc = true -> closed s = true;
  lc5b : closer_after pc = true -> closeC s = true;
  lc8 : closer_phase pc = true -> closer_has pc = false -> wl s <> WClosed;
  lc6a : cTl pc = true -> trc s j pc = true -> tl s = Some j;
  lc6 : tropen_pc pc = true -> trc s j pc = true;
  lc7 : trown s = Some j -> owner_ok pc = true;
  lc9 : closetgt s = Some j -> ot_phase pc = false
}.

Record glob (s : state) : Prop := {
  gg1 : closeC s = true -> closed s = true;
  gg2 : ce s = E_done -> closeC s = true;
  gg3 : locking s = true -> ce s = E_per;
  gg4 : m_exited (mc s) = true -> ce s = E_per \/ closed s = true;
  gg5 : t_exited (tc s) = true -> ce s = E_per \/ closed s = true;
  gg6 : closed s = true -> closeC s = false -> exists i, closer_early (cli s i) = true;
  gg7a : is_TP (tc s) = true -> mpaused (mc s) = true \/ m_exited (mc s) = true;
  gg7b : mpaused (mc s) = true -> is_TP (tc s) = true \/ closeC s = true;
  gg8 : (mc s = M0 \/ mc s = MDone) -> mx s = None;
  gg9a : tx_none_pc (tc s) = true -> tx s = None;
  gg9b : (tc s = T2 \/ tc s = TDone) -> tq s = [];
  gg10 : wl s = WTr <-> trown s <> None;
  gg11 : wl s = WClosed -> closeC s = true;
  gg12 : closetgt s <> None -> closed s = true;
  gg3n : NoDup (merged s);
  ggl4 : (pend s <> None \/ merged s <> []) -> exists h, wl s = WHeld (PCli h) /\ mergephase (cli s h) = true;
  ggu1 : forall i j, closer_phase (cli s i) = true -> closer_phase (cli s j) = true -> i = j
}.

Definition inv2' (s : state) : Prop := glob s /\ forall j, loc s j (cli s j).

Lemma inv2_of_parts : forall s, inv2' s -> inv2 s.
Proof.
  intros s [Gl L]. destruct Gl.
  constructor; auto; intros.
  - apply (lc1 _ _ _ (L i)); auto.
  - apply (lc2 _ _ _ (L i)); auto.
  - apply (lc3a _ _ _ (L i)).
  - apply (lc3b _ _ _ (L i)).
  - apply (lc4b _ _ _ (L h)); auto.
  - apply (lc5a _ _ _ (L i)); auto.
  - apply (lc5b _ _ _ (L i)); auto.
  - apply (lc8 _ _ _ (L i)); auto.
  - apply (lc6a _ _ _ (L i)); auto.
  - rewrite tr_current_trc. apply (lc6 _ _ _ (L i)); auto.
  - apply (lc7 _ _ _ (L o)); auto.
  - apply (lc9 _ _ _ (L o)); auto.
Qed.

Lemma inv2'_init : inv2' init.
Proof.
  split.
  - constructor; simpl; intros; try discriminate; auto; try (intuition congruence).
    constructor.
  - intro j. constructor; simpl; intros; try discriminate; auto;
      try (split; intros; try discriminate; try contradiction).
Qed.


(* some step that is not an arrival is enabled.  The STRICT reading (st = Strict) also excludes every step of a
   client that stands at IdleTr (the owner of a Transaction handle starting Commit / Discard): used for the
   closing phase, where -- after repair fb021ae -- nobody has to wait for such an owner. *)
Definition at_idletr (s : state) (a : action) : bool :=
  match a with ACli i _ _ => match cli s i with IdleTr => true | _ => false end | _ => false end.
Inductive rmode := Loose | Strict.
Lemma rmode_cases : forall m : rmode, m = Loose \/ m = Strict.
Proof. destruct m; auto. Qed.
Definition Gs (st : rmode) (s : state) : Prop :=
  exists a, is_arrival fixed s a = false /\ (st = Strict -> at_idletr s a = false) /\ exists s', step fixed s a = Some s'.

Section Progress.
Variable st : rmode.
Local Notation G := (Gs st).

Lemma G_m : forall s k l pc' s1,
  nth_error (medges (mc s)) k = Some (l, pc') -> lsem fixed PM l 0 s = Some s1 -> G s.
Proof.
  intros s k l pc' s1 N L. exists (AM k). split; [reflexivity|]. split; [reflexivity|]. simpl. rewrite N, L. eauto.
Qed.
Lemma G_t : forall s k l pc' s1,
  nth_error (tedges (tc s)) k = Some (l, pc') -> lsem fixed PT l 0 s = Some s1 -> G s.
Proof.
  intros s k l pc' s1 N L. exists (AT k). split; [reflexivity|]. split; [reflexivity|]. simpl. rewrite N, L. eauto.
Qed.
Lemma G_c : forall s i k arg l pc' s1,
  nth_error (cedges fixed (cli s i)) k = Some (l, pc') -> lsem fixed (PCli i) l arg s = Some s1 ->
  cli s i <> Idle -> (cli s i = IdleTr -> pc' <> TP1) -> (st = Strict -> cli s i <> IdleTr) -> G s.
Proof.
  intros s i k arg l pc' s1 N L NI NT NS. exists (ACli i k arg). split; [| split].
  - simpl. destruct (cli s i) eqn:E; try reflexivity; try congruence.
    change (match nth_error (cedges fixed IdleTr) k with Some (_, TP1) => true | _ => false end = false).
    rewrite N. destruct pc'; try reflexivity. exfalso; apply NT; auto.
  - intro S. simpl. specialize (NS S). destruct (cli s i); try reflexivity. congruence.
  - simpl. rewrite N, L. eauto.
Qed.

(* try the k-th edge of mCompaction / tCompaction *)
Ltac m_act k := eapply (G_m _ k); [match goal with H : mc _ = _ |- _ => rewrite H end; reflexivity
                                  | simpl; unfold guard; repeat match goal with H : _ = _ |- _ => rewrite H end; simpl; reflexivity].
Ltac t_act k := eapply (G_t _ k); [match goal with H : tc _ = _ |- _ => rewrite H end; reflexivity
                                  | simpl; unfold guard; repeat match goal with H : _ = _ |- _ => rewrite H end; simpl; reflexivity].

Lemma ce_quiet : forall s, inv2 s -> G s \/ (closeC s = true -> ce s = E_done).
Proof.
  intros s I2. destruct (closeC s) eqn:HC; [| right; discriminate].
  destruct (ce s) eqn:HE; try (right; reflexivity); left;
    (exists (ACE 1); split; [reflexivity | split; [reflexivity | simpl; unfold step_ce, guard; rewrite HE, HC; eauto]]).
Qed.

Lemma mf_dec : forall m, m = MF true \/ m <> MF true.
Proof. destruct m; try (right; discriminate). destruct p; [left; reflexivity | right; discriminate]. Qed.

Lemma t_quiet : forall s, inv1 s -> inv2 s -> cl s = None ->
  G s \/ (tc s = T2 /\ closeC s = false) \/ (is_TP (tc s) = true /\ closeC s = false /\ mc s <> MF true) \/ tc s = TDone.
Proof.
  intros s I1 I2 HCL.
  assert (HTC : tC (tc s) = false).
  { destruct I1 as [_ _ _ _ _ _ ICT _ _ _ _]. rewrite <- ICT. unfold cl_is. rewrite HCL. reflexivity. }
  destruct (closeC s) eqn:HC; destruct (closed s) eqn:HD; destruct (ce s) eqn:HE;
  destruct (tc s) eqn:HT; dparams; simpl in HTC; try discriminate;
  try (left; first [t_act 0 | t_act 1 | t_act 2 | t_act 3]);
  try (right; left; split; reflexivity);
  try (right; right; right; reflexivity).
  all: try (destruct (tq s) eqn:HQ; left; first [t_act 0 | t_act 1]).
  all: try (destruct (mf_dec (mc s)) as [HM | HM];
            [left; eapply (G_m _ 0); [rewrite HM; reflexivity | simpl; rewrite HT; reflexivity]
            | right; right; left; repeat split; auto]).
  all: exfalso; pose proof (g2 s I2 HE); congruence.
Qed.

Lemma m_quiet : forall s, inv1 s -> inv2 s -> cl s = None -> (closed s = true -> closeC s = true) ->
  ((tc s = T2 /\ closeC s = false) \/ (is_TP (tc s) = true /\ closeC s = false /\ mc s <> MF true) \/ tc s = TDone) ->
  G s \/ (mc s = M0 /\ closeC s = false) \/ mc s = MDone.
Proof.
  intros s I1 I2 HCL HCD TQ.
  assert (HMC : mC (mc s) = false).
  { destruct I1 as [_ _ _ _ _ ICM _ _ _ _ _]. rewrite <- ICM. unfold cl_is. rewrite HCL. reflexivity. }
  destruct (mc s) eqn:HM; dparams; simpl in HMC; try discriminate.
  - (* M0 *) destruct (closeC s) eqn:HC; [left; m_act 0 | right; left; auto].
  - (* M1 *) left; m_act 0.
  - (* MP *)
    destruct (closeC s) eqn:HC; [left; m_act 2|].
    destruct (ce s) eqn:HE; try (left; m_act 1).
    + destruct TQ as [[HT _] | [[HT _] | HT]].
      * left. eapply (G_m _ 0); [rewrite HM; reflexivity | simpl; rewrite HT; reflexivity].
      * exfalso. destruct (g7a s I2 HT) as [X | X]; rewrite HM in X; discriminate.
      * exfalso. assert (X : t_exited (tc s) = true) by (rewrite HT; reflexivity).
        destruct (g5 s I2 X) as [Y | Y]; [congruence | specialize (HCD Y); congruence].
    + destruct TQ as [[HT _] | [[HT _] | HT]].
      * left. eapply (G_m _ 0); [rewrite HM; reflexivity | simpl; rewrite HT; reflexivity].
      * exfalso. destruct (g7a s I2 HT) as [X | X]; rewrite HM in X; discriminate.
      * exfalso. assert (X : t_exited (tc s) = true) by (rewrite HT; reflexivity).
        destruct (g5 s I2 X) as [Y | Y]; [congruence | specialize (HCD Y); congruence].
    + exfalso. pose proof (g2 s I2 HE). congruence.
  - (* MB *) left. destruct (closed s) eqn:HD; [m_act 0 | m_act 1].
  - left. destruct (closed s) eqn:HD; [m_act 0 | m_act 1].
  - (* MB1 *) left; m_act 0.
  - left; m_act 0.
  - left. destruct (ce s) eqn:HE; [m_act 0 | m_act 0 | m_act 1 | pose proof (g2 s I2 HE) as HC; m_act 2].
  - left. destruct (ce s) eqn:HE; [m_act 0 | m_act 0 | m_act 1 | pose proof (g2 s I2 HE) as HC; m_act 2].
  - left. destruct (ce s) eqn:HE; [m_act 0 | m_act 0 | m_act 1 | pose proof (g2 s I2 HE) as HC; m_act 2].
  - left. destruct (ce s) eqn:HE; [m_act 0 | m_act 0 | m_act 1 | pose proof (g2 s I2 HE) as HC; m_act 2].
  - left. destruct (ce s) eqn:HE; [m_act 0 | m_act 0 | m_act 1 | pose proof (g2 s I2 HE) as HC; m_act 2].
  - left. destruct (ce s) eqn:HE; [m_act 0 | m_act 0 | m_act 1 | pose proof (g2 s I2 HE) as HC; m_act 2].
  - left. destruct (ce s) eqn:HE; [m_act 0 | m_act 0 | m_act 1 | pose proof (g2 s I2 HE) as HC; m_act 2].
  - left. destruct (ce s) eqn:HE; [m_act 0 | m_act 0 | m_act 1 | pose proof (g2 s I2 HE) as HC; m_act 2].
  - (* MC *) left; m_act 0.
  - left; m_act 0.
  - (* MF true *)
    destruct TQ as [[HT _] | [[HT [_ X]] | HT]].
    + destruct (g7b s I2) as [Y | Y]; [rewrite HM; reflexivity | rewrite HT in Y; discriminate | left; m_act 1].
    + exfalso; apply X; reflexivity.
    + destruct (g7b s I2) as [Y | Y]; [rewrite HM; reflexivity | rewrite HT in Y; discriminate | left; m_act 1].
  - (* MF false *) left; m_act 0.
  - (* MG *) left. eapply (G_m _ 0); [rewrite HM; reflexivity | reflexivity].
  - (* MAck *) left. eapply (G_m _ 0); [rewrite HM; reflexivity | reflexivity].
  - (* MX *) left. eapply (G_m _ 0); [rewrite HM; reflexivity | reflexivity].
  - (* MDone *) right; right; reflexivity.
Qed.

Ltac c_act i k arg :=
  eapply (G_c _ i k arg);
  [ match goal with H : cli _ i = _ |- _ => rewrite H end; reflexivity
  | simpl; unfold guard; repeat match goal with H : _ = _ |- _ => rewrite H end; simpl;
    first [ reflexivity
          | unfold wl_is, cl_is, wl_free; repeat match goal with H : _ = _ |- _ => rewrite H end; simpl;
            rewrite ?Nat.eqb_refl; simpl; reflexivity ]
  | match goal with H : cli _ i = _ |- _ => rewrite H end; discriminate
  | match goal with H : cli _ i = _ |- _ => rewrite H end; first [discriminate | intros _; discriminate]
  | first [ intros _; match goal with H : cli _ i = _ |- _ => rewrite H end; discriminate
          | match goal with H : cli _ i = _ |- _ => rewrite H end; assumption | assumption ] ].

Lemma cl_holder_moves : forall s p, inv1 s -> inv2 s -> cl s = Some p -> G s.
Proof.
  intros s p I1 I2 HCL.
  destruct p as [i | | |].
  - assert (HC : cC (cli s i) = true).
    { destruct I1 as [_ _ _ _ IC _ _ _ _ _ _]. rewrite <- IC. unfold cl_is. rewrite HCL. simpl. apply Nat.eqb_refl. }
    destruct (cli s i) eqn:Hpc; simpl in HC; try discriminate.
    + c_act i 1 0.
    + c_act i 0 0.
    + c_act i 0 0.
    + c_act i 0 0.
    + c_act i 0 0.
    + c_act i 0 0.
  - assert (HC : mC (mc s) = true).
    { destruct I1 as [_ _ _ _ _ ICM _ _ _ _ _]. rewrite <- ICM. unfold cl_is. rewrite HCL. reflexivity. }
    destruct (mc s) eqn:HM; simpl in HC; try discriminate.
    + destruct (closed s) eqn:HD; [m_act 0 | m_act 1].
    + m_act 1.
    + destruct (ce s) eqn:HE; [m_act 0 | m_act 0 | m_act 1 | pose proof (g2 s I2 HE) as HCC; m_act 2].
    + eapply (G_m _ 0); [rewrite HM; reflexivity | simpl; unfold guard, cl_is; rewrite HCL; reflexivity].
    + eapply (G_m _ 0); [rewrite HM; reflexivity | simpl; unfold guard, cl_is; rewrite HCL; reflexivity].
  - assert (HC : tC (tc s) = true).
    { destruct I1 as [_ _ _ _ _ _ ICT _ _ _ _]. rewrite <- ICT. unfold cl_is. rewrite HCL. reflexivity. }
    destruct (tc s) eqn:HT; simpl in HC; try discriminate.
    + destruct (closed s) eqn:HD; [t_act 0 | t_act 1].
    + t_act 1.
    + destruct (ce s) eqn:HE; [t_act 0 | t_act 0 | t_act 1 | pose proof (g2 s I2 HE) as HCC; t_act 2].
    + eapply (G_t _ 0); [rewrite HT; reflexivity | simpl; unfold guard, cl_is; rewrite HCL; reflexivity].
    + eapply (G_t _ 0); [rewrite HT; reflexivity | simpl; unfold guard, cl_is; rewrite HCL; reflexivity].
  - exfalso. destruct I1 as [_ _ _ _ _ _ _ ICCE _ _ _]. unfold cl_is in ICCE. rewrite HCL in ICCE. discriminate.
Qed.

Lemma closer_early_moves : forall s i, closer_early (cli s i) = true -> G s.
Proof.
  intros s i H. destruct (cli s i) eqn:Hpc; simpl in H; try discriminate.
  - c_act i 0 0.
  - c_act i 0 0.
Qed.

Record quiet (s : state) : Prop := {
  q_cl : cl s = None;
  q_cd : closed s = true -> closeC s = true;
  q_m : (mc s = M0 /\ closeC s = false) \/ mc s = MDone;
  q_t : (tc s = T2 /\ closeC s = false) \/ (is_TP (tc s) = true /\ closeC s = false /\ mc s <> MF true) \/ tc s = TDone;
  q_ce : closeC s = true -> ce s = E_done
}.

Lemma to_quiet : forall s, inv1 s -> inv2 s -> G s \/ quiet s.
Proof.
  intros s I1 I2.
  destruct (cl s) as [p|] eqn:HCL; [left; eapply cl_holder_moves; eauto|].
  assert (CD : G s \/ (closed s = true -> closeC s = true)).
  { destruct (closed s) eqn:HD; [| right; discriminate].
    destruct (closeC s) eqn:HC; [right; auto|].
    destruct (g6 s I2 HD HC) as [i Hi]. left. eapply closer_early_moves; eauto. }
  destruct CD as [X | CD]; [left; exact X|].
  destruct (ce_quiet s I2) as [X | CE]; [left; exact X|].
  destruct (t_quiet s I1 I2 HCL) as [X | TQ]; [left; exact X|].
  destruct (m_quiet s I1 I2 HCL CD TQ) as [X | MQ]; [left; exact X|].
  right. constructor; auto.
Qed.

(* after an exit of a compaction goroutine the waiting select has an enabled error / close case *)
Lemma exited_gives : forall s, inv2 s -> quiet s ->
  (m_exited (mc s) = true \/ t_exited (tc s) = true) -> ce s = E_per \/ closeC s = true.
Proof.
  intros s I2 Q [H | H].
  - destruct (g4 s I2 H) as [X | X]; auto. right. apply (q_cd s Q X).
  - destruct (g5 s I2 H) as [X | X]; auto. right. apply (q_cd s Q X).
Qed.

Lemma trig_moves : forall s i b s0, inv1 s -> inv2 s -> quiet s ->
  (cli s i = TrigS b s0 \/ cli s i = TrigW b s0) -> G s.
Proof.
  intros s i b s0 I1 I2 Q [Hpc | Hpc].
  - (* first select *)
    destruct b.
    + destruct (q_m s Q) as [[HM HC] | HM].
      * eapply (G_c _ i 0 0); [rewrite Hpc; reflexivity | | rewrite Hpc; discriminate | rewrite Hpc; discriminate | intros _; rewrite Hpc; discriminate].
        simpl. rewrite HM. reflexivity.
      * destruct (exited_gives s I2 Q) as [HE | HC]; [left; rewrite HM; reflexivity | c_act i 1 0 | c_act i 2 0].
    + destruct (q_t s Q) as [[HT HC] | [[HT [HC _]] | HT]].
      * eapply (G_c _ i 0 0); [rewrite Hpc; reflexivity | | rewrite Hpc; discriminate | rewrite Hpc; discriminate | intros _; rewrite Hpc; discriminate].
        simpl. rewrite HT. simpl. reflexivity.
      * assert (X : m_exited (mc s) = true).
        { destruct (g7a s I2 HT) as [X | X]; auto. destruct (q_m s Q) as [[HM _] | HM]; rewrite HM in X; discriminate. }
        destruct (exited_gives s I2 Q) as [HE | HC']; [left; auto | c_act i 1 0 | c_act i 2 0].
      * destruct (exited_gives s I2 Q) as [HE | HC]; [right; rewrite HT; reflexivity | c_act i 1 0 | c_act i 2 0].
  - (* second select *)
    destruct b.
    + exfalso. assert (X : is_trigw BM (cli s i) = true) by (rewrite Hpc; reflexivity).
      pose proof (l1 s I2 i X) as Y.
      assert (Z : mx s = None) by (apply (g8 s I2); destruct (q_m s Q) as [[HM _] | HM]; auto).
      congruence.
    + assert (X : is_trigw BT (cli s i) = true) by (rewrite Hpc; reflexivity).
      pose proof (l2 s I2 i X) as Y.
      destruct (q_t s Q) as [[HT HC] | [[HT [HC _]] | HT]].
      * exfalso. assert (Z1 : tx s = None) by (apply (g9a s I2); rewrite HT; reflexivity).
        assert (Z2 : tq s = []) by (apply (g9b s I2); auto).
        destruct Y as [Y | Y]; [congruence | rewrite Z2 in Y; destruct Y].
      * assert (X' : m_exited (mc s) = true).
        { destruct (g7a s I2 HT) as [X' | X']; auto. destruct (q_m s Q) as [[HM _] | HM]; rewrite HM in X'; discriminate. }
        destruct (exited_gives s I2 Q) as [HE | HC']; [left; auto | c_act i 0 0 | c_act i 1 0].
      * exfalso. assert (Z1 : tx s = None) by (apply (g9a s I2); rewrite HT; reflexivity).
        assert (Z2 : tq s = []) by (apply (g9b s I2); auto).
        destruct Y as [Y | Y]; [congruence | rewrite Z2 in Y; destruct Y].
Qed.

Lemma reltr_enabled : forall s i, inv2 s -> tropen_pc (cli s i) = true ->
  lsem fixed (PCli i) LRelWTr 0 s = Some (set_trown (set_wl s WFree) None).
Proof.
  intros s i I2 H. pose proof (l6 s I2 i H) as TC.
  assert (W : wl s = WTr).
  { apply (g10 s I2). unfold tr_current in TC. destruct (my_tr s i); [| discriminate].
    destruct (trown s); [discriminate | simpl in TC; discriminate]. }
  simpl. rewrite W, TC. reflexivity.
Qed.

(* program counters at which a client neither waits for the write lock nor is a passive partner *)
Definition active_pc (pc : cpc) : bool :=
  match pc with Idle | W1 _ | OT1 _ | CR1 | RO1 | CL4 | W2 | W3 => false | _ => true end.

Lemma active_moves : forall s i, inv1 s -> inv2 s -> quiet s ->
  active_pc (cli s i) = true -> (tl s = None \/ cTl (cli s i) = true) -> (st = Strict -> cli s i <> IdleTr) -> G s.
Proof.
  intros s i I1 I2 Q HA HT HNI.
  pose proof (q_cl s Q) as HCL.
  assert (HW : wl_is s (PCli i) = cW (cli s i)) by (destruct I1; auto).
  assert (HCc : cC (cli s i) = false).
  { destruct I1 as [_ _ _ _ IC _ _ _ _ _ _]. rewrite <- IC. unfold cl_is. rewrite HCL. reflexivity. }
  destruct (cli s i) eqn:Hpc; dparams; simpl in HA, HCc, HW; try discriminate;
  try (destruct HT as [HT | HT]; [| simpl in HT; try discriminate]);
  try (solve [first [c_act i 0 0 | c_act i 1 0 | c_act i 2 0]]);
  try (solve [eapply trig_moves; eauto]);
  try (solve [destruct (closed s) eqn:HD; first [c_act i 0 0 | c_act i 1 0 | c_act i 2 0]]);
  try (solve [destruct (tr_current s i) eqn:HTC; first [c_act i 0 0 | c_act i 1 0 | c_act i 2 0]]).
  all: try (solve [destruct (onat_eqb (tl s) (Some i)) eqn:HU; c_act i 0 0]).
  all: try (solve [eapply (G_c _ i 0 0);
                   [rewrite Hpc; reflexivity | apply reltr_enabled; auto; rewrite Hpc; reflexivity
                   | rewrite Hpc; discriminate | rewrite Hpc; discriminate | intros _; rewrite Hpc; discriminate]]).
  all: try (solve [destruct (closeC s) eqn:HCC; first [c_act i 0 0 | c_act i 1 0]]).
  - (* WMs *)
    assert (P : pend s <> None) by (apply (l4b s I2 i); rewrite Hpc; reflexivity).
    destruct (pend s) as [j|] eqn:HP; [| congruence].
    assert (HJ : cli s j = W2) by (apply (l3a s I2 j); auto).
    c_act i 0 0.
  - assert (P : pend s <> None) by (apply (l4b s I2 i); rewrite Hpc; reflexivity).
    destruct (pend s) as [j|] eqn:HP; [| congruence].
    assert (HJ : cli s j = W2) by (apply (l3a s I2 j); auto).
    c_act i 0 0.
  - (* WU *)
    destruct (merged s) as [| j rest] eqn:HMg.
    + destruct (pend s) as [j|] eqn:HP.
      * assert (HJ : cli s j = W2) by (apply (l3a s I2 j); auto). c_act i 1 0.
      * c_act i 2 0.
    + assert (HJ : cli s j = W3) by (apply (l3b s I2 j); rewrite HMg; left; reflexivity).
      eapply (G_c _ i 0 j); [rewrite Hpc; reflexivity | | rewrite Hpc; discriminate | rewrite Hpc; discriminate | intros _; rewrite Hpc; discriminate].
      simpl. unfold guard. rewrite HMg, HJ. simpl. rewrite Nat.eqb_refl. reflexivity.
  - destruct (merged s) as [| j rest] eqn:HMg.
    + destruct (pend s) as [j|] eqn:HP.
      * assert (HJ : cli s j = W2) by (apply (l3a s I2 j); auto). c_act i 1 0.
      * c_act i 2 0.
    + assert (HJ : cli s j = W3) by (apply (l3b s I2 j); rewrite HMg; left; reflexivity).
      eapply (G_c _ i 0 j); [rewrite Hpc; reflexivity | | rewrite Hpc; discriminate | rewrite Hpc; discriminate | intros _; rewrite Hpc; discriminate].
      simpl. unfold guard. rewrite HMg, HJ. simpl. rewrite Nat.eqb_refl. reflexivity.
  - (* RO2 *)
    destruct (ce s) eqn:HE; [c_act i 0 0 | c_act i 0 0 | c_act i 1 0 | pose proof (g2 s I2 HE) as HC; c_act i 2 0].
  - (* CL3 *)
    destruct (trown s) eqn:HO; [c_act i 0 0 | c_act i 1 0].
  - (* CL5 *)
    assert (HC : closeC s = true) by (apply (l5b s I2 i); rewrite Hpc; reflexivity).
    assert (HM : mc s = MDone) by (destruct (q_m s Q) as [[_ X] | X]; [congruence | auto]).
    assert (HTc : tc s = TDone) by (destruct (q_t s Q) as [[_ X] | [[_ [X _]] | X]]; [congruence | congruence | auto]).
    c_act i 0 0.
Qed.

Lemma cW_active : forall pc, cW pc = true -> active_pc pc = true.
Proof. destruct pc; simpl; intros; try discriminate; auto. Qed.
Lemma cTl_active : forall pc, cTl pc = true -> active_pc pc = true.
Proof. destruct pc; simpl; intros; try discriminate; auto. Qed.
Lemma owner_active : forall pc, owner_ok pc = true -> active_pc pc = true.
Proof. destruct pc; simpl; intros; try discriminate; auto. Qed.
Lemma mergephase_active : forall pc, mergephase pc = true -> active_pc pc = true.
Proof. destruct pc; simpl; intros; try discriminate; auto. Qed.

Definition wwait_pc (pc : cpc) : bool := match pc with W1 _ | OT1 _ | CR1 | RO1 | CL4 => true | _ => false end.

Lemma cW_not_idletr : forall pc, cW pc = true -> pc <> IdleTr.
Proof. intros pc H E; subst; discriminate. Qed.
Lemma cTl_not_idletr : forall pc, cTl pc = true -> pc <> IdleTr.
Proof. intros pc H E; subst; discriminate. Qed.
Lemma mergephase_not_idletr : forall pc, mergephase pc = true -> pc <> IdleTr.
Proof. intros pc H E; subst; discriminate. Qed.

(* in the strict reading: closeC is closed, and Close, once it waits for the write lock, never waits for a
   transaction whose owner is between calls *)
Definition strict_hyp (s : state) : Prop :=
  st = Strict -> closeC s = true /\ forall i o, cli s i = CL4 -> trown s = Some o -> cli s o <> IdleTr.

Lemma wwait_moves : forall s i, inv1 s -> inv2 s -> quiet s -> tl s = None -> strict_hyp s ->
  wwait_pc (cli s i) = true -> G s.
Proof.
  intros s i I1 I2 Q HTL HS HWW.
  destruct (wl s) as [| p | |] eqn:HWL.
  - (* free *) destruct (cli s i) eqn:Hpc; simpl in HWW; try discriminate; dparams; c_act i 0 0.
  - destruct p as [h | | |].
    + assert (HC : cW (cli s h) = true).
      { destruct I1 as [IW _ _ _ _ _ _ _ _ _ _]. rewrite <- IW. unfold wl_is. rewrite HWL. simpl. apply Nat.eqb_refl. }
      apply (active_moves s h); auto using cW_active, cW_not_idletr.
    + exfalso. destruct I1 as [_ IWM _ _ _ _ _ _ _ _ _]. unfold wl_is in IWM. rewrite HWL in IWM. discriminate.
    + exfalso. destruct I1 as [_ _ IWT _ _ _ _ _ _ _ _]. unfold wl_is in IWT. rewrite HWL in IWT. discriminate.
    + assert (LK : locking s = true).
      { destruct I1 as [_ _ _ IWCE _ _ _ _ _ _ _]. rewrite <- IWCE. unfold wl_is. rewrite HWL. reflexivity. }
      pose proof (g3 s I2 LK) as HE.
      destruct (cli s i) eqn:Hpc; simpl in HWW; try discriminate; dparams; try (c_act i 1 0).
      exfalso. assert (HC : closeC s = true) by (apply (l5b s I2 i); rewrite Hpc; reflexivity).
      pose proof (q_ce s Q HC). congruence.
  - (* owned by the open transaction *)
    assert (TO : trown s <> None) by (apply (g10 s I2); auto).
    destruct (trown s) as [o|] eqn:HO; [| congruence].
    pose proof (l7 s I2 o HO) as OK.
    destruct (rmode_cases st) as [EST | EST].
    + apply (active_moves s o); auto using owner_active. intro X; congruence.
    + (* strict: the waiters other than Close leave at closeC; Close does not wait for an owner at IdleTr *)
      destruct (HS EST) as [HC HK].
      destruct (cli s i) eqn:Hpc; simpl in HWW; try discriminate; dparams; try (c_act i 2 0).
      apply (active_moves s o); auto using owner_active. intros _. eapply HK; eauto.
  - (* closed *)
    pose proof (g11 s I2 HWL) as HC.
    destruct (cli s i) eqn:Hpc; simpl in HWW; try discriminate; dparams; try (c_act i 2 0).
    exfalso. apply (l8 s I2 i); rewrite ?Hpc; auto.
Qed.

Lemma passive_moves : forall s i, inv1 s -> inv2 s -> quiet s -> tl s = None ->
  (cli s i = W2 \/ cli s i = W3) -> G s.
Proof.
  intros s i I1 I2 Q HTL H.
  assert (X : pend s <> None \/ merged s <> []).
  { destruct H as [H | H].
    - left. apply (l3a s I2 i) in H. congruence.
    - right. apply (l3b s I2 i) in H. intro E. rewrite E in H. destruct H. }
  destruct (l4 s I2 X) as [h [HW HM]].
  apply (active_moves s h); auto using mergephase_active, mergephase_not_idletr.
Qed.

Theorem progress_gen : forall s, inv1 s -> inv2 s -> strict_hyp s ->
  (exists i, cli s i <> Idle /\ (st = Strict -> cli s i <> IdleTr)) -> G s.
Proof.
  intros s I1 I2 HS [i [Hi Hi2]].
  destruct (to_quiet s I1 I2) as [X | Q]; [exact X|].
  destruct (tl s) as [h|] eqn:HTL.
  - assert (HC : cTl (cli s h) = true) by (destruct I1; auto).
    apply (active_moves s h); auto using cTl_active, cTl_not_idletr.
  - destruct (wwait_pc (cli s i)) eqn:HW; [eapply wwait_moves; eauto|].
    destruct (active_pc (cli s i)) eqn:HA; [apply (active_moves s i); auto|].
    destruct (cli s i) eqn:Hpc; simpl in HW, HA; try discriminate; try congruence.
    + eapply passive_moves; eauto.
    + eapply passive_moves; eauto.
Qed.

End Progress.

Definition G (s : state) : Prop :=
  exists a, is_arrival fixed s a = false /\ exists s', step fixed s a = Some s'.

Theorem progress : forall s, inv1 s -> inv2 s -> pending s -> G s.
Proof.
  intros s I1 I2 [i Hi].
  destruct (progress_gen Loose s I1 I2) as (a & NA & _ & ST).
  - intro; discriminate.
  - exists i. split; auto. intro; discriminate.
  - exists a. split; auto.
Qed.

(* the strict reading, for the closing phase *)
Theorem progress_strict : forall s, inv1 s -> inv2 s -> closeC s = true ->
  (forall i o, cli s i = CL4 -> trown s = Some o -> cli s o <> IdleTr) ->
  (exists i, cli s i <> Idle /\ cli s i <> IdleTr) ->
  exists a, is_arrival fixed s a = false /\ at_idletr s a = false /\ exists s', step fixed s a = Some s'.
Proof.
  intros s I1 I2 HC HK [i [H1 H2]].
  destruct (progress_gen Strict s I1 I2) as (a & NA & NI & ST).
  - intros _. split; auto.
  - exists i. split; auto.
  - exists a. repeat split; auto.
Qed.
