(* Conc/LocksInvBg.v — preservation of the protocol invariant inv2' (LocksDeadlock.v) by the steps of the
   background goroutines mCompaction, tCompaction and compactionError: one lemma per label (or per group of
   labels with the same effect on the shared state), assembled into inv2_step_m / inv2_step_t / inv2_step_ce.

   tCompaction's continuation points carry a parameter (tk); only some values occur (TP after a pause taken at
   T1/T2/TB1, TAx only from T3, TQ only from T1b/T2a): t_wf, a separate (trivial) invariant of all steps. *)
From GL Require Import Conc.Locks Conc.LocksProofs Conc.LocksDeadlock Conc.LocksInv.
From Coq Require Import Lia.

(* ------------------------------------------------------------------ well-formed continuation points *)

Definition t_wf (pc : tpc) : bool :=
  match pc with
  | TP KT0 | TP (KTB1 _) => true | TP _ => false
  | TAx KT4 => true | TAx _ => false
  | TQ KT2 | TQ KT4 => true | TQ _ => false
  | _ => true
  end.

Lemma tedges_wf : forall pc, t_wf pc = true -> forallb (fun e => t_wf (snd e)) (tedges pc) = true.
Proof. intro pc; destruct pc; dparams; simpl; intro; try discriminate; reflexivity. Qed.

Lemma deliver_same : forall b ok w s,
  wl (deliver b ok w s) = wl s /\ tl (deliver b ok w s) = tl s /\ closed (deliver b ok w s) = closed s /\
  closeC (deliver b ok w s) = closeC s /\ trown (deliver b ok w s) = trown s /\
  closetgt (deliver b ok w s) = closetgt s /\ locking (deliver b ok w s) = locking s /\
  ctk (deliver b ok w s) = ctk s /\ merged (deliver b ok w s) = merged s /\ pend (deliver b ok w s) = pend s /\
  mc (deliver b ok w s) = mc s /\ mx (deliver b ok w s) = mx s /\ tc (deliver b ok w s) = tc s /\
  tx (deliver b ok w s) = tx s /\ tq (deliver b ok w s) = tq s /\ ce (deliver b ok w s) = ce s.
Proof.
  intros b ok [i n] s. unfold deliver.
  destruct (is_trigw b (cli s i) && Nat.eqb (ctk s i) n); simpl; repeat split; reflexivity.
Qed.

Lemma deliver_tc : forall b ok w s, tc (deliver b ok w s) = tc s.
Proof. intros. apply (deliver_same b ok w s). Qed.

Lemma recv_pause_wf : forall t k, t_recv_pause t = Some k -> t_wf (TP k) = true.
Proof. intros t k0 H; destruct t; simpl in H; try discriminate; inversion H; reflexivity. Qed.
Lemma tcont_wf : forall k, t_wf (TP k) = true -> t_wf (tcont k) = true.
Proof. destruct k; simpl; intros; try discriminate; reflexivity. Qed.

Lemma lsem_twf : forall p l arg s s1, lsem fixed p l arg s = Some s1 -> t_wf (tc s) = true -> t_wf (tc s1) = true.
Proof.
  intros p l arg s s1 H W. destruct l; simpl in H; unfold guard in H;
    repeat match type of H with context[match ?x with _ => _ end] => destruct x eqn:? end;
    try discriminate; inversion H; subst; simpl; rewrite ?deliver_tc; auto.
  - eapply recv_pause_wf; eauto.
  - apply tcont_wf. congruence.
Qed.

Lemma twf_step : forall s a s', t_wf (tc s) = true -> step fixed s a = Some s' -> t_wf (tc s') = true.
Proof.
  intros s a s' W H. destruct a; simpl in H.
  - destruct (nth_error (cedges fixed (cli s i)) k) as [[l pc']|]; try discriminate.
    destruct (lsem fixed (PCli i) l arg s) eqn:E; try discriminate. inversion H; subst. simpl. eapply lsem_twf; eauto.
  - destruct (nth_error (medges (mc s)) k) as [[l pc']|]; try discriminate.
    destruct (lsem fixed PM l 0 s) eqn:E; try discriminate. inversion H; subst. simpl. eapply lsem_twf; eauto.
  - destruct (nth_error (tedges (tc s)) k) as [[l pc']|] eqn:N; try discriminate.
    destruct (lsem fixed PT l 0 s) eqn:E; try discriminate. inversion H; subst. simpl.
    exact (nth_forallb _ _ _ _ (tedges_wf _ W) N).
  - unfold step_ce, guard in H.
    repeat match type of H with context[match ?x with _ => _ end] => destruct x eqn:? end;
      try discriminate; inversion H; subst; simpl; auto.
Qed.

Theorem twf_reachable : forall s, reachable fixed s -> t_wf (tc s) = true.
Proof. induction 1; [reflexivity | eapply twf_step; eauto]. Qed.

(* ------------------------------------------------------------------ a step that moves no client *)

Lemma inv2_bg : forall s s',
  inv2' s ->
  cli s' = cli s -> mx s' = mx s -> ctk s' = ctk s -> tx s' = tx s -> tq s' = tq s -> pend s' = pend s ->
  merged s' = merged s -> closed s' = closed s -> closeC s' = closeC s -> wl s' = wl s -> tl s' = tl s ->
  trown s' = trown s -> closetgt s' = closetgt s -> locking s' = locking s ->
  (ce s' = E_done -> closeC s = true) -> (locking s = true -> ce s' = E_per) ->
  (m_exited (mc s') = true -> ce s' = E_per \/ closed s = true) ->
  (t_exited (tc s') = true -> ce s' = E_per \/ closed s = true) ->
  (is_TP (tc s') = true -> mpaused (mc s') = true \/ m_exited (mc s') = true) ->
  (mpaused (mc s') = true -> is_TP (tc s') = true \/ closeC s = true) ->
  ((mc s' = M0 \/ mc s' = MDone) -> mx s = None) ->
  (tx_none_pc (tc s') = true -> tx s = None) ->
  ((tc s' = T2 \/ tc s' = TDone) -> tq s = []) ->
  inv2' s'.
Proof.
  intros s s' [Gl L] E0 E1 E2 E3 E4 E5 E6 E7 E8 E9 E10 E11 E12 E13 H2 H3 H4 H5 H7a H7b H8 H9a H9b.
  split.
  - destruct Gl. constructor; rewrite ?E0, ?E1, ?E2, ?E3, ?E4, ?E5, ?E6, ?E7, ?E8, ?E9, ?E10, ?E11, ?E12, ?E13; auto.
  - intro j. rewrite E0. apply (loc_other s); auto.
Qed.

(* how compErrSetC changes the state of compactionError *)
Definition ce_step (c c' : epc) : Prop := c' = c \/ ((c = E_no \/ c = E_has) /\ c' <> E_done).

Lemma ce_after_step : forall e c c', ce_after e c = Some c' -> ce_step c c'.
Proof.
  intros e c c' H. right. destruct c; simpl in H; try discriminate; inversion H; split; auto; destruct e; discriminate.
Qed.
Lemma ce_step_done : forall c c', ce_step c c' -> c' = E_done -> c = E_done.
Proof. intros c c' [-> | [_ N]] H; auto; congruence. Qed.
Lemma ce_step_per : forall c c', ce_step c c' -> c = E_per -> c' = E_per.
Proof. intros c c' [-> | [[A | A] _]] H; auto; congruence. Qed.
Lemma ce_step_perc : forall c c' (X : Prop), ce_step c c' -> (c = E_per \/ X) -> (c' = E_per \/ X).
Proof. intros c c' X S [H | H]; auto. left. eapply ce_step_per; eauto. Qed.

(* the fields inv2' looks at, except mc, tc, ce *)
Definition same3 (s s1 : state) : Prop :=
  cli s1 = cli s /\ mx s1 = mx s /\ ctk s1 = ctk s /\ tx s1 = tx s /\ tq s1 = tq s /\ pend s1 = pend s /\
  merged s1 = merged s /\ closed s1 = closed s /\ closeC s1 = closeC s /\ wl s1 = wl s /\ tl s1 = tl s /\
  trown s1 = trown s /\ closetgt s1 = closetgt s /\ locking s1 = locking s.

(* a step of mCompaction that leaves tCompaction and all clients where they are *)
Lemma inv2_m : forall s s1 pc',
  inv2' s -> same3 s s1 -> tc s1 = tc s -> ce_step (ce s) (ce s1) ->
  (m_exited pc' = true -> m_exited (mc s) = true \/ ce s1 = E_per \/ closed s = true) ->
  (m_exited (mc s) = true -> m_exited pc' = true) ->
  (mpaused pc' = true -> mpaused (mc s) = true) ->
  (mpaused (mc s) = true -> mpaused pc' = true \/ m_exited pc' = true) ->
  ((pc' = M0 \/ pc' = MDone) -> mx s = None) ->
  inv2' (set_mc s1 pc').
Proof.
  intros s s1 pc' I (E0 & E1 & E2 & E3 & E4 & E5 & E6 & E7 & E8 & E9 & E10 & E11 & E12 & E13) ET CS X1 X2 P1 P2 M0D.
  pose proof I as [Gl _].
  apply (inv2_bg s); simpl; auto.
  - intro D. apply (gg2 s Gl). eapply ce_step_done; eauto.
  - intro K. eapply ce_step_per; eauto. apply (gg3 s Gl K).
  - intro X. destruct (X1 X) as [Y | [Y | Y]]; auto. eapply ce_step_perc; eauto. apply (gg4 s Gl Y).
  - rewrite ET. intro X. eapply ce_step_perc; eauto. apply (gg5 s Gl X).
  - rewrite ET. intro X. destruct (gg7a s Gl X) as [Y | Y]; auto.
  - rewrite ET. intro X. apply (gg7b s Gl). auto.
  - rewrite ET. apply (gg9a s Gl).
  - rewrite ET. apply (gg9b s Gl).
Qed.

(* a step of tCompaction that leaves mCompaction, its own command and queue, and all clients as they are *)
Lemma inv2_t : forall s s1 pc',
  inv2' s -> same3 s s1 -> mc s1 = mc s -> ce_step (ce s) (ce s1) ->
  (t_exited pc' = true -> t_exited (tc s) = true \/ ce s1 = E_per \/ closed s = true) ->
  (is_TP pc' = true -> is_TP (tc s) = true) ->
  (is_TP (tc s) = true -> is_TP pc' = true \/ closeC s = true) ->
  (tx_none_pc pc' = true -> tx s = None) ->
  ((pc' = T2 \/ pc' = TDone) -> tq s = []) ->
  inv2' (set_tc s1 pc').
Proof.
  intros s s1 pc' I (E0 & E1 & E2 & E3 & E4 & E5 & E6 & E7 & E8 & E9 & E10 & E11 & E12 & E13) EM CS X1 P1 P2 N1 N2.
  pose proof I as [Gl _].
  apply (inv2_bg s); simpl; auto.
  - intro D. apply (gg2 s Gl). eapply ce_step_done; eauto.
  - intro K. eapply ce_step_per; eauto. apply (gg3 s Gl K).
  - rewrite EM. intro X. eapply ce_step_perc; eauto. apply (gg4 s Gl X).
  - intro X. destruct (X1 X) as [Y | [Y | Y]]; auto. eapply ce_step_perc; eauto. apply (gg5 s Gl Y).
  - rewrite EM. intro X. apply (gg7a s Gl). auto.
  - rewrite EM. intro X. destruct (gg7b s Gl X) as [Y | Y]; auto.
  - rewrite EM. apply (gg8 s Gl).
Qed.

(* ------------------------------------------------------------------ delivery of an acknowledgement *)

(* the waiter moves from the second select of compTriggerWait to the continuation of its call site *)
Definition ack_ok (pc : cpc) (ok : bool) : bool :=
  let pc' := after_ack ok pc in
  negb (is_trigw_any pc') && negb (is_W23 pc') && negb (is_WMs pc') && negb (closer_phase pc') &&
  negb (closer_phase pc) && negb (closer_has pc) && negb (is_W23 pc) && negb (in_close_ctx pc) && negb (in_close_ctx pc') &&
  implb (cTl pc') (cTl pc) && implb (tropen_pc pc') (tropen_pc pc) && implb (owner_ok pc) (owner_ok pc') &&
  implb (ot_phase pc') (ot_phase pc) && implb (mergephase pc) (mergephase pc').
Lemma ack_typed : forall pc ok, is_trigw_any pc = true -> ack_ok pc ok = true.
Proof. intros pc ok; destruct pc; intro; try discriminate; dparams; reflexivity. Qed.

Lemma is_trigw_any_of : forall b pc, is_trigw b pc = true -> is_trigw_any pc = true.
Proof. intros b pc; destruct pc; simpl; intro; try discriminate; reflexivity. Qed.
Lemma is_trigw_any_false : forall b pc, is_trigw_any pc = false -> is_trigw b pc = false.
Proof. intros b pc H; destruct (is_trigw b pc) eqn:E; auto. apply is_trigw_any_of in E. congruence. Qed.

Lemma inv2_passive_ack : forall s i ok, inv2' s -> is_trigw_any (cli s i) = true ->
  inv2' (set_pc s i (after_ack ok (cli s i))).
Proof.
  intros s i ok I T. pose proof (ack_typed _ ok T) as A. unfold ack_ok in A. cbv zeta in A. bsplit.
  repeat match goal with H : negb _ = true |- _ => apply negb_true_iff in H end.
  apply inv2_pure; auto; try (intro X; congruence); try tyf.
  - intro X. pose proof (closer_after_phase _ X). congruence.
  - intro X. pose proof (closer_early_phase _ X). congruence.
Qed.

Lemma inv2_deliver : forall b ok w s, inv2' s -> inv2' (deliver b ok w s).
Proof.
  intros b ok [i n] s I. unfold deliver.
  destruct (is_trigw b (cli s i) && Nat.eqb (ctk s i) n) eqn:E; auto.
  apply andb_prop in E. destruct E as [E _]. apply inv2_passive_ack; auto. eapply is_trigw_any_of; eauto.
Qed.

(* after the delivery the addressee does not wait for this acknowledgement any more *)
Lemma deliver_gone : forall b ok i n s,
  is_trigw b (cli (deliver b ok (i, n) s) i) = false \/ ctk (deliver b ok (i, n) s) i <> n.
Proof.
  intros b ok i n s. unfold deliver.
  destruct (is_trigw b (cli s i) && Nat.eqb (ctk s i) n) eqn:E.
  - left. simpl. rewrite upd_same. apply andb_prop in E. destruct E as [E _].
    apply is_trigw_any_false. pose proof (ack_typed _ ok (is_trigw_any_of _ _ E)) as A.
    unfold ack_ok in A. cbv zeta in A. bsplit.
    match goal with H : negb (is_trigw_any _) = true |- _ => apply negb_true_iff in H; exact H end.
  - apply andb_false_iff in E. destruct E as [E | E]; auto. right. apply Nat.eqb_neq; auto.
Qed.

(* mCompaction changes its current command (all clients stay where they are) *)
Lemma inv2_m_x : forall s mx' pc',
  inv2' s ->
  (forall j, is_trigw BM (cli s j) = true -> mx' = mx s) ->
  (m_exited pc' = true -> m_exited (mc s) = true \/ ce s = E_per \/ closed s = true) ->
  (m_exited (mc s) = true -> m_exited pc' = true) ->
  (mpaused pc' = true -> mpaused (mc s) = true) ->
  (mpaused (mc s) = true -> mpaused pc' = true \/ m_exited pc' = true) ->
  ((pc' = M0 \/ pc' = MDone) -> mx' = None) ->
  inv2' (set_mc (set_mx s mx') pc').
Proof.
  intros s mx' pc' [Gl L] KX X1 X2 P1 P2 M0D. split.
  - destruct Gl. constructor; simpl; auto.
    + intro X. destruct (X1 X) as [Y | [Y | Y]]; auto.
    + intro X. destruct (gg7a X) as [Y | Y]; auto.
  - intro j. simpl. apply (loc_chg s _ j _ (L j)); simpl; auto; try tauto; try (intros; split; auto).
    eapply KX; eauto.
Qed.

(* tCompaction changes its current command / its queue (all clients stay where they are) *)
Lemma inv2_t_q : forall s tx' tq' pc',
  inv2' s ->
  (forall j, is_trigw BT (cli s j) = true -> (tx s = Some (j, ctk s j) \/ In (j, ctk s j) (tq s)) ->
             tx' = Some (j, ctk s j) \/ In (j, ctk s j) tq') ->
  (t_exited pc' = true -> t_exited (tc s) = true \/ ce s = E_per \/ closed s = true) ->
  (is_TP pc' = true -> is_TP (tc s) = true) ->
  (is_TP (tc s) = true -> is_TP pc' = true \/ closeC s = true) ->
  (tx_none_pc pc' = true -> tx' = None) ->
  ((pc' = T2 \/ pc' = TDone) -> tq' = []) ->
  inv2' (set_tc (set_tx (set_tq s tq') tx') pc').
Proof.
  intros s tx' tq' pc' [Gl L] KX X1 P1 P2 N1 N2. split.
  - destruct Gl. constructor; simpl; auto.
    + intro X. destruct (X1 X) as [Y | [Y | Y]]; auto.
    + intro X. destruct (gg7b X) as [Y | Y]; auto.
  - intro j. simpl. apply (loc_chg s _ j _ (L j)); simpl; auto; try tauto; try (intros; split; auto).
Qed.

(* ------------------------------------------------------------------ typing of the edges of the two loops *)

(* labels on which a loop leaves: closeC, db.closed, a persistent error *)
Definition exit_lbl (l : lbl) : bool :=
  match l with LSeeClosed | LIfClosed true | LRecvPerr | LSendErrSet ECorr | LSendErrSet ERO => true | _ => false end.
Definition m_lbl (l : lbl) : bool :=
  match l with
  | LTau | LIfClosed _ | LSeeClosed | LRecvPerr | LSendErrSet _ | LLockC | LUnlockC | LCommitOk | LCommitFailW
  | LSendPause | LRecvResume | LTrySendCmd BT | LAck _ => true
  | _ => false
  end.
Definition is_M0D (pc : mpc) : bool := match pc with M0 | MDone => true | _ => false end.
Definition is_pause (l : lbl) : bool := match l with LSendPause => true | _ => false end.
Definition is_resume (l : lbl) : bool := match l with LRecvResume => true | _ => false end.
Definition is_ack (l : lbl) : bool := match l with LAck _ => true | _ => false end.

Definition medge2_ok (pc : mpc) (e : lbl * mpc) : bool :=
  let (l, pc') := e in
  m_lbl l &&
  implb (m_exited pc') (m_exited pc || exit_lbl l) &&
  implb (m_exited pc) (m_exited pc') &&
  implb (mpaused pc') (mpaused pc || is_pause l) &&
  implb (mpaused pc) (mpaused pc' || m_exited pc' || is_resume l) &&
  implb (is_pause l) (mpaused pc' && negb (m_exited pc') && negb (is_M0D pc')) &&
  implb (is_resume l) (negb (mpaused pc') && negb (m_exited pc') && negb (is_M0D pc')) &&
  implb (is_M0D pc') (is_ack l) &&
  match l with LTrySendCmd _ => negb (mpaused pc') && negb (m_exited pc') | _ => true end.

Lemma medges2_ok : forall pc, forallb (medge2_ok pc) (medges pc) = true.
Proof. intro pc; destruct pc; dparams; reflexivity. Qed.

Definition t_lbl (l : lbl) : bool :=
  match l with
  | LTau | LIfClosed _ | LSeeClosed | LRecvPerr | LSendErrSet _ | LLockC | LUnlockC | LCommitOk | LCommitFailW
  | LAck _ | LEnqueue | LAckQ _ | LQEmpty => true
  | _ => false
  end.
Definition is_T2D (pc : tpc) : bool := match pc with T2 | TDone => true | _ => false end.
Definition is_seeclosed (l : lbl) : bool := match l with LSeeClosed => true | _ => false end.

Definition tedge2_ok (pc : tpc) (e : lbl * tpc) : bool :=
  let (l, pc') := e in
  t_lbl l &&
  implb (t_exited pc') (t_exited pc || exit_lbl l) &&
  implb (is_TP pc') (is_TP pc) &&
  implb (is_TP pc) (is_TP pc' || is_seeclosed l) &&
  implb (tx_none_pc pc') (tx_none_pc pc || match l with LAck _ | LEnqueue => true | _ => false end) &&
  implb (is_T2D pc' && t_wf pc) (match l with LQEmpty | LAck false => true | _ => false end).

Lemma tedges2_ok : forall pc, forallb (tedge2_ok pc) (tedges pc) = true.
Proof. intro pc; destruct pc; dparams; reflexivity. Qed.

Lemma is_M0D_true : forall pc, pc = M0 \/ pc = MDone -> is_M0D pc = true.
Proof. intros pc [-> | ->]; reflexivity. Qed.
Lemma is_T2D_true : forall pc, pc = T2 \/ pc = TDone -> is_T2D pc = true.
Proof. intros pc [-> | ->]; reflexivity. Qed.

Lemma same3_refl : forall s, same3 s s.
Proof. intro s; repeat split; reflexivity. Qed.

(* ------------------------------------------------------------------ mCompaction *)

(* the labels that change nothing but (possibly) compactionError's state, compCommitLk, the manifest flag *)
Lemma m_frame_case : forall s s1 l pc',
  inv2' s -> same3 s s1 -> tc s1 = tc s -> ce_step (ce s) (ce s1) ->
  medge2_ok (mc s) (l, pc') = true -> is_pause l = false -> is_resume l = false -> is_ack l = false ->
  (exit_lbl l = true -> ce s1 = E_per \/ closed s = true) ->
  inv2' (set_mc s1 pc').
Proof.
  intros s s1 l pc' I S3 ET CS EK NP NR NA EX.
  unfold medge2_ok in EK. rewrite NP, NR, NA in EK. bsplit.
  apply (inv2_m s); auto.
  - intro X. match goal with H : implb (m_exited pc') _ = true |- _ => pose proof (implb_elim2 _ _ H X) as Y end.
    apply orb_prop in Y. destruct Y as [Y | Y]; auto.
  - tyf.
  - tyf.
  - intro X. match goal with H : implb (mpaused (mc s)) _ = true |- _ => pose proof (implb_elim2 _ _ H X) as Y end.
    rewrite orb_false_r in Y. apply orb_prop in Y. tauto.
  - intro X. apply is_M0D_true in X.
    match goal with H : implb (is_M0D pc') false = true |- _ => rewrite X in H; discriminate end.
Qed.

Lemma recv_pause_cases : forall t k0, t_recv_pause t = Some k0 ->
  t_exited t = false /\ is_TP t = false /\ (tx_none_pc (TP k0) = true -> tx_none_pc t = true).
Proof. intros t k0 H; destruct t; simpl in H; try discriminate; inversion H; subst; repeat split; auto. Qed.

(* mCompaction hands its resume channel to tCompaction *)
Lemma m_pause_case : forall s k0 pc',
  inv2' s -> t_recv_pause (tc s) = Some k0 ->
  medge2_ok (mc s) (LSendPause, pc') = true ->
  inv2' (set_mc (set_tc s (TP k0)) pc').
Proof.
  intros s k0 pc' I RP EK. pose proof I as [Gl _].
  destruct (recv_pause_cases _ _ RP) as (TE & TP0 & TN).
  unfold medge2_ok in EK. cbn [is_pause is_resume is_ack m_lbl exit_lbl implb] in EK. bsplit.
  repeat match goal with H : negb _ = true |- _ => apply negb_true_iff in H end.
  apply (inv2_bg s); simpl; auto.
  - apply (gg2 s Gl).
  - apply (gg3 s Gl).
  - intro X. congruence.
  - intro X. discriminate.
  - intro X. apply is_M0D_true in X. congruence.
  - intro X. apply (gg9a s Gl). auto.
  - intros [X | X]; discriminate.
Qed.

Lemma tcont_cases : forall k0, t_wf (TP k0) = true ->
  t_exited (tcont k0) = false /\ is_TP (tcont k0) = false /\ is_T2D (tcont k0) = false /\
  (tx_none_pc (tcont k0) = true -> tx_none_pc (TP k0) = true).
Proof. intros k0 H; destruct k0; simpl in H; try discriminate; dparams; repeat split; auto. Qed.

(* mCompaction is resumed by tCompaction *)
Lemma m_resume_case : forall s k0 pc',
  inv2' s -> tc s = TP k0 -> t_wf (tc s) = true ->
  medge2_ok (mc s) (LRecvResume, pc') = true ->
  inv2' (set_mc (set_tc s (tcont k0)) pc').
Proof.
  intros s k0 pc' I HT W EK. pose proof I as [Gl _]. rewrite HT in W.
  destruct (tcont_cases _ W) as (TE & TP0 & T2D & TN).
  unfold medge2_ok in EK. cbn [is_pause is_resume is_ack m_lbl exit_lbl implb] in EK. bsplit.
  repeat match goal with H : negb _ = true |- _ => apply negb_true_iff in H end.
  apply (inv2_bg s); simpl; auto.
  - apply (gg2 s Gl).
  - apply (gg3 s Gl).
  - intro X. congruence.
  - intro X. congruence.
  - intro X. congruence.
  - intro X. congruence.
  - intro X. apply is_M0D_true in X. congruence.
  - intro X. apply (gg9a s Gl). rewrite HT. auto.
  - intro X. apply is_T2D_true in X. congruence.
Qed.

(* mCompaction's non-blocking trigger of a table compaction, taken by tCompaction *)
Lemma m_trysend_case : forall s pc',
  inv2' s -> t_recv_cmd (tc s) = true ->
  medge2_ok (mc s) (LTrySendCmd BT, pc') = true ->
  inv2' (set_mc (set_tx (set_tc s (T3 XNo)) None) pc').
Proof.
  intros s pc' I HR EK. pose proof I as [Gl _].
  assert (TXN : tx s = None).
  { apply (gg9a s Gl). destruct (recv_cmd_pcs _ HR) as [E | E]; rewrite E; reflexivity. }
  unfold medge2_ok in EK. cbn [is_pause is_resume is_ack m_lbl exit_lbl implb] in EK. bsplit.
  repeat match goal with H : negb _ = true |- _ => apply negb_true_iff in H end.
  apply (inv2_bg s); simpl; auto.
  - apply (gg2 s Gl).
  - apply (gg3 s Gl).
  - intro X. congruence.
  - intro X. discriminate.
  - intro X. discriminate.
  - intro X. congruence.
  - intro X. apply is_M0D_true in X.
    match goal with H : implb (is_M0D pc') false = true |- _ => rewrite X in H; discriminate end.
  - intros [X | X]; discriminate.
Qed.

(* mCompaction acknowledges its current command *)
Lemma m_ack_case : forall s ok pc',
  inv2' s ->
  medge2_ok (mc s) (LAck ok, pc') = true ->
  inv2' (set_mc (match mx s with Some w => set_mx (deliver BM ok w s) None | None => s end) pc').
Proof.
  intros s ok pc' I EK.
  unfold medge2_ok in EK. cbn [is_pause is_resume is_ack m_lbl exit_lbl implb] in EK. bsplit.
  assert (TY : forall sA, mc sA = mc s -> ce sA = ce s -> closed sA = closed s ->
    (m_exited pc' = true -> m_exited (mc sA) = true \/ ce sA = E_per \/ closed sA = true) /\
    (m_exited (mc sA) = true -> m_exited pc' = true) /\
    (mpaused pc' = true -> mpaused (mc sA) = true) /\
    (mpaused (mc sA) = true -> mpaused pc' = true \/ m_exited pc' = true)).
  { intros sA E1 E2 E3. rewrite E1. repeat split; try tyf.
    intro X. match goal with H : implb (mpaused (mc s)) _ = true |- _ => pose proof (implb_elim2 _ _ H X) as Y end.
    rewrite orb_false_r in Y. apply orb_prop in Y. tauto. }
  destruct (mx s) as [[i n]|] eqn:HX.
  - pose proof (deliver_gone BM ok i n s) as DG.
    pose proof (inv2_deliver BM ok (i, n) s I) as IA.
    destruct (deliver_same BM ok (i, n) s) as (_ & _ & D3 & _ & _ & _ & _ & D8 & _ & _ & D11 & D12 & _ & _ & _ & D16).
    revert DG IA D3 D8 D11 D12 D16. generalize (deliver BM ok (i, n) s). intros sA DG IA D3 D8 D11 D12 D16.
    destruct (TY sA D11 D16 D3) as (T1 & T2 & T3 & T4).
    apply inv2_m_x; auto.
    intros j TJ. exfalso. destruct IA as [_ LA].
    pose proof (lc1 _ _ _ (LA j) TJ) as X. rewrite D12, HX in X. inversion X; subst.
    destruct DG as [Y | Y]; congruence.
  - destruct (TY s eq_refl eq_refl eq_refl) as (T1 & T2 & T3 & T4).
    apply (inv2_m s); auto using same3_refl.
    left; reflexivity.
Qed.

Lemma guard_some : forall b s s1, guard b s = Some s1 -> b = true /\ s1 = s.
Proof. intros b s s1 H; destruct b; simpl in H; [inversion H; auto | discriminate]. Qed.
Ltac inv_some L := inversion L; subst; clear L.
Tactic Notation "inv_guard" hyp(L) ident(G) := apply guard_some in L; destruct L as [G ?]; subst.

Lemma inv2_step_m : forall s k s', inv2' s -> t_wf (tc s) = true -> step fixed s (AM k) = Some s' -> inv2' s'.
Proof.
  intros s k s' I W H. simpl in H.
  destruct (nth_error (medges (mc s)) k) as [[l pc']|] eqn:N; [|discriminate].
  pose proof (nth_forallb _ _ _ _ (medges2_ok (mc s)) N) as EK.
  destruct (lsem fixed PM l 0 s) as [s1|] eqn:L; [|discriminate]. inversion H; subst s'; clear H N.
  pose proof I as [Gl _].
  assert (ML : m_lbl l = true) by (unfold medge2_ok in EK; bsplit; assumption).
  destruct l; try discriminate ML; simpl in L.
  - (* LTau *) inv_some L.
    eapply m_frame_case; eauto using same3_refl; try reflexivity; [left; reflexivity | intro; discriminate].
  - (* LIfClosed *) inv_guard L G. apply Bool.eqb_prop in G.
    eapply m_frame_case; eauto using same3_refl; try reflexivity; [left; reflexivity |].
    destruct b; simpl; intro X; [right; congruence | discriminate].
  - (* LSendErrSet *)
    destruct (ce_after e (ce s)) as [c|] eqn:CA; [|discriminate]. inv_some L.
    eapply (m_frame_case s (set_ce s c)); eauto; try reflexivity.
    + repeat split; reflexivity.
    + simpl. eapply ce_after_step; eauto.
    + simpl. intro X. left. destruct (ce s); simpl in CA; try discriminate; destruct e; try discriminate;
        inversion CA; reflexivity.
  - (* LRecvPerr *) inv_guard L G.
    eapply m_frame_case; eauto using same3_refl; try reflexivity; [left; reflexivity |].
    intros _. left. destruct (ce s); try discriminate; reflexivity.
  - (* LSeeClosed *) inv_guard L G.
    eapply m_frame_case; eauto using same3_refl; try reflexivity; [left; reflexivity |].
    intros _. right. apply (gg1 s Gl). assumption.
  - (* LLockC *) inv_guard L G.
    eapply (m_frame_case s (set_cl s (Some PM))); eauto; try reflexivity;
      [repeat split; reflexivity | left; reflexivity | intro; discriminate].
  - (* LUnlockC *) inv_guard L G.
    eapply (m_frame_case s (set_cl s None)); eauto; try reflexivity;
      [repeat split; reflexivity | left; reflexivity | intro; discriminate].
  - (* LTrySendCmd *)
    destruct b; [discriminate ML|]. inv_some L.
    destruct (t_recv_cmd (tc s)) eqn:HR.
    + apply m_trysend_case; auto.
    + eapply m_frame_case; eauto using same3_refl; try reflexivity; [left; reflexivity | intro; discriminate].
  - (* LCommitOk *) inv_some L.
    eapply (m_frame_case s (set_poisoned s false)); eauto; try reflexivity;
      [repeat split; reflexivity | left; reflexivity | intro; discriminate].
  - (* LCommitFailW *) inv_some L.
    eapply (m_frame_case s (set_poisoned s true)); eauto; try reflexivity;
      [repeat split; reflexivity | left; reflexivity | intro; discriminate].
  - (* LSendPause *)
    destruct (t_recv_pause (tc s)) as [k0|] eqn:RP; [|discriminate]. inv_some L. eapply m_pause_case; eauto.
  - (* LRecvResume *)
    destruct (tc s) eqn:HT; try discriminate. inv_some L. rewrite <- HT in W. eapply m_resume_case; eauto.
  - (* LAck *) inv_some L. apply m_ack_case; auto.
Qed.

(* ------------------------------------------------------------------ tCompaction *)

Definition is_ackenq (l : lbl) : bool := match l with LAck _ | LEnqueue => true | _ => false end.
Definition is_emptying (l : lbl) : bool := match l with LQEmpty | LAck false => true | _ => false end.

Lemma t_typing : forall pc l pc', tedge2_ok pc (l, pc') = true ->
  (t_exited pc' = true -> t_exited pc = true \/ exit_lbl l = true) /\
  (is_TP pc' = true -> is_TP pc = true) /\
  (is_TP pc = true -> is_TP pc' = true \/ is_seeclosed l = true) /\
  (tx_none_pc pc' = true -> tx_none_pc pc = true \/ is_ackenq l = true) /\
  (is_T2D pc' = true -> t_wf pc = true -> is_emptying l = true).
Proof.
  intros pc l pc' EK. unfold tedge2_ok in EK. bsplit. repeat split.
  - intro X. match goal with H : implb (t_exited pc') _ = true |- _ => pose proof (implb_elim2 _ _ H X) as Y end.
    apply orb_prop in Y. exact Y.
  - tyf.
  - intro X. match goal with H : implb (is_TP pc) _ = true |- _ => pose proof (implb_elim2 _ _ H X) as Y end.
    apply orb_prop in Y. exact Y.
  - intro X. match goal with H : implb (tx_none_pc pc') _ = true |- _ => pose proof (implb_elim2 _ _ H X) as Y end.
    apply orb_prop in Y. exact Y.
  - intros X Y. match goal with H : implb (is_T2D pc' && t_wf pc) _ = true |- _ =>
      rewrite X, Y in H; exact H end.
Qed.

(* the facts tCompaction's own program counter contributes, from the typing of the edge *)
Lemma t_facts : forall s l pc' (c1 : epc),
  glob s -> tedge2_ok (tc s) (l, pc') = true -> t_wf (tc s) = true ->
  (exit_lbl l = true -> c1 = E_per \/ closed s = true) ->
  (c1 = ce s \/ ce s <> E_per) ->
  (is_seeclosed l = true -> closeC s = true) ->
  (t_exited pc' = true -> t_exited (tc s) = true \/ c1 = E_per \/ closed s = true) /\
  (is_TP pc' = true -> is_TP (tc s) = true) /\
  (is_TP (tc s) = true -> is_TP pc' = true \/ closeC s = true).
Proof.
  intros s l pc' c1 Gl EK W EX CE SC. destruct (t_typing _ _ _ EK) as (A & B & C & _ & _).
  repeat split; auto.
  - intro X. destruct (A X) as [Y | Y]; auto.
  - intro X. destruct (C X) as [Y | Y]; auto.
Qed.

Lemma t_frame_case : forall s s1 l pc',
  inv2' s -> same3 s s1 -> mc s1 = mc s -> ce_step (ce s) (ce s1) -> t_wf (tc s) = true ->
  tedge2_ok (tc s) (l, pc') = true -> is_ackenq l = false -> is_emptying l = false ->
  (exit_lbl l = true -> ce s1 = E_per \/ closed s = true) ->
  (is_seeclosed l = true -> closeC s = true) ->
  inv2' (set_tc s1 pc').
Proof.
  intros s s1 l pc' I S3 EM CS W EK NA NE EX SC. pose proof I as [Gl _].
  destruct (t_typing _ _ _ EK) as (A & B & C & D & E).
  apply (inv2_t s); auto.
  - intro X. destruct (A X) as [Y | Y]; auto.
  - intro X. destruct (C X) as [Y | Y]; auto.
  - intro X. destruct (D X) as [Y | Y]; [apply (gg9a s Gl Y) | congruence].
  - intro X. apply is_T2D_true in X. specialize (E X W). congruence.
Qed.

(* the queue has been emptied *)
Lemma t_qempty_case : forall s pc',
  inv2' s -> tq s = [] -> t_wf (tc s) = true -> tedge2_ok (tc s) (LQEmpty, pc') = true ->
  inv2' (set_tc s pc').
Proof.
  intros s pc' I HQ W EK. pose proof I as [Gl _].
  destruct (t_typing _ _ _ EK) as (A & B & C & D & E). simpl in A, C, D.
  apply (inv2_t s); auto using same3_refl.
  - left; reflexivity.
  - intro X. destruct (A X) as [Y | Y]; [auto | discriminate].
  - intro X. destruct (C X) as [Y | Y]; [auto | discriminate].
  - intro X. destruct (D X) as [Y | Y]; [apply (gg9a s Gl Y) | discriminate].
Qed.

(* the current command joins the wait queue *)
Lemma t_enqueue_case : forall s w pc',
  inv2' s -> tx s = Some w -> t_wf (tc s) = true -> tedge2_ok (tc s) (LEnqueue, pc') = true ->
  inv2' (set_tc (set_tx (set_tq s (tq s ++ [w])) None) pc').
Proof.
  intros s w pc' I HX W EK. pose proof I as [Gl _].
  destruct (t_typing _ _ _ EK) as (A & B & C & D & E). simpl in A, C, D, E.
  apply inv2_t_q; auto.
  - intros j TJ [X | X]; right; apply in_or_app; [right | left; auto].
    rewrite HX in X. inversion X. left; reflexivity.
  - intro X. destruct (A X) as [Y | Y]; [auto | discriminate].
  - intro X. destruct (C X) as [Y | Y]; [auto | discriminate].
  - intro X. apply is_T2D_true in X. specialize (E X W). discriminate.
Qed.

(* an acknowledgement to the first entry of the wait queue *)
Lemma t_ackq_case : forall s ok w rest pc',
  inv2' s -> tq s = w :: rest -> t_wf (tc s) = true -> tedge2_ok (tc s) (LAckQ ok, pc') = true ->
  inv2' (set_tc (set_tq (deliver BT ok w s) rest) pc').
Proof.
  intros s ok [i n] rest pc' I HQ W EK. pose proof I as [Gl _].
  destruct (t_typing _ _ _ EK) as (A & B & C & D & E). simpl in A, C, D, E.
  pose proof (deliver_gone BT ok i n s) as DG.
  pose proof (inv2_deliver BT ok (i, n) s I) as IA.
  destruct (deliver_same BT ok (i, n) s) as (_ & _ & D3 & D4 & _ & _ & _ & D8 & _ & _ & D11 & D12 & D13 & D14 & D15 & D16).
  revert DG IA D3 D4 D8 D11 D12 D13 D14 D15 D16. generalize (deliver BT ok (i, n) s).
  intros sA DG IA D3 D4 D8 D11 D12 D13 D14 D15 D16.
  apply (inv2'_frame (set_tc (set_tx (set_tq sA rest) (tx sA)) pc')); [repeat split; reflexivity |].
  pose proof IA as [GA _]. rewrite <- D13 in A, B, C, D, E, W.
  apply inv2_t_q; auto.
  - intros j TJ [X | X]; auto. rewrite D15, HQ in X. destruct X as [X | X]; auto.
    exfalso. inversion X; subst. destruct DG as [Y | Y]; congruence.
  - intro X. destruct (A X) as [Y | Y]; [auto | discriminate].
  - intro X. destruct (C X) as [Y | Y]; [auto | discriminate].
  - intro X. destruct (D X) as [Y | Y]; [| discriminate]. apply (gg9a sA GA Y).
  - intro X. apply is_T2D_true in X. specialize (E X W). discriminate.
Qed.

(* an acknowledgement for the current command *)
Lemma t_ack_case : forall s ok pc',
  inv2' s -> ok || is_nil (tq s) = true -> t_wf (tc s) = true -> tedge2_ok (tc s) (LAck ok, pc') = true ->
  inv2' (set_tc (match tx s with Some w => set_tx (deliver BT ok w s) None | None => s end) pc').
Proof.
  intros s ok pc' I G W EK. pose proof I as [Gl _].
  destruct (t_typing _ _ _ EK) as (A & B & C & D & E). simpl in A, C, D.
  assert (EQ : is_T2D pc' = true -> tq s = []).
  { intro X. specialize (E X W). destruct ok; simpl in E; [discriminate|]. simpl in G.
    destruct (tq s); [reflexivity | discriminate]. }
  destruct (tx s) as [[i n]|] eqn:HX.
  - pose proof (deliver_gone BT ok i n s) as DG.
    pose proof (inv2_deliver BT ok (i, n) s I) as IA.
    destruct (deliver_same BT ok (i, n) s) as (_ & _ & D3 & D4 & _ & _ & _ & D8 & _ & _ & D11 & D12 & D13 & D14 & D15 & D16).
    revert DG IA D3 D4 D8 D11 D12 D13 D14 D15 D16. generalize (deliver BT ok (i, n) s).
    intros sA DG IA D3 D4 D8 D11 D12 D13 D14 D15 D16.
    apply (inv2'_frame (set_tc (set_tx (set_tq sA (tq sA)) None) pc')); [repeat split; reflexivity |].
    rewrite <- D13 in A, B, C, D, E, W. rewrite <- D15 in EQ.
    apply inv2_t_q; auto.
    + intros j TJ [X | X]; auto. exfalso. rewrite D14, HX in X. inversion X; subst.
      destruct DG as [Y | Y]; congruence.
    + intro X. destruct (A X) as [Y | Y]; [auto | discriminate].
    + intro X. destruct (C X) as [Y | Y]; [auto | discriminate].
    + intro X. apply is_T2D_true in X. auto.
  - apply (inv2_t s); auto using same3_refl.
    + left; reflexivity.
    + intro X. destruct (A X) as [Y | Y]; [auto | discriminate].
    + intro X. destruct (C X) as [Y | Y]; [auto | discriminate].
    + intro X. apply is_T2D_true in X. auto.
Qed.

Lemma inv2_step_t : forall s k s', inv2' s -> t_wf (tc s) = true -> step fixed s (AT k) = Some s' -> inv2' s'.
Proof.
  intros s k s' I W H. simpl in H.
  destruct (nth_error (tedges (tc s)) k) as [[l pc']|] eqn:N; [|discriminate].
  pose proof (nth_forallb _ _ _ _ (tedges2_ok (tc s)) N) as EK.
  destruct (lsem fixed PT l 0 s) as [s1|] eqn:L; [|discriminate]. inversion H; subst s'; clear H N.
  pose proof I as [Gl _].
  assert (TL : t_lbl l = true) by (unfold tedge2_ok in EK; bsplit; assumption).
  destruct l; try discriminate TL; simpl in L.
  - (* LTau *) inv_some L.
    eapply t_frame_case; eauto using same3_refl; try reflexivity; [left; reflexivity | intro; discriminate | intro; discriminate].
  - (* LIfClosed *) inv_guard L G. apply Bool.eqb_prop in G.
    eapply t_frame_case; eauto using same3_refl; try reflexivity; [left; reflexivity | | intro; discriminate].
    destruct b; simpl; intro X; [right; congruence | discriminate].
  - (* LSendErrSet *)
    destruct (ce_after e (ce s)) as [c|] eqn:CA; [|discriminate]. inv_some L.
    eapply (t_frame_case s (set_ce s c)); eauto; try reflexivity.
    + repeat split; reflexivity.
    + simpl. eapply ce_after_step; eauto.
    + simpl. intro X. left. destruct (ce s); simpl in CA; try discriminate; destruct e; try discriminate;
        inversion CA; reflexivity.
    + intro; discriminate.
  - (* LRecvPerr *) inv_guard L G.
    eapply t_frame_case; eauto using same3_refl; try reflexivity; [left; reflexivity | | intro; discriminate].
    intros _. left. destruct (ce s); try discriminate; reflexivity.
  - (* LSeeClosed *) inv_guard L G.
    eapply t_frame_case; eauto using same3_refl; try reflexivity; [left; reflexivity | ].
    intros _. right. apply (gg1 s Gl). assumption.
  - (* LLockC *) inv_guard L G.
    eapply (t_frame_case s (set_cl s (Some PT))); eauto; try reflexivity;
      [repeat split; reflexivity | left; reflexivity | intro; discriminate | intro; discriminate].
  - (* LUnlockC *) inv_guard L G.
    eapply (t_frame_case s (set_cl s None)); eauto; try reflexivity;
      [repeat split; reflexivity | left; reflexivity | intro; discriminate | intro; discriminate].
  - (* LCommitOk *) inv_some L.
    eapply (t_frame_case s (set_poisoned s false)); eauto; try reflexivity;
      [repeat split; reflexivity | left; reflexivity | intro; discriminate | intro; discriminate].
  - (* LCommitFailW *) inv_some L.
    eapply (t_frame_case s (set_poisoned s true)); eauto; try reflexivity;
      [repeat split; reflexivity | left; reflexivity | intro; discriminate | intro; discriminate].
  - (* LAck *) inv_guard L G. apply t_ack_case; auto.
  - (* LEnqueue *)
    destruct (tx s) as [w|] eqn:HX; [|discriminate]. inv_some L. apply t_enqueue_case; auto.
  - (* LAckQ *)
    destruct (tq s) as [|w rest] eqn:HQ; [discriminate|]. inv_some L. eapply t_ackq_case; eauto.
  - (* LQEmpty *) inv_guard L G. apply t_qempty_case; auto. destruct (tq s); [reflexivity | discriminate].
Qed.

(* ------------------------------------------------------------------ compactionError *)

(* the write lock goes from free to compactionError, or from compactionError back to free *)
Lemma inv2_ce_wl : forall s w' lk' c',
  inv2' s -> (wl s = WFree \/ wl s = WHeld PCE) -> (w' = WFree \/ w' = WHeld PCE) ->
  (c' = E_done -> closeC s = true) -> (lk' = true -> c' = E_per) ->
  (ce s = E_per \/ closed s = true -> c' = E_per \/ closed s = true) ->
  inv2' (set_ce (set_locking (set_wl s w') lk') c').
Proof.
  intros s w' lk' c' [Gl L] HW HW' H2 H3 H45.
  assert (TN : trown s = None).
  { destruct (trown s) eqn:E; auto. assert (X : trown s <> None) by congruence. apply (gg10 s Gl) in X.
    destruct HW; congruence. }
  assert (NM : pend s = None /\ merged s = []).
  { destruct (pend s) eqn:EP; [| destruct (merged s) eqn:EM; auto];
      (destruct (ggl4 s Gl) as [h [Hh _]]; [first [left; congruence | right; congruence] | destruct HW; congruence]). }
  destruct NM as [PN MN].
  split.
  - destruct Gl. constructor; simpl; auto.
    + split; intro X; [destruct HW'; congruence | congruence].
    + intro X. destruct HW'; congruence.
    + intros [X | X]; congruence.
  - intro j. simpl. apply (loc_chg s _ j _ (L j)); simpl; auto; try tauto; try (intros; split; auto).
    intros _ _ _ X. destruct HW'; congruence.
Qed.

Lemma inv2_step_ce : forall s k s', inv1 s -> inv2' s -> step fixed s (ACE k) = Some s' -> inv2' s'.
Proof.
  intros s k s' I1 I H. simpl in H. unfold step_ce in H. pose proof I as [Gl _].
  destruct k as [|[|k]]; [| |destruct (ce s); discriminate].
  - destruct (ce s) eqn:HE; try discriminate. inv_guard H G. apply wl_free_true in G.
    apply (inv2'_frame (set_ce (set_locking (set_wl s (WHeld PCE)) true) E_per)); [repeat split; auto |].
    apply inv2_ce_wl; auto. intro; discriminate.
  - assert (G : closeC s = true /\ s' = set_ce (if (match ce s with E_per => true | _ => false end) && locking s
                       then set_locking (set_wl s WFree) false else s) E_done).
    { destruct (ce s); try discriminate; apply guard_some in H; destruct H; auto. }
    destruct G as [HC ->]. pose proof (gg1 s Gl HC) as HD.
    destruct ((match ce s with E_per => true | _ => false end) && locking s) eqn:E.
    + apply andb_prop in E. destruct E as [_ LK].
      destruct I1 as [_ _ _ IWCE _ _ _ _ _ _ _]. rewrite LK in IWCE. apply wl_is_true in IWCE.
      apply inv2_ce_wl; auto. intro; discriminate.
    + assert (LK : locking s = false).
      { destruct (locking s) eqn:LK; auto. rewrite (gg3 s Gl LK) in E. discriminate. }
      apply (inv2_bg s); simpl; auto; try (intro; discriminate); try congruence; destruct Gl; auto.
Qed.
