(* Conc/RefLoopProofs.v — the reference loop keeps the invariant Inv (Conc/RefLoopInv.v) under every
   event the environment protocol allows, for every expiry oracle; the three property theorems
   follow.  Induction over arbitrary event lists, no bound. *)
From Coq Require Import NArith List Bool Lia Permutation.
From GL Require Import Conc.RefLoop Conc.RefLoopLemmas Conc.RefLoopInv Conc.RefLoopChain.
Import ListNotations.
Open Scope N_scope.

Ltac sproj := cbn [fileRef ref deltas referenced released abandoned next last
                  skip_abandoned converted pop_released set_fileRef].

Lemma leb_step : forall nx v, v <> nx -> (nx + 1 <=? v) = (nx <=? v).
Proof.
  intros. destruct (nx <=? v) eqn:E; [apply N.leb_le in E; apply N.leb_le; lia|apply N.leb_gt in E; apply N.leb_gt; lia].
Qed.

Lemma ltb_step : forall nx v, v <> nx -> (v <? nx + 1) = (v <? nx).
Proof.
  intros. destruct (v <? nx) eqn:E; [apply N.ltb_lt in E; apply N.ltb_lt; lia|apply N.ltb_ge in E; apply N.ltb_ge; lia].
Qed.

Lemma In_chain_mid : forall (X : list ver) c Y, In c (X ++ c :: Y).
Proof. intros. apply in_or_app. right; left; auto. Qed.

(* ---------- the invariant does not depend on [next] passing an id that no version has ---------- *)

Lemma Un_step_neq : forall ch nx f, (forall c, In c ch -> v_id c <> nx) -> (Un ch nx f <-> Un ch (nx + 1) f).
Proof.
  intros ch nx f H. unfold Un. split; intros (x & Hx & Ha & Hf); exists x; repeat split; auto.
  - rewrite applied_step_neq; auto.
  - rewrite <- applied_step_neq; auto.
Qed.

Lemma step_skip : forall e s rm,
  Inv e s rm -> smem (abandoned s) (next s) = true -> Inv e (skip_abandoned s) rm.
Proof.
  intros e s rm (Hwf & Hmaps & (U & b & A & Hch & HA & HU & Hcnt) & Hacct) Hab.
  destruct Hmaps as (Mref & Mdel & Mrel & Mrefd & Mab & Mnx & Mlast).
  assert (Hnone : find_ver (e_chain e) (next s) = None /\ next s < e_nid e).
  { rewrite Mab in Hab. destruct (find_ver (e_chain e) (next s)); [discriminate|].
    apply andb_true_iff in Hab. destruct Hab as [_ H2]. apply N.ltb_lt in H2. auto. }
  destruct Hnone as [Hnone Hlt].
  assert (Hids : forall c, In c (e_chain e) -> v_id c <> next s) by (apply find_ver_None; auto).
  assert (Hfv : forall v c, find_ver (e_chain e) v = Some c -> v <> next s).
  { intros v c Hf. apply find_ver_In in Hf. destruct Hf as [Hin <-]. auto. }
  split; [exact Hwf|]. split; [|split].
  - unfold maps_ok, skip_abandoned; sproj. repeat split.
    + intros v. rewrite Mref. destruct (find_ver (e_chain e) v) eqn:E; auto. rewrite leb_step; eauto.
    + intros v. rewrite Mdel. destruct (find_ver (e_chain e) v) eqn:E; auto. rewrite leb_step; eauto.
    + intros v. rewrite Mrel. destruct (find_ver (e_chain e) v) eqn:E; auto. rewrite leb_step; eauto.
    + intros v. rewrite Mrefd. destruct (find_ver (e_chain e) v) eqn:E; auto. rewrite ltb_step; eauto.
    + intros v. destruct (N.eq_dec v (next s)) as [->|Hne].
      * rewrite smem_sdel_eq, Hnone. symmetry. apply andb_false_iff. left. apply N.leb_gt. lia.
      * rewrite smem_sdel_neq by auto. rewrite Mab. destruct (find_ver (e_chain e) v); auto. rewrite leb_step; auto.
    + lia.
    + exact Mlast.
  - exists U, b, A. unfold skip_abandoned; sproj. split; [exact Hch|]. split; [|split].
    + eapply Forall_impl; [|exact HA]. intros; apply applied_mono; auto.
    + rewrite Forall_forall in *. intros c Hc. rewrite applied_step_neq; auto.
      apply Hids. rewrite Hch. apply in_app_or in Hc. apply in_or_app.
      destruct Hc as [Hc|[<-|[]]]; auto. right; left; auto.
    + intros f. rewrite Hcnt. rewrite holds_step_neq; auto.
  - unfold skip_abandoned; sproj. eapply acct_iff; [|exact Hacct]. intros f. apply Un_step_neq; auto.
Qed.

(* ---------- the delta of the oldest unapplied version gets applied because [next] moves on ---------- *)

Lemma base_advance : forall ch seen U b A d nx nx' fr rm (H : N -> N),
  chain_wf ch -> head_ok ch -> (forall c, In c ch -> incl (v_files c) seen) ->
  ch = U ++ b :: A ->
  Forall (fun c => applied nx c = true) A ->
  Forall (fun c => applied nx c = false) (U ++ [b]) ->
  v_delta b = Some d ->
  applied nx' b = true ->
  (forall x, In x ch -> applied nx x = true -> applied nx' x = true) ->
  (forall x, In x ch -> applied nx' x = true -> applied nx x = true \/ x = b) ->
  (forall f, cnt fr f = ind (counted b) f + H f) ->
  acct fr rm seen (Un ch nx) ->
  exists U' n, U = U' ++ [n] /\
    exists fr' out, applyDelta fr d = Ok (fr', out)
      /\ (forall f, cnt fr' f = ind (counted n) f + H f)
      /\ acct fr' (rm ++ out) seen (Un ch nx')
      /\ Forall (fun c => applied nx' c = true) (b :: A)
      /\ Forall (fun c => applied nx' c = false) (U' ++ [n]).
Proof.
  intros ch seen U b A d nx nx' fr rm H Hwf Hhd Hseen Hch HA HU Hd Hb' Hmono Honly Hcnt Hacct.
  assert (HUne : U <> []).
  { intros ->. cbn in Hch. subst ch. apply head_nodelta in Hhd. destruct Hhd as [Hn _]. congruence. }
  destruct (exists_last HUne) as (U' & n & HUeq). subst U.
  exists U', n. split; [reflexivity|].
  assert (Hch' : ch = U' ++ n :: b :: A) by (rewrite Hch, <- app_assoc; reflexivity).
  assert (Hwf' := Hwf). rewrite Hch' in Hwf'.
  destruct (chain_wf_adj U' n b A Hwf') as [Htr _]. rewrite Hd in Htr.
  assert (HinU : forall x, In x (U' ++ [n]) -> In x ch).
  { intros x Hx. rewrite Hch. apply in_or_app. auto. }
  assert (Hbin : In b ch) by (rewrite Hch; apply In_chain_mid).
  assert (HU'un : Forall (fun c => applied nx' c = false) (U' ++ [n])).
  { rewrite Forall_forall in *. intros x Hx.
    destruct (applied nx' x) eqn:E; auto.
    destruct (Honly x (HinU x Hx) E) as [Ha| ->].
    - assert (applied nx x = false) by (apply HU; apply in_or_app; auto). congruence.
    - (* b would occur twice in the chain *)
      exfalso. apply in_split in Hx. destruct Hx as (l1 & l2 & Hx).
      assert (Hwf2 := Hwf). rewrite Hch, Hx, <- app_assoc in Hwf2. cbn in Hwf2.
      pose proof (chain_wf_older_lt l1 b (l2 ++ b :: A) Hwf2 b (In_chain_mid l2 b A)). lia. }
  assert (Hb_un : applied nx b = false).
  { rewrite Forall_forall in HU. apply HU. apply in_or_app. right; left; auto. }
  assert (S1 : forall f, In f (v_files b) -> Un ch nx f).
  { intros f Hf. exists b. auto. }
  assert (S2 : forall f, In f (v_files n) -> Un ch nx' f).
  { intros f Hf. exists n. repeat split; auto.
    + apply HinU. apply in_or_app. right; left; auto.
    + rewrite Forall_forall in HU'un. apply HU'un. apply in_or_app. right; left; auto. }
  assert (S3 : forall f, Un ch nx' f -> Un ch nx f).
  { intros f (x & Hx & Ha & Hf). exists x. repeat split; auto.
    destruct (applied nx x) eqn:E; auto. rewrite (Hmono x Hx E) in Ha. discriminate. }
  assert (S4 : forall f, Un ch nx f -> Un ch nx' f \/ In f (v_files b)).
  { intros f (x & Hx & Ha & Hf). destruct (applied nx' x) eqn:E.
    + destruct (Honly x Hx E) as [Ha'| ->]; [congruence|]. right; auto.
    + left. exists x. auto. }
  assert (S5 : forall f, In f (v_files b) -> ~ In f (v_files n) -> ~ Un ch nx' f).
  { intros f Hfb Hfn (x & Hx & Ha & Hf).
    rewrite Hch' in Hx. apply in_app_or in Hx. destruct Hx as [Hx|[<-|[<-|Hx]]].
    + apply (gone_adj U' n b A f Hwf' Hfb Hfn x Hx Hf).
    + contradiction.
    + congruence.
    + rewrite Forall_forall in HA. rewrite (Hmono x) in Ha; [discriminate| |apply HA; auto].
      rewrite Hch. apply in_or_app. right; right; auto. }
  assert (S6 : incl (v_files b) seen) by (apply Hseen; auto).
  assert (S7 : incl (v_late b) (v_files b)) by (apply (chain_wf_elem ch b Hwf Hbin)).
  destruct (delta_core fr rm seen (Un ch nx) (Un ch nx') H b d n Hacct Htr Hcnt S1 S2 S3 S4 S5 S6 S7)
    as (fr' & out & Happ & Hc' & Hacct').
  exists fr', out. split; [exact Happ|]. split; [exact Hc'|]. split; [exact Hacct'|]. split; [|exact HU'un].
  constructor; auto. rewrite Forall_forall in *. intros x Hx. apply Hmono; [|apply HA; auto].
  rewrite Hch. apply in_or_app. right; right; auto.
Qed.

Lemma find_ver_of_In : forall ch c, chain_wf ch -> In c ch -> find_ver ch (v_id c) = Some c.
Proof.
  intros ch c H Hin. apply in_split in Hin. destruct Hin as (X & Y & ->). apply find_ver_mid; auto.
Qed.

Lemma chain_id_inj : forall ch x y, chain_wf ch -> In x ch -> In y ch -> v_id x = v_id y -> x = y.
Proof.
  intros ch x y H Hx Hy E. pose proof (find_ver_of_In ch x H Hx) as Fx.
  pose proof (find_ver_of_In ch y H Hy) as Fy. rewrite E in Fx. congruence.
Qed.

Lemma applied_only_at : forall ch c nx x, chain_wf ch -> In c ch -> v_id c = nx -> In x ch ->
  applied (nx + 1) x = true -> applied nx x = true \/ x = c.
Proof.
  intros ch c nx x H Hc Hid Hx Ha. destruct (N.eq_dec (v_id x) nx) as [E|E].
  - right. apply (chain_id_inj ch); auto. congruence.
  - left. rewrite <- applied_step_neq; auto.
Qed.

(* where the version whose id is [next] sits relative to the oldest unapplied version b *)
Lemma locate : forall ch U b A c nx,
  chain_wf ch -> head_ok ch -> ch = U ++ b :: A ->
  Forall (fun c => applied nx c = true) A ->
  Forall (fun c => applied nx c = false) (U ++ [b]) ->
  In c ch -> v_id c = nx ->
  c = b \/ (U = [c] /\ v_delta b = None /\ v_id b < nx /\ v_delta c = None).
Proof.
  intros ch U b A c nx Hwf Hhd Hch HA HU Hc Hid.
  rewrite Hch in Hc. apply in_app_or in Hc. destruct Hc as [Hc|[Hc|Hc]]; auto.
  - right. apply in_split in Hc. destruct Hc as (X & M & HUeq). subst U.
    assert (Hwf' : chain_wf (X ++ c :: (M ++ b :: A))).
    { rewrite Hch in Hwf. rewrite <- app_assoc in Hwf. cbn in Hwf. exact Hwf. }
    assert (Hlt : v_id b < v_id c).
    { apply (chain_wf_older_lt X c (M ++ b :: A) Hwf'). apply In_chain_mid. }
    assert (Hbd : v_delta b = None).
    { rewrite Forall_forall in HU. assert (Hu : applied nx b = false) by (apply HU; apply in_or_app; right; left; auto).
      unfold applied in Hu. apply andb_false_iff in Hu. destruct Hu as [Hu|Hu].
      - unfold has_delta in Hu. destruct (v_delta b); [discriminate|auto].
      - apply N.ltb_ge in Hu. lia. }
    assert (Hhd' := Hhd). rewrite Hch in Hhd'.
    destruct (nodelta_pos (X ++ c :: M) b A Hhd' Hbd) as [E|(h & E)].
    + destruct X; discriminate.
    + destruct X as [|x X]; cbn in E.
      * inversion E. subst.
        repeat split; auto; try lia.
        cbn in Hhd'. tauto.
      * inversion E. destruct X; discriminate.
  - exfalso. rewrite Forall_forall in HA. specialize (HA c Hc). unfold applied in HA.
    apply andb_true_iff in HA. destruct HA as [_ HA]. apply N.ltb_lt in HA. lia.
Qed.

(* ---------- loop 2: the delta of a released version at [next] is applied ---------- *)

Lemma step_pop : forall e s rm od,
  Inv e s rm -> smem (abandoned s) (next s) = false -> mget (released s) (next s) = Some od ->
  exists fr2 out,
    (match od with Some d => applyDelta (fileRef s) d | None => Ok (fileRef s, []) end) = Ok (fr2, out)
    /\ Inv e (pop_released s fr2) (rm ++ out).
Proof.
  intros e s rm od (Hwf & Hmaps & (U & b & A & Hch & HA & HU & Hcnt) & Hacct) Hab Hrel.
  destruct Hmaps as (Mref & Mdel & Mrel & Mrefd & Mab & Mnx & Mlast).
  destruct Hwf as (Hcw & Hhd & Hids & Hseen & Hnds).
  rewrite Mrel in Hrel. destruct (find_ver (e_chain e) (next s)) as [c|] eqn:Hfind; [|discriminate].
  destruct (v_rel c) eqn:Hrc; [|discriminate]. rewrite N.leb_refl in Hrel. cbn in Hrel. inversion Hrel; subst od; clear Hrel.
  destruct (find_ver_In _ _ _ Hfind) as [Hcin Hcid].
  assert (Hhas : has_delta c = true) by (apply (chain_wf_elem _ c Hcw Hcin); auto).
  unfold has_delta in Hhas. destruct (v_delta c) as [d|] eqn:Hd; [|discriminate].
  destruct (locate _ U b A c (next s) Hcw Hhd Hch HA HU Hcin Hcid) as [->|(_ & _ & _ & Hn)]; [|congruence].
  assert (Hb' : applied (next s + 1) b = true).
  { unfold applied, has_delta. rewrite Hd. cbn. apply N.ltb_lt. lia. }
  destruct (base_advance (e_chain e) (e_seen e) U b A d (next s) (next s + 1) (fileRef s) rm
              (holds (e_chain e) (next s)) Hcw Hhd Hseen Hch HA HU Hd Hb')
    as (U' & n & HUeq & fr' & out & Happ & Hc' & Hacct' & HA' & HU'); auto.
  { intros x Hx. apply applied_mono. }
  { intros x Hx. apply (applied_only_at (e_chain e) b); auto. }
  exists fr', out. split; [exact Happ|].
  assert (Hch' : e_chain e = U' ++ n :: b :: A) by (rewrite Hch, HUeq, <- app_assoc; reflexivity).
  split; [repeat split; auto|]. split; [|split].
  - unfold maps_ok, pop_released; sproj. repeat split.
    + intros v. rewrite Mref. destruct (N.eq_dec v (next s)) as [->|Hne].
      * rewrite Hfind, Hrc. reflexivity.
      * destruct (find_ver (e_chain e) v); auto. rewrite leb_step; auto.
    + intros v. rewrite Mdel. destruct (N.eq_dec v (next s)) as [->|Hne].
      * rewrite Hfind, Hrc. reflexivity.
      * destruct (find_ver (e_chain e) v); auto. rewrite leb_step; auto.
    + intros v. destruct (N.eq_dec v (next s)) as [->|Hne].
      * rewrite mget_mdel_eq, Hfind, Hrc. cbn.
        replace (next s + 1 <=? next s) with false by (symmetry; apply N.leb_gt; lia). reflexivity.
      * rewrite mget_mdel_neq by auto. rewrite Mrel. destruct (find_ver (e_chain e) v); auto. rewrite leb_step; auto.
    + intros v. rewrite Mrefd. destruct (N.eq_dec v (next s)) as [->|Hne].
      * rewrite Hfind, Hrc. reflexivity.
      * destruct (find_ver (e_chain e) v); auto. rewrite ltb_step; auto.
    + intros v. rewrite Mab. destruct (N.eq_dec v (next s)) as [->|Hne].
      * rewrite Hfind. reflexivity.
      * destruct (find_ver (e_chain e) v); auto. rewrite leb_step; auto.
    + specialize (Hids b Hcin). lia.
    + exact Mlast.
  - exists U', n, (b :: A). unfold pop_released; sproj.
    split; [exact Hch'|]. split; [exact HA'|]. split; [exact HU'|].
    intros f. rewrite Hc'.
    assert (Hwf2 : chain_wf ((U' ++ [n]) ++ b :: A)) by (rewrite <- HUeq, <- Hch; exact Hcw).
    pose proof (holds_step_at (U' ++ [n]) b A f Hwf2) as Hh.
    rewrite <- HUeq, <- Hch, Hcid, Hrc in Hh. cbn in Hh. lia.
  - unfold pop_released; sproj. exact Hacct'.
Qed.

(* ---------- loop 1: the queued version at [next] is converted into full file references ---------- *)

Lemma step_convert : forall e s rm files,
  Inv e s rm -> smem (abandoned s) (next s) = false -> mhas (released s) (next s) = false ->
  mget (ref s) (next s) = Some files ->
  exists fr2 out,
    (match mget (deltas s) (next s) with
     | Some d => applyDelta (add_all (fileRef s) files) d
     | None => Ok (add_all (fileRef s) files, [])
     end) = Ok (fr2, out)
    /\ Inv e (converted s fr2) (rm ++ out).
Proof.
  intros e s rm files (Hwf & Hmaps & (U & b & A & Hch & HA & HU & Hcnt) & Hacct) Hab Hnrel Href.
  destruct Hmaps as (Mref & Mdel & Mrel & Mrefd & Mab & Mnx & Mlast).
  destruct Hwf as (Hcw & Hhd & Hids & Hseen & Hnds).
  rewrite Mref in Href. destruct (find_ver (e_chain e) (next s)) as [c|] eqn:Hfind; [|discriminate].
  destruct (v_rel c) eqn:Hrc; [discriminate|]. rewrite N.leb_refl in Href. cbn in Href. inversion Href; subst files; clear Href.
  destruct (find_ver_In _ _ _ Hfind) as [Hcin Hcid].
  assert (Hdl : mget (deltas s) (next s) = v_delta c).
  { rewrite Mdel, Hfind, Hrc, N.leb_refl. reflexivity. }
  rewrite Hdl.
  destruct (chain_wf_elem _ c Hcw Hcin) as (NDf & Hlate & _).
  assert (Hc_un : applied (next s) c = false).
  { unfold applied. apply andb_false_iff. right. apply N.ltb_ge. lia. }
  assert (Hacct1 : acct (add_all (fileRef s) (v_files c)) rm (e_seen e) (Un (e_chain e) (next s))).
  { apply convert_core; auto. intros f Hf. exists c. auto. }
  assert (Hsplit : exists X Y, e_chain e = X ++ c :: Y) by (apply in_split; auto).
  destruct Hsplit as (X & Y & HXY).
  assert (Hholds : forall f, holds (e_chain e) (next s + 1) f = holds (e_chain e) (next s) f + ind (v_files c) f).
  { intros f. assert (Hw : chain_wf (X ++ c :: Y)) by (rewrite <- HXY; auto).
    pose proof (holds_step_at X c Y f Hw) as Hh. rewrite <- HXY, Hcid, Hrc in Hh. cbn in Hh. exact Hh. }
  assert (Hmaps' : forall fr2, maps_ok e (converted s fr2)).
  { intros fr2. unfold maps_ok, converted; sproj. repeat split.
    + intros v. destruct (N.eq_dec v (next s)) as [->|Hne].
      * rewrite mget_mdel_eq, Hfind, Hrc. cbn.
        replace (next s + 1 <=? next s) with false by (symmetry; apply N.leb_gt; lia). reflexivity.
      * rewrite mget_mdel_neq by auto. rewrite Mref. destruct (find_ver (e_chain e) v); auto. rewrite leb_step; auto.
    + intros v. destruct (N.eq_dec v (next s)) as [->|Hne].
      * rewrite mget_mdel_eq, Hfind, Hrc. cbn.
        replace (next s + 1 <=? next s) with false by (symmetry; apply N.leb_gt; lia). reflexivity.
      * rewrite mget_mdel_neq by auto. rewrite Mdel. destruct (find_ver (e_chain e) v); auto. rewrite leb_step; auto.
    + intros v. rewrite Mrel. destruct (N.eq_dec v (next s)) as [->|Hne].
      * rewrite Hfind, Hrc. reflexivity.
      * destruct (find_ver (e_chain e) v); auto. rewrite leb_step; auto.
    + intros v. destruct (N.eq_dec v (next s)) as [->|Hne].
      * rewrite smem_sadd_eq, Hfind, Hrc. cbn. symmetry. apply N.ltb_lt. lia.
      * rewrite smem_sadd_neq by auto. rewrite Mrefd. destruct (find_ver (e_chain e) v); auto. rewrite ltb_step; auto.
    + intros v. rewrite Mab. destruct (N.eq_dec v (next s)) as [->|Hne].
      * rewrite Hfind. reflexivity.
      * destruct (find_ver (e_chain e) v); auto. rewrite leb_step; auto.
    + specialize (Hids c Hcin). lia.
    + exact Mlast. }
  destruct (v_delta c) as [d|] eqn:Hd.
  - (* the delta is known: c is the oldest unapplied version and its delta is applied right away *)
    destruct (locate _ U b A c (next s) Hcw Hhd Hch HA HU Hcin Hcid) as [->|(_ & _ & _ & Hn)]; [|congruence].
    assert (Hb' : applied (next s + 1) b = true).
    { unfold applied, has_delta. rewrite Hd. cbn. apply N.ltb_lt. lia. }
    destruct (base_advance (e_chain e) (e_seen e) U b A d (next s) (next s + 1) (add_all (fileRef s) (v_files b)) rm
                (fun f => holds (e_chain e) (next s) f + ind (v_files b) f) Hcw Hhd Hseen Hch HA HU Hd Hb')
      as (U' & n & HUeq & fr' & out & Happ & Hc' & Hacct' & HA' & HU'); auto.
    { intros x Hx. apply applied_mono. }
    { intros x Hx. apply (applied_only_at (e_chain e) b); auto. }
    { intros f. rewrite add_all_cnt by auto. rewrite Hcnt. lia. }
    exists fr', out. split; [exact Happ|].
    split; [repeat split; auto|]. split; [apply Hmaps'|]. split.
    + exists U', n, (b :: A). unfold converted; sproj.
      split; [rewrite Hch, HUeq, <- app_assoc; reflexivity|]. split; [exact HA'|]. split; [exact HU'|].
      intros f. rewrite Hc', Hholds. lia.
    + unfold converted; sproj. exact Hacct'.
  - (* no delta yet: only the references are taken *)
    exists (add_all (fileRef s) (v_files c)), []. split; [reflexivity|]. rewrite app_nil_r.
    assert (Hstill : forall x, In x (e_chain e) -> applied (next s) x = false -> applied (next s + 1) x = false).
    { intros x Hx Hu. destruct (applied (next s + 1) x) eqn:E; auto.
      destruct (applied_only_at (e_chain e) c (next s) x Hcw Hcin Hcid Hx E) as [Ha| ->]; [congruence|].
      unfold applied, has_delta in E. rewrite Hd in E. discriminate. }
    split; [repeat split; auto|]. split; [apply Hmaps'|]. split.
    + exists U, b, A. unfold converted; sproj. split; [exact Hch|]. split; [|split].
      * eapply Forall_impl; [|exact HA]. intros; apply applied_mono; auto.
      * rewrite Forall_forall in *. intros x Hx. apply Hstill; auto.
        rewrite Hch. apply in_app_or in Hx. apply in_or_app. destruct Hx as [Hx|[<-|[]]]; auto. right; left; auto.
      * intros f. rewrite add_all_cnt by auto. rewrite Hcnt, Hholds. lia.
    + unfold converted; sproj. eapply acct_iff; [|exact Hacct1].
      intros f. split; intros (x & Hx & Ha & Hf); exists x; repeat split; auto.
      destruct (applied (next s) x) eqn:E; auto. rewrite (applied_mono _ _ E) in Ha. discriminate.
Qed.

(* ---------- processTasks ---------- *)

Lemma loop1_inv : forall fuel p exp e s rm,
  Inv e s rm -> (length (abandoned s) + length (ref s) < fuel)%nat ->
  exists s' out, loop1 fuel p exp s = Ok (s', out) /\ Inv e s' (rm ++ out).
Proof.
  induction fuel as [|fuel IH]; intros p exp e s rm HI Hm; [lia|].
  cbn [loop1].
  destruct (smem (abandoned s) (next s)) eqn:Hab.
  - destruct (IH p exp e (skip_abandoned s) rm (step_skip e s rm HI Hab)) as (s' & out & Hl & HI').
    { unfold skip_abandoned; sproj. pose proof (sdel_length_lt _ _ Hab). lia. }
    exists s', out. auto.
  - destruct (mhas (released s) (next s)) eqn:Hrel.
    { exists s, []. rewrite app_nil_r. auto. }
    destruct (mget (ref s) (next s)) as [files|] eqn:Href.
    2:{ exists s, []. rewrite app_nil_r. auto. }
    destruct ((last s - next s <? maxCachedNumber p) && negb (smem exp (next s))).
    { exists s, []. rewrite app_nil_r. auto. }
    destruct (step_convert e s rm files HI Hab Hrel Href) as (fr2 & out & Hc & HI2).
    rewrite Hc.
    destruct (IH p exp e (converted s fr2) (rm ++ out) HI2) as (s' & out' & Hl & HI').
    { unfold converted; sproj. pose proof (mdel_length_lt _ _ _ Href). lia. }
    rewrite Hl. exists s', (out ++ out'). split; auto. rewrite app_assoc. auto.
Qed.

Lemma loop2_inv : forall fuel e s rm,
  Inv e s rm -> (length (abandoned s) + length (released s) < fuel)%nat ->
  exists s' out, loop2 fuel s = Ok (s', out) /\ Inv e s' (rm ++ out)
    /\ smem (abandoned s') (next s') = false /\ mget (released s') (next s') = None.
Proof.
  induction fuel as [|fuel IH]; intros e s rm HI Hm; [lia|].
  cbn [loop2].
  destruct (smem (abandoned s) (next s)) eqn:Hab.
  - destruct (IH e (skip_abandoned s) rm (step_skip e s rm HI Hab)) as (s' & out & Hl & HI').
    { unfold skip_abandoned; sproj. pose proof (sdel_length_lt _ _ Hab). lia. }
    exists s', out. auto.
  - destruct (mget (released s) (next s)) as [od|] eqn:Hrel.
    2:{ exists s, []. rewrite app_nil_r. auto. }
    destruct (step_pop e s rm od HI Hab Hrel) as (fr2 & out & Hc & HI2).
    rewrite Hc.
    destruct (IH e (pop_released s fr2) (rm ++ out) HI2) as (s' & out' & Hl & HI' & Hx).
    { unfold pop_released; sproj. pose proof (mdel_length_lt _ _ _ Hrel). lia. }
    rewrite Hl. exists s', (out ++ out'). split; auto. rewrite app_assoc. auto.
Qed.

(* after a complete processTasks run the loop waits at an id that is neither abandoned nor released *)
Definition waiting (s : state) : Prop :=
  smem (abandoned s) (next s) = false /\ mget (released s) (next s) = None.

Lemma processTasks_inv : forall p exp e s rm,
  Inv e s rm ->
  exists s' out, processTasks p exp s = Ok (s', out) /\ Inv e s' (rm ++ out) /\ waiting s'.
Proof.
  intros p exp e s rm HI. unfold processTasks.
  destruct (loop1_inv (fuel1 s) p exp e s rm HI) as (s1 & out1 & Hl1 & HI1); [unfold fuel1; lia|].
  rewrite Hl1.
  destruct (loop2_inv (fuel2 s1) e s1 (rm ++ out1) HI1) as (s2 & out2 & Hl2 & HI2 & Hw); [unfold fuel2; lia|].
  rewrite Hl2. exists s2, (out1 ++ out2). split; auto. rewrite app_assoc. auto.
Qed.

(* ---------- ERel: the protocol state marks one version released ---------- *)

Definition relmap (v : N) (x : ver) : ver := if v_id x =? v then set_rel x else x.

Lemma relmap_id : forall v x, v_id (relmap v x) = v_id x.
Proof. intros. unfold relmap. destruct (v_id x =? v); reflexivity. Qed.
Lemma relmap_files : forall v x, v_files (relmap v x) = v_files x.
Proof. intros. unfold relmap. destruct (v_id x =? v); reflexivity. Qed.
Lemma relmap_late : forall v x, v_late (relmap v x) = v_late x.
Proof. intros. unfold relmap. destruct (v_id x =? v); reflexivity. Qed.
Lemma relmap_delta : forall v x, v_delta (relmap v x) = v_delta x.
Proof. intros. unfold relmap. destruct (v_id x =? v); reflexivity. Qed.
Lemma relmap_neq : forall v x, v_id x <> v -> relmap v x = x.
Proof. intros. unfold relmap. destruct (v_id x =? v) eqn:E; auto. apply N.eqb_eq in E. contradiction. Qed.
Lemma relmap_applied : forall v nx x, applied nx (relmap v x) = applied nx x.
Proof. intros. unfold applied, has_delta. rewrite relmap_delta, relmap_id. reflexivity. Qed.
Lemma relmap_counted : forall v x, counted (relmap v x) = counted x.
Proof. intros. unfold counted. rewrite relmap_files, relmap_late. reflexivity. Qed.

Lemma map_relmap_id : forall v ch, (forall x, In x ch -> v_id x <> v) -> map (relmap v) ch = ch.
Proof.
  induction ch as [|x ch IH]; intros H; cbn; auto.
  rewrite relmap_neq by (apply H; left; auto). rewrite IH; auto. intros y Hy. apply H. right; auto.
Qed.

Lemma rel_in_map : forall ch v F ch', chain_wf ch -> rel_in ch v F = Some ch' ->
  ch' = map (relmap v) ch /\
  exists c, find_ver ch v = Some c /\ v_rel c = false /\ has_delta c = true /\ F = v_files c.
Proof.
  induction ch as [|x ch IH]; intros v F ch' Hwf H; cbn in H; [discriminate|].
  cbn [find_ver map]. unfold relmap at 1. destruct (v_id x =? v) eqn:E.
  - destruct (negb (v_rel x) && has_delta x && leqb F (v_files x)) eqn:C; [|discriminate].
    inversion H; subst ch'; clear H.
    apply andb_true_iff in C. destruct C as [C C3]. apply andb_true_iff in C. destruct C as [C1 C2].
    apply negb_true_iff in C1. apply leqb_eq in C3. apply N.eqb_eq in E.
    split.
    + rewrite map_relmap_id; auto. intros y Hy. pose proof (chain_wf_head_lt x ch Hwf y Hy). lia.
    + exists x. auto.
  - destruct (rel_in ch v F) as [ch2|] eqn:R; [|discriminate]. inversion H; subst ch'; clear H.
    destruct (IH v F ch2 (chain_wf_tail _ _ Hwf) R) as (-> & c & Hc).
    split; auto. exists c. auto.
Qed.

Lemma find_ver_relmap : forall v ch v', find_ver (map (relmap v) ch) v' =
  match find_ver ch v' with Some x => Some (relmap v x) | None => None end.
Proof.
  induction ch as [|x ch IH]; intros v'; cbn; auto.
  rewrite relmap_id. destruct (v_id x =? v'); auto.
Qed.

Lemma trans_ok_relmap : forall v c d n, trans_ok c d n -> trans_ok (relmap v c) d (relmap v n).
Proof.
  intros v c d n H. unfold trans_ok in *. rewrite !relmap_counted, !relmap_late, !relmap_files. exact H.
Qed.

Lemma chain_wf_relmap : forall v ch, chain_wf ch ->
  (forall x, In x ch -> v_id x = v -> has_delta x = true) -> chain_wf (map (relmap v) ch).
Proof.
  induction ch as [|n ch IH]; intros Hwf Hd; cbn [map]; auto.
  cbn in Hwf. destruct Hwf as (ND & HL & HR & Hadj & Hwf).
  cbn [chain_wf]. rewrite relmap_files, relmap_late.
  split; [exact ND|]. split; [exact HL|]. split.
  - unfold relmap. destruct (v_id n =? v) eqn:E.
    + intros _. unfold has_delta, set_rel; cbn. apply N.eqb_eq in E. apply (Hd n); auto. left; auto.
    + exact HR.
  - split.
    + destruct ch as [|c ch']; cbn [map]; auto.
      destruct Hadj as (Hlt & Htr & Hfresh). rewrite !relmap_id, relmap_delta, relmap_files. split; [exact Hlt|]. split.
      * destruct (v_delta c); [apply trans_ok_relmap; auto|exact Htr].
      * intros f Hf Hn x Hx.
        change (relmap v c :: map (relmap v) ch') with (map (relmap v) (c :: ch')) in Hx.
        apply in_map_iff in Hx. destruct Hx as (y & <- & Hy). rewrite relmap_files. apply (Hfresh f Hf Hn y Hy).
    + apply IH; auto. intros x Hx. apply Hd. right; auto.
Qed.

Lemma holds_relmap : forall v ch c nx f, chain_wf ch -> find_ver ch v = Some c -> v_rel c = false ->
  holds ch nx f = holds (map (relmap v) ch) nx f + (if v <? nx then ind (v_files c) f else 0).
Proof.
  induction ch as [|x ch IH]; intros c nx f Hwf Hf Hr; cbn in Hf; [discriminate|].
  cbn [map holds]. destruct (v_id x =? v) eqn:E.
  - inversion Hf; subst x; clear Hf. apply N.eqb_eq in E.
    rewrite map_relmap_id by (intros y Hy; pose proof (chain_wf_head_lt c ch Hwf y Hy); lia).
    unfold relmap. rewrite E, N.eqb_refl. unfold hold1, set_rel; cbn. rewrite Hr, E. cbn.
    destruct (v <? nx); lia.
  - rewrite (IH c nx f (chain_wf_tail _ _ Hwf) Hf Hr).
    rewrite relmap_neq by (apply N.eqb_neq; auto). lia.
Qed.

Lemma Un_relmap : forall v ch nx f, Un (map (relmap v) ch) nx f <-> Un ch nx f.
Proof.
  intros. unfold Un. split.
  - intros (x & Hx & Ha & Hf). apply in_map_iff in Hx. destruct Hx as (y & <- & Hy).
    exists y. rewrite relmap_applied in Ha. rewrite relmap_files in Hf. auto.
  - intros (x & Hx & Ha & Hf). exists (relmap v x). rewrite relmap_applied, relmap_files.
    repeat split; auto. apply in_map; auto.
Qed.

(* a table of an applied version c that the oldest unapplied version b does not count is in no
   unapplied version *)
Lemma rel_gone : forall ch U b A c f, chain_wf ch -> ch = U ++ b :: A ->
  (forall x, In x A -> has_delta x = true) -> In c A ->
  In f (v_files c) -> ind (counted b) f = 0 ->
  forall x, In x (U ++ [b]) -> ~ In f (v_files x).
Proof.
  intros ch U b A c f Hwf Hch HdA Hc Hfc Hind.
  apply in_split in Hc. destruct Hc as (A1 & A2 & ->).
  assert (Hnb : ~ In f (v_files b)).
  { intros Hfb.
    assert (Hlate : In f (v_late b)).
    { destruct (in_dec N.eq_dec f (v_late b)) as [?|Hn]; auto. exfalso.
      rewrite ind_In in Hind; [lia|]. apply ldiff_In. auto. }
    destruct A1 as [|p A1'].
    - cbn in Hch. rewrite Hch in Hwf. destruct (chain_wf_adj U b c A2 Hwf) as [Htr _].
      assert (Hd : has_delta c = true) by (apply HdA; left; auto).
      unfold has_delta in Hd. destruct (v_delta c) as [d|]; [|discriminate].
      destruct Htr as (_ & _ & _ & _ & _ & Hl & _). apply (Hl f Hlate Hfc).
    - cbn in Hch. rewrite Hch in Hwf. destruct (chain_wf_adj U b p (A1' ++ c :: A2) Hwf) as [Htr _].
      assert (Hd : has_delta p = true) by (apply HdA; left; auto).
      unfold has_delta in Hd. destruct (v_delta p) as [d|]; [|discriminate].
      destruct Htr as (_ & _ & _ & _ & _ & Hl & _).
      assert (Hwf2 : chain_wf ((U ++ [b]) ++ p :: A1' ++ c :: A2)) by (rewrite <- app_assoc; cbn; exact Hwf).
      apply (gone A1' (U ++ [b]) p c A2 f Hwf2 Hfc (Hl f Hlate) b); auto.
      apply in_or_app. right; left; auto. }
  intros x Hx. apply in_app_or in Hx. destruct Hx as [Hx|[<-|[]]]; auto.
  rewrite Hch in Hwf. apply (gone A1 U b c A2 f Hwf Hfc Hnb x Hx).
Qed.

Lemma applied_has_delta : forall nx c, applied nx c = true -> has_delta c = true.
Proof. intros nx c H. unfold applied in H. apply andb_true_iff in H. tauto. Qed.

Lemma head_ok_relmap : forall v ch, chain_wf ch -> head_ok ch ->
  (forall x, In x ch -> v_id x = v -> has_delta x = true) -> head_ok (map (relmap v) ch).
Proof.
  intros v ch Hwf Hhd Hd. destruct ch as [|h rest]; cbn [map]; auto.
  cbn in Hhd. destruct Hhd as (Hnd & Hnr & Hrest).
  assert (Hh : relmap v h = h).
  { apply relmap_neq. intros E. assert (has_delta h = true) by (apply Hd; auto; left; auto).
    unfold has_delta in H. rewrite Hnd in H. discriminate. }
  rewrite Hh. cbn. split; [exact Hnd|]. split; [exact Hnr|].
  destruct rest as [|c2 rest2]; cbn [map]; auto.
  rewrite Forall_forall in *. intros x Hx. apply in_map_iff in Hx. destruct Hx as (y & <- & Hy).
  unfold has_delta. rewrite relmap_delta. apply Hrest; auto.
Qed.

Lemma handle_rel : forall e e' s rm v F,
  Inv e s rm -> env_step e (ERel v F) = Some e' ->
  exists s1 out, handle s (ERel v F) = Ok (s1, out) /\ Inv e' s1 (rm ++ out).
Proof.
  intros e e' s rm v F (Hwf & Hmaps & (U & b & A & Hch & HA & HU & Hcnt) & Hacct) Hstep.
  destruct Hmaps as (Mref & Mdel & Mrel & Mrefd & Mab & Mnx & Mlast).
  destruct Hwf as (Hcw & Hhd & Hids & Hseen & Hnds).
  cbn in Hstep. destruct (rel_in (e_chain e) v F) as [ch'|] eqn:Hri; [|discriminate].
  inversion Hstep; subst e'; clear Hstep.
  destruct (rel_in_map _ _ _ _ Hcw Hri) as (-> & c & Hfind & Hrc & Hdc & ->).
  destruct (find_ver_In _ _ _ Hfind) as [Hcin Hcid].
  assert (Hdv : forall x, In x (e_chain e) -> v_id x = v -> has_delta x = true).
  { intros x Hx E. assert (x = c) by (apply (chain_id_inj (e_chain e)); auto; congruence). subst; auto. }
  assert (Hwf' : env_wf {| e_nid := e_nid e; e_chain := map (relmap v) (e_chain e); e_seen := e_seen e |}).
  { unfold env_wf; cbn. split; [apply chain_wf_relmap; auto|]. split; [apply head_ok_relmap; auto|].
    split; [|split; auto].
    - intros x Hx. apply in_map_iff in Hx. destruct Hx as (y & <- & Hy). rewrite relmap_id. auto.
    - intros x Hx. apply in_map_iff in Hx. destruct Hx as (y & <- & Hy). rewrite relmap_files. auto. }
  assert (Hshape : forall nx, nx = next s ->
            map (relmap v) (e_chain e) = map (relmap v) U ++ relmap v b :: map (relmap v) A /\
            Forall (fun c => applied nx c = true) (map (relmap v) A) /\
            Forall (fun c => applied nx c = false) (map (relmap v) U ++ [relmap v b])).
  { intros nx ->. split; [rewrite Hch, map_app; reflexivity|]. split.
    - rewrite Forall_forall in *. intros x Hx. apply in_map_iff in Hx. destruct Hx as (y & <- & Hy).
      rewrite relmap_applied. auto.
    - change [relmap v b] with (map (relmap v) [b]). rewrite <- map_app.
      rewrite Forall_forall in *. intros x Hx. apply in_map_iff in Hx. destruct Hx as (y & <- & Hy).
      rewrite relmap_applied. auto. }
  assert (Hfv : forall v', v' <> v -> find_ver (map (relmap v) (e_chain e)) v' = find_ver (e_chain e) v').
  { intros v' Hne. rewrite find_ver_relmap. destruct (find_ver (e_chain e) v') as [x|] eqn:E; auto.
    apply find_ver_In in E. destruct E as [_ E]. rewrite relmap_neq; auto. congruence. }
  assert (Hfvv : find_ver (map (relmap v) (e_chain e)) v = Some (set_rel c)).
  { rewrite find_ver_relmap, Hfind. unfold relmap. rewrite Hcid, N.eqb_refl. reflexivity. }
  cbn [handle]. rewrite Mrefd, Hfind, Hrc. cbn [negb andb].
  destruct (v <? next s) eqn:Hlt.
  - (* a converted version: its references are dropped now *)
    apply N.ltb_lt in Hlt.
    assert (HcA : In c A).
    { rewrite Hch in Hcin. apply in_app_or in Hcin. destruct Hcin as [Hx|[Hx|Hx]]; auto.
      - exfalso. rewrite Forall_forall in HU. assert (Hu : applied (next s) c = false) by (apply HU; apply in_or_app; auto).
        unfold applied in Hu. rewrite Hdc in Hu. cbn in Hu. apply N.ltb_ge in Hu. lia.
      - exfalso. subst b. rewrite Forall_forall in HU.
        assert (Hu : applied (next s) c = false) by (apply HU; apply in_or_app; right; left; auto).
        unfold applied in Hu. rewrite Hdc in Hu. cbn in Hu. apply N.ltb_ge in Hu. lia. }
    destruct (chain_wf_elem _ c Hcw Hcin) as (NDf & _ & _).
    destruct (rel_core (fileRef s) rm (e_seen e) (Un (e_chain e) (next s)) (v_files c)
                (fun f => ind (counted b) f + holds (map (relmap v) (e_chain e)) (next s) f) Hacct NDf)
      as (fr' & out & Hdel & Hc' & Hacct').
    + apply Hseen; auto.
    + intros f. rewrite Hcnt. rewrite (holds_relmap v (e_chain e) c (next s) f Hcw Hfind Hrc).
      replace (v <? next s) with true by (symmetry; apply N.ltb_lt; auto). lia.
    + intros f Hf Hz (x & Hx & Ha & Hfx).
      assert (Hib : ind (counted b) f = 0) by lia.
      assert (HxU : In x (U ++ [b])).
      { rewrite Hch in Hx. apply in_app_or in Hx. apply in_or_app. destruct Hx as [Hx|[<-|Hx]]; auto.
        - right; left; auto.
        - exfalso. rewrite Forall_forall in HA. rewrite (HA x Hx) in Ha. discriminate. }
      apply (rel_gone (e_chain e) U b A c f Hcw Hch) with (x := x); auto.
      intros y Hy. rewrite Forall_forall in HA. apply (applied_has_delta (next s)). auto.
    + rewrite Hdel. eexists; eexists; split; [reflexivity|].
      split; [exact Hwf'|]. split; [|split].
      * unfold maps_ok; cbn [e_chain e_nid]; sproj. repeat split.
        -- intros v'. rewrite Mref. destruct (N.eq_dec v' v) as [->|Hne].
           ++ rewrite Hfvv, Hfind, Hrc. cbn. replace (next s <=? v) with false by (symmetry; apply N.leb_gt; lia). reflexivity.
           ++ rewrite Hfv; auto.
        -- intros v'. rewrite Mdel. destruct (N.eq_dec v' v) as [->|Hne].
           ++ rewrite Hfvv, Hfind, Hrc. cbn. replace (next s <=? v) with false by (symmetry; apply N.leb_gt; lia). reflexivity.
           ++ rewrite Hfv; auto.
        -- intros v'. rewrite Mrel. destruct (N.eq_dec v' v) as [->|Hne].
           ++ rewrite Hfvv, Hfind, Hrc. cbn. replace (next s <=? v) with false by (symmetry; apply N.leb_gt; lia). reflexivity.
           ++ rewrite Hfv; auto.
        -- intros v'. destruct (N.eq_dec v' v) as [->|Hne].
           ++ rewrite smem_sdel_eq, Hfvv. reflexivity.
           ++ rewrite smem_sdel_neq by auto. rewrite Mrefd, Hfv; auto.
        -- intros v'. rewrite Mab. destruct (N.eq_dec v' v) as [->|Hne].
           ++ rewrite Hfvv, Hfind. reflexivity.
           ++ rewrite Hfv; auto.
        -- exact Mnx.
        -- rewrite Mlast. destruct (e_chain e); cbn; auto. rewrite relmap_id. reflexivity.
      * cbn [e_chain]; sproj. destruct (Hshape (next s) eq_refl) as (S1 & S2 & S3).
        exists (map (relmap v) U), (relmap v b), (map (relmap v) A).
        split; [exact S1|]. split; [exact S2|]. split; [exact S3|].
        intros f. rewrite Hc', relmap_counted. reflexivity.
      * cbn [e_chain e_seen]; sproj. eapply acct_iff; [|exact Hacct']. intros f. symmetry. apply Un_relmap.
  - (* a queued version: it waits in [released] with its delta *)
    apply N.ltb_ge in Hlt.
    assert (Hhas : mhas (ref s) v = true).
    { apply mhas_true. rewrite Mref, Hfind, Hrc. cbn.
      replace (next s <=? v) with true by (symmetry; apply N.leb_le; lia). eauto. }
    rewrite Hhas. eexists; eexists; split; [reflexivity|]. rewrite app_nil_r.
    assert (Hdel : mget (deltas s) v = v_delta c).
    { rewrite Mdel, Hfind, Hrc. cbn. replace (next s <=? v) with true by (symmetry; apply N.leb_le; lia). reflexivity. }
    split; [exact Hwf'|]. split; [|split].
    + unfold maps_ok; cbn [e_chain e_nid]; sproj. repeat split.
      * intros v'. destruct (N.eq_dec v' v) as [->|Hne].
        -- rewrite mget_mdel_eq, Hfvv. reflexivity.
        -- rewrite mget_mdel_neq by auto. rewrite Mref, Hfv; auto.
      * intros v'. destruct (N.eq_dec v' v) as [->|Hne].
        -- rewrite mget_mdel_eq, Hfvv. reflexivity.
        -- rewrite mget_mdel_neq by auto. rewrite Mdel, Hfv; auto.
      * intros v'. destruct (N.eq_dec v' v) as [->|Hne].
        -- rewrite mget_mset_eq, Hfvv, Hdel. cbn.
           replace (next s <=? v) with true by (symmetry; apply N.leb_le; lia). reflexivity.
        -- rewrite mget_mset_neq by auto. rewrite Mrel, Hfv; auto.
      * intros v'. rewrite Mrefd. destruct (N.eq_dec v' v) as [->|Hne].
        -- rewrite Hfvv, Hfind, Hrc. cbn. apply N.ltb_ge. lia.
        -- rewrite Hfv; auto.
      * intros v'. rewrite Mab. destruct (N.eq_dec v' v) as [->|Hne].
        -- rewrite Hfvv, Hfind. reflexivity.
        -- rewrite Hfv; auto.
      * exact Mnx.
      * rewrite Mlast. destruct (e_chain e); cbn; auto. rewrite relmap_id. reflexivity.
    + cbn [e_chain]; sproj. destruct (Hshape (next s) eq_refl) as (S1 & S2 & S3).
      exists (map (relmap v) U), (relmap v b), (map (relmap v) A).
      split; [exact S1|]. split; [exact S2|]. split; [exact S3|].
      intros f. rewrite Hcnt, relmap_counted.
      rewrite (holds_relmap v (e_chain e) c (next s) f Hcw Hfind Hrc).
      replace (v <? next s) with false by (symmetry; apply N.ltb_ge; auto). lia.
    + cbn [e_chain e_seen]; sproj. eapply acct_iff; [|exact Hacct]. intros f. symmetry. apply Un_relmap.
Qed.

(* ---------- EAbandon, ETick ---------- *)

Lemma handle_abandon : forall e e' s rm a,
  Inv e s rm -> env_step e (EAbandon a) = Some e' ->
  exists s1 out, handle s (EAbandon a) = Ok (s1, out) /\ Inv e' s1 (rm ++ out).
Proof.
  intros e e' s rm a (Hwf & Hmaps & Hshape & Hacct) Hstep.
  destruct Hmaps as (Mref & Mdel & Mrel & Mrefd & Mab & Mnx & Mlast).
  destruct Hwf as (Hcw & Hhd & Hids & Hseen & Hnds).
  cbn in Hstep.
  destruct ((a =? e_nid e) && settled (e_chain e) && negb match e_chain e with [] => true | _ :: _ => false end) eqn:C; [|discriminate].
  inversion Hstep; subst e'; clear Hstep.
  apply andb_true_iff in C. destruct C as [C _]. apply andb_true_iff in C. destruct C as [C _].
  apply N.eqb_eq in C. subst a.
  cbn [handle]. replace (next s <=? e_nid e) with true by (symmetry; apply N.leb_le; auto).
  eexists; eexists; split; [reflexivity|]. rewrite app_nil_r.
  assert (Hnone : find_ver (e_chain e) (e_nid e) = None).
  { apply find_ver_None. intros c Hc. specialize (Hids c Hc). lia. }
  split; [|split; [|split]].
  - unfold env_wf; cbn. repeat split; auto. intros c Hc. specialize (Hids c Hc). lia.
  - unfold maps_ok; cbn [e_chain e_nid]; sproj. repeat split; auto.
    + intros v. destruct (N.eq_dec v (e_nid e)) as [->|Hne].
      * rewrite smem_sadd_eq, Hnone. symmetry. apply andb_true_iff. split; [apply N.leb_le; auto|apply N.ltb_lt; lia].
      * rewrite smem_sadd_neq by auto. rewrite Mab. destruct (find_ver (e_chain e) v); auto.
        rewrite ltb_step; auto.
    + lia.
  - cbn [e_chain]; sproj. exact Hshape.
  - cbn [e_chain e_seen]; sproj. exact Hacct.
Qed.

Lemma handle_tick : forall e s rm,
  Inv e s rm -> exists s1 out, handle s ETick = Ok (s1, out) /\ Inv e s1 (rm ++ out).
Proof. intros. exists s, []. rewrite app_nil_r. split; auto. Qed.

(* ---------- ERef: a new version is installed ---------- *)

Lemma handle_ref : forall e e' s rm v F,
  Inv e s rm -> env_step e (ERef v F) = Some e' ->
  exists s1 out, handle s (ERef v F) = Ok (s1, out) /\ Inv e' s1 (rm ++ out).
Proof.
  intros e e' s rm v F (Hwf & Hmaps & (U & b & A & Hch & HA & HU & Hcnt) & Hacct) Hstep.
  destruct Hmaps as (Mref & Mdel & Mrel & Mrefd & Mab & Mnx & Mlast).
  destruct Hwf as (Hcw & Hhd & Hids & Hseen & Hnds).
  cbn in Hstep.
  destruct ((v =? e_nid e) && nodupb F && settled (e_chain e)) eqn:C; [|discriminate].
  apply andb_true_iff in C. destruct C as [C Hset]. apply andb_true_iff in C. destruct C as [C NDF].
  apply N.eqb_eq in C. subst v. apply nodupb_NoDup in NDF.
  destruct (e_chain e) as [|cur rest] eqn:Hce.
  { destruct U; discriminate. }
  destruct (negb (has_delta cur) && disjb (ldiff F (v_files cur)) (e_seen e)) eqn:C2; [|discriminate].
  inversion Hstep; subst e'; clear Hstep.
  apply andb_true_iff in C2. destruct C2 as [_ Hfresh]. rewrite disjb_spec in Hfresh.
  set (n := {| v_id := e_nid e; v_files := F; v_late := []; v_delta := None; v_rel := false |}).
  destruct (head_nodelta _ _ Hhd) as [Hcd Hcr].
  assert (Hnone : find_ver (cur :: rest) (e_nid e) = None).
  { apply find_ver_None. intros c Hc. specialize (Hids c Hc). lia. }
  cbn [handle]. assert (Hnh : mhas (ref s) (e_nid e) = false).
  { apply mhas_false. rewrite Mref, Hnone. reflexivity. }
  rewrite Hnh. eexists; eexists; split; [reflexivity|]. rewrite app_nil_r.
  assert (Hcur_lt : v_id cur < e_nid e) by (apply Hids; left; auto).
  split; [|split; [|split]].
  - unfold env_wf; cbn [e_chain e_nid e_seen]. split; [|split; [|split; [|split]]].
    + cbn [chain_wf]. fold n. cbn [v_files v_late v_rel v_id n].
      split; [exact NDF|]. split; [intros x []|]. split; [discriminate|]. split; [|exact Hcw].
      split; [exact Hcur_lt|]. rewrite Hcd. split; [reflexivity|].
      intros f Hf Hn x Hx Hfx. apply (Hfresh f); [apply ldiff_In; auto|]. apply (Hseen x Hx); auto.
    + cbn. split; [reflexivity|]. split; [reflexivity|].
      destruct rest as [|c2 rest3]; auto. cbn in Hset. cbn in Hhd. destruct Hhd as (_ & _ & Hr3).
      constructor; auto.
    + intros c [<-|Hc]; [cbn; lia|]. specialize (Hids c Hc). lia.
    + intros c [<-|Hc]; cbn [v_files].
      * intros f Hf. apply in_or_app. destruct (in_dec N.eq_dec f (v_files cur)) as [Hi|Hi].
        -- right. apply (Hseen cur); auto. left; auto.
        -- left. apply ldiff_In. auto.
      * intros f Hf. apply in_or_app. right. apply (Hseen c Hc); auto.
    + apply NoDup_app_intro; auto. apply ldiff_NoDup; auto.
  - assert (Hfc : forall v', find_ver (n :: cur :: rest) v' = if e_nid e =? v' then Some n else find_ver (cur :: rest) v') by reflexivity.
    unfold maps_ok; cbn [e_chain e_nid]; sproj. fold n.
    repeat split; try (intros v; rewrite Hfc).
    + destruct (N.eq_dec (e_nid e) v) as [<-|Hne].
      * rewrite mget_mset_eq, N.eqb_refl. cbn. replace (next s <=? e_nid e) with true by (symmetry; apply N.leb_le; auto). reflexivity.
      * rewrite mget_mset_neq by auto. replace (e_nid e =? v) with false by (symmetry; apply N.eqb_neq; auto). apply Mref.
    + destruct (N.eq_dec (e_nid e) v) as [<-|Hne].
      * rewrite N.eqb_refl, Mdel, Hnone. cbn. destruct (next s <=? e_nid e); reflexivity.
      * replace (e_nid e =? v) with false by (symmetry; apply N.eqb_neq; auto). apply Mdel.
    + destruct (N.eq_dec (e_nid e) v) as [<-|Hne].
      * rewrite N.eqb_refl, Mrel, Hnone. reflexivity.
      * replace (e_nid e =? v) with false by (symmetry; apply N.eqb_neq; auto). apply Mrel.
    + destruct (N.eq_dec (e_nid e) v) as [<-|Hne].
      * rewrite N.eqb_refl, Mrefd, Hnone. cbn. symmetry. apply N.ltb_ge. auto.
      * replace (e_nid e =? v) with false by (symmetry; apply N.eqb_neq; auto). apply Mrefd.
    + destruct (N.eq_dec (e_nid e) v) as [<-|Hne].
      * rewrite N.eqb_refl, Mab, Hnone. apply andb_false_iff. right. apply N.ltb_irrefl.
      * replace (e_nid e =? v) with false by (symmetry; apply N.eqb_neq; auto). rewrite Mab.
        destruct (find_ver (cur :: rest) v); auto. rewrite ltb_step; auto.
    + lia.
    + rewrite Mlast. replace (v_id cur <? e_nid e) with true by (symmetry; apply N.ltb_lt; auto). reflexivity.
  - cbn [e_chain]; sproj. exists (n :: U), b, A.
    split; [rewrite Hch; reflexivity|]. split; [exact HA|]. split.
    + cbn. constructor; auto.
    + intros f. change (holds (n :: cur :: rest) (next s) f) with (hold1 (next s) n f + holds (cur :: rest) (next s) f).
      rewrite Hcnt. unfold hold1. cbn [v_rel v_id n].
      replace (e_nid e <? next s) with false by (symmetry; apply N.ltb_ge; auto). cbn [negb andb]. lia.
  - cbn [e_chain e_seen]; sproj.
    apply (acct_new_version (fileRef s) rm (e_seen e) (Un (cur :: rest) (next s)) (Un (n :: cur :: rest) (next s)) (v_files cur) F); auto.
    + intros f Hf. exists cur. repeat split; auto; [left; auto|]. unfold applied, has_delta. rewrite Hcd. reflexivity.
    + intros f. split.
      * intros (x & [<-|Hx] & Ha & Hf); [right; exact Hf|]. left. exists x. auto.
      * intros [(x & Hx & Ha & Hf)|Hf].
        -- exists x. repeat split; auto. right; auto.
        -- exists n. repeat split; auto. left; auto.
Qed.

(* ---------- EDelta: the delta of the replaced version arrives ---------- *)

(* what env_step checks for EDelta implies the semantic transition relation *)
Lemma edelta_sound : forall c n a d,
  NoDup (v_files c) -> NoDup (v_files n) -> incl (v_late c) (v_files c) ->
  let a' := ldiff a (v_late c) in
  let t := ldiff (v_files c) d ++ a' in
  let late_n := ldiff (v_files n) t in
  nodupb a = true -> nodupb d = true ->
  inclb d (ldiff (v_files c) (v_late c)) = true -> inclb (v_late c) a = true ->
  disjb a' (ldiff (v_files c) d) = true -> inclb t (v_files n) = true -> disjb late_n (v_files c) = true ->
  trans_ok (set_delta c {| d_added := a; d_deleted := d |}) {| d_added := a; d_deleted := d |} (set_late n late_n).
Proof.
  intros c n a d NDc NDn Hlc a' t late_n Ha Hd Hdi Hla Hdj Hti Hlj.
  apply nodupb_NoDup in Ha. apply nodupb_NoDup in Hd. apply inclb_incl in Hdi. apply inclb_incl in Hla.
  rewrite disjb_spec in Hdj. apply inclb_incl in Hti. rewrite disjb_spec in Hlj.
  unfold trans_ok, counted, set_delta, set_late; cbn [v_files v_late d_added d_deleted].
  assert (Ht : forall f, In f t <-> (In f (v_files c) /\ ~ In f d) \/ (In f a /\ ~ In f (v_late c))).
  { intros f. unfold t, a'. rewrite in_app_iff, !ldiff_In. tauto. }
  assert (Hcn : forall f, In f (ldiff (v_files n) late_n) <-> In f t).
  { intros f. unfold late_n. rewrite !ldiff_In. split.
    - intros [H1 H2]. destruct (in_dec N.eq_dec f t); auto. exfalso. apply H2. auto.
    - intros H. split; [apply Hti; auto|]. intros [_ H2]. contradiction. }
  split; [exact Ha|]. split; [exact Hd|]. split; [exact Hdi|]. split; [exact Hla|]. split; [|split].
  - intros f.
    assert (HD : In f d -> In f (v_files c) /\ ~ In f (v_late c)) by (intros H; apply Hdi in H; apply ldiff_In in H; exact H).
    destruct (in_dec N.eq_dec f (v_files c)) as [Fc|Fc];
    destruct (in_dec N.eq_dec f (v_late c)) as [Lc|Lc];
    destruct (in_dec N.eq_dec f d) as [Dd|Dd];
    destruct (in_dec N.eq_dec f a) as [Aa|Aa];
    try (exfalso; tauto);
    try (exfalso; apply Fc; apply Hlc; exact Lc);
    try (exfalso; apply Aa; apply Hla; exact Lc);
    try (exfalso; apply (Hdj f); [apply ldiff_In; tauto|apply ldiff_In; tauto]).
    all: try rewrite (ind_In d f Dd); try rewrite (ind_nIn d f Dd); try rewrite (ind_In a f Aa); try rewrite (ind_nIn a f Aa).
    all: match goal with
         | |- ind ?l1 ?g + _ = ind ?l2 ?g + _ =>
             let H1 := fresh in let H2 := fresh in
             destruct (ind_cases l1 g) as [[H1 ->]|[H1 ->]]; destruct (ind_cases l2 g) as [[H2 ->]|[H2 ->]];
             try lia; exfalso; rewrite Hcn, Ht in H1; rewrite ldiff_In in H2; tauto
         end.
  - intros f Hf. apply (Hlj f Hf).
  - intros f Hf. destruct (in_dec N.eq_dec f (v_late c)) as [Lc|Lc].
    + left. apply Hlc; auto.
    + right. apply Hti. apply Ht. right. auto.
Qed.

Lemma handle_delta : forall e e' s rm o a d,
  Inv e s rm -> env_step e (EDelta o a d) = Some e' ->
  exists s1 out, handle s (EDelta o a d) = Ok (s1, out) /\ Inv e' s1 (rm ++ out).
Proof.
  intros e e' s rm o a d (Hwf & Hmaps & (U & b & A & Hch & HA & HU & Hcnt) & Hacct) Hstep.
  destruct Hmaps as (Mref & Mdel & Mrel & Mrefd & Mab & Mnx & Mlast).
  destruct Hwf as (Hcw & Hhd & Hids & Hseen & Hnds).
  cbn in Hstep. destruct (e_chain e) as [|n [|c rest]] eqn:Hce; try discriminate.
  match type of Hstep with (if ?cond then _ else _) = _ => destruct cond eqn:C; [|discriminate] end.
  inversion Hstep; subst e'; clear Hstep.
  apply andb_true_iff in C; destruct C as [C C9]. apply andb_true_iff in C; destruct C as [C C8].
  apply andb_true_iff in C; destruct C as [C C7]. apply andb_true_iff in C; destruct C as [C C6].
  apply andb_true_iff in C; destruct C as [C C5]. apply andb_true_iff in C; destruct C as [C C4].
  apply andb_true_iff in C; destruct C as [C C3]. apply andb_true_iff in C; destruct C as [C1 C2].
  apply N.eqb_eq in C1. apply negb_true_iff in C2.
  set (dl := {| d_added := a; d_deleted := d |}).
  set (late_n := ldiff (v_files n) (ldiff (v_files c) d ++ ldiff a (v_late c))) in *.
  set (n' := set_late n late_n). set (c' := set_delta c dl).
  assert (Hcd : v_delta c = None) by (unfold has_delta in C2; destruct (v_delta c); [discriminate|auto]).
  cbn in Hhd. destruct Hhd as (Hnd & Hnr & Hrestd).
  assert (Hcw0 := Hcw). cbn in Hcw. destruct Hcw as (NDn & HLn & _ & (Hlt & Hnl & Hfresh) & (NDc & HLc & HRc & Hadj2 & Hcwr)).
  rewrite Hcd in Hnl.
  assert (Hcr : v_rel c = false).
  { destruct (v_rel c) eqn:E; auto. rewrite (HRc eq_refl) in C2. discriminate. }
  assert (Htr : trans_ok c' dl n') by (apply edelta_sound; auto).
  assert (Hnidlt : v_id n <> o) by lia.
  (* the new protocol state is well formed *)
  assert (Hwf' : env_wf {| e_nid := e_nid e; e_chain := n' :: c' :: rest; e_seen := e_seen e |}).
  { unfold env_wf; cbn [e_chain e_nid e_seen]. split; [|split; [|split; [|split]]]; auto.
    - cbn [chain_wf]. unfold n', c', set_late, set_delta; cbn [v_files v_late v_rel v_id v_delta has_delta].
      split; [exact NDn|]. split; [unfold late_n; intros f Hf; apply ldiff_In in Hf; tauto|].
      split; [rewrite Hnr; discriminate|]. split.
      + split; [exact Hlt|]. split; [exact Htr|].
        intros f Hf Hn x [<-|Hx]; cbn [v_files]; [exact Hn|]. apply (Hfresh f Hf Hn x). right; auto.
      + split; [exact NDc|]. split; [exact HLc|]. split; [reflexivity|]. split; [|exact Hcwr].
        destruct rest as [|c2 rest2]; auto.
    - cbn. unfold set_late, set_delta; cbn. repeat split; auto.
    - intros x [<-|[<-|Hx]]; [apply (Hids n); left; auto|apply (Hids c); right; left; auto|apply Hids; right; right; auto].
    - intros x [<-|[<-|Hx]]; [apply (Hseen n); left; auto|apply (Hseen c); right; left; auto|apply Hseen; right; right; auto]. }
  assert (Hf_old : forall v', find_ver (n :: c :: rest) v' =
            if v_id n =? v' then Some n else if v_id c =? v' then Some c else find_ver rest v') by reflexivity.
  assert (Hf_new : forall v', find_ver (n' :: c' :: rest) v' =
            if v_id n =? v' then Some n' else if v_id c =? v' then Some c' else find_ver rest v') by reflexivity.
  assert (Hf_o : find_ver (n :: c :: rest) o = Some c).
  { rewrite Hf_old. replace (v_id n =? o) with false by (symmetry; apply N.eqb_neq; auto).
    rewrite C1, N.eqb_refl. reflexivity. }
  (* holds and Un do not see the change *)
  assert (Hholds : forall nx f, holds (n' :: c' :: rest) nx f = holds (n :: c :: rest) nx f) by reflexivity.
  assert (Hn_un : forall nx, applied nx n = false /\ applied nx n' = false).
  { intros nx. unfold applied, has_delta, n', set_late; cbn. rewrite Hnd. auto. }
  cbn [handle].
  assert (Hmh : mhas (ref s) o = (next s <=? o)).
  { unfold mhas. rewrite Mref, Hf_o, Hcr. cbn. destruct (next s <=? o); reflexivity. }
  rewrite Hmh. destruct (next s <=? o) eqn:Hle.
  - (* the version is still queued: the delta is stored *)
    apply N.leb_le in Hle.
    eexists; eexists; split; [reflexivity|]. rewrite app_nil_r.
    assert (Hc_un : applied (next s) c = false /\ applied (next s) c' = false).
    { unfold applied. split; apply andb_false_iff; right; apply N.ltb_ge; cbn; lia. }
    split; [exact Hwf'|]. split; [|split].
    + unfold maps_ok; cbn [e_chain e_nid]; sproj.
      repeat split; try (intros v'; rewrite Hf_new).
      * rewrite Mref, Hf_old. destruct (v_id n =? v'); [reflexivity|]. destruct (v_id c =? v'); reflexivity.
      * destruct (N.eq_dec o v') as [<-|Hne].
        -- rewrite mget_mset_eq. replace (v_id n =? o) with false by (symmetry; apply N.eqb_neq; auto).
           rewrite C1, N.eqb_refl. cbn [c' set_delta v_rel v_delta]. rewrite Hcr. cbn.
           replace (next s <=? o) with true by (symmetry; apply N.leb_le; auto). reflexivity.
        -- rewrite mget_mset_neq by auto. rewrite Mdel, Hf_old.
           destruct (v_id n =? v'); [unfold n', set_late; cbn; reflexivity|].
           replace (v_id c =? v') with false by (symmetry; apply N.eqb_neq; lia). reflexivity.
      * rewrite Mrel, Hf_old. destruct (v_id n =? v'); [reflexivity|].
        destruct (v_id c =? v'); [|reflexivity]. cbn [c' set_delta v_rel]. rewrite Hcr. reflexivity.
      * rewrite Mrefd, Hf_old. destruct (v_id n =? v'); [reflexivity|]. destruct (v_id c =? v'); reflexivity.
      * rewrite Mab, Hf_old. destruct (v_id n =? v'); [reflexivity|]. destruct (v_id c =? v'); reflexivity.
      * exact Mnx.
      * exact Mlast.
    + cbn [e_chain]; sproj.
      (* n and c are both unapplied, so they are in U ++ [b] *)
      destruct U as [|u1 U1].
      { exfalso. cbn in Hch. inversion Hch; subst. rewrite Forall_forall in HA.
        assert (applied (next s) c = true) by (apply HA; left; auto). destruct Hc_un; congruence. }
      cbn in Hch. injection Hch as E1 E2. subst u1.
      destruct U1 as [|u2 U2].
      * cbn in E2. injection E2 as E3 E4. subst b A.
        exists [n'], c', rest. split; [reflexivity|]. split; [exact HA|]. split.
        -- constructor; [apply Hn_un|]. constructor; [apply Hc_un|constructor].
        -- intros f. rewrite Hholds. apply Hcnt.
      * cbn in E2. injection E2 as E3 E4. subst u2.
        exists (n' :: c' :: U2), b, A. split; [first [reflexivity | cbn; rewrite E4; reflexivity | cbn; rewrite <- E4; reflexivity]|]. split; [exact HA|]. split.
        -- cbn. constructor; [apply Hn_un|]. constructor; [apply Hc_un|].
           cbn in HU. inversion HU as [|? ? _ HU2]. inversion HU2; auto.
        -- intros f. rewrite Hholds. apply Hcnt.
    + cbn [e_chain e_seen]; sproj. eapply acct_iff; [|exact Hacct].
      intros f. unfold Un. split.
      * intros (x & [<-|[<-|Hx]] & Ha & Hf).
        -- exists n'. split; [left; reflexivity|]. split; [apply Hn_un|exact Hf].
        -- exists c'. split; [right; left; reflexivity|]. split; [apply Hc_un|exact Hf].
        -- exists x. split; [right; right; exact Hx|]. split; [exact Ha|exact Hf].
      * intros (x & [<-|[<-|Hx]] & Ha & Hf).
        -- exists n. split; [left; reflexivity|]. split; [apply Hn_un|exact Hf].
        -- exists c. split; [right; left; reflexivity|]. split; [apply Hc_un|exact Hf].
        -- exists x. split; [right; right; exact Hx|]. split; [exact Ha|exact Hf].
  - (* the version was converted before its delta was known: the delta is applied now *)
    apply N.leb_gt in Hle.
    assert (Hsm : smem (referenced s) o = true).
    { rewrite Mrefd, Hf_o, Hcr. cbn. apply N.ltb_lt; auto. }
    rewrite Hsm.
    (* c is the oldest unapplied version *)
    assert (Hrest_ap : forall x, In x rest -> applied (next s) x = true).
    { intros x Hx. unfold applied. apply andb_true_iff. split.
      - rewrite Forall_forall in Hrestd. auto.
      - apply N.ltb_lt. pose proof (chain_wf_head_lt c rest (chain_wf_tail _ _ Hcw0) x Hx). lia. }
    assert (Hc_un : applied (next s) c = false).
    { unfold applied, has_delta. rewrite Hcd. reflexivity. }
    assert (Hshape : U = [n] /\ b = c /\ A = rest).
    { destruct U as [|u1 U1].
      { exfalso. cbn in Hch. inversion Hch; subst. rewrite Forall_forall in HA.
        assert (applied (next s) c = true) by (apply HA; left; auto). congruence. }
      cbn in Hch. injection Hch as E1 E2. subst u1.
      destruct U1 as [|u2 U2].
      - cbn in E2. injection E2 as E3 E4. subst. auto.
      - exfalso. cbn in E2. injection E2 as E3 E4.
        assert (Hb : In b rest) by (rewrite E4; apply In_chain_mid).
        rewrite Forall_forall in HU.
        assert (applied (next s) b = false).
        { apply HU. cbn. right. right. apply in_or_app. right; left; auto. }
        rewrite (Hrest_ap b Hb) in H. discriminate. }
    destruct Hshape as (-> & -> & ->).
    assert (Hc_ap' : applied (next s) c' = true).
    { unfold applied, c', set_delta, has_delta; cbn. apply N.ltb_lt. lia. }
    destruct (delta_core (fileRef s) rm (e_seen e) (Un (n :: c :: rest) (next s)) (Un (n' :: c' :: rest) (next s))
                (holds (n :: c :: rest) (next s)) c' dl n' Hacct Htr) as (fr' & out & Happ & Hc' & Hacct').
    + exact Hcnt.
    + intros f Hf. exists c. split; [right; left; reflexivity|]. split; [exact Hc_un|exact Hf].
    + intros f Hf. exists n'. split; [left; reflexivity|]. split; [apply Hn_un|exact Hf].
    + intros f (x & [<-|[<-|Hx]] & Ha & Hf).
      * exists n. split; [left; reflexivity|]. split; [apply Hn_un|exact Hf].
      * congruence.
      * exists x. split; [right; right; exact Hx|]. split; [exact Ha|exact Hf].
    + intros f (x & [<-|[<-|Hx]] & Ha & Hf).
      * left. exists n'. split; [left; reflexivity|]. split; [apply Hn_un|exact Hf].
      * right. exact Hf.
      * rewrite (Hrest_ap x Hx) in Ha. discriminate.
    + intros f Hfc Hfn (x & [<-|[<-|Hx]] & Ha & Hf).
      * apply Hfn. exact Hf.
      * congruence.
      * rewrite (Hrest_ap x Hx) in Ha. discriminate.
    + apply (Hseen c). right; left; auto.
    + exact HLc.
    + fold dl. rewrite Happ. eexists; eexists; split; [reflexivity|].
      split; [exact Hwf'|]. split; [|split].
      * unfold maps_ok; cbn [e_chain e_nid]; sproj.
        repeat split; try (intros v'; rewrite Hf_new).
        -- rewrite Mref, Hf_old. destruct (v_id n =? v'); [reflexivity|]. destruct (v_id c =? v'); reflexivity.
        -- rewrite Mdel, Hf_old. destruct (v_id n =? v'); [reflexivity|].
           destruct (v_id c =? v') eqn:E; [|reflexivity]. apply N.eqb_eq in E. subst v'.
           cbn [c' set_delta v_rel v_delta]. rewrite Hcr. cbn.
           replace (next s <=? v_id c) with false by (symmetry; apply N.leb_gt; lia). reflexivity.
        -- rewrite Mrel, Hf_old. destruct (v_id n =? v'); [reflexivity|].
           destruct (v_id c =? v'); [|reflexivity]. cbn [c' set_delta v_rel]. rewrite Hcr. reflexivity.
        -- rewrite Mrefd, Hf_old. destruct (v_id n =? v'); [reflexivity|]. destruct (v_id c =? v'); reflexivity.
        -- rewrite Mab, Hf_old. destruct (v_id n =? v'); [reflexivity|]. destruct (v_id c =? v'); reflexivity.
        -- exact Mnx.
        -- exact Mlast.
      * cbn [e_chain]; sproj. exists [], n', (c' :: rest).
        split; [reflexivity|]. split; [constructor; auto; rewrite Forall_forall; exact Hrest_ap|]. split.
        -- constructor; [apply Hn_un|constructor].
        -- intros f. rewrite Hc', Hholds. reflexivity.
      * cbn [e_chain e_seen]; sproj. exact Hacct'.
Qed.

(* ---------- the first reference (newSession) ---------- *)

Lemma first_ref_inv : forall e' v F,
  env_step env_init (ERef v F) = Some e' ->
  exists s1, handle init (ERef v F) = Ok (s1, []) /\ Inv e' s1 [].
Proof.
  intros e' v F Hstep. cbn in Hstep.
  destruct ((v =? 0) && nodupb F && true) eqn:C; [|discriminate].
  destruct F as [|f0 F]; [|discriminate]. inversion Hstep; subst e'; clear Hstep.
  apply andb_true_iff in C. destruct C as [C _]. apply andb_true_iff in C. destruct C as [C _].
  apply N.eqb_eq in C. subst v.
  eexists. split; [reflexivity|].
  set (v0 := {| v_id := 0; v_files := []; v_late := []; v_delta := None; v_rel := false |}).
  split; [|split; [|split]].
  - unfold env_wf; cbn [e_chain e_nid e_seen]. split; [|split; [|split; [|split]]].
    + cbn. split; [constructor|]. split; [intros x []|]. split; [discriminate|]. split; auto.
    + cbn. auto.
    + intros c [<-|[]]. cbn. lia.
    + intros c [<-|[]]. cbn. intros x [].
    + constructor.
  - unfold maps_ok; cbn [e_chain e_nid]; sproj. cbn [find_ver v_id].
    repeat split; try (intros v; destruct v as [|pv]; cbn; try reflexivity).
    + symmetry. apply N.ltb_ge. lia.
    + cbn. lia.
  - exists [], v0, []. cbn [e_chain]; sproj. split; [reflexivity|]. split; [constructor|]. split.
    + constructor; [reflexivity|constructor].
    + intros f. reflexivity.
  - cbn [e_chain e_seen]; sproj. constructor; [intros f []|intros f []|constructor].
Qed.

(* ---------- one full step, arbitrary event lists ---------- *)

Lemma handle_inv : forall e e' s rm ev,
  Inv e s rm -> env_step e ev = Some e' ->
  exists s1 out, handle s ev = Ok (s1, out) /\ Inv e' s1 (rm ++ out).
Proof.
  intros e e' s rm ev HI Hstep. destruct ev.
  - eapply handle_ref; eauto.
  - eapply handle_rel; eauto.
  - eapply handle_delta; eauto.
  - eapply handle_abandon; eauto.
  - cbn in Hstep. inversion Hstep; subst. apply handle_tick; auto.
Qed.

Lemma step_inv : forall p e e' s rm i,
  Inv e s rm -> env_step e (fst i) = Some e' ->
  exists s' out, step p s i = Ok (s', out) /\ Inv e' s' (rm ++ out) /\ waiting s'.
Proof.
  intros p e e' s rm i HI Hstep. unfold step.
  destruct (handle_inv e e' s rm (fst i) HI Hstep) as (s1 & out1 & Hh & HI1). rewrite Hh.
  destruct (processTasks_inv p (snd i) e' s1 (rm ++ out1) HI1) as (s2 & out2 & Hp & HI2 & Hw). rewrite Hp.
  exists s2, (out1 ++ out2). rewrite app_assoc. auto.
Qed.

(* the invariant of whole runs: nothing happened yet, or Inv and the loop is waiting *)
Definition G (e : envst) (s : state) (rm : list N) : Prop :=
  Inv0 e s rm \/ (Inv e s rm /\ waiting s).

Lemma step_G : forall p e e' s rm i,
  G e s rm -> env_step e (fst i) = Some e' ->
  exists s' out, step p s i = Ok (s', out) /\ G e' s' (rm ++ out).
Proof.
  intros p e e' s rm i [(-> & -> & ->)|[HI _]] Hstep.
  - destruct i as [ev exp]. cbn [fst] in Hstep. destruct ev as [v F|v F|v a d|v|]; try (cbn in Hstep; discriminate).
    + destruct (first_ref_inv e' v F Hstep) as (s1 & Hh & HI1).
      unfold step. cbn [fst snd]. rewrite Hh.
      destruct (processTasks_inv p exp e' s1 [] HI1) as (s2 & out2 & Hp & HI2 & Hw). rewrite Hp.
      exists s2, ([] ++ out2). split; auto. right. auto.
    + cbn in Hstep. rewrite andb_false_r in Hstep. discriminate.
    + cbn in Hstep. inversion Hstep; subst. exists init, []. split; [reflexivity|]. left. repeat split; auto.
  - destruct (step_inv p e e' s rm i HI Hstep) as (s' & out & Hs & HI' & Hw).
    exists s', out. split; auto. right; auto.
Qed.

Lemma run_from_G : forall p ins e e' s rm,
  G e s rm -> env_run_from e ins = Some e' ->
  exists s' out, run_from p s ins = Ok (s', out) /\ G e' s' (rm ++ out).
Proof.
  induction ins as [|i ins IH]; intros e e' s rm HG Hrun; cbn in *.
  - inversion Hrun; subst. exists s, []. rewrite app_nil_r. auto.
  - destruct (env_step e (fst i)) as [e1|] eqn:Hst; [|discriminate].
    destruct (step_G p e e1 s rm i HG Hst) as (s1 & out1 & Hs & HG1). rewrite Hs.
    destruct (IH e1 e' s1 (rm ++ out1) HG1 Hrun) as (s2 & out2 & Hr & HG2). rewrite Hr.
    exists s2, (out1 ++ out2). rewrite app_assoc. auto.
Qed.

Lemma run_G : forall p ins e,
  env_run ins = Some e -> exists s rm, run p ins = Ok (s, rm) /\ G e s rm.
Proof.
  intros p ins e H. unfold run.
  destruct (run_from_G p ins env_init e init [] (or_introl (conj eq_refl (conj eq_refl eq_refl))) H) as (s & out & Hr & HG).
  exists s, out. auto.
Qed.

Lemma env_run_from_app : forall a b e,
  env_run_from e (a ++ b) = match env_run_from e a with Some e1 => env_run_from e1 b | None => None end.
Proof.
  induction a as [|i a IH]; intros b e; cbn; auto. destruct (env_step e (fst i)); auto.
Qed.

Lemma env_ok_prefix : forall pre suf, env_ok (pre ++ suf) = true -> env_ok pre = true.
Proof.
  intros pre suf H. unfold env_ok, env_run in *. rewrite env_run_from_app in H.
  destruct (env_run_from env_init pre); auto.
Qed.

(* ---------- the theorems ---------- *)

Lemma holds_ge : forall ch c nx f,
  In c ch -> v_rel c = false -> v_id c < nx -> In f (v_files c) -> 1 <= holds ch nx f.
Proof.
  induction ch as [|x ch IH]; intros c nx f Hin Hr Hlt Hf; [contradiction|].
  cbn [holds]. destruct Hin as [<-|Hin].
  - unfold hold1. rewrite Hr. replace (v_id x <? nx) with true by (symmetry; apply N.ltb_lt; auto).
    cbn. rewrite (ind_In _ _ Hf). lia.
  - specialize (IH c nx f Hin Hr Hlt Hf). lia.
Qed.

(* no panic, no exhausted fuel, on every prefix *)
Theorem refloop_no_negative : forall p ins, env_ok ins = true ->
  forall pre suf, ins = pre ++ suf -> exists s rm, run p pre = Ok (s, rm).
Proof.
  intros p ins Hok pre suf ->. apply env_ok_prefix in Hok. unfold env_ok in Hok.
  destruct (env_run pre) as [e|] eqn:He; [|discriminate].
  destruct (run_G p pre e He) as (s & rm & Hr & _). eauto.
Qed.

(* a table of a version that is referenced and not yet released has not been removed *)
Theorem refloop_safe : forall p ins, env_ok ins = true ->
  forall pre suf, ins = pre ++ suf ->
  exists e s rm, env_run pre = Some e /\ run p pre = Ok (s, rm) /\
    forall c f, In c (live e) -> In f (v_files c) -> ~ In f rm.
Proof.
  intros p ins Hok pre suf ->. apply env_ok_prefix in Hok. unfold env_ok in Hok.
  destruct (env_run pre) as [e|] eqn:He; [|discriminate].
  destruct (run_G p pre e He) as (s & rm & Hr & HG).
  exists e, s, rm. split; [reflexivity|]. split; [exact Hr|].
  intros c f Hc Hf Hrm. unfold live in Hc. apply filter_In in Hc. destruct Hc as [Hc Hnr].
  apply negb_true_iff in Hnr.
  destruct HG as [(-> & _ & ->)|[(Hwf & Hmaps & (U & b & A & Hch & HA & HU & Hcnt) & Hacct) _]]; [contradiction|].
  destruct (ac_rm _ _ _ _ Hacct f Hrm) as (Hz & _ & Hun).
  destruct (applied (next s) c) eqn:Ha.
  - unfold applied in Ha. apply andb_true_iff in Ha. destruct Ha as [_ Ha]. apply N.ltb_lt in Ha.
    pose proof (holds_ge (e_chain e) c (next s) f Hc Hnr Ha Hf). rewrite Hcnt in Hz. lia.
  - apply Hun. exists c. auto.
Qed.

Lemma mget_all_none : forall {V} (m : list (N * V)), (forall k, mget m k = None) -> m = [].
Proof.
  intros V m H. destruct m as [|[k v] m]; auto. specialize (H k). cbn in H. rewrite N.eqb_refl in H. discriminate.
Qed.

(* once every version but the current one is released (and no setVersion is in flight): the queue is
   drained, the counters hold the current tables only, and the removed tables are exactly the tables
   ever seen minus the current ones, each removed once *)
Theorem refloop_complete : forall p ins e, env_run ins = Some e -> quiescent e = true ->
  exists s rm, run p ins = Ok (s, rm) /\
    NoDup rm /\
    (forall f, In f rm <-> In f (e_seen e) /\ ~ In f (cur_files e)) /\
    Permutation rm (ldiff (e_seen e) (cur_files e)) /\
    released s = [] /\ deltas s = [] /\
    (forall f, 1 <= cnt (fileRef s) f -> In f (cur_files e)).
Proof.
  intros p ins e He Hq.
  destruct (run_G p ins e He) as (s & rm & Hr & HG). exists s, rm. split; [exact Hr|].
  destruct HG as [(-> & -> & ->)|[(Hwf & Hmaps & (U & b & A & Hch & HA & HU & Hcnt) & Hacct) [Hw1 Hw2]]].
  { cbn. split; [constructor|]. split; [intros f; cbn; tauto|]. split; [constructor|].
    split; [reflexivity|]. split; [reflexivity|]. intros f H. unfold cnt in H. cbn in H. lia. }
  destruct Hmaps as (Mref & Mdel & Mrel & Mrefd & Mab & Mnx & Mlast).
  destruct Hwf as (Hcw & Hhd & Hids & Hseen & Hnds).
  unfold quiescent in Hq. apply andb_true_iff in Hq. destruct Hq as [Hset Hallrel].
  destruct (e_chain e) as [|cur older] eqn:Hce; [destruct U; discriminate|].
  rewrite forallb_forall in Hallrel.
  destruct (head_nodelta _ _ Hhd) as [Hcd Hcr].
  (* every older version is applied *)
  assert (Hold : forall x, In x older -> applied (next s) x = true).
  { intros x Hx. unfold applied.
    assert (Hxr : v_rel x = true) by (apply Hallrel; auto).
    assert (Hxd : has_delta x = true) by (apply (chain_wf_elem _ x Hcw); auto; right; auto).
    rewrite Hxd. cbn. apply N.ltb_lt.
    assert (Hxc : v_id x < v_id cur) by (apply (chain_wf_head_lt cur older Hcw x Hx)).
    destruct (find_ver (cur :: older) (next s)) as [y|] eqn:Hf.
    - rewrite Mrel, Hf, N.leb_refl in Hw2. destruct (v_rel y) eqn:Hyr; [discriminate|].
      destruct (find_ver_In _ _ _ Hf) as [[<-|Hy] Hyid]; [lia|].
      rewrite (Hallrel y Hy) in Hyr. discriminate.
    - rewrite Mab, Hf, N.leb_refl in Hw1. cbn in Hw1. apply N.ltb_ge in Hw1.
      assert (v_id x < e_nid e) by (apply Hids; right; auto). lia. }
  assert (Hcur_un : applied (next s) cur = false).
  { unfold applied, has_delta. rewrite Hcd. reflexivity. }
  assert (HUn : forall f, Un (cur :: older) (next s) f <-> In f (v_files cur)).
  { intros f. split.
    - intros (x & [<-|Hx] & Ha & Hf); auto. rewrite (Hold x Hx) in Ha. discriminate.
    - intros Hf. exists cur. repeat split; auto. left; auto. }
  (* the oldest unapplied version is the current one *)
  assert (Hb : b = cur).
  { destruct U as [|u U1]; cbn in Hch; injection Hch as E1 E2; auto.
    exfalso. assert (Hbo : In b older) by (rewrite E2; apply In_chain_mid).
    rewrite Forall_forall in HU. assert (applied (next s) b = false) by (apply HU; right; apply in_or_app; right; left; auto).
    rewrite (Hold b Hbo) in H. discriminate. }
  subst b.
  assert (Hholds_old : forall f, holds older (next s) f = 0).
  { intros f. clear - Hallrel. induction older as [|x older IH]; cbn; auto.
    unfold hold1. rewrite (Hallrel x) by (left; auto). cbn. rewrite IH; auto. intros y Hy. apply Hallrel. right; auto. }
  assert (Hcnt_in : forall f, 1 <= cnt (fileRef s) f -> In f (v_files cur)).
  { intros f H. rewrite Hcnt in H. cbn [holds] in H. rewrite Hholds_old in H.
    destruct (ind_cases (counted cur) f) as [[Hi _]|[_ Hi]]; [apply ldiff_In in Hi; tauto|].
    unfold hold1 in H. destruct (negb (v_rel cur) && (v_id cur <? next s)); [|lia].
    destruct (ind_cases (v_files cur) f) as [[Hi2 _]|[_ Hi2]]; auto. lia. }
  assert (Hiff : forall f, In f rm <-> In f (e_seen e) /\ ~ In f (cur_files e)).
  { intros f. unfold cur_files. rewrite Hce. split.
    - intros Hf. destruct (ac_rm _ _ _ _ Hacct f Hf) as (_ & Hs & Hn). split; auto. rewrite <- HUn. auto.
    - intros [Hs Hn]. destruct (ac_seen _ _ _ _ Hacct f Hs) as [?|[Hp|Hu]]; auto.
      + exfalso. apply Hn, Hcnt_in; auto.
      + exfalso. apply Hn, HUn; auto. }
  split; [apply (ac_nodup _ _ _ _ Hacct)|]. split; [exact Hiff|]. split.
  - apply NoDup_Permutation; [apply (ac_nodup _ _ _ _ Hacct)|apply ldiff_NoDup; auto|].
    intros f. rewrite Hiff, ldiff_In. tauto.
  - assert (Hnx : forall x, In x (cur :: older) -> v_rel x = true -> v_id x < next s).
    { intros x [<-|Hx] Hxr; [congruence|]. specialize (Hold x Hx). unfold applied in Hold.
      apply andb_true_iff in Hold. destruct Hold as [_ Hl]. apply N.ltb_lt in Hl. auto. }
    split; [|split].
    + apply mget_all_none. intros v. rewrite Mrel. destruct (find_ver (cur :: older) v) as [x|] eqn:Hf; auto.
      destruct (v_rel x) eqn:Hxr; auto. destruct (find_ver_In _ _ _ Hf) as [Hx <-].
      replace (next s <=? v_id x) with false by (symmetry; apply N.leb_gt; apply Hnx; auto). reflexivity.
    + apply mget_all_none. intros v. rewrite Mdel. destruct (find_ver (cur :: older) v) as [x|] eqn:Hf; auto.
      destruct (find_ver_In _ _ _ Hf) as [[<-|Hx] <-].
      * rewrite Hcd. destruct (negb (v_rel cur) && (next s <=? v_id cur)); reflexivity.
      * rewrite (Hallrel x Hx). reflexivity.
    + unfold cur_files. rewrite Hce. exact Hcnt_in.
Qed.
