(* Codec/SessionRecordSpec.v — the vocabulary of the theorems about Codec/SessionRecord.v (definitions only):
   a manifest record seen as the list of its tagged fields ("items"), the ranges in which the codec is exact,
   where a cut falls in an encoding, the plain meaning of a sequence of edits on a table set, and the
   abstraction of a decoded record to an edit of the record-level persistence model Store/Crash.v. *)
From GL Require Export Codec.SessionRecord.
From GL Require Import Store.Crash.
Open Scope N_scope.

(* the tag numbers are pairwise different one-byte varints, and valid bit positions of the int hasRec *)
Definition tags (p : rparams) : list N :=
  [tComparer p; tJournalNum p; tNextFileNum p; tSeqNum p; tCompPtr p; tDelTable p; tAddTable p; tPrevJournalNum p].
Definition rparams_ok (p : rparams) : Prop := NoDup (tags p) /\ Forall (fun t => t < 63) (tags p).

(* ranges: what the Go types hold.  int / int64 values that are written: 0 <= z < 2^63 (putVarint panics below
   0; a level is an index); uint64: < 2^64; a length is an int *)
Definition z_in63 (z : Z) : Prop := (0 <= z < Z.of_N sr_two63)%Z.
Definition len_ok (b : bytes) : Prop := lenN b < sr_two64.

Inductive item :=
| IComparer (name : bytes) | IJournal (n : Z) | INextFile (n : Z) | ISeq (n : N) | IPrevJournal (n : Z)
| ICompPtr (c : cprec) | IDel (d : dtrec) | IAdd (t : atrec).

Definition item_ok (it : item) : Prop :=
  match it with
  | IComparer name => len_ok name
  | IJournal n | INextFile n | IPrevJournal n => z_in63 n
  | ISeq n => n < sr_two64
  | ICompPtr c => z_in63 (cp_level c) /\ len_ok (cp_ikey c)
  | IDel d => z_in63 (dt_level d) /\ z_in63 (dt_num d)
  | IAdd t => z_in63 (at_level t) /\ z_in63 (at_num t) /\ z_in63 (at_size t) /\ len_ok (at_imin t) /\ len_ok (at_imax t)
  end.

Section Spec.
  Variable p : rparams.

  Definition tag_of (it : item) : N :=
    match it with
    | IComparer _ => tComparer p | IJournal _ => tJournalNum p | INextFile _ => tNextFileNum p
    | ISeq _ => tSeqNum p | IPrevJournal _ => tPrevJournalNum p
    | ICompPtr _ => tCompPtr p | IDel _ => tDelTable p | IAdd _ => tAddTable p
    end.

  (* what follows the tag *)
  Definition payload (it : item) : bytes :=
    match it with
    | IComparer name => put_bytes name
    | IJournal n | INextFile n | IPrevJournal n => put_uvarint (Z.to_N n)
    | ISeq n => put_uvarint n
    | ICompPtr c => put_level (cp_level c) ++ put_bytes (cp_ikey c)
    | IDel d => put_level (dt_level d) ++ put_uvarint (Z.to_N (dt_num d))
    | IAdd t => put_level (at_level t) ++ put_uvarint (Z.to_N (at_num t)) ++ put_uvarint (Z.to_N (at_size t)) ++
                put_bytes (at_imin t) ++ put_bytes (at_imax t)
    end.
  Definition enc_item (it : item) : bytes := put_uvarint (tag_of it) ++ payload it.
  Definition enc_items (its : list item) : bytes := flat_map enc_item its.

  (* the setter decode calls for the field *)
  Definition apply_item (r : srec) (it : item) : srec :=
    match it with
    | IComparer name => set_comparer p r name
    | IJournal n => set_journal p r n
    | INextFile n => set_nextfile p r n
    | ISeq n => set_seq p r n
    | IPrevJournal n => set_prevjournal p r n
    | ICompPtr c => add_comp_ptr p r c
    | IDel d => del_table p r d
    | IAdd t => add_table p r t
    end.
  Definition apply_items (r : srec) (its : list item) : srec := fold_left apply_item its r.

  (* the fields encode writes for a record, in its order; the previous journal number is not among them *)
  Definition items_of (r : srec) : list item :=
    (if has r (tComparer p) then [IComparer (sr_comparer r)] else []) ++
    (if has r (tJournalNum p) then [IJournal (sr_journal r)] else []) ++
    (if has r (tNextFileNum p) then [INextFile (sr_nextfile r)] else []) ++
    (if has r (tSeqNum p) then [ISeq (sr_seq r)] else []) ++
    map ICompPtr (sr_cps r) ++ map IDel (sr_dels r) ++ map IAdd (sr_adds r).

  Definition rec_ok (r : srec) : Prop := Forall item_ok (items_of r).

  (* a record as the setters build it from field values: scalar fields in any combination, the three lists *)
  Record rfields := mkrf {
    f_comparer : option bytes; f_journal : option Z; f_nextfile : option Z; f_seq : option N;
    f_cps : list cprec; f_dels : list dtrec; f_adds : list atrec }.
  Definition oitem {A} (f : A -> item) (o : option A) : list item := match o with Some a => [f a] | None => [] end.
  Definition items_of_fields (f : rfields) : list item :=
    oitem IComparer (f_comparer f) ++ oitem IJournal (f_journal f) ++ oitem INextFile (f_nextfile f) ++
    oitem ISeq (f_seq f) ++ map ICompPtr (f_cps f) ++ map IDel (f_dels f) ++ map IAdd (f_adds f).
  Definition build (f : rfields) : srec := apply_items sr_empty (items_of_fields f).
  Definition fields_ok (f : rfields) : Prop := Forall item_ok (items_of_fields f).

  (* ---- a cut after n bytes of an encoding: the items that lie wholly before it, and whether the cut falls
     between two items (or behind the last one) ---- *)
  Fixpoint cut_items (its : list item) (n : nat) : list item * bool :=
    match its with
    | [] => ([], true)
    | it :: more =>
        let l := length (enc_item it) in
        if (l <=? n)%nat then let (a, c) := cut_items more (n - l) in (it :: a, c)
        else ([], Nat.eqb n 0)
    end.

  (* ---- the plain meaning of edits on a set of live tables: a deletion removes (level, number), an addition
     replaces (level, number); within one record deletions come first ---- *)
  Definition same_file (level num : Z) (t : atrec) : bool := ((at_level t =? level) && (at_num t =? num))%Z.
  Definition live_del (live : list atrec) (d : dtrec) : list atrec :=
    filter (fun t => negb (same_file (dt_level d) (dt_num d) t)) live.
  Definition live_add (live : list atrec) (t : atrec) : list atrec :=
    t :: filter (fun x => negb (same_file (at_level t) (at_num t) x)) live.
  Definition live_apply (live : list atrec) (r : srec) : list atrec :=
    fold_left live_add (sr_adds r) (fold_left live_del (sr_dels r) live).
  Definition live_at (level : Z) (live : list atrec) : list atrec := filter (fun t => (at_level t =? level)%Z) live.

  (* the numbers a sequence of edits leaves: the last value set, if any *)
  Fixpoint last_some_from {A} (acc : option A) (l : list (option A)) : option A :=
    match l with
    | [] => acc
    | o :: rest => last_some_from (match o with Some a => Some a | None => acc end) rest
    end.
  Definition last_some {A} (l : list (option A)) : option A := last_some_from None l.
  Definition scalar_of {A} (t : N) (f : srec -> A) (rs : list srec) : option A :=
    last_some (map (fun r => if has r t then Some (f r) else None) rs).
  (* the live tables and the compaction pointer of a level after a sequence of records *)
  Definition live_of (rs : list srec) : list atrec := fold_left live_apply rs [].
  Definition cp_lookup (all : list cprec) (level : Z) : option bytes :=
    last_some (map (fun c => if (cp_level c =? level)%Z then Some (cp_ikey c) else None) all).

  (* what replaying the records rs (each one as decoded on its own) must give: the consistency checks of
     session.recover in their order, then the numbers last set and the table set *)
  Inductive replay_spec :=
  | SpecFail (f : rfail)
  | SpecOk (journal prevjournal nextfile : Z) (seq : N) (live : list atrec) (cps : list cprec).
  Definition replay_result (cmp_name : bytes) (rs : list srec) : replay_spec :=
    match scalar_of (tComparer p) sr_comparer rs with
    | None => SpecFail RFNoComparer
    | Some c =>
        if negb (beq c cmp_name) then SpecFail RFComparerMismatch else
        match scalar_of (tNextFileNum p) sr_nextfile rs with
        | None => SpecFail RFNoNextFile
        | Some nf =>
            match scalar_of (tJournalNum p) sr_journal rs with
            | None => SpecFail RFNoJournal
            | Some j =>
                match scalar_of (tSeqNum p) sr_seq rs with
                | None => SpecFail RFNoSeq
                | Some q =>
                    SpecOk j (match scalar_of (tPrevJournalNum p) sr_prevjournal rs with Some x => x | None => 0%Z end)
                           nf q (live_of rs) (flat_map sr_cps rs)
                end
            end
        end
    end.
  (* the model's result agrees with the specification: same failure; or the same numbers, for every level the
     tables of the live set at that level, for every level the compaction pointer set last *)
  Definition agrees (m : rres) (s : replay_spec) : Prop :=
    match s, m with
    | SpecFail f, RecFail f' => f = f'
    | SpecOk j pj nf q live cps, RecOk st =>
        ss_journal st = j /\ ss_prevjournal st = pj /\ ss_nextfile st = nf /\ ss_seq st = q /\
        (forall l : nat, nth l (ss_levels st) [] = live_at (Z.of_nat l) live) /\
        (forall l : nat, nth l (ss_cptrs st) None = cp_lookup cps (Z.of_nat l))
    | _, _ => False
    end.

  (* one record decoded on its own *)
  Definition decode_fresh (b : bytes) : option srec := match decode p sr_empty b with DOk r => Some r | _ => None end.

  (* ---- abstraction to Store/Crash.v: the edit a record denotes.  newb t = the batches a table newly makes
     durable (ghost: a flushed table its buffer's batches, a transaction's table its batch, a compaction's
     output nothing) ---- *)
  Definition medit_of (newb : atrec -> list batch) (r : srec) : medit :=
    {| m_jnum := if has r (tJournalNum p) then Some (Z.to_N (sr_journal r)) else None;
       m_seq := if has r (tSeqNum p) then Some (sr_seq r) else None;
       m_tab := flat_map newb (sr_adds r) |}.

  (* the canonical record for an edit of the L2 model: its numbers, and one level-0 table per batch, named by the
     batch (file number = first sequence number, size = record count) *)
  Definition table_of_batch (b : batch) : atrec := mkat 0%Z (Z.of_N (b_seq b)) (Z.of_N (b_n b)) [] [].
  Definition batch_of_table (t : atrec) : list batch := [{| b_seq := Z.to_N (at_num t); b_n := Z.to_N (at_size t) |}].
  Definition fields_of_medit (e : medit) : rfields :=
    mkrf None (option_map Z.of_N (m_jnum e)) None (m_seq e) [] [] (map table_of_batch (m_tab e)).
  Definition enc_medit (e : medit) : bytes :=
    match encode p (build (fields_of_medit e)) with Some b => b | None => [] end.
  Definition dec_medit (b : bytes) : option medit := option_map (medit_of batch_of_table) (decode_fresh b).
  Definition medit_ok (e : medit) : Prop :=
    (forall j, m_jnum e = Some j -> j < sr_two63) /\ (forall q, m_seq e = Some q -> q < sr_two64) /\
    Forall (fun b => b_seq b < sr_two63 /\ b_n b < sr_two63) (m_tab e).
End Spec.
