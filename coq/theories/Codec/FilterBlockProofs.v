(* Codec/FilterBlockProofs.v — proofs about Codec/FilterBlock.v: every key added while the data
   block at offset o was open is reported present by the reader's filterBlock.contains at offset o. *)
From GL Require Import Base.Bytes Base.BytesProofs Base.NIdx Base.NIdxProofs Codec.Bloom Codec.BloomProofs
  Codec.FilterBlock.
From Coq Require Import Lia ZArith Arith PeanoNat.

Local Arguments N.mul : simpl never.
Local Arguments N.add : simpl never.
Local Arguments N.sub : simpl never.
Local Arguments N.div : simpl never.
Local Arguments N.modulo : simpl never.
Local Arguments N.pow : simpl never.
Local Arguments N.shiftr : simpl never.

(* ---- the policies ---- *)

Lemma bloom_policy_ok p bpk : bparams_ok p -> policy_ok (bloom_policy p bpk).
Proof.
  intros ok ks f k x Hg Ha Hin. cbn in *. injection Ha as <-. split.
  - eapply bloom_no_false_negative; eauto.
  - unfold bloom_filter_of in Hg. eapply bloom_generated_nonempty; eauto.
Qed.

Lemma ifilter_ok P : policy_ok P -> policy_ok (ifilter P).
Proof.
  intros ok ks f k x Hg Ha Hin. cbn in *.
  destruct (ukey_of k) as [u|]; [|discriminate]. eapply ok; eauto.
Qed.

(* ---- the offsets the writer records: running lengths of the emitted filters ---- *)

Fixpoint offs_from (acc : N) (fs : list bytes) : list N :=
  match fs with
  | [] => []
  | f :: r => w32 acc :: offs_from (acc + lenN f) r
  end.

Lemma offs_from_length fs : forall acc, length (offs_from acc fs) = length fs.
Proof. induction fs as [|f r IH]; intros acc; cbn [offs_from length]; [reflexivity|]. now rewrite IH. Qed.

Lemma lenN_concat_cons (f : bytes) r : lenN (concat (f :: r)) = lenN f + lenN (concat r).
Proof. cbn [concat]. apply lenN_app. Qed.

Lemma offs_from_snoc fs : forall acc f,
  offs_from acc (fs ++ [f]) = offs_from acc fs ++ [w32 (acc + lenN (concat fs))].
Proof.
  induction fs as [|g r IH]; intros acc f; cbn [app offs_from].
  - cbn [concat]. rewrite lenN_nil, N.add_0_r. reflexivity.
  - rewrite IH, lenN_concat_cons, N.add_assoc. reflexivity.
Qed.

(* entry j (0 <= j <= length fs) of the offset array that finish writes *)
Lemma all_offs_nth fs : forall acc j, (j <= length fs)%nat ->
  nth_error (offs_from acc fs ++ [w32 (acc + lenN (concat fs))]) j
  = Some (w32 (acc + lenN (concat (firstn j fs)))).
Proof.
  induction fs as [|f r IH]; intros acc j Hj.
  - cbn [length] in Hj. assert (j = O) by lia. subst j. reflexivity.
  - destruct j as [|j].
    + cbn [firstn concat]. rewrite lenN_nil, N.add_0_r. reflexivity.
    + cbn [offs_from app nth_error firstn]. cbn [length] in Hj.
      rewrite !lenN_concat_cons, !N.add_assoc. apply IH. lia.
Qed.

Lemma all_offs_nth0 fs j : (j <= length fs)%nat ->
  nth_error (offs_from 0 fs ++ [w32 (lenN (concat fs))]) j = Some (w32 (lenN (concat (firstn j fs)))).
Proof. intros H. pose proof (all_offs_nth fs 0 j H) as H0. rewrite !N.add_0_l in H0. exact H0. Qed.

Lemma lenN_concat_firstn_le (fs : list bytes) j : lenN (concat (firstn j fs)) <= lenN (concat fs).
Proof.
  rewrite <- (firstn_skipn j fs) at 2. rewrite concat_app, lenN_app. lia.
Qed.

(* ---- reading the offset array back ---- *)

Lemma lenN_flat_le32 (l : list N) : lenN (flat_map le32 l) = 4 * lenN l.
Proof.
  induction l as [|x l IH]; [reflexivity|].
  cbn [flat_map]. rewrite lenN_app, IH, lenN_cons.
  replace (lenN (le32 x)) with 4 by (unfold lenN, le32; now rewrite le_encode_length). lia.
Qed.

Lemma u32_at_array (a c : bytes) (l : list N) j x :
  nth_error l j = Some x -> x < 2 ^ 32 ->
  u32_at (a ++ flat_map le32 l ++ c) (lenN a + 4 * N.of_nat j) = x.
Proof.
  intros Hn Hx. apply nth_error_split in Hn as (l1 & l2 & -> & <-).
  rewrite flat_map_app. cbn [flat_map]. rewrite <- !app_assoc.
  replace (a ++ flat_map le32 l1 ++ le32 x ++ flat_map le32 l2 ++ c)
    with ((a ++ flat_map le32 l1) ++ le32 x ++ flat_map le32 l2 ++ c) by now rewrite <- app_assoc.
  replace (lenN a + 4 * N.of_nat (length l1)) with (lenN (a ++ flat_map le32 l1))
    by (rewrite lenN_app, lenN_flat_le32; reflexivity).
  now apply u32_at_le32.
Qed.

(* ---- the writer's invariant ---- *)

Section Writer.
  Variable P : policy.
  Hypothesis Pok : policy_ok P.
  Variable lg : N.

  (* the tagged key (o, k) is covered by the emitted filters fs: slot o / 2^lg exists, is not empty and reports k *)
  Definition covered (fs : list bytes) (tk : N * bytes) : Prop :=
    exists f, nth_error fs (N.to_nat (fst tk / 2 ^ lg)) = Some f /\ p_has P f (snd tk) = Some true /\ f <> [].

  Lemma covered_app fs fs2 tk : covered fs tk -> covered (fs ++ fs2) tk.
  Proof.
    intros (f & Hn & H). exists f. split; [|exact H].
    rewrite nth_error_app1; [exact Hn|]. apply nth_error_Some. congruence.
  Qed.

  (* fs: the filters emitted so far; D: tagged keys already in a filter; Pn: tagged keys still pending *)
  Definition core (st : fwstate) (fs : list bytes) (D Pn : list (N * bytes)) : Prop :=
    fw_lg st = lg /\
    fw_buf st = concat fs /\
    fw_offsets st = offs_from 0 fs /\
    fw_nkeys st = lenN (fw_pending st) /\
    Forall2 (fun tk x => p_add P (snd tk) = Some x) Pn (fw_pending st) /\
    (forall tk, In tk Pn -> fst tk / 2 ^ lg = lenN fs) /\
    (forall tk, In tk D -> covered fs tk).

  Lemma core_generate st fs D Pn st' :
    core st fs D Pn -> fw_generate P st = Some st' ->
    exists f, core st' (fs ++ [f]) (D ++ Pn) [].
  Proof.
    intros (Hlg & Hbuf & Hoff & Hnk & Hpn & Htag & Hd) Hg. unfold fw_generate in Hg.
    destruct (N.ltb_spec 0 (fw_nkeys st)) as [Hpos|Hz].
    - destruct (p_gen P (fw_pending st)) as [f|] eqn:Hgen; [|discriminate].
      injection Hg as <-. exists f. unfold core; cbn [fw_lg fw_buf fw_offsets fw_nkeys fw_pending].
      repeat split.
      + exact Hlg.
      + rewrite concat_app, Hbuf. cbn [concat]. now rewrite app_nil_r.
      + rewrite offs_from_snoc, Hoff, Hbuf, N.add_0_l. reflexivity.
      + constructor.
      + intros tk [].
      + intros tk Hin. apply in_app_or in Hin as [Hin|Hin]; [apply covered_app; auto|].
        assert (Hx : exists x, p_add P (snd tk) = Some x /\ In x (fw_pending st)).
        { clear -Hpn Hin. induction Hpn as [|a b la lb Hab _ IH]; [destruct Hin|].
          destruct Hin as [->|Hin]; [exists b; split; [exact Hab|now left]|].
          destruct (IH Hin) as (x & Hx & Hi). exists x. split; [exact Hx|now right]. }
        destruct Hx as (x & Hx & Hi). destruct (Pok _ _ _ _ Hgen Hx Hi) as [Hh Hne].
        exists f. split; [|split; assumption].
        rewrite (Htag _ Hin). unfold lenN. rewrite Nat2N.id.
        rewrite nth_error_app2 by lia. now rewrite Nat.sub_diag.
    - injection Hg as <-. exists []. unfold core; cbn [fw_lg fw_buf fw_offsets fw_nkeys fw_pending].
      assert (Hpe : fw_pending st = []) by (apply lenN_0; lia).
      assert (Hpne : Pn = []) by (rewrite Hpe in Hpn; now inversion Hpn).
      subst Pn. rewrite app_nil_r.
      repeat split.
      + exact Hlg.
      + rewrite concat_app, Hbuf. cbn [concat]. now rewrite !app_nil_r.
      + rewrite offs_from_snoc, Hoff, Hbuf, N.add_0_l. reflexivity.
      + exact Hnk.
      + exact Hpn.
      + intros tk [].
      + intros tk Hin. apply covered_app; auto.
  Qed.

  Lemma core_gen_n n : forall st fs D Pn st',
    core st fs D Pn -> fw_gen_n P (S n) st = Some st' ->
    exists fs2, length fs2 = S n /\ core st' (fs ++ fs2) (D ++ Pn) [].
  Proof.
    induction n as [|n IH]; intros st fs D Pn st' Hc Hg; cbn [fw_gen_n] in Hg.
    - destruct (fw_generate P st) as [st1|] eqn:Hg1; [|discriminate]. injection Hg as <-.
      destruct (core_generate _ _ _ _ _ Hc Hg1) as (f & Hc1). exists [f]. split; [reflexivity|exact Hc1].
    - destruct (fw_generate P st) as [st1|] eqn:Hg1; [|discriminate].
      destruct (core_generate _ _ _ _ _ Hc Hg1) as (f & Hc1).
      destruct (IH _ _ _ _ _ Hc1 Hg) as (fs2 & Hl & Hc2).
      exists (f :: fs2). split; [cbn [length]; lia|].
      rewrite app_nil_r in Hc2. replace (fs ++ f :: fs2) with ((fs ++ [f]) ++ fs2) by now rewrite <- app_assoc.
      exact Hc2.
  Qed.

  (* the full invariant between operations: the number of emitted filters is cur / 2^lg *)
  Definition inv (st : fwstate) (cur : N) (fs : list bytes) (D Pn : list (N * bytes)) : Prop :=
    core st fs D Pn /\ lenN fs = cur / 2 ^ lg /\ lg < 64.

  Lemma inv_add st cur fs D Pn k st' :
    inv st cur fs D Pn -> fw_add P st k = Some st' -> inv st' cur fs D (Pn ++ [(cur, k)]).
  Proof.
    intros ((Hlg & Hbuf & Hoff & Hnk & Hpn & Htag & Hd) & Hlen & Hl64) Ha. unfold fw_add in Ha.
    destruct (p_add P k) as [x|] eqn:Hx; [|discriminate]. injection Ha as <-.
    split; [|split; assumption]. unfold core; cbn [fw_lg fw_buf fw_offsets fw_nkeys fw_pending].
    repeat split; try assumption.
    - rewrite lenN_app, Hnk. reflexivity.
    - apply Forall2_app; [exact Hpn|]. constructor; [exact Hx|constructor].
    - intros tk Hin. apply in_app_or in Hin as [Hin|[<-|[]]]; [now apply Htag|]. cbn [fst]. now rewrite Hlen.
  Qed.

  Lemma inv_flush st cur fs D Pn o st' :
    inv st cur fs D Pn -> cur <= o -> fw_flush P st o = Some st' ->
    exists fs' D' Pn', inv st' o fs' D' Pn' /\ D' ++ Pn' = D ++ Pn.
  Proof.
    intros (Hc & Hlen & Hl64) Hle Hf. unfold fw_flush in Hf.
    pose proof Hc as (Hlg & _ & Hoff & _). rewrite Hlg in Hf.
    destruct (N.leb_spec 64 lg); [lia|].
    assert (Hol : lenN (fw_offsets st) = lenN fs).
    { rewrite Hoff. unfold lenN. now rewrite offs_from_length. }
    rewrite Hol in Hf.
    assert (Hmono : cur / 2 ^ lg <= o / 2 ^ lg).
    { apply N.div_le_mono; [apply N.pow_nonzero; discriminate|exact Hle]. }
    destruct (N.to_nat (o / 2 ^ lg - lenN fs)) as [|n] eqn:Hn.
    - cbn [fw_gen_n] in Hf. injection Hf as <-. exists fs, D, Pn. split; [|reflexivity].
      assert (Heq : o / 2 ^ lg = lenN fs) by lia.
      split; [|split; [lia|assumption]].
      destruct Hc as (A1 & A2 & A3 & A4 & A5 & A6 & A7). repeat split; assumption.
    - destruct (core_gen_n _ _ _ _ _ _ Hc Hf) as (fs2 & Hl2 & Hc2).
      exists (fs ++ fs2), (D ++ Pn), []. split; [|now rewrite app_nil_r].
      split; [exact Hc2|]. split; [|assumption].
      rewrite lenN_app. unfold lenN at 2. rewrite Hl2. lia.
  Qed.

  Lemma inv_run ops : forall st cur fs D Pn st',
    inv st cur fs D Pn -> flushes_mono ops cur -> fw_run P ops st = Some st' ->
    exists cur' fs' D' Pn', inv st' cur' fs' D' Pn' /\ D' ++ Pn' = (D ++ Pn) ++ tagged ops cur.
  Proof.
    induction ops as [|op r IH]; intros st cur fs D Pn st' Hi Hm Hr; cbn [fw_run] in Hr.
    - injection Hr as <-. exists cur, fs, D, Pn. split; [exact Hi|]. cbn [tagged]. now rewrite app_nil_r.
    - destruct (fw_step P st op) as [st1|] eqn:Hs; [|discriminate].
      destruct op as [k|o]; cbn [fw_step flushes_mono tagged] in *.
      + pose proof (inv_add _ _ _ _ _ _ _ Hi Hs) as Hi1.
        destruct (IH _ _ _ _ _ _ Hi1 Hm Hr) as (cur' & fs' & D' & Pn' & Hi' & He).
        exists cur', fs', D', Pn'. split; [exact Hi'|]. rewrite He. now rewrite <- !app_assoc.
      + destruct Hm as [Hle Hm].
        destruct (inv_flush _ _ _ _ _ _ _ Hi Hle Hs) as (fs1 & D1 & Pn1 & Hi1 & He1).
        destruct (IH _ _ _ _ _ _ Hi1 Hm Hr) as (cur' & fs' & D' & Pn' & Hi' & He).
        exists cur', fs', D', Pn'. split; [exact Hi'|]. now rewrite He, He1.
  Qed.

  (* what finish writes *)
  Definition block_of (fs : list bytes) : bytes :=
    concat fs ++ flat_map le32 (offs_from 0 fs ++ [w32 (lenN (concat fs))]) ++ [lg mod 256].

  Lemma core_finish st fs D Pn data :
    core st fs D Pn -> fw_finish P st = Some data ->
    exists fs', data = block_of fs' /\ forall tk, In tk (D ++ Pn) -> covered fs' tk.
  Proof.
    intros Hc Hf. unfold fw_finish in Hf.
    destruct (N.ltb_spec 0 (fw_nkeys st)) as [Hpos|Hz].
    - destruct (fw_generate P st) as [st1|] eqn:Hg; [|discriminate]. injection Hf as <-.
      destruct (core_generate _ _ _ _ _ Hc Hg) as (f & (Hlg & Hbuf & Hoff & _ & _ & _ & Hd)).
      exists (fs ++ [f]). split; [|exact Hd]. unfold block_of. now rewrite Hlg, Hbuf, Hoff.
    - injection Hf as <-. destruct Hc as (Hlg & Hbuf & Hoff & Hnk & Hpn & _ & Hd).
      assert (Hpe : fw_pending st = []) by (apply lenN_0; lia).
      assert (Hpne : Pn = []) by (rewrite Hpe in Hpn; now inversion Hpn).
      subst Pn. rewrite app_nil_r. exists fs. split; [|exact Hd].
      unfold block_of. now rewrite Hlg, Hbuf, Hoff.
  Qed.

  (* ---- the reader on a block the writer produced ---- *)

  Lemma block_of_length fs : lenN (block_of fs) = lenN (concat fs) + 4 * lenN fs + 5.
  Proof.
    unfold block_of. rewrite !lenN_app, lenN_flat_le32, lenN_app.
    unfold lenN at 2. rewrite offs_from_length. fold (lenN fs).
    change (lenN [w32 (lenN (concat fs))]) with 1. change (lenN [lg mod 256]) with 1. lia.
  Qed.

  Lemma block_body_length fs :
    lenN (concat fs ++ flat_map le32 (offs_from 0 fs ++ [w32 (lenN (concat fs))]))
    = lenN (concat fs) + 4 * lenN fs + 4.
  Proof.
    rewrite lenN_app, lenN_flat_le32, lenN_app.
    replace (lenN (offs_from 0 fs)) with (lenN fs) by (unfold lenN; now rewrite offs_from_length).
    change (lenN [w32 (lenN (concat fs))]) with 1. lia.
  Qed.

  Lemma block_of_parse fs : lg < 64 -> lenN (block_of fs) < 2 ^ 32 ->
    fb_parse (block_of fs) =
      Some {| fb_data := block_of fs; fb_ooff := lenN (concat fs); fb_lg := lg; fb_num := lenN fs |}.
  Proof.
    intros Hl Hb. pose proof (block_of_length fs) as Hlen.
    set (B := lenN (concat fs)) in *. set (F := lenN fs) in *.
    assert (HB : B < 2 ^ 32) by lia.
    unfold fb_parse. rewrite Hlen.
    destruct (N.ltb_spec (B + 4 * F + 5) 5); [lia|].
    replace (B + 4 * F + 5 - 5) with (B + 4 * F) by lia.
    assert (Hu : u32_at (block_of fs) (B + 4 * F) = B).
    { unfold block_of. fold B.
      replace (B + 4 * F) with (lenN (concat fs) + 4 * N.of_nat (length fs)) by reflexivity.
      apply u32_at_array; [|exact HB].
      replace (length fs) with (length (offs_from 0 fs)) by apply offs_from_length.
      rewrite nth_error_app2 by lia. rewrite Nat.sub_diag. cbn [nth_error]. f_equal. now apply w32_small. }
    rewrite Hu. destruct (N.ltb_spec (B + 4 * F) B); [lia|].
    f_equal. f_equal.
    - unfold block_of. rewrite app_assoc.
      pose proof (block_body_length fs) as Hbl. fold B in Hbl. change (lenN fs) with F in Hbl. fold B.
      rewrite get_at_app_ge by lia.
      match goal with |- get_at _ ?i = _ => replace i with 0 by lia end.
      cbn [get_at N.eqb]. apply N.mod_small.
      assert (2 ^ 6 <= 2 ^ 8) by (apply N.pow_le_mono_r; lia).
      assert (lg < 2 ^ 6) by exact Hl. change (2 ^ 8) with 256 in *. lia.
    - replace (B + 4 * F - B) with (4 * F) by lia. rewrite N.mul_comm. apply N.div_mul. discriminate.
  Qed.

  Lemma block_of_contains fs tk : lg < 64 -> lenN (block_of fs) < 2 ^ 32 ->
    covered fs tk -> fb_may_contain P (block_of fs) (fst tk) (snd tk) = Some true.
  Proof.
    intros Hl Hb (f & Hn & Hh & Hne). unfold fb_may_contain. rewrite block_of_parse by assumption.
    unfold fb_contains; cbn [fb_data fb_ooff fb_lg fb_num].
    rewrite N.shiftr_div_pow2. set (i := fst tk / 2 ^ lg) in *.
    pose proof (block_of_length fs) as Hlen.
    set (B := lenN (concat fs)) in *.
    assert (HB : B < 2 ^ 32) by lia.
    assert (Hi : (N.to_nat i < length fs)%nat) by (apply nth_error_Some; congruence).
    destruct (N.ltb_spec i (lenN fs)) as [_|Hge]; [|unfold lenN in Hge; lia].
    (* the two offsets *)
    assert (Hoff : forall j, (j <= length fs)%nat ->
              u32_at (block_of fs) (B + N.of_nat j * 4) = lenN (concat (firstn j fs))).
    { intros j Hj. unfold block_of. fold B. rewrite (N.mul_comm (N.of_nat j) 4).
      apply u32_at_array.
      - unfold B. rewrite all_offs_nth0 by exact Hj. f_equal. apply w32_small.
        pose proof (lenN_concat_firstn_le fs j). fold B in H. lia.
      - pose proof (lenN_concat_firstn_le fs j). fold B in H. lia. }
    replace (B + i * 4) with (B + N.of_nat (N.to_nat i) * 4) by (rewrite N2Nat.id; reflexivity).
    rewrite Hoff by lia.
    replace (B + N.of_nat (N.to_nat i) * 4 + 4) with (B + N.of_nat (S (N.to_nat i)) * 4) by lia.
    rewrite Hoff by lia.
    (* split fs around slot i *)
    apply nth_error_split in Hn as (l1 & l2 & Hfs & Hl1).
    assert (E1 : firstn (N.to_nat i) fs = l1).
    { rewrite Hfs, <- Hl1. rewrite firstn_app, Nat.sub_diag, firstn_all. cbn [firstn]. apply app_nil_r. }
    assert (E2 : firstn (S (N.to_nat i)) fs = l1 ++ [f]).
    { rewrite Hfs, <- Hl1. rewrite firstn_app, firstn_all2 by lia.
      replace (S (length l1) - length l1)%nat with 1%nat by lia. reflexivity. }
    rewrite E1, E2, concat_app. cbn [concat]. rewrite app_nil_r, lenN_app.
    assert (Hfpos : 0 < lenN f).
    { destruct f; [contradiction|]. rewrite lenN_cons. lia. }
    assert (Hle : lenN (concat l1) + lenN f <= B).
    { unfold B. rewrite Hfs, concat_app, lenN_app. cbn [concat]. rewrite lenN_app. lia. }
    destruct (N.ltb_spec (lenN (concat l1)) (lenN (concat l1) + lenN f)); [|lia].
    destruct (N.leb_spec (lenN (concat l1) + lenN f) B); [|lia]. cbn [andb].
    replace (slice (block_of fs) (lenN (concat l1)) (lenN (concat l1) + lenN f)) with f; [exact Hh|].
    unfold block_of. rewrite Hfs, concat_app. cbn [concat]. rewrite <- !app_assoc.
    symmetry. apply slice_app3.
  Qed.

  Theorem fw_no_false_negative ops data :
    flushes_mono ops 0 -> fw_build P lg ops = Some data -> lenN data < 2 ^ 32 ->
    forall o k, In (o, k) (tagged ops 0) -> fb_may_contain P data o k = Some true.
  Proof.
    intros Hm Hb Hlen o k Hin. unfold fw_build, fw_new, fw_flush in Hb. cbn [fw_init fw_lg fw_offsets] in Hb.
    destruct (N.leb_spec 64 lg) as [|Hl]; [discriminate|].
    rewrite N.div_0_l in Hb by (apply N.pow_nonzero; discriminate).
    cbn [lenN length N.of_nat] in Hb. rewrite N.sub_0_r in Hb. cbn [N.to_nat fw_gen_n] in Hb.
    destruct (fw_run P ops (fw_init lg)) as [st|] eqn:Hr; [|discriminate].
    assert (Hi0 : inv (fw_init lg) 0 [] [] []).
    { split; [|split; [|exact Hl]].
      - unfold core; cbn. repeat split; try reflexivity; try constructor; intros tk [].
      - rewrite N.div_0_l by (apply N.pow_nonzero; discriminate). reflexivity. }
    destruct (inv_run _ _ _ _ _ _ _ Hi0 Hm Hr) as (cur' & fs' & D' & Pn' & (Hc & _ & _) & He).
    destruct (core_finish _ _ _ _ _ Hc Hb) as (fs2 & -> & Hcov).
    cbn [app] in He.
    apply (block_of_contains fs2 (o, k)); try assumption.
    apply Hcov. rewrite He. exact Hin.
  Qed.

  (* the filter changes the cost of a lookup, not its result: whenever the data block at o holds
     an entry for a key that was added while that block was open, the filtered lookup returns what
     the unfiltered one returns; and when the unfiltered lookup finds nothing, so does the filtered
     one (unless the policy's Contains panics) *)
  Theorem fw_filter_changes_no_result ops data {A} (unfiltered : N -> bytes -> option A) :
    flushes_mono ops 0 -> fw_build P lg ops = Some data -> lenN data < 2 ^ 32 ->
    (forall o k, unfiltered o k <> None -> In (o, k) (tagged ops 0)) ->
    forall o k, fb_may_contain P data o k <> None ->
      find_with_filter P data o k (unfiltered o k) = Some (unfiltered o k).
  Proof.
    intros Hm Hb Hlen Hst o k Hnp. unfold find_with_filter.
    destruct (unfiltered o k) as [v|] eqn:Hu.
    - rewrite (fw_no_false_negative ops data Hm Hb Hlen o k); [reflexivity|].
      apply Hst. rewrite Hu. discriminate.
    - destruct (fb_may_contain P data o k) as [[|]|]; [reflexivity|reflexivity|contradiction].
  Qed.

  (* the block the writer produces is accepted by the reader's parser with the writer's baseLg *)
  Theorem fw_block_parses ops data :
    fw_build P lg ops = Some data -> flushes_mono ops 0 -> lenN data < 2 ^ 32 ->
    exists b, fb_parse data = Some b /\ fb_lg b = lg /\ fb_data b = data.
  Proof.
    intros Hb Hm Hlen. unfold fw_build, fw_new, fw_flush in Hb. cbn [fw_init fw_lg fw_offsets] in Hb.
    destruct (N.leb_spec 64 lg) as [|Hl]; [discriminate|].
    rewrite N.div_0_l in Hb by (apply N.pow_nonzero; discriminate).
    cbn [lenN length N.of_nat] in Hb. rewrite N.sub_0_r in Hb. cbn [N.to_nat fw_gen_n] in Hb.
    destruct (fw_run P ops (fw_init lg)) as [st|] eqn:Hr; [|discriminate].
    assert (Hi0 : inv (fw_init lg) 0 [] [] []).
    { split; [|split; [|exact Hl]].
      - unfold core; cbn. repeat split; try reflexivity; try constructor; intros tk [].
      - rewrite N.div_0_l by (apply N.pow_nonzero; discriminate). reflexivity. }
    destruct (inv_run _ _ _ _ _ _ _ Hi0 Hm Hr) as (cur' & fs' & D' & Pn' & (Hc & _ & _) & He).
    destruct (core_finish _ _ _ _ _ Hc Hb) as (fs2 & -> & Hcov).
    eexists. split; [apply block_of_parse; assumption|]. split; reflexivity.
  Qed.
End Writer.

(* ---- the writer does not panic when the policy does not and baseLg < 64 ---- *)

Section Total.
  Variable P : policy.
  Hypothesis add_total : forall k, p_add P k <> None.
  Hypothesis gen_total : forall ks, p_gen P ks <> None.

  Lemma fw_generate_total st : exists st', fw_generate P st = Some st' /\ fw_lg st' = fw_lg st.
  Proof.
    unfold fw_generate. destruct (0 <? fw_nkeys st).
    - destruct (p_gen P (fw_pending st)) eqn:E; [|now apply gen_total in E].
      eexists; split; reflexivity.
    - eexists; split; reflexivity.
  Qed.

  Lemma fw_gen_n_total n : forall st, exists st', fw_gen_n P n st = Some st' /\ fw_lg st' = fw_lg st.
  Proof.
    induction n as [|n IH]; intros st; cbn [fw_gen_n]; [eexists; split; reflexivity|].
    destruct (fw_generate_total st) as (st1 & -> & H1).
    destruct (IH st1) as (st2 & -> & H2). exists st2. split; [reflexivity|congruence].
  Qed.

  Lemma fw_run_total ops : forall st, fw_lg st < 64 -> exists st', fw_run P ops st = Some st' /\ fw_lg st' = fw_lg st.
  Proof.
    induction ops as [|op r IH]; intros st Hl; cbn [fw_run]; [eexists; split; reflexivity|].
    assert (Hs : exists st1, fw_step P st op = Some st1 /\ fw_lg st1 = fw_lg st).
    { destruct op as [k|o]; cbn [fw_step].
      - unfold fw_add. destruct (p_add P k) eqn:E; [|now apply add_total in E]. eexists; split; reflexivity.
      - unfold fw_flush. destruct (N.leb_spec 64 (fw_lg st)); [lia|]. apply fw_gen_n_total. }
    destruct Hs as (st1 & -> & H1). destruct (IH st1) as (st2 & -> & H2); [lia|].
    exists st2. split; [reflexivity|congruence].
  Qed.

  Theorem fw_build_total lg ops : lg < 64 -> exists data, fw_build P lg ops = Some data.
  Proof.
    intros Hl. unfold fw_build, fw_new, fw_flush. cbn [fw_init fw_lg].
    destruct (N.leb_spec 64 lg); [lia|].
    destruct (fw_gen_n_total (N.to_nat (0 / 2 ^ lg - lenN (fw_offsets (fw_init lg)))) (fw_init lg)) as (st0 & E0 & H0).
    cbn [fw_init fw_lg] in E0. rewrite E0.
    destruct (fw_run_total ops st0) as (st & -> & _); [cbn in H0; lia|].
    unfold fw_finish. destruct (0 <? fw_nkeys st).
    - destruct (fw_generate_total st) as (st' & -> & _). eexists; reflexivity.
    - eexists; reflexivity.
  Qed.
End Total.
