(* Codec/IndexedIterProofs.v — the indexed iterator (leveldb/iterator/indexed_iter.go over
   table.indexIter), generically: an index iterator that refines the cursor over a list of index
   entries, each position of which opens a data iterator that refines the cursor over a
   "virtual block" V i (possibly EMPTY: a block of which a range slice keeps nothing), together
   refine the cursor over the concatenation of the virtual blocks, for arbitrary
   First/Last/Seek/Next/Prev sequences.  TableSliceProofs.v instantiates it with the sliced
   index/data iterators of a well-formed table. *)
From GL Require Import Base.Bytes Base.BytesProofs Base.Varint Base.VarintProofs Base.Order Base.OrderProofs
  Base.Cursor Base.CursorProofs Codec.Block Codec.BlockSliceProofs Codec.Table Codec.TableProofs.
From Coq Require Import Arith ZArith Lia ZifyN ZifyNat ZifyBool.

Local Open Scope N_scope.

Definition is_at (p : cpos) : bool := match p with CAt _ => true | _ => false end.

(* an iterator representation relation that refines the cursor over L *)
Record refines_over (c : comparer) (L : list (bytes * bytes)) (R : biter -> cpos -> Prop) : Prop := {
  ro_step : forall d p o, R d p ->
    exists ok d', bi_step c d o = (ok, d') /\ R d' (c_step c L p o) /\ ok = is_at (c_step c L p o);
  ro_noerr : forall d p, R d p -> bi_err d = None;
  ro_get : forall d i, R d (CAt i) -> bi_valid d = true /\ nth_error L i = Some (bi_key d, bi_value d)
}.

Section Indexed.
  Variable c : comparer.
  Variable rd : treader.
  Variable sl : option krange.                       (* the iterator's slice field *)
  Variable strict : bool.                            (* its strict flag *)
  Definition static (t : titer) : Prop := ti_slice t = sl /\ ti_strict t = strict.
  Variable IL : list (bytes * bytes).                (* index entries the index iterator ranges over *)
  Variable RI : biter -> cpos -> Prop.
  Hypothesis RI_ok : refines_over c IL RI.
  Variable V : list (list (bytes * bytes)).          (* the virtual blocks *)
  Hypothesis len_V : length V = length IL.

  Local Notation nV := (length V).
  Local Notation Vi i := (nth i V []).
  Local Notation kvs := (concat V).

  (* indexIter.Get at index position i opens an iterator over V i *)
  (* ... or, for a block that cannot be read, the empty iterator carrying the corruption error;
     a non-strict iterator then treats the block as holding nothing *)
  Hypothesis get_ok : forall t i, RI (ti_index t) (CAt i) -> static t ->
    (exists d0 R, index_get c rd t = Some (DBlock d0) /\ refines_over c (Vi i) R /\ R d0 CSOI) \/
    (index_get c rd t = Some (DEmpty ErrCorrupt) /\ Vi i = [] /\ strict = false).

  (* routing: what the index seek tells about the virtual blocks *)
  Hypothesis route_at : forall key i, c_seek c IL key = CAt i ->
    (forall i' x, (i' < i)%nat -> In x (Vi i') -> cmp c (fst x) key = Lt) /\
    (forall i' x, (i < i')%nat -> In x (Vi i') -> cmp c (fst x) key <> Lt).
  Hypothesis route_eoi : forall key, c_seek c IL key = CEOI ->
    forall i' x, In x (Vi i') -> cmp c (fst x) key = Lt.

  (* the index block is at least as long as its entries are many (fuel of the recursive methods) *)
  Hypothesis fuel_ok : forall ix p, RI ix p -> (length V <= length (b_data (bi_blk ix)))%nat.

  (* ---------------- positions ---------------- *)
  Definition before (i : nat) : nat := length (concat (firstn i V)).
  Local Notation total := (length kvs).

  Lemma before_S i : (i < nV)%nat -> before (S i) = (before i + length (Vi i))%nat.
  Proof.
    intros H. unfold before. rewrite (BlockEnc.firstn_S_nth V i [] H), concat_app, app_length.
    cbn [concat]. rewrite app_nil_r. reflexivity.
  Qed.

  Lemma before_all i : (nV <= i)%nat -> before i = total.
  Proof. intros H. unfold before. rewrite firstn_all2 by exact H. reflexivity. Qed.

  Lemma before_mono i i' : (i <= i')%nat -> (before i <= before i')%nat.
  Proof.
    intros H. induction i' as [|i' IH]; [assert (i = 0%nat) by lia; subst; lia|].
    destruct (Nat.eq_dec i (S i')) as [->|]; [lia|]. specialize (IH ltac:(lia)).
    destruct (Nat.lt_ge_cases i' nV) as [L|L]; [rewrite before_S by exact L; lia|].
    rewrite (before_all (S i')) by lia. rewrite (before_all i') in IH by lia. exact IH.
  Qed.

  Lemma before_le_total i : (before i <= total)%nat.
  Proof. rewrite <- (before_all nV) by lia. destruct (Nat.le_gt_cases i nV); [apply before_mono; lia | rewrite before_all by lia; rewrite before_all by lia; lia]. Qed.

  Lemma gpos_nth i p : (i < nV)%nat -> (p < length (Vi i))%nat -> nth_error kvs (before i + p) = nth_error (Vi i) p.
  Proof.
    intros Hi Hp. unfold before. rewrite (concat_split V i Hi).
    rewrite nth_error_app2 by lia.
    replace (length (concat (firstn i V)) + p - length (concat (firstn i V)))%nat with p by lia.
    apply nth_error_app1. exact Hp.
  Qed.

  (* first entry at or after block i / last entry before block i *)
  Definition first_from (i : nat) : cpos := if Nat.ltb (before i) total then CAt (before i) else CEOI.
  Definition last_upto (i : nat) : cpos := if Nat.ltb 0 (before i) then CAt (before i - 1) else CSOI.

  Lemma first_from_empty i : (i < nV)%nat -> Vi i = [] -> first_from (S i) = first_from i.
  Proof. intros Hi He. unfold first_from. rewrite (before_S i Hi), He. cbn [length]. rewrite Nat.add_0_r. reflexivity. Qed.

  Lemma first_from_nonempty i : (i < nV)%nat -> Vi i <> [] -> first_from i = CAt (before i).
  Proof.
    intros Hi Hne. unfold first_from.
    pose proof (before_S i Hi). pose proof (before_le_total (S i)).
    assert (0 < length (Vi i))%nat by (destruct (Vi i); [congruence | cbn; lia]).
    replace (Nat.ltb (before i) total) with true by (symmetry; apply Nat.ltb_lt; lia). reflexivity.
  Qed.

  Lemma first_from_end i : (nV <= i)%nat -> first_from i = CEOI.
  Proof. intros H. unfold first_from. rewrite (before_all i H), Nat.ltb_irrefl. reflexivity. Qed.

  Lemma last_upto_empty i : (i < nV)%nat -> Vi i = [] -> last_upto (S i) = last_upto i.
  Proof. intros Hi He. unfold last_upto. rewrite (before_S i Hi), He. cbn [length]. rewrite Nat.add_0_r. reflexivity. Qed.

  Lemma last_upto_nonempty i : (i < nV)%nat -> Vi i <> [] -> last_upto (S i) = CAt (before i + (length (Vi i) - 1)).
  Proof.
    intros Hi Hne. unfold last_upto. rewrite (before_S i Hi).
    assert (0 < length (Vi i))%nat by (destruct (Vi i); [congruence | cbn; lia]).
    replace (Nat.ltb 0 (before i + length (Vi i))) with true by (symmetry; apply Nat.ltb_lt; lia).
    f_equal. lia.
  Qed.

  Lemma last_upto_0 : last_upto 0 = CSOI.
  Proof. reflexivity. Qed.

  (* ---------------- representation ---------------- *)
  Definition trep (t : titer) (p : cpos) : Prop :=
    ti_err t = None /\ static t /\
    match p with
    | CSOI => ti_data t = None /\ RI (ti_index t) CSOI
    | CEOI => ti_data t = None /\ RI (ti_index t) CEOI
    | CAt g =>
        exists i q d R,
          g = (before i + q)%nat /\ (i < nV)%nat /\ (q < length (Vi i))%nat /\
          RI (ti_index t) (CAt i) /\ ti_data t = Some (DBlock d) /\
          refines_over c (Vi i) R /\ R d (CAt q)
    end.

  Definition fresh_at (t : titer) (i : nat) : Prop :=
    (exists d0 R, ti_data t = Some (DBlock d0) /\ refines_over c (Vi i) R /\ R d0 CSOI) \/
    (ti_data t = Some (DEmpty ErrCorrupt) /\ Vi i = [] /\ strict = false).

  Lemma set_data_fresh t i : RI (ti_index t) (CAt i) -> static t -> fresh_at (ti_set_data c rd t) i.
  Proof.
    intros R Hsl. destruct (get_ok t i R Hsl) as [(d0 & R0 & E & Hro & H0) | (E & Hv & Hst)].
    - left. exists d0, R0. unfold ti_set_data. cbn [ti_with ti_data]. auto.
    - right. unfold ti_set_data. cbn [ti_with ti_data]. auto.
  Qed.

  (* what every method does with an unreadable block under a non-strict iterator *)
  Lemma data_err_skipped t e0 : static t -> strict = false ->
    ti_data_err (ti_with t (ti_index t) (Some (DEmpty ErrCorrupt)) e0) (DEmpty ErrCorrupt) = None.
  Proof.
    intros [_ Hst] Hs. unfold ti_data_err. cbn [d_err ti_with ti_strict]. rewrite Hst, Hs. reflexivity.
  Qed.

  Lemma ri_noerr ix p : RI ix p -> bi_err ix = None.
  Proof. apply (ro_noerr _ _ _ RI_ok). Qed.

  Lemma ri_pos ix i : RI ix (CAt i) -> (i < nV)%nat.
  Proof.
    intros R. destruct (ro_get _ _ _ RI_ok ix i R) as [_ H]. rewrite len_V. apply nth_error_Some. rewrite H. discriminate.
  Qed.

  (* index steps, specialised *)
  Lemma ri_next ix p : RI ix p -> exists ok ix', bi_next ix = (ok, ix') /\ RI ix' (c_next IL p) /\ ok = is_at (c_next IL p).
  Proof. intros R. apply (ro_step _ _ _ RI_ok ix p OpNext R). Qed.
  Lemma ri_prev ix p : RI ix p -> exists ok ix', bi_prev ix = (ok, ix') /\ RI ix' (c_prev IL p) /\ ok = is_at (c_prev IL p).
  Proof. intros R. apply (ro_step _ _ _ RI_ok ix p OpPrev R). Qed.

  Lemma c_next_IL_at i : c_next IL (CAt i) = if Nat.ltb (S i) nV then CAt (S i) else CEOI.
  Proof. cbn [c_next]. rewrite len_V. reflexivity. Qed.

  (* ---------------- Next ---------------- *)
  (* blocks from position [nxt] on, found by advancing the index *)
  Definition nxt (ip : cpos) : nat := match ip with CSOI => 0%nat | CAt i => S i | CEOI => nV end.

  Lemma c_next_IL ip : c_next IL ip = if Nat.ltb (nxt ip) nV then CAt (nxt ip) else CEOI.
  Proof.
    destruct ip as [|i|]; cbn [nxt].
    - cbn [c_next]. unfold c_first. destruct IL eqn:E; rewrite len_V; [reflexivity | cbn [length]; reflexivity].
    - apply c_next_IL_at.
    - cbn [c_next]. rewrite Nat.ltb_irrefl. reflexivity.
  Qed.

  Lemma next_chain : forall fu t ip,
    (nV - nxt ip < fu)%nat ->
    ti_err t = None -> static t -> ti_data t = None -> RI (ti_index t) ip ->
    exists ok t', ti_advance c rd (ti_next_f c rd fu) t = (ok, t') /\
                  trep t' (first_from (nxt ip)) /\ ok = is_at (first_from (nxt ip)).
  Proof.
    induction fu as [|fu IH]; intros t ip Hf He Hsl Hd R; [lia|].
    unfold ti_advance.
    destruct (ri_next (ti_index t) ip R) as (ok & ix & E & R' & Eok). rewrite E.
    rewrite c_next_IL in R', Eok.
    destruct (Nat.ltb_spec (nxt ip) nV) as [L|L]; subst ok; cbn [is_at negb].
    - set (i := nxt ip) in *.
      set (t1 := ti_with t ix (ti_data t) (ti_err t)).
      assert (He1 : ti_err (ti_set_data c rd t1) = None) by exact He.
      destruct (set_data_fresh t1 i R' Hsl) as [(d0 & R0 & Ed & Hro & H0) | (Ed & Ev & Hst)].
      2:{ (* unreadable block, non-strict: skipped like an empty block *)
        cbn [ti_next_f]. unfold ti_has_err. rewrite He1, Ed. cbn [d_lift].
        rewrite (data_err_skipped (ti_set_data c rd t1) _ Hsl Hst).
        rewrite <- (first_from_empty i L Ev).
        destruct (IH (ti_clear_data (ti_with (ti_set_data c rd t1) (ti_index (ti_set_data c rd t1)) (Some (DEmpty ErrCorrupt)) None)) (CAt i))
          as (ok3 & t' & E3 & Ht & Eok3); try reflexivity.
        - cbn [nxt]. unfold i in *. lia.
        - exact Hsl.
        - exact R'.
        - exists ok3, t'. cbn [nxt] in Ht, Eok3. auto. }
      (* Next on the fresh block *)
      cbn [ti_next_f]. unfold ti_has_err.
      rewrite He1, Ed. cbn [d_lift].
      destruct (ro_step _ _ _ Hro d0 CSOI OpNext H0) as (ok2 & d' & E2 & R2 & Eok2).
      cbn [bi_step c_step c_next] in E2, R2, Eok2. rewrite E2. unfold c_first in R2, Eok2.
      destruct (Vi i) as [|kv0 r0] eqn:Ev.
      + subst ok2. unfold ti_data_err. cbn [ti_with ti_data d_err].
        rewrite (ro_noerr _ _ _ Hro d' CEOI R2).
        rewrite <- (first_from_empty i L Ev).
        destruct (IH (ti_clear_data (ti_with (ti_set_data c rd t1) (ti_index (ti_set_data c rd t1)) (Some (DBlock d')) None)) (CAt i))
          as (ok3 & t' & E3 & Ht & Eok3); try reflexivity.
        * cbn [nxt]. unfold i in *. lia.
        * exact Hsl.
        * exact R'.
        * exists ok3, t'. cbn [nxt] in Ht, Eok3. auto.
      + subst ok2. rewrite (first_from_nonempty i L) by (rewrite Ev; discriminate).
        eexists. eexists. split; [reflexivity|]. split; [|reflexivity].
        split; [reflexivity|]. split; [exact Hsl|].
        exists i, 0%nat, d', R0. rewrite Ev. cbn [length].
        split; [lia|]. split; [exact L|]. split; [lia|]. split; [exact R'|]. split; [reflexivity|].
        split; [exact Hro | exact R2].
    - rewrite (first_from_end (nxt ip) L).
      eexists. eexists. split; [reflexivity|]. split; [|reflexivity].
      unfold ti_index_err. cbn [ti_with ti_index]. rewrite (ri_noerr ix CEOI R').
      split; [exact He|]. split; [exact Hsl|]. split; [exact Hd | exact R'].
  Qed.

  Lemma c_next_kvs_at i q : (i < nV)%nat -> (q < length (Vi i))%nat ->
    c_next kvs (CAt (before i + q)) =
    if Nat.ltb (S q) (length (Vi i)) then CAt (before i + S q) else first_from (S i).
  Proof.
    intros Hi Hq. cbn [c_next]. pose proof (before_S i Hi) as HS. pose proof (before_le_total (S i)) as HT.
    destruct (Nat.ltb_spec (S q) (length (Vi i))) as [L|L].
    - replace (Nat.ltb (S (before i + q)) total) with true by (symmetry; apply Nat.ltb_lt; lia). f_equal. lia.
    - unfold first_from. replace (S (before i + q)) with (before (S i)) by lia. reflexivity.
  Qed.

  Definition big_fuel (fu : nat) : Prop := (nV + 2 <= fu)%nat.

  Lemma tnext_spec fu t p : big_fuel fu -> trep t p ->
    exists ok t', ti_next_f c rd fu t = (ok, t') /\ trep t' (c_next kvs p) /\ ok = is_at (c_next kvs p).
  Proof.
    intros Hf (He & Hsl & R). unfold big_fuel in Hf. destruct fu as [|fu]; [lia|]. cbn [ti_next_f].
    unfold ti_has_err. rewrite He.
    destruct p as [|g|].
    - destruct R as [Hd R]. rewrite Hd.
      destruct (next_chain fu t CSOI ltac:(cbn [nxt]; lia) He Hsl Hd R) as (ok & t' & E & Ht & Eok). rewrite E.
      cbn [nxt] in Ht, Eok. exists ok, t'. split; [reflexivity|].
      assert (Ec : c_next kvs CSOI = first_from 0).
      { cbn [c_next]. unfold c_first, first_from, before. cbn [firstn concat length].
        destruct kvs; [reflexivity | cbn [length]; reflexivity]. }
      rewrite Ec. auto.
    - destruct R as (i & q & d & R0 & Eg & Hi & Hq & Ri & Ed & Hro & Rd). subst g.
      rewrite Ed. cbn [d_lift].
      destruct (ro_step _ _ _ Hro d (CAt q) OpNext Rd) as (ok & d' & E & R' & Eok).
      cbn [bi_step c_step c_next] in E, R', Eok. rewrite E.
      rewrite (c_next_kvs_at i q Hi Hq).
      destruct (Nat.ltb (S q) (length (Vi i))) eqn:Eli.
      + subst ok. cbn [is_at]. eexists. eexists. split; [reflexivity|]. split; [|reflexivity].
        split; [reflexivity|]. split; [exact Hsl|].
        exists i, (S q), d', R0. apply Nat.ltb_lt in Eli.
        split; [lia|]. split; [exact Hi|]. split; [exact Eli|]. split; [exact Ri|]. split; [reflexivity|]. split; [exact Hro | exact R'].
      + subst ok. cbn [is_at]. unfold ti_data_err. cbn [ti_with ti_data d_err].
        rewrite (ro_noerr _ _ _ Hro d' CEOI R').
        destruct (next_chain fu (ti_clear_data (ti_with t (ti_index t) (Some (DBlock d')) None)) (CAt i))
          as (ok2 & t' & E2 & Ht & Eok2); try reflexivity.
        * cbn [nxt]. lia.
        * exact Hsl.
        * exact Ri.
        * rewrite E2. cbn [nxt] in Ht, Eok2. exists ok2, t'. auto.
    - destruct R as [Hd R]. rewrite Hd.
      destruct (next_chain fu t CEOI ltac:(cbn [nxt]; lia) He Hsl Hd R) as (ok & t' & E & Ht & Eok). rewrite E.
      cbn [nxt] in Ht, Eok. pose proof (first_from_end nV ltac:(lia)) as Efe. rewrite Efe in Ht. rewrite Efe in Eok.
      exists ok, t'. cbn [c_next]. auto.
  Qed.

  (* ---------------- Prev ---------------- *)
  Definition prv (ip : cpos) : nat := match ip with CSOI => 0%nat | CAt i => i | CEOI => nV end.

  Lemma c_prev_IL ip : (forall i, ip = CAt i -> (i < nV)%nat) ->
    c_prev IL ip = match prv ip with O => CSOI | S i' => CAt i' end.
  Proof.
    intros Hb. destruct ip as [|i|]; cbn [prv c_prev].
    - reflexivity.
    - destruct i; reflexivity.
    - unfold c_last. destruct IL eqn:E; rewrite len_V; [reflexivity|]. cbn [length]. f_equal. lia.
  Qed.

  Lemma enter_skipped pos self t : static t -> strict = false -> ti_data t = Some (DEmpty ErrCorrupt) ->
    ti_enter pos self t = self (ti_clear_data (ti_with t (ti_index t) (Some (DEmpty ErrCorrupt)) (ti_err t))).
  Proof.
    intros Hsl Hst Ed. unfold ti_enter. rewrite Ed. cbn [d_lift].
    rewrite (data_err_skipped t _ Hsl Hst). reflexivity.
  Qed.

  (* Last on a freshly opened block *)
  Lemma enter_last self t i :
    ti_err t = None -> static t -> RI (ti_index t) (CAt i) -> fresh_at t i ->
    match Vi i with
    | [] => exists t'', ti_enter bi_last self t = self t'' /\ ti_err t'' = None /\ static t'' /\
                        ti_data t'' = None /\ ti_index t'' = ti_index t
    | _ => exists t', ti_enter bi_last self t = (true, t') /\ trep t' (CAt (before i + (length (Vi i) - 1)))
    end.
  Proof.
    intros He Hsl R [(d0 & R0 & Ed & Hro & H0) | (Ed & Ev & Hst)]. pose proof (ri_pos _ _ R) as Hi.
    2:{ rewrite Ev. rewrite (enter_skipped bi_last self t Hsl Hst Ed).
        eexists. split; [reflexivity|]. cbn [ti_clear_data ti_with ti_err ti_data ti_index].
        split; [exact He|]. split; [exact Hsl|]. split; reflexivity. }
    unfold ti_enter. rewrite Ed. cbn [d_lift].
    destruct (ro_step _ _ _ Hro d0 CSOI OpLast H0) as (ok & d' & E & R' & Eok).
    cbn [bi_step c_step] in E, R', Eok. rewrite E. unfold c_last in R', Eok.
    destruct (Vi i) as [|kv0 r0] eqn:Ev.
    - subst ok. unfold ti_data_err. cbn [ti_with ti_data d_err is_at].
      rewrite (ro_noerr _ _ _ Hro d' CSOI R').
      eexists. split; [reflexivity|]. cbn [ti_clear_data ti_with ti_err ti_slice ti_data ti_index]. auto.
    - subst ok. cbn [is_at]. eexists. split; [reflexivity|].
      split; [exact He|]. split; [exact Hsl|].
      exists i, (length (kv0 :: r0) - 1)%nat, d', R0. rewrite Ev.
      split; [reflexivity|]. split; [exact Hi|]. split; [cbn [length]; lia|]. split; [exact R|].
      split; [reflexivity|]. split; [exact Hro | exact R'].
  Qed.

  Lemma prev_chain : forall fu t ip,
    (prv ip < fu)%nat -> (forall i, ip = CAt i -> (i < nV)%nat) ->
    ti_err t = None -> static t -> ti_data t = None -> RI (ti_index t) ip ->
    exists ok t', ti_retreat c rd (ti_prev_f c rd fu) t = (ok, t') /\
                  trep t' (last_upto (prv ip)) /\ ok = is_at (last_upto (prv ip)).
  Proof.
    induction fu as [|fu IH]; intros t ip Hf Hb He Hsl Hd R; [lia|].
    unfold ti_retreat.
    destruct (ri_prev (ti_index t) ip R) as (ok & ix & E & R' & Eok). rewrite E.
    rewrite (c_prev_IL ip Hb) in R', Eok.
    destruct (prv ip) as [|i] eqn:Ep; subst ok; cbn [is_at negb].
    - rewrite last_upto_0. eexists. eexists. split; [reflexivity|]. split; [|reflexivity].
      unfold ti_index_err. cbn [ti_with ti_index]. rewrite (ri_noerr ix CSOI R').
      split; [exact He|]. split; [exact Hsl|]. split; [exact Hd | exact R'].
    - pose proof (ri_pos _ _ R') as Hi.
      set (t1 := ti_with t ix (ti_data t) (ti_err t)).
      pose proof (set_data_fresh t1 i R' Hsl) as F.
      pose proof (enter_last (ti_prev_f c rd (S fu)) (ti_set_data c rd t1) i He Hsl R' F) as HE.
      destruct (Vi i) as [|kv0 r0] eqn:Ev.
      + destruct HE as (t'' & E2 & He2 & Hsl2 & Hd2 & Hix2). rewrite E2.
        rewrite (last_upto_empty i Hi Ev).
        (* the block is empty: Prev again, from index position i *)
        cbn [ti_prev_f]. unfold ti_has_err. rewrite He2, Hd2.
        destruct (IH t'' (CAt i)) as (ok3 & t' & E3 & Ht & Eok3); try assumption.
        * cbn [prv]. lia.
        * intros i0 Ei0. injection Ei0 as <-. exact Hi.
        * rewrite Hix2. exact R'.
        * exists ok3, t'. cbn [prv] in Ht, Eok3. auto.
      + destruct HE as (t' & E2 & Ht). rewrite E2.
        rewrite (last_upto_nonempty i Hi) by (rewrite Ev; discriminate).
        exists true, t'. rewrite Ev. auto.
  Qed.

  Lemma c_prev_kvs_at i q : (i < nV)%nat -> (q < length (Vi i))%nat ->
    c_prev kvs (CAt (before i + q)) = match q with S q' => CAt (before i + q') | O => last_upto i end.
  Proof.
    intros Hi Hq. cbn [c_prev]. destruct q as [|q'].
    - rewrite Nat.add_0_r. unfold last_upto. destruct (before i) as [|b']; [reflexivity|].
      cbn [Nat.ltb Nat.leb]. f_equal. lia.
    - replace (before i + S q')%nat with (S (before i + q')) by lia. reflexivity.
  Qed.

  Lemma tprev_spec fu t p : big_fuel fu -> trep t p ->
    exists ok t', ti_prev_f c rd fu t = (ok, t') /\ trep t' (c_prev kvs p) /\ ok = is_at (c_prev kvs p).
  Proof.
    intros Hf (He & Hsl & R). unfold big_fuel in Hf. destruct fu as [|fu]; [lia|]. cbn [ti_prev_f].
    unfold ti_has_err. rewrite He.
    destruct p as [|g|].
    - destruct R as [Hd R]. rewrite Hd.
      destruct (prev_chain fu t CSOI ltac:(cbn [prv]; lia) ltac:(intros; discriminate) He Hsl Hd R) as (ok & t' & E & Ht & Eok).
      rewrite E. cbn [prv] in Ht, Eok. rewrite last_upto_0 in Ht, Eok. exists ok, t'. cbn [c_prev]. auto.
    - destruct R as (i & q & d & R0 & Eg & Hi & Hq & Ri & Ed & Hro & Rd). subst g.
      rewrite Ed. cbn [d_lift].
      destruct (ro_step _ _ _ Hro d (CAt q) OpPrev Rd) as (ok & d' & E & R' & Eok).
      cbn [bi_step c_step c_prev] in E, R', Eok. rewrite E.
      rewrite (c_prev_kvs_at i q Hi Hq).
      destruct q as [|q'].
      + subst ok. cbn [is_at]. unfold ti_data_err. cbn [ti_with ti_data d_err].
        rewrite (ro_noerr _ _ _ Hro d' CSOI R').
        destruct (prev_chain fu (ti_clear_data (ti_with t (ti_index t) (Some (DBlock d')) None)) (CAt i))
          as (ok2 & t' & E2 & Ht & Eok2); try reflexivity.
        * cbn [prv]. lia.
        * intros i0 Ei0. injection Ei0 as <-. exact Hi.
        * exact Hsl.
        * exact Ri.
        * rewrite E2. cbn [prv] in Ht, Eok2. exists ok2, t'. auto.
      + subst ok. cbn [is_at]. eexists. eexists. split; [reflexivity|]. split; [|reflexivity].
        split; [reflexivity|]. split; [exact Hsl|].
        exists i, q', d', R0.
        split; [reflexivity|]. split; [exact Hi|]. split; [lia|]. split; [exact Ri|]. split; [reflexivity|]. split; [exact Hro | exact R'].
    - destruct R as [Hd R]. rewrite Hd.
      destruct (prev_chain fu t CEOI ltac:(cbn [prv]; lia) ltac:(intros; discriminate) He Hsl Hd R) as (ok & t' & E & Ht & Eok).
      rewrite E. cbn [prv] in Ht, Eok. exists ok, t'. split; [reflexivity|].
      assert (Ec : c_prev kvs CEOI = last_upto nV).
      { cbn [c_prev]. unfold c_last, last_upto. rewrite (before_all nV ltac:(lia)).
        destruct kvs; [reflexivity|]. cbn [length Nat.ltb Nat.leb]. reflexivity. }
      rewrite Ec. auto.
  Qed.

  (* ---------------- Seek ---------------- *)
  Lemma in_before i x : In x (concat (firstn i V)) -> exists i', (i' < i)%nat /\ In x (Vi i').
  Proof. intros H. apply in_concat_firstn in H as (i' & H1 & _ & H3). eauto. Qed.

  Lemma in_after i x : (i < nV)%nat -> In x (concat (skipn (S i) V)) -> exists i', (i < i')%nat /\ In x (Vi i').
  Proof.
    intros Hi H. apply in_concat in H as (l & Hl & Hx). apply In_nth_error in Hl as (j & Hj).
    rewrite nth_error_skipn in Hj. exists (S i + j)%nat. split; [lia|].
    rewrite (nth_error_nth V (S i + j) [] Hj). exact Hx.
  Qed.

  Lemma seek_in i q key : (i < nV)%nat -> c_seek c IL key = CAt i -> c_seek c (Vi i) key = CAt q ->
    c_seek c kvs key = CAt (before i + q).
  Proof.
    intros Hi Hix Hs. destruct (route_at key i Hix) as [Hlt _].
    apply c_seek_at in Hs as (kv & Hn & Hkv & Hpre).
    assert (Hq : (q < length (Vi i))%nat) by (apply nth_error_Some; rewrite Hn; discriminate).
    unfold c_seek. rewrite (concat_split V i Hi).
    rewrite (BlockEnc.split_nth (Vi i) q kv Hq) at 1. rewrite (nth_error_nth (Vi i) q kv Hn).
    replace (concat (firstn i V) ++ (firstn q (Vi i) ++ kv :: skipn (S q) (Vi i)) ++ concat (skipn (S i) V))
      with ((concat (firstn i V) ++ firstn q (Vi i)) ++ kv :: (skipn (S q) (Vi i) ++ concat (skipn (S i) V)))
      by (rewrite <- !app_assoc; reflexivity).
    rewrite (first_ge_split c key).
    - rewrite app_length, firstn_length. unfold before. f_equal. lia.
    - intros x Hin. apply in_app_or in Hin as [Hin|Hin].
      + apply in_before in Hin as (i' & H1 & H2). apply (Hlt i' x H1 H2).
      + apply In_nth_error in Hin as (q' & Hq').
        assert (L : (q' < q)%nat).
        { assert (q' < length (firstn q (Vi i)))%nat by (apply nth_error_Some; rewrite Hq'; discriminate).
          rewrite firstn_length in H. lia. }
        rewrite nth_error_firstn_lt in Hq' by exact L. apply (Hpre q' x L Hq').
    - exact Hkv.
  Qed.

  (* all of blocks 0..i is below key and every later block is not: the answer is the first entry after block i *)
  Lemma seek_after i key : (i < nV)%nat -> c_seek c IL key = CAt i -> c_seek c (Vi i) key = CEOI ->
    c_seek c kvs key = first_from (S i).
  Proof.
    intros Hi Hix Hs. destruct (route_at key i Hix) as [Hlt Hge].
    pose proof (c_seek_eoi c key (Vi i) Hs) as Hnone.
    assert (Hpre : forall x, In x (concat (firstn (S i) V)) -> cmp c (fst x) key = Lt).
    { intros x Hin. apply in_before in Hin as (i' & H1 & H2).
      destruct (Nat.eq_dec i' i) as [->|]; [apply Hnone; exact H2 | apply (Hlt i' x ltac:(lia) H2)]. }
    unfold first_from. destruct (Nat.ltb_spec (before (S i)) total) as [L|L].
    - (* the rest is non-empty: its first entry *)
      assert (Esplit : kvs = concat (firstn (S i) V) ++ concat (skipn (S i) V)) by (rewrite <- concat_app, firstn_skipn; reflexivity).
      destruct (concat (skipn (S i) V)) as [|kv rest] eqn:Er.
      + exfalso. rewrite Esplit, app_nil_r in L. unfold before in L. lia.
      + unfold c_seek. rewrite Esplit, (first_ge_split c key); [reflexivity | exact Hpre |].
        assert (Hin : In kv (concat (skipn (S i) V))) by (rewrite Er; left; reflexivity).
        apply (in_after i kv Hi) in Hin as (i' & H1 & H2). apply (Hge i' kv H1 H2).
    - unfold c_seek. rewrite (none_ge_fn c key kvs); [reflexivity|].
      intros x Hin. apply Hpre. unfold before in L.
      assert (Esplit : kvs = concat (firstn (S i) V) ++ concat (skipn (S i) V)) by (rewrite <- concat_app, firstn_skipn; reflexivity).
      assert (El : concat (skipn (S i) V) = []).
      { apply (f_equal (@length _)) in Esplit. rewrite app_length in Esplit. destruct (concat (skipn (S i) V)); [reflexivity | cbn [length] in Esplit; lia]. }
      rewrite Esplit, El, app_nil_r in Hin. exact Hin.
  Qed.

  Lemma seek_none key : c_seek c IL key = CEOI -> c_seek c kvs key = CEOI.
  Proof.
    intros H. unfold c_seek. rewrite (none_ge_fn c key kvs); [reflexivity|].
    intros x Hin. apply in_concat_nth in Hin as (i' & _ & Hin). apply (route_eoi key H i' x Hin).
  Qed.

  Lemma index_of t p : trep t p -> exists ip, RI (ti_index t) ip.
  Proof.
    intros (_ & _ & R). destruct p as [|g|]; [exists CSOI; apply R | | exists CEOI; apply R].
    destruct R as (i & q & d & R0 & _ & _ & _ & Ri & _). exists (CAt i). exact Ri.
  Qed.

  Lemma tnext_nodata t ip :
    ti_err t = None -> static t -> ti_data t = None -> RI (ti_index t) ip ->
    exists ok t', ti_next c rd t = (ok, t') /\ trep t' (first_from (nxt ip)) /\ ok = is_at (first_from (nxt ip)).
  Proof.
    intros He Hsl Hd R. unfold ti_next, ti_fuel.
    assert (H2 : (nV - nxt ip < S (bi_fuel (ti_index t)))%nat).
    { (* the index block holds at least one byte per entry *)
      unfold bi_fuel. pose proof (fuel_ok (ti_index t) ip R). lia. }
    revert H2. generalize (S (bi_fuel (ti_index t))). intros fu H2.
    cbn [ti_next_f]. unfold ti_has_err. rewrite He, Hd.
    apply next_chain; assumption.
  Qed.

  Lemma fuel_big t p : RI (ti_index t) p -> big_fuel (ti_fuel t).
  Proof. intros R. unfold big_fuel, ti_fuel, bi_fuel. pose proof (fuel_ok (ti_index t) p R). lia. Qed.

  Lemma tseek_spec t p key : trep t p ->
    exists ok t', ti_seek c rd t key = (ok, t') /\ trep t' (c_seek c kvs key) /\ ok = is_at (c_seek c kvs key).
  Proof.
    intros Ht. pose proof Ht as (He & Hsl & _). destruct (index_of t p Ht) as (ip & Ri).
    unfold ti_seek, ti_has_err. rewrite He.
    destruct (ro_step _ _ _ RI_ok (ti_index t) ip (OpSeek key) Ri) as (ok & ix & E & R' & Eok).
    cbn [bi_step c_step] in E, R', Eok. rewrite E.
    destruct (c_seek_cases c key IL) as [(i & Ei)|Ee].
    - rewrite Ei in R', Eok. subst ok. cbn [is_at negb].
      pose proof (ri_pos _ _ R') as Hi.
      set (t1 := ti_with t ix (ti_data t) None).
      destruct (set_data_fresh t1 i R' Hsl) as [(d0 & R0 & Ed & Hro & H0) | (Ed & Ev & Hst)].
      2:{ (* unreadable block, non-strict: skipped *)
        rewrite (enter_skipped _ (ti_next c rd) (ti_set_data c rd t1) Hsl Hst Ed).
        assert (Eqe : c_seek c (Vi i) key = CEOI) by (rewrite Ev; reflexivity).
        rewrite (seek_after i key Hi Ei Eqe).
        match goal with |- context [ti_next c rd ?T] =>
          destruct (tnext_nodata T (CAt i)) as (ok3 & t' & E3 & Ht3 & Eok3); [reflexivity | exact Hsl | reflexivity | exact R' |]
        end.
        rewrite E3. cbn [nxt] in Ht3, Eok3. exists ok3, t'. auto. }
      unfold ti_enter. rewrite Ed. cbn [d_lift].
      destruct (ro_step _ _ _ Hro d0 CSOI (OpSeek key) H0) as (ok2 & d' & E2 & R2 & Eok2).
      cbn [bi_step c_step] in E2, R2, Eok2. rewrite E2.
      destruct (c_seek_cases c key (Vi i)) as [(q & Eq)|Eqe].
      + rewrite Eq in R2, Eok2. subst ok2. cbn [is_at].
        rewrite (seek_in i q key Hi Ei Eq).
        eexists. eexists. split; [reflexivity|]. split; [|reflexivity].
        split; [reflexivity|]. split; [exact Hsl|].
        destruct (ro_get _ _ _ Hro d' q R2) as [_ Hn].
        exists i, q, d', R0.
        split; [reflexivity|]. split; [exact Hi|]. split; [apply nth_error_Some; rewrite Hn; discriminate|].
        split; [exact R'|]. split; [reflexivity|]. split; [exact Hro | exact R2].
      + rewrite Eqe in R2, Eok2. subst ok2. cbn [is_at].
        unfold ti_data_err. cbn [ti_with ti_data d_err].
        rewrite (ro_noerr _ _ _ Hro d' CEOI R2).
        rewrite (seek_after i key Hi Ei Eqe).
        match goal with |- context [ti_next c rd ?T] =>
          destruct (tnext_nodata T (CAt i)) as (ok3 & t' & E3 & Ht3 & Eok3); [reflexivity | exact Hsl | reflexivity | exact R' |]
        end.
        rewrite E3. cbn [nxt] in Ht3, Eok3. exists ok3, t'. auto.
    - rewrite Ee in R', Eok. subst ok. cbn [is_at negb].
      rewrite (seek_none key Ee).
      eexists. eexists. split; [reflexivity|]. split; [|reflexivity].
      unfold ti_index_err. cbn [ti_with ti_index]. rewrite (ri_noerr ix CEOI R').
      split; [reflexivity|]. split; [exact Hsl|]. split; [reflexivity | exact R'].
  Qed.

  (* ---------------- First / Last ---------------- *)
  Lemma c_first_IL : c_first IL = if Nat.ltb 0 nV then CAt 0 else CEOI.
  Proof. unfold c_first. rewrite len_V. destruct IL; reflexivity. Qed.

  Lemma c_last_IL : c_last IL = if Nat.ltb 0 nV then CAt (nV - 1) else CSOI.
  Proof. unfold c_last. rewrite len_V. destruct IL; reflexivity. Qed.

  Lemma next_fresh fu t i : (nV - i < fu)%nat ->
    ti_err t = None -> static t -> RI (ti_index t) (CAt i) -> fresh_at t i ->
    exists ok t', ti_next_f c rd fu t = (ok, t') /\ trep t' (first_from i) /\ ok = is_at (first_from i).
  Proof.
    intros Hf He Hsl R [(d0 & R0 & Ed & Hro & H0) | (Ed & Ev & Hst)]; pose proof (ri_pos _ _ R) as Hi.
    2:{ destruct fu as [|fu]; [lia|]. cbn [ti_next_f]. unfold ti_has_err. rewrite He, Ed. cbn [d_lift].
        rewrite (data_err_skipped t _ Hsl Hst).
        rewrite <- (first_from_empty i Hi Ev).
        destruct (next_chain fu (ti_clear_data (ti_with t (ti_index t) (Some (DEmpty ErrCorrupt)) None)) (CAt i))
          as (ok3 & t' & E3 & Ht & Eok3); try reflexivity.
        - cbn [nxt]. lia.
        - exact Hsl.
        - exact R.
        - exists ok3, t'. cbn [nxt] in Ht, Eok3. auto. }
    destruct fu as [|fu]; [lia|]. cbn [ti_next_f]. unfold ti_has_err. rewrite He, Ed. cbn [d_lift].
    destruct (ro_step _ _ _ Hro d0 CSOI OpNext H0) as (ok2 & d' & E2 & R2 & Eok2).
    cbn [bi_step c_step c_next] in E2, R2, Eok2. rewrite E2. unfold c_first in R2, Eok2.
    destruct (Vi i) as [|kv0 r0] eqn:Ev.
    - subst ok2. cbn [is_at]. unfold ti_data_err. cbn [ti_with ti_data d_err].
      rewrite (ro_noerr _ _ _ Hro d' CEOI R2).
      rewrite <- (first_from_empty i Hi Ev).
      destruct (next_chain fu (ti_clear_data (ti_with t (ti_index t) (Some (DBlock d')) None)) (CAt i))
        as (ok3 & t' & E3 & Ht & Eok3); try reflexivity.
      + cbn [nxt]. lia.
      + exact Hsl.
      + exact R.
      + exists ok3, t'. cbn [nxt] in Ht, Eok3. auto.
    - subst ok2. cbn [is_at]. rewrite (first_from_nonempty i Hi) by (rewrite Ev; discriminate).
      eexists. eexists. split; [reflexivity|]. split; [|reflexivity].
      split; [reflexivity|]. split; [exact Hsl|].
      exists i, 0%nat, d', R0. rewrite Ev. cbn [length].
      split; [lia|]. split; [exact Hi|]. split; [lia|]. split; [exact R|]. split; [reflexivity|].
      split; [exact Hro | exact R2].
  Qed.

  Lemma tfirst_spec t p : trep t p ->
    exists ok t', ti_first c rd t = (ok, t') /\ trep t' (c_first kvs) /\ ok = is_at (c_first kvs).
  Proof.
    intros Ht. pose proof Ht as (He & Hsl & _). destruct (index_of t p Ht) as (ip & Ri).
    unfold ti_first, ti_has_err. rewrite He.
    destruct (ro_step _ _ _ RI_ok (ti_index t) ip OpFirst Ri) as (ok & ix & E & R' & Eok).
    cbn [bi_step c_step] in E, R', Eok. rewrite E.
    assert (Ec : c_first kvs = first_from 0).
    { unfold c_first, first_from, before. cbn [firstn concat length]. destruct kvs; reflexivity. }
    rewrite Ec. rewrite c_first_IL in R', Eok.
    destruct (Nat.ltb_spec 0 nV) as [Hn0|Hn0].
    2:{ subst ok. cbn [is_at negb].
      rewrite (first_from_end 0 ltac:(lia)).
      eexists. eexists. split; [reflexivity|]. split; [|reflexivity].
      unfold ti_index_err. cbn [ti_with ti_index ti_clear_data]. rewrite (ri_noerr ix CEOI R').
      split; [reflexivity|]. split; [exact Hsl|]. split; [reflexivity | exact R']. }
    { subst ok. cbn [is_at negb].
      set (t1 := ti_with t ix (ti_data t) None).
      pose proof (set_data_fresh t1 0 R' Hsl) as F.
      unfold ti_next.
      apply (next_fresh (ti_fuel (ti_set_data c rd t1)) (ti_set_data c rd t1) 0); try assumption; try reflexivity.
      pose proof (fuel_big (ti_set_data c rd t1) (CAt 0) R'). unfold big_fuel in H. lia. }
  Qed.

  Lemma tlast_spec t p : trep t p ->
    exists ok t', ti_last c rd t = (ok, t') /\ trep t' (c_last kvs) /\ ok = is_at (c_last kvs).
  Proof.
    intros Ht. pose proof Ht as (He & Hsl & _). destruct (index_of t p Ht) as (ip & Ri).
    unfold ti_last, ti_has_err. rewrite He.
    destruct (ro_step _ _ _ RI_ok (ti_index t) ip OpLast Ri) as (ok & ix & E & R' & Eok).
    cbn [bi_step c_step] in E, R', Eok. rewrite E.
    assert (Ec : c_last kvs = last_upto nV).
    { unfold c_last, last_upto. rewrite (before_all nV ltac:(lia)).
      destruct kvs; [reflexivity|]. cbn [length Nat.ltb Nat.leb]. reflexivity. }
    rewrite Ec. rewrite c_last_IL in R', Eok.
    destruct (Nat.ltb_spec 0 nV) as [Hn0|Hn0].
    2:{ subst ok. cbn [is_at negb].
      assert (Hz : nV = 0%nat) by lia. rewrite Hz, last_upto_0.
      eexists. eexists. split; [reflexivity|]. split; [|reflexivity].
      unfold ti_index_err. cbn [ti_with ti_index ti_clear_data]. rewrite (ri_noerr ix CSOI R').
      split; [reflexivity|]. split; [exact Hsl|]. split; [reflexivity | exact R']. }
    { subst ok. cbn [is_at negb].
      set (i := (nV - 1)%nat) in *.
      assert (Hi : (i < nV)%nat) by (unfold i; lia).
      set (t1 := ti_with t ix (ti_data t) None).
      pose proof (set_data_fresh t1 i R' Hsl) as F.
      pose proof (enter_last (ti_prev c rd) (ti_set_data c rd t1) i eq_refl Hsl R' F) as HE.
      assert (EnV : last_upto nV = last_upto (S i)) by (f_equal; unfold i; lia). rewrite EnV.
      destruct (Vi i) as [|kv0 r0] eqn:Ev.
      + destruct HE as (t'' & E2 & He2 & Hsl2 & Hd2 & Hix2). rewrite E2.
        rewrite (last_upto_empty i Hi Ev).
        unfold ti_prev, ti_fuel.
        assert (H2 : (i < S (bi_fuel (ti_index t'')))%nat).
        { rewrite Hix2. unfold bi_fuel. cbn [ti_set_data ti_with ti_index]. change (ti_index t1) with ix. pose proof (fuel_ok ix (CAt i) R'). lia. }
        revert H2. generalize (S (bi_fuel (ti_index t''))). intros fu H2.
        cbn [ti_prev_f]. unfold ti_has_err. rewrite He2, Hd2.
        assert (A1 : (prv (CAt i) < fu)%nat) by (cbn [prv]; lia).
        assert (A2 : forall i0, CAt i = CAt i0 -> (i0 < nV)%nat) by (intros i0 Ei0; injection Ei0 as <-; exact Hi).
        assert (A3 : RI (ti_index t'') (CAt i)) by (rewrite Hix2; exact R').
        destruct (prev_chain fu t'' (CAt i) A1 A2 He2 Hsl2 Hd2 A3) as (ok3 & t' & E3 & Ht3 & Eok3).
        rewrite E3. cbn [prv] in Ht3, Eok3. exists ok3, t'. auto.
      + destruct HE as (t' & E2 & Ht'). rewrite E2.
        rewrite (last_upto_nonempty i Hi) by (rewrite Ev; discriminate). exists true, t'. rewrite Ev. auto. }
  Qed.

  (* ---------------- the step function and runs ---------------- *)
  Lemma tstep_refines t p o : trep t p ->
    exists ok t', ti_step c rd t o = (ok, t') /\ trep t' (c_step c kvs p o) /\ ok = is_at (c_step c kvs p o).
  Proof.
    intros Ht. destruct (index_of t p Ht) as (ip & Ri).
    destruct o as [| |k| |]; cbn [ti_step c_step].
    - apply (tfirst_spec t p Ht).
    - apply (tlast_spec t p Ht).
    - apply (tseek_spec t p k Ht).
    - unfold ti_next. apply tnext_spec; [apply (fuel_big t ip Ri) | exact Ht].
    - unfold ti_prev. apply tprev_spec; [apply (fuel_big t ip Ri) | exact Ht].
  Qed.

  Lemma trep_get t g : trep t (CAt g) -> ti_get t = nth_error kvs g.
  Proof.
    intros (_ & _ & (i & q & d & R0 & -> & Hi & Hq & _ & Ed & Hro & Rd)).
    unfold ti_get. rewrite Ed. cbn [d_get]. rewrite (gpos_nth i q Hi Hq).
    destruct (ro_get _ _ _ Hro d q Rd) as [Hv Hn]. unfold bi_get. rewrite Hv, Hn. reflexivity.
  Qed.

  Theorem trun_refines ops : forall t p, trep t p -> fst (ti_run c rd t ops) = c_run c kvs p ops.
  Proof.
    induction ops as [|o r IH]; intros t p Ht; cbn [ti_run c_run]; [reflexivity|].
    destruct (tstep_refines t p o Ht) as (ok & t' & E & Ht' & Eok). rewrite E.
    specialize (IH t' _ Ht'). destruct (ti_run c rd t' r) as [l tf]. cbn [fst] in *. rewrite IH. f_equal.
    destruct (c_step c kvs p o) as [|g|]; subst ok; cbn [c_get is_at]; try reflexivity.
    apply trep_get. exact Ht'.
  Qed.
End Indexed.
