(* Codec/JournalLayoutProofs.v — list-level facts about the layout loop (lay_write_st): fuel
   irrelevance, finalisation, and that writing q1 and then q2 is writing q1 ++ q2 (used for
   records written through several Write calls). *)
From GL Require Import Base.Bytes Base.BytesProofs Codec.Journal Codec.JournalSpec Codec.JournalLemmas.
From Coq Require Import PeanoNat Lia ZifyN ZifyNat ZifyBool.

Section LayoutProofs.
  Variable p : jparams.
  Hypothesis pok : jparams_ok p.

  Let H7 : hs p = 7.
  Proof. apply pok. Qed.
  Let Hb : hs p < bs p.
  Proof. apply pok. Qed.

  Definition fits (l : lay) (d : bytes) : Prop := bsize p (l_open l) + hs p + lenN d <= bs p.

  Lemma len_dropN_lt (n : N) (q : bytes) : 1 <= n -> q <> [] -> (length (dropN n q) < length q)%nat.
  Proof.
    intros Hn Hq. assert (L : lenN (dropN n q) <= lenN q - 1) by (rewrite lenN_dropN; lia).
    destruct q; [congruence|]. unfold lenN in L. cbn [length] in *. lia.
  Qed.

  (* fuel beyond the length of the data is irrelevant *)
  Lemma lws_fuel : forall f1 f2 l f d q, fits l d ->
    (length q <= f1)%nat -> (length q <= f2)%nat ->
    lay_write_st p f1 l f d q = lay_write_st p f2 l f d q.
  Proof.
    induction f1 as [|f1 IH]; intros f2 l f d q Hfit H1 H2.
    - destruct q; [|cbn in H1; lia]. destruct f2; reflexivity.
    - destruct q as [|x q]; [destruct f2; reflexivity|].
      destruct f2 as [|f2]; [cbn in H2; lia|]. cbn [lay_write_st].
      unfold fits in Hfit.
      destruct (bsize p (l_open l) + hs p + lenN d =? bs p) eqn:E.
      + change (bsize p (l_open (lay_close (lay_push l (mk (nonlast_type p f) d))))) with 0.
        change (lenN (@nil N)) with 0.
        set (n := N.min (bs p - (0 + hs p + 0)) (lenN (x :: q))).
        assert (Hn : 1 <= n) by (unfold n; rewrite lenN_cons; lia).
        pose proof (len_dropN_lt n (x :: q) Hn ltac:(discriminate)) as Hl. cbn [length] in *.
        apply IH; [|lia|lia]. unfold fits. cbn [app]. change (bsize p (l_open (lay_close _))) with 0.
        rewrite lenN_takeN. lia.
      + set (n := N.min (bs p - (bsize p (l_open l) + hs p + lenN d)) (lenN (x :: q))).
        assert (Hn : 1 <= n) by (unfold n; rewrite lenN_cons; lia).
        pose proof (len_dropN_lt n (x :: q) Hn ltac:(discriminate)) as Hl. cbn [length] in *.
        apply IH; [|lia|lia]. unfold fits. rewrite lenN_app, lenN_takeN. lia.
  Qed.

  (* lay_write is lay_write_st followed by the finalisation of the pending chunk *)
  Lemma lws_fin : forall fuel l f d q, fits l d -> (length q <= fuel)%nat ->
    lay_write p fuel l f d q =
    let '(l', f', d') := lay_write_st p fuel l f d q in lay_push l' (mk (last_type p f') d').
  Proof.
    induction fuel as [|fuel IH]; intros l f d q Hfit Hq.
    - destruct q; [reflexivity|cbn in Hq; lia].
    - destruct q as [|x q]; [reflexivity|]. cbn [lay_write lay_write_st]. unfold fits in Hfit.
      destruct (bsize p (l_open l) + hs p + lenN d =? bs p) eqn:E.
      + change (bsize p (l_open (lay_close (lay_push l (mk (nonlast_type p f) d))))) with 0.
        change (lenN (@nil N)) with 0.
        set (n := N.min (bs p - (0 + hs p + 0)) (lenN (x :: q))).
        assert (Hn : 1 <= n) by (unfold n; rewrite lenN_cons; lia).
        pose proof (len_dropN_lt n (x :: q) Hn ltac:(discriminate)) as Hl. cbn [length] in *.
        apply IH; [|lia]. unfold fits. cbn [app]. change (bsize p (l_open (lay_close _))) with 0.
        rewrite lenN_takeN. lia.
      + set (n := N.min (bs p - (bsize p (l_open l) + hs p + lenN d)) (lenN (x :: q))).
        assert (Hn : 1 <= n) by (unfold n; rewrite lenN_cons; lia).
        pose proof (len_dropN_lt n (x :: q) Hn ltac:(discriminate)) as Hl. cbn [length] in *.
        apply IH; [|lia]. unfold fits. rewrite lenN_app, lenN_takeN. lia.
  Qed.

  (* the state reached still fits *)
  Lemma lws_fits : forall fuel l f d q, fits l d ->
    let '(l', _, d') := lay_write_st p fuel l f d q in fits l' d'.
  Proof.
    induction fuel as [|fuel IH]; intros l f d q Hfit.
    - destruct q; exact Hfit.
    - destruct q as [|x q]; [exact Hfit|]. cbn [lay_write_st]. unfold fits in Hfit.
      destruct (bsize p (l_open l) + hs p + lenN d =? bs p) eqn:E.
      + apply IH. unfold fits. cbn [app]. change (bsize p (l_open (lay_close _))) with 0.
        change (lenN (@nil N)) with 0. rewrite lenN_takeN. lia.
      + apply IH. unfold fits. rewrite lenN_app, lenN_takeN. lia.
  Qed.

  (* when the block is full, the step is the flush followed by the step from the new block *)
  Lemma lws_full fuel l f d q :
    q <> [] -> bsize p (l_open l) + hs p + lenN d = bs p ->
    lay_write_st p (S fuel) l f d q =
    lay_write_st p (S fuel) (lay_close (lay_push l (mk (nonlast_type p f) d))) false [] q.
  Proof.
    intros Hq E. destruct q as [|x q]; [congruence|]. cbn [lay_write_st].
    replace (bsize p (l_open l) + hs p + lenN d =? bs p) with true by lia.
    change (bsize p (l_open (lay_close (lay_push l (mk (nonlast_type p f) d))))) with 0.
    change (lenN (@nil N)) with 0.
    replace (0 + hs p + 0 =? bs p) with false by lia. reflexivity.
  Qed.

  (* data that fits into the room left in the block is simply appended to the pending chunk *)
  Lemma lws_fit fuel l f d a b :
    fits l d -> lenN a <= bs p - (bsize p (l_open l) + hs p + lenN d) ->
    (length (a ++ b) <= fuel)%nat ->
    lay_write_st p fuel l f d (a ++ b) = lay_write_st p fuel l f (d ++ a) b.
  Proof.
    intros Hfit Ha Hf. unfold fits in Hfit.
    destruct a as [|y a]; [rewrite app_nil_r; reflexivity|].
    assert (Hroom : bsize p (l_open l) + hs p + lenN d < bs p) by (rewrite lenN_cons in Ha; lia).
    destruct fuel as [|fuel]; [cbn in Hf; lia|].
    destruct b as [|z b].
    - rewrite app_nil_r. cbn [lay_write_st].
      replace (bsize p (l_open l) + hs p + lenN d =? bs p) with false by lia.
      replace (N.min (bs p - (bsize p (l_open l) + hs p + lenN d)) (lenN (y :: a))) with (lenN (y :: a)) by lia.
      rewrite takeN_all, dropN_all by lia. destruct fuel; reflexivity.
    - change ((y :: a) ++ z :: b) with (y :: (a ++ z :: b)). cbn [lay_write_st].
      change (y :: (a ++ z :: b)) with ((y :: a) ++ z :: b).
      replace (bsize p (l_open l) + hs p + lenN d =? bs p) with false by lia.
      set (room := bs p - (bsize p (l_open l) + hs p + lenN d)) in *.
      destruct (bsize p (l_open l) + hs p + lenN (d ++ y :: a) =? bs p) eqn:E.
      + (* a fills the block exactly *)
        assert (Er : lenN (y :: a) = room) by (rewrite lenN_app in E; lia).
        replace (N.min room (lenN ((y :: a) ++ z :: b))) with (lenN (y :: a))
          by (rewrite lenN_app, (lenN_cons z); lia).
        rewrite takeN_app_exact, dropN_app_exact by reflexivity.
        change (bsize p (l_open (lay_close (lay_push l (mk (nonlast_type p f) (d ++ y :: a)))))) with 0.
        change (lenN (@nil N)) with 0.
        assert (Hfit2 : fits l (d ++ y :: a)) by (unfold fits; rewrite lenN_app in *; lia).
        rewrite (lws_fuel fuel (S fuel) l f (d ++ y :: a) (z :: b) Hfit2);
          [|rewrite app_length in Hf; cbn [length] in *; lia|rewrite app_length in Hf; cbn [length] in *; lia].
        cbn [lay_write_st]. rewrite E.
        change (bsize p (l_open (lay_close (lay_push l (mk (nonlast_type p f) (d ++ y :: a)))))) with 0.
        change (lenN (@nil N)) with 0. reflexivity.
      + rewrite lenN_app in E.
        set (n' := N.min (bs p - (bsize p (l_open l) + hs p + lenN (d ++ y :: a))) (lenN (z :: b))).
        assert (En : N.min room (lenN ((y :: a) ++ z :: b)) = lenN (y :: a) + n').
        { unfold n'. rewrite !lenN_app. lia. }
        rewrite En. rewrite takeN_app_ge, dropN_app_ge by lia.
        replace (lenN (y :: a) + n' - lenN (y :: a)) with n' by lia.
        rewrite <- app_assoc. reflexivity.
  Qed.

  (* writing q1 and then q2 is writing q1 ++ q2 *)
  Lemma lws_app : forall k q1, (length q1 <= k)%nat -> forall fuel l f d q2,
    fits l d -> (length (q1 ++ q2) <= fuel)%nat ->
    lay_write_st p fuel l f d (q1 ++ q2) =
    let '(l1, f1, d1) := lay_write_st p fuel l f d q1 in lay_write_st p fuel l1 f1 d1 q2.
  Proof.
    induction k as [|k IH]; intros q1 Hk fuel l f d q2 Hfit Hf.
    - destruct q1; [|cbn in Hk; lia]. cbn [app]. destruct fuel; reflexivity.
    - destruct q1 as [|x q1]; [cbn [app]; destruct fuel; reflexivity|].
      destruct fuel as [|fuel]; [cbn in Hf; lia|].
      (* normalise: start from a block with room *)
      assert (Hgen : forall l f d, fits l d -> bsize p (l_open l) + hs p + lenN d < bs p ->
                lay_write_st p (S fuel) l f d ((x :: q1) ++ q2) =
                let '(l1, f1, d1) := lay_write_st p (S fuel) l f d (x :: q1) in
                lay_write_st p (S fuel) l1 f1 d1 q2).
      { clear l f d Hfit. intros l f d Hfit Hroom.
        set (room := bs p - (bsize p (l_open l) + hs p + lenN d)).
        destruct (lenN (x :: q1) <=? room) eqn:Efit.
        - rewrite (lws_fit (S fuel) l f d (x :: q1) q2 Hfit) by (fold room; lia || exact Hf).
          rewrite <- (app_nil_r (x :: q1)) at 2.
          rewrite (lws_fit (S fuel) l f d (x :: q1) [] Hfit);
            [reflexivity | fold room; lia | rewrite app_nil_r; rewrite app_length in Hf; lia].
        - set (a := takeN room (x :: q1)). set (q1' := dropN room (x :: q1)).
          assert (Eq1 : x :: q1 = a ++ q1') by (symmetry; apply takeN_dropN).
          assert (La : lenN a = room) by (unfold a; rewrite lenN_takeN; lia).
          assert (Lq : (length q1' < length (x :: q1))%nat)
            by (apply len_dropN_lt; [unfold room; lia|discriminate]).
          rewrite Eq1, <- app_assoc.
          assert (Hlen : (length (a ++ q1') = length (x :: q1))%nat) by (rewrite <- Eq1; reflexivity).
          rewrite (lws_fit (S fuel) l f d a (q1' ++ q2) Hfit);
            [|fold room; lia|rewrite app_assoc, app_length, Hlen; rewrite app_length in Hf; exact Hf].
          rewrite (lws_fit (S fuel) l f d a q1' Hfit);
            [|fold room; lia|rewrite Hlen; rewrite app_length in Hf; lia].
          apply IH.
          + cbn [length] in *. lia.
          + unfold fits. rewrite lenN_app. unfold fits in Hfit. lia.
          + rewrite app_length in *. cbn [length] in *. lia. }
      unfold fits in Hfit.
      destruct (bsize p (l_open l) + hs p + lenN d =? bs p) eqn:E.
      + rewrite (lws_full fuel l f d ((x :: q1) ++ q2)) by (discriminate || lia).
        rewrite (lws_full fuel l f d (x :: q1)) by (discriminate || lia).
        apply Hgen; unfold fits; change (bsize p (l_open (lay_close _))) with 0;
          change (lenN (@nil N)) with 0; lia.
      + apply Hgen; [exact Hfit|lia].
  Qed.
End LayoutProofs.
