(* Codec/TableWriteProofs.v — Stage C, the writer: what Writer.Append / Close produce.
   Part 1 (this section): the run of the writer over a strictly increasing list keeps an
   invariant relating its state to a ghost decomposition of the input into finished blocks,
   the separators already given to the index writer, and the block being built; the separators
   satisfy   last key of block i <= sep i < first key of block i+1   (from the comparer contract;
   the Go test len(key) == 0 for "no next key" needs the empty key to be least). *)
From GL Require Import Base.Bytes Base.BytesProofs Base.Varint Base.VarintProofs Base.Order Base.OrderProofs
  Base.Cursor Base.CursorProofs Codec.Block Codec.BlockEnc Codec.BlockProofs Codec.Table Codec.TableProofs.
From Coq Require Import Arith ZArith Lia ZifyN ZifyNat ZifyBool.

Local Open Scope N_scope.

Notation kv := (bytes * bytes)%type (only parsing).

(* first and last key of a block *)
Definition fk (b : list kv) : bytes := fst (hd ([], []) b).
Definition lk (b : list kv) : bytes := fst (last b ([], [])).

Lemma last_key_lk (b : list kv) prev : b <> [] -> last_key prev b = lk b.
Proof.
  intros H. destruct (exists_last H) as (l & [k v] & ->). unfold last_key, lk.
  rewrite rev_app_distr, last_last. reflexivity.
Qed.

Section Writer.
  Variable tp : tparams.
  Variable crc : bytes -> N.
  Variable compress : bytes -> bytes.
  Variable c : comparer.
  Hypothesis c_ok : comparer_ok c.
  Hypothesis empty_least : forall k, cmp c [] k <> Gt.
  Variable blockSize : N.
  Variable ri : N.
  Hypothesis ri_pos : 1 <= ri.
  Variable snappy : bool.

  Local Notation wblock off content := (write_block tp crc compress off content snappy).
  Local Notation app1 w k v := (tw_append tp crc compress c blockSize ri snappy w k v).

  (* bytes and handle length a block contributes *)
  Definition wbytes (b : list kv) : bytes := fst (wblock 0 (block_build ri b)).
  Definition plen (b : list kv) : N := bh_len (snd (wblock 0 (block_build ri b))).

  Lemma write_block_off off content :
    wblock off content = (fst (wblock 0 content), mkBH off (bh_len (snd (wblock 0 content)))).
  Proof. unfold write_block. reflexivity. Qed.

  Fixpoint handles_from (off : N) (bl : list (list kv)) : list bhandle :=
    match bl with
    | [] => []
    | b :: r => mkBH off (plen b) :: handles_from (off + lenN (wbytes b)) r
    end.

  Definition out_of (bl : list (list kv)) : bytes := concat (map wbytes bl).

  Lemma handles_from_app off a b :
    handles_from off (a ++ b) = handles_from off a ++ handles_from (off + lenN (out_of a)) b.
  Proof.
    revert off. induction a as [|x a IH]; intros off; cbn [app handles_from].
    - unfold out_of. cbn. rewrite N.add_0_r. reflexivity.
    - rewrite IH. unfold out_of. cbn [map concat]. rewrite lenN_app. do 3 f_equal. lia.
  Qed.

  Lemma handles_from_length off bl : length (handles_from off bl) = length bl.
  Proof. revert off. induction bl as [|b r IH]; intros off; cbn [handles_from length]; [reflexivity | rewrite IH; reflexivity]. Qed.

  (* ---------------- the ghost decomposition ---------------- *)
  Record ghost := mkG {
    g_done : list (list kv);      (* finished data blocks *)
    g_seps : list bytes;          (* separators already appended to the index block *)
    g_cur : list kv               (* pairs of the block being built *)
  }.

  Definition g_all (g : ghost) : list (list kv) :=
    g_done g ++ (match g_cur g with [] => [] | _ => [g_cur g] end).

  (* the separator law against the blocks known so far *)
  Definition seps_ok (seps : list bytes) (bl : list (list kv)) : Prop :=
    forall i, (i < length seps)%nat ->
      cmp c (lk (nth i bl [])) (nth i seps []) <> Gt /\
      ((S i < length bl)%nat -> cmp c (nth i seps []) (fk (nth (S i) bl [])) = Lt).

  Definition index_of (seps : list bytes) (hs : list bhandle) : bwriter :=
    bw_append_all 1 bw_empty (combine seps (map encode_bh hs)).

  Record winv (w : twriter) (g : ghost) : Prop := {
    wi_sorted : sorted c (concat (g_done g) ++ g_cur g);
    wi_n : tw_n w = lenN (concat (g_done g) ++ g_cur g);
    wi_ne : Forall (fun b => b <> []) (g_done g);
    wi_out : tw_out w = out_of (g_done g);
    wi_index : tw_index w = index_of (g_seps g) (firstn (length (g_seps g)) (handles_from 0 (g_done g)));
    wi_seps : seps_ok (g_seps g) (g_all g);
    wi_mode :
      (* a finished block waits for its separator *)
      (g_cur g = [] /\ g_done g <> [] /\ S (length (g_seps g)) = length (g_done g) /\
       tw_pending w = last (handles_from 0 (g_done g)) bh0 /\ bh_len (tw_pending w) <> 0 /\
       tw_data w = mkBW [] 0 (lk (last (g_done g) [])) [])
      \/
      (* a block is being built (or nothing has been appended yet / Close has flushed) *)
      (tw_pending w = mkBH 0 0 /\ length (g_seps g) = length (g_done g) /\
       tw_data w = bw_append_all ri (mkBW [] 0 [] []) (g_cur g) /\
       (g_cur g = [] -> g_done g = []))
  }.

  Hypothesis plen_pos : forall b, plen b <> 0.

  Lemma winv_empty : winv tw_empty (mkG [] [] []).
  Proof.
    constructor; cbn [g_done g_seps g_cur tw_empty tw_n tw_out tw_index tw_pending tw_data concat app].
    - exact I.
    - reflexivity.
    - constructor.
    - reflexivity.
    - reflexivity.
    - intros i Hi. cbn in Hi. lia.
    - right. repeat split.
  Qed.

  (* keys of a sorted list are below a later key *)
  Lemma sorted_app_last (l : list kv) k v x :
    sorted c (l ++ [(k, v)]) -> In x l -> cmp c (fst x) k = Lt.
  Proof.
    intros Hs Hin. destruct x as [kx vx]. apply In_nth_error in Hin as (i & Hi).
    assert (Hl : (i < length l)%nat) by (apply nth_error_Some; congruence).
    apply (sorted_nth c c_ok _ i (length l) kx vx k v Hs Hl).
    - rewrite nth_error_app1 by exact Hl. exact Hi.
    - rewrite nth_error_app2 by lia. rewrite Nat.sub_diag. reflexivity.
  Qed.

  Lemma lk_in (b : list kv) : b <> [] -> In (last b ([], [])) b.
  Proof.
    intros H. destruct (exists_last H) as (l & x & ->). rewrite last_last. apply in_or_app. right. left. reflexivity.
  Qed.

  Lemma sorted_prefix (a b : list kv) : sorted c (a ++ b) -> sorted c a.
  Proof.
    intros Hs. apply sorted_nth_intro. intros i ki vi kj vj H1 H2.
    apply (sorted_nth c c_ok _ i (S i) ki vi kj vj Hs); [lia| |].
    - rewrite nth_error_app1 by (apply nth_error_Some; rewrite H1; discriminate). exact H1.
    - rewrite nth_error_app1 by (apply nth_error_Some; rewrite H2; discriminate). exact H2.
  Qed.

  (* the separator chosen by flushPendingBH(key) for a non-empty next key *)
  Lemma flush_sep_law prev key :
    key <> [] -> cmp c prev key = Lt ->
    let s := match sep c prev key with Some s => s | None => prev end in
    cmp c prev s <> Gt /\ cmp c s key = Lt.
  Proof.
    intros _ Hlt. destruct (sep c prev key) as [s|] eqn:E; cbn zeta.
    - apply (sep_ok c c_ok) in E. exact E.
    - split; [apply (OrderProofs.le_refl c c_ok) | exact Hlt].
  Qed.

  Lemma flush_succ_law prev :
    let s := match succ c prev with Some s => s | None => prev end in cmp c prev s <> Gt.
  Proof.
    destruct (succ c prev) as [s|] eqn:E; cbn zeta.
    - apply (succ_ok c c_ok) in E. exact E.
    - apply (OrderProofs.le_refl c c_ok).
  Qed.

  Lemma nth_last {A} (l : list A) d : l <> [] -> nth (length l - 1) l d = last l d.
  Proof.
    intros H. destruct (exists_last H) as (l' & x & ->). rewrite last_last, app_length. cbn [length].
    replace (length l' + 1 - 1)%nat with (length l') by lia. rewrite app_nth2 by lia. rewrite Nat.sub_diag. reflexivity.
  Qed.

  Lemma firstn_handles_snoc (bl : list (list kv)) :
    bl <> [] ->
    firstn (length bl) (handles_from 0 bl) =
    firstn (length bl - 1) (handles_from 0 bl) ++ [last (handles_from 0 bl) bh0].
  Proof.
    intros H. destruct (exists_last H) as (l' & x & ->).
    rewrite handles_from_app. cbn [handles_from]. rewrite app_length. cbn [length].
    replace (length l' + 1 - 1)%nat with (length l') by lia.
    rewrite last_last.
    rewrite firstn_app, handles_from_length.
    replace (length l' + 1 - length l')%nat with 1%nat by lia.
    rewrite (firstn_all2 (handles_from 0 l')) by (rewrite handles_from_length; lia).
    rewrite firstn_app, handles_from_length, Nat.sub_diag. cbn [firstn].
    rewrite (firstn_all2 (handles_from 0 l')) by (rewrite handles_from_length; lia).
    rewrite app_nil_r. reflexivity.
  Qed.

  Lemma combine_app' {A B} (a1 : list A) : forall (b1 : list B) a2 b2, length a1 = length b1 ->
    combine (a1 ++ a2) (b1 ++ b2) = combine a1 b1 ++ combine a2 b2.
  Proof.
    induction a1 as [|x a1 IH]; intros [|y b1] a2 b2 H; cbn [length] in H; try lia; [reflexivity|].
    cbn [app combine]. f_equal. apply IH. lia.
  Qed.

  Lemma index_of_snoc seps hs s h : length seps = length hs ->
    bw_append 1 (index_of seps hs) s (encode_bh h) = index_of (seps ++ [s]) (hs ++ [h]).
  Proof.
    intros Hl. unfold index_of, bw_append_all.
    rewrite map_app. cbn [map]. rewrite combine_app' by (rewrite map_length; exact Hl).
    cbn [combine]. rewrite fold_left_app. reflexivity.
  Qed.

  (* ---------------- flushPendingBH ---------------- *)
  (* in pending mode, with a next key that is larger than everything so far *)
  Lemma flush_pending_next w g key :
    winv w g -> g_cur g = [] -> g_done g <> [] -> S (length (g_seps g)) = length (g_done g) ->
    tw_pending w = last (handles_from 0 (g_done g)) bh0 -> bh_len (tw_pending w) <> 0 ->
    tw_data w = mkBW [] 0 (lk (last (g_done g) [])) [] ->
    key <> [] -> cmp c (lk (last (g_done g) [])) key = Lt ->
    let s := match sep c (lk (last (g_done g) [])) key with Some s => s | None => lk (last (g_done g) []) end in
    let w' := tw_flush_pending c w key in
    tw_out w' = tw_out w /\ tw_n w' = tw_n w /\ tw_pending w' = mkBH 0 0 /\
    tw_data w' = mkBW [] 0 [] [] /\ tw_curkeys w' = tw_curkeys w /\ tw_fblocks w' = tw_fblocks w /\
    tw_index w' = index_of (g_seps g ++ [s]) (firstn (length (g_done g)) (handles_from 0 (g_done g))).
  Proof.
    intros Hinv Hc Hd Hl Hp Hpl Hdata Hk Hlt s w'.
    unfold w', tw_flush_pending.
    replace (bh_len (tw_pending w) =? 0) with false by lia.
    rewrite Hdata. cbn [bw_prev bw_buf bw_n bw_restarts tw_out tw_n tw_pending tw_data tw_curkeys tw_fblocks tw_index].
    destruct key as [|k0 kr]; [congruence|]. fold s.
    repeat split.
    rewrite (wi_index w g Hinv), Hp.
    rewrite index_of_snoc.
    - f_equal. rewrite (firstn_handles_snoc (g_done g) Hd). f_equal. f_equal. lia.
    - rewrite firstn_length, handles_from_length. lia.
  Qed.

  (* ---------------- one Append ---------------- *)
  Lemma seps_ok_prefix seps bl bl' :
    seps_ok seps bl -> (length seps <= length bl)%nat ->
    (forall i, (i < length bl)%nat -> nth i bl' [] = nth i bl []) ->
    (length bl <= length bl')%nat ->
    (forall i, (i < length seps)%nat -> S i = length bl -> (S i < length bl')%nat ->
       cmp c (nth i seps []) (fk (nth (S i) bl' [])) = Lt) ->
    seps_ok seps bl'.
  Proof.
    intros Hok Hl Hsame Hlen Hnew i Hi. destruct (Hok i Hi) as [H1 H2]. split.
    - rewrite Hsame by lia. exact H1.
    - intros HS. destruct (Nat.lt_ge_cases (S i) (length bl)) as [L|L].
      + rewrite Hsame by lia. apply H2. exact L.
      + apply Hnew; try assumption. lia.
  Qed.

  Lemma bw_append_all_snoc w l k v :
    bw_append ri (bw_append_all ri w l) k v = bw_append_all ri w (l ++ [(k, v)]).
  Proof. unfold bw_append_all. rewrite fold_left_app. reflexivity. Qed.

  Lemma fk_app_cons (x : kv) l l' : fk ((x :: l) ++ l') = fk (x :: l).
  Proof. reflexivity. Qed.

  Lemma lk_snoc (l : list kv) k v : lk (l ++ [(k, v)]) = k.
  Proof. unfold lk. rewrite last_last. reflexivity. Qed.

  Lemma last_key_of_sorted (done : list (list kv)) (cur : list kv) :
    Forall (fun b => b <> []) done -> (cur = [] -> done <> []) ->
    In (last (match cur with [] => last done [] | _ => cur end) ([], [])) (concat done ++ cur).
  Proof.
    intros Hne Hc. destruct cur as [|x cur'].
    - rewrite app_nil_r. specialize (Hc eq_refl).
      apply in_concat. exists (last done []). split.
      + destruct (exists_last Hc) as (l & b & ->). rewrite last_last. apply in_or_app. right. left. reflexivity.
      + apply lk_in. rewrite Forall_forall in Hne. apply Hne.
        destruct (exists_last Hc) as (l & b & ->). rewrite last_last. apply in_or_app. right. left. reflexivity.
    - apply in_or_app. right. apply lk_in. discriminate.
  Qed.

  Theorem append_inv w g k v :
    winv w g -> sorted c ((concat (g_done g) ++ g_cur g) ++ [(k, v)]) ->
    exists w' g', app1 w k v = Some w' /\ winv w' g' /\
      concat (g_done g') ++ g_cur g' = (concat (g_done g) ++ g_cur g) ++ [(k, v)].
  Proof.
    intros Hinv Hs.
    pose proof (wi_ne w g Hinv) as Hne.
    (* every earlier key is below k *)
    assert (Hbelow : forall x, In x (concat (g_done g) ++ g_cur g) -> cmp c (fst x) k = Lt)
      by (intros x Hin; apply (sorted_app_last _ k v x Hs Hin)).
    (* phase 1: the order check and flushPendingBH leave a building-mode state *)
    assert (P1 : exists seps1,
      let w1 := tw_flush_pending c w k in
      (if (0 <? tw_n w) && negb (match cmp c (bw_prev (tw_data w)) k with Lt => true | _ => false end) then false else true) = true /\
      tw_out w1 = tw_out w /\ tw_n w1 = tw_n w /\ tw_pending w1 = mkBH 0 0 /\
      tw_data w1 = bw_append_all ri (mkBW [] 0 [] []) (g_cur g) /\
      tw_index w1 = index_of seps1 (firstn (length seps1) (handles_from 0 (g_done g))) /\
      length seps1 = length (g_done g) /\
      seps_ok seps1 (g_done g ++ [g_cur g ++ [(k, v)]])).
    { destruct (wi_mode w g Hinv) as [(Hc & Hd & Hl & Hp & Hpl & Hdata) | (Hp & Hl & Hdata & Hcd)].
      - (* pending *)
        assert (Hlast : In (last (last (g_done g) []) ([], [])) (concat (g_done g) ++ g_cur g)).
        { pose proof (last_key_of_sorted (g_done g) (g_cur g) Hne ltac:(intros _; exact Hd)) as H. rewrite Hc in H. rewrite Hc. exact H. }
        pose proof (Hbelow _ Hlast) as Hlt. fold (lk (last (g_done g) [])) in Hlt.
        assert (Hk : k <> []).
        { intros ->. apply (cmp_lt_gt c c_ok) in Hlt. apply (empty_least _ Hlt). }
        destruct (flush_pending_next w g k Hinv Hc Hd Hl Hp Hpl Hdata Hk Hlt) as (E1 & E2 & E3 & E4 & _ & _ & E7).
        set (s := match sep c (lk (last (g_done g) [])) k with Some s => s | None => lk (last (g_done g) []) end) in *.
        exists (g_seps g ++ [s]). cbv zeta.
        split.
        { rewrite Hdata. cbn [bw_prev]. rewrite Hlt. rewrite andb_false_r. reflexivity. }
        split; [exact E1|]. split; [exact E2|]. split; [exact E3|]. split; [rewrite E4, Hc; reflexivity|].
        split; [rewrite E7, app_length; cbn [length]; f_equal; f_equal; lia|].
        split; [rewrite app_length; cbn [length]; lia|].
        (* the separator law, extended by s *)
        pose proof (flush_sep_law (lk (last (g_done g) [])) k Hk Hlt) as [Hs1 Hs2]. fold s in Hs1, Hs2.
        rewrite Hc. cbn [app].
        intros i Hi. rewrite app_length in Hi. cbn [length] in Hi.
        destruct (Nat.eq_dec i (length (g_seps g))) as [->|Hni].
        + assert (Esep : nth (length (g_seps g)) (g_seps g ++ [s]) [] = s)
            by (rewrite app_nth2 by lia; rewrite Nat.sub_diag; reflexivity).
          assert (Eblk : nth (length (g_seps g)) (g_done g ++ [[(k, v)]]) [] = last (g_done g) []).
          { rewrite app_nth1 by lia. replace (length (g_seps g)) with (length (g_done g) - 1)%nat by lia.
            apply nth_last. exact Hd. }
          assert (Enext : nth (S (length (g_seps g))) (g_done g ++ [[(k, v)]]) [] = [(k, v)]).
          { rewrite Hl. rewrite app_nth2 by lia. rewrite Nat.sub_diag. reflexivity. }
          rewrite Esep, Eblk, Enext. split; [exact Hs1 | intros _; exact Hs2].
        + assert (Hi' : (i < length (g_seps g))%nat) by lia.
          destruct (wi_seps w g Hinv i Hi') as [H1 H2]. unfold g_all in H1, H2. rewrite Hc, app_nil_r in H1, H2.
          rewrite (app_nth1 (g_seps g) [s] [] Hi').
          rewrite (app_nth1 (g_done g) [[(k, v)]] []) by lia. split; [exact H1|].
          intros _. rewrite (app_nth1 (g_done g) [[(k, v)]] []) by lia. apply H2. lia.
      - (* building *)
        exists (g_seps g). cbv zeta. unfold tw_flush_pending. rewrite Hp. cbn [bh_len N.eqb].
        split.
        { destruct (N.ltb_spec 0 (tw_n w)) as [Hpos|Hz]; [|reflexivity]. cbn [andb].
          assert (Hcur : g_cur g <> []).
          { intros E. specialize (Hcd E). rewrite (wi_n w g Hinv), E, Hcd in Hpos. cbn in Hpos. lia. }
          rewrite Hdata, bw_append_all_spec. cbn [bw_prev]. rewrite (last_key_lk _ _ Hcur).
          assert (Hlt : cmp c (lk (g_cur g)) k = Lt).
          { apply (Hbelow (last (g_cur g) ([], []))). apply in_or_app. right. apply lk_in. exact Hcur. }
          rewrite Hlt. reflexivity. }
        split; [reflexivity|]. split; [reflexivity|]. split; [exact Hp|]. split; [exact Hdata|].
        split; [exact (wi_index w g Hinv)|]. split; [exact Hl|].
        (* the law is unchanged: the block being built keeps its first key *)
        pose proof (wi_seps w g Hinv) as Hok. unfold g_all in Hok.
        destruct (g_cur g) as [|x0 cur0] eqn:Ec.
        + rewrite (Hcd eq_refl) in *. intros i Hi. rewrite Hl in Hi. cbn in Hi. lia.
        + intros i Hi. destruct (Hok i Hi) as [H1 H2]. split.
          * destruct (Nat.lt_ge_cases i (length (g_done g))) as [L|L]; [|lia].
            rewrite app_nth1 in * by lia. exact H1.
          * intros HS. rewrite app_length in HS, H2. cbn [length] in HS, H2. specialize (H2 HS).
            destruct (Nat.lt_ge_cases (S i) (length (g_done g))) as [L|L].
            -- rewrite app_nth1 in * by lia. exact H2.
            -- rewrite app_nth2 in * by lia. replace (S i - length (g_done g))%nat with 0%nat in * by lia.
               cbn [nth] in *. exact H2. }
    destruct P1 as (seps1 & Hchk & E1 & E2 & E3 & E4 & E5 & E6 & Hok1).
    set (w1 := tw_flush_pending c w k) in *.
    set (cur' := g_cur g ++ [(k, v)]).
    unfold tw_append.
    destruct ((0 <? tw_n w) && negb (match cmp c (bw_prev (tw_data w)) k with Lt => true | _ => false end)); [discriminate|].
    fold w1. cbn [tw_out tw_data tw_index tw_pending tw_n tw_curkeys tw_fblocks].
    rewrite E4, bw_append_all_snoc. fold cur'.
    assert (Hcur' : cur' <> []) by (unfold cur'; destruct (g_cur g); discriminate).
    assert (Hsorted' : sorted c (concat (g_done g) ++ cur')) by (unfold cur'; rewrite app_assoc; exact Hs).
    destruct (blockSize <=? bw_bytes_len (bw_append_all ri (mkBW [] 0 [] []) cur')) eqn:Ecut.
    - (* the block is finished *)
      unfold tw_finish_block. cbn [tw_out tw_data tw_index tw_pending tw_n tw_curkeys tw_fblocks].
      assert (Efin : bw_finish (bw_append_all ri (mkBW [] 0 [] []) cur') = block_build ri cur') by reflexivity.
      rewrite Efin, (write_block_off (lenN (tw_out w1)) (block_build ri cur')).
      fold (wbytes cur'). fold (plen cur').
      eexists. exists (mkG (g_done g ++ [cur']) seps1 []). split; [reflexivity|]. split.
      + constructor; cbn [g_done g_seps g_cur tw_out tw_data tw_index tw_pending tw_n].
        * rewrite concat_app. cbn [concat]. rewrite !app_nil_r. exact Hsorted'.
        * rewrite E2, (wi_n w g Hinv), concat_app. cbn [concat]. rewrite !app_nil_r.
          unfold cur'. rewrite !lenN_app. change (lenN [(k, v)]) with 1. lia.
        * apply Forall_app. split; [exact Hne | constructor; [exact Hcur' | constructor]].
        * rewrite E1, (wi_out w g Hinv). unfold out_of. rewrite map_app, concat_app. cbn [map concat]. rewrite app_nil_r. reflexivity.
        * rewrite E5. f_equal. rewrite handles_from_app, firstn_app, handles_from_length, E6, Nat.sub_diag.
          cbn [firstn]. rewrite app_nil_r. reflexivity.
        * unfold g_all. cbn [g_done g_cur]. rewrite app_nil_r. exact Hok1.
        * left. split; [reflexivity|]. split; [destruct (g_done g); discriminate|].
          split; [rewrite app_length; cbn [length]; lia|].
          rewrite handles_from_app. cbn [handles_from]. rewrite !last_last.
          split; [rewrite E1, (wi_out w g Hinv); reflexivity|].
          split; [cbn [bh_len]; apply plen_pos|].
          unfold bw_reset. rewrite bw_append_all_spec. cbn [bw_prev].
          rewrite (last_key_lk _ _ Hcur'). reflexivity.
      + cbn [g_done g_cur]. rewrite concat_app. cbn [concat]. rewrite !app_nil_r. unfold cur'. rewrite app_assoc. reflexivity.
    - (* the block continues *)
      eexists. exists (mkG (g_done g) seps1 cur'). split; [reflexivity|]. split.
      + constructor; cbn [g_done g_seps g_cur tw_out tw_data tw_index tw_pending tw_n].
        * exact Hsorted'.
        * rewrite E2, (wi_n w g Hinv). unfold cur'. rewrite !lenN_app. change (lenN [(k, v)]) with 1. lia.
        * exact Hne.
        * rewrite E1. exact (wi_out w g Hinv).
        * exact E5.
        * unfold g_all. cbn [g_done g_cur]. destruct cur' eqn:Ec; [congruence|]. rewrite <- Ec. exact Hok1.
        * right. split; [exact E3|]. split; [exact E6|]. split; [reflexivity|]. intros E. congruence.
      + cbn [g_done g_cur]. unfold cur'. rewrite app_assoc. reflexivity.
  Qed.

  (* all Appends *)
  Theorem append_all_inv kvs : forall w g,
    winv w g -> sorted c ((concat (g_done g) ++ g_cur g) ++ kvs) ->
    exists w' g', tw_append_all tp crc compress c blockSize ri snappy w kvs = Some w' /\ winv w' g' /\
      concat (g_done g') ++ g_cur g' = (concat (g_done g) ++ g_cur g) ++ kvs.
  Proof.
    induction kvs as [|[k v] r IH]; intros w g Hinv Hs; cbn [tw_append_all].
    - exists w, g. rewrite app_nil_r. auto.
    - assert (Hs1 : sorted c ((concat (g_done g) ++ g_cur g) ++ [(k, v)])).
      { apply (sorted_prefix _ r). rewrite <- app_assoc. exact Hs. }
      destruct (append_inv w g k v Hinv Hs1) as (w1 & g1 & E1 & Hinv1 & Ep). rewrite E1.
      destruct (IH w1 g1 Hinv1) as (w' & g' & E & Hinv' & Ep').
      + rewrite Ep, <- app_assoc. exact Hs.
      + exists w', g'. split; [exact E|]. split; [exact Hinv'|]. rewrite Ep', Ep, <- app_assoc. reflexivity.
  Qed.
End Writer.
